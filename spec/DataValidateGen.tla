--------------------------- MODULE DataValidateGen ---------------------------
(* Behaviour generator for C18 (model -> code).  Per shape: the schema records and,
   for every data tree within the bounds, the set of violations (all, and those
   that must at least be reported) and the decorated tree (modulo empty
   non-presence containers; decorating twice must give the same tree).
   Shape 100: NRand schema / data pairs sampled with RandomElement (-seed), written
   without expectations: the harness runs them (and seeded mutations of the data)
   through ValidateSchema / AddDefaults and DataValidateTrace judges the events.  *)
EXTENDS DataValidate, SchemaRand, Json, SequencesExt
CONSTANTS Shapes, MaxEntries, Wide, MaxLL, NRand, RandDepth
VARIABLES shape, done

Vec(sch, d) == [d |-> d, viol |-> Violations(sch, d), must |-> MustReport(sch, d), deco |-> Prune(sch, Decorate(sch, d))]
Sfx(n) == ToString(n) \o ".ndjson"

\* ---- sampled data for a schema: conforming names, at most one case per choice ----
\* (ic: members of a case - no present-but-empty list / leaf-list / non-presence container there)
RECURSIVE RandData(_, _), RandEntries(_, _, _)
RandEntries(c, body, n) ==
  IF n = 0 THEN {}
  ELSE RandEntries(c, body, n - 1) \cup {D(KeyVal(n), << >>, RandData(body, FALSE) \cup {D(c.key, <<KeyVal(n)>>, {})})}
RandOpt(c, ic) ==
  LET r == RandomElement(1..4)
      z == RandomElement(1..5) IN          \* z = 1: present but empty
  CASE c.kind = "leaf" ->
         IF r = 1 THEN {} ELSE IF IsEmptyType(c.typ) THEN {D(c.name, << >>, {})}
         ELSE {D(c.name, <<IF r = 2 THEN "10" ELSE "2">>, {})}
    [] c.kind = "leaflist" -> IF r = 1 THEN {} ELSE IF z = 1 /\ ~ic THEN {D(c.name, << >>, {})} ELSE {D(c.name, LLVals(r - 1), {})}
    [] c.kind = "container" ->
         LET k == RandData(c.kids, FALSE) IN
         IF r = 1 THEN {}
         ELSE IF z = 1 /\ ~ic THEN {D(c.name, << >>, {})}
         ELSE IF k = {} /\ ~c.presence /\ ic THEN {} ELSE {D(c.name, << >>, k)}
    [] c.kind = "list" ->
         IF r = 1 THEN {}
         ELSE IF z = 1 /\ ~ic THEN {D(c.name, << >>, {})}
         ELSE {D(c.name, << >>, RandEntries(c, SelectSeq(c.kids, LAMBDA x : x.name # c.key), r - 1))}
    [] c.kind = "choice" ->
         LET i == RandomElement(1..Len(c.kids)) IN
         IF r = 1 THEN {} ELSE RandData(CaseKids(c.kids[i]), TRUE)
RandData(sk, ic) == IF sk = << >> THEN {} ELSE RandOpt(sk[1], ic) \cup RandData(Tail(sk), ic)
RandCase(i) == LET sch == RandSchema(RandDepth, IF i % 2 = 0 THEN "sparse" ELSE "data") IN [id |-> 1000 + i, kids |-> sch, d |-> RandData(sch, FALSE)]

RECURSIVE RandCases2(_)
RandCases2(n) == IF n = 0 THEN << >> ELSE RandCases2(n - 1) \o <<RandCase(n)>>

GInit == shape \in Shapes /\ done = FALSE
GNext == /\ ~done /\ done' = TRUE /\ UNCHANGED shape
         /\ IF shape = 100
            THEN ndJsonSerialize("dvrand.ndjson", RandCases2(NRand))
            ELSE LET sch == DataShape(shape) IN
                 /\ ndJsonSerialize("dvs_" \o Sfx(shape), <<[id |-> shape, kids |-> sch]>>)
                 /\ ndJsonSerialize("dvv_" \o Sfx(shape), SetToSeq({Vec(sch, d) : d \in DataTrees(sch, IF shape \in Wide THEN MaxEntries ELSE 2, MaxLL)}))
=============================================================================
