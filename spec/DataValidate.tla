----------------------------- MODULE DataValidate -----------------------------
(* C18: structural validation of a data tree against a schema, and the
   default-decorated view of a data tree.  Written from RFC 6020 sections 7.5.3
   (non-presence containers), 7.6.1 / 7.6.5 (leaf default / mandatory), 7.7.3-4 and
   7.8.? (min-/max-elements), 7.8.3 (unique), 7.9.3-4 (default case, mandatory
   choice).

   A data node is [name, vals, kids]: vals = the value of a leaf / the values of a
   leaf-list (sequence), kids = set of child data nodes; a list node has one child
   per entry, named by the key value, holding the entry's nodes.  Choices and cases
   do not occur in data.  Judged data trees: every name conforms to the schema, at
   most one case of a choice has nodes, lists have at least one entry, leaf-lists
   at least one value, non-presence containers at least one child (an empty one
   carries no information; whether it "exists" is not defined by the RFC).        *)
EXTENDS SchemaNodes

D(name, vals, kids) == [name |-> name, vals |-> vals, kids |-> kids]
Has(dk, nm)   == \E d \in dk : d.name = nm
Child(dk, nm) == CHOOSE d \in dk : d.name = nm

\* the nodes of one case of a choice: a case node's children, or the short-hand node itself
CaseKids(c) == IF c.kind = "case" THEN c.kids ELSE <<c>>
\* "any node from the case exists in the data tree"
RECURSIVE AnyPresent(_, _)
AnyPresent(kids, dk) ==
  \E i \in 1..Len(kids) : IF IsData(kids[i]) THEN Has(dk, kids[i].name) ELSE AnyPresent(kids[i].kids, dk)
ActiveCases(ch, dk) == {i \in 1..Len(ch.kids) : AnyPresent(CaseKids(ch.kids[i]), dk)}

\* ------------------------------------------------------------- violations
\* k: "missing" (mandatory leaf, or list / leaf-list with min-elements, absent under an
\*    existing parent, looking through non-presence containers and active cases),
\*    "choice" (mandatory choice without any node), "count" (min-/max-elements of a
\*    present list / leaf-list), "unique";  n: the schema node;  path: the data path of
\*    the parent (non-presence containers looked through are part of it)
\*    sp: the same without list entry names (the schema path);  u: for "unique" the statement
\*    (index) and the value tuple two or more entries share - one violation per such group
NoU == [x |-> 0, t |-> << >>]
VioU(k, n, path, sp, u) == [k |-> k, n |-> n, path |-> path, sp |-> sp, u |-> u]
Vio(k, n, path, sp) == VioU(k, n, path, sp, NoU)
\* How an error can identify a violation by its type and path alone (message wording is not
\* part of the property): missing / choice - an exec error at the parent's path; unique - an
\* exec error at the list's path; count - a too-few / too-many-elements error at the schema path
VKey(v) == CASE v.k = "unique" -> [t |-> "exec", path |-> v.path \o <<v.n>>]
             [] v.k = "count"  -> [t |-> "count", path |-> v.sp \o <<v.n>>]
             [] OTHER          -> [t |-> "exec", path |-> v.path]
CountBad(c, n) == n < c.min \/ (c.max > 0 /\ n > c.max)

\* value of the leaf a descendant path designates below dk, << >> when there is none
RECURSIVE Resolve(_, _)
Resolve(dk, path) ==
  IF ~Has(dk, path[1]) THEN << >>
  ELSE IF Len(path) = 1 THEN Child(dk, path[1]).vals ELSE Resolve(Child(dk, path[1]).kids, Tail(path))
UTuple(e, u) == [i \in 1..Len(u) |-> Resolve(e.kids, u[i])]
UComplete(e, u) == \A i \in 1..Len(u) : Resolve(e.kids, u[i]) # << >>
\* the groups of a unique statement: value tuples that two or more complete entries share
UniqueGroups(c, es) ==
  UNION {{[x |-> x, t |-> UTuple(e1, c.uniq[x])] :
            e1 \in {e \in es : UComplete(e, c.uniq[x]) /\ \E e2 \in es : e2 # e /\ UComplete(e2, c.uniq[x])
                                                          /\ UTuple(e2, c.uniq[x]) = UTuple(e, c.uniq[x])}}
         : x \in 1..Len(c.uniq)}

\* all = TRUE: every violation; all = FALSE: a list that violates its own cardinality
\* hides whatever is wrong about its entries (the statement does not ask for more
\* than one error per tree, this is the set a validator must at least report)
RECURSIVE Viol(_, _, _, _, _)
ViolNode(c, dk, path, sp, all) ==
  CASE c.kind = "leaf" -> IF c.mandatory /\ ~Has(dk, c.name) THEN {Vio("missing", c.name, path, sp)} ELSE {}
    [] c.kind = "leaflist" ->
         IF ~Has(dk, c.name) THEN (IF c.min > 0 THEN {Vio("missing", c.name, path, sp)} ELSE {})
         ELSE IF CountBad(c, Len(Child(dk, c.name).vals)) THEN {Vio("count", c.name, path, sp)} ELSE {}
    [] c.kind = "list" ->
         IF ~Has(dk, c.name) THEN (IF c.min > 0 THEN {Vio("missing", c.name, path, sp)} ELSE {})
         ELSE LET es == Child(dk, c.name).kids
                  cnt == IF CountBad(c, Cardinality(es)) THEN {Vio("count", c.name, path, sp)} ELSE {}
              IN IF cnt # {} /\ ~all THEN cnt
                 ELSE cnt \cup {VioU("unique", c.name, path, sp, g) : g \in UniqueGroups(c, es)}
                          \cup UNION {Viol(c.kids, e.kids, path \o <<c.name, e.name>>, sp \o <<c.name>>, all) : e \in es}
    [] c.kind = "container" ->
         IF Has(dk, c.name) THEN Viol(c.kids, Child(dk, c.name).kids, path \o <<c.name>>, sp \o <<c.name>>, all)
         ELSE IF c.presence THEN {}
         ELSE Viol(c.kids, {}, path \o <<c.name>>, sp \o <<c.name>>, all)
    [] c.kind = "choice" ->
         LET act == ActiveCases(c, dk) IN
         IF act = {} THEN (IF c.mandatory THEN {Vio("choice", c.name, path, sp)} ELSE {})
         ELSE UNION {Viol(CaseKids(c.kids[i]), dk, path, sp, all) : i \in act}
Viol(sk, dk, path, sp, all) == UNION {ViolNode(sk[i], dk, path, sp, all) : i \in 1..Len(sk)}

Violations(schema, data) == Viol(schema, data, << >>, << >>, TRUE)
MustReport(schema, data) == Viol(schema, data, << >>, << >>, FALSE)

\* ---------------------------------------------------------------- defaults
RECURSIVE Deco(_, _), DecoKids(_, _)
DecoNode(c, dk) ==
  CASE c.kind = "leaf" ->
         IF Has(dk, c.name) THEN {Child(dk, c.name)}
         ELSE IF c.def # "" THEN {D(c.name, <<c.def>>, {})} ELSE {}
    [] c.kind = "leaflist" -> IF Has(dk, c.name) THEN {Child(dk, c.name)} ELSE {}
    [] c.kind = "list" ->
         IF Has(dk, c.name)
         THEN LET l == Child(dk, c.name) IN {D(l.name, l.vals, {D(e.name, e.vals, Deco(c.kids, e.kids)) : e \in l.kids})}
         ELSE {}
    [] c.kind = "container" ->
         IF Has(dk, c.name) THEN LET x == Child(dk, c.name) IN {D(x.name, x.vals, Deco(c.kids, x.kids))}
         ELSE IF c.presence THEN {}
         ELSE LET inner == Deco(c.kids, {}) IN IF inner = {} THEN {} ELSE {D(c.name, << >>, inner)}
    [] c.kind = "choice" ->
         LET act == ActiveCases(c, dk)
             sel == IF act # {} THEN act ELSE {i \in 1..Len(c.kids) : c.def # "" /\ c.kids[i].name = c.def}
         IN UNION {DecoKids(CaseKids(c.kids[i]), dk) : i \in sel}
DecoKids(sk, dk) == UNION {DecoNode(sk[i], dk) : i \in 1..Len(sk)}
\* the decorated children of a data node; nodes the schema does not know are explicit data too
Deco(sk, dk) == DecoKids(sk, dk) \cup {d \in dk : ~HasVisible(sk, d.name)}

Decorate(schema, data) == Deco(schema, data)

\* trees are compared modulo non-presence containers without children
RECURSIVE Prune(_, _)
PruneNode(sk, d) ==
  IF ~HasVisible(sk, d.name) THEN {d}
  ELSE LET s == VisibleNamed(sk, d.name) IN
       CASE s.kind = "container" ->
              LET k == Prune(s.kids, d.kids) IN IF k = {} /\ ~s.presence THEN {} ELSE {D(d.name, d.vals, k)}
         [] s.kind = "list" -> {D(d.name, d.vals, {D(e.name, e.vals, Prune(s.kids, e.kids)) : e \in d.kids})}
         [] OTHER -> {d}
Prune(sk, dk) == UNION {PruneNode(sk, d) : d \in dk}

\* every absent non-presence container (outside cases) made present and empty, at every level
RECURSIVE Materialise(_, _)
Materialise(sk, dk) ==
  {IF ~HasVisible(sk, d.name) THEN d
   ELSE LET c == VisibleNamed(sk, d.name) IN
        CASE c.kind = "container" -> D(d.name, d.vals, Materialise(c.kids, d.kids))
          [] c.kind = "list" -> D(d.name, d.vals, {D(e.name, e.vals, Materialise(c.kids, e.kids)) : e \in d.kids})
          [] OTHER -> d
   : d \in dk}
  \cup {D(sk[i].name, << >>, Materialise(sk[i].kids, {})) :
         i \in {j \in 1..Len(sk) : sk[j].kind = "container" /\ ~sk[j].presence /\ ~Has(dk, sk[j].name)}}

\* ---- laws checked by TLC (DataValidateMC) ----
\* a data tree has one node per name below a parent
RECURSIVE WellFormed(_)
WellFormed(dk) == \A a \in dk : (\A b \in dk : a.name = b.name => a = b) /\ WellFormed(a.kids)
\* explicit data is kept as it is
RECURSIVE SubTree(_, _)
SubTree(a, b) == \A d \in a : \E x \in b : x.name = d.name /\ x.vals = d.vals /\ SubTree(d.kids, x.kids)
\* whatever was added is a leaf holding its schema default, or a non-presence container of such
RECURSIVE OnlyDefaults(_, _, _)
OnlyDefaults(sk, orig, deco) ==
  \A d \in deco :
    IF ~HasVisible(sk, d.name) THEN d \in orig
    ELSE LET s == VisibleNamed(sk, d.name) IN
      IF Has(orig, d.name)
      THEN LET o == Child(orig, d.name) IN
           CASE s.kind = "container" -> OnlyDefaults(s.kids, o.kids, d.kids)
             [] s.kind = "list" -> \A e \in d.kids : Has(o.kids, e.name) /\ OnlyDefaults(s.kids, Child(o.kids, e.name).kids, e.kids)
             [] OTHER -> d = o
      ELSE \/ s.kind = "leaf" /\ s.def # "" /\ d.vals = <<s.def>>
           \/ s.kind = "container" /\ ~s.presence /\ d.kids # {} /\ OnlyDefaults(s.kids, {}, d.kids)

\* ------------------------------------------------- enumeration of data trees
\* leaves named in a unique statement take two values so that entries can agree or differ
RECURSIVE UniqueLeaves(_)
UniqueLeaves(kids) ==
  UNION {UNION {{u[y][Len(u[y])] : y \in 1..Len(u)} : u \in SeqRange(kids[i].uniq)} \cup UniqueLeaves(kids[i].kids)
         : i \in 1..Len(kids)}
\* keys, leaf-list values and leaf values are drawn so that natural order and byte order differ
\* (2 < 10 < 100 naturally, "10" < "100" < "2" < "9" bytewise); all are valid int8 and strings
KeyVal(i) == CASE i = 1 -> "2" [] i = 2 -> "10" [] OTHER -> "9"
LLVals(n) == SubSeq(<<"2", "10", "9", "100">>, 1, n)

\* DataSets(sk, U, me, ml, ic): all sets of data nodes below a parent with schema children sk;
\* U = names of two-valued leaves, me = maximal number of list entries, ml = of leaf-list values,
\* ic = sk are the members of a case (no present-but-empty nodes there)
RECURSIVE DataSets(_, _, _, _, _), EntrySets(_, _, _)
Opts(c, U, me, ml, ic) ==
  CASE c.kind = "leaf" ->
         {{}} \cup (IF IsEmptyType(c.typ) THEN {{D(c.name, << >>, {})}}
                    ELSE {{D(c.name, <<v>>, {})} : v \in (IF c.name \in U THEN {"2", "10"} ELSE {"2"})})
    [] c.kind = "leaflist" -> {{}} \cup {{D(c.name, LLVals(n), {})} : n \in (IF ic THEN 1 ELSE 0)..ml}
    [] c.kind = "container" ->
         {{}} \cup {{D(c.name, << >>, k)} : k \in (DataSets(c.kids, U, me, ml, FALSE) \ (IF c.presence \/ ~ic THEN {} ELSE {{}}))}
    [] c.kind = "list" ->
         LET body == DataSets(SelectSeq(c.kids, LAMBDA x : x.name # c.key), U, me, ml, FALSE) IN
         {{}} \cup {{D(c.name, << >>, es)} : es \in UNION {EntrySets(c, body, n) : n \in (IF ic THEN 1 ELSE 0)..me}}
    [] c.kind = "choice" ->
         {{}} \cup UNION {DataSets(CaseKids(c.kids[i]), U, me, ml, TRUE) \ {{}} : i \in 1..Len(c.kids)}
\* sets of n entries with keys 1..n, every combination of contents
EntrySets(c, body, n) ==
  IF n = 0 THEN {{}}
  ELSE {es \cup {D(KeyVal(n), << >>, b \cup {D(c.key, <<KeyVal(n)>>, {})})} : es \in EntrySets(c, body, n - 1), b \in body}
DataSets(sk, U, me, ml, ic) ==
  IF sk = << >> THEN {{}}
  ELSE {a \cup b : a \in Opts(sk[1], U, me, ml, ic), b \in DataSets(Tail(sk), U, me, ml, ic)}

DataTrees(schema, me, ml) == DataSets(schema, UniqueLeaves(schema), me, ml, FALSE)

\* ------------------------------------------------------------------ shapes
\* Sparse levels: a mandatory node of every kind (1 leaf, 2 choice, 3 list with min-elements,
\* 4 leaf-list with min-elements) at every nesting position of choices within cases (depth
\* 1..3), in a level that holds nothing else mandatory and no non-presence container; every
\* enclosing case has another member (t<d>) that can activate it alone.  Once at the top level
\* and once inside a presence container.
Num(d) == CASE d = 1 -> "1" [] d = 2 -> "2" [] OTHER -> "3"
MandNode(kind) ==
  CASE kind = 1 -> LeafM("m", "string")
    [] kind = 2 -> ChoiceM("m", << Case("m1", << Leaf("x", "string") >>), Case("m2", << Leaf("y", "string") >>) >>)
    [] kind = 3 -> ListX("m", "k", 1, 0, << >>, << Leaf("k", "string") >>)
    [] OTHER    -> LLmm("m", "string", 1, 0)
RECURSIVE SparseChoice(_, _)
SparseChoice(kind, d) ==
  Choice("c" \o Num(d), << Case("a" \o Num(d), << Leaf("t" \o Num(d), "string"),
                                                   IF d = 1 THEN MandNode(kind) ELSE SparseChoice(kind, d - 1) >>),
                           Case("b" \o Num(d), << Leaf("u" \o Num(d), "string") >>) >>)
SparseShape(kind, d) == << SparseChoice(kind, d), PCont("p", << SparseChoice(kind, d) >>) >>
\* Nested default cases: choices nested in cases, `depth` levels (level `depth` outermost), level d
\* with a default case (case a<d>) iff bit d of mask is set; every case holds a leaf with a default,
\* case a<d> also a non-presence container with a default and the next choice; hosted by a
\* non-presence container (1: absent, present-but-empty or present with nodes), a presence
\* container (2) or a list entry (3).
P2(d) == CASE d = 1 -> 1 [] d = 2 -> 2 [] OTHER -> 4
Bit(mask, d) == LET q == mask \div P2(d) IN q - 2 * (q \div 2) = 1
RECURSIVE NestChoice(_, _)
NestChoice(mask, d) ==
  LET cases == << Case("a" \o Num(d), << LeafD("x" \o Num(d), "string", "dx" \o Num(d)),
                                         Cont("n" \o Num(d), << LeafD("y" \o Num(d), "string", "dy" \o Num(d)) >>) >>
                                      \o (IF d = 1 THEN << >> ELSE <<NestChoice(mask, d - 1)>>)),
                  Case("b" \o Num(d), << LeafD("z" \o Num(d), "string", "dz" \o Num(d)), Leaf("w" \o Num(d), "string") >>) >>
  IN IF Bit(mask, d) THEN ChoiceD("c" \o Num(d), "a" \o Num(d), cases) ELSE Choice("c" \o Num(d), cases)
NestShape(host, depth, mask) ==
  CASE host = 1 -> << Cont("np", << NestChoice(mask, depth) >>) >>
    [] host = 2 -> << PCont("pc", << NestChoice(mask, depth) >>) >>
    [] OTHER    -> << List("l", "k", << Leaf("k", "string"), NestChoice(mask, depth) >>) >>
U1(a) == << << <<a>> >> >>
DataShape(id) ==
  CASE id = 1 ->   \* mandatory / default under a presence container, nested non-presence containers
         << PCont("p", << LeafM("a", "string"), LeafD("d", "string", "dv"),
                          Cont("np", << LeafM("nm", "string"), LeafD("nd", "int8", "7"),
                                        Cont("np2", << LLmm("ll", "string", 1, 2) >>) >>) >>) >>
    [] id = 2 ->   \* default case, defaults in several cases, mandatory leaf in a non-default case
         << ChoiceD("ch", "c1", << Case("c1", << LeafD("x1", "string", "dx1"), Leaf("y1", "string") >>),
                                   Case("c2", << LeafD("x2", "string", "dx2"), LeafM("y2", "string"), Leaf("z2", "string") >>) >>),
            LeafD("t", "string", "dt") >>
    [] id = 3 ->   \* mandatory choice, mandatory choice nested in a case, mandatory leaf in the other case
         << ChoiceM("o", << Case("o1", << Leaf("a", "string"),
                                          ChoiceM("i", << Case("i1", << Leaf("b", "string") >>),
                                                          Case("i2", << LeafD("c", "string", "dc"), Leaf("c2", "string") >>) >>) >>),
                            Case("o2", << LeafM("d", "string"), Leaf("e", "string") >>) >>) >>
    [] id = 4 ->   \* choice with a default case inside a non-presence container: defaults of absent containers
         << PCont("p", << Cont("np", << LeafD("nd", "string", "ndv"),
                                        ChoiceD("ich", "i1", << Case("i1", << LeafD("ix1", "string", "d1") >>),
                                                                Case("i2", << LeafD("ix2", "string", "d2"), Leaf("iy2", "string") >>) >>),
                                        Cont("np2", << LeafD("zd", "string", "zdv"), Leaf("z", "string") >>) >>) >>) >>
    [] id = 5 ->   \* list: unique over a leaf, max-elements, default and mandatory leaves in entries
         << ListX("l", "k", 0, 2, U1("v"), << Leaf("k", "string"), Leaf("v", "string"), LeafD("w", "string", "dw"), LeafM("m", "string") >>) >>
    [] id = 6 ->   \* unique over descendants (through a container and a presence container), min-elements
         << ListX("l", "k", 1, 0, << << <<"in", "w">>, <<"v">> >>, << <<"pc", "u">> >> >>,
                  << Leaf("k", "int8"), Leaf("v", "string"), Cont("in", << Leaf("w", "string") >>),
                     PCont("pc", << Leaf("u", "string") >>) >>) >>
    [] id = 7 ->   \* leaf-list and list cardinalities at the top and below non-presence containers
         << LLmm("ll", "string", 2, 3), Cont("np", << LLmm("nl", "int8", 1, 0), ListX("l", "k", 2, 2, << >>, << Leaf("k", "string") >>) >>),
            LLmm("ml", "string", 0, 1) >>
    [] id = 8 ->   \* a presence container stops the look-through, non-presence containers three deep
         << Cont("a", << Cont("b", << Cont("c", << LeafM("m", "string"), LeafD("d", "string", "dd") >>),
                                      PCont("pc", << LeafM("pm", "string"), LeafD("pd", "string", "pdd"),
                                                     Cont("q", << LeafM("qm", "string"), LeafD("qd", "string", "qdd") >>) >>) >>) >>) >>
    [] id = 9 ->   \* default cases nested: choice in the default case and in the other case
         << ChoiceD("o", "o1", << Case("o1", << LeafD("a", "string", "da"), Leaf("a2", "string"),
                                               ChoiceD("i", "i1", << Case("i1", << LeafD("b", "string", "db") >>),
                                                                     Case("i2", << LeafD("c", "string", "dc"), Leaf("c2", "string") >>) >>) >>),
                                  Case("o2", << LeafD("d", "string", "dd"), Leaf("d2", "string"),
                                               ChoiceD("j", "j1", << Case("j1", << LeafD("e", "string", "de") >>),
                                                                     Case("j2", << Leaf("f", "string") >>) >>) >>) >>) >>
    [] id = 10 ->  \* mandatory nodes in a non-presence container inside a case: enforced when the case has nodes
         << Choice("ch", << Case("c1", << Leaf("a", "string"), Cont("np", << LeafM("m", "string"), Leaf("x", "string"),
                                                                              LLmm("ll", "string", 1, 0) >>) >>),
                            Case("c2", << Leaf("b", "string") >>) >>) >>
    [] id = 11 ->  \* list in list, presence container in an entry
         << ListX("l", "k", 0, 0, << >>, << Leaf("k", "string"),
                  ListX("m", "j", 1, 2, << >>, << Leaf("j", "string"), LeafM("mm", "string") >>),
                  PCont("pc", << LeafM("pm", "string"), LeafD("pd", "string", "pdd") >>) >>) >>
    [] id = 12 ->  \* short-hand cases, mandatory choice satisfied by a list or a leaf-list
         << ChoiceM("ch", << ListX("cl", "k", 0, 2, << >>, << Leaf("k", "string"), LeafD("cd", "string", "cdd") >>),
                             LLmm("cll", "string", 2, 0), Leaf("cs", "empty") >>),
            ChoiceD("dh", "ds", << LeafD("ds", "string", "dsv"), Leaf("dt", "string") >>) >>
    [] id = 13 ->  \* non-presence containers with defaults inside the default case and inside another case
         << ChoiceD("ch", "c1", << Case("c1", << Cont("n1", << LeafD("d1", "string", "v1"), Leaf("x1", "string"),
                                                                ChoiceD("k", "k1", << Case("k1", << LeafD("kd", "string", "kv") >>),
                                                                                      Case("k2", << LeafD("ke", "string", "kw"), Leaf("kx", "string") >>) >>) >>) >>),
                                   Case("c2", << Cont("n2", << LeafD("d2", "string", "v2"), Leaf("x2", "string") >>), Leaf("y2", "string") >>) >>) >>
    [] id = 14 ->  \* two unique statements, one through a non-presence container, integer leaves
         << PCont("p", << ListX("l", "k", 0, 3, << << <<"a">> >>, << <<"np", "b">>, <<"c">> >> >>,
                                << Leaf("k", "int8"), Leaf("a", "int8"), Cont("np", << Leaf("b", "int8") >>), Leaf("c", "string") >>) >>) >>
    [] id = 15 ->  \* mandatory nodes at the top level (the root exists), empty-typed mandatory leaf
         << LeafM("m", "empty"), ListX("l", "k", 1, 0, << >>, << Leaf("k", "string"), LeafD("d", "int8", "5") >>),
            Cont("np", << ChoiceM("ch", << Case("c1", << Leaf("x", "string") >>), Case("c2", << Leaf("y", "empty") >>) >>) >>) >>
    [] id = 16 ->  \* three unique statements (single leaves and a descendant pair): values that coincide
                   \* across different statements (same spelling in different leaves) are no violation
         << ListX("l", "k", 0, 0, << << <<"a">> >>, << <<"b">> >>, << <<"np", "c">>, <<"a">> >> >>,
                  << Leaf("k", "string"), Leaf("a", "string"), Leaf("b", "string"), Cont("np", << Leaf("c", "string") >>) >>) >>
    [] id = 17 ->  \* names that coincide where YANG allows it: a choice, one of its cases and a leaf in it;
                   \* a short-hand case (choice, implicit case and leaf share the name); a container and its child
         << Choice("x", << Case("x", << LeafD("x", "string", "dx"), Leaf("x2", "string") >>),
                           Case("y", << Leaf("y", "string"), LeafD("y2", "string", "dy2") >>) >>),
            ChoiceD("speed", "speed", << LeafD("speed", "string", "10"), Case("duplex", << Leaf("duplex", "string"), LeafD("dd", "string", "full") >>) >>),
            Cont("n", << LeafD("n", "string", "dn"), Leaf("m", "string") >>) >>
    [] id = 18 ->  \* a case and the choice nested in it share a name (with a default case below), twice nested,
                   \* inside a list entry and at the top
         << Choice("o", << Case("c", << Leaf("p", "string"),
                                        ChoiceD("c", "d", << Case("d", << LeafD("dd", "string", "v") >>),
                                                             Case("c", << Leaf("ee", "string"), LeafD("ef", "string", "w") >>) >>) >>),
                           Case("z", << Leaf("q", "string"), LeafD("qd", "string", "u") >>) >>),
            ListX("l", "k", 0, 0, << >>, << Leaf("k", "string"),
                  ChoiceD("l", "l", << Case("l", << LeafD("ld", "string", "v"), Leaf("lx", "string"),
                                                    ChoiceD("l2", "l2", << LeafD("l2", "string", "w"), Leaf("l3", "string") >>) >>),
                                       Case("m", << Leaf("mx", "string"), LeafD("md", "string", "x") >>) >>) >>) >>
    [] id \in 19..30 -> SparseShape((id - 19) \div 3 + 1, (id - 19) - 3 * ((id - 19) \div 3) + 1)
    [] id \in 31..38 -> NestShape(1, 3, id - 31)
    [] id \in 39..46 -> NestShape(2, 3, id - 39)
    [] id \in 47..50 -> NestShape(1, 2, id - 47)
    [] id \in 51..54 -> NestShape(2, 2, id - 51)
    [] id \in 55..58 -> NestShape(3, 2, id - 55)
    [] id = 59 ->  \* node names are input: siblings whose natural order and byte order differ (cos8 / cos16,
                   \* x2 / x10), at the steps of unique paths (entry level and inside a container)
         << ListX("l", "k", 0, 0, << << <<"cos16">> >>, << <<"q", "x10">> >> >>,
                  << Leaf("k", "string"), Leaf("cos8", "string"), Leaf("cos16", "string"),
                     Cont("q", << Leaf("x2", "string"), Leaf("x10", "string") >>) >>) >>
    [] id = 60 ->  \* mandatory / default / case lookups among such siblings: digit runs, names that are prefixes of
                   \* each other, names differing only in case or in - _ .
         << PCont("p", << LeafM("a10", "string"), LeafD("a9", "string", "d9"), LeafD("a100", "string", "d100"), LeafM("a2", "string"),
                          LeafD("ab", "string", "dab"), LeafM("abc", "string"), LeafD("v", "string", "dv"), LeafM("V", "string"),
                          ChoiceD("c-2", "a-10", << Case("a-10", << LeafD("a-2", "string", "d-2"), Leaf("a_2", "string") >>),
                                                    Case("a-2", << LeafD("a.2", "string", "d.2"), LeafM("a-10", "string") >>) >>) >>) >>
    [] id = 61 ->  \* list entries and leaf-list values whose keys / values sort differently in natural and byte order, unique leaf
                   \* among digit-run siblings, min / max on a leaf-list named like them
         << ListX("l10", "l2", 2, 4, << << <<"l9">> >> >>, << Leaf("l2", "int8"), Leaf("l9", "string"), Leaf("l10", "string") >>),
            LLmm("l2", "string", 2, 4) >>
NDataShapes == 61
=============================================================================
