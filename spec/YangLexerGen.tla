---------------------------- MODULE YangLexerGen ----------------------------
(* C07, model -> code: every text over Alphabet (one representative per
   character class) of length <= MaxLen, in the spelling variants Variants, with
   the geometry an error position must respect (byte lengths of the lines) and
   the item stream the intended lexer produces (type of the last item).  Chunk c
   holds the texts that start with the c-th character (0: the empty text); chunk
   100 holds NRand longer texts drawn with RandomElement (TLC -seed), chunk 200
   the texts of file InFile (repository YANG texts cut at random points), chunk
   300 modules full of distinct string concatenations, chunk 400 complete modules
   with one shape-correct but absurd argument each, chunk 500 complete modules that
   break (or just keep) a rule relating two statements, chunks 601.. characters that
   alias structural ASCII characters or are blanks to Unicode only, in every lexer
   state, chunk 700 texts starting with a byte order mark, chunk 800 an early error (or none)
   followed by long runs of tokens that cover few or no bytes; the texts of chunks 100, 200,
   400 and 500 go once through parse.Parse and once more through another way into the parser.

   Every vector names the way into the parser it is to be handed to (entry; `first`: the text a
   Tree has parsed before, for a second Parse on the same Tree).  What C07 asks is asked of the
   call, whatever the entry: the geometry is that of the text of this call.                 *)
EXTENDS YangLexer, Json, SequencesExt, FiniteSets, TLC
CONSTANTS Alphabet, MaxLen, Variants, NRand, RandLen, InFile, NCatTexts, NCat, AliasWide
VARIABLES chunk, done

Alpha == SetToSeq(Alphabet)
\* spelling variants of the class representatives (variant 1 = the representative itself)
Spell(c, v) ==
  IF v = 1 THEN c
  ELSE IF v = 2 THEN
       CASE c = 97 -> 58       \* a letter -> ':'
         [] c = 32 -> TAB
         [] c = 233 -> 8364    \* 2-byte -> 3-byte character
         [] c = 1114367 -> InvalidBase + 128
         [] OTHER -> c
  ELSE CASE c = 97 -> 45       \* '-'
         [] c = 233 -> 128512  \* 4-byte character
         [] c = 1114367 -> InvalidBase + 192
         [] OTHER -> c
Respell(t, v) == [i \in 1..Len(t) |-> Spell(t[i], v)]

TextsFrom(c) == UNION {{<<c>> \o r : r \in [1..n -> Alphabet]} : n \in 0..(MaxLen - 1)}
\* longer texts: characters that make structure are drawn more often
\* (0 stands for one of the characters that are ordinary to YANG but alias a structural character or a Unicode blank)
Weighted == <<97, 97, 97, 32, 32, 10, 34, 34, 39, 92, 123, 123, 125, 125, 59, 59, 43, 47, 47, 47, 42, 42, 233, 13, 1114367, 0, 0>>
AliasAll == UNION {AliasesAt(AliasOffsets[k]) : k \in 1..Len(AliasOffsets)} \cup UniBlanks
RandTexts(u_) == [k \in 1..NRand |-> [i \in 1..RandomElement(1..RandLen) |->
                   LET w == Weighted[RandomElement(1..Len(Weighted))] IN IF w = 0 THEN RandomElement(AliasAll) ELSE w]]

\* where the text ends, in terms of the lexer: the state function that meets the end of the text
\* (read off the machine that does not treat the end as a terminator, so that "inside a word" shows)
AsPinned == [eof |-> FALSE, wec |-> FALSE, lce |-> FALSE]
RECURSIVE EndAt(_, _)
EndAt(L, t) == LET M == LStep(L, t, AsPinned) IN
  IF M = L THEN L
  ELSE IF Blocked(M) THEN (IF M.fn = "exit" THEN L ELSE EndAt(Took(M), t))
  ELSE EndAt(M, t)
Vec(t, v) == LET u == Respell(t, v)  items == LexAll(u, Intended)  e == EndAt(L0, u) IN
  [text |-> u, variant |-> v, lines |-> LineLens(u), bytes |-> SumWidth(u, 1, Len(u)),
   nitems |-> Len(items), lastItem |-> IF items = << >> THEN "none" ELSE items[Len(items)].typ,
   endsIn |-> e.fn, inBlock |-> e.depth > 0, entry |-> "Parse", first |-> << >>]
\* chunk 300: NCatTexts modules of NCat statements each, every argument a different concatenation of quoted strings
\* (the parser joins the pieces while the lexer goroutine is already one token ahead).  Only the geometry is computed.
RECURSIVE Dec(_)
Dec(k) == IF k < 10 THEN <<48 + k>> ELSE Dec(k \div 10) \o <<48 + (k % 10)>>
CatStmt(i, k) == S2C("  x:s ") \o <<DQ>> \o S2C("p") \o Dec(i) \o S2C(".") \o Dec(k) \o <<DQ>> \o S2C(" + ") \o <<SQ>> \o S2C("q") \o Dec(k) \o <<SQ>>
                 \o (IF k % 3 = 0 THEN <<LF>> \o S2C("    + ") \o <<DQ>> \o S2C("r") \o Dec(k \div 3) \o <<DQ>> ELSE << >>) \o <<SEMI, LF>>
\* text and line geometry are put together piece by piece (every piece ends with a line feed), balanced
Piece(t) == LET ls == LineLens(t) IN [text |-> t, lines |-> SubSeq(ls, 1, Len(ls) - 1), bytes |-> SumWidth(t, 1, Len(t))]
Join2(a, b) == [text |-> a.text \o b.text, lines |-> a.lines \o b.lines, bytes |-> a.bytes + b.bytes]
RECURSIVE CatBody(_, _, _)
CatBody(i, a, b) == IF a = b THEN Piece(CatStmt(i, a))
                    ELSE LET m == (a + b) \div 2 IN Join2(CatBody(i, a, m), CatBody(i, m + 1, b))
CatText(i) == Join2(Join2(Piece(S2C("module m {") \o <<LF>> \o S2C("  namespace \"urn:m\";") \o <<LF>> \o S2C("  prefix m;") \o <<LF>>),
                          CatBody(i, 1, NCat)), Piece(S2C("}") \o <<LF>>))
LightVec(p) == [text |-> p.text, variant |-> 1, lines |-> Append(p.lines, 0), bytes |-> p.bytes, nitems |-> 0, lastItem |-> "n/a", endsIn |-> "n/a", inBlock |-> FALSE, entry |-> "Parse", first |-> << >>]
\* chunk 400: totality reaches the argument validators.  Complete, otherwise valid modules in which one argument with inner
\* structure (dates, ranges, lengths, integers, booleans, enumerated keywords, node identifiers and paths, key lists,
\* patterns, versions, URIs, prefixes) is shape-correct or nearly so but absurd in value.  Only the geometry is computed;
\* what is required of Parse is what C07 requires of every text.
HoleHead == S2C("module m {") \o <<LF>> \o S2C("  namespace \"urn:m\"; prefix m;") \o <<LF>>
Holes == << <<"  revision \"", "\";">>,
            <<"  import x { prefix x; revision-date \"", "\"; }">>,
            <<"  include s { revision-date \"", "\"; }">>,
            <<"  yang-version \"", "\";">>,
            <<"  leaf l { type int32 { range \"", "\"; } }">>,
            <<"  leaf l { type decimal64 { fraction-digits 2; range \"", "\"; } }">>,
            <<"  leaf l { type string { length \"", "\"; } }">>,
            <<"  leaf l { type string { pattern \"", "\"; } }">>,
            <<"  leaf l { type decimal64 { fraction-digits \"", "\"; } }">>,
            <<"  leaf l { type enumeration { enum a { value \"", "\"; } } }">>,
            <<"  leaf l { type bits { bit b { position \"", "\"; } } }">>,
            <<"  leaf l { type leafref { path \"", "\"; } }">>,
            <<"  leaf l { type instance-identifier { require-instance \"", "\"; } }">>,
            <<"  leaf l { type string; mandatory \"", "\"; }">>,
            <<"  leaf l { type string; config \"", "\"; }">>,
            <<"  leaf l { type string; status \"", "\"; }">>,
            <<"  leaf l { type string; must \"", "\"; when \"a\"; }">>,
            <<"  leaf l { type string; default \"", "\"; units \"u\"; }">>,
            <<"  leaf-list ll { type string; min-elements \"", "\"; }">>,
            <<"  leaf-list ll { type string; max-elements \"", "\"; }">>,
            <<"  leaf-list ll { type string; ordered-by \"", "\"; }">>,
            <<"  list li { key \"", "\"; leaf a { type string; } }">>,
            <<"  list li { key a; unique \"", "\"; leaf a { type string; } }">>,
            <<"  container \"", "\";">>,
            <<"  leaf l { type \"", "\"; }">>,
            <<"  container c { if-feature \"", "\"; }">>,
            <<"  identity i { base \"", "\"; }">>,
            <<"  augment \"", "\" { leaf a { type string; } }">>,
            <<"  deviation \"", "\" { deviate not-supported; }">>,
            <<"  deviation /m:c { deviate \"", "\"; }">>,
            <<"  container c { uses g { refine \"", "\" { description d; } } }">>,
            <<"  extension e { argument a { yin-element \"", "\"; } }">>,
            <<"  belongs-to \"", "\" { prefix b; }">> >>
Absurd == << "", "0", "00", "13", "99", "0000", "-0", "-1", "+5", "007", "0x10", "1e9", "1.", ".5", "1.5", "18446744073709551616",
             "99999999999999999999999999999999", "-99999999999999999999999999999999", "2020-13-10", "2019-00-01", "2020-02-30", "0000-00-00",
             "9999-99-99", "2020-1-1", "20200-01-01", "2020-01-32", "2020-01-00", "1..", "..", "..1", "|", "1|", "|1", "1..2|", "5..1", "min..max",
             "max..min", "min", "max", "1 .. 2 | 3", "1..2..3", "true", "false", "TRUE", "1", "unbounded", "current", "obsolete", "user", "system",
             "add", "replace", "a b", "a  b", " a", "a ", "/", "//", "/a", "/a:", ":", "a:", ":a", "a:b:c", "a/", "../", "../../a", "/m:c/m:d",
             "[", "]", "(", ")", "[a", "a[b=", "(a|", "*", "+", "?", "{", "a{2,1}", "[z-a]", ".", "..", "1.1", "1", "2", "1.0", "xml", "XMLa", "-a", "9a",
             "a.b-c_d", "urn:", "http://", "x y z" >>
HoleText(h, v) == HoleHead \o S2C(h[1]) \o S2C(v) \o S2C(h[2]) \o <<LF>> \o S2C("}") \o <<LF>>
PlainLight(t) == [text |-> t, variant |-> 1, lines |-> LineLens(t), bytes |-> SumWidth(t, 1, Len(t)), nitems |-> 0, lastItem |-> "n/a", endsIn |-> "n/a", inBlock |-> FALSE,
                  entry |-> "Parse", first |-> << >>]
\* ---- the ways into the parser.  The package exports parse.Parse and ParseWithInterners, the two-step form
\* New(name, cardinality).Parse(text) / NewWithInterners(...).Parse(text), and Parse may be called again on a Tree that has
\* parsed another text before (entry "Reparse", the earlier text in `first`: a valid module, a text with a syntax error,
\* the empty text, a module that breaks a rule between statements, a short module after many empty lines - shorter and
\* longer, with fewer and more lines than the text under test).  ViaOther(v, k): the vector v through the k-th other entry.
\* (OtherEntries, AllEntries: YangChars)
FirstTexts == << HoleText(Holes[1], "2020-01-01"), S2C("a b c"), << >>, HoleText(Holes[5], "5..1"),
                 [i \in 1..14 |-> LF] \o S2C("module x { namespace \"urn:x\"; prefix x; }"), S2C("module x { typedef a { type string; } typedef a { type string; } }") >>
Via(v, e, k) == [v EXCEPT !.entry = e, !.first = IF e = "Reparse" THEN FirstTexts[1 + (k % Len(FirstTexts))] ELSE << >>]
ViaOther(v, k) == Via(v, OtherEntries[1 + (k % 4)], k \div 4)
ViaAny(v, k) == Via(v, AllEntries[1 + (k % 5)], k \div 5)
\* (every absurd argument once through parse.Parse and once through another entry, so that every hole meets every entry)
AbsurdCases(u_) == UNION {LET v == PlainLight(HoleText(Holes[i], Absurd[j])) IN {v, ViaOther(v, i + j)} : i \in 1..Len(Holes), j \in 1..Len(Absurd)}
\* chunks 601..: one of the characters that are ordinary to YANG although a careless program may take them for structure
\* (YangChars!AliasesAt: low 7 / 8 / 16 bits equal to a separator, quote, brace, semicolon, plus, slash, star or backslash, in
\* every UTF-8 width and plane; UniBlanks: white space to Unicode only), in every lexer state: at the start of a statement,
\* inside and at the end of a word, as an argument, inside both kinds of quotes, after a backslash, inside both kinds of
\* comments, after a brace and a semicolon - followed by nothing, a letter, a terminator, a blank, a quote.  Chunk 600 + k
\* holds offset class k, chunk 600 + Len(AliasOffsets) + 1 the Unicode blanks.
AliasPre == {<< >>} \cup {<<c>> : c \in Alphabet}
            \cup {S2C("a "), <<97, DQ>>, <<97, SQ>>, S2C("/*"), S2C("//"), <<DQ, BSL>>, S2C("a{"), S2C("a;"), S2C("a b"), <<97, SP, DQ>>}
AliasSuf == IF AliasWide THEN {<< >>} \cup {<<c>> : c \in Alphabet} \cup {S2C(" b;"), S2C("*/"), <<DQ, SEMI>>}
            ELSE {<< >>, S2C("a"), S2C(";"), S2C(" "), <<DQ>>}
AliasSet(k) == IF k <= Len(AliasOffsets) THEN AliasesAt(AliasOffsets[k]) ELSE UniBlanks
AliasTexts(k) == {p \o <<x>> \o s : p \in AliasPre, x \in AliasSet(k), s \in AliasSuf}
NAlias == Len(AliasOffsets) + 1
\* chunk 700: texts that start with a byte order mark (a file saved as "UTF-8 with signature"), alone, before every class
\* character and before a complete module.  RFC 6020 does not say whether the mark belongs to the first word, so only what C07
\* asks of every text is required (these are not traced).
BomTexts(u_) == {<<BOM>>} \cup {<<BOM, c>> : c \in Alphabet} \cup {<<BOM, c, d>> : c \in Alphabet, d \in Alphabet}
                \cup {<<BOM>> \o HoleText(Holes[1], "2020-01-01"), <<BOM, BOM>> \o HoleText(Holes[1], "2020-01-01"), <<BOM, LF>> \o HoleText(Holes[1], "x")}
\* chunk 500: totality reaches the exits that are taken only after the whole text has been lexed and parsed: rules that relate
\* one statement to another (RFC 6020 6.2.1: a typedef or grouping name must not be defined twice in a scope, must not shadow a
\* definition of an enclosing scope, a typedef must not take the name of a built-in type; sibling scopes may repeat a name;
\* typedefs and groupings have separate namespaces; likewise two leafs, containers, identities, features, extensions of one
\* name, and the order of revisions).  A module with a scope of every kind (module, container, nested container, list,
\* grouping, container inside a grouping, rpc input, rpc output, notification, end of the module) gets two definitions, at
\* every pair of places, with equal names, different names and built-in type names.  Complete, well-formed texts: whether a
\* text is accepted is not judged here (C09), only what C07 asks of every text.  '~' stands for a line feed.
NL(s) == LET t == S2C(s) IN [i \in 1..Len(t) |-> IF t[i] = 126 THEN LF ELSE t[i]]
ScopeTpl == << "module m {~ namespace \"urn:m\"; prefix m;~",
               " container c {~",
               "  container d {~",
               "  }~  list l { key k; leaf k { type string; }~",
               "  }~ }~ grouping g0 {~",
               "  container e {~",
               "  }~ }~ rpc r { input {~",
               "  } output {~",
               "  } }~ notification n {~",
               " }~ container f { leaf x { type string; } }~",
               "}~" >>
NSlot == Len(ScopeTpl) - 1
\* (text and line geometry are put together from pieces that end with a line feed, as for chunk 300)
TplP == [k \in 1..Len(ScopeTpl) |-> Piece(NL(ScopeTpl[k]))]
NoPiece == [text |-> << >>, lines |-> << >>, bytes |-> 0]
DefOf(kind, name) == Piece(
  CASE kind = "typedef" -> NL("   typedef ") \o S2C(name) \o NL(" { type string; }~")
    [] kind = "grouping" -> NL("   grouping ") \o S2C(name) \o NL(" { leaf y { type string; } }~")
    [] kind = "leaf" -> NL("   leaf ") \o S2C(name) \o NL(" { type string; }~")
    [] kind = "container" -> NL("   container ") \o S2C(name) \o NL(";~")
    [] OTHER -> NL("   ") \o S2C(kind) \o <<SP>> \o S2C(name) \o NL(";~"))
RECURSIVE FillTpl(_, _)
\* fill[k]: what goes to slot k
FillTpl(fill, k) == IF k > NSlot THEN TplP[k] ELSE Join2(Join2(TplP[k], fill[k]), FillTpl(fill, k + 1))
TwoDefs(i, d1, j, d2) == LightVec(FillTpl([k \in 1..NSlot |-> Join2(IF k = i THEN d1 ELSE NoPiece, IF k = j THEN d2 ELSE NoPiece)], 1))
NamePairs == {<<"a", "a">>, <<"a", "b">>, <<"string", "string">>, <<"string", "a">>, <<"a", "int32">>, <<"g0", "g0">>}
ScopeKinds == {<<"typedef", "typedef">>, <<"grouping", "grouping">>, <<"typedef", "grouping">>, <<"grouping", "typedef">>}
OtherKinds == {<<"leaf", "leaf">>, <<"container", "leaf">>, <<"identity", "identity">>, <<"feature", "feature">>, <<"extension", "extension">>, <<"leaf", "typedef">>}
RevDates == <<"2020-01-01", "2021-06-30", "2019-12-31">>
\* (each text through parse.Parse and through one of the other entries: a rule between statements is checked after the last
\* token, where the position of the offending statement has to be found in the text of this call)
Both(v, k) == {v, ViaOther(v, k)}
CrossCases(u_) ==
  UNION {Both(TwoDefs(i, DefOf(k[1], n[1]), j, DefOf(k[2], n[2])), i + 3 * j + Len(k[1]) + Len(n[2])) : i \in 1..NSlot, j \in 1..NSlot, k \in ScopeKinds, n \in NamePairs}
  \cup UNION {Both(TwoDefs(i, DefOf(k[1], n[1]), j, DefOf(k[2], n[2])), i + j + Len(k[1])) : i \in {1, 2, 3, 7, NSlot}, j \in {1, 2, 3, 7, NSlot}, k \in OtherKinds, n \in {<<"a", "a">>, <<"a", "b">>}}
  \cup UNION {Both(TwoDefs(1, Piece(NL("   revision ") \o S2C(RevDates[a]) \o NL(";~")), 1, Piece(NL("   revision ") \o S2C(RevDates[b]) \o NL(" { description d; }~"))), a + 3 * b)
         : a \in 1..3, b \in 1..3}
\* chunk 800: "leaves nothing running" after the parser has given up early: the lexer still has the rest of the text before it,
\* and the rest is made of tokens that cover few or no bytes - empty quoted strings (Quote, an empty String, Quote: three items
\* on two bytes), concatenations of them, empty statements, braces - in runs of 1 to 400, so that the items still to come
\* outnumber the bytes of the text many times.  Heads: nothing, texts whose error comes with the third word, inside a module,
\* inside a block, after a complete statement; and heads without an error (then the run itself decides).  Only the geometry is
\* computed; what is required is what C07 requires of every text - the goroutine dump after the return decides.
RunHeads == << << >>, S2C("a b c "), S2C("leaf "), S2C("} "), S2C("module m { description "), S2C("module m { namespace \"urn:m\"; prefix m; description \"x\" "),
               S2C("a { b c d "), S2C("a \"x\" \"y\" "), S2C("module m {") \o <<LF>> \o S2C("  x:y z /* c */ w") \o <<LF>>, S2C("m:e ") >>
RunUnits == << <<DQ, DQ>>, <<SQ, SQ>>, <<DQ, DQ, SP>>, <<DQ, DQ, PLUS>>, <<SQ, SQ, SP, PLUS, SP>>, <<SQ, SQ, PLUS, DQ, DQ>>, <<SEMI>>, <<LBR>>, <<RBR>>, <<LBR, RBR>>,
               <<LBR, SEMI, RBR>>, <<PLUS>>, S2C("a;"), <<DQ, DQ, SEMI>>, S2C("x ") \o <<DQ, DQ, SEMI>>, <<DQ, DQ, LF>>, <<SQ, SQ, SEMI, LF>>, <<DQ, DQ, LBR>> >>
RunCounts == IF AliasWide THEN (1..64) \cup {8 * k : k \in 9..50} \cup {65, 127, 129, 255, 257, 399}
             ELSE (1..12) \cup {16, 24, 32, 33, 48, 64, 65, 96, 100, 128, 129, 200, 256, 257, 300, 399, 400}
\* (text and geometry are put together from pieces, as for chunk 300; here a piece need not end with a line feed: `lines` are the
\* byte lengths of its complete lines, `open` the bytes after its last line feed)
PieceG(t) == LET ls == LineLens(t) IN [text |-> t, lines |-> SubSeq(ls, 1, Len(ls) - 1), open |-> ls[Len(ls)], bytes |-> SumWidth(t, 1, Len(t))]
JoinG(a, b) == [text |-> a.text \o b.text, bytes |-> a.bytes + b.bytes,
                lines |-> IF b.lines = << >> THEN a.lines ELSE a.lines \o <<a.open + b.lines[1]>> \o Tail(b.lines),
                open |-> IF b.lines = << >> THEN a.open + b.open ELSE b.open]
RECURSIVE RepG(_, _)
RepG(p, n) == IF n = 1 THEN p ELSE LET h == RepG(p, n \div 2)  hh == JoinG(h, h) IN IF n % 2 = 1 THEN JoinG(hh, p) ELSE hh
LightG(p) == [text |-> p.text, variant |-> 1, lines |-> Append(p.lines, p.open), bytes |-> p.bytes, nitems |-> 0, lastItem |-> "n/a", endsIn |-> "n/a", inBlock |-> FALSE,
              entry |-> "Parse", first |-> << >>]
RunTails == << << >>, <<SEMI>>, S2C(" }"), <<LF>> >>
RunCases(u_) == LET HP == [h \in 1..Len(RunHeads) |-> PieceG(RunHeads[h])]
                    UP == [u \in 1..Len(RunUnits) |-> PieceG(RunUnits[u])]
                    TP == [k \in 1..Len(RunTails) |-> PieceG(RunTails[k])] IN
                {ViaAny(LightG(JoinG(JoinG(HP[h], RepG(UP[u], n)), TP[1 + ((h + u + n) % Len(RunTails))])), h + u + n)
                 : h \in 1..Len(RunHeads), u \in 1..Len(RunUnits), n \in RunCounts}
\* chunk 200: given texts (repository YANG cut at random points), file InFile: records [text]
Given(u_) == ndJsonDeserialize(InFile)

\* chunks 100 + 150 and 200 + 250 are written by one chunk each (the sampled texts are drawn once): every text through parse.Parse and
\* once more through one of the other entries
Twice(v, k) == {v, ViaOther(v, k)}
Cases == IF chunk = 0 THEN {Vec(<< >>, 1)}
         ELSE IF chunk = 100 THEN LET R == RandTexts(0) IN UNION {Twice(Vec(R[k], 1), k) : k \in 1..NRand}
         ELSE IF chunk = 200 THEN UNION {Twice(Vec(Given(0)[k].text, 1), k) : k \in 1..Len(Given(0))}
         ELSE IF chunk = 800 THEN RunCases(0)
         ELSE IF chunk = 300 THEN {LightVec(CatText(i)) : i \in 1..NCatTexts}
         ELSE IF chunk = 400 THEN AbsurdCases(0)
         ELSE IF chunk = 500 THEN CrossCases(0)
         ELSE IF chunk = 700 THEN {PlainLight(t) : t \in BomTexts(0)}
         ELSE IF chunk > 600 /\ chunk <= 600 + NAlias THEN {Vec(t, 1) : t \in AliasTexts(chunk - 600)}
         ELSE {Vec(t, v) : t \in TextsFrom(Alpha[chunk]), v \in Variants}
GInit == chunk \in (0..Len(Alpha)) \cup {100, 200, 300, 400, 500, 700, 800} \cup (601..(600 + NAlias)) /\ done = FALSE
GNext == /\ ~done /\ done' = TRUE /\ UNCHANGED chunk
         /\ ndJsonSerialize("vec_" \o ToString(chunk) \o ".ndjson", SetToSeq(Cases))
=============================================================================
