----------------------------- MODULE EncodingGen -----------------------------
(* Generator (model -> code).  For every schema of Sets: the YANG text of the two
   modules, every valid tree over the value classes (all of them for one-item schemas,
   two per type in combinations; RandPer seeded random trees instead when the schema
   has more than ExhMax items) and, for the full trees of schemas with at most MutMax
   items, every single-point mutant of the three encodings as a token sequence (RFC 7951: of every
   full tree for the items up to SizedFullMax; otherwise of the largest full tree), and for the largest
   full tree the documents with a value / content of the wrong shape at every position (ShapeLines).
   Fuzz = TRUE additionally writes the alphabets, contexts and seed trees of the
   decoders' totality runs.  What the code must do with each of them is decided by
   EncodingTrace from the recorded outcome.  One initial state per schema.          *)
EXTENDS EncodingSets, Json, SequencesExt
CONSTANTS Sets, MutMax, ExhMax, RandPer, Fuzz, MutAll, Sizes, SizesMany, ManyMin   \* Sizes / SizesMany: entries per collection in the sized trees of schemas with < / >= ManyMin items;
  \* MutAll = FALSE: plain-JSON and XML single-point mutants of the largest full tree only
VARIABLES si, done
RECURSIVE NameOf(_, _)
NameOf(S, i) == IF i > NMenu THEN "" ELSE (IF i \in S THEN "_" \o ToString(i) ELSE "") \o NameOf(S, i + 1)

\* a seeded random tree: every child present with probability 2/3, random value classes
RandKids(psn, wide) ==
  LET kids == psn.kids
      pick == [i \in 1..Len(kids) |-> IF RandomElement(1..3) = 1 THEN NoTree ELSE RandomElement(TreesOf(kids[i], wide))]
  IN KeepCase(psn, SelectSeq(pick, LAMBDA t : t # NoTree), 1)
RandTree(S) ==
  LET sn == Schema(S)
      top == [i \in 1..Len(sn.kids) |->
                LET ks == RandKids(sn.kids[i], FALSE) IN
                IF ks = << >> THEN NoTree ELSE N(sn.kids[i].n, << >>, ks)]
  IN N("root", << >>, SelectSeq(top, LAMBDA t : t # NoTree))

SchemaLine(S) == [kind |-> "schema", items |-> S, ya |-> YangA(S), yb |-> YangB(S)]
TreeLines(S) ==
  IF Cardinality(S) <= ExhMax
  THEN SetToSeq({[kind |-> "tree", t |-> t] : t \in Trees(S, Cardinality(S) = 1)})
  ELSE [i \in 1..RandPer |-> [kind |-> "tree", t |-> RandTree(S)]]
\* sized trees: every collection with n entries, three fixed arrangements of the children and a seeded random one;
\* for the schema-order arrangement also the XML document with the entries interleaved with their siblings
SizesOf(S) == IF Cardinality(S) >= ManyMin \/ \E i \in S : i > SizedFullMax THEN SizesMany ELSE Sizes
SizedLines(S) == SetToSeq({[kind |-> "tree", t |-> t] : t \in SizedTrees(S, SizesOf(S), {1, 2, 3, 4})})
RiffleLines(S) == SetToSeq({[kind |-> "mut", enc |-> "xml", toks |-> << >>, xtoks |-> XToks(XRiffle(EncX(Schema(S), t)))]
                              : t \in SizedTrees(S, SizesOf(S), {1, 4})})
MutLines(S) ==
  IF Cardinality(S) > MutMax THEN << >>
  ELSE LET sn == Schema(S) IN
       SetToSeq(UNION {
          (IF MutAll \/ t = BigTree(S) \/ \A i \in S : i <= SizedFullMax
           THEN {[kind |-> "mut", enc |-> "rfc", toks |-> m, xtoks |-> << >>] : m \in JMutants(EncJ(TRUE, sn, t))} ELSE {})
          \cup (IF MutAll \/ t = BigTree(S)
                THEN {[kind |-> "mut", enc |-> "json", toks |-> m, xtoks |-> << >>] : m \in JMutants(EncJ(FALSE, sn, t))}
                     \cup {[kind |-> "mut", enc |-> "xml", toks |-> << >>, xtoks |-> m] : m \in XMutants(EncX(sn, t))}
                ELSE {})
          : t \in FullTrees(S)}
          \cup (IF FullTrees(S) = {} \/ ~NsGrid(S) THEN {}
                ELSE {[kind |-> "mut", enc |-> "xml", toks |-> << >>, xtoks |-> m] : m \in XNsMutants(EncX(sn, BigTree(S)))}))
\* values / content of the wrong shape at every position of the three encodings of the largest full tree
ShapeLines(S) ==
  IF Cardinality(S) > MutMax \/ FullTrees(S) = {} THEN << >>
  ELSE LET sn == Schema(S)  t == BigTree(S) IN
       SetToSeq({[kind |-> "mut", enc |-> "rfc", toks |-> m, xtoks |-> << >>] : m \in JShapeMutants(EncJ(TRUE, sn, t))}
                \cup {[kind |-> "mut", enc |-> "json", toks |-> m, xtoks |-> << >>] : m \in JShapeMutants(EncJ(FALSE, sn, t))}
                \cup {[kind |-> "mut", enc |-> "xml", toks |-> << >>, xtoks |-> m] : m \in XShapeMutants(EncX(sn, t))})
FuzzLines ==
  <<SchemaLine(FuzzItems), [kind |-> "jalpha", toks |-> JAlphabet], [kind |-> "xalpha", xtoks |-> XAlphabet]>>
  \o [i \in 1..Len(JContexts) |-> [kind |-> "jctx", pre |-> JContexts[i].pre, suf |-> JContexts[i].suf]]
  \o [i \in 1..Len(XContexts) |-> [kind |-> "xctx", xpre |-> XContexts[i].pre, xsuf |-> XContexts[i].suf]]
  \o [i \in 1..12 |-> [kind |-> "tree", t |-> RandTree(FuzzItems)]]

GInit == si \in Sets \cup (IF Fuzz THEN {{}} ELSE {}) /\ done = FALSE
GNext == /\ ~done /\ done' = TRUE /\ UNCHANGED si
         /\ IF si = {} THEN ndJsonSerialize("fuzz.ndjson", FuzzLines)
            ELSE ndJsonSerialize("vec" \o NameOf(si, 1) \o ".ndjson", <<SchemaLine(si)>> \o TreeLines(si) \o SizedLines(si) \o MutLines(si) \o ShapeLines(si) \o RiffleLines(si))
=============================================================================
