---------------------------- MODULE XPathGrammar ----------------------------
(* Which strings are XPath expressions of the supported subset, at token level.
   Written from XPath 1.0 (REC-xpath-19991116) section 3 and RFC 6020 section 12
   (path-arg), not from the yacc files.

   A text is a sequence of *text tokens* (spellings); the harness joins them with
   whitespace (which XPath allows between any two tokens) or, where no separator is
   needed, with nothing.  Lex applies the section 3.7 disambiguation: whether a '*'
   or a name is an operator depends on the preceding token; a name followed by '('
   is a function name or node type; followed by '::' an axis name.

   Verdict(ts):  "reject"  - not an XPath 1.0 expression, or uses a construct the
                             property lists as rejected (axis, '@', '//', node-type
                             test, '$', unknown function, unknown prefix, wrong
                             arity, lexical error, empty);
                 "accept"  - an expression of the supported subset;
                 "unspecified" - XPath 1.0, but a form the property is silent on
                             (filter expression followed by predicate or path,
                             union, node-set function applied to a non-path ...). *)
EXTENDS Integers, Sequences, FiniteSets, TLC

HasPrefix(s, p) == Len(s) >= Len(p) /\ SubSeq(s, 1, Len(p)) = p
Ch1(t) == SubSeq(t, 1, 1)
ChN(t) == SubSeq(t, Len(t), Len(t))
Letters == {"a","b","c","d","e","f","g","h","i","j","k","l","m","n","o","p","q","r","s","t","u","v","w","x","y","z","_",
            "A","B","C","D","E","F","G","H","I","J","K","L","M","N","O","P","Q","R","S","T","U","V","W","X","Y","Z"}
Digits == {"0","1","2","3","4","5","6","7","8","9"}
IsNameTok(t) == Len(t) > 0 /\ Ch1(t) \in Letters
IsLitTok(t) == Len(t) > 1 /\ Ch1(t) \in {"'", "\""} /\ ChN(t) = Ch1(t)
IsNumTok(t) == Len(t) > 0 /\ (Ch1(t) \in Digits \/ (Len(t) > 1 /\ Ch1(t) = "." /\ SubSeq(t, 2, 2) \in Digits))
\* Number ::= Digits ('.' Digits?)? | '.' Digits
WellFormedNum(t) == LET dots == {i \in 1..Len(t) : SubSeq(t, i, i) = "."}
                    IN /\ \A i \in 1..Len(t) : SubSeq(t, i, i) \in Digits \cup {"."}
                       /\ Cardinality(dots) <= 1
                       /\ \E i \in 1..Len(t) : SubSeq(t, i, i) \in Digits
ColonPos(t) == LET ps == {i \in 1..Len(t) : SubSeq(t, i, i) = ":"} IN IF ps = {} THEN 0 ELSE CHOOSE i \in ps : \A j \in ps : i <= j
PrefixOf(t) == IF ColonPos(t) = 0 THEN "" ELSE SubSeq(t, 1, ColonPos(t) - 1)
\* a name token is a QName (Namespaces in XML, productions 4-8): both halves are NCNames - a letter or underscore first, then
\* letters, digits, '-', '.', '_' - and the local half of a name test may be '*'
NCNameOK(s) == Len(s) > 0 /\ Ch1(s) \in Letters /\ \A i \in 1..Len(s) : SubSeq(s, i, i) \in Letters \cup Digits \cup {"-", "."}
QNameOK(t) == IF ColonPos(t) = 0 THEN NCNameOK(t)
              ELSE LET l == SubSeq(t, ColonPos(t) + 1, Len(t)) IN NCNameOK(PrefixOf(t)) /\ (l = "*" \/ NCNameOK(l))
KnownPrefixes == {"", "p", "q"}

\* registered functions and their declared number of arguments
FnArity == [f \in {"boolean", "ceiling", "concat", "contains", "re-match", "count", "false", "floor", "last", "local-name",
                   "normalize-space", "not", "number", "round", "position", "starts-with", "string", "string-length", "substring",
                   "substring-after", "substring-before", "sum", "translate", "true"} |->
             CASE f \in {"false", "last", "position", "true"} -> 0
               [] f \in {"concat", "contains", "re-match", "starts-with", "substring-after", "substring-before"} -> 2
               [] f \in {"substring", "translate"} -> 3
               [] OTHER -> 1]
NodeSetFns == {"count", "sum", "local-name"}
NodeTypes == {"comment", "text", "processing-instruction", "node"}
AxisNames == {"ancestor", "ancestor-or-self", "attribute", "child", "descendant", "descendant-or-self", "following",
              "following-sibling", "namespace", "parent", "preceding", "preceding-sibling", "self"}
OpNames == {"and", "or", "mod", "div"}

\* ---------------------------------------------------------------- lexer
OperatorG == {"op:and", "op:or", "op:mod", "op:div", "op:*", "/", "//", "|", "+", "-", "=", "!=", "<", "<=", ">", ">="}
CanBeOp(prev) == prev # "none" /\ prev \notin ({"@", "::", "(", "[", ","} \cup OperatorG)
NextIs(ts, i, t) == i + 1 <= Len(ts) /\ ts[i + 1] = t
Punct == {"/", "//", ".", "..", "(", ")", "[", "]", ",", "|", "-", "+", "=", "!=", "<", "<=", ">", ">=", "@", "::"}
\* grammar token (a string): num lit nametest fn:<name> cur deref nodetype axis op:<x> punctuation, or err:<why>
LexOne(ts, i, prev) ==
  LET t == ts[i] IN
  IF IsNumTok(t) THEN (IF WellFormedNum(t) THEN "num" ELSE "err:number")
  ELSE IF IsLitTok(t) THEN "lit"
  ELSE IF t = "*" THEN (IF CanBeOp(prev) THEN "op:*" ELSE "nametest")
  ELSE IF t \in Punct THEN t
  ELSE IF IsNameTok(t) /\ ~QNameOK(t) THEN "err:qname"
  ELSE IF IsNameTok(t) THEN
       IF CanBeOp(prev) THEN (IF t \in OpNames THEN "op:" \o t ELSE "err:operator-name")
       ELSE IF NextIs(ts, i, "(") THEN
            (CASE t = "current" -> "cur" [] t = "deref" -> "deref"
               [] t \in NodeTypes -> "nodetype"
               [] t \in DOMAIN FnArity -> "fn:" \o t
               [] OTHER -> "err:unknown-function")
       ELSE IF NextIs(ts, i, "::") THEN (IF t \in AxisNames THEN "axis" ELSE "err:unknown-axis")
       ELSE IF PrefixOf(t) \notin KnownPrefixes THEN "err:unknown-prefix"
       ELSE "nametest"
  ELSE "err:character"
RECURSIVE LexFrom(_, _, _)
LexFrom(ts, i, prev) == IF i > Len(ts) THEN << >>
   ELSE LET g == LexOne(ts, i, prev) IN IF HasPrefix(g, "err:") THEN <<g>> ELSE <<g>> \o LexFrom(ts, i + 1, g)
Lex(ts) == LexFrom(ts, 1, "none")
IsErr(g) == g # << >> /\ HasPrefix(g[Len(g)], "err:")
IsFn(t) == HasPrefix(t, "fn:")
FnName(t) == SubSeq(t, 4, Len(t))

\* ----------------------------------------- recogniser for XPath 1.0 Expr
\* N(g, i) = set of j such that g[i+1..j] derives N
Tok(g, i, t) == IF i < Len(g) /\ g[i + 1] = t THEN {i + 1} ELSE {}
TokIn(g, i, T) == IF i < Len(g) /\ g[i + 1] \in T THEN {i + 1} ELSE {}
TokFn(g, i) == IF i < Len(g) /\ (IsFn(g[i + 1]) \/ g[i + 1] \in {"cur", "deref"}) THEN {i + 1} ELSE {}
Then(S, g, t) == UNION {Tok(g, j, t) : j \in S}
ThenIn(S, g, T) == UNION {TokIn(g, j, T) : j \in S}
RECURSIVE ExprP(_, _), CloseOr(_, _), AndP(_, _), CloseAnd(_, _), EqP(_, _), CloseEq(_, _), RelP(_, _), CloseRel(_, _),
          AddP(_, _), CloseAdd(_, _), MulP(_, _), CloseMul(_, _), UnaryP(_, _), UnionP(_, _), CloseUnion(_, _), PathP(_, _),
          FilterP(_, _), PredsP(_, _), PrimaryP(_, _), ArgsP(_, _), RelLocP(_, _), CloseRelLoc(_, _), StepP(_, _), LocP(_, _)
ExprP(g, i) == CloseOr(g, AndP(g, i))
CloseOr(g, S) == LET n == UNION {AndP(g, k) : k \in Then(S, g, "op:or")} IN IF n \subseteq S THEN S ELSE CloseOr(g, S \cup n)
AndP(g, i) == CloseAnd(g, EqP(g, i))
CloseAnd(g, S) == LET n == UNION {EqP(g, k) : k \in Then(S, g, "op:and")} IN IF n \subseteq S THEN S ELSE CloseAnd(g, S \cup n)
EqP(g, i) == CloseEq(g, RelP(g, i))
CloseEq(g, S) == LET n == UNION {RelP(g, k) : k \in ThenIn(S, g, {"=", "!="})} IN IF n \subseteq S THEN S ELSE CloseEq(g, S \cup n)
RelP(g, i) == CloseRel(g, AddP(g, i))
CloseRel(g, S) == LET n == UNION {AddP(g, k) : k \in ThenIn(S, g, {"<", "<=", ">", ">="})} IN IF n \subseteq S THEN S ELSE CloseRel(g, S \cup n)
AddP(g, i) == CloseAdd(g, MulP(g, i))
CloseAdd(g, S) == LET n == UNION {MulP(g, k) : k \in ThenIn(S, g, {"+", "-"})} IN IF n \subseteq S THEN S ELSE CloseAdd(g, S \cup n)
MulP(g, i) == CloseMul(g, UnaryP(g, i))
CloseMul(g, S) == LET n == UNION {UnaryP(g, k) : k \in ThenIn(S, g, {"op:*", "op:div", "op:mod"})} IN IF n \subseteq S THEN S ELSE CloseMul(g, S \cup n)
UnaryP(g, i) == UnionP(g, i) \cup UNION {UnaryP(g, k) : k \in Tok(g, i, "-")}
UnionP(g, i) == CloseUnion(g, PathP(g, i))
CloseUnion(g, S) == LET n == UNION {PathP(g, k) : k \in Then(S, g, "|")} IN IF n \subseteq S THEN S ELSE CloseUnion(g, S \cup n)
PathP(g, i) == LocP(g, i) \cup LET f == FilterP(g, i) IN f \cup UNION {RelLocP(g, k) : k \in ThenIn(f, g, {"/", "//"})}
FilterP(g, i) == UNION {PredsP(g, j) : j \in PrimaryP(g, i)}
PredsP(g, i) == {i} \cup UNION {PredsP(g, k) : k \in Then(UNION {ExprP(g, j) : j \in Tok(g, i, "[")}, g, "]")}
ArgsP(g, i) == LET e == ExprP(g, i) IN e \cup UNION {ArgsP(g, k) : k \in Then(e, g, ",")}
PrimaryP(g, i) == Then(UNION {ExprP(g, j) : j \in Tok(g, i, "(")}, g, ")")
                  \cup TokIn(g, i, {"lit", "num"})
                  \cup UNION {Then(Tok(g, j, "("), g, ")") \cup Then(UNION {ArgsP(g, k) : k \in Tok(g, j, "(")}, g, ")") : j \in TokFn(g, i)}
LocP(g, i) == RelLocP(g, i) \cup Tok(g, i, "/") \cup UNION {RelLocP(g, k) : k \in TokIn(g, i, {"/", "//"})}
RelLocP(g, i) == CloseRelLoc(g, StepP(g, i))
CloseRelLoc(g, S) == LET n == UNION {StepP(g, k) : k \in ThenIn(S, g, {"/", "//"})} IN IF n \subseteq S THEN S ELSE CloseRelLoc(g, S \cup n)
NodeTestP(g, i) == Tok(g, i, "nametest") \cup Then(Then(Tok(g, i, "nodetype"), g, "("), g, ")")
                   \cup Then(Then(Then(Tok(g, i, "nodetype"), g, "("), g, "lit"), g, ")")
AxisP(g, i) == Tok(g, i, "@") \cup Then(Tok(g, i, "axis"), g, "::")
StepP(g, i) == TokIn(g, i, {".", ".."}) \cup UNION {PredsP(g, j) : j \in NodeTestP(g, i) \cup UNION {NodeTestP(g, k) : k \in AxisP(g, i)}}
Full(g) == Len(g) > 0 /\ Len(g) \in ExprP(g, 0)

\* -------------------------------------------- arity of every function call
\* scan with a bracket stack; entries [f, commas, empty]
RECURSIVE ArityOK(_, _, _)
NonEmptyTop(st) == IF st = << >> THEN st ELSE [st EXCEPT ![Len(st)] = [st[Len(st)] EXCEPT !.empty = FALSE]]
ArityOK(g, i, st) ==
  IF i > Len(g) THEN TRUE
  ELSE LET t == g[i] IN
    IF t = "(" THEN LET kind == IF i > 1 /\ (IsFn(g[i - 1]) \/ g[i - 1] \in {"cur", "deref", "nodetype"}) THEN g[i - 1] ELSE "paren"
                    IN ArityOK(g, i + 1, Append(NonEmptyTop(st), [f |-> kind, commas |-> 0, empty |-> TRUE]))
    ELSE IF t = "[" THEN ArityOK(g, i + 1, Append(NonEmptyTop(st), [f |-> "pred", commas |-> 0, empty |-> TRUE]))
    ELSE IF t \in {")", "]"} THEN
         IF st = << >> THEN TRUE
         ELSE LET top == st[Len(st)]
                  n == IF top.empty THEN 0 ELSE top.commas + 1
                  ok == CASE top.f = "cur" -> n = 0 [] top.f = "deref" -> n = 1
                          [] IsFn(top.f) -> n = FnArity[FnName(top.f)] [] OTHER -> TRUE
              IN ok /\ ArityOK(g, i + 1, SubSeq(st, 1, Len(st) - 1))
    ELSE IF st = << >> THEN ArityOK(g, i + 1, st)
    ELSE LET top == st[Len(st)]
         IN ArityOK(g, i + 1, [st EXCEPT ![Len(st)] = [top EXCEPT !.empty = FALSE, !.commas = IF t = "," THEN top.commas + 1 ELSE top.commas]])

Unsupported(g) == \E i \in 1..Len(g) : g[i] \in {"@", "axis", "::", "nodetype", "//"}
\* forms the property is silent on
ClosesCall(g, i, what) ==   \* g[i] = ")" closing a call of `what` with no nested parentheses in between
  \E j \in 1..(i - 2) : g[j] = what /\ g[j + 1] = "(" /\ \A k \in (j + 2)..(i - 1) : g[k] \notin {"(", ")"}
IsPathTok(t) == t \in {"nametest", "/", ".", "..", "cur", "deref", "[", "]", "(", ")", "lit", "num", "=", "op:and", "op:or"}
Unspecified(g) ==
  \/ \E i \in 1..Len(g) : g[i] = "|"
  \/ \E i \in 1..(Len(g) - 1) :
        \/ (g[i] = ")" /\ g[i + 1] = "[")                                      \* FilterExpr Predicate
        \/ (g[i] = ")" /\ g[i + 1] = "/" /\ ~ClosesCall(g, i, "cur") /\ ~(\E j \in 1..i : g[j] = "deref"))
        \/ (g[i] \in {"lit", "num"} /\ g[i + 1] \in {"[", "/"})
  \/ \E i \in 1..Len(g) : g[i] = "deref"                                       \* deref: argument forms beyond a plain path are not pinned down
       /\ ~(i + 2 <= Len(g) /\ g[i + 2] \in {"nametest", "/", "..", ".", "cur"})
  \/ \E i \in 1..Len(g) : IsFn(g[i]) /\ FnName(g[i]) \in NodeSetFns            \* node-set functions: only a path argument is clear
       /\ ~(i + 2 <= Len(g) /\ g[i + 2] \in {"nametest", "/", "..", ".", "cur"})
  \/ \E i \in 1..(Len(g) - 1) : g[i] = "deref" /\ \E j \in (i + 2)..Len(g) : g[j] \in {"lit", "num"} \/ IsFn(g[j])

EmptyParens(g) == \E i \in 1..(Len(g) - 1) : g[i] = "(" /\ g[i + 1] = ")" /\ (i = 1 \/ ~(IsFn(g[i - 1]) \/ g[i - 1] \in {"cur", "deref", "nodetype"}))
Why(ts) == LET g == Lex(ts) IN
   IF ts = << >> THEN "empty"
   ELSE IF IsErr(g) THEN g[Len(g)]
   ELSE IF ~Full(g) THEN (IF EmptyParens(g) THEN "not-xpath:empty-parens" ELSE "not-xpath")
   ELSE IF Unsupported(g) THEN "unsupported-construct"
   ELSE IF ~ArityOK(g, 1, << >>) THEN "arity"
   ELSE IF Unspecified(g) THEN "unspecified" ELSE "ok"
Verdict(ts) == LET w == Why(ts) IN IF w = "ok" THEN "accept" ELSE IF w = "unspecified" THEN "unspecified" ELSE "reject"

\* ------------------------------------- RFC 6020 path-arg (leafref paths)
(* path-arg = absolute-path / relative-path
   absolute-path = 1*("/" (node-identifier *path-predicate))
   relative-path = 1*(".." "/") descendant-path
   descendant-path = node-identifier [*path-predicate absolute-path]
   path-predicate = "[" node-identifier "=" current "(" ")" "/" 1*(".." "/") *(node-identifier "/") node-identifier "]" *)
IsNodeId(t) == IsNameTok(t) /\ ~(Len(t) > 1 /\ ChN(t) = "*")
RECURSIVE UpsP(_, _), IdSlashesP(_, _), PPredsP(_, _), AbsP(_, _)
\* a name followed by '(' is a function call, never a node identifier
NodeIdP(ts, i) == IF i < Len(ts) /\ IsNodeId(ts[i + 1]) /\ ~(i + 2 <= Len(ts) /\ ts[i + 2] = "(") THEN {i + 1} ELSE {}
TokT(ts, i, t) == IF i < Len(ts) /\ ts[i + 1] = t THEN {i + 1} ELSE {}
ThenT(S, ts, t) == UNION {TokT(ts, j, t) : j \in S}
UpsP(ts, i) == LET one == ThenT(TokT(ts, i, ".."), ts, "/") IN one \cup UNION {UpsP(ts, k) : k \in one}     \* 1*(".." "/")
IdSlashesP(ts, i) == {i} \cup UNION {IdSlashesP(ts, k) : k \in ThenT(NodeIdP(ts, i), ts, "/")}               \* *(node-identifier "/")
KeyExprP(ts, i) == LET c == ThenT(ThenT(ThenT(TokT(ts, i, "current"), ts, "("), ts, ")"), ts, "/")
                   IN UNION {NodeIdP(ts, m) : m \in UNION {IdSlashesP(ts, k) : k \in UNION {UpsP(ts, j) : j \in c}}}
PPredP(ts, i) == ThenT(UNION {KeyExprP(ts, k) : k \in ThenT(UNION {NodeIdP(ts, j) : j \in TokT(ts, i, "[")}, ts, "=")}, ts, "]")
PPredsP(ts, i) == {i} \cup UNION {PPredsP(ts, k) : k \in PPredP(ts, i)}
AbsStepP(ts, i) == UNION {PPredsP(ts, k) : k \in UNION {NodeIdP(ts, j) : j \in TokT(ts, i, "/")}}
AbsP(ts, i) == LET one == AbsStepP(ts, i) IN one \cup UNION {AbsP(ts, k) : k \in one}
DescP(ts, i) == LET n == NodeIdP(ts, i) IN n \cup UNION {AbsP(ts, m) : m \in UNION {PPredsP(ts, k) : k \in n}}
PathArgP(ts) == AbsP(ts, 0) \cup UNION {DescP(ts, k) : k \in UpsP(ts, 0)}
PathArg(ts) == Len(ts) > 0 /\ Len(ts) \in PathArgP(ts)
\* RFC 6020 section 12: "An identifier MUST NOT start with (('X'|'x') ('M'|'m') ('L'|'l'))" - both halves of a node-identifier
XmlHeads == {x \o m \o l : x \in {"x", "X"}, m \in {"m", "M"}, l \in {"l", "L"}}
StartsXml(s) == Len(s) >= 3 /\ SubSeq(s, 1, 3) \in XmlHeads
LocalOf(t) == IF ColonPos(t) = 0 THEN t ELSE SubSeq(t, ColonPos(t) + 1, Len(t))
LeafrefLexOk(ts) == \A i \in 1..Len(ts) : \/ ts[i] \in {"/", "..", "[", "]", "=", "(", ")"}
                                          \/ (IsNameTok(ts[i]) /\ PrefixOf(ts[i]) \in KnownPrefixes
                                              /\ ~StartsXml(PrefixOf(ts[i])) /\ ~StartsXml(LocalOf(ts[i])))
LeafrefVerdict(ts) == IF PathArg(ts) /\ LeafrefLexOk(ts) THEN "accept" ELSE "reject"
=============================================================================
