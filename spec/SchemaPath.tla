------------------------------ MODULE SchemaPath ------------------------------
(* C17: which token paths a schema accepts, and which element a rejected path
   fails on.

   Three formulations, cross-checked by TLC (SchemaPathMC):
     Rec      the recursive definition over the schema (the meaning);
     Lang     the accepted language generated top-down from the schema;
     StepTok / EndVerdict   the walk machine: one transition per token, state
              (phase, node), verdict at end of input - the mechanism of
              schema/tree.go's per-node-kind Validate methods.

   A path is a sequence of tokens.  Container, list, leaf and leaf-list names
   select children; choice and case nodes are transparent (their data nodes are
   children of the enclosing data node); the token after a list name is its key
   value; the token after a leaf / leaf-list name is its value and must be the
   last one.  Ending on a non-presence container, on a list name or on a leaf
   (leaf-list) name without value is acceptable only when incomplete paths are
   allowed (inc); an empty-typed LEAF needs no value, so its name ends a complete
   path (RFC 6020 9.11: type empty "represents a leaf that does not have any
   value, it conveys information by its presence or absence"; the only token its
   type accepts after the name is the empty string, and like any value it must be
   the last one).  That is the one exception, and it is about leaves: an entry of a
   LEAF-LIST is identified by its value (7.7), whatever the type, so a path that
   stops at the name of a leaf-list - also one of type empty, which RFC 6020 does
   not forbid - names no entry and falls under the rule of the statement: accepted
   only when incomplete paths are allowed.  Ending on a presence container, a list
   entry or a value is complete.

   Verdict: [ok, at]; at = 0 when accepted, else the 1-based index of the first
   offending token, Len(p) + 1 when the path is a proper prefix of accepted paths
   but incomplete (something is missing after the last token).

   Lists with several keys.  "The token after a list name is validated as that
   list's key value": key values come in the order of the key statement (RFC 6020
   7.8.2), so that token is a value of the FIRST key named by the key statement -
   wherever its leaf is declared in the list body.  A token the first key's type
   rejects is therefore the first offending element, whatever follows it (no accepted
   path starts like that under any reading), and a token it accepts makes a viable
   prefix (accepted when incomplete paths are allowed).  The statement does not say
   what follows the first key value of such a list (further key values? children?),
   nor whether ending there is complete: those paths get the verdict Unj (at = -1)
   and are not judged.                                                           *)
EXTENDS SchemaNodes, TLC

Ok     == [ok |-> TRUE, at |-> 0]
Bad(i) == [ok |-> FALSE, at |-> i]
Unj    == [ok |-> FALSE, at |-> -1]      \* the statement prescribes no verdict

NKeys(l)    == Len(l.keys)
FirstKey(l) == l.keys[1]                 \* first in the order of the key statement
KeyType(l)  == VisibleNamed(l.kids, FirstKey(l)).typ
ValueNode(n) == n.kind \in {"leaf", "leaflist"}
\* the one value node whose name alone is a complete path: a LEAF of type empty (not a leaf-list, see above)
NeedsNoValue(n) == n.kind = "leaf" /\ IsEmptyType(n.typ)

\* ---------------------------------------------------------------- meaning
RECURSIVE RecNode(_, _, _, _)
\* token i must select a child
RecKids(kids, p, i, inc) ==
  IF ~HasVisible(kids, p[i]) THEN Bad(i) ELSE RecNode(VisibleNamed(kids, p[i]), p, i + 1, inc)
\* node n was selected by token i-1
RecNode(n, p, i, inc) ==
  CASE n.kind = "container" ->
         IF i > Len(p) THEN (IF n.presence \/ inc THEN Ok ELSE Bad(i)) ELSE RecKids(n.kids, p, i, inc)
    [] n.kind = "list" ->
         IF i > Len(p) THEN (IF inc THEN Ok ELSE Bad(i))
         ELSE IF ~TypeAccepts(KeyType(n), p[i]) THEN Bad(i)
         ELSE IF NKeys(n) > 1 THEN (IF i = Len(p) /\ inc THEN Ok ELSE Unj)
         ELSE IF i = Len(p) THEN Ok
         ELSE RecKids(n.kids, p, i + 1, inc)
    [] ValueNode(n) ->
         IF i > Len(p) THEN (IF NeedsNoValue(n) \/ inc THEN Ok ELSE Bad(i))
         ELSE IF ~TypeAccepts(n.typ, p[i]) THEN Bad(i)
         ELSE IF i < Len(p) THEN Bad(i + 1)
         ELSE Ok
Rec(schema, p, inc) == IF p = << >> THEN Ok ELSE RecKids(schema, p, 1, inc)

Accepted(schema, p, inc)       == Rec(schema, p, inc).ok
FirstOffending(schema, p, inc) == Rec(schema, p, inc).at
Judged(schema, p, inc)         == Rec(schema, p, inc).at # -1

\* the first offending element, characterised without the walk: a prefix is viable iff
\* it is accepted with incomplete paths allowed; the first offending token is the one
\* that makes the prefix non-viable; if every prefix is viable the path is too short
Viable(schema, p, i) == Accepted(schema, SubSeq(p, 1, i), TRUE)
FirstNonViable(schema, p) ==
  IF \A i \in 1..Len(p) : Viable(schema, p, i) THEN Len(p) + 1
  ELSE CHOOSE i \in 1..Len(p) : ~Viable(schema, p, i) /\ \A j \in 1..(i - 1) : Viable(schema, p, j)

\* ------------------------------------------------------ accepted language
\* all paths of at most n tokens accepted with incomplete paths allowed, values from V
RECURSIVE LangNode(_, _, _)
LangKids(kids, n, V) ==
  {<< >>} \cup (IF n = 0 THEN {} ELSE UNION {{<<c.name>> \o q : q \in LangNode(c, n - 1, V)} : c \in Visible(kids)})
LangNode(c, n, V) ==
  CASE c.kind = "container" -> LangKids(c.kids, n, V)
    [] c.kind = "list" ->
         {<< >>} \cup (IF n = 0 THEN {} ELSE
            UNION {{<<v>> \o q : q \in (IF NKeys(c) > 1 THEN {<< >>} ELSE LangKids(c.kids, n - 1, V))} :
                   v \in {w \in V : TypeAccepts(KeyType(c), w)}})
    [] ValueNode(c) ->
         {<< >>} \cup (IF n = 0 THEN {} ELSE {<<v>> : v \in {w \in V : TypeAccepts(c.typ, w)}})

TokSeqs(T, n) == UNION {[1..k -> T] : k \in 0..n}

\* ------------------------------------------------------------ walk machine
\* phases: "in" (inside a container, the root counts as one), "key" (a list name was
\* read), "entry" (inside a list entry), "val" (a leaf / leaf-list name was read),
\* "done" (a value was read), "rej" (rejected at token `at`); "keys" (the first key value of a list with
\* several keys was read), "unk" (a token was read after that: nothing is prescribed any more)
RootNode(schema) == [N("container", "", schema) EXCEPT !.presence = TRUE]
InitSt(schema) == [ph |-> "in", node |-> RootNode(schema), at |-> 0]
Enter(c) == [ph |-> (CASE c.kind = "container" -> "in" [] c.kind = "list" -> "key" [] OTHER -> "val"), node |-> c, at |-> 0]
Rej(st, i) == [ph |-> "rej", node |-> st.node, at |-> i]
StepTok(st, tok, i) ==
  CASE st.ph \in {"in", "entry"} ->
         IF HasVisible(st.node.kids, tok) THEN Enter(VisibleNamed(st.node.kids, tok)) ELSE Rej(st, i)
    [] st.ph = "key" ->
         IF TypeAccepts(KeyType(st.node), tok) THEN [st EXCEPT !.ph = IF NKeys(st.node) > 1 THEN "keys" ELSE "entry"] ELSE Rej(st, i)
    [] st.ph = "keys" -> [st EXCEPT !.ph = "unk"]
    [] st.ph = "unk" -> st
    [] st.ph = "val" ->
         IF TypeAccepts(st.node.typ, tok) THEN [st EXCEPT !.ph = "done"] ELSE Rej(st, i)
    [] st.ph = "done" -> Rej(st, i)
    [] st.ph = "rej" -> st
\* verdict when the input ends after n tokens
EndVerdict(st, n, inc) ==
  CASE st.ph = "in"    -> IF st.node.presence \/ inc THEN Ok ELSE Bad(n + 1)
    [] st.ph = "key"   -> IF inc THEN Ok ELSE Bad(n + 1)
    [] st.ph = "entry" -> Ok
    [] st.ph = "keys"  -> IF inc THEN Ok ELSE Unj
    [] st.ph = "unk"   -> Unj
    [] st.ph = "val"   -> IF NeedsNoValue(st.node) \/ inc THEN Ok ELSE Bad(n + 1)
    [] st.ph = "done"  -> Ok
    [] st.ph = "rej"   -> Bad(st.at)

RECURSIVE RunFrom(_, _, _)
RunFrom(st, p, i) == IF i > Len(p) THEN st ELSE RunFrom(StepTok(st, p[i], i), p, i + 1)
Run(schema, p) == RunFrom(InitSt(schema), p, 1)
\* what the walk was waiting for when it met token i (classifies a disagreement)
PhaseBefore(schema, p, i) ==
  IF i = -1 THEN "unjudged" ELSE IF i > Len(p) THEN "end:" \o Run(schema, p).ph ELSE Run(schema, SubSeq(p, 1, i - 1)).ph

\* ------------------------------------------------- lists with several keys
\* A list with the key statement "kb ka kc" (its first K names) whose key leaves have the types ts[1] .. ts[K] and are declared
\* in the order ord (ord[j] = which key is declared j-th), with a non-key leaf before (style 1) or after
\* (style 2) each of them.  The non-key leaves have a type whose value space differs from the first key's.
KeyName(j)  == CASE j = 1 -> "kb" [] j = 2 -> "ka" [] OTHER -> "kc"      \* (key statement order is no order of the names)
FillName(j) == CASE j = 1 -> "v1" [] j = 2 -> "v2" [] OTHER -> "v3"
OtherType(t) == IF BaseType(t) = "int8" THEN "boolean" ELSE "int8"
RECURSIVE KeyedBody(_, _, _, _)
KeyedBody(ts, ord, style, j) ==
  IF j > Len(ord) THEN << >>
  ELSE LET kl == Leaf(KeyName(ord[j]), ts[ord[j]])
           fl == Leaf(FillName(j), OtherType(ts[1]))
       IN (IF style = 1 THEN <<fl, kl>> ELSE <<kl, fl>>) \o KeyedBody(ts, ord, style, j + 1)
KeyedList(nm, ts, ord, style) == ListK(nm, SubSeq(<<KeyName(1), KeyName(2), KeyName(3)>>, 1, Len(ts)), KeyedBody(ts, ord, style, 1))
\* K distinct types out of three value spaces, in the a-th of the six possible ways
T3 == <<"int8", "string", "boolean">>
TypeSeq(K, a) == LET o == Orders(3)[a] IN SubSeq(<<T3[o[1]], T3[o[2]], T3[o[3]]>>, 1, K)
\* the a-th type assignment in every declaration order of the key leaves from the b-th on (lists l<a>o<b>),
\* the style alternating
RECURSIVE KeyedLists(_, _, _)
KeyedLists(K, a, b) ==
  IF b > Len(Orders(K)) THEN << >>
  ELSE LET style == 1 + ((a + b) - 2 * ((a + b) \div 2))
       IN <<KeyedList("l" \o ToString(a) \o "o" \o ToString(b), TypeSeq(K, a), Orders(K)[b], style)>> \o KeyedLists(K, a, b + 1)

\* ------------------------------------------------- every type x every kind
\* the value spaces used here (SchemaNodes.TypeAccepts), direct and through typedefs
ValTypes == <<"string", "int8", "empty", "boolean", "enum", "union">>
TdTypes  == <<"tstring", "tint8", "tempty", "tbool", "tenum", "tunion">>
\* a leaf <pfx>f<j> and a leaf-list <pfx>l<j> of every type ts[j]
RECURSIVE ValueKids(_, _, _)
ValueKids(pfx, ts, j) ==
  IF j > Len(ts) THEN << >>
  ELSE << Leaf(pfx \o "f" \o ToString(j), ts[j]), LL(pfx \o "l" \o ToString(j), ts[j]) >> \o ValueKids(pfx, ts, j + 1)

\* ------------------------------------------------------------------ shapes
\* every node kind under every node kind, nested choices, empty-typed leaves,
\* presence / non-presence containers, keys of both types, reused names
PathShape(id) ==
  CASE id = 1 ->   \* every kind at the top level
         << Leaf("s", "string"), Leaf("i", "int8"), Leaf("e", "empty"), LL("ll", "int8"),
            PCont("pc", << Leaf("x", "string") >>), Cont("np", << Leaf("y", "int8") >>),
            List("l", "k", << Leaf("k", "int8"), Leaf("v", "string") >>) >>
    [] id = 2 ->   \* every kind inside a non-presence container
         << Cont("c", << Leaf("s", "string"), Leaf("i", "int8"), Leaf("e", "empty"), LL("ll", "int8"),
                         PCont("pc", << Leaf("x", "string") >>), Cont("np", << Leaf("y", "int8") >>),
                         List("l", "k", << Leaf("k", "int8"), Leaf("v", "string"), Cont("in", << Leaf("z", "string") >>) >>),
                         Choice("ch", << Case("c1", << Leaf("a1", "string"), Choice("ich", << Case("i1", << Leaf("b1", "int8") >>) >>) >>),
                                         Case("c2", << Cont("a2", << >>) >>) >>) >>) >>
    [] id = 3 ->   \* every kind inside a list entry
         << List("l", "k", << Leaf("k", "string"), Leaf("v", "int8"), Leaf("e", "empty"), LL("ll", "string"),
                              Cont("in", << Leaf("z", "int8") >>), PCont("pi", << >>),
                              List("m", "j", << Leaf("j", "int8"), Leaf("w", "string") >>),
                              Choice("ch", << Case("c1", << Leaf("a1", "int8") >>), Case("c2", << LL("a2", "int8") >>) >>) >>) >>
    [] id = 4 ->   \* presence and non-presence containers nested both ways, empty containers
         << PCont("p", << Cont("n", << PCont("q", << Cont("m", << >>), PCont("r", << >>) >>), Leaf("y", "string") >>) >>),
            Cont("o", << Cont("o2", << PCont("o3", << Leaf("t", "empty") >>) >>) >>) >>
    [] id = 5 ->   \* nested lists, keys of both types, a list named like its key
         << List("l", "k", << Leaf("k", "int8"), List("m", "j", << Leaf("j", "string"), Leaf("w", "int8"),
                                                              List("k", "k", << Leaf("k", "int8") >>) >>) >>) >>
    [] id = 6 ->   \* choices at the top: nested choices, short-hand case, containers and lists in cases
         << Choice("ch", << Case("c1", << Leaf("a1", "string"),
                                         Choice("ich", << Case("i1", << Leaf("b1", "int8") >>),
                                                          Case("i2", << Cont("b2", << Leaf("z", "empty") >>) >>) >>) >>),
                            Case("c2", << Cont("a2", << >>), List("cl", "k", << Leaf("k", "string") >>) >>),
                            Leaf("sh", "int8") >>),
            Leaf("o", "string") >>
    [] id = 7 ->   \* choice inside a list entry and inside a container inside a case
         << List("l", "k", << Leaf("k", "int8"),
                              Choice("ch", << Case("c1", << Cont("in", << Choice("dch", << Case("d1", << Leaf("u", "string") >>),
                                                                                           Case("d2", << LL("w", "int8") >>) >>) >>) >>),
                                              Case("c2", << Leaf("e", "empty") >>) >>) >>) >>
    [] id = 8 ->   \* the same name at several levels with different kinds
         << Leaf("n", "string"),
            Cont("c", << Leaf("n", "int8"), Cont("d", << Leaf("n", "empty"), PCont("c", << Leaf("d", "string") >>) >>) >>) >>
    [] id = 9 ->   \* leaf-lists and empty leaves in cases and list entries, string values named like nodes
         << LL("ll", "string"), Leaf("e", "empty"),
            Choice("ch", << Case("c1", << LL("cl", "int8") >>), Case("c2", << Leaf("ce", "empty") >>) >>),
            PCont("pc", << Leaf("e", "empty"), LL("ll", "int8") >>) >>
    [] id = 10 ->  \* a deep chain: container / list / container / choice / list / leaf
         << Cont("a", << List("b", "k", << Leaf("k", "string"),
               Cont("c", << Choice("ch", << Case("c1", << List("d", "j", << Leaf("j", "int8"), Leaf("f", "int8") >>) >>) >>) >>) >>) >>) >>
    [] id = 11 ->  \* a list with only its key, directly inside a presence container and at the top
         << List("l", "k", << Leaf("k", "int8") >>), PCont("p", << List("l", "k", << Leaf("k", "string") >>) >>) >>
    [] id = 12 ->  \* choice with a single case inside a non-presence container inside a choice
         << Choice("o", << Case("o1", << Cont("np", << Choice("i", << Case("i1", << Leaf("x", "int8"), PCont("pp", << >>) >>) >>) >>) >>),
                           Case("o2", << Leaf("y", "empty") >>) >>) >>
    [] id = 13 ->  \* types through typedefs, empty-typed leaves (direct and typedef) in a list entry and a case,
                   \* a choice, its short-hand case and the leaf in it sharing one name, a case named like its choice
         << List("top", "k", << Leaf("k", "tstring"), Leaf("enabled", "tempty"), Leaf("e", "empty"), Leaf("i", "tint8"),
                                LL("tl", "tint8"),
                                Choice("speed", << Leaf("speed", "tempty"), Case("duplex", << Leaf("duplex", "tstring") >>) >>) >>),
            Choice("x", << Case("x", << Leaf("x", "tint8") >>), Case("y", << Cont("y", << Leaf("y", "tempty") >>) >>) >>) >>
    [] id = 14 ->  \* node names are input: digit runs whose natural and byte order differ, names that are prefixes
                   \* of each other, names differing only in case or in - _ . (child lookup is by exact name)
         << Cont("x", << Leaf("x2", "int8"), Leaf("x10", "string"), Leaf("x9", "empty"), LL("x100", "int8"),
                         Leaf("ab", "string"), Cont("abc", << Leaf("v", "int8"), Leaf("V", "string") >>),
                         List("a-2", "a_2", << Leaf("a_2", "int8"), Leaf("a.2", "string"), Leaf("a-10", "empty") >>) >>),
            Leaf("X", "string") >>
    [] id = 15 ->  \* single-key lists whose key leaf is not the first child (every key type, both styles for int8)
         << KeyedList("a", <<"int8">>, <<1>>, 1), KeyedList("b", <<"string">>, <<1>>, 1),
            ListK("c", <<"k">>, << Leaf("v", "int8"), Leaf("w", "int8"), Leaf("k", "boolean") >>) >>
    [] id = 16 ->  \* two keys: 6 type pairs (three here, three in shape 17) x 2 declaration orders, non-key leaves interleaved
         KeyedLists(2, 1, 1) \o KeyedLists(2, 2, 1) \o KeyedLists(2, 3, 1)
    [] id = 17 ->
         KeyedLists(2, 4, 1) \o KeyedLists(2, 5, 1) \o KeyedLists(2, 6, 1)
    [] id \in 18..23 ->  \* three keys: one of the 6 type assignments per shape x 6 declaration orders, non-key leaves interleaved
         KeyedLists(3, id - 17, 1)
    [] id = 24 ->  \* lists with several keys in every host (container, presence container, entry of a single-key list,
                   \* case, short-hand case), types through typedefs, keys of one type, key leaves named like other nodes
         << Cont("c", << ListK("m", <<"b", "a">>, << Leaf("a", "tstring"), Leaf("x", "string"), Leaf("b", "tint8") >>) >>),
            PCont("p", << ListK("m", <<"a", "b">>, << Leaf("b", "int8"), Leaf("a", "boolean") >>) >>),
            List("l", "k", << Leaf("v", "int8"), Leaf("k", "string"),
                              ListK("n", <<"k", "v">>, << Leaf("v", "string"), Leaf("k", "int8") >>) >>),
            Choice("ch", << Case("c1", << ListK("q", <<"a", "q">>, << Leaf("q", "string"), Leaf("a", "tint8"), Leaf("x", "empty") >>) >>),
                            ListK("sh", <<"a", "b", "k">>, << Leaf("k", "int8"), Leaf("b", "int8"), Leaf("a", "string") >>) >>),
            ListK("same", <<"a", "b">>, << Leaf("b", "int8"), Leaf("a", "int8") >>) >>
    [] id = 25 ->  \* every type x both node kinds that carry a value, at the top level
         ValueKids("", ValTypes, 1)
    [] id = 26 ->  \* the same through typedefs, inside a list entry (key of an enumeration type)
         << List("l", "k", << Leaf("k", "enum") >> \o ValueKids("", TdTypes, 1)) >>
    [] id = 27 ->  \* value nodes in cases, as short-hand cases, in a non-presence container inside a case, in a presence container
         << Choice("ch", << Case("c1", ValueKids("a", <<"empty", "tbool", "enum">>, 1)),
                            LL("sh", "empty"), Leaf("se", "tempty"), LL("su", "tunion"),
                            Case("c2", << Cont("np", ValueKids("b", <<"tempty", "boolean", "tenum", "union">>, 1)) >>) >>),
            PCont("pc", ValueKids("c", <<"empty", "tunion", "string">>, 1)) >>
    [] id = 28 ->  \* key leaves of every type a key may have (7.8.2: not empty), addressed by name below their own entry
                   \* (with the entry's value, another valid one, an invalid one), beside leaf-lists and leaves of other types
         << List("lb", "k", << Leaf("k", "boolean"), LL("m", "empty") >>),
            List("le", "k", << LL("m", "tempty"), Leaf("k", "enum") >>),
            List("lu", "k", << Leaf("k", "union"), Leaf("e", "empty") >>),
            List("lt", "k", << Leaf("v", "tempty"), Leaf("k", "tbool"), LL("w", "enum") >>),
            List("ln", "k", << Leaf("k", "tenum"), List("in", "k", << Leaf("k", "tunion"), LL("k2", "boolean") >>) >>) >>
NPathShapes == 28

\* tokens tried on a shape: every name of the schema (choice and case names included),
\* a valid integer (also a valid string), a token no type but string accepts, an unknown name,
\* and the empty token (the value of type empty, a valid string, no integer, no name)
\* - in a schema that uses type boolean or the union, also a token only those and string accept ("true");
\* in a schema that uses the enumeration, a token only it and string accept ("on")
RECURSIVE UsesType(_, _)
UsesType(kids, B) == \E i \in 1..Len(kids) : BaseType(kids[i].typ) \in B \/ UsesType(kids[i].kids, B)
BoolToks(schema) == (IF UsesType(schema, {"boolean", "union"}) THEN {"true"} ELSE {})
                    \cup (IF UsesType(schema, {"enum"}) THEN {"on"} ELSE {})
PathTokens(schema) == AllNames(schema) \cup {"5", "bad", "zz", ""} \cup BoolToks(schema)
\* values used inside viable paths (valid and invalid ones for every type)
PathValues == {"5", "bad", ""}

\* tokens with characters that are significant in URLs (+ % / space : @ = & $ ? # ; ,): valid
\* strings, no integers, no names.  Errors render their path with an escaper; the decoded
\* path of an error must be the input's own prefix whatever the tokens contain.
SpecialToks == {"a+b c", "%2F/:@=&$?#;,"}

\* judged paths: every viable path of at most n tokens, continued by every tail of at most x
\* tokens (one-token corruptions and over-long tails of every valid prefix).  The first tail
\* token ranges over the whole alphabet; the further ones over the whole alphabet too (full)
\* or over the token classes only (a valid value, an invalid one, the empty token, an unknown
\* name, a token with URL-significant characters, one node name): a longer viable
\* continuation is a viable path with tails of its own.
TailAlphabet(schema) == PathTokens(schema) \cup {"a+b c"}
SmallAlphabet(schema) == {"5", "bad", "", "zz", "a+b c", CHOOSE nm \in AllNames(schema) : TRUE} \cup BoolToks(schema)
RECURSIVE MoreTails(_, _)
MoreTails(A, k) == IF k = 0 THEN {<< >>} ELSE {<< >>} \cup {<<a>> \o t : a \in A, t \in MoreTails(A, k - 1)}
Tails(schema, x, full) ==
  IF x = 0 THEN {<< >>}
  ELSE {<< >>} \cup {<<a>> \o t : a \in TailAlphabet(schema),
                                  t \in MoreTails(IF full THEN TailAlphabet(schema) ELSE SmallAlphabet(schema), x - 1)}
PathsFor(schema, n, x, full) ==
  {v \o t : v \in LangKids(schema, n, PathValues \cup SpecialToks \cup BoolToks(schema)), t \in Tails(schema, x, full)} \ {<< >>}
\* ... of which those are judged for which the statement prescribes a verdict in at least one mode
JudgedPaths(schema, P) == {p \in P : Judged(schema, p, FALSE) \/ Judged(schema, p, TRUE)}
=============================================================================
