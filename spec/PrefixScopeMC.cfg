INIT MInit
NEXT MNext
CONSTANT MaxSteps = 3
INVARIANT ScopeIsTextual
CHECK_DEADLOCK FALSE
