INIT MCInit
NEXT MCNext
CONSTANT Shapes = {1, 2, 3, 4, 5, 6, 7, 8, 9, 10, 11, 12, 13, 14, 15, 16, 17, 18, 19, 20, 21, 22, 23, 24, 25, 26, 27, 28}
CONSTANT MaxLen = 5
CONSTANT Ext = 1
CONSTANT LangLen = 3
INVARIANT Refines
INVARIANT PrefixChar
INVARIANT Modes
INVARIANT UnjudgedWhere
INVARIANT LangAgrees
CHECK_DEADLOCK FALSE
