SPECIFICATION Spec
CONSTANT MaxSteps = 0
CONSTANT MaxGen = 3
CONSTANT MaxMachs = 2
CONSTANT Emit = FALSE
CONSTANT Batches <- SmallBatches
CONSTANT ExprPool <- SmallExprPool
CONSTANT NamePool <- SmallNamePool
CONSTANT ChkPool <- SmallChkPool
INVARIANT CoreKept
INVARIANT Gate
INVARIANT OnlyValidNames
INVARIANT StampInv
PROPERTY TableGrows
PROPERTY LoadedStable
PROPERTY MachinesImmutable
PROPERTY RunsRepeat
CHECK_DEADLOCK FALSE
