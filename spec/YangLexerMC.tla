----------------------------- MODULE YangLexerMC -----------------------------
(* C07, the mechanism: the lexer goroutine (YangLexer!LStep, blocking on every
   send) and the parser (consume / abort at any consumption point / finish after
   EOF) joined by an unbuffered channel.

   The text is not fixed in advance: the environment supplies the next character
   (any of Alphabet) or the end of the text at the moment the lexer first looks
   that far, up to MaxLen characters.  Every text over Alphabet of length <=
   MaxLen is therefore a path of this model, and every point at which the parser
   may stop consuming is a branch.  Characters before the current position can
   never be looked at again and are dropped from the state (positions are kept
   relative to the current one).

   EofIsTerminator / DrainOnAbort = TRUE is the intended mechanism (what the
   conformance checks use); FALSE describes the pinned code and makes TLC
   produce the hang and the leak (YangLexerPin*.cfg).                            *)
EXTENDS YangLexer, TLC
CONSTANTS MaxLen, Alphabet, EofIsTerminator, DrainOnAbort

VARIABLES inp,      \* characters supplied so far, from the current position on
          gen,      \* how many characters have been supplied in all
          ended,    \* the end of the text has been supplied
          L,        \* lexer goroutine
          P,        \* parser: "run", "finish" (EOF accepted, stopping), "drain" (aborted, stopping), "ok", "err"
          last      \* type of the last item the parser consumed
vars == <<inp, gen, ended, L, P, last>>

Flags(w, c) == [eof |-> EofIsTerminator, wec |-> w, lce |-> c]

Init == /\ inp = << >> /\ gen = 0 /\ ended = FALSE /\ L = L0 /\ P = "run" /\ last = "none"

LexerDone == L.fn = "done"
ParseReturned == P \in {"ok", "err"}

NeedsInput == ~ended /\ ~Blocked(L) /\ L.fn \notin {"exit", "done"} /\ Len(inp) < L.pos + Lookahead
Feed == /\ NeedsInput
        /\ \/ /\ gen < MaxLen
              /\ \E c \in Alphabet : inp' = Append(inp, c)
              /\ gen' = gen + 1 /\ UNCHANGED ended
           \/ ended' = TRUE /\ UNCHANGED <<inp, gen>>
        /\ UNCHANGED <<L, P, last>>

\* forget what lies before the current position
Rebased(M) == LET k == M.pos - 1 IN
  [M EXCEPT !.pos = 1, !.start = @ - k, !.pend = IF @.typ = "none" THEN @ ELSE Item(@.typ, 0, 0)]

LexAct == /\ ~Blocked(L) /\ ~LexerDone /\ ~NeedsInput
          /\ \E w \in BOOLEAN, c \in BOOLEAN :
               LET M == LStep(L, inp, Flags(w, c)) IN
               /\ L' = Rebased(M)
               /\ inp' = SubSeq(inp, M.pos, Len(inp))
          /\ UNCHANGED <<gen, ended, P, last>>

\* the parser receives; it may decide to stop at any item (syntax or statement error)
Recv == /\ P = "run" /\ Blocked(L)
        /\ last' = L.pend.typ /\ L' = Took(L)
        /\ P' \in (IF L.pend.typ = "EOF" THEN {"finish", "drain"}
                   ELSE IF L.pend.typ = "Error" THEN {"drain"} ELSE {"run", "drain"})
        /\ UNCHANGED <<inp, gen, ended>>

\* stopParse: with DrainOnAbort the parser discards items until the lexer has closed the channel
Stop == /\ P \in {"finish", "drain"}
        /\ IF ~DrainOnAbort \/ LexerDone
           THEN P' = (IF P = "finish" THEN "ok" ELSE "err") /\ UNCHANGED <<L, last>>
           ELSE Blocked(L) /\ L' = Took(L) /\ last' = L.pend.typ /\ UNCHANGED P
        /\ UNCHANGED <<inp, gen, ended>>

ParAct == Recv \/ Stop
Next == Feed \/ LexAct \/ ParAct
Spec == Init /\ [][Next]_vars /\ WF_vars(Feed) /\ WF_vars(LexAct) /\ WF_vars(ParAct)

\* ---- what TLC checks ----
TypeOK == /\ P \in {"run", "finish", "drain", "ok", "err"} /\ gen \in 0..MaxLen /\ L.pos >= L.start /\ L.pos = 1
\* nothing started by Parse is left when it returns
NothingLeft == ParseReturned => LexerDone
\* success only after the end-of-text item; an error item always ends in an error
Outcome == /\ (P \in {"finish", "ok"} => last = "EOF")
           /\ (last = "Error" => P \in {"drain", "err"})
\* token stream: EOF or Error is the last item, EOF only at nesting depth 0 when the text has ended
Stream == /\ (Blocked(L) => last \notin {"EOF", "Error"} \/ P # "run")
          /\ (Blocked(L) /\ L.pend.typ = "EOF" => L.depth = 0 /\ ended)
          /\ (L.depth < 0 => L.fn \in {"rberr", "exit", "done"})
ParserReturns == <>ParseReturned
LexerEnds == <>LexerDone
NoLeak == <>[](ParseReturned => LexerDone)
=============================================================================
