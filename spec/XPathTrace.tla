----------------------------- MODULE XPathTrace -----------------------------
(* Trace validation (code -> model).  The harness runs the real machine with the
   verif hooks on and logs, per run, an "init" event (the program as printed by the
   real compiler, optionally the AST it was rendered from, the fault position), one
   "step" event per executed instruction with the projected state after it and the
   data-tree calls made during it, and an "end" event with what the caller sees.
   Every step must be the step XPathMachine prescribes.  A step that is not is
   recorded (instruction, operand classes, first differing component), the logged
   state is adopted and validation continues, so one pass reports every distinct
   deviating instruction.  Runs are concatenated; "init" resets the machine.     *)
EXTENDS XPathMachine, Json, TLC
CONSTANT TraceFile, MaxFail
Trace == ndJsonDeserialize(TraceFile)

VARIABLES l, nfail, runs
tvars == <<mvars, l, nfail, runs>>

\* ---- comparing a logged component with the spec's ----
SameKeys(a, b) == DOMAIN a = DOMAIN b /\ \A k \in DOMAIN a : a[k] = b[k]
SameElems(a, b) == Len(a) = Len(b) /\ \A i \in 1..Len(a) : a[i].n = b[i].n /\ SameKeys(a[i].keys, b[i].keys)
SamePath(a, b) == a.root = b.root /\ SameElems(a.elems, b.elems)
SamePs(a, b) == Len(a) = Len(b) /\ \A i \in 1..Len(a) : SamePath(a[i], b[i])
SameKs(a, b) == Len(a) = Len(b) /\ \A i \in 1..Len(a) : SameKeys(a[i], b[i])
SameCalls(a, b) == Len(a) = Len(b) /\ \A i \in 1..Len(a) : a[i].op = b[i].op /\ SamePath(a[i].req, b[i].req)
\* values: a spec value that is not judged (derived from an out-of-model number) matches anything
SameVal(sv, lv) == ~sv.j \/ (sv.t = lv.t /\ sv.b = lv.b /\ sv.n = lv.n /\ sv.s = lv.s /\ sv.ms = lv.ms)
SameDs(a, b) == Len(a) = Len(b) /\ \A i \in 1..Len(a) : SameVal(a[i], b[i])
\* error: an environment failure must be reported as itself; an internal run error may carry any text
SameErr(se, le) == IF se = "run" THEN le # "none" ELSE se = le

NormKeys(m) == [k \in DOMAIN m |-> m[k]]
NormPath(p) == [root |-> p.root, elems |-> [i \in 1..Len(p.elems) |-> [n |-> p.elems[i].n, keys |-> NormKeys(p.elems[i].keys)]]]
\* the state the code logged, as a machine state (judged flags from the spec's prediction)
Adopt(nx, e) ==
  [nx EXCEPT !.ds = [i \in 1..Len(e.ds) |-> IF (i <= Len(nx.ds) /\ ~nx.ds[i].j) \/ e.ds[i].n.c = "oom"   \* a logged number outside the model is never judged further
                                          THEN Unj(e.ds[i]) ELSE e.ds[i]],
             !.ps = [i \in 1..Len(e.ps) |-> NormPath(e.ps[i])],
             !.ks = [i \in 1..Len(e.ks) |-> NormKeys(e.ks[i])],
             !.predCount = e.predCount, !.predEval = e.predEval, !.llf = e.llf, !.prevELP = e.prevELP,
             !.err = IF e.err = "none" THEN "none" ELSE IF nx.err # "none" THEN nx.err ELSE "run",
             !.calls = st.calls \o [i \in 1..Len(e.calls) |-> [op |-> e.calls[i].op, req |-> NormPath(e.calls[i].req)]]]

FirstDiff(nx, e) ==
  CASE ~SameErr(nx.err, e.err) -> "err"
    [] nx.err # "none" -> "none"
    [] ~SameDs(nx.ds, e.ds) -> "stack"
    [] ~SamePs(nx.ps, e.ps) -> "paths"
    [] ~SameKs(nx.ks, e.ks) -> "keys"
    [] nx.predCount # e.predCount \/ nx.predEval # e.predEval -> "predicate-counters"
    [] nx.llf # e.llf \/ nx.prevELP # e.prevELP -> "flags"
    [] ~SameCalls(nx.calls, st.calls \o e.calls) -> "calls"
    [] OTHER -> "none"

ArgClasses(I) == LET n == Len(st.ds)
                     k == IF I.i = "bltin" THEN (IF Arity(I.s) < 0 THEN 0 ELSE Arity(I.s))
                          ELSE IF I.i \in BinIns \cup {"eq"} THEN 2 ELSE IF I.i \in {"negate", "store"} THEN 1 ELSE 0
                 IN [i \in 1..(IF k <= n THEN k ELSE n) |-> ValClass(st.ds[n - (IF k <= n THEN k ELSE n) + i])]
Failure(e, what) == [id |-> e.id, at |-> l, site |-> "step", instr |-> prog[st.pc].i, fn |-> prog[st.pc].s,
                     args |-> ArgClasses(prog[st.pc]), inPred |-> st.predCount > 0, what |-> what, failAt |-> failAt]

Fresh(e) == /\ ast' = (IF e.hasAst THEN e.ast ELSE [k |-> "none"])
            /\ prog' = e.prog /\ st' = InitState /\ failAt' = e.failAt

TInit == /\ l = 1 /\ nfail = 0 /\ runs = 0
         /\ ast = [k |-> "none"] /\ prog = << >> /\ st = InitState /\ failAt = 0

\* failures are reported on the output as they are met (kept out of the state, which stays small)
AddFail(f) == /\ nfail' = nfail + 1
              /\ (nfail >= MaxFail \/ PrintT("FAILJSON " \o ToJson(f)))

\* a new run
TReset == /\ l <= Len(Trace) /\ Trace[l].ev = "init"
          /\ Fresh(Trace[l]) /\ l' = l + 1 /\ runs' = runs + 1
          /\ IF Trace[l].hasAst /\ Trace[l].prog # Compile(Trace[l].ast)
             THEN AddFail([id |-> Trace[l].id, at |-> l, site |-> "compile", instr |-> "", fn |-> "", args |-> << >>, inPred |-> FALSE, what |-> "program", failAt |-> 0])
             ELSE UNCHANGED nfail

\* one executed instruction
TStep == /\ l <= Len(Trace) /\ Trace[l].ev = "step" /\ l' = l + 1
         /\ UNCHANGED <<ast, prog, failAt, runs>>
         /\ LET e == Trace[l] IN
            IF st.err # "none" \/ ~st.j
            THEN \* after the first error (or once a key derived from an unjudged value) nothing more is judged here
                 UNCHANGED <<st, nfail>>
            ELSE IF st.pc > Len(prog) \/ e.idx # st.pc - 1
            THEN /\ AddFail([id |-> e.id, at |-> l, site |-> "step", instr |-> e.name, fn |-> "", args |-> << >>, inPred |-> FALSE, what |-> "instruction-order", failAt |-> failAt])
                 /\ st' = [st EXCEPT !.j = FALSE]
            ELSE LET nx == Apply(prog, st, failAt)
                     d == FirstDiff(nx, e)
                 IN IF d = "none" \/ ~nx.j      \* a step that consumed an unjudged value (number outside the model) is not judged
                    THEN st' = (IF nx.err # "none" THEN nx ELSE Adopt(nx, e)) /\ UNCHANGED nfail
                    ELSE /\ AddFail(Failure(e, d))
                         /\ st' = [Adopt(nx, e) EXCEPT !.pc = st.pc + 1]

\* what the caller sees
TEnd == /\ l <= Len(Trace) /\ Trace[l].ev = "end" /\ l' = l + 1
        /\ UNCHANGED <<ast, prog, failAt, runs, st>>
        /\ LET e == Trace[l]
               complete == st.pc > Len(prog)
               \* an instruction that fails by panicking produces no step event: the end event follows directly
               nx == IF ~complete /\ st.err = "none" /\ st.j THEN Apply(prog, st, failAt) ELSE st
               bad == IF ~st.j \/ ~nx.j THEN "none"
                      ELSE IF st.err = "none" /\ ~complete /\ nx.err # "none"
                      THEN (IF ~SameErr(nx.err, e.err) THEN "end:error-identity" ELSE IF e.hasRes THEN "end:value-and-error" ELSE "none")
                      ELSE IF st.err # "none"
                      THEN (IF ~SameErr(st.err, e.err) THEN "end:error-identity" ELSE IF e.hasRes THEN "end:value-and-error" ELSE "none")
                      ELSE IF ~complete THEN "end:stopped-early"
                      ELSE IF e.err # "none" THEN "end:unexpected-error"
                      ELSE IF ~e.hasRes \/ ~st.hasRes THEN "end:no-value"
                      ELSE IF ~SameVal(st.res, e.res) THEN "end:value"
                      ELSE IF ast.k # "none" /\ failAt = 0 /\ Denote(ast).j /\ ~SameVal(Denote(ast), e.res) THEN "end:denotation"
                      ELSE IF ast.k # "none" /\ failAt = 0 /\ ~SameCalls(Designated(ast), st.calls) THEN "end:designated-calls"
                      ELSE "none"
           IN IF bad = "none" THEN UNCHANGED nfail
              ELSE AddFail([id |-> e.id, at |-> l, site |-> "end", instr |-> "", fn |-> "", args |-> << >>, inPred |-> FALSE, what |-> bad, failAt |-> failAt])

TNext == TReset \/ TStep \/ TEnd
TSpec == TInit /\ [][TNext]_tvars

Consumed == l = Len(Trace) + 1
\* written once, when the whole trace has been consumed
Report == Consumed => PrintT(<<"TRACE-RESULT", Len(Trace), runs, nfail>>)
Accepted == TRUE
=============================================================================
