INIT GInit
NEXT GNext
CONSTANT InFile = "texts.ndjson"
CONSTANT NVar = 3
CHECK_DEADLOCK FALSE
