---------------------------- MODULE PrefixScopeTrace ----------------------------
(* Trace validation (code -> model) for C15.  Per compiled instance the harness logs
     init {id, inst}                      configuration and statements (as generated)
     xp   {id, stmt, expr, names}         one per compiled must / when / path machine that
                                          was found in the schema: the source text the machine
                                          reports and the (namespace, local name) of every
                                          name test of its printed program, in order
     end  {id, verdict, named, missing}   ok | error | crash | timeout; the statements whose
                                          location (expression, or the statement holding it)
                                          the error text names; statements whose machine was
                                          not found in an accepted schema
   and this spec judges each against the meaning of PrefixScope: the verdict, the
   statement an error names, the text and every namespace.                      *)
EXTENDS PrefixScope, Json

CONSTANT TraceFile, MaxFail
Trace == ndJsonDeserialize(TraceFile)
VARIABLES l, nfail, runs, inst
tvars == <<l, nfail, runs, inst>>

ToSet(s) == {s[i] : i \in 1..Len(s)}
StmtOf(j) == [kind |-> j.kind, place |-> j.place, T |-> j.T, U |-> j.U, V |-> j.V, e |-> j.e, pf |-> j.pf, on |-> j.on, hp |-> j.hp, mut |-> j.mut, sp |-> j.sp]
InstOf(j) == [cfg |-> j.cfg, stmts |-> [i \in 1..Len(j.stmts) |-> StmtOf(j.stmts[i])]]

AddFail(f) == /\ nfail' = nfail + 1
              /\ (nfail >= MaxFail \/ PrintT("FAILJSON " \o ToJson(f)))
\* how the prefix of a slot relates to the textual module (for the signature of a failure)
PClass(c, s, p) == IF p = "" THEN "none" ELSE IF p = Own(c, s.T) THEN "own"
                   ELSE IF Known(c, s.T, p) THEN "import" ELSE IF p = "zz" THEN "undeclared"
                   ELSE IF IsSub(s.T) /\ Known(c, ModOf(s.T), p) THEN "parent-only"          \* only the module of the submodule declares it
                   ELSE IF \E u \in SubUnits(c) : ModOf(u) = s.T /\ Known(c, u, p) THEN "sub-only"   \* only a submodule of the module declares it
                   ELSE "foreign"
\* class of the (first) undeclared prefix of a statement
BadPrefixClass(c, s) == LET i == CHOOSE i \in PSlots(Expr(s)) : s.pf[i] # "" /\ ~Known(c, s.T, s.pf[i]) IN PClass(c, s, s.pf[i])
\* the syntactic form in which the (first) undeclared prefix of a statement is used: on a name (`p:n`), on a wildcard (`p:*`) or
\* on both, and how the colons of the statement are written
BadForm(c, s) == IF ~UnknownPrefix(c, s) THEN (IF s.sp = "" THEN "" ELSE "spaced-" \o s.sp)
                 ELSE LET i == CHOOSE i \in PSlots(Expr(s)) : s.pf[i] # "" /\ ~Known(c, s.T, s.pf[i])
                          x == Expr(s)
                          onW == \E j \in 1..Len(x) : x[j].t = "w" /\ x[j].slot = i
                          onN == \E j \in 1..Len(x) : x[j].t = "n" /\ x[j].slot = i
                      IN (IF onW /\ onN THEN "name+wildcard" ELSE IF onW THEN "wildcard" ELSE "name") \o (IF s.sp = "" THEN "" ELSE ":spaced-" \o s.sp)
FailRecF(e, what, s, detail, form) == [id |-> e.id, at |-> l, what |-> what, kind |-> s.kind, place |-> s.place, detail |-> detail, form |-> form,
                                      unit |-> IF IsSub(s.T) THEN "submodule" ELSE "module"]
FailRec(e, what, s, detail) == FailRecF(e, what, s, detail, "")
NoStmt == [kind |-> "", place |-> "", T |-> ""]

TInit == l = 1 /\ nfail = 0 /\ runs = 0 /\ inst = [cfg |-> "", stmts |-> << >>]
TReset == /\ l <= Len(Trace) /\ Trace[l].ev = "init" /\ l' = l + 1 /\ runs' = runs + 1
          /\ inst' = InstOf(Trace[l].inst) /\ UNCHANGED nfail

SameNames(want, got) == /\ Len(want) = Len(got)
                        /\ \A i \in 1..Len(want) : want[i].l = got[i].l /\ (want[i].ns = "*" \/ want[i].ns = got[i].ns)
FirstBadName(c, s, want, got) ==
  IF Len(want) # Len(got) THEN "count"
  ELSE LET i == CHOOSE i \in 1..Len(want) : ~(want[i].l = got[i].l /\ (want[i].ns = "*" \/ want[i].ns = got[i].ns))
           k == NameToks(Expr(s))[i]
       IN PClass(c, s, s.pf[k.slot]) \o (IF k.t = "w" THEN ":wildcard" ELSE "")

TXp == /\ l <= Len(Trace) /\ Trace[l].ev = "xp" /\ l' = l + 1 /\ UNCHANGED <<runs, inst>>
       /\ LET e == Trace[l]  s == inst.stmts[e.stmt]  want == Names(inst.cfg, s) IN
          IF Bad(inst.cfg, s) THEN UNCHANGED nfail      \* accepted although invalid: reported once, by the end event
          ELSE IF e.expr # SText(s) THEN AddFail(FailRec(e, "text", s, ""))
          ELSE IF ~SameNames(want, e.names) THEN AddFail(FailRec(e, "namespace", s, FirstBadName(inst.cfg, s, want, e.names)))
          ELSE UNCHANGED nfail

TEnd == /\ l <= Len(Trace) /\ Trace[l].ev = "end" /\ l' = l + 1 /\ UNCHANGED <<runs, inst>>
        /\ LET e == Trace[l]
               want == Verdict(inst)
               bads == BadStmts(inst)
               b1 == IF bads = {} THEN NoStmt ELSE inst.stmts[CHOOSE i \in bads : TRUE]
               \* (for a derived invalid argument: the operation, and whether a character was inserted right after a prefix colon)
               \* (for a control character: its code and whether the rest of the expression was kept behind it)
               mcl(s) == IF s.mut.op = "none" THEN "" ELSE ":" \o s.mut.op \o
                            (IF s.mut.op \in {"ctl", "ctlcut"} THEN ":U+00" \o s.mut.ch \o (IF s.mut.tail = "" THEN ":alone" ELSE ":then-junk") ELSE "") \o
                            (IF s.mut.op = "ins" /\ s.mut.at >= 1 /\ SubSeq(Text(Expr(s), s.pf, s.sp), s.mut.at, s.mut.at) = ":" THEN ":after-colon" ELSE "")
               why(s) == IF ~SyntaxOK(s) THEN "syntax" \o mcl(s) ELSE "unknown-prefix:" \o BadPrefixClass(inst.cfg, s)
           IN IF e.verdict \in {"crash", "timeout"} THEN AddFail(FailRec(e, e.verdict, b1, ""))
              ELSE IF want = "error" /\ e.verdict = "ok" THEN AddFail(FailRecF(e, "accepted-invalid", b1, why(b1), BadForm(inst.cfg, b1)))
              \* validity not judged (blanks around a prefix colon, every prefix declared): accepted or refused, but one answer
              ELSE IF want = "any" /\ e.verdict \notin {"ok", "error"} THEN AddFail(FailRec(e, e.verdict, inst.stmts[1], ""))
              ELSE IF want = "ok" /\ e.verdict # "ok" THEN AddFail(FailRec(e, "rejected-valid", inst.stmts[1], ""))
              ELSE IF want = "error" /\ (\A i \in bads : NamedJudged(inst.stmts[i])) /\ ToSet(e.named) \cap bads = {}
                   THEN AddFail(FailRecF(e, "named", b1, why(b1), BadForm(inst.cfg, b1)))
              ELSE IF want \in {"ok", "any"} /\ e.verdict = "ok" /\ e.missing # << >> THEN AddFail(FailRec(e, "missing", inst.stmts[e.missing[1]], ""))
              ELSE UNCHANGED nfail

TNext == TReset \/ TXp \/ TEnd
Consumed == l = Len(Trace) + 1
Report == Consumed => PrintT(<<"TRACE-RESULT", Len(Trace), runs, nfail>>)
=============================================================================
