---------------------------- MODULE YangTypesGen ----------------------------
(* Behaviour generator (model -> code): for every chain of a family the vector
   holds the chain (what to render as a YANG module), the compile verdict, the
   default, and for every probe lexeme the verdict, the acceptable paths and the
   custom error-message / error-app-tag the rejection must carry.  One family per
   initial state so that all TLC workers are used.                              *)
EXTENDS YangTypesSets, Json
CONSTANTS Fams, MaxDepth, NRand
VARIABLES fam, done
GInit == fam \in Fams /\ done = FALSE
GNext == /\ ~done /\ done' = TRUE /\ UNCHANGED fam
         /\ ndJsonSerialize("vec_" \o ToString(fam) \o ".ndjson", SetToSeq(Vectors(fam, MaxDepth, NRand)))
=============================================================================
