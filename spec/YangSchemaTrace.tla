--------------------------- MODULE YangSchemaTrace ---------------------------
(* Trace validation (code -> model).  The harness compiles module sets with the
   real compiler and logs one event per module set:
     [id, judge, mods, feats, fsrc, ok, dump, filtered: <<[f, ok, dump]>>]
   (fsrc = the feature source the compilation was given: checkers, combinators, compile.Config; the enabled set is
   what YangSchema!SrcEnabled makes of it)
   dump is the canonical dump of the unfiltered compile, filtered the dumps of
   the same module set compiled under schema filters.  Each event is one step:
     * every filtered dump must equal PruneSeq(dump, f), attribute by attribute,
       and compiling under a filter must succeed when the unfiltered compile did;
     * if judge: the verdict and the dump must be what YangSchema says about mods.
   A disagreement is reported (FAILJSON) with the first differing node and
   attribute, and validation continues with the next event.                   *)
EXTENDS YangSchema, Json, TLC
CONSTANT TraceFile, MaxFail
Trace == ndJsonDeserialize(TraceFile)
VARIABLES l, nfail, nchecks
tvars == <<l, nfail, nchecks>>

AttrNames == <<"kind", "name", "ns", "module", "submodule", "config", "status", "presence", "mandatory", "hasdef", "def",
               "keys", "min", "max", "ordby", "uniques", "type", "musts", "whens", "desc">>
NoDiff == [path |-> "", attr |-> "", kind |-> ""]
FirstAttr(a, b) == LET ds == {i \in 1..Len(AttrNames) : a[AttrNames[i]] # b[AttrNames[i]]} IN IF ds = {} THEN "" ELSE AttrNames[MinOf(ds)]
\* first difference of two dumps in sequence form (children sorted by the dumper)
RECURSIVE DiffSeq(_, _, _)
DiffSeq(a, b, path) ==
  LET at == FirstAttr(a, b) IN
  IF at # "" THEN [path |-> path, attr |-> at, kind |-> a.kind]
  ELSE IF Len(a.children) # Len(b.children) \/ \E i \in 1..Len(a.children) : a.children[i].name # b.children[i].name
       THEN [path |-> path, attr |-> "children", kind |-> a.kind]
  ELSE LET ds == {i \in 1..Len(a.children) : DiffSeq(a.children[i], b.children[i], path \o "/" \o a.children[i].name) # NoDiff}
       IN IF ds = {} THEN NoDiff ELSE DiffSeq(a.children[MinOf(ds)], b.children[MinOf(ds)], path \o "/" \o a.children[MinOf(ds)].name)
\* a dump in the set form of the spec (the context flag of when conditions is not judged)
\* conditions as a bag (how many times each (text, namespace) occurs); the context of a when is judged by the replayer only
Bag(q) == [x \in Range(q) |-> Cardinality({i \in 1..Len(q) : q[i] = x})]
RECURSIVE SpecBags(_)
SpecBags(n) == [n EXCEPT !.whens = Bag([i \in 1..Len(n.whens) |-> [text |-> n.whens[i].text, ns |-> n.whens[i].ns]]),
                         !.children = {SpecBags(c) : c \in n.children}]
RECURSIVE ToSet(_)
ToSet(d) == [d EXCEPT !.children = {ToSet(d.children[i]) : i \in 1..Len(d.children)},
                      !.musts = {[text |-> d.musts[i].text, ns |-> d.musts[i].ns] : i \in 1..Len(d.musts)},
                      !.whens = Bag([i \in 1..Len(d.whens) |-> [text |-> d.whens[i].text, ns |-> d.whens[i].ns]]),
                      !.uniques = {Range(d.uniques[i]) : i \in 1..Len(d.uniques)}]
RECURSIVE DiffSet(_, _, _)
DiffSet(a, b, path) ==
  LET at == FirstAttr(a, b) IN
  IF at # "" THEN [path |-> path, attr |-> at, kind |-> a.kind]
  ELSE IF {c.name : c \in a.children} # {c.name : c \in b.children} \/ Cardinality(a.children) # Cardinality(b.children)
       THEN [path |-> path, attr |-> "children", kind |-> a.kind]
  ELSE LET bad == {c \in a.children : \A e \in b.children : e.name = c.name => e # c}
       IN IF bad = {} THEN NoDiff
          ELSE LET c == CHOOSE x \in bad : TRUE  e == CHOOSE x \in b.children : x.name = c.name
               IN DiffSet(c, e, path \o "/" \o c.name)
RECURSIVE FName(_)
FName(f) == IF f.op \in {"include", "exclude"}
            THEN LET RECURSIVE J(_)
                     J(i) == IF i > Len(f.fs) THEN "" ELSE (IF i > 1 THEN "," ELSE "") \o FName(f.fs[i]) \o J(i + 1)
                 IN f.op \o "(" \o J(1) \o ")"
            ELSE IF f.op = "includestate" THEN (IF f.b THEN "includestate(true)" ELSE "includestate(false)")
            ELSE f.op
\* the failures of one event
FilterFails(e) ==
  {[id |-> e.id, site |-> "filter", filter |-> FName(e.filtered[i].f), attr |-> "verdict", kind |-> "", path |-> ""]
     : i \in {j \in 1..Len(e.filtered) : ~e.filtered[j].ok}}
  \cup
  {LET d == DiffSeq(PruneSeq(e.dump, e.filtered[i].f), e.filtered[i].dump, "")
   IN [id |-> e.id, site |-> "filter", filter |-> FName(e.filtered[i].f), attr |-> d.attr, kind |-> d.kind, path |-> d.path]
     : i \in {j \in 1..Len(e.filtered) : e.filtered[j].ok /\ PruneSeq(e.dump, e.filtered[j].f) # e.filtered[j].dump}}
SchemaFails(e) ==
  IF ~e.judge THEN {}
  ELSE LET a == AnalyseSrc(e.mods, e.fsrc)
           got == IF e.ok THEN "ok" ELSE "err"
       IN IF a.verdict = "unjudged" THEN {}
          \* "open": whether it compiles is not judged; if it does, the schema is, but for the attributes in a.opens
          ELSE IF a.verdict # "open" /\ a.verdict # got THEN {[id |-> e.id, site |-> "schema", filter |-> "", attr |-> "verdict", kind |-> "", path |-> a.verdict \o " expected"]}
          ELSE IF ~e.ok THEN {}
          ELSE LET d == DiffSet(MaskTree(SpecBags(a.schema), <<>>, a.opens), MaskTree(ToSet(e.dump), <<>>, a.opens), "")
               IN IF d = NoDiff THEN {} ELSE {[id |-> e.id, site |-> "schema", filter |-> "", attr |-> d.attr, kind |-> d.kind, path |-> d.path]}
Unjudged(e) == e.judge /\ LET v == AnalyseSrc(e.mods, e.fsrc).verdict
                            IN v = "unjudged" \/ (v = "open" /\ ~e.ok)

TInit == l = 1 /\ nfail = 0 /\ nchecks = 0
TNext == /\ l <= Len(Trace) /\ l' = l + 1
         /\ LET e == Trace[l]
                fs == (IF e.ok THEN FilterFails(e) ELSE {}) \cup SchemaFails(e)
            IN /\ nfail' = nfail + Cardinality(fs)
               /\ nchecks' = nchecks + (IF e.ok THEN Len(e.filtered) ELSE 0) + (IF e.judge THEN 1 ELSE 0)
               /\ \A f \in fs : PrintT("FAILJSON " \o ToJson(f))
               /\ (~Unjudged(e) \/ PrintT("UNJUDGED " \o ToString(e.id)))
Consumed == l = Len(Trace) + 1
Report == Consumed => PrintT(<<"TRACE-RESULT", Len(Trace), nchecks, nfail>>)
=============================================================================
