INIT TInit
NEXT TNext
CONSTANT TraceFile = "trace.ndjson"
INVARIANT Report
CHECK_DEADLOCK FALSE
