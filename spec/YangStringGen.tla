---------------------------- MODULE YangStringGen ----------------------------
(* C08, model -> code: layouts of the argument of a `description` statement in a
   minimal module, each with the value RFC 6020 6.1.3 gives it (YangString).
   Families (one per initial state, so that TLC's workers share the work):
     1..17     two-line double-quoted strings: prefix kind p (13-17: characters of 2, 3, 4
               bytes before the quote on its line) x contents x contents x continuation
               indent x trailing blanks x LF/CRLF
     20        three-line strings around empty and blank-only lines
     21        unquoted and single-quoted strings
     22, 23    concatenations of two / three pieces: forms x contents x trivia around +
     24        all runs of two and three elements over \\ \n \t \" n t r and plain text
     25        comments (shared body menu) between and around the pieces of "a" + 'x' + "b"
     26-29     the edges of two- and three-line strings: indentation x trailing blanks x content on the first, the inner
               and the last line, each value in three spellings (double-quoted, single-quoted, "head" + 'last line')
     31, 32    characters that are white space to Unicode only (no-break space, form feed, vertical tab, U+2028, U+3000, ...,
               byte order mark) and CRs that are not part of a line break, at the end, at the start and in the middle of the
               lines of two- and three-line strings, alone and mixed with blanks and tabs
     30        several statements of one kind with long, equally long, nearly equal arguments (in one module, and with
               the siblings in a module parsed before with the same interners)
     100, 101  NRand / 2 layouts each, drawn at random from all the menus (TLC -seed)
   Size selects the menus: "quick" or "thorough".                                 *)
EXTENDS YangString, Json, SequencesExt, FiniteSets, TLC
CONSTANTS Size, NRand
VARIABLES fam, done

Thorough == Size = "thorough"
C(s) == S2C(s)
E0 == << >>
\* ---- menus ----
\* text before the opening quote of the first piece: statement indent, keyword, separator
Kw == C("description")
Pres == << C("  ") \o Kw \o <<SP>>,                         \* quote in column 15
               Kw \o <<SP>>,                                    \* column 13
               <<TAB>> \o Kw \o <<SP>>,                         \* column 21 (tab = 8)
               C("  ") \o Kw \o <<LF>>,                         \* quote on its own line, column 1
               C("  ") \o Kw \o <<LF>> \o C("  "),              \* column 3
               C("  ") \o Kw \o <<LF, TAB>>,                    \* column 9
               C("  ") \o Kw \o <<CR, LF>> \o C("       "),     \* column 8, CRLF before
               C("  ") \o Kw \o <<TAB>>,                        \* tab as separator: column 2+11+8+1
               C("  ") \o Kw \o C(" /* c */ "),                 \* comment between keyword and string
               C("  ") \o Kw \o <<LF>> \o C("// c") \o <<LF>> \o C("     "),   \* line comment, then column 6
               C("      ") \o Kw \o <<LF, SP, TAB>>,            \* blank + tab: column 10
               C("  ") \o Kw \o <<LF>> \o C("          "),     \* column 11
               \* characters of 2, 3 and 4 bytes before the quote on its line: each takes one column
               C("  organization \"Zo") \o <<235>> \o C("\"; ") \o Kw \o <<SP>>,          \* 13: a preceding statement on the line
               C("  /* ") \o <<181>> \o C("s ") \o <<8364, SP, 128512>> \o C(" */ ") \o Kw \o <<SP>>,   \* 14: a comment before the keyword
               C("  ") \o Kw \o C(" /* ") \o <<181, 8364>> \o C(" */ "),                     \* 15: a comment before the string
               C("  m:e Zo") \o <<235, 8364>> \o C("; ") \o Kw \o <<SP>>,                    \* 16: an unquoted non-ASCII argument before
               C("  ") \o Kw \o <<LF, TAB>> \o C("/* ") \o <<128512, 128512>> \o C(" */ "),   \* 17: tab and 4-byte characters, own line
               C("  /*") \o <<NBSP, 12288>> \o C("*/ m:e a") \o <<NBSP, 12288>> \o C("b; ") \o Kw \o <<SP>> >>   \* 18: blanks of Unicode (one column each, like any character) before the quote
\* the statement under test is child 3 of the module, plus one for every statement the prefix puts before it
RECURSIVE CountCh(_, _, _)
CountCh(s, c, i) == IF i > Len(s) THEN 0 ELSE (IF s[i] = c THEN 1 ELSE 0) + CountCh(s, c, i + 1)
PathOf(pre) == <<3 + CountCh(pre, SEMI, 1)>>
PreFams == (1..Len(Pres)) \ (IF Thorough THEN {} ELSE {2, 7, 11, 12, 18})
\* contents of one line of a double-quoted string (source form)
LineMenuCore == << << >>, C("a"), C("b c"), <<BSL, DQ>>, <<BSL, BSL>>, C("//c"), <<233>> >>
LineMenuMore == << C("x") \o <<BSL, 110>> \o C("y"), <<BSL, 116>> \o C("z"), C("/*c*/"), <<SQ>>, C("+"), C(";{}"), C("a "), C(" a"), <<TAB>> \o C("a"),
                   <<8364>>, C("p") \o <<BSL, 110>>, <<BSL, DQ, BSL, BSL, BSL, 116>> >>
LineMenu == IF Thorough THEN LineMenuCore \o LineMenuMore ELSE SubSeq(LineMenuCore, 1, 5)
LineMenuAll == LineMenuCore \o LineMenuMore
\* indentation of a continuation line, relative to the column q of the opening quote
Indents(q) == LET sp(n) == IF n <= 0 THEN << >> ELSE Spaces(n) IN
  << << >>, sp(1), sp(q - 1), sp(q), sp(q + 1), sp(q + 3), <<TAB>>, <<TAB, SP>>, <<SP, TAB>>, <<TAB, TAB>>, sp(3) \o <<TAB, SP>>, sp(q) \o <<TAB>> >>
NInd == IF Thorough THEN 12 ELSE 8
Trails == << << >>, <<SP>>, <<TAB, SP>> >>
NTrail == IF Thorough THEN 3 ELSE 2
Eols == << <<LF>>, <<CR, LF>> >>
\* trivia with the + that joins two strings
Joins == << C(" + "), C("+"), <<LF>> \o C("    + "), C(" +") \o <<LF>> \o C("      "), C(" /* c */ + "), C(" + // c") \o <<LF>> \o C("   "),
            <<TAB>> \o C("+") \o <<TAB>>, <<CR, LF>> \o C("  +") \o <<CR, LF>> \o C("  "), C(" +/*+*/ ") >>

HeadTxt == C("module m {") \o <<LF>> \o C("  namespace \"urn:m\";") \o <<LF>> \o C("  prefix m;") \o <<LF>>
TailMenu == << C(";"), C(" ;"), <<LF>> \o C("  ;"), C(" /* c */;") >>
FootTxt == <<LF>> \o C("}") \o <<LF>>

\* source of a double-quoted string from its lines
RECURSIVE DqFrom(_, _, _, _, _)
DqFrom(lines, inds, trails, eol, k) ==
  IF k > Len(lines) THEN << >>
  ELSE (IF k > 1 THEN inds[k] ELSE << >>) \o lines[k]
       \o (IF k < Len(lines) THEN trails[k] \o eol ELSE << >>) \o DqFrom(lines, inds, trails, eol, k + 1)
DqSrc(lines, inds, trails, eol) == DqFrom(lines, inds, trails, eol, 1)

Forms(pieces) == [k \in 1..Len(pieces) |-> pieces[k].q]
RECURSIVE CountLF(_, _)
CountLF(s, i) == IF i > Len(s) THEN 0 ELSE (IF s[i] = LF THEN 1 ELSE 0) + CountLF(s, i + 1)
Feat(pieces) ==
  LET dq == {k \in 1..Len(pieces) : pieces[k].q = "d"}
      ls(k) == SplitLines(pieces[k].src)
      body(l) == StripTrail(IF Len(l) > 0 /\ l[Len(l)] = CR THEN SubSeq(l, 1, Len(l) - 1) ELSE l)
  IN [forms |-> Forms(pieces),
      lines |-> IF dq = {} THEN 0 ELSE CHOOSE n \in {Len(ls(k)) : k \in dq} : \A k \in dq : Len(ls(k)) <= n,
      emptyFirstLine |-> \E k \in dq : Len(ls(k)) > 1 /\ body(ls(k)[1]) = << >>,
      blankMiddleLine |-> \E k \in dq : \E j \in 2..(Len(ls(k)) - 1) : StripTrail(StripLead(body(ls(k)[j]), 1000)) = << >>,
      crlf |-> \E k \in dq : \E i \in 1..Len(pieces[k].src) : pieces[k].src[i] = CR,
      leadingPlus |-> pieces[1].q = "u" /\ Len(pieces[1].src) > 0 /\ pieces[1].src[1] = PLUS]

\* the definitions of YangString checked against themselves on every generated double-quoted source
Sane(pieces) == \A k \in 1..Len(pieces) : pieces[k].q = "d" =>
  /\ PlainIsVerbatim(pieces[k].src, 7) /\ SingleLineLayoutFree(pieces[k].src) /\ NoBreakNoStrip(pieces[k].src, 7)
VecAt(f, pre, pieces, joins, tail, path) ==
  LET r == RenderArg(HeadTxt \o pre, pieces, joins) IN
  [fam |-> f, text |-> r.text \o tail \o FootTxt, path |-> path, expect |-> r.value, judged |-> r.judged, feat |-> Feat(pieces),
   sane |-> Assert(Sane(pieces), <<"spec fault: YangString contradicts itself on", pieces>>)]

Vec(f, pre, pieces, joins, tail) == VecAt(f, pre, pieces, joins, tail, PathOf(pre))
D(src) == [q |-> "d", src |-> src]
S(src) == [q |-> "s", src |-> src]
U(src) == [q |-> "u", src |-> src]
QC(pre) == QuoteCol(Append(HeadTxt \o pre, DQ))

\* family p: two lines
TwoLines(p) == LET pre == Pres[p]  q == QC(pre) IN
  {Vec(p, pre, <<D(DqSrc(<<LineMenu[a], LineMenu[b]>>, <<E0, Indents(q)[i]>>, <<Trails[t], E0>>, Eols[e]))>>, << >>, TailMenu[1 + ((a + b + i) % Len(TailMenu))])
     : a \in 1..Len(LineMenu), b \in 1..Len(LineMenu), i \in 1..NInd, t \in 1..NTrail, e \in 1..2}
\* family 20: three lines, empty and blank-only lines
ThreeLines(u_) == UNION {LET pre == Pres[p]  q == QC(pre)  I == Indents(q) IN
  {Vec(20, pre, <<D(DqSrc(<<l1, l2, l3>>, <<E0, I[i2], I[i3]>>, <<Trails[t], Trails[t], E0>>, Eols[e]))>>, << >>, TailMenu[1])
     : l1 \in {<< >>, C("a")}, l2 \in {<< >>, C("b")}, l3 \in {<< >>, C("c")}, i2 \in {1, 3, 5, 7}, i3 \in {1, 4, 6, 9}, t \in 1..2, e \in 1..2}
  : p \in (IF Thorough THEN {1, 2, 3, 5, 6, 11, 13, 17} ELSE {1, 5, 13})}
\* family 21: unquoted and single-quoted
UMenu == << C("a"), C("a+b"), C("+a"), C("a/b"), C("a:b-c.d_e"), <<233>>, C("a") \o <<BSL>> \o C("n"), C("x*y"), C("1.5"), C("a'b") >>
SMenu == << << >>, C("a b"), C("a") \o <<LF>> \o C("   b"), C("a  ") \o <<LF>> \o C("b"), <<BSL>> \o C("n") \o <<BSL, BSL>>, <<DQ>>, C("//c /*d*/"), <<TAB>> \o C("a") \o <<CR, LF, TAB>> \o C("b"),
            <<LF>>, C("+"), <<8364, 128512>> >>
Plain(u_) == {Vec(21, Pres[p], <<U(UMenu[k])>>, << >>, TailMenu[t]) : p \in {1, 4, 9}, k \in 1..(Len(UMenu) - 1), t \in 1..Len(TailMenu)}
         \cup {Vec(21, Pres[p], <<S(SMenu[k])>>, << >>, TailMenu[t]) : p \in {1, 3, 5, 9}, k \in 1..Len(SMenu), t \in {1, 2}}
\* family 22: concatenations
PieceMenu(q) == << D(C("a")), S(C("b")), D(<< >>), S(<< >>), D(C("x") \o <<LF>> \o Spaces(q) \o C("y")), D(C("x  ") \o <<LF>> \o C(" y")), S(C("s") \o <<LF>> \o C("  t")),
                   D(<<BSL, DQ>> \o C("q")), D(C("u") \o <<LF, TAB>> \o C("v")),
                   \* 10: indented far beyond the first quote column (what is left depends on where the piece ends up; used twice in
                   \*     one argument the same source text stands for two different values), 11/12: multi-byte characters before a later quote
                   D(C("x") \o <<LF>> \o Spaces(q + 14) \o C("y")), S(<<196, 214, 220>>), S(<<8364, 128512>>) >>
ConcatPres == IF Thorough THEN {1, 3, 5, 7, 13} ELSE {1}
Concat2(u_) == UNION {LET pre == Pres[p]  M == PieceMenu(QC(pre)) IN
    {Vec(22, pre, <<M[a], M[b]>>, <<Joins[j]>>, TailMenu[1 + ((a + b) % 2)]) : a \in 1..Len(M), b \in 1..Len(M), j \in 1..Len(Joins)}
  : p \in ConcatPres}
Concat3(u_) == UNION {LET pre == Pres[p]  M == PieceMenu(QC(pre)) IN
    {Vec(23, pre, <<M[a], M[b], M[c]>>, <<Joins[j], Joins[1 + ((j + a) % Len(Joins))]>>, TailMenu[1])
           : a \in {1, 2, 5, 11}, b \in 1..Len(M), c \in {1, 2, 6, 9, 10}, j \in 1..Len(Joins)}
  : p \in ConcatPres}

\* family 24: runs of two and three elements over the four escapes and the plain characters that look like one when a
\* backslash happens to stand before them (n, t, r, a quote-free word): \\ directly followed by n is a backslash and an n
Escapes(u_) == {Vec(24, Pres[1], <<D(r)>>, << >>, TailMenu[1]) : r \in EscRuns}
               \cup {Vec(24, Pres[5], <<D(C("C:") \o r \o <<LF>> \o C("     ") \o r)>>, << >>, TailMenu[1]) : r \in EscRuns}
               \cup {Vec(24, Pres[1], <<S(r), D(r)>>, <<Joins[1]>>, TailMenu[1]) : r \in EscRuns}

\* family 25: comments between and around the pieces of a concatenation, bodies from the shared menu (empty, starting or
\* ending with / and *, holding the other marker, quotes, braces, semicolons), with and without blanks around them:
\* whatever stands between the pieces is trivia, the value is the pieces joined
Cmts == [i \in 1..Len(BlockBodies) |-> CmtBlock(BlockBodies[i])] \o [i \in 1..Len(LineBodies) |-> CmtLine(LineBodies[i])]
Abx == <<D(C("a")), S(C("x")), D(C("b"))>>
CommentJoins(u_) ==
  {Vec(25, Pres[1], Abx, <<sp \o Cmts[i] \o sp \o C("+") \o sp, sp \o C("+") \o sp \o Cmts[j] \o sp>>, TailMenu[1])
     : i \in 1..Len(Cmts), j \in 1..Len(Cmts), sp \in {E0, <<SP>>}}
  \cup {Vec(25, Pres[1], Abx, <<sp \o Cmts[i] \o sp \o C("+") \o sp \o Cmts[i] \o sp, sp \o Cmts[i] \o C("+") \o Cmts[i]>>, TailMenu[1])
     : i \in 1..Len(Cmts), sp \in {E0, <<SP>>}}
  \cup {VecAt(25, C("  ") \o Kw \o <<SP>> \o Cmts[i] \o sp, Abx, <<C("+"), C(" + ")>>, sp \o Cmts[i] \o C(";"), <<3>>) : i \in 1..Len(Cmts), sp \in {E0, <<SP>>}}

\* families 26-29: the edges of multi-line strings.  For the last line as for the inner ones: indentation less than, equal
\* to and beyond the quote column (blanks and tabs) x trailing blanks and tabs (none, one, several) x content (none = a line
\* of blanks only), and the first line likewise.  Each source is also written in two other spellings of the same value -
\* single-quoted, and "lines up to the last break" + 'rest' - and TLC checks that the three values agree.
EdgeInd(q) == LET sp(n) == IF n <= 0 THEN << >> ELSE Spaces(n) IN {<< >>, sp(q - 2), sp(q), sp(q + 2), <<TAB>>, <<SP, TAB>>, sp(q) \o <<TAB>>}
Spellings(f, pre, src) ==
  LET q == QC(pre)
      v == DecodeDQ(src, q)
      last == TailOf(v)
      a == Vec(f, pre, <<D(src)>>, << >>, TailMenu[1])
      b == Vec(f, pre, <<S(v)>>, << >>, TailMenu[1])
      c == Vec(f, pre, <<D(HeadOf(src)), S(last)>>, <<Joins[1]>>, TailMenu[1])
  IN IF ~a.judged THEN {a}
     ELSE IF Assert(b.expect = v /\ a.expect = v /\ (~c.judged \/ c.expect = v), <<"spec fault: the spellings of one value disagree", src, q>>)
          THEN {a, b, c} ELSE {}
Edges2(p) == UNION {Spellings(26, Pres[p], src) : src \in Edge2(EdgeInd(QC(Pres[p])), <<LF>>) \cup (IF Thorough \/ p = 1 THEN Edge2(EdgeInd(QC(Pres[p])), <<CR, LF>>) ELSE {})}
Edges3(p) == LET q == QC(Pres[p])  I == EdgeInd(q) IN
             UNION {Spellings(27, Pres[p], src) : src \in (IF Thorough THEN Edge3(I, I) ELSE Edge3({<< >>, Spaces(q), Spaces(q + 2), <<TAB>>}, {<< >>, Spaces(q + 2)}))}

\* family 30: arguments are decoded per statement: several statements of one kind in one module whose arguments are long
\* (around 64, 96, 128, 256 bytes), equally long, and differ only at the end, only in the middle or only at the start;
\* every statement is a vector of its own (same text, its own path and value).  Also with the sibling statements in
\* another module parsed first with the same interners (field `before`).
LongLens == IF Thorough THEN {60, 63, 64, 65, 90, 95, 96, 97, 98, 100, 127, 128, 129, 160, 200, 255, 256, 257, 300, 520}
            ELSE {64, 96, 97, 100, 128, 129, 200, 257}
LongBase(n) == [i \in 1..n |-> 97 + (i % 23)]
LongArgs(n) == LET b == LongBase(n) IN <<b, [b EXCEPT ![n] = 90], [b EXCEPT ![n \div 2] = 90], [b EXCEPT ![1] = 90], [b EXCEPT ![n - 1] = 89]>>
\* spelling of the k-th long argument: plain double-quoted, or cut into two concatenated pieces
LongPieces(v, k) == IF k % 2 = 1 THEN <<D(v)>> ELSE <<S(SubSeq(v, 1, 40)), D(SubSeq(v, 41, Len(v)))>>
RECURSIVE LongStmts(_, _, _, _)
LongStmts(text, kw, args, k) ==
  IF k > Len(args) THEN text
  ELSE LongStmts(RenderArg(text \o C("  ") \o kw \o <<SP>>, LongPieces(args[k], k), <<C(" + ")>>).text \o <<SEMI, LF>>, kw, args, k + 1)
LongVec(kw, n, k, split) ==
  LET args == LongArgs(n)
      whole == LongStmts(HeadTxt, kw, args, 1) \o C("}") \o <<LF>>
      others == LongStmts(HeadTxt, kw, [j \in 1..(k - 1) |-> args[j]], 1) \o C("}") \o <<LF>>
      alone == RenderArg(HeadTxt \o C("  ") \o kw \o <<SP>>, LongPieces(args[k], k), <<C(" + ")>>).text \o <<SEMI, LF>> \o C("}") \o <<LF>>
  IN [fam |-> 30, text |-> IF split THEN alone ELSE whole, before |-> IF split THEN others ELSE << >>,
      path |-> IF split THEN <<3>> ELSE <<2 + k>>, expect |-> args[k], judged |-> TRUE, feat |-> Feat(LongPieces(args[k], k)),
      sane |-> TRUE]
LongOnes(u_) == {LongVec(C("m:e"), n, k, sp) : n \in LongLens, k \in 1..5, sp \in BOOLEAN}

\* families 31, 32: RFC 6020 6.1.3 strips "space or tab characters" - nothing else that Unicode calls white space, and no CR
\* beyond the one of a CR LF line break.  Every such character x (YangString!ExoChars), alone and mixed with blanks and tabs,
\* before a line break, in and around the indentation of a continuation line, in the middle of a line, before the closing
\* quote; first, inner and last lines; LF and CR LF.  (A CR next to a blank is left unjudged by JudgedDQ.)
ExoEols(x) == IF Thorough \/ x \in {CR, NBSP, FF} THEN {<<LF>>, <<CR, LF>>} ELSE {<<LF>>}
ExoPres == IF Thorough THEN {1, 5, 18} ELSE {1}
Exotic2(u_) == UNION {UNION {UNION {{Vec(31, Pres[p], <<D(src)>>, << >>, TailMenu[1]) : src \in Exo2(x, QC(Pres[p]), e, Thorough)}
                                     : e \in ExoEols(x)} : x \in ExoChars} : p \in ExoPres}
Exotic3(u_) == UNION {UNION {UNION {UNION {(IF Thorough THEN Spellings(32, Pres[p], src) ELSE {Vec(32, Pres[p], <<D(src)>>, << >>, TailMenu[1])})
                                            : src \in Exo3(x, QC(Pres[p]), e)} : e \in ExoEols(x)} : x \in ExoChars} : p \in ExoPres}

\* family 100: everything at random
RE(seq) == seq[RandomElement(1..Len(seq))]
RandDq(q) == LET n == RandomElement(1..4)  e == RE(Eols) IN
  D(DqSrc([k \in 1..n |-> RE(LineMenuAll)], [k \in 1..n |-> RE(Indents(q))], [k \in 1..n |-> RE(Trails)], e))
RandPiece(q) == LET r == RandomElement(1..10) IN IF r <= 7 THEN RandDq(q) ELSE S(RE(SMenu))
RandVec(u_) == LET pre == RE(Pres)  n == RandomElement(1..3)
                   \* the quote column of later pieces is whatever the rendering makes it; indents are drawn around the first one
                   q == QC(pre) IN
  Vec(100, pre, [k \in 1..n |-> RandPiece(IF k = 1 THEN q ELSE RandomElement(1..24))], [k \in 1..(n - 1) |-> RE(Joins)], RE(TailMenu))
Random(u_) == {RandVec(k) : k \in 1..(NRand \div 2)}

\* (the big sets take a dummy parameter: TLC evaluates every parameterless definition once at start-up, single-threaded)
Cases == IF fam <= Len(Pres) THEN TwoLines(fam)
         ELSE IF fam = 20 THEN ThreeLines(0) ELSE IF fam = 21 THEN Plain(0) ELSE IF fam = 22 THEN Concat2(0) ELSE IF fam = 23 THEN Concat3(0) ELSE IF fam = 24 THEN Escapes(0) ELSE IF fam = 25 THEN CommentJoins(0) ELSE IF fam = 26 THEN Edges2(1) ELSE IF fam = 27 THEN Edges2(5) ELSE IF fam = 28 THEN Edges3(1) ELSE IF fam = 29 THEN Edges3(5) ELSE IF fam = 30 THEN LongOnes(0) ELSE IF fam = 31 THEN Exotic2(0) ELSE IF fam = 32 THEN Exotic3(0) ELSE Random(0)
GInit == fam \in PreFams \cup {20, 21, 22, 23, 24, 25, 26, 27, 28, 30, 31, 32, 100, 101} \cup (IF Thorough THEN {29} ELSE {}) /\ done = FALSE
GNext == /\ ~done /\ done' = TRUE /\ UNCHANGED fam
         /\ ndJsonSerialize("vec_" \o ToString(fam) \o ".ndjson", SetToSeq(Cases))
=============================================================================
