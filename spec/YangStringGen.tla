---------------------------- MODULE YangStringGen ----------------------------
(* C08, model -> code: layouts of the argument of a `description` statement in a
   minimal module, each with the value RFC 6020 6.1.3 gives it (YangString).
   Families (one per initial state, so that TLC's workers share the work):
     1..17     two-line double-quoted strings: prefix kind p (13-17: characters of 2, 3, 4
               bytes before the quote on its line) x contents x contents x continuation
               indent x trailing blanks x LF/CRLF
     20        three-line strings around empty and blank-only lines
     21        unquoted and single-quoted strings
     22, 23    concatenations of two / three pieces: forms x contents x trivia around +
     24        all runs of two and three elements over \\ \n \t \" n t r and plain text
     25        comments (shared body menu) between and around the pieces of "a" + 'x' + "b"
     26-29     the edges of two- and three-line strings: indentation x trailing blanks x content on the first, the inner
               and the last line, each value in three spellings (double-quoted, single-quoted, "head" + 'last line')
     31, 32    characters that are white space to Unicode only (no-break space, form feed, vertical tab, U+2028, U+3000, ...,
               byte order mark) and CRs that are not part of a line break, at the end, at the start and in the middle of the
               lines of two- and three-line strings, alone and mixed with blanks and tabs
     33        unquoted arguments with every ASCII punctuation character (but ; { }) and characters beyond ASCII inside and at
               the end of the word, singly, doubled and in all pairs, carried by several statements
     34, 35    statements of every kind as carriers of the same argument texts: the argument reported is the value of the source
               form whatever the keyword - also where the argument has a syntax of its own (pattern, range, length, key,
               unique, path, must, when, dates, identifiers, schema node identifiers, numbers, booleans, URIs); every text in
               every quoting form and cut into two pieces at several places (34: statements with typed arguments carry their
               own texts; 35: statements with free text carry all of them)
     30        several statements of one kind with long, equally long, nearly equal arguments (in one module, and with
               the siblings in a module parsed before with the same interners)
     100, 101  NRand / 2 layouts each, drawn at random from all the menus (TLC -seed)
   Size selects the menus: "quick" or "thorough".                                 *)
EXTENDS YangString, Json, SequencesExt, FiniteSets, TLC
CONSTANTS Size, NRand
VARIABLES fam, done

Thorough == Size = "thorough"
C(s) == S2C(s)
E0 == << >>
\* ---- menus ----
\* text before the opening quote of the first piece: statement indent, keyword, separator
Kw == C("description")
Pres == << C("  ") \o Kw \o <<SP>>,                         \* quote in column 15
               Kw \o <<SP>>,                                    \* column 13
               <<TAB>> \o Kw \o <<SP>>,                         \* column 21 (tab = 8)
               C("  ") \o Kw \o <<LF>>,                         \* quote on its own line, column 1
               C("  ") \o Kw \o <<LF>> \o C("  "),              \* column 3
               C("  ") \o Kw \o <<LF, TAB>>,                    \* column 9
               C("  ") \o Kw \o <<CR, LF>> \o C("       "),     \* column 8, CRLF before
               C("  ") \o Kw \o <<TAB>>,                        \* tab as separator: column 2+11+8+1
               C("  ") \o Kw \o C(" /* c */ "),                 \* comment between keyword and string
               C("  ") \o Kw \o <<LF>> \o C("// c") \o <<LF>> \o C("     "),   \* line comment, then column 6
               C("      ") \o Kw \o <<LF, SP, TAB>>,            \* blank + tab: column 10
               C("  ") \o Kw \o <<LF>> \o C("          "),     \* column 11
               \* characters of 2, 3 and 4 bytes before the quote on its line: each takes one column
               C("  organization \"Zo") \o <<235>> \o C("\"; ") \o Kw \o <<SP>>,          \* 13: a preceding statement on the line
               C("  /* ") \o <<181>> \o C("s ") \o <<8364, SP, 128512>> \o C(" */ ") \o Kw \o <<SP>>,   \* 14: a comment before the keyword
               C("  ") \o Kw \o C(" /* ") \o <<181, 8364>> \o C(" */ "),                     \* 15: a comment before the string
               C("  m:e Zo") \o <<235, 8364>> \o C("; ") \o Kw \o <<SP>>,                    \* 16: an unquoted non-ASCII argument before
               C("  ") \o Kw \o <<LF, TAB>> \o C("/* ") \o <<128512, 128512>> \o C(" */ "),   \* 17: tab and 4-byte characters, own line
               C("  /*") \o <<NBSP, 12288>> \o C("*/ m:e a") \o <<NBSP, 12288>> \o C("b; ") \o Kw \o <<SP>> >>   \* 18: blanks of Unicode (one column each, like any character) before the quote
\* the statement under test is child 3 of the module, plus one for every statement the prefix puts before it
RECURSIVE CountCh(_, _, _)
CountCh(s, c, i) == IF i > Len(s) THEN 0 ELSE (IF s[i] = c THEN 1 ELSE 0) + CountCh(s, c, i + 1)
PathOf(pre) == <<3 + CountCh(pre, SEMI, 1)>>
PreFams == (1..Len(Pres)) \ (IF Thorough THEN {} ELSE {2, 7, 11, 12, 18})
\* contents of one line of a double-quoted string (source form)
LineMenuCore == << << >>, C("a"), C("b c"), <<BSL, DQ>>, <<BSL, BSL>>, C("//c"), <<233>> >>
LineMenuMore == << C("x") \o <<BSL, 110>> \o C("y"), <<BSL, 116>> \o C("z"), C("/*c*/"), <<SQ>>, C("+"), C(";{}"), C("a "), C(" a"), <<TAB>> \o C("a"),
                   <<8364>>, C("p") \o <<BSL, 110>>, <<BSL, DQ, BSL, BSL, BSL, 116>> >>
LineMenu == IF Thorough THEN LineMenuCore \o LineMenuMore ELSE SubSeq(LineMenuCore, 1, 5)
LineMenuAll == LineMenuCore \o LineMenuMore
\* indentation of a continuation line, relative to the column q of the opening quote
Indents(q) == LET sp(n) == IF n <= 0 THEN << >> ELSE Spaces(n) IN
  << << >>, sp(1), sp(q - 1), sp(q), sp(q + 1), sp(q + 3), <<TAB>>, <<TAB, SP>>, <<SP, TAB>>, <<TAB, TAB>>, sp(3) \o <<TAB, SP>>, sp(q) \o <<TAB>> >>
NInd == IF Thorough THEN 12 ELSE 8
Trails == << << >>, <<SP>>, <<TAB, SP>> >>
NTrail == IF Thorough THEN 3 ELSE 2
Eols == << <<LF>>, <<CR, LF>> >>
\* trivia with the + that joins two strings
Joins == << C(" + "), C("+"), <<LF>> \o C("    + "), C(" +") \o <<LF>> \o C("      "), C(" /* c */ + "), C(" + // c") \o <<LF>> \o C("   "),
            <<TAB>> \o C("+") \o <<TAB>>, <<CR, LF>> \o C("  +") \o <<CR, LF>> \o C("  "), C(" +/*+*/ ") >>

HeadTxt == C("module m {") \o <<LF>> \o C("  namespace \"urn:m\";") \o <<LF>> \o C("  prefix m;") \o <<LF>>
TailMenu == << C(";"), C(" ;"), <<LF>> \o C("  ;"), C(" /* c */;") >>
FootTxt == <<LF>> \o C("}") \o <<LF>>

\* source of a double-quoted string from its lines
RECURSIVE DqFrom(_, _, _, _, _)
DqFrom(lines, inds, trails, eol, k) ==
  IF k > Len(lines) THEN << >>
  ELSE (IF k > 1 THEN inds[k] ELSE << >>) \o lines[k]
       \o (IF k < Len(lines) THEN trails[k] \o eol ELSE << >>) \o DqFrom(lines, inds, trails, eol, k + 1)
DqSrc(lines, inds, trails, eol) == DqFrom(lines, inds, trails, eol, 1)

Forms(pieces) == [k \in 1..Len(pieces) |-> pieces[k].q]
RECURSIVE CountLF(_, _)
CountLF(s, i) == IF i > Len(s) THEN 0 ELSE (IF s[i] = LF THEN 1 ELSE 0) + CountLF(s, i + 1)
Feat(pieces) ==
  LET dq == {k \in 1..Len(pieces) : pieces[k].q = "d"}
      ls(k) == SplitLines(pieces[k].src)
      body(l) == StripTrail(IF Len(l) > 0 /\ l[Len(l)] = CR THEN SubSeq(l, 1, Len(l) - 1) ELSE l)
  IN [forms |-> Forms(pieces),
      lines |-> IF dq = {} THEN 0 ELSE CHOOSE n \in {Len(ls(k)) : k \in dq} : \A k \in dq : Len(ls(k)) <= n,
      emptyFirstLine |-> \E k \in dq : Len(ls(k)) > 1 /\ body(ls(k)[1]) = << >>,
      blankMiddleLine |-> \E k \in dq : \E j \in 2..(Len(ls(k)) - 1) : StripTrail(StripLead(body(ls(k)[j]), 1000)) = << >>,
      crlf |-> \E k \in dq : \E i \in 1..Len(pieces[k].src) : pieces[k].src[i] = CR,
      leadingPlus |-> pieces[1].q = "u" /\ Len(pieces[1].src) > 0 /\ pieces[1].src[1] = PLUS,
      \* a double quote inside an unquoted word
      innerDQ |-> \E k \in 1..Len(pieces) : pieces[k].q = "u" /\ HasCh(pieces[k].src, DQ)]

\* the definitions of YangString checked against themselves on every generated double-quoted source
Sane(pieces) == \A k \in 1..Len(pieces) : pieces[k].q = "d" =>
  /\ PlainIsVerbatim(pieces[k].src, 7) /\ SingleLineLayoutFree(pieces[k].src) /\ NoBreakNoStrip(pieces[k].src, 7)
VecAt(f, pre, pieces, joins, tail, path) ==
  LET r == RenderArg(HeadTxt \o pre, pieces, joins) IN
  [fam |-> f, kw |-> "description", text |-> r.text \o tail \o FootTxt, path |-> path, expect |-> r.value, judged |-> r.judged, feat |-> Feat(pieces),
   sane |-> Assert(Sane(pieces), <<"spec fault: YangString contradicts itself on", pieces>>)]

Vec(f, pre, pieces, joins, tail) == VecAt(f, pre, pieces, joins, tail, PathOf(pre))
D(src) == [q |-> "d", src |-> src]
S(src) == [q |-> "s", src |-> src]
U(src) == [q |-> "u", src |-> src]
QC(pre) == QuoteCol(Append(HeadTxt \o pre, DQ))

\* family p: two lines
TwoLines(p) == LET pre == Pres[p]  q == QC(pre) IN
  {Vec(p, pre, <<D(DqSrc(<<LineMenu[a], LineMenu[b]>>, <<E0, Indents(q)[i]>>, <<Trails[t], E0>>, Eols[e]))>>, << >>, TailMenu[1 + ((a + b + i) % Len(TailMenu))])
     : a \in 1..Len(LineMenu), b \in 1..Len(LineMenu), i \in 1..NInd, t \in 1..NTrail, e \in 1..2}
\* family 20: three lines, empty and blank-only lines
ThreeLines(u_) == UNION {LET pre == Pres[p]  q == QC(pre)  I == Indents(q) IN
  {Vec(20, pre, <<D(DqSrc(<<l1, l2, l3>>, <<E0, I[i2], I[i3]>>, <<Trails[t], Trails[t], E0>>, Eols[e]))>>, << >>, TailMenu[1])
     : l1 \in {<< >>, C("a")}, l2 \in {<< >>, C("b")}, l3 \in {<< >>, C("c")}, i2 \in {1, 3, 5, 7}, i3 \in {1, 4, 6, 9}, t \in 1..2, e \in 1..2}
  : p \in (IF Thorough THEN {1, 2, 3, 5, 6, 11, 13, 17} ELSE {1, 5, 13})}
\* family 21: unquoted and single-quoted
UMenu == << C("a"), C("a+b"), C("+a"), C("a/b"), C("a:b-c.d_e"), <<233>>, C("a") \o <<BSL>> \o C("n"), C("x*y"), C("1.5"), C("a'b") >>
SMenu == << << >>, C("a b"), C("a") \o <<LF>> \o C("   b"), C("a  ") \o <<LF>> \o C("b"), <<BSL>> \o C("n") \o <<BSL, BSL>>, <<DQ>>, C("//c /*d*/"), <<TAB>> \o C("a") \o <<CR, LF, TAB>> \o C("b"),
            <<LF>>, C("+"), <<8364, 128512>> >>
Plain(u_) == {Vec(21, Pres[p], <<U(UMenu[k])>>, << >>, TailMenu[t]) : p \in {1, 4, 9}, k \in 1..(Len(UMenu) - 1), t \in 1..Len(TailMenu)}
         \cup {Vec(21, Pres[p], <<S(SMenu[k])>>, << >>, TailMenu[t]) : p \in {1, 3, 5, 9}, k \in 1..Len(SMenu), t \in {1, 2}}
\* family 22: concatenations
PieceMenu(q) == << D(C("a")), S(C("b")), D(<< >>), S(<< >>), D(C("x") \o <<LF>> \o Spaces(q) \o C("y")), D(C("x  ") \o <<LF>> \o C(" y")), S(C("s") \o <<LF>> \o C("  t")),
                   D(<<BSL, DQ>> \o C("q")), D(C("u") \o <<LF, TAB>> \o C("v")),
                   \* 10: indented far beyond the first quote column (what is left depends on where the piece ends up; used twice in
                   \*     one argument the same source text stands for two different values), 11/12: multi-byte characters before a later quote
                   D(C("x") \o <<LF>> \o Spaces(q + 14) \o C("y")), S(<<196, 214, 220>>), S(<<8364, 128512>>) >>
ConcatPres == IF Thorough THEN {1, 3, 5, 7, 13} ELSE {1}
Concat2(u_) == UNION {LET pre == Pres[p]  M == PieceMenu(QC(pre)) IN
    {Vec(22, pre, <<M[a], M[b]>>, <<Joins[j]>>, TailMenu[1 + ((a + b) % 2)]) : a \in 1..Len(M), b \in 1..Len(M), j \in 1..Len(Joins)}
  : p \in ConcatPres}
Concat3(u_) == UNION {LET pre == Pres[p]  M == PieceMenu(QC(pre)) IN
    {Vec(23, pre, <<M[a], M[b], M[c]>>, <<Joins[j], Joins[1 + ((j + a) % Len(Joins))]>>, TailMenu[1])
           : a \in {1, 2, 5, 11}, b \in 1..Len(M), c \in {1, 2, 6, 9, 10}, j \in 1..Len(Joins)}
  : p \in ConcatPres}

\* family 24: runs of two and three elements over the four escapes and the plain characters that look like one when a
\* backslash happens to stand before them (n, t, r, a quote-free word): \\ directly followed by n is a backslash and an n
Escapes(u_) == {Vec(24, Pres[1], <<D(r)>>, << >>, TailMenu[1]) : r \in EscRuns}
               \cup {Vec(24, Pres[5], <<D(C("C:") \o r \o <<LF>> \o C("     ") \o r)>>, << >>, TailMenu[1]) : r \in EscRuns}
               \cup {Vec(24, Pres[1], <<S(r), D(r)>>, <<Joins[1]>>, TailMenu[1]) : r \in EscRuns}

\* family 25: comments between and around the pieces of a concatenation, bodies from the shared menu (empty, starting or
\* ending with / and *, holding the other marker, quotes, braces, semicolons), with and without blanks around them:
\* whatever stands between the pieces is trivia, the value is the pieces joined
Cmts == [i \in 1..Len(BlockBodies) |-> CmtBlock(BlockBodies[i])] \o [i \in 1..Len(LineBodies) |-> CmtLine(LineBodies[i])]
Abx == <<D(C("a")), S(C("x")), D(C("b"))>>
CommentJoins(u_) ==
  {Vec(25, Pres[1], Abx, <<sp \o Cmts[i] \o sp \o C("+") \o sp, sp \o C("+") \o sp \o Cmts[j] \o sp>>, TailMenu[1])
     : i \in 1..Len(Cmts), j \in 1..Len(Cmts), sp \in {E0, <<SP>>}}
  \cup {Vec(25, Pres[1], Abx, <<sp \o Cmts[i] \o sp \o C("+") \o sp \o Cmts[i] \o sp, sp \o Cmts[i] \o C("+") \o Cmts[i]>>, TailMenu[1])
     : i \in 1..Len(Cmts), sp \in {E0, <<SP>>}}
  \cup {VecAt(25, C("  ") \o Kw \o <<SP>> \o Cmts[i] \o sp, Abx, <<C("+"), C(" + ")>>, sp \o Cmts[i] \o C(";"), <<3>>) : i \in 1..Len(Cmts), sp \in {E0, <<SP>>}}

\* families 26-29: the edges of multi-line strings.  For the last line as for the inner ones: indentation less than, equal
\* to and beyond the quote column (blanks and tabs) x trailing blanks and tabs (none, one, several) x content (none = a line
\* of blanks only), and the first line likewise.  Each source is also written in two other spellings of the same value -
\* single-quoted, and "lines up to the last break" + 'rest' - and TLC checks that the three values agree.
EdgeInd(q) == LET sp(n) == IF n <= 0 THEN << >> ELSE Spaces(n) IN {<< >>, sp(q - 2), sp(q), sp(q + 2), <<TAB>>, <<SP, TAB>>, sp(q) \o <<TAB>>}
Spellings(f, pre, src) ==
  LET q == QC(pre)
      v == DecodeDQ(src, q)
      last == TailOf(v)
      a == Vec(f, pre, <<D(src)>>, << >>, TailMenu[1])
      b == Vec(f, pre, <<S(v)>>, << >>, TailMenu[1])
      c == Vec(f, pre, <<D(HeadOf(src)), S(last)>>, <<Joins[1]>>, TailMenu[1])
  IN IF ~a.judged THEN {a}
     ELSE IF Assert(b.expect = v /\ a.expect = v /\ (~c.judged \/ c.expect = v), <<"spec fault: the spellings of one value disagree", src, q>>)
          THEN {a, b, c} ELSE {}
Edges2(p) == UNION {Spellings(26, Pres[p], src) : src \in Edge2(EdgeInd(QC(Pres[p])), <<LF>>) \cup (IF Thorough \/ p = 1 THEN Edge2(EdgeInd(QC(Pres[p])), <<CR, LF>>) ELSE {})}
Edges3(p) == LET q == QC(Pres[p])  I == EdgeInd(q) IN
             UNION {Spellings(27, Pres[p], src) : src \in (IF Thorough THEN Edge3(I, I) ELSE Edge3({<< >>, Spaces(q), Spaces(q + 2), <<TAB>>}, {<< >>, Spaces(q + 2)}))}

\* family 30: arguments are decoded per statement: several statements of one kind in one module whose arguments are long
\* (around 64, 96, 128, 256 bytes), equally long, and differ only at the end, only in the middle or only at the start;
\* every statement is a vector of its own (same text, its own path and value).  Also with the sibling statements in
\* another module parsed first with the same interners (field `before`).
LongLens == IF Thorough THEN {60, 63, 64, 65, 90, 95, 96, 97, 98, 100, 127, 128, 129, 160, 200, 255, 256, 257, 300, 520}
            ELSE {64, 96, 97, 100, 128, 129, 200, 257}
LongBase(n) == [i \in 1..n |-> 97 + (i % 23)]
LongArgs(n) == LET b == LongBase(n) IN <<b, [b EXCEPT ![n] = 90], [b EXCEPT ![n \div 2] = 90], [b EXCEPT ![1] = 90], [b EXCEPT ![n - 1] = 89]>>
\* spelling of the k-th long argument: plain double-quoted, or cut into two concatenated pieces
LongPieces(v, k) == IF k % 2 = 1 THEN <<D(v)>> ELSE <<S(SubSeq(v, 1, 40)), D(SubSeq(v, 41, Len(v)))>>
RECURSIVE LongStmts(_, _, _, _)
LongStmts(text, kw, args, k) ==
  IF k > Len(args) THEN text
  ELSE LongStmts(RenderArg(text \o C("  ") \o kw \o <<SP>>, LongPieces(args[k], k), <<C(" + ")>>).text \o <<SEMI, LF>>, kw, args, k + 1)
LongVec(kw, n, k, split) ==
  LET args == LongArgs(n)
      whole == LongStmts(HeadTxt, kw, args, 1) \o C("}") \o <<LF>>
      others == LongStmts(HeadTxt, kw, [j \in 1..(k - 1) |-> args[j]], 1) \o C("}") \o <<LF>>
      alone == RenderArg(HeadTxt \o C("  ") \o kw \o <<SP>>, LongPieces(args[k], k), <<C(" + ")>>).text \o <<SEMI, LF>> \o C("}") \o <<LF>>
  IN [fam |-> 30, kw |-> "m:e", text |-> IF split THEN alone ELSE whole, before |-> IF split THEN others ELSE << >>,
      path |-> IF split THEN <<3>> ELSE <<2 + k>>, expect |-> args[k], judged |-> TRUE, feat |-> Feat(LongPieces(args[k], k)),
      sane |-> TRUE]
LongOnes(u_) == {LongVec(C("m:e"), n, k, sp) : n \in LongLens, k \in 1..5, sp \in BOOLEAN}

\* families 31, 32: RFC 6020 6.1.3 strips "space or tab characters" - nothing else that Unicode calls white space, and no CR
\* beyond the one of a CR LF line break.  Every such character x (YangString!ExoChars), alone and mixed with blanks and tabs,
\* before a line break, in and around the indentation of a continuation line, in the middle of a line, before the closing
\* quote; first, inner and last lines; LF and CR LF.  (A CR next to a blank is left unjudged by JudgedDQ.)
ExoEols(x) == IF Thorough \/ x \in {CR, NBSP, FF} THEN {<<LF>>, <<CR, LF>>} ELSE {<<LF>>}
ExoPres == IF Thorough THEN {1, 5, 18} ELSE {1}
Exotic2(u_) == UNION {UNION {UNION {{Vec(31, Pres[p], <<D(src)>>, << >>, TailMenu[1]) : src \in Exo2(x, QC(Pres[p]), e, Thorough)}
                                     : e \in ExoEols(x)} : x \in ExoChars} : p \in ExoPres}
Exotic3(u_) == UNION {UNION {UNION {UNION {(IF Thorough THEN Spellings(32, Pres[p], src) ELSE {Vec(32, Pres[p], <<D(src)>>, << >>, TailMenu[1])})
                                            : src \in Exo3(x, QC(Pres[p]), e)} : e \in ExoEols(x)} : x \in ExoChars} : p \in ExoPres}

\* ---- statements as carriers of an argument.  A carrier is a complete module with a hole where the argument of one statement
\* goes: head + pre, the argument, post; path leads from the module to the statement; cls names the syntax RFC 6020 gives the
\* argument of that statement (section 12: which texts may stand there at all).  What is reported as the argument is the value of
\* its source form, for every statement alike (6.1.3 knows no keywords).
Car(kw, pre, post, path, cls) == [kw |-> kw, head |-> HeadTxt, pre |-> C(pre), post |-> C(post) \o FootTxt, path |-> path, cls |-> cls]
LeafT(kw, cls) == Car(kw, "  leaf l { type string; " \o kw \o " ", "; }", <<3, 2>>, cls)
InType(ty, kw, cls) == Car(kw, "  leaf l { type " \o ty \o " { " \o kw \o " ", "; } }", <<3, 1, 1>>, cls)
Top(kw, cls) == Car(kw, "  " \o kw \o " ", ";", <<3>>, cls)
FreeCars == << Top("description", "free"), Top("reference", "free"), Top("contact", "free"), Top("organization", "free"), Top("m:e", "free"),
               LeafT("default", "free"), LeafT("units", "free"), Car("presence", "  container c { presence ", "; }", <<3, 1>>, "free"),
               Car("error-message", "  leaf l { type string { pattern 'x' { error-message ", "; } } }", <<3, 1, 1, 1>>, "free"),
               Car("error-app-tag", "  leaf l { type string { pattern 'x' { error-app-tag ", "; } } }", <<3, 1, 1, 1>>, "free"),
               InType("enumeration", "enum", "free") >>
TypedCars == << InType("string", "pattern", "pattern"), InType("string", "length", "length"), InType("int32", "range", "range"),
                Car("key", "  list li { key ", "; leaf a { type string; } leaf b { type string; } }", <<3, 1>>, "key"),
                Car("unique", "  list li { key a; unique ", "; leaf a { type string; } leaf b { type string; } leaf c { type string; } }", <<3, 2>>, "unique"),
                InType("leafref", "path", "path"), LeafT("must", "xpath"), LeafT("when", "xpath"),
                Top("revision", "date"), Car("revision-date", "  import x { prefix x; revision-date ", "; }", <<3, 2>>, "date"),
                InType("bits", "bit", "ident"), InType("enumeration", "enum", "ident"),
                [kw |-> "namespace", head |-> C("module m {") \o <<LF>>, pre |-> C("  namespace "), post |-> C(";") \o <<LF>> \o C("  prefix m;") \o FootTxt, path |-> <<1>>, cls |-> "uri"],
                [kw |-> "prefix", head |-> C("module m {") \o <<LF>>, pre |-> C("  namespace \"urn:m\"; prefix "), post |-> C(";") \o FootTxt, path |-> <<2>>, cls |-> "ident"],
                Car("augment", "  augment ", " { leaf z { type string; } }", <<3>>, "absnode"), Car("deviation", "  deviation ", " { deviate not-supported; }", <<3>>, "absnode"),
                Car("refine", "  container c { uses g { refine ", " { description d; } } }", <<3, 1, 1>>, "descnode"),
                Car("if-feature", "  container c { if-feature ", "; }", <<3, 1>>, "idref"), Car("base", "  identity i { base ", "; }", <<3, 1>>, "idref"),
                Car("type", "  leaf l { type ", "; }", <<3, 1>>, "idref"), Car("uses", "  container c { uses ", "; }", <<3, 1>>, "idref"),
                Car("value", "  leaf l { type enumeration { enum a { value ", "; } } }", <<3, 1, 1, 1>>, "int"),
                Car("position", "  leaf l { type bits { bit a { position ", "; } } }", <<3, 1, 1, 1>>, "uint"),
                Car("min-elements", "  leaf-list ll { type string; min-elements ", "; }", <<3, 2>>, "uint"),
                Car("max-elements", "  leaf-list ll { type string; max-elements ", "; }", <<3, 2>>, "max"),
                InType("decimal64", "fraction-digits", "fd"), LeafT("config", "bool"), LeafT("mandatory", "bool"), LeafT("status", "status"),
                Car("ordered-by", "  leaf-list ll { type string; ordered-by ", "; }", <<3, 2>>, "order"), Top("yang-version", "version"),
                Car("yin-element", "  extension e { argument a { yin-element ", "; } }", <<3, 1, 1>>, "bool"),
                InType("instance-identifier", "require-instance", "bool") >>
\* texts per syntax class (each is a legal argument of the statements of its class; XSD regular expressions within what Go's
\* regexp package knows)
BS(s) == LET t == C(s) IN [i \in 1..Len(t) |-> IF t[i] = 126 THEN BSL ELSE t[i]]        \* '~' stands for a backslash
ClsTexts(cls) ==
  CASE cls = "pattern" -> {BS("~p{IsBasicLatin}+"), BS("~p{L}+"), BS("[~p{N}~p{L}]*"), BS("~d{2}-~d+"), BS("[a-z]+~.[a-z]+"), BS("~P{Lu}~s~w"), BS("a|b~|c"), BS("~~~-x"),
                           BS("~p{IsBasicLatin}~p{IsBasicLatin}*"), BS("~p{Lu}~p{Ll}*"), BS("x~p{IsBasicLatin}"), BS("(~p{IsBasicLatin}|~p{Nd}){1,3}"), BS("[0-9a-fA-F:~.]+"), BS("~{~}~[~]")}
    [] cls = "range" -> {C("1..10"), C("min..max"), C("1..10 | 20..max"), C("-5..5"), C("1 .. 10|20"), C("7")}
    [] cls = "length" -> {C("1..255"), C("0..max"), C("4 | 8..16"), C("min..8")}
    [] cls = "key" -> {C("a"), C("a b"), C("a  b"), C("b a")}
    [] cls = "unique" -> {C("a"), C("b c"), C("b  c")}
    [] cls = "path" -> {C("/m:a/m:b"), C("../a"), C("/m:li[m:k = current()/../m:x]/m:v"), C("../../m:c/m:d")}
    [] cls = "xpath" -> {C(". != ''"), C("../a = 'x' or ../b"), C("count(../li) <= 10"), C("a/b[c='1']/d"), C("starts-with(., \"ab\")"), C("not(../x) and (. * 2 > 7 - 1)"),
                         C("../a = 1") \o <<LF>> \o C("or ../b"), C("../a") \o <<LF>> \o C("  | ../b") \o <<LF>> \o C("  | ../c")}
    [] cls = "date" -> {C("2020-01-01"), C("1999-12-31")}
    [] cls = "ident" -> {C("a"), C("up-to_date.1"), C("_x")}
    [] cls = "uri" -> {C("urn:m"), C("http://example.com/ns?x=1&y=%20#frag"), C("urn:ietf:params:xml:ns:yang:m")}
    [] cls = "absnode" -> {C("/m:c"), C("/m:c/m:d")}
    [] cls = "descnode" -> {C("a"), C("a/b"), C("m:a/m:b")}
    [] cls = "idref" -> {C("t1"), C("m:t1")}
    [] cls = "int" -> {C("0"), C("42"), C("-7"), C("2147483647"), C("-2147483648")}
    [] cls = "uint" -> {C("0"), C("42"), C("4294967295")}
    [] cls = "max" -> {C("1"), C("unbounded"), C("42")}
    [] cls = "fd" -> {C("1"), C("18")}
    [] cls = "bool" -> {C("true"), C("false")}
    [] cls = "status" -> {C("current"), C("deprecated"), C("obsolete")}
    [] cls = "order" -> {C("user"), C("system")}
    [] cls = "version" -> {C("1")}
    [] OTHER -> {}
TypedClasses == {"pattern", "range", "length", "key", "unique", "path", "xpath", "date", "ident", "uri", "absnode", "descnode", "idref", "int", "uint", "max", "fd", "bool", "status", "order"}
\* free text: whatever any of the others may carry, and texts of its own (none with a blank at either end or empty: an enum carries them too)
FreeTexts(u_) == UNION {ClsTexts(c) : c \in TypedClasses}
                 \cup {C("it's"), C("\"q\""), C("x;y{z}"), C("//c"), C("/*c*/ */"), C("+"), C("a+b"), C("10%"), C("a") \o <<TAB>> \o C("b"), <<233, 8364, 128512>>, C("a") \o <<NBSP>> \o C("b"),
                       BS("C:~dir~new~table~"), BS("~n~t~~~\"")}
\* the source forms of a value v whose first quote stands in column q: double-quoted (escaped), single-quoted, unquoted - where such
\* a form exists -, double-quoted over several lines (continuation lines indented to the column after the quote), and two pieces cut
\* at position k in the quoting combinations that exist; the + with the k-th trivia of the menu
RECURSIVE Aligned(_, _, _)
Aligned(v, q, i) == IF i > Len(v) THEN << >>
                    ELSE (IF v[i] = LF THEN <<LF>> \o Spaces(q) ELSE IF v[i] = DQ THEN <<BSL, DQ>> ELSE IF v[i] = BSL THEN <<BSL, BSL>> ELSE <<v[i]>>) \o Aligned(v, q, i + 1)
CutPts(v, wide) == {k \in (IF wide THEN {1, 2, 3, 5, Len(v) \div 2, Len(v) - 1} ELSE {Len(v) \div 2}) : k >= 1 /\ k < Len(v)}
FormsOf(v, q, wide) ==
  {[ps |-> <<D(EscDQ(v, 1))>>, js |-> << >>]}
  \cup (IF HasCh(v, SQ) THEN {} ELSE {[ps |-> <<S(v)>>, js |-> << >>]})
  \cup (IF UnqJudged(v) /\ v[1] # PLUS /\ ~HasCh(v, DQ) THEN {[ps |-> <<U(v)>>, js |-> << >>]} ELSE {})
  \cup (IF HasCh(v, LF) THEN {[ps |-> <<D(Aligned(v, q, 1))>>, js |-> << >>]} ELSE {})
  \cup UNION {LET l == SubSeq(v, 1, k)  r == SubSeq(v, k + 1, Len(v))  j == <<Joins[1 + (k % Len(Joins))]>> IN
              {[ps |-> <<D(EscDQ(l, 1)), D(EscDQ(r, 1))>>, js |-> j]}
              \cup (IF HasCh(l, SQ) THEN {} ELSE {[ps |-> <<S(l), D(EscDQ(r, 1))>>, js |-> j]})
              \cup (IF HasCh(r, SQ) THEN {} ELSE {[ps |-> <<D(EscDQ(l, 1)), S(r)>>, js |-> j]}) : k \in CutPts(v, wide)}
\* the way into the parser (YangChars!AllEntries) rotates over the vectors of families 33-35: the argument of a statement is the
\* value of its source form through every entry, also when the Tree (with its interners) has parsed another module before
C8Firsts == << HeadTxt \o C("  description \"earlier text\";") \o <<LF>> \o BS("  leaf l { type string { pattern '~p{IsBasicLatin}*'; length 1..5; } default a; units a; }") \o FootTxt,
               << >>, C("a b c"), HeadTxt \o C("  m:e a'b;  contact \"a\" + 'b';") \o FootTxt >>
EntryOf(k) == AllEntries[1 + (k % 5)]
FirstOf(k) == IF EntryOf(k) = "Reparse" THEN C8Firsts[1 + ((k \div 5) % Len(C8Firsts))] ELSE << >>
CarVec(f, c, v, form) ==
  LET r == RenderArg(c.head \o c.pre, form.ps, form.js)  k == Len(r.text) + Len(form.ps) + Len(v) IN
  [fam |-> f, kw |-> c.kw, entry |-> EntryOf(k), first |-> FirstOf(k), text |-> r.text \o c.post, path |-> c.path, expect |-> r.value, judged |-> r.judged, feat |-> Feat(form.ps),
   sane |-> Assert(Sane(form.ps) /\ (r.judged => r.value = v), <<"spec fault: a source form does not stand for its value", c.kw, v, form>>)]
CarVecs(f, c, texts, wide) == UNION {{CarVec(f, c, v, fm) : fm \in FormsOf(v, QuoteCol(Append(c.head \o c.pre, DQ)), wide)} : v \in texts}
Typed(u_) == UNION {CarVecs(34, TypedCars[i], ClsTexts(TypedCars[i].cls), TRUE) : i \in 1..Len(TypedCars)}
Free(u_) == UNION {CarVecs(35, FreeCars[i], FreeTexts(0), Thorough) : i \in 1..Len(FreeCars)}

\* family 33: unquoted strings stand for themselves (YangString!UnqJudged says which texts are unquoted strings at all).  Every
\* printable ASCII punctuation character except ; { } and a choice of characters beyond ASCII (1 to 4 bytes, blanks of Unicode,
\* characters whose low byte is that of a structural ASCII character) inside a word, at its end, doubled, twice in a word, and
\* every pair of punctuation characters inside a word; carried by statements of several kinds, followed by ; directly, by a
\* blank, by a line break and by a block.
Punct == C("!\"#$%&'()*+,-./:<=>?@[\\]^_`|~")
BeyondAscii == <<233, 8364, 128512, NBSP, 8232, 12288>> \o SetToSeq(AliasesAt(256))
UnqShapes(x) == {<<97, x, 98>>, <<97, x>>, <<97, 98, x, x>>, <<97, x, 98, x, 99>>, <<49, x, 50, x>>, <<46, 46, 47, 99, 61, x, 120, x>>}
UnqPosts == << C(";"), C(" ;"), <<LF>> \o C("  ;"), C(" { }"), C("{}") >>
UnqCars == << Top("description", "free"), Top("m:e", "free"), LeafT("default", "free"), LeafT("units", "free"), InType("enumeration", "enum", "free"),
              Car("presence", "  container c { presence ", "; }", <<3, 1>>, "free") >>
WithPost(c, k) == IF c.kw \in {"description", "m:e"} THEN [c EXCEPT !.post = UnqPosts[1 + (k % Len(UnqPosts))] \o FootTxt] ELSE c
UnqVec(c, v) == LET r == RenderArg(c.head \o c.pre, <<U(v)>>, << >>)  k == Len(r.text) + v[2] + v[Len(v)] IN
  [fam |-> 33, kw |-> c.kw, entry |-> EntryOf(k), first |-> FirstOf(k), text |-> r.text \o c.post, path |-> c.path, expect |-> r.value, judged |-> r.judged, feat |-> Feat(<<U(v)>>), sane |-> TRUE]
Unquoted(u_) ==
  LET chars == Punct \o BeyondAscii
      words == UNION {{<<i, w>> : w \in UnqShapes(chars[i])} : i \in 1..Len(chars)}
               \cup {<<x + y, <<97, Punct[x], Punct[y], 98>>>> : x \in 1..Len(Punct), y \in 1..Len(Punct)}
      ok == {w \in words : UnqJudged(w[2])}
  IN UNION {{UnqVec(WithPost(UnqCars[1 + ((w[1] + Len(w[2]) + d) % Len(UnqCars))], w[1] + d), w[2]) : d \in (IF Thorough THEN 0..5 ELSE {0, 1})} : w \in ok}

\* family 100: everything at random
RE(seq) == seq[RandomElement(1..Len(seq))]
RandDq(q) == LET n == RandomElement(1..4)  e == RE(Eols) IN
  D(DqSrc([k \in 1..n |-> RE(LineMenuAll)], [k \in 1..n |-> RE(Indents(q))], [k \in 1..n |-> RE(Trails)], e))
RandPiece(q) == LET r == RandomElement(1..10) IN IF r <= 7 THEN RandDq(q) ELSE S(RE(SMenu))
RandVec(u_) == LET pre == RE(Pres)  n == RandomElement(1..3)
                   \* the quote column of later pieces is whatever the rendering makes it; indents are drawn around the first one
                   q == QC(pre) IN
  Vec(100, pre, [k \in 1..n |-> RandPiece(IF k = 1 THEN q ELSE RandomElement(1..24))], [k \in 1..(n - 1) |-> RE(Joins)], RE(TailMenu))
Random(u_) == {RandVec(k) : k \in 1..(NRand \div 2)}

\* (the big sets take a dummy parameter: TLC evaluates every parameterless definition once at start-up, single-threaded)
Cases == IF fam <= Len(Pres) THEN TwoLines(fam)
         ELSE IF fam = 20 THEN ThreeLines(0) ELSE IF fam = 21 THEN Plain(0) ELSE IF fam = 22 THEN Concat2(0) ELSE IF fam = 23 THEN Concat3(0) ELSE IF fam = 24 THEN Escapes(0) ELSE IF fam = 25 THEN CommentJoins(0) ELSE IF fam = 26 THEN Edges2(1) ELSE IF fam = 27 THEN Edges2(5) ELSE IF fam = 28 THEN Edges3(1) ELSE IF fam = 29 THEN Edges3(5) ELSE IF fam = 30 THEN LongOnes(0) ELSE IF fam = 31 THEN Exotic2(0) ELSE IF fam = 32 THEN Exotic3(0) ELSE IF fam = 33 THEN Unquoted(0) ELSE IF fam = 34 THEN Typed(0) ELSE IF fam = 35 THEN Free(0) ELSE Random(0)
GInit == fam \in PreFams \cup {20, 21, 22, 23, 24, 25, 26, 27, 28, 30, 31, 32, 33, 34, 35, 100, 101} \cup (IF Thorough THEN {29} ELSE {}) /\ done = FALSE
GNext == /\ ~done /\ done' = TRUE /\ UNCHANGED fam
         /\ ndJsonSerialize("vec_" \o ToString(fam) \o ".ndjson", SetToSeq(Cases))
=============================================================================
