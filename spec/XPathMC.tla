------------------------------- MODULE XPathMC -------------------------------
(* Exhaustive model: every AST of the chosen families is compiled and run on the
   machine, with every fault position up to Faults; TLC checks on every state that
   the machine computes the XPath meaning (Correct), value-xor-error, fault
   faithfulness and absence of stack underflow.  The AST is picked by the first
   step (one initial state per family, so that all workers are used).          *)
EXTENDS XPathMachine, XPathSets
CONSTANTS Fams, Faults, NChunks
VARIABLES fam, chunk
MCInit == /\ fam \in Fams /\ chunk \in 0..(NChunks - 1) /\ ast = NoArg /\ prog = << >> /\ st = InitState /\ failAt = 0
Pick == /\ prog = << >>
        /\ \E e \in FamilyC(fam, chunk, NChunks) : \E f \in 0..Faults :
             /\ ast' = e /\ prog' = Compile(e) /\ failAt' = f
        /\ UNCHANGED <<st, fam, chunk>>
MCNext == Pick \/ (prog # << >> /\ MStep /\ UNCHANGED <<fam, chunk>>)
MCSpec == MCInit /\ [][MCNext]_<<mvars, fam, chunk>>
Picked == prog # << >>
MCCorrect == Picked => Correct
MCValueXorError == Picked => ValueXorError
MCFaultFaithful == Picked => FaultFaithful
=============================================================================
