------------------------------ MODULE YangString ------------------------------
(* C08: the value of a YANG string argument as RFC 6020 section 6.1.3 prescribes.
   Written from the RFC text (not from parse.go):

     * an unquoted string and a single-quoted string stand for themselves;
     * in a double-quoted string, blanks (space, tab) before a line break are
       removed; on every line after the first, indentation is removed "up to and
       including the column of the double quote character, or to the first
       non-whitespace character, whichever occurs first", a tab counting as 8
       columns (a tab that reaches beyond that column leaves the columns beyond it
       as spaces); \n \t \" \\ stand for line feed, tab, quote and backslash;
     * strings joined by + are concatenated; comments are trivia between tokens
       and ordinary text inside quotes.

   RFC 6020 does not say whether the escapes are substituted before or after the
   white-space rules (RFC 7950 says after; the code does it before).  Both orders
   are defined here and a string is *judged* only if they give the same value.
   A backslash before any other character and a CR that is not part of CR LF and
   has a blank next to it are outside the judged space as well.  The column of the opening quote is counted
   in characters (RFC 6020 speaks of columns): a character of 2, 3 or 4 bytes
   before the quote on its line takes one column like any other.

   A source text is a sequence of code points (YangChars).                      *)
EXTENDS YangChars

ColW(c) == IF c = TAB THEN 8 ELSE 1
RECURSIVE WidthBack(_, _)
WidthBack(t, i) == IF i < 1 \/ t[i] = LF THEN 0 ELSE ColW(t[i]) + WidthBack(t, i - 1)
\* column of the last character of t (the opening quote), counted from 1
QuoteCol(t) == WidthBack(t, Len(t))
\* (a column is a character position: a tab takes 8, every other character - of however many bytes - takes 1)
RECURSIVE AsciiBack(_, _)
AsciiBack(t, i) == IF i < 1 \/ t[i] = LF THEN TRUE ELSE IsAscii(t[i]) /\ AsciiBack(t, i - 1)

RECURSIVE SplitAcc(_, _, _)
SplitAcc(s, i, cur) == IF i > Len(s) THEN <<cur>>
                       ELSE IF s[i] = LF THEN <<cur>> \o SplitAcc(s, i + 1, << >>)
                       ELSE SplitAcc(s, i + 1, Append(cur, s[i]))
SplitLines(s) == SplitAcc(s, 1, << >>)
RECURSIVE JoinLines(_, _)
JoinLines(ls, k) == IF k > Len(ls) THEN << >> ELSE (IF k > 1 THEN <<LF>> ELSE << >>) \o ls[k] \o JoinLines(ls, k + 1)

RECURSIVE StripTrail(_)
StripTrail(s) == IF Len(s) > 0 /\ IsBlank(s[Len(s)]) THEN StripTrail(SubSeq(s, 1, Len(s) - 1)) ELSE s
\* s is a line that is followed by a line break; a final CR belongs to the break (CR LF)
StripBeforeBreak(s) == IF Len(s) > 0 /\ s[Len(s)] = CR THEN Append(StripTrail(SubSeq(s, 1, Len(s) - 1)), CR) ELSE StripTrail(s)

Spaces(n) == [i \in 1..n |-> SP]
RECURSIVE StripLeadFrom(_, _, _, _)
StripLeadFrom(s, i, w, n) ==
  IF i > Len(s) THEN << >>
  ELSE IF ~IsBlank(s[i]) THEN SubSeq(s, i, Len(s))
  ELSE LET w2 == w + ColW(s[i]) IN
       IF w2 >= n THEN Spaces(w2 - n) \o SubSeq(s, i + 1, Len(s)) ELSE StripLeadFrom(s, i + 1, w2, n)
\* remove indentation up to and including column n
StripLead(s, n) == StripLeadFrom(s, 1, 0, n)

Strip(s, qcol) ==
  LET ls == SplitLines(s)  n == Len(ls)
      one(k) == LET a == IF k < n THEN StripBeforeBreak(ls[k]) ELSE ls[k] IN IF k > 1 THEN StripLead(a, qcol) ELSE a
  IN JoinLines([k \in 1..n |-> one(k)], 1)

IsEsc(c) == c = 110 \/ c = 116 \/ c = DQ \/ c = BSL            \* n t " \
EscVal(c) == IF c = 110 THEN LF ELSE IF c = 116 THEN TAB ELSE c
RECURSIVE SubstFrom(_, _)
SubstFrom(s, i) == IF i > Len(s) THEN << >>
                   ELSE IF s[i] = BSL /\ i < Len(s) /\ IsEsc(s[i + 1]) THEN <<EscVal(s[i + 1])>> \o SubstFrom(s, i + 2)
                   ELSE <<s[i]>> \o SubstFrom(s, i + 1)
Subst(s) == SubstFrom(s, 1)
RECURSIVE OtherEscFrom(_, _)
OtherEscFrom(s, i) == IF i > Len(s) THEN FALSE
                      ELSE IF s[i] = BSL THEN (i = Len(s) \/ ~IsEsc(s[i + 1]) \/ OtherEscFrom(s, i + 2))
                      ELSE OtherEscFrom(s, i + 1)
\* A CR that is not part of CR LF: RFC 6020 does not say whether it is an ordinary character or a line break of its own.  The
\* two readings give different values only if a blank stands next to it (directly, or with only CRs between): blanks before
\* a line break and indentation after one are removed, nothing else is - a CR is neither space nor tab.  Only then is the
\* string left unjudged; "a CR CR LF b" stands for itself under either reading.
RECURSIVE PrevNonCR(_, _), NextNonCR(_, _)
PrevNonCR(s, i) == IF i < 1 THEN EOFC ELSE IF s[i] = CR THEN PrevNonCR(s, i - 1) ELSE s[i]
NextNonCR(s, i) == IF i > Len(s) THEN EOFC ELSE IF s[i] = CR THEN NextNonCR(s, i + 1) ELSE s[i]
LoneCR(s) == \E i \in 1..Len(s) : /\ s[i] = CR /\ (i = Len(s) \/ s[i + 1] # LF)
                                   /\ (IsBlank(PrevNonCR(s, i - 1)) \/ IsBlank(NextNonCR(s, i + 1)))

DecodeStripFirst(s, qcol) == Subst(Strip(s, qcol))       \* RFC 7950 order
DecodeSubstFirst(s, qcol) == Strip(Subst(s), qcol)       \* the other reading of RFC 6020
DecodeDQ(s, qcol) == DecodeStripFirst(s, qcol)
JudgedDQ(s, qcol) == ~OtherEscFrom(s, 1) /\ ~LoneCR(s) /\ DecodeStripFirst(s, qcol) = DecodeSubstFirst(s, qcol)

\* ---- unquoted strings.  RFC 6020 6.1.3: "An unquoted string is any sequence of characters that does not contain any space,
\* tab, carriage return, or line feed characters, a semicolon, braces, or comment sequences" - and it stands for itself.  Every
\* other character is an ordinary character of it: all other ASCII punctuation, including a single or a double quote after
\* the first character, a plus, a backslash, a lone slash or star, and every character beyond ASCII.  Not judged (the text is
\* then no unquoted string, or RFC 6020 does not say): a string that starts with a quote, and one that contains a separator,
\* ; { } or // /* */.
HasCh(v, c) == \E i \in 1..Len(v) : v[i] = c
HasPair(v, a, b) == \E i \in 1..(Len(v) - 1) : v[i] = a /\ v[i + 1] = b
UnqJudged(v) == /\ Len(v) > 0 /\ v[1] \notin {DQ, SQ}
                /\ \A i \in 1..Len(v) : ~IsSep(v[i]) /\ v[i] \notin {SEMI, LBR, RBR}
                /\ ~HasPair(v, SLASH, SLASH) /\ ~HasPair(v, SLASH, STAR) /\ ~HasPair(v, STAR, SLASH)
\* a double-quoted source form of a value: the characters that mean something inside double quotes are escaped
RECURSIVE EscDQ(_, _)
EscDQ(v, i) == IF i > Len(v) THEN << >>
               ELSE (IF v[i] = DQ THEN <<BSL, DQ>> ELSE IF v[i] = BSL THEN <<BSL, BSL>> ELSE IF v[i] = LF THEN <<BSL, 110>> ELSE <<v[i]>>) \o EscDQ(v, i + 1)

\* ---- an argument in its source form: pieces [q, src] (q: "u" unquoted, "s" single, "d" double
\*      quoted) joined by joins[k] (trivia + trivia); `before` is the text up to the first piece ----
RECURSIVE RenderFrom(_, _, _, _, _, _)
RenderFrom(text, value, judged, pieces, joins, k) ==
  IF k > Len(pieces) THEN [text |-> text, value |-> value, judged |-> judged]
  ELSE LET t0 == IF k > 1 THEN text \o joins[k - 1] ELSE text
           p == pieces[k]
       IN IF p.q = "u" THEN RenderFrom(t0 \o p.src, value \o p.src, judged /\ UnqJudged(p.src), pieces, joins, k + 1)
          ELSE IF p.q = "s" THEN RenderFrom(t0 \o <<SQ>> \o p.src \o <<SQ>>, value \o p.src, judged, pieces, joins, k + 1)
          ELSE LET t1 == Append(t0, DQ)  qc == QuoteCol(t1) IN
               RenderFrom(t1 \o p.src \o <<DQ>>, value \o DecodeDQ(p.src, qc),
                          judged /\ JudgedDQ(p.src, qc),
                          pieces, joins, k + 1)
RenderArg(before, pieces, joins) == RenderFrom(before, << >>, TRUE, pieces, joins, 1)

\* ---- sanity of the definitions themselves (checked by TLC on the generated layouts) ----
\* a double-quoted string without line break and without backslash stands for itself
PlainIsVerbatim(s, qcol) == (\A i \in 1..Len(s) : s[i] # LF /\ s[i] # BSL) => DecodeDQ(s, qcol) = s
\* the value of a string without line break does not depend on where the quote stands
SingleLineLayoutFree(s) == (\A i \in 1..Len(s) : s[i] # LF) => DecodeDQ(s, 1) = DecodeDQ(s, 40)
\* the white-space rules touch nothing in a string without line break
NoBreakNoStrip(s, qcol) == (\A i \in 1..Len(s) : s[i] # LF) => Strip(s, qcol) = s

\* ---- menus shared by the generators of C08 and C10 ----
\* comment bodies: empty, starting / ending with the characters of the markers, holding the other marker, quotes,
\* braces, semicolons, a line break, a non-ASCII character (a block comment ends at the first */ after its /*, a line
\* comment at the line feed; nothing inside means anything)
BlockBodies == << S2C(" c "), << >>, S2C("/"), S2C("*"), S2C("/ note "), S2C(" x /"), S2C(" x *"), S2C("/*"), S2C("//"), S2C(" // "), S2C(" } ; { \" ' "),
                  S2C(" ") \o <<LF>> \o S2C(" "), S2C(" ") \o <<233>> \o S2C(" "), S2C("**"), S2C("/ /* /") >>
LineBodies == << S2C(" c"), << >>, S2C("/"), S2C("*"), S2C("/*"), S2C(" */"), S2C("*/"), S2C(" \" ' { ; }"), S2C(" // x"), S2C(" /* ") >>
CmtBlock(b) == S2C("/*") \o b \o S2C("*/")
CmtLine(b) == S2C("//") \o b \o <<LF>>

\* runs of two and three elements over the four escapes and the plain characters that look like one when a backslash
\* happens to stand before them (n, t, r, a quote-free word): \\ directly followed by n is a backslash and an n
EscEl == << <<BSL, BSL>>, <<BSL, 110>>, <<BSL, 116>>, <<BSL, DQ>>, S2C("n"), S2C("t"), S2C("r"), S2C("x y") >>
EscRuns2 == {EscEl[a] \o EscEl[b] : a \in 1..Len(EscEl), b \in 1..Len(EscEl)}
EscRuns3 == {EscEl[a] \o EscEl[b] \o EscEl[c] : a \in 1..Len(EscEl), b \in 1..Len(EscEl), c \in 1..Len(EscEl)}
EscRuns == EscRuns2 \cup EscRuns3

\* ---- the edges of a multi-line double-quoted string (shared by the generators of C08 and C10) ----
\* Every line is indentation + content + trailing blanks.  Blanks before a line break go (first and inner lines), blanks
\* before the closing quote stay (last line); indentation goes up to the quote column on every line but the first.
EdgeTrails == {<< >>, <<SP>>, <<SP, SP, TAB>>}                      \* none, one, several
EdgeConts == {<< >>, S2C("x"), S2C("login:")}                       \* empty content: a line of blanks only
EdgeLineSet(I) == {ind \o c \o t : ind \in I, c \in EdgeConts, t \in EdgeTrails}
EdgeFirst == {ind \o c \o t : ind \in {<< >>, <<SP>>}, c \in {<< >>, S2C("x")}, t \in EdgeTrails}
Edge2(I, eol) == {f \o eol \o l : f \in EdgeFirst, l \in EdgeLineSet(I)}
Edge3(I, J) == {f \o <<LF>> \o m \o <<LF>> \o l : f \in {<< >>, S2C("x "), S2C("x")}, m \in EdgeLineSet(J), l \in EdgeLineSet(I)}
\* ---- characters that are white space to Unicode but ordinary characters to YANG (YangChars!UniBlanks), and a CR that is not
\* part of a line break, at the edges and in the middle of the lines of a multi-line double-quoted string (shared by C08 and
\* C10).  RFC 6020 6.1.3 removes space and tab characters only: x stays wherever it is, the blanks that a rule reaches
\* go (blanks before the line break even when x stands before them; indentation up to the quote column, but nothing behind an x).
ExoChars == UniBlanks \cup {BOM, CR}
ExoTrail(x) == {<< >>, <<x>>, <<SP, x>>, <<x, SP>>, <<x, TAB, x>>, <<SP, x, SP, TAB>>}
ExoLead(x, q) == {<< >>, <<x>>, Spaces(q) \o <<x>>, <<x>> \o Spaces(q), <<SP, x, SP>>, <<TAB, x>>, Spaces(q + 1)}
\* two lines: content, x around the line break, x in and around the indentation of the second line, x before the closing quote
Exo2(x, q, eol, wide) == {f \o t1 \o eol \o ld \o S2C("b") \o t2 :
                           f \in (IF wide THEN {<< >>, S2C("a"), S2C("a") \o <<x>> \o S2C("c")} ELSE {<< >>, S2C("a") \o <<x>> \o S2C("c")}),
                           t1 \in ExoTrail(x), ld \in ExoLead(x, q), t2 \in (IF wide THEN {<< >>, <<x>>, <<x, SP>>} ELSE {<< >>, <<x, SP>>})}
\* three lines: the same around an inner line, which may consist of x and blanks only
Exo3(x, q, eol) == {S2C("a") \o eol \o ld \o m \o t \o eol \o Spaces(q) \o S2C("c") :
                     ld \in {<< >>, <<x>>, Spaces(q) \o <<x>>, <<SP, x, SP>>}, m \in {<< >>, S2C("m"), S2C("m") \o <<x>> \o S2C("n")},
                     t \in {<< >>, <<x>>, <<x, SP>>, <<SP, x>>}}
\* a source cut after its last line break
RECURSIVE LastLfIn(_, _)
LastLfIn(s, i) == IF i < 1 THEN 0 ELSE IF s[i] = LF THEN i ELSE LastLfIn(s, i - 1)
HeadOf(s) == SubSeq(s, 1, LastLfIn(s, Len(s)))
TailOf(s) == SubSeq(s, LastLfIn(s, Len(s)) + 1, Len(s))
=============================================================================
