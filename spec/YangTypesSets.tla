---------------------------- MODULE YangTypesSets ----------------------------
(* Bounded input spaces for the type families: restriction menus built from
   boundary coincidences, typedef chains to depth 3, defaults at each level,
   probe lexemes at every bound +/- one unit, lexical variants, 18-20 digit
   values, multi-byte strings, substring-only pattern matches; and the vector
   (input + prescribed behaviour) written for each chain.                      *)
EXTENDS YangTypes, SequencesExt

c0 == T("0")  c1 == T("1")  c2 == T("2")  c3 == T("3")  c4 == T("4")
c5 == T("5")  c6 == T("6")  c7 == T("7")  c8 == T("8")  c9 == T("9")
P2(lo, hi) == [lo |-> lo, hi |-> hi, single |-> FALSE]
P1(x) == [lo |-> x, hi |-> x, single |-> TRUE]
Rg(parts) == [Lv0 EXCEPT !.rng = parts]
Ln(parts) == [Lv0 EXCEPT !.len = parts]
WithDef(L, d) == [L EXCEPT !.hasDef = TRUE, !.def = d]
Pat(re, msg, tag) == [re |-> re, msg |-> msg, tag |-> tag, txt |-> PatText(re)]
SeqCat(ss) == FoldLeft(LAMBDA a, b : a \o b, << >>, ss)

IntBases == <<"int8", "uint8", "int64", "uint64", "int16", "uint16", "int32", "uint32">>
AllIntBases == <<"int8", "uint8", "int16", "uint16", "int32", "uint32", "int64", "uint64">>
DecFds == <<1, 2, 18, 3, 9, 17>>

\* ------------------------------------------------------------------ integer range menus
IntM1(k) ==
  LET lo == WidthOf(k).lo  hi == WidthOf(k).hi  s(x) == ShowNum(x) IN
  << << >>,
     <<P2(MinT, MaxT)>>,
     <<P2(s(lo), s(hi))>>,
     <<P2(c1, c5), P2(c6, c9)>>,                      \* adjacent parts
     <<P2(c1, c5), P2(c7, c9)>>,                      \* gap
     <<P2(MinT, c5), P2(c7, MaxT)>>,
     <<P1(c5)>>,
     <<P2(s(Inc(lo)), s(Dec(hi)))>>,
     <<P2(s(Dec(Dec(hi))), s(Dec(hi)))>>,
     <<P1(s(lo)), P2(c1, c5), P1(s(hi))>>,
     <<P1(MinT), P2(c1, c5)>>,
     <<P1(MaxT)>>,
     <<P2(c1, c5), P2(c5, c9)>>,                      \* overlapping
     <<P2(c6, c9), P2(c1, c5)>>,                      \* descending order
     <<P2(c9, c1)>>,                                  \* reversed part
     <<P2(s(Dec(lo)), c5)>>,                          \* outside the base
     <<P2(c5, s(Inc(hi)))>> >>
IntM2(k) ==
  LET lo == WidthOf(k).lo  hi == WidthOf(k).hi  s(x) == ShowNum(x) IN
  << << >>,
     <<P2(MinT, MaxT)>>,
     <<P2(c1, c9)>>,
     <<P2(c2, c4)>>,
     <<P2(c5, c6)>>,
     <<P2(c4, c7)>>,
     <<P2(MinT, c4), P2(c8, MaxT)>>,
     <<P2(c0, c9)>>,
     <<P1(c5)>>,
     <<P2(c2, c3), P2(c4, c4)>>,
     <<P2(s(lo), s(hi))>>,
     <<P2(s(Dec(Dec(hi))), s(Dec(hi)))>>,
     <<P1(MaxT)>> >>
IntM3(k) ==
  LET hi == WidthOf(k).hi  s(x) == ShowNum(x) IN
  << << >>,
     <<P2(MinT, MaxT)>>,
     <<P2(c3, c4)>>,
     <<P2(c1, c9)>>,
     <<P1(s(Dec(hi)))>>,
     <<P2(c2, c2), P2(c8, c8)>>,
     <<P1(MinT)>>,
     <<P2(c5, c6)>> >>

\* ------------------------------------------------------------------ decimal64 range menus (tenths, scaled by fd)
Tn(n10, fd) == Mk(FALSE, NatDigits(n10) \o Zeros(fd - 1))
DecM1(fd) ==
  LET lo == WidthOf("decimal64").lo  hi == WidthOf("decimal64").hi  s(x) == ShowDec(x, fd)  t(n) == ShowDec(Tn(n, fd), fd) IN
  << << >>,
     <<P2(MinT, MaxT)>>,
     <<P2(s(lo), s(hi))>>,
     <<P2(t(15), t(25)), P2(s(Inc(Tn(25, fd))), t(35))>>,      \* parts one unit apart
     <<P2(t(15), t(25)), P2(t(30), t(35))>>,
     <<P2(MinT, t(25)), P2(t(30), MaxT)>>,
     <<P1(t(25))>>,
     <<P2(s(Inc(lo)), s(Dec(hi)))>>,
     <<P2(s(Dec(Dec(hi))), s(Dec(hi)))>>,
     <<P2(T("1"), T("3"))>>,                                       \* bounds written without a fraction
     <<P1(MaxT)>>,
     <<P2(t(15), t(25)), P2(t(25), t(35))>>,
     <<P2(t(30), t(35)), P2(t(15), t(25))>>,
     <<P2(t(35), t(15))>>,
     <<P2(s(Dec(lo)), t(25))>>,
     <<P2(t(25), s(Inc(hi)))>> >>
DecM2(fd) ==
  LET lo == WidthOf("decimal64").lo  hi == WidthOf("decimal64").hi  s(x) == ShowDec(x, fd)  t(n) == ShowDec(Tn(n, fd), fd) IN
  << << >>,
     <<P2(MinT, MaxT)>>,
     <<P2(t(15), t(35))>>,                                         \* spans the parts
     <<P2(t(16), t(24))>>,
     <<P2(t(25), s(Inc(Tn(25, fd))))>>,                            \* spans parts one unit apart
     <<P2(t(15), t(25))>>,
     <<P2(MinT, t(20)), P2(t(32), MaxT)>>,
     <<P2(t(14), t(35))>>,
     <<P1(t(25))>>,
     <<P2(s(lo), s(hi))>>,
     <<P2(s(Dec(Dec(hi))), s(Dec(hi)))>>,
     <<P2(s(Dec(hi)), s(hi))>> >>
DecM3(fd) ==
  LET t(n) == ShowDec(Tn(n, fd), fd) IN
  << << >>, <<P2(MinT, MaxT)>>, <<P2(t(17), t(20))>>, <<P1(t(25))>> >>

\* ------------------------------------------------------------------ string menus
LenM1 == << << >>,
            <<P2(c2, c3)>>,
            <<P2(c0, c2), P2(c3, c5)>>,
            <<P2(c1, c2), P2(c4, c5)>>,
            <<P2(MinT, c3)>>,
            <<P2(c2, MaxT)>>,
            <<P1(c3)>>,
            <<P1(MinT), P2(c2, c3)>>,
            <<P1(MaxT)>>,
            <<P2(c5, c2)>>,
            <<P2(c1, c3), P2(c3, c5)>>,
            <<P2(c4, c5), P2(c1, c2)>> >>
LenM2 == << << >>, <<P2(MinT, MaxT)>>, <<P2(c2, c3)>>, <<P2(c1, c4)>>, <<P2(c0, c5)>>, <<P1(c2)>>, <<P2(c4, MaxT)>>, <<P1(c3), P1(c4)>>, <<P1(MaxT)>> >>
LenM3 == << << >>, <<P1(c2)>>, <<P2(MinT, MaxT)>>, <<P1(MinT)>> >>
ca == 97  cb == 98  cc == 99  cx == 120  ce == 233      \* a b c x e-acute
ReABC == ReRep(ReCls(FALSE, <<<<ca, cc>>>>), 1, -1)                              \* [a-c]+
ReAltABorC == ReAlt(<<ReCat(<<ReLit(ca), ReLit(cb)>>), ReLit(cc)>>)                \* ab|c
ReAStar == ReCat(<<ReLit(ca), ReRep(ReDot, 0, -1)>>)                              \* a.*
ReStarB == ReCat(<<ReRep(ReDot, 0, -1), ReLit(cb)>>)                              \* .*b
ReDot23 == ReRep(ReDot, 2, 3)                                                    \* .{2,3}
ReNotB == ReRep(ReCls(TRUE, <<<<cb, cb>>>>), 0, -1)                              \* [^b]*
ReABStarC == ReCat(<<ReRep(ReCat(<<ReLit(ca), ReLit(cb)>>), 0, -1), ReRep(ReLit(cc), 0, 1)>>)   \* (ab)*c?
ReE == ReRep(ReAlt(<<ReLit(ce), ReLit(ca)>>), 2, 2)                              \* (e-acute|a){2}
ReDot2 == ReRep(ReDot, 2, 2)                                                     \* .{2}
\* alternation at top level combined with bracket expressions holding ( ) | \ ^ $ and with escaped metacharacters
Lits(s) == [i \in 1..Len(s) |-> ReLit(s[i])]
Cls1(c) == ReCls(FALSE, <<<<c, c>>>>)
ReM1 == ReAlt(<<ReRep(ReCls(TRUE, <<<<41, 41>>>>), 0, -1), ReCat(Lits(T("(d)")))>>)                                   \* [^)]*|\(d\)
ReM2 == ReAlt(<<ReCat(<<ReRep(ReCls(FALSE, <<<<97, 122>>>>), 1, -1), Cls1(40)>>), ReCat(Lits(T("none")))>>)             \* [a-z]+[(]|none
ReM3 == ReAlt(<<ReCat(<<ReCls(FALSE, <<<<40, 40>>, <<124, 124>>>>), ReLit(ca)>>), ReCat(<<ReLit(cb), ReCls(FALSE, <<<<41, 41>>, <<36, 36>>>>)>>)>>)   \* [(|]a|b[)$]
ReM4 == ReAlt(<<ReCat(Lits(T("a|b"))), ReLit(cc)>>)                                                                   \* a\|b|c
ReM5 == ReAlt(<<ReCat(<<ReCls(FALSE, <<<<92, 92>>, <<94, 94>>>>), ReLit(cx)>>), ReCat(Lits(T("a.c")))>>)                \* [\\\^]x|a\.c
ReM6 == ReAlt(<<ReCat(<<ReAlt(<<ReLit(ca), ReLit(cb)>>), ReLit(cc)>>), ReCat(<<ReLit(cx), Cls1(124)>>)>>)              \* (a|b)c|x[|]
ReM7 == ReAlt(<<ReCat(<<ReLit(cx), Cls1(41)>>), ReCat(<<Cls1(40), ReLit(ca)>>)>>)                                      \* x[)]|[(]a
ReM8 == ReCat(<<ReRep(ReCls(TRUE, <<<<40, 41>>>>), 1, -1), ReRep(ReCat(Lits(T("(*)"))), 0, 1)>>)                       \* [^(-)]+(\(\*\))?   (no alternation)
ReM9 == ReAlt(<<ReCat(<<Cls1(41), Cls1(40)>>), ReCat(Lits(T("ab")))>>)                                                 \* [)][(]|ab
MetaPats == <<ReM1, ReM2, ReM3, ReM4, ReM5, ReM6, ReM7, ReM8, ReM9>>
PatM1 == << << >>, <<Pat(ReM1, "", "")>>, <<Pat(ReM2, "", ""), Pat(ReNotB, "", "")>>, <<Pat(ReABC, "", "")>>, <<Pat(ReAltABorC, "", "")>>, <<Pat(ReAStar, "", ""), Pat(ReStarB, "", "")>>, <<Pat(ReE, "", "")>> >>
PatM2 == << << >>, <<Pat(ReDot23, "", "")>>, <<Pat(ReNotB, "", "")>>, <<Pat(ReStarB, "", "")>> >>
PatM3 == << << >>, <<Pat(ReABStarC, "", "")>>, <<Pat(ReDot2, "", "")>> >>
\* a string matched by the expression (W1: the shortest choices, W2: one more repetition / the last alternative)
RECURSIVE W1(_), W2(_), WCat(_, _, _)
WCat(kids, k, alt) == IF k > Len(kids) THEN << >> ELSE (IF alt THEN W2(kids[k]) ELSE W1(kids[k])) \o WCat(kids, k + 1, alt)
ClsWit(re) == IF ~re.neg THEN re.rs[1][1] ELSE CHOOSE c \in {120, 97, 48, 41} : ~InCls(c, re.rs)
W1(re) == CASE re.op = "lit" -> <<re.c>> [] re.op = "dot" -> <<120>> [] re.op = "cls" -> <<ClsWit(re)>>
            [] re.op = "cat" -> WCat(re.kids, 1, FALSE) [] re.op = "alt" -> W1(re.kids[1])
            [] re.op = "rep" -> SeqCat([i \in 1..re.m |-> W1(re.kids[1])]) [] OTHER -> << >>
W2(re) == CASE re.op = "cat" -> WCat(re.kids, 1, TRUE) [] re.op = "alt" -> W2(re.kids[Len(re.kids)])
            [] re.op = "rep" -> SeqCat([i \in 1..(IF re.n = -1 \/ re.n > re.m THEN re.m + 1 ELSE re.m) |-> W2(re.kids[1])]) [] OTHER -> W1(re)
TopWitnesses(re) == IF re.op = "alt" THEN UNION {{W1(re.kids[k]), W2(re.kids[k])} : k \in 1..Len(re.kids)} ELSE {W1(re), W2(re)}
\* anchoring probes: whole matches, a match followed / preceded by one more character, a match without its
\* last / first character, two matches in a row
AnchorProbes(re) ==
  LET ws == TopWitnesses(re)  junk == {120, 41, 40, 124, 97} IN
  UNION {{w, SubSeq(w, 1, Len(w) - 1), SubSeq(w, 2, Len(w))} \cup {w \o <<j>> : j \in junk} \cup {<<j>> \o w : j \in junk} \cup {w \o v : v \in ws} \cup {<<120>> \o w \o <<120>>} : w \in ws}
Rp(n, c) == [i \in 1..n |-> c]
AsciiProbes == {<< >>, <<ca>>, <<ca, cb>>, <<ca, cb, cc>>, <<cc>>, <<ca, cc>>, <<cx, ca, cb>>, <<ca, cb, cx>>, <<ca, cb, ca, cb>>,
                <<cb, cb>>, <<ca, ca, cb>>, <<cc, cx>>, <<ca, cx>>, <<cx, cc>>, <<ca, cb, cc, ca, cb>>, <<ca, ca>>}
MbProbes == {<<ce, ce>>, <<ca, ce, cb>>, <<ce>>, <<ce, ce, ce>>, <<8364, 8364>>, <<128512, 128512>>, <<ca, 128512, cb>>, <<ce, ca>>, <<ca, 8364>>}

\* ------------------------------------------------------------------ probes
NumProbeVals(t) ==
  LET w == WidthOf(t.k)
      bs == {w.lo, w.hi, Zero, N("5"), N("6")} \cup UNION {UNION {{t.rl[i].parts[j].lo, t.rl[i].parts[j].hi} : j \in 1..Len(t.rl[i].parts)} : i \in 1..Len(t.rl)}
  IN UNION {{Dec(x), x, Inc(x)} : x \in bs}
ShowFor(t, x) == IF t.k = "decimal64" THEN ShowDec(x, t.fd) ELSE ShowNum(x)
IntLexical == {T("+5"), T("-0"), T("+0"), T("007"), T("-007"), T("0x7"), << >>, T("+"), T("-"), T("5.0"), T("1e1"), T("1_0"), T("5-"), T("--5"), T("+-5"), <<1637>>, <<53, 1637>>, T("05"),
               T("9223372036854775807"), T("9223372036854775808"), T("-9223372036854775808"), T("-9223372036854775809"),
               T("18446744073709551615"), T("18446744073709551616"), T("99999999999999999999"), T("+18446744073709551615"), T("000000000000000000005")}
DecLexical(fd) == {T("1"), T("+1.5"), T("-0.0"), T("1."), T(".5"), T("1e1"), T("01.5"), T("1.2.3"), << >>, T("Inf"), T("NaN"), T("+Inf"), T("0x1p-2"), T("1_0.5"), T("1.5e0"), T("-"), T("-.5"), T("1.+5"), T("+0"), T("-7"),
                   T("1.") \o Rp(fd, 48), T("1.") \o Rp(fd + 1, 48), T("0.") \o Rp(fd - 1, 48) \o <<49>>, T("0.") \o Rp(fd, 48) \o <<49>>,
                   ShowNum(Mk(FALSE, SubSeq(WidthOf("decimal64").hi.d, 1, 19 - fd))),               \* integer part of the maximum, no fraction
                   ShowNum(Inc(Mk(FALSE, SubSeq(WidthOf("decimal64").hi.d, 1, 19 - fd)))),          \* one more: outside
                   ShowNum(Mk(TRUE, SubSeq(WidthOf("decimal64").hi.d, 1, 19 - fd))),
                   ShowNum(Dec(Mk(TRUE, SubSeq(WidthOf("decimal64").hi.d, 1, 19 - fd)))),
                   T("9223372036854775807"), T("9223372036854775808"), T("99999999999999999999")}
StrLenProbes(t, mb) ==
  LET ns == UNION {UNION {{t.ll[i].parts[j].lo, t.ll[i].parts[j].hi} : j \in 1..Len(t.ll[i].parts)} : i \in 1..Len(t.ll)}
      small == {n \in 0..20 : \E x \in ns : x \in {Nat2Num(n), Nat2Num(n + 1)} \/ (n > 0 /\ x = Nat2Num(n - 1))}
      \* multi-byte strings whose number of characters, or whose number of bytes (2, 3, 4 per character), lies at a bound
      mbs == UNION {{Rp(k, ch[1]) : k \in {k \in 1..21 : k \in small \/ k * ch[2] \in small}} : ch \in {<<ce, 2>>, <<26085, 3>>, <<128512, 4>>}}
  IN {Rp(n, ca) : n \in small \cup {9, 17}} \cup (IF mb THEN mbs \cup {<<ca>> \o m : m \in {m \in mbs : Len(m) <= 3}} ELSE {})
\* the probe lexemes of a compiled type; rich adds lexical variants and multi-byte strings
RECURSIVE ProbeSet(_, _)
ProbeSet(t, rich) ==
  CASE t.k \in IntKinds -> {ShowNum(x) : x \in NumProbeVals(t)} \cup (IF rich THEN IntLexical ELSE {})
    [] t.k = "decimal64" -> {ShowDec(x, t.fd) : x \in NumProbeVals(t)} \cup (IF rich THEN DecLexical(t.fd) ELSE {})
                            \* values inside the ranges that are rejected only because of their number of fraction digits
                            \cup UNION {{ShowDec(x, t.fd) \o <<53>>, ShowDec(x, t.fd) \o <<50, 53>>, ShowDec(x, t.fd) \o <<48, 48, 49>>} :
                                         x \in {Zero, N("5")} \cup UNION {{t.rl[i].parts[j].lo : j \in 1..Len(t.rl[i].parts)} : i \in 1..Len(t.rl)}}
    [] t.k = "string" -> StrLenProbes(t, rich) \cup (IF t.pats # << >> \/ rich THEN AsciiProbes ELSE {<<ca, cb>>}) \cup (IF rich THEN MbProbes ELSE {})
                         \cup UNION {AnchorProbes(t.pats[i].re) : i \in 1..Len(t.pats)}
    [] t.k = "enumeration" -> RangeOf(t.enums) \cup {T("three"), << >>, T("One"), T("on"), T("onee"), T("0"), T(" one")}
    [] t.k = "boolean" -> {T("true"), T("false"), T("TRUE"), T("True"), T("1"), T("0"), << >>, T("true "), T("t"), T("yes")}
    [] t.k = "empty" -> {<< >>, T("x"), T("true"), T(" ")}
    [] t.k = "identityref" -> t.acc \cup t.unj \cup {T("b0"), T("a:b0"), T("other"), T("b:other2"), T("nope"), T("b:nope"), << >>, T("d1 "), T("c:d1"), T(":d1"), T("b:"), T("b:e1:x"),
                                              T("tcp"), T("a:tcp"), T("b:tcp"), T("udp"), T("b:udp"), T("tcp-ext"), T("b:tcp-ext"), T("tcp-fast"), T("a:tcp-fast"), T("b:udp-lite"), T("udp6"), T("b:d1"), T("b:d9"), T("d9")}
    [] t.k = "union" -> (UNION {ProbeSet(t.members[i], rich) : i \in 1..Len(t.members)}) \cup {T("zz"), << >>}
    [] OTHER -> {}
ProbeRec(t, v) ==
  LET a == Accepts(t, v) IN
  [v |-> v, j |-> ProbeJudged(t, v), acc |-> a, cls |-> LexClass(t, v), pm |-> SetToSeq(PathModes(t)),
   mj |-> ~a /\ MsgJudged(t, v), msgs |-> IF a THEN << >> ELSE SetToSeq(Msgs(t, v)),
   tj |-> ~a /\ TagJudged(t, v), tags |-> IF a THEN << >> ELSE SetToSeq(Tags(t, v))]
\* every bound of the compiled type as text (used to attribute float64 artefacts); for a union, of its members
RECURSIVE BoundSet(_)
BoundSet(t) == IF t.k = "union" THEN UNION {BoundSet(t.members[i]) : i \in 1..Len(t.members)}
               ELSE IF t.k \notin NumKinds THEN {}
               ELSE {ShowFor(t, x) : x \in {WidthOf(t.k).lo, WidthOf(t.k).hi} \cup
                        UNION {UNION {{t.rl[i].parts[j].lo, t.rl[i].parts[j].hi} : j \in 1..Len(t.rl[i].parts)} : i \in 1..Len(t.rl)}}
BoundTexts(t) == SetToSeq(BoundSet(t))
\* the vector of one chain: the input and everything the specification prescribes for it
\* extra: further lexemes to probe (the probe lexemes of the sibling leaves of a group)
VecX(ch, fam, rich, extra) ==
  LET r == CompileChain(ch)
      d == DefaultOf(ch)
      ps == IF r.ok THEN SetToSeq(ProbeSet(r.t, rich) \cup extra) ELSE << >>
  IN [fam |-> fam, chain |-> ch, kc |-> KindClass(ch.k), cj |-> r.j, ok |-> r.ok, why |-> r.why, dj |-> DefaultJudged(ch),
      hasDef |-> r.ok /\ d.has, def |-> IF r.ok THEN d.v ELSE << >>,
      bounds |-> IF r.ok THEN BoundTexts(r.t) ELSE << >>,
      probes |-> [i \in 1..Len(ps) |-> ProbeRec(r.t, ps[i])]]
Vec(ch, fam, rich) == VecX(ch, fam, rich, {})
\* a group: several chains compiled together as sibling leaves of one module set (typedefs of equal leading
\* levels are shared).  A leaf's type depends only on its own chain: every member is judged by its own
\* CompileChain / DefaultOf / Accepts, and probed with the lexemes of all members.
GVec(g, fam, rich) ==
  LET all == UNION {LET r == CompileChain(g[i]) IN IF r.ok THEN ProbeSet(r.t, rich) ELSE {} : i \in 1..Len(g)} IN
  [fam |-> fam, grp |-> [i \in 1..Len(g) |-> VecX(g[i], fam, rich, all)]]

\* ------------------------------------------------------------------ chain families
\* the leaf contexts in a fixed order (the first is the plain leaf)
Ctxs == <<"plain", "mandatory", "config-false", "state-mandatory", "deprecated", "obsolete", "if-feature", "mandatory-if-feature",
          "case", "short-case", "case-mandatory", "default-case", "list", "list-mandatory", "presence", "presence-mandatory",
          "uses", "uses-mandatory", "refine-mandatory",
          "uses-foreign", "uses-foreign-mandatory", "uses-foreign-nested", "uses-foreign-container", "augment", "submodule", "submodule-uses">>
ASSUME RangeOf(Ctxs) = LeafCtxs
\* a grouping of module a can only be used from module b (b imports a): in those contexts the leaf belongs to module b
InCtx(ch, c) == [ch EXCEPT !.ctx = c, !.mod = IF c \in ForeignCtxs THEN "b" ELSE @]
\* a typedef'd union used as a member (typedef tN { type union {...} }  ...  type tN;) and an inline nested union
TU(ms) == Chain("union", <<[Lv0 EXCEPT !.members = ms], Lv0>>)
IU(ms) == Chain("union", <<[Lv0 EXCEPT !.members = ms]>>)
\* all chains whose levels are drawn from the menus m1, m2, m3 (depth 1..maxd) with level 1 fixed
Chains3(k, L1, m2, m3, maxd) ==
  {Chain(k, <<L1>>)}
  \cup (IF maxd >= 2 THEN {Chain(k, <<L1, m2[i]>>) : i \in 1..Len(m2)} ELSE {})
  \cup (IF maxd >= 3 THEN {Chain(k, <<L1, m2[i], m3[j]>>) : i \in 1..Len(m2), j \in 1..Len(m3)} ELSE {})
Map(f(_), s) == [i \in 1..Len(s) |-> f(s[i])]
\* group 1: integer ranges; fam = 1000 + 100 b + i1
IntRangeFam(b, i1, maxd) == LET k == IntBases[b] IN Chains3(k, Rg(IntM1(k)[i1]), Map(Rg, IntM2(k)), Map(Rg, IntM3(k)), maxd)
\* group 2: integer defaults; fam = 2000 + 100 b + 10 i1 + i2
DefVals == << << >>, c3, c8, c6 >>          \* none, "3", "8", "6"
OptDef(L, d) == IF d = << >> THEN L ELSE WithDef(L, d)
IntDefFam(b, i1, i2) ==
  LET k == IntBases[b]  lo == WidthOf(k).lo  hi == WidthOf(k).hi  s(x) == ShowNum(x)
      m1 == << << >>, <<P2(c1, c5), P2(c7, c9)>>, <<P2(MinT, c5), P2(c7, MaxT)>>, <<P2(s(Inc(lo)), s(Dec(hi)))>> >>
      m2 == << << >>, <<P2(c2, c4)>>, <<P2(c1, c5), P2(c8, c9)>>, <<P2(MinT, MaxT)>> >>
      m3 == << << >>, <<P2(c3, c4)>> >>
  IN {Chain(k, <<OptDef(Rg(m1[i1]), DefVals[d1]), OptDef(Rg(m2[i2]), DefVals[d2])>>) : d1 \in 1..4, d2 \in 1..4}
     \cup {Chain(k, <<OptDef(Rg(m1[i1]), DefVals[d1]), OptDef(Rg(m2[i2]), DefVals[d2]), OptDef(Rg(m3[i3]), DefVals[d3])>>) : d1 \in 1..4, d2 \in 1..4, d3 \in 1..4, i3 \in 1..2}
\* group 3: decimal64 ranges; fam = 3000 + 100 f + i1
DecRangeFam(f, i1, maxd) ==
  LET fd == DecFds[f] IN
  {[ch EXCEPT !.levels[1].fd = fd] : ch \in Chains3("decimal64", Rg(DecM1(fd)[i1]), Map(Rg, DecM2(fd)), Map(Rg, DecM3(fd)), maxd)}
\* group 4: decimal64 defaults; fam = 4000 + f
DecDefFam(f) ==
  LET fd == DecFds[f]  t(n) == ShowDec(Tn(n, fd), fd)
      dv == << << >>, t(20), t(33), T("2"), t(27) >>
      m1 == << << >>, <<P2(t(15), t(25)), P2(t(30), t(35))>> >>
      m2 == << << >>, <<P2(t(16), t(24))>>, <<P2(t(31), MaxT)>> >>
  IN {[Chain("decimal64", <<OptDef(Rg(m1[i1]), dv[d1]), OptDef(Rg(m2[i2]), dv[d2])>>) EXCEPT !.levels[1].fd = fd] : i1 \in 1..2, i2 \in 1..3, d1 \in 1..5, d2 \in 1..5}
\* group 5: string lengths; fam = 5000 + i1
LenFam(i1, maxd) == Chains3("string", Ln(LenM1[i1]), Map(Ln, LenM2), Map(Ln, LenM3), maxd)
\* group 6: patterns, patterns with lengths, string defaults; fam = 6001..6003
Pt(ps) == [Lv0 EXCEPT !.pats = ps]
PatFam(maxd) == UNION {Chains3("string", Pt(PatM1[i]), Map(Pt, PatM2), Map(Pt, PatM3), maxd) : i \in 1..Len(PatM1)}
MixFam == {Chain("string", <<[Lv0 EXCEPT !.len = LenM1[i], !.pats = PatM1[p]], [Lv0 EXCEPT !.len = LenM2[j], !.pats = PatM2[q]]>>) : i \in {1, 2, 4}, p \in {1, 2, 4}, j \in {1, 3, 4}, q \in {1, 2, 3}}
StrDefFam ==
  LET dv == << << >>, <<ca, cb>>, <<ca, cb, cc, ca>>, << >> >> IN
  {Chain("string", <<OptDef([Lv0 EXCEPT !.len = LenM1[i], !.pats = PatM1[p]], dv[d1]), OptDef(Ln(LenM2[j]), dv[d2])>>) : i \in {1, 2, 4}, p \in {1, 2}, j \in {1, 3, 4}, d1 \in 1..3, d2 \in 1..3}
  \cup {Chain("string", <<WithDef(Ln(LenM1[i]), << >>)>>) : i \in {1, 2, 3}}       \* empty string as default
\* group 7: restriction kinds per base type, other kinds with defaults
E3 == <<T("one"), T("two"), T("t-3")>>
En(L) == [L EXCEPT !.enums = E3]
\* two modules (b imports a); the same local name occurs in both modules under the same base (tcp: both derived
\* directly; udp, d1: the one in b derived from its namesake in a), with further identities derived from each
Idn(m, n, bm, bn) == [m |-> m, n |-> n, bm |-> bm, bn |-> bn]
Idents == << Idn("a", "b0", "", ""), Idn("a", "d1", "a", "b0"), Idn("a", "d2", "a", "d1"),
             Idn("b", "e1", "a", "b0"), Idn("b", "e2", "b", "e1"), Idn("b", "e3", "a", "d2"),
             Idn("a", "other", "", ""), Idn("b", "other2", "a", "other"), Idn("b", "lone", "", ""),
             Idn("a", "tcp", "a", "b0"), Idn("b", "tcp", "a", "b0"), Idn("a", "tcp-fast", "a", "tcp"), Idn("b", "tcp-ext", "b", "tcp"),
             Idn("a", "udp", "a", "b0"), Idn("b", "udp", "a", "udp"), Idn("b", "udp-lite", "b", "udp"), Idn("a", "udp6", "a", "udp"),
             Idn("b", "d1", "a", "d1"), Idn("b", "d9", "b", "d1") >>
IdCh(mod, bm, bn, rest) == [k |-> "identityref", mod |-> mod, lay |-> "top", ctx |-> "plain", idents |-> Idents, levels |-> <<[Lv0 EXCEPT !.idbase = [m |-> bm, n |-> bn]]>> \o rest]
Mem(k, L) == Chain(k, <<L>>)
U1 == <<Mem("int8", Rg(<<P2(c1, c5)>>)), Mem("string", Ln(<<P1(c2)>>))>>
U2 == <<Mem("union", [Lv0 EXCEPT !.members = U1]), Mem("boolean", Lv0)>>
U3 == <<Mem("uint8", Lv0), Mem("enumeration", En(Lv0)), Chain("int8", <<Rg(<<P2(T("-9"), c9)>>), Rg(<<P2(T("-3"), T("-1"))>>)>>)>>
Un(ms) == [Lv0 EXCEPT !.members = ms]
Extra == << Lv0, Rg(<<P2(c1, c5)>>), Ln(<<P2(c1, c5)>>), Pt(<<Pat(ReABC, "", "")>>), En(Lv0), Un(U1), [Lv0 EXCEPT !.fd = 2], [Lv0 EXCEPT !.idbase = [m |-> "a", n |-> "b0"]] >>
FirstOf(k) == CASE k = "decimal64" -> [Lv0 EXCEPT !.fd = 2] [] k = "enumeration" -> En(Lv0) [] k = "union" -> Un(U1) [] OTHER -> Lv0
KindBases == <<"int8", "uint64", "decimal64", "string", "enumeration", "boolean", "empty", "union">>
\* a restriction of every kind on every base type, at the base level and on a derived level
KindFam ==
  LET merge(a, b) == [a EXCEPT !.rng = b.rng, !.len = b.len, !.pats = b.pats, !.enums = IF b.enums # << >> THEN b.enums ELSE @,
                               !.members = IF b.members # << >> THEN b.members ELSE @, !.fd = IF b.fd # 0 THEN b.fd ELSE @, !.idbase = IF b.idbase # NoId THEN b.idbase ELSE @] IN
  {[Chain(KindBases[b], <<merge(FirstOf(KindBases[b]), Extra[x])>>) EXCEPT !.idents = Idents] : b \in 1..Len(KindBases), x \in 1..Len(Extra)}
  \cup {[Chain(KindBases[b], <<FirstOf(KindBases[b]), Extra[x]>>) EXCEPT !.idents = Idents] : b \in 1..Len(KindBases), x \in 1..Len(Extra)}
  \cup {[Chain(KindBases[b], <<FirstOf(KindBases[b]), Lv0, Extra[x]>>) EXCEPT !.idents = Idents] : b \in 1..Len(KindBases), x \in 1..Len(Extra)}
  \cup {IdCh("a", "a", "b0", <<Extra[x]>>) : x \in 1..Len(Extra)}
OtherDefFam ==
  {Chain("enumeration", <<OptDef(En(Lv0), d1), OptDef(Lv0, d2)>>) : d1 \in {<< >>, T("two"), T("three")}, d2 \in {<< >>, T("one"), T("t-3"), T("On")}}
  \cup {Chain("boolean", <<OptDef(Lv0, d1), OptDef(Lv0, d2)>>) : d1 \in {<< >>, T("true"), T("maybe")}, d2 \in {<< >>, T("false"), T("TRUE")}}
  \cup {Chain("empty", <<OptDef(Lv0, d1)>>) : d1 \in {<< >>, T("x")}}
  \cup {Chain("union", <<OptDef(Un(U1), d1), OptDef(Lv0, d2)>>) : d1 \in {<< >>, c3, T("ab"), T("abc")}, d2 \in {<< >>, c5, c6, T("xy")}}
  \cup {Chain("union", <<OptDef(Un(U2), d1)>>) : d1 \in {<< >>, T("true"), T("abc"), c4}}
  \cup {IdCh("a", "a", "b0", <<OptDef(Lv0, d)>>) : d \in {<< >>, T("d1"), T("b:e2"), T("b0"), T("lone")}}
\* the same chains with the typedefs in a local scope and across two modules (fam 7003)
\* layouts over two modules (see Chain in YangTypes.tla; the harness reads the text): split x naming x spelling
XLays == <<"xm-0-same-own",
           "xm-1-same-bare", "xm-1-same-own", "xm-1-mirror-bare", "xm-1-mirror-own", "xm-1-uniq-bare", "xm-1-uniq-own",
           "xm-2-same-bare", "xm-2-same-own", "xm-2-mirror-bare", "xm-2-mirror-own", "xm-2-uniq-bare", "xm-2-uniq-own",
           "xm-3-same-bare", "xm-3-same-own", "xm-3-mirror-bare", "xm-3-mirror-own", "xm-3-uniq-bare", "xm-3-uniq-own">>
Relaid(ch, l) == [ch EXCEPT !.lay = l, !.mod = IF l = "xmod" \/ (l \in RangeOf(XLays) /\ l # "xm-0-same-own") THEN "b" ELSE @]
LayoutFam == {Relaid(ch, l) : l \in {"local", "xmod"},
              ch \in IntRangeFam(1, 4, 3) \cup IntDefFam(4, 2, 2) \cup DecRangeFam(1, 5, 2) \cup DecDefFam(2) \cup LenFam(3, 2) \cup PatFam(2) \cup OtherDefFam \cup {ch \in KindFam : Len(ch.levels) = 2}}
\* group 8: directly constructed types with rich probes (C16)
DirectIntFam(b) ==
  LET k == AllIntBases[b]  lo == WidthOf(k).lo  hi == WidthOf(k).hi  s(x) == ShowNum(x) IN
  {Chain(k, <<Rg(r)>>) : r \in {<< >>, <<P2(c1, c5), P2(c7, c9)>>, <<P2(MinT, c5), P2(c7, MaxT)>>, <<P2(s(Inc(lo)), s(Dec(hi)))>>, <<P1(s(lo)), P1(s(hi))>>, <<P2(s(Dec(Dec(hi))), s(Dec(hi)))>>}}
  \cup {Chain(k, <<Rg(<<P2(c0, c9)>>), Rg(<<P2(c2, c4), P1(c7)>>)>>), Chain(k, <<Rg(<<P2(MinT, c9)>>), Rg(<<P2(MinT, c4)>>), Rg(<<P2(c1, MaxT)>>)>>)}
AllFds == <<1, 2, 3, 9, 17, 18>>
DirectDecFam(f) ==
  LET fd == AllFds[f]  lo == WidthOf("decimal64").lo  hi == WidthOf("decimal64").hi  s(x) == ShowDec(x, fd)  t(n) == ShowDec(Tn(n, fd), fd) IN
  {[Chain("decimal64", <<Rg(r)>>) EXCEPT !.levels[1].fd = fd] :
     r \in {<< >>, <<P2(t(15), t(25)), P2(t(30), t(35))>>, <<P2(MinT, t(25)), P2(t(30), MaxT)>>, <<P2(s(Inc(lo)), s(Dec(hi)))>>, <<P2(s(Dec(Dec(hi))), s(Dec(hi)))>>, <<P1(s(lo)), P1(s(hi))>>, <<P2(T("-1"), T("1"))>>}}
  \cup {[Chain("decimal64", <<Rg(<<P2(t(10), t(40))>>), Rg(<<P2(t(15), t(25)), P1(t(30))>>)>>) EXCEPT !.levels[1].fd = fd]}
DirectStrFam ==
  {Chain("string", <<[Lv0 EXCEPT !.len = LenM1[i], !.pats = ps]>>) : i \in {1, 2, 3, 4, 5, 6, 7}, ps \in {<< >>, <<Pat(ReDot23, "", "")>>, <<Pat(ReE, "", "")>>}}
  \cup {Chain("string", <<Pt(PatM1[i])>>) : i \in 1..Len(PatM1)}
  \cup {Chain("string", <<Pt(<<Pat(ReABStarC, "", "")>>)>>), Chain("string", <<Pt(<<Pat(ReNotB, "", "")>>)>>), Chain("string", <<Pt(<<Pat(ReDot2, "", "")>>)>>)}
  \cup {Chain("string", <<Ln(<<P2(c1, c4)>>), Ln(<<P2(c2, c3)>>), Pt(<<Pat(ReABC, "", "")>>)>>)}
  \cup {Chain("string", <<Pt(<<Pat(MetaPats[i], "", "")>>)>>) : i \in 1..Len(MetaPats)}
  \cup {Chain("string", <<Pt(<<Pat(MetaPats[i], "", "")>>), Pt(<<Pat(MetaPats[j], "", "")>>)>>) : i \in {1, 2, 3}, j \in {2, 7, 8}}
  \cup {Chain("string", <<[Lv0 EXCEPT !.len = <<P2(c1, c4)>>, !.pats = <<Pat(MetaPats[i], "", ""), Pat(ReNotB, "", "")>>]>>) : i \in {1, 2, 6}}
DirectOtherFam ==
  {Chain("enumeration", <<En(Lv0)>>), Chain("enumeration", <<En(Lv0), Lv0>>), Chain("boolean", <<Lv0>>), Chain("boolean", <<Lv0, Lv0>>), Chain("empty", <<Lv0>>), Chain("empty", <<Lv0, Lv0>>),
   Chain("union", <<Un(U1)>>), Chain("union", <<Un(U2)>>), Chain("union", <<Un(U3)>>), Chain("union", <<Un(U2), Lv0>>),
   Chain("union", <<Un(<<Mem("union", Un(<<Mem("union", Un(U1)), Mem("empty", Lv0)>>)), Mem("decimal64", [Lv0 EXCEPT !.fd = 1])>>)>>)}
  \cup {IdCh(m, bm, bn, rest) : m \in {"a", "b"}, bm \in {"a"}, bn \in {"b0", "d1", "d2", "other", "tcp", "udp"}, rest \in {<< >>, <<Lv0>>}}
  \cup {IdCh("b", "b", bn, << >>) : bn \in {"e1", "e2", "lone", "tcp", "udp", "d1"}}
  \cup {Relaid(IdCh("a", "a", bn, <<Lv0>>), "xmod") : bn \in {"b0", "udp"}}
  \cup {[k |-> "union", mod |-> "b", lay |-> "top", ctx |-> "plain", idents |-> Idents, levels |-> <<Un(<<IdCh("b", "a", "d1", << >>), Mem("int8", Lv0)>>)>>]}
\* custom error-message / error-app-tag on ranges, lengths and patterns at several levels
RgM(parts, m, tg) == [Lv0 EXCEPT !.rng = parts, !.rmsg = m, !.rtag = tg]
LnM(parts, m, tg) == [Lv0 EXCEPT !.len = parts, !.lmsg = m, !.ltag = tg]
MsgFam ==
  {Chain(k, <<RgM(<<P2(c1, c9)>>, m1[1], m1[2])>>) : k \in {"int8", "uint64"}, m1 \in {<<"M1", "T1">>, <<"M1", "">>, <<"", "T1">>, <<"", "">>}}
  \cup {Chain(k, <<RgM(<<P2(c1, c9)>>, m1[1], m1[2]), RgM(<<P2(c2, c4), P2(c6, c7)>>, m2[1], m2[2])>>) : k \in {"int8", "uint64"}, m1 \in {<<"M1", "T1">>, <<"", "">>}, m2 \in {<<"M2", "T2">>, <<"M2", "">>, <<"", "T2">>, <<"", "">>}}
  \cup {[Chain("decimal64", <<RgM(<<P2(T("1.5"), T("9.5"))>>, m1[1], m1[2]), RgM(<<P2(T("2"), T("4.25"))>>, m2[1], m2[2])>>) EXCEPT !.levels[1].fd = 2] : m1 \in {<<"M1", "T1">>, <<"", "">>}, m2 \in {<<"M2", "T2">>, <<"", "">>}}
  \cup {Chain("string", <<[LnM(<<P2(c1, c4)>>, m1[1], m1[2]) EXCEPT !.pats = <<Pat(ReABC, m2[1], m2[2])>>], [LnM(ln2, m3[1], m3[2]) EXCEPT !.pats = <<Pat(ReStarB, "P2", "")>>]>>) :
          m1 \in {<<"L1", "LT1">>, <<"", "">>}, m2 \in {<<"P1", "PT1">>, <<"", "">>}, m3 \in {<<"L2", "">>, <<"", "">>}, ln2 \in {<< >>, <<P2(c2, c3)>>}}

\* ------------------------------------------------------------------ groups of sibling leaves (group 10)
Rev(g) == [i \in 1..Len(g) |-> g[Len(g) + 1 - i]]
BothOrders(G) == G \cup {Rev(g) : g \in G}
P0(re) == Pat(re, "", "")
\* (a) the same typedef chain (depth 2 to 4) refined differently by 2-3 sibling leaves, in every order
StrShared == << <<Pt(<<P0(ReAStar)>>)>>,
                <<Pt(<<P0(ReABC)>>), Pt(<<P0(ReDot23)>>)>>,
                <<Pt(<<P0(ReABC)>>), Pt(<<P0(ReDot23)>>), Pt(<<P0(ReAStar)>>)>>,
                <<Ln(<<P2(c1, c4)>>), Lv0, Ln(<<P2(MinT, c3)>>)>>,
                <<Lv0, Lv0, Lv0>>,
                <<WithDef(Pt(<<P0(ReABC)>>), <<ca, cb>>), Lv0, [Lv0 EXCEPT !.len = <<P2(c1, c3)>>, !.pats = <<P0(ReAStar), P0(ReNotB)>>]>> >>
StrLasts == << Pt(<<P0(ReAltABorC)>>), Pt(<<P0(ReStarB)>>), Pt(<<P0(ReABStarC)>>), Ln(<<P2(c2, c3)>>), Lv0, WithDef(Lv0, <<ca, cc>>),
               WithDef(Pt(<<P0(ReNotB)>>), <<ca, cc>>), Ln(<<P1(MaxT)>>), Pt(<<P0(ReNotB), P0(ReDot2)>>) >>
IntShared == << <<Rg(<<P2(c1, c9)>>)>>, <<Rg(<<P2(MinT, MaxT)>>), Rg(<<P2(c1, c5), P2(c7, c9)>>)>>, <<Lv0, Rg(<<P2(c0, T("100"))>>), WithDef(Lv0, c3)>> >>
IntLasts == << Rg(<<P2(c2, c4)>>), Rg(<<P2(MinT, c3)>>), Rg(<<P2(c8, MaxT)>>), WithDef(Lv0, c5), Lv0, Rg(<<P1(MaxT)>>), WithDef(Rg(<<P2(c2, c4)>>), c4) >>
DecShared == << <<Rg(<<P2(T("1.5"), T("9.5"))>>)>>, <<Lv0, Rg(<<P2(T("1"), T("2.5")), P2(T("3.0"), T("9"))>>), WithDef(Lv0, T("2.25"))>> >>
DecLasts == << Rg(<<P2(T("2"), T("2.5"))>>), Rg(<<P2(MinT, T("2.25"))>>), Rg(<<P2(T("3.5"), MaxT)>>), WithDef(Lv0, T("2.5")), Lv0, Rg(<<P1(MinT)>>) >>
Sibs(k, fd, shared, lasts) == [i \in 1..Len(lasts) |-> [Chain(k, shared \o <<lasts[i]>>) EXCEPT !.levels[1].fd = fd]]
Pairs(k, fd, sh, ls) == {Sibs(k, fd, sh, <<ls[i], ls[j]>>) : i \in 1..Len(ls), j \in 1..Len(ls)} \ {Sibs(k, fd, sh, <<ls[i], ls[i]>>) : i \in 1..Len(ls)}
Triples(k, fd, sh, ls) == {Sibs(k, fd, sh, <<ls[i], ls[i + 1], ls[i + 2]>>) : i \in 1..(Len(ls) - 2)} \cup {Sibs(k, fd, sh, <<ls[i + 2], ls[i], ls[i + 1]>>) : i \in 1..(Len(ls) - 2)}
SharedFam(r) ==
  CASE r \in 1..6 -> Pairs("string", 0, StrShared[r], StrLasts) \cup Triples("string", 0, StrShared[r], StrLasts)
    [] r \in 11..13 -> UNION {Pairs(k, 0, IntShared[r - 10], IntLasts) \cup Triples(k, 0, IntShared[r - 10], IntLasts) : k \in {"int8", "uint64"}}
    [] r \in 21..22 -> Pairs("decimal64", 2, DecShared[r - 20], DecLasts) \cup Triples("decimal64", 2, DecShared[r - 20], DecLasts)
    [] OTHER -> {}
\* (b) textually identical restriction arguments (min / max, same pattern) over different bases, in both
\*     definition orders, in one module, across two modules, and through a typedef of the other module
InB(ch) == [ch EXCEPT !.mod = "b"]
Placements(g) == {g, [g EXCEPT ![2] = InB(g[2])], [g EXCEPT ![1] = InB(g[1])], [g EXCEPT ![2] = IF Len(g[2].levels) >= 2 THEN Relaid(g[2], "xmod") ELSE InB(g[2])]}
StrBases == << << >>, <<Ln(<<P2(c1, c4)>>)>>, <<Ln(<<P2(c2, c8)>>)>>, <<Ln(<<P2(c0, c2), P2(c4, c6)>>)>>, <<Ln(<<P2(c2, c5)>>), Lv0>> >>
SameStr == << Ln(<<P2(c2, MaxT)>>), Ln(<<P2(MinT, c3)>>), Ln(<<P1(MaxT)>>), Ln(<<P1(MinT)>>), Ln(<<P2(MinT, MaxT)>>),
              [Lv0 EXCEPT !.len = <<P2(c2, MaxT)>>, !.pats = <<P0(ReAStar)>>], Pt(<<P0(ReABC)>>), WithDef(Ln(<<P2(MinT, c3)>>), <<ca, cb>>) >>
IntBaseChains == << Chain("int8", << >>), Chain("int8", <<Rg(<<P2(c0, c9)>>)>>), Chain("uint8", << >>), Chain("int16", <<Rg(<<P2(T("-100"), T("1000"))>>)>>), Chain("uint64", <<Lv0>>) >>
SameInt == << Rg(<<P2(MinT, c5), P2(c7, MaxT)>>), Rg(<<P2(c1, MaxT)>>), Rg(<<P2(MinT, c3)>>), Rg(<<P1(MaxT)>>), Rg(<<P2(MinT, MaxT)>>), WithDef(Rg(<<P2(c2, MaxT)>>), c9) >>
DecBaseChains == << [Chain("decimal64", << >>) EXCEPT !.mod = "1"], [Chain("decimal64", << >>) EXCEPT !.mod = "2"], [Chain("decimal64", <<Rg(<<P2(T("1.5"), T("9.5"))>>)>>) EXCEPT !.mod = "2"] >>
SameDec == << Rg(<<P2(MinT, T("2.5")), P2(T("3.0"), MaxT)>>), Rg(<<P2(T("2"), MaxT)>>), Rg(<<P1(MaxT)>>) >>
\* the restriction goes into the leaf's type statement; a chain without typedefs takes it at its only level
OnBase(b, L) == [b EXCEPT !.levels = @ \o <<L>>]
\* decimal bases carry their fraction-digits in mod (placeholder) until the level exists
FixDec(ch) == [ch EXCEPT !.levels[1].fd = IF ch.mod = "1" THEN 1 ELSE 2, !.mod = "a"]
\* r = 10 t + x: t = 1 strings, 2 integers, 3 decimal64 with the x-th restriction text; t = 4: three leaves
DiffBaseFam(r) ==
  LET t == r \div 10  x == r % 10 IN
  CASE t = 1 /\ x \in 1..Len(SameStr) -> UNION {Placements(<<Chain("string", StrBases[i] \o <<SameStr[x]>>), Chain("string", StrBases[j] \o <<SameStr[x]>>)>>) : i \in 1..Len(StrBases), j \in 1..Len(StrBases)}
    [] t = 2 /\ x \in 1..Len(SameInt) -> UNION {Placements(<<OnBase(IntBaseChains[i], SameInt[x]), OnBase(IntBaseChains[j], SameInt[x])>>) : i \in 1..Len(IntBaseChains), j \in 1..Len(IntBaseChains)}
    [] t = 3 /\ x \in 1..Len(SameDec) -> UNION {Placements(<<FixDec(OnBase(DecBaseChains[i], SameDec[x])), FixDec(OnBase(DecBaseChains[j], SameDec[x]))>>) : i \in 1..Len(DecBaseChains), j \in 1..Len(DecBaseChains)}
    [] t = 4 -> {<<Chain("string", StrBases[2] \o <<SameStr[1]>>), Chain("string", StrBases[1] \o <<SameStr[1]>>), Chain("string", StrBases[3] \o <<SameStr[1]>>)>>,
                 <<Chain("string", StrBases[1] \o <<SameStr[2]>>), InB(Chain("string", StrBases[3] \o <<SameStr[2]>>)), Chain("string", StrBases[2] \o <<SameStr[2]>>)>>,
                 <<OnBase(IntBaseChains[3], SameInt[2]), OnBase(IntBaseChains[1], SameInt[2]), InB(OnBase(IntBaseChains[4], SameInt[2]))>>}
    [] OTHER -> {}
\* ------------------------------------------------------------------ histories of one typedef inside one compilation (fam 102xx)
\* several uses of the same typedef (and of a typedef of it) as sibling leaves, an applicable use before / after / between
\* uses with a restriction kind that does not apply: the verdict on a statement does not depend on the others
KHKinds == <<"uint8", "boolean", "string", "enumeration", "decimal64", "int64", "union">>
KHValid(k) == CASE k \in {"uint8", "decimal64", "int64"} -> {<<Lv0>>, <<Rg(<<P2(c1, c5)>>)>>, <<Rg(<<P2(c1, c5)>>), Lv0>>}
                [] k = "string" -> {<<Lv0>>, <<Ln(<<P2(c1, c5)>>)>>, <<Pt(<<P0(ReABC)>>)>>, <<Ln(<<P2(c1, c5)>>), Lv0>>}
                [] OTHER -> {<<Lv0>>, <<Lv0, Lv0>>}
KHInvalid(k) == CASE k \in {"uint8", "decimal64", "int64"} -> {<<Ln(<<P2(c1, c5)>>)>>, <<Pt(<<P0(ReABC)>>)>>, <<Ln(<<P2(c1, c5)>>), Lv0>>, <<Pt(<<P0(ReABC)>>), Lv0>>}
                  [] k = "string" -> {<<Rg(<<P2(c1, c5)>>)>>, <<Rg(<<P2(c1, c5)>>), Lv0>>}
                  [] OTHER -> {<<Rg(<<P2(c1, c5)>>)>>, <<Ln(<<P2(c1, c5)>>)>>, <<Pt(<<P0(ReABC)>>)>>, <<Ln(<<P2(c1, c5)>>), Lv0>>}
KindHistFam(r) ==
  LET k == KHKinds[r]
      mk(sh, tail) == Chain(k, sh \o tail)
  IN UNION {UNION {UNION {
       {<<mk(sh, v), mk(sh, i)>>, <<mk(sh, i), mk(sh, v)>>, <<mk(sh, v), mk(sh, i), mk(sh, v)>>, <<mk(sh, i)>>, <<mk(sh, i), mk(sh, i)>>}
       \cup {<<mk(sh, v), mk(sh, v2), mk(sh, i)>> : v2 \in KHValid(k)} \cup {<<mk(sh, v), mk(sh, v2)>> : v2 \in KHValid(k)}
       : i \in KHInvalid(k)} : v \in KHValid(k)} : sh \in {<<FirstOf(k)>>, <<FirstOf(k), Lv0>>}}

\* ------------------------------------------------------------------ seeded random chains (TLC RandomElement, -seed)
RandOf(s) == s[RandomElement(1..Len(s))]
\* every TLC worker starts from the same random stream: a family first discards a number of draws of its own
Burn(n) == \A i \in 1..(7 * n) : RandomElement(1..2) \in {1, 2}
Coin(n) == RandomElement(1..n) = 1
RandDigits(n) == [i \in 1..n |-> RandomElement(0..9)]
\* interesting values of the type compiled so far
Pool(t) == LET w == WidthOf(t.k)
               near == {N("0"), N("1"), N("5"), N("6"), N("9"), N("10"), N("-1"), N("-10"), N("100"), N("127"), N("128"), N("255"), N("256")}
               bs == {w.lo, w.hi} \cup UNION {{t.parts[j].lo, t.parts[j].hi} : j \in 1..Len(t.parts)}
               all == UNION {{Dec(x), x, Inc(x)} : x \in bs} \cup near
           IN {x \in all : InParts(x, t.parts) \/ Coin(8)}
RECURSIVE RandSubset(_, _)
RandSubset(S, n) == IF n = 0 \/ S = {} THEN {} ELSE LET x == RandomElement(S) IN {x} \cup RandSubset(S \ {x}, n - 1)
RandParts(t, pool) ==
  LET picks == SortSeq(SetToSeq(RandSubset(pool, 2 * RandomElement(1..3))), Lt)
      m == Len(picks) \div 2
      mixed == IF Coin(12) THEN [i \in 1..(2 * m) |-> picks[2 * m + 1 - i]] ELSE picks
      txt(x) == ShowFor(t, x)
      b(x, lowest, highest) == IF lowest /\ Coin(4) THEN MinT ELSE IF highest /\ Coin(4) THEN MaxT ELSE txt(x)
  IN IF m = 0 THEN <<P2(MinT, MaxT)>>
     ELSE [i \in 1..m |-> IF Coin(5) THEN P1(txt(mixed[2 * i])) ELSE IF Coin(12) THEN P2(txt(mixed[2 * i]), txt(mixed[2 * i]))
                           ELSE P2(b(mixed[2 * i - 1], i = 1, FALSE), b(mixed[2 * i], FALSE, i = m))]
RandLenParts(u_) ==
  LET picks == SortSeq(SetToSeq(RandSubset(0..7, 2 * RandomElement(1..3))), LAMBDA a, b : a < b)
      m == Len(picks) \div 2
      txt(n) == ShowNum(Nat2Num(n))
      \* one time in four the parts span the whole type (from 0 / min to max) and leave holes
      span == Coin(4)
      first(i) == IF i = 1 /\ span THEN (IF Coin(2) THEN MinT ELSE c0) ELSE IF i = 1 /\ Coin(5) THEN MinT ELSE txt(picks[2 * i - 1])
      last(i) == IF i = m /\ (span \/ Coin(5)) THEN MaxT ELSE txt(picks[2 * i])
  IN [i \in 1..m |-> IF ~span /\ Coin(8) THEN P2(txt(picks[2 * i]), txt(picks[2 * i - 1])) ELSE IF ~span /\ Coin(5) THEN P1(txt(picks[2 * i]))
                     ELSE P2(first(i), last(i))]
\* rich: any Unicode; otherwise ASCII only (multi-byte strings and lexical variants belong to the value-space families)
RandStr(rich) == LET n == RandomElement(0..7) IN [i \in 1..n |-> RandomElement(IF rich THEN {ca, cb, cc, cx, ce, 8364, 128512, 48, 32} ELSE {ca, cb, cc, cx, 48, 32})]
AllPats == <<ReABC, ReAltABorC, ReAStar, ReStarB, ReDot23, ReNotB, ReABStarC, ReE, ReDot2>> \o MetaPats
RECURSIVE RandGrow(_, _)
\* add levels while the chain still compiles
RandGrow(ch, more) ==
  LET r == CompileChain(ch) IN
  IF more = 0 \/ ~r.ok THEN ch
  ELSE LET t == r.t
           L1 == IF t.k \in NumKinds /\ ~Coin(4) THEN Rg(RandParts(t, Pool(t)))
                 ELSE IF t.k = "string" THEN [Lv0 EXCEPT !.len = IF Coin(3) THEN << >> ELSE RandLenParts(0), !.pats = IF Coin(2) THEN << >> ELSE <<Pat(RandOf(AllPats), "", "")>>]
                 ELSE Lv0
           L2 == IF ~Coin(4) THEN L1
                 ELSE IF t.k \in NumKinds THEN WithDef(L1, ShowFor(t, RandomElement(Pool(t)))) ELSE WithDef(L1, RandStr(TRUE))
       IN RandGrow([ch EXCEPT !.levels = Append(@, L2)], more - 1)
RandKinds == <<"int8", "uint8", "int16", "uint16", "int32", "uint32", "int64", "uint64", "decimal64", "decimal64", "string", "string">>
RandChainK(k) ==
  LET fd == RandOf(<<1, 2, 3, 6, 12, 17, 18>>)
      lay == IF Coin(3) THEN RandOf(XLays) ELSE RandOf(<<"top", "top", "local", "xmod">>)
      \* half of the leaves are plain, the others stand in a random context
      lctx == IF Coin(2) THEN "plain" ELSE RandOf(Ctxs)
      start == InCtx(Relaid(Chain(k, <<IF k = "decimal64" THEN [Lv0 EXCEPT !.fd = fd] ELSE Lv0>>), lay), lctx)
      r0 == CompileChain(start).t
      first == IF k \in NumKinds /\ ~Coin(3) THEN [start EXCEPT !.levels[1].rng = RandParts(r0, Pool(r0))]
               ELSE IF k = "string" THEN [start EXCEPT !.levels[1].len = IF Coin(3) THEN << >> ELSE RandLenParts(0), !.levels[1].pats = IF Coin(2) THEN << >> ELSE <<Pat(RandOf(AllPats), "", "")>>]
               ELSE start
  IN RandGrow(first, RandomElement(0..3))
RandChain(u_) == RandChainK(RandOf(RandKinds))
\* a random union: 2-3 members that refine the same random typedef chain with random last levels (the bounds of one
\* member are probes of the others), side by side or through nested (typedef'd / inline) unions
RandUnionChain(u_) ==
  LET base == [RandChainK(RandOf(<<"int8", "uint8", "int32", "uint64", "decimal64", "string", "string">>)) EXCEPT !.lay = "top", !.mod = "a", !.ctx = "plain"]
      n == Len(base.levels)
      sh == IF n >= 2 /\ CompileChain([base EXCEPT !.levels = SubSeq(@, 1, n - 1)]).ok THEN [base EXCEPT !.levels = SubSeq(@, 1, n - 1)] ELSE [base EXCEPT !.levels = <<[@[1] EXCEPT !.rng = << >>, !.len = << >>, !.pats = << >>, !.hasDef = FALSE]>>]
      NoDef(ch) == [ch EXCEPT !.levels[Len(ch.levels)].hasDef = FALSE, !.levels[Len(ch.levels)].def = << >>]
      m1 == NoDef(RandGrow(sh, 1))  m2 == NoDef(RandGrow(sh, 1))  m3 == NoDef(RandGrow(sh, 1))
      o == Mem("boolean", Lv0)
      rest == IF Coin(2) THEN <<m2>> ELSE <<m2, m3>>
      form == RandomElement(1..6)
      members == CASE form = 1 -> <<m1>> \o rest
                   [] form = 2 -> <<TU(<<m1, o>>)>> \o rest
                   [] form = 3 -> <<m1, TU(rest \o <<o>>)>>
                   [] form = 4 -> <<IU(<<m1>>)>> \o rest
                   [] form = 5 -> <<TU(<<m1>>), o, TU(rest)>>
                   [] OTHER -> <<TU(<<TU(<<m1, o>>)>>)>> \o rest
      inB == Coin(3)
  IN [Chain("union", IF Coin(3) THEN <<Un(members), Lv0>> ELSE <<Un(members)>>) EXCEPT !.mod = IF inB THEN "b" ELSE "a"]
\* a random group: a random chain and a sibling that either refines the same typedefs with another random last
\* level or applies the very same last level to another random base of the same built-in type
RandGroup(u_) ==
  LET ch == RandChain(u_)
      n == Len(ch.levels)
      last == ch.levels[n]
      other == RandChainK(ch.k)
      m == Len(other.levels)
      sib == IF n >= 2 /\ Coin(2) THEN RandGrow([ch EXCEPT !.levels = SubSeq(@, 1, n - 1)], 1)
             ELSE [other EXCEPT !.levels[m].rng = last.rng, !.levels[m].len = last.len, !.levels[m].pats = last.pats, !.mod = ch.mod, !.lay = IF ch.lay = "xmod" \/ @ = "xmod" THEN "top" ELSE @]
      sib2 == IF ch.lay = "xmod" /\ sib.lay # "xmod" THEN [sib EXCEPT !.mod = "b"] ELSE sib
      \* (a leaf that comes out of a grouping of module a belongs to module b)
      sib3 == InCtx(sib2, sib2.ctx)
  IN IF Coin(2) THEN <<ch, sib3>> ELSE <<sib3, ch>>
\* random lexemes for a compiled type: digit strings around the bounds, sign / zero variants, 17-20 digit values, random Unicode
RandLexemes(t, n, rich) ==
  IF t.k \in NumKinds THEN
    {LET x == RandomElement(Pool(t))
         s == ShowFor(t, x)
         m == RandomElement(1..8)
     IN CASE m = 1 /\ ~x.neg /\ rich -> <<43>> \o s
          [] m = 2 /\ ~x.neg /\ rich -> <<48, 48>> \o s
          [] m = 3 -> ShowNum(Mk(Coin(2), RandDigits(RandomElement(17..20))))
          [] m = 4 /\ t.k = "decimal64" -> ShowDec(Mk(Coin(2), RandDigits(RandomElement(17..20))), t.fd)
          [] m = 5 /\ t.k = "decimal64" /\ rich -> s \o <<48>>
          [] m = 6 /\ x = Zero /\ rich -> <<45>> \o s
          [] OTHER -> s
     : i \in 1..n}
  ELSE {RandStr(rich) : i \in 1..n}
RandVec(fam, nlex, u_) ==
  LET ch == IF fam % 1000 >= 200 THEN RandUnionChain(fam) ELSE RandChain(fam)
      r == CompileChain(ch)
      d == DefaultOf(ch)
      ps == IF r.ok THEN SetToSeq(RandLexemes(r.t, nlex, fam % 1000 >= 100) \cup ProbeSet(r.t, fam % 1000 >= 100)) ELSE << >>
  IN [fam |-> fam, chain |-> ch, kc |-> KindClass(ch.k), cj |-> r.j, ok |-> r.ok, why |-> r.why, dj |-> DefaultJudged(ch),
      hasDef |-> r.ok /\ d.has, def |-> IF r.ok THEN d.v ELSE << >>,
      bounds |-> IF r.ok THEN BoundTexts(r.t) ELSE << >>,
      probes |-> [i \in 1..Len(ps) |-> ProbeRec(r.t, ps[i])]]

\* ------------------------------------------------------------------ group 12: extremes and inherited defaults
\* parts at both extremes of the type with the whole type between them, refined by ranges that cover the gap, touch one
\* part only, lie in the gap, or reach from one part to the other (fam 12000 + b, b: index in IntBases; 12010: lengths)
HugeGapFam(b) ==
  LET k == IntBases[b]  lo == WidthOf(k).lo  hi == WidthOf(k).hi  s(x) == ShowNum(x)  sg == k \in SIntKinds
      c50 == T("50")  c100 == T("100")
      m1 == << <<P1(MinT), P2(c5, c100)>>,
               <<P2(c5, c100), P1(MaxT)>>,
               <<P2(MinT, s(Inc(Inc(lo)))), P2(T("110"), T("120"))>>,
               <<P2(IF sg THEN T("-100") ELSE c1, IF sg THEN T("-1") ELSE c100), P1(MaxT)>>,
               <<P2(MinT, c5), P2(s(Dec(Dec(hi))), MaxT)>>,
               <<P1(MinT), P1(MaxT)>>,
               <<P1(MinT), P2(c5, c100), P1(MaxT)>>,
               <<P1(s(lo)), P1(s(hi))>> >>
      m2 == << <<P2(MinT, c50)>>, <<P2(c50, MaxT)>>, <<P2(MinT, MaxT)>>, <<P2(s(Inc(lo)), c50)>>, <<P2(IF sg THEN T("-50") ELSE c1, c50)>>, <<P2(IF sg THEN T("-5") ELSE c2, T("115"))>>,
               <<P2(IF sg THEN T("-10") ELSE c9, MaxT)>>, <<P1(MinT)>>, <<P1(MaxT)>>, <<P2(c5, c50)>>, <<P2(T("10"), c100)>>, <<P1(c2)>>, <<P2(T("200"), T("300"))>>,
               <<P2(s(Inc(lo)), s(Inc(Inc(lo))))>>, <<P2(c50, s(Dec(hi)))>>, <<P2(s(Dec(hi)), MaxT)>>, <<P1(MinT), P1(MaxT)>>, <<P2(MinT, c5), P2(c100, MaxT)>>,
               <<P2(s(lo), s(hi))>> >>
  IN {Chain(k, <<Rg(m1[i]), Rg(m2[j])>>) : i \in 1..Len(m1), j \in 1..Len(m2)}
     \cup {Chain(k, <<Rg(m1[i]), Lv0, Rg(m2[j])>>) : i \in 1..Len(m1), j \in {1, 3, 5, 6, 7}}
     \cup {Chain(k, <<Rg(m1[i])>>) : i \in 1..Len(m1)}
HugeLenFam ==
  LET m1 == << <<P2(MinT, c2), P1(MaxT)>>, <<P1(MinT), P2(c5, MaxT)>>, <<P1(MinT), P2(c4, c6), P1(MaxT)>>, <<P1(MinT), P1(MaxT)>> >>
      m2 == << <<P2(c1, MaxT)>>, <<P2(MinT, MaxT)>>, <<P1(MaxT)>>, <<P1(MinT)>>, <<P2(c0, c2)>>, <<P2(c3, c4)>>, <<P2(c6, MaxT)>>, <<P2(MinT, c5)>>, <<P2(c5, c6)>>, <<P2(c2, c5)>> >>
  IN {Chain("string", <<Ln(m1[i]), Ln(m2[j])>>) : i \in 1..Len(m1), j \in 1..Len(m2)} \cup {Chain("string", <<Ln(m1[i])>>) : i \in 1..Len(m1)}
\* a level that adds ONE kind of restriction (or a combination) below a level that gives the default, the inherited
\* default inside / outside / on the edge of the narrowed value space, at every position of a depth-3 chain
\* (fam 12100 + r: 1 string, 2 int8, 3 int64, 4 uint64, 5 decimal64 fd 2)
DefNarrow(k, fd, bases, narrows, defs) ==
  LET mk(ls) == [Chain(k, ls) EXCEPT !.levels[1].fd = fd] IN
  UNION {UNION {UNION {
     {mk(<<WithDef(B, d), n>>), mk(<<WithDef(B, d), n, Lv0>>), mk(<<WithDef(B, d), Lv0, n>>), mk(<<B, WithDef(Lv0, d), n>>), mk(<<B, WithDef(n, d)>>), mk(<<B, n, WithDef(Lv0, d)>>)}
     \cup {mk(<<WithDef(B, d), n, narrows[j]>>) : j \in 1..Len(narrows)}
     : d \in defs} : n \in RangeOf(narrows)} : B \in bases}
DefNarrowFam(r) ==
  CASE r = 1 -> DefNarrow("string", 0, {Lv0, Ln(<<P2(c1, c6)>>), Pt(<<P0(ReNotB)>>)},
                          <<Ln(<<P2(c2, c3)>>), Pt(<<P0(ReABC)>>), Pt(<<P0(ReAltABorC)>>), Pt(<<P0(ReAStar), P0(ReDot23)>>), [Lv0 EXCEPT !.len = <<P2(c2, c3)>>, !.pats = <<P0(ReAStar)>>], Ln(<<P1(MaxT)>>)>>,
                          {<<ca, cb>>, <<ca, cb, cc, ca>>, <<cx, 49>>, <<cc>>, <<ca, cc, cc>>, <<ca, cx, cx>>})
    [] r = 11 -> DefNarrow("string", 0, {Lv0},
                          <<Ln(<<P2(c2, c3)>>), Pt(<<P0(ReABC)>>), Pt(<<P0(ReAStar), P0(ReDot23)>>), [Lv0 EXCEPT !.len = <<P2(c2, c3)>>, !.pats = <<P0(ReAStar)>>]>>,
                          {<<ca, cb>>, <<ca, cb, cc, ca>>, <<cx, 49>>, <<cc>>})
    [] r \in 2..4 -> LET k == <<"int8", "int64", "uint64">>[r - 1] IN
                     DefNarrow(k, 0, {Lv0, Rg(<<P2(c0, T("100"))>>)}, <<Rg(<<P2(c2, c4)>>), Rg(<<P2(MinT, c3)>>), Rg(<<P2(c1, c5), P2(c7, c9)>>), Rg(<<P1(MaxT)>>), Rg(<<P2(c6, MaxT)>>)>>,
                               {c3, c6, c0, T("100"), ShowNum(WidthOf(k).hi)})
    [] r = 5 -> DefNarrow("decimal64", 2, {Lv0, Rg(<<P2(c1, c9)>>)}, <<Rg(<<P2(T("1.5"), T("2.5"))>>), Rg(<<P2(c2, MaxT)>>), Rg(<<P2(MinT, T("1.99"))>>)>>, {c2, T("2.55"), T("1.5"), T("1.99"), T("2.00")})
    [] OTHER -> {}
\* ------------------------------------------------------------------ representation limits as bounds (fam 1202b, 12030, 1204f)
\* the extremes of every integer type and their outer neighbours, as single bound, as first / last bound and as the
\* last part of a multi-part restriction, directly on the built-in type and derived over (derived) narrower types
LimitVals == UNION {{Dec(Width[t].lo), Width[t].lo, Width[t].hi, Inc(Width[t].hi)} : t \in DOMAIN Width}
LimitForms(x) == {<<P1(x)>>, <<P2(MinT, x)>>, <<P2(x, MaxT)>>, <<P2(c1, c5), P1(x)>>, <<P2(c1, c5), P2(c7, x)>>}
LimitIntFam(b) ==
  LET k == IntBases[b]
      bases == {<< >>, <<Rg(<<P2(c0, T("100"))>>)>>, <<Lv0, Rg(<<P2(c0, T("100"))>>)>>, <<Rg(<<P2(MinT, MaxT)>>)>>}
  IN {Chain(k, base \o <<Rg(f)>>) : base \in bases, f \in UNION {LimitForms(ShowNum(x)) : x \in LimitVals}}
LimitLenFam ==
  LET vals == {T("10"), T("11"), T("4294967294"), T("4294967295"), T("4294967296"), T("5000000000"), T("9223372036854775807"), T("9223372036854775808"),
               T("18446744073709551615"), T("18446744073709551616")}
      forms(x) == {<<P1(x)>>, <<P2(c1, x)>>, <<P2(MinT, x)>>, <<P2(c1, c2), P2(c4, x)>>, <<P2(x, MaxT)>>}
      bases == {<< >>, <<Lv0>>, <<Ln(<<P2(c1, T("10"))>>)>>, <<Ln(<<P2(c1, T("10"))>>), Lv0>>, <<Ln(<<P2(c0, c2), P2(c4, c6)>>)>>, <<Ln(<<P2(c1, T("4294967295"))>>)>>, <<Ln(<<P2(c2, MaxT)>>)>>}
  IN {Chain("string", base \o <<Ln(f)>>) : base \in bases, f \in UNION {forms(x) : x \in vals}}
LimitDecFam(f) ==
  LET fd == DecFds[f]  lo == WidthOf("decimal64").lo  hi == WidthOf("decimal64").hi  t(n) == ShowDec(Tn(n, fd), fd)
      vals == {ShowDec(x, fd) : x \in {Dec(lo), lo, Inc(lo), Dec(hi), hi, Inc(hi)}}
      forms(x) == {<<P1(x)>>, <<P2(MinT, x)>>, <<P2(x, MaxT)>>, <<P2(t(15), t(25)), P1(x)>>}
      bases == {<< >>, <<Rg(<<P2(c0, c9)>>)>>, <<Rg(<<P2(MinT, MaxT)>>), Lv0>>}
  IN {[Chain("decimal64", base \o <<Rg(g)>>) EXCEPT !.levels[1].fd = fd] : base \in bases, g \in UNION {forms(x) : x \in vals}}
\* ------------------------------------------------------------------ types with a large value set (group 13, also validated concurrently)
NumT(pfx, i) == T(pfx) \o ShowNum(Nat2Num(i))
BigEnum(n) == [Lv0 EXCEPT !.enums = [i \in 1..n |-> NumT("e", i)]]
BigIdents(n) == <<Idn("a", "big0", "", "")>> \o [i \in 1..n |-> [m |-> IF i % 3 = 0 THEN "b" ELSE "a", n |-> "i" \o ToString(i), bm |-> "a",
                                                               bn |-> IF i <= 3 THEN "big0" ELSE IF i % 3 = 0 THEN "i" \o ToString(i - 2) ELSE "i" \o ToString(i - 3)]]
BigFam(r) ==
  CASE r = 1 -> {Chain("enumeration", <<BigEnum(300)>>), Chain("enumeration", <<BigEnum(150), Lv0>>)}
    [] r = 2 -> {Chain("union", <<Un([i \in 1..16 |-> Mem("int8", Rg(<<P1(ShowNum(Nat2Num(3 * i)))>>))] \o <<Mem("enumeration", BigEnum(60)), Mem("string", Pt(<<P0(ReM2)>>))>>)>>)}
    [] r = 3 -> {Chain("string", <<Pt([i \in 1..20 |-> P0(ReRep(ReCls(TRUE, <<<<100 + i, 100 + i>>>>), 0, -1))]), Pt(<<P0(ReM1), P0(ReDot23)>>)>>)}
    [] r = 4 -> {[k |-> "identityref", mod |-> m, lay |-> "top", ctx |-> "plain", idents |-> BigIdents(90), levels |-> <<[Lv0 EXCEPT !.idbase = [m |-> "a", n |-> "big0"]]>>] : m \in {"a", "b"}}
    [] OTHER -> {}
\* ------------------------------------------------------------------ every probe lexeme as a default (fam 12200 + r)
\* whatever value classes probe Validate (multi-byte strings against lower bounds and gaps, boundary lexemes and lexical
\* variants of the numeric types, anchoring probes of patterns, enum / identity names ...) also appear as default
\* statement at every level of the chain: typedef default, leaf default, inherited through the narrower levels
DefBases == <<
  Chain("string", <<Ln(<<P2(c6, c8)>>)>>),
  Chain("string", <<Ln(<<P2(c2, c3)>>), Lv0>>),
  Chain("string", <<Ln(<<P2(c0, c2), P2(c4, c6)>>), Ln(<<P2(c1, c2), P2(c6, MaxT)>>)>>),
  Chain("string", <<Ln(<<P2(c1, c8)>>), Ln(<<P2(c4, c6)>>), Lv0>>),
  Chain("string", <<Lv0, Ln(<<P2(c3, c4)>>), Pt(<<P0(ReDot23)>>)>>),
  Chain("string", <<Pt(<<P0(ReM1)>>), Ln(<<P2(c2, c3)>>)>>),
  Chain("string", <<Pt(<<P0(ReM2)>>), Pt(<<P0(ReNotB)>>)>>),
  Chain("string", <<Pt(<<P0(ReAltABorC)>>), Ln(<<P2(c1, c2)>>)>>),
  Chain("string", <<Pt(<<P0(ReE)>>), Lv0, Ln(<<P1(c2)>>)>>),
  Chain("int8", <<Rg(<<P2(c1, c5), P2(c7, c9)>>), Rg(<<P2(c2, c8)>>)>>),
  Chain("uint64", <<Rg(<<P2(MinT, c5), P2(c7, MaxT)>>), Lv0, Rg(<<P2(c9, MaxT)>>)>>),
  Chain("int64", <<Lv0, Rg(<<P2(ShowNum(Dec(Dec(WidthOf("int64").hi))), ShowNum(Dec(WidthOf("int64").hi)))>>)>>),
  Chain("uint8", <<Lv0, Lv0>>),
  [Chain("decimal64", <<Rg(<<P2(T("1.5"), T("2.5"))>>), Rg(<<P2(T("2"), T("2.25"))>>)>>) EXCEPT !.levels[1].fd = 2],
  [Chain("decimal64", <<Lv0, Rg(<<P2(MinT, T("-0.1")), P2(T("0.1"), MaxT)>>)>>) EXCEPT !.levels[1].fd = 1],
  Chain("enumeration", <<En(Lv0), Lv0>>),
  Chain("boolean", <<Lv0, Lv0>>),
  Chain("union", <<Un(U1), Lv0>>),
  Chain("union", <<Un(U3)>>),
  IdCh("a", "a", "b0", <<Lv0>>),
  IdCh("b", "a", "udp", << >>) >>
DefProbeFam(r) ==
  LET ch == DefBases[r]
      n == Len(ch.levels)
      pre(i) == CompileChain([ch EXCEPT !.levels = SubSeq(@, 1, i)])
      vs == UNION {IF pre(i).ok THEN ProbeSet(pre(i).t, TRUE) ELSE {} : i \in 1..n}
  IN {[ch EXCEPT !.levels[i] = WithDef(@, v)] : i \in 1..n, v \in vs}
     \cup {[ch EXCEPT !.levels = <<WithDef(@[1], v)>> \o SubSeq(@, 2, n) \o <<Lv0>>] : v \in vs}
\* ------------------------------------------------------------------ base-only substatements on a typedef reference (fam 12050)
\* fraction-digits (smaller, equal, larger) on a reference to a decimal64 typedef, alone and together with a range or a
\* default, in a typedef and in the leaf: the compile verdict is not judged, the value space may not grow
FdRefFam ==
  LET B(fd) == {<<[Rg(<<P2(c0, T("100"))>>) EXCEPT !.fd = fd]>>, <<[Lv0 EXCEPT !.fd = fd]>>, <<[Rg(<<P2(T("1.5"), T("2.5")), P2(T("3.0"), T("9"))>>) EXCEPT !.fd = fd], Lv0>>}
      D(fd2) == {[Lv0 EXCEPT !.fd = fd2], [Rg(<<P2(c1, T("50"))>>) EXCEPT !.fd = fd2], WithDef([Lv0 EXCEPT !.fd = fd2], T("2.5")), WithDef([Lv0 EXCEPT !.fd = fd2], T("2.125"))}
  IN UNION {UNION {{Chain("decimal64", b \o <<d>>) : b \in B(fd), d \in D(fd2)} \cup {Chain("decimal64", b \o <<d, Lv0>>) : b \in B(fd), d \in D(fd2)}
                   \cup {Chain("decimal64", b \o <<d, Rg(<<P2(c2, c5)>>)>>) : b \in B(fd), d \in D(fd2)}
                   : fd2 \in {1, 2, 3, 4, 18}} : fd \in {1, 2, 3}}
\* ------------------------------------------------------------------ unions whose members refine the same typedef (fam 8030 + r)
\* A value is accepted by a union iff some member accepts it.  The same typedef (chain of 1-2 typedefs) occurs more than
\* once among the members with different inline restrictions (range / length / pattern), with the same restriction, and
\* unrestricted: side by side, with another member between, with one or both occurrences inside nested typedef'd or
\* inline unions, both inside one nested union; the union written in the leaf or in a typedef of its own.
USh(k) == CASE k = "uint8" -> << <<Rg(<<P2(c0, T("100"))>>)>>, <<Rg(<<P2(c0, T("100"))>>), Rg(<<P2(T("10"), T("90"))>>)>> >>
            [] k = "int64" -> << <<Lv0>> >>
            [] k = "string" -> << <<Ln(<<P2(c1, c8)>>)>>, <<Lv0, Pt(<<P0(ReNotB)>>)>> >>
            [] k = "decimal64" -> << <<Rg(<<P2(T("1.5"), T("9.5"))>>)>> >>
            [] OTHER -> << >>
ULasts(k) == CASE k = "uint8" -> <<Rg(<<P2(T("10"), T("20"))>>), Rg(<<P2(T("80"), T("90"))>>), Rg(<<P2(T("40"), T("60"))>>), Lv0, Rg(<<P1(T("15")), P1(T("85"))>>)>>
              [] k = "int64" -> <<Rg(<<P2(MinT, T("-1"))>>), Rg(<<P1(MaxT)>>), Rg(<<P2(c1, c9)>>), Lv0>>
              [] k = "string" -> <<Pt(<<P0(ReABC)>>), Pt(<<P0(ReDot23)>>), Ln(<<P2(c1, c2)>>), Ln(<<P2(c7, c8)>>), [Lv0 EXCEPT !.len = <<P2(c4, c5)>>, !.pats = <<P0(ReAStar)>>], Lv0>>
              [] k = "decimal64" -> <<Rg(<<P2(T("2"), T("2.5"))>>), Rg(<<P2(T("3.5"), MaxT)>>), Rg(<<P2(MinT, T("1.99"))>>), Lv0>>
              [] OTHER -> << >>
Cyc(i, n) == IF i > n THEN i - n ELSE i
UMs(k, fd, sh, L) == [Chain(k, sh \o <<L>>) EXCEPT !.levels[1].fd = fd]
UOther == Mem("boolean", Lv0)
UOther2 == Mem("enumeration", En(Lv0))
UnionForms(a, b, o) ==
  << <<a, b>>, <<a, o, b>>, <<TU(<<a, o>>), b>>, <<a, TU(<<o, b>>)>>, <<TU(<<a, o>>), TU(<<UOther2, b>>)>>, <<IU(<<a, o>>), b>>, <<a, IU(<<b>>)>>,
     <<TU(<<TU(<<a>>), o>>), b>>, <<TU(<<a, b>>)>>, <<TU(<<a, b>>), o>>, <<a, b, a>>, <<TU(<<a, o>>), TU(<<a, o>>), b>>, <<TU(<<a>>), TU(<<b>>)>> >>
UFd(k) == IF k = "decimal64" THEN 2 ELSE 0
\* S: which shared typedef chains of USh(k), I: which last levels of ULasts(k)
UnionDupK(k, S, I) ==
  LET ls == ULasts(k)  fd == UFd(k) IN
  UNION {UNION {UNION {
      LET a == UMs(k, fd, USh(k)[s], ls[i])  b == UMs(k, fd, USh(k)[s], ls[j])  fs == UnionForms(a, b, UOther) IN
      {Chain("union", <<Un(fs[f])>>) : f \in 1..Len(fs)} \cup {Chain("union", <<Un(fs[f]), Lv0>>) : f \in {1, 3, 9}}
      : j \in I \cap 1..Len(ls)} : i \in I \cap 1..Len(ls)} : s \in S \cap 1..Len(USh(k))}
  \cup UNION {{Chain("union", <<Un(<<UMs(k, fd, USh(k)[1], ls[i]), UMs(k, fd, USh(k)[1], ls[Cyc(i + 1, Len(ls))]), UMs(k, fd, USh(k)[1], ls[Cyc(i + 2, Len(ls))])>>)>>),
               Chain("union", <<Un(<<TU(<<UMs(k, fd, USh(k)[1], ls[i]), UOther>>), TU(<<UMs(k, fd, USh(k)[1], ls[Cyc(i + 1, Len(ls))]), UOther2>>), UMs(k, fd, USh(k)[1], ls[Cyc(i + 2, Len(ls))])>>)>>)}
              : i \in I \cap 1..Len(ls)}
\* typedefs that share their name in two modules: the leaf stands in module b; one member reaches typedef a:tN of
\* module a (lay xmod), another the typedef b:tN of module b (typedefs are numbered per module by the renderer), with
\* the same or different definitions and inline restrictions, side by side and through nested typedef'd unions
\* written in module a and in module b
XM(ch) == [ch EXCEPT !.lay = "xmod"]
UnionXmodK(k, S, I) ==
  LET ls == ULasts(k)  fd == UFd(k)  shs == USh(k)
      inb(ms, lv) == [Chain("union", <<Un(ms)>> \o lv) EXCEPT !.mod = "b"]
  IN UNION {UNION {UNION {UNION {
       LET a == XM(UMs(k, fd, shs[s], ls[i]))  b == UMs(k, fd, shs[s2], ls[j]) IN
       {inb(<<a, b>>, << >>), inb(<<b, a>>, << >>), inb(<<a, UOther, b>>, << >>), inb(<<XM(TU(<<a, UOther>>)), TU(<<b, UOther2>>)>>, << >>),
        inb(<<TU(<<b, UOther>>), XM(TU(<<a, UOther2>>))>>, << >>), inb(<<XM(TU(<<a, UOther>>)), b>>, << >>), inb(<<a, b>>, <<Lv0>>)}
       : j \in I \cap 1..Len(ls)} : i \in I \cap 1..Len(ls)} : s2 \in S \cap 1..Len(shs)} : s \in S \cap 1..Len(shs)}
\* r = 8, 9, 10: reduced families for the quick tier
UnionDupFam(r) == CASE r = 1 -> UnionDupK("uint8", 1..2, 1..9) [] r = 2 -> UnionDupK("string", 1..2, 1..9) [] r = 3 -> UnionDupK("decimal64", 1..2, 1..9) [] r = 4 -> UnionDupK("int64", 1..2, 1..9)
                    [] r = 5 -> UnionXmodK("uint8", 1..2, 1..9) [] r = 6 -> UnionXmodK("string", 1..2, 1..9) [] r = 7 -> UnionXmodK("decimal64", 1..2, 1..9)
                    [] r = 8 -> UnionDupK("uint8", {1}, {1, 2, 4}) [] r = 9 -> UnionDupK("string", {1}, {1, 3, 4}) [] r = 10 -> UnionXmodK("uint8", {1}, {1, 2, 4})
                    [] OTHER -> {}
\* ------------------------------------------------------------------ leaf contexts (fam 12300 + r; groups 10300 + r)
\* The verdict on a type statement and on the defaults along its chain is probed under everything else a leaf can
\* carry or stand in: the inherited / own default inside, outside and on the edge of the value space narrowed by a
\* range / length / pattern, default and narrowing at every level of the chain, in every context of Ctxs
\* (r: 1 int8, 2 string, 3 decimal64, 4 uint64, 5 other kinds, 6 unions of refined typedefs; 11, 12: reduced 1, 2 for the quick tier)
CtxChains(r) ==
  CASE r = 1 -> DefNarrow("int8", 0, {Lv0, Rg(<<P2(c0, T("100"))>>)}, <<Rg(<<P2(c2, c4)>>), Rg(<<P2(c6, MaxT)>>), Rg(<<P2(c1, c5), P2(c7, c9)>>)>>, {c3, c6, T("100")})
    [] r = 11 -> DefNarrow("int8", 0, {Rg(<<P2(c0, T("100"))>>)}, <<Rg(<<P2(c2, c4)>>), Rg(<<P2(c6, MaxT)>>)>>, {c3, c6})
    [] r = 2 -> DefNarrow("string", 0, {Lv0, Ln(<<P2(c1, c6)>>)}, <<Ln(<<P2(c2, c3)>>), Pt(<<P0(ReABC)>>), [Lv0 EXCEPT !.len = <<P2(c2, c3)>>, !.pats = <<P0(ReAStar)>>]>>, {<<ca, cb>>, <<ca, cb, cc, ca>>, <<cx, 49>>})
    [] r = 12 -> DefNarrow("string", 0, {Ln(<<P2(c1, c6)>>)}, <<Ln(<<P2(c2, c3)>>), Pt(<<P0(ReABC)>>)>>, {<<ca, cb>>, <<cx, cx, cx, cx>>})
    [] r = 3 -> DefNarrow("decimal64", 2, {Lv0, Rg(<<P2(c1, c9)>>)}, <<Rg(<<P2(T("1.5"), T("2.5"))>>), Rg(<<P2(c2, MaxT)>>)>>, {c2, T("2.55"), T("1.5")})
    [] r = 4 -> DefNarrow("uint64", 0, {Lv0}, <<Rg(<<P2(MinT, c3)>>), Rg(<<P1(MaxT)>>)>>, {c3, c6, ShowNum(WidthOf("uint64").hi)})
    [] r = 5 -> OtherDefFam
    [] r = 6 -> {[ch EXCEPT !.levels[i] = WithDef(@, d)] : ch \in {Chain("union", <<Un(UnionForms(UMs("uint8", 0, USh("uint8")[1], ULasts("uint8")[1]), UMs("uint8", 0, USh("uint8")[1], ULasts("uint8")[2]), UOther)[f]), Lv0>>) : f \in {1, 3, 4}},
                                                          i \in 1..2, d \in {c5, T("95"), T("50"), T("true")}}
    [] OTHER -> {}
CtxFam(r) == {InCtx(ch, Ctxs[c]) : ch \in CtxChains(r), c \in 2..Len(Ctxs)}
\* the same chain as sibling leaves in different contexts, in both orders, and three at once: the verdict on a leaf
\* does not depend on what was decided for another use of the same typedefs
CtxPairs == {<<1, 2>>, <<2, 1>>, <<1, 11>>, <<14, 1>>, <<2, 3>>, <<17, 19>>, <<19, 1>>, <<4, 9>>, <<2, 2>>}
CtxGroupFam(r) == {<<InCtx(ch, Ctxs[p[1]]), InCtx(ch, Ctxs[p[2]])>> : ch \in CtxChains(r), p \in CtxPairs}
                  \cup {<<InCtx(ch, "mandatory"), ch, InCtx(ch, "list-mandatory")>> : ch \in CtxChains(r)}
\* ------------------------------------------------------------------ round 7 families (group 14; C16 variants in group 8)
\* (1) decimal64 bounds that differ in the last fraction digit only, at every fraction-digits value and at small,
\*     middle and large magnitudes (fam 14000 + 10 fd + jj, probed richly as 8100 + 10 fd + jj).  X = 25 * 10^j units has
\*     j + 2 <= 15 significant digits whatever fraction-digits is: every bound here and its neighbours are decimals that a
\*     binary double still tells apart, so no verdict of this family rests on the recorded float64 finding.
\*     Adjacent parts one unit apart are disjoint and legal, a shared bound is an overlap, a part ending one unit below
\*     its start is descending, a derived part reaching one unit beyond its base part (above, below zero, through
\*     min / max, beyond the negative end) is not narrowing, one unit inside is; defaults one unit inside / outside.
UlpJs == <<0, 7, 13>>
DecUlpFam(fd, jj) ==
  LET j == UlpJs[IF jj > 3 THEN jj - 3 ELSE jj]
      full == jj <= 3
      X == Mk(FALSE, <<2, 5>> \o Zeros(j))
      X2 == Mk(FALSE, <<5>> \o Zeros(j + 1))
      Y == Mk(FALSE, <<1>> \o Zeros(j + 1))
      s(x) == ShowDec(x, fd)
      z == s(Zero)
      b1 == <<P2(z, s(X))>>
      b2 == <<P2(s(Neg(X)), s(X))>>
      b3 == <<P2(z, s(X)), P2(s(Inc(X)), s(X2))>>                     \* one unit apart: disjoint
      b4 == <<P2(s(Dec(Y)), s(X))>>                                   \* lower bound with one digit less than its successor
      b5 == <<P1(s(X)), P1(s(Inc(X)))>>
      firsts == <<b1, b2, b3, b4, b5,
                  <<P2(z, s(X)), P2(s(X), s(X2))>>,                   \* shared bound
                  <<P2(s(Inc(X)), s(X))>>,                            \* ends one unit below its start
                  <<P2(z, s(Inc(X))), P2(s(X), s(X2))>>,              \* overlap of one unit
                  <<P2(MinT, s(Dec(Neg(X)))), P2(s(Neg(X)), s(X))>>,
                  <<P1(s(Inc(X))), P1(s(X))>> >>
      ders == << <<P2(z, s(Inc(X)))>>, <<P2(z, s(Dec(X)))>>, <<P1(s(Inc(X)))>>, <<P2(s(X), s(Dec(X)))>>, <<P2(z, s(Dec(X))), P1(s(X))>>, <<P2(MinT, s(Inc(X)))>>,
                 <<P2(z, s(X))>>, <<P2(s(Dec(X)), s(X))>>, <<P2(s(Dec(Zero)), s(X))>>, <<P2(MinT, s(Dec(X)))>>, <<P2(s(X), MaxT)>>,
                 <<P2(s(Dec(Neg(X))), s(X))>>, <<P2(s(Inc(Y)), s(Inc(Inc(Y))))>>, <<P2(s(Dec(Y)), s(Y)), P2(s(Inc(Y)), s(X))>> >>
      bases == IF full THEN {b1, b2, b3, b4, b5} ELSE {b1, b3}
      nd == IF full THEN Len(ders) ELSE 6
      mk(ls) == [Chain("decimal64", ls) EXCEPT !.levels[1].fd = fd]
  IN {mk(<<Rg(firsts[i])>>) : i \in 1..Len(firsts)}
     \cup {mk(<<Rg(b), Rg(ders[i])>>) : b \in bases, i \in 1..nd}
     \cup {mk(<<Rg(b1), Lv0, Rg(ders[i])>>) : i \in 1..(IF full THEN 6 ELSE 2)}
     \cup {mk(<<WithDef(Rg(b1), s(X))>>), mk(<<WithDef(Rg(b1), s(Inc(X)))>>), mk(<<WithDef(Rg(b3), s(Inc(X)))>>),
           mk(<<WithDef(Rg(b1), s(X)), Rg(ders[2])>>), mk(<<Rg(b1), WithDef(Rg(ders[2]), s(Dec(X)))>>), mk(<<WithDef(Rg(b3), s(Inc(X))), Lv0, Rg(ders[2])>>)}
\* (2) typedef chains of depth 2 to 5 laid out over two modules in every way of XLays: the chain leaves module b at
\*     every position, local names coincide between the modules at the same / mirrored positions or nowhere, links are
\*     spelt bare or with the module's own prefix.  A chain of distinct typedefs compiles to what its levels say however
\*     the typedefs are called (fam 14200 + r; r = 11, 12: reduced for the quick tier; groups 1041x).
XLayLevels(r) ==
  CASE r = 1 -> [k |-> "uint8", fd |-> 0, dok |-> T("35"), dbad |-> T("15"), bad |-> Rg(<<P2(c0, T("101"))>>),
                 L |-> <<Rg(<<P2(c0, T("100"))>>), Rg(<<P2(T("10"), T("90"))>>), Lv0, Rg(<<P2(T("20"), T("80"))>>), Rg(<<P2(T("30"), T("40")), P2(T("50"), T("60"))>>)>>]
    [] r = 2 -> [k |-> "string", fd |-> 0, dok |-> <<ca, cc>>, dbad |-> <<ca, cc, ca, cc, ca, cc>>, bad |-> Ln(<<P2(c0, c9)>>),
                 L |-> <<Pt(<<P0(ReNotB)>>), Ln(<<P2(c1, c8)>>), Pt(<<P0(ReABC)>>), Lv0, Ln(<<P2(c2, c3)>>)>>]
    [] OTHER -> [k |-> "decimal64", fd |-> 2, dok |-> T("3.5"), dbad |-> T("2.1"), bad |-> Rg(<<P2(c2, T("9.51"))>>),
                 L |-> <<Rg(<<P2(T("1.5"), T("9.5"))>>), Lv0, Rg(<<P2(c2, c9)>>), Rg(<<P2(T("2.25"), T("8.75"))>>), Rg(<<P2(c3, c4), P2(c5, c6)>>)>>]
XLayChainsOf(r, ns, full) ==
  LET x == XLayLevels(r)
      mk(ls) == [Chain(x.k, ls) EXCEPT !.levels[1].fd = x.fd]
  IN UNION {LET ls == SubSeq(x.L, 1, n) IN
            {mk(ls), mk([ls EXCEPT ![1] = WithDef(@, x.dbad)]), mk(SubSeq(ls, 1, n - 1) \o <<x.bad>>)}
            \cup (IF full THEN {mk([ls EXCEPT ![1] = WithDef(@, x.dok)]), mk([ls EXCEPT ![2] = WithDef(@, x.dok)])} ELSE {})
            : n \in ns}
XLayOthers ==
  {Chain("enumeration", <<En(Lv0)>> \o Rp(n, Lv0)) : n \in 1..4} \cup {Chain("union", <<Un(U1)>> \o Rp(n, Lv0)) : n \in 1..4}
  \cup {Chain("union", <<WithDef(Un(U3), T("-2")), Lv0, Lv0, WithDef(Lv0, T("two"))>>), Chain("boolean", <<Lv0, WithDef(Lv0, T("true")), Lv0, Lv0>>)}
  \cup {IdCh("a", "a", bn, Rp(n, Lv0)) : bn \in {"b0", "tcp"}, n \in 1..3} \cup {IdCh("a", "a", "b0", <<Lv0, WithDef(Lv0, T("b:e2")), Lv0>>)}
\* unions whose members are such chains (the leaf in module b, each member laid out on its own)
XLayUnions ==
  LET m1 == [Chain("uint8", SubSeq(XLayLevels(1).L, 1, 4)) EXCEPT !.mod = "b"]
      m2 == [Chain("string", SubSeq(XLayLevels(2).L, 1, 4)) EXCEPT !.mod = "b"]
  IN {[Chain("union", <<Un(<<[m1 EXCEPT !.lay = l1], UOther, [m2 EXCEPT !.lay = l2]>>)>> \o rest) EXCEPT !.mod = "b"] :
        l1 \in {"top", "xm-2-same-bare", "xm-2-mirror-own", "xm-3-same-bare"}, l2 \in {"top", "xm-2-same-bare", "xm-1-mirror-bare"}, rest \in {<< >>, <<Lv0>>}}
XLayFam(r) ==
  CASE r \in 1..3 -> {Relaid(ch, XLays[l]) : ch \in XLayChainsOf(r, 2..5, TRUE), l \in 1..Len(XLays)}
    [] r = 4 -> {Relaid(ch, XLays[l]) : ch \in XLayOthers, l \in 1..Len(XLays)}
    [] r = 5 -> XLayUnions
    [] r \in 11..13 -> {Relaid(ch, XLays[l]) : ch \in XLayChainsOf(r - 10, {4, 5}, FALSE), l \in 1..Len(XLays)}
    [] OTHER -> {}
XLayPairs == {<<"top", "xm-2-same-bare">>, <<"xm-2-same-bare", "top">>, <<"xm-1-same-bare", "xm-2-same-bare">>, <<"xm-2-same-bare", "xm-2-mirror-bare">>,
              <<"xm-3-same-own", "xm-1-mirror-bare">>, <<"local", "xm-2-same-bare">>, <<"xm-2-uniq-bare", "xm-2-same-own">>, <<"xm-3-mirror-bare", "xm-3-same-bare">>}
XLayGroupFam(r) == {<<Relaid(ch, p[1]), Relaid(ch, p[2])>> : ch \in XLayChainsOf(r, {4, 5}, FALSE), p \in XLayPairs}
                   \cup {<<Relaid(ch, "xm-2-same-bare"), ch, Relaid(ch, "xm-3-mirror-bare")>> : ch \in XLayChainsOf(r, {5}, FALSE)}
\* (3) unions with a member that LOOKS like a catch-all but is not: a string whose multi-part length spans 0 .. max and
\*     leaves holes, an integer whose range spans min .. max with holes, with patterns / further lengths at other typedef
\*     levels, beside members that accept little; flat, in typedef'd and inline nested unions, in a typedef of its own.
\*     A union accepts a value iff some member does (fam 8051; 8052 reduced).
HoleStr == << <<Ln(<<P2(c0, c3), P2(c8, MaxT)>>)>>,
              <<Ln(<<P2(MinT, c3), P2(c8, MaxT)>>)>>,
              <<Ln(<<P2(c0, c3), P2(c5, c6), P2(c8, MaxT)>>)>>,
              <<Lv0, Ln(<<P2(c0, c3), P2(c8, MaxT)>>)>>,
              <<Ln(<<P2(c0, c3), P2(c8, MaxT)>>), Lv0, Lv0>>,
              <<Ln(<<P2(MinT, c4), P2(c7, MaxT)>>), Ln(<<P2(c0, c3), P2(c8, MaxT)>>)>>,
              <<Pt(<<P0(ReNotB)>>), Ln(<<P2(c0, c3), P2(c8, MaxT)>>)>>,
              <<Ln(<<P2(c0, c3), P2(c8, MaxT)>>), Pt(<<P0(ReABC)>>)>>,
              <<Pt(<<P0(ReNotB)>>), Lv0, Ln(<<P2(MinT, c3), P2(c8, MaxT)>>), Lv0>>,
              <<[Lv0 EXCEPT !.len = <<P2(c0, c3), P2(c8, MaxT)>>, !.pats = <<P0(ReAStar)>>]>>,
              <<Ln(<<P1(c0), P2(c2, MaxT)>>)>>,
              <<Ln(<<P2(c0, c3), P2(c8, T("10"))>>)>>,
              <<Ln(<<P2(c2, c3), P2(c8, MaxT)>>)>>,
              <<Ln(<<P2(c0, MaxT)>>)>>,
              <<Ln(<<P2(MinT, MaxT)>>), Lv0>>,
              <<Lv0, Pt(<<P0(ReABC)>>), Lv0>>,
              <<Lv0, Lv0>> >>
HoleInt == << Chain("int8", <<Rg(<<P2(MinT, c3), P2(c8, MaxT)>>)>>), Chain("uint8", <<Lv0, Rg(<<P2(c0, c3), P2(c8, T("255"))>>)>>),
              [Chain("decimal64", <<Rg(<<P2(MinT, T("3.5")), P2(T("8.5"), MaxT)>>), Lv0>>) EXCEPT !.levels[1].fd = 1] >>
HoleLows == <<Mem("int8", Rg(<<P2(c1, c5)>>)), Mem("enumeration", En(Lv0)), Chain("string", <<Ln(<<P2(c5, c6)>>), Pt(<<P0(ReABC)>>)>>)>>
UnionHoleForms(h, o) ==
  << <<o, h>>, <<h, o>>, <<TU(<<h, UOther>>), o>>, <<o, IU(<<h>>)>>, <<TU(<<TU(<<o, h>>)>>), UOther>>, <<h>>, <<o, h, UOther2>> >>
UnionHoleFam(full) ==
  LET hs == {Chain("string", HoleStr[i]) : i \in IF full THEN 1..Len(HoleStr) ELSE {1, 2, 4, 7, 9, 12, 14, 16}} \cup (IF full THEN RangeOf(HoleInt) ELSE {HoleInt[1]})
      os == IF full THEN RangeOf(HoleLows) ELSE {HoleLows[1]}
  IN UNION {LET fs == UnionHoleForms(h, o) IN
            {Chain("union", <<Un(fs[f])>>) : f \in IF full THEN 1..Len(fs) ELSE {1, 3, 4, 6}} \cup {Chain("union", <<Un(fs[f]), Lv0>>) : f \in {2, 3}}
            : h \in hs, o \in os}
     \cup {Chain("union", <<Un(<<Chain("string", HoleStr[i]), Chain("string", HoleStr[j])>>)>>) : i \in {1, 3, 7, 12}, j \in {6, 8, 13}}
\* (4) identityref values are spelt relative to the module the leaf BELONGS to, wherever its statement is written:
\*     every identityref type (bases of both modules, inline and through typedefs, in a union) on a leaf in every context
\*     that moves the statement to another file or deeper into its module (fam 8053; groups 1042x: leaves of both modules
\*     that share one identityref typedef of module a).  A grouping of module a cannot name definitions of module b.
IdCtxs == <<"uses-foreign", "uses-foreign-mandatory", "uses-foreign-nested", "uses-foreign-container", "augment", "submodule", "submodule-uses", "uses", "list", "case", "refine-mandatory">>
IdCtxFam ==
  {InCtx(IdCh(m, "a", bn, rest), IdCtxs[c]) : m \in {"a", "b"}, bn \in {"b0", "d1", "tcp", "udp"}, rest \in {<< >>, <<Lv0>>, <<Lv0, Lv0>>}, c \in 1..Len(IdCtxs)}
  \cup {InCtx(IdCh("b", "b", bn, rest), c) : bn \in {"e1", "tcp", "d1"}, rest \in {<< >>, <<Lv0>>}, c \in {"augment", "submodule", "submodule-uses", "uses", "list"}}
  \cup {InCtx(Relaid(IdCh("a", "a", bn, <<Lv0>>), l), c) : bn \in {"b0", "udp"}, l \in {"xmod", "xm-2-same-own", "xm-1-mirror-bare"}, c \in {"augment", "submodule", "submodule-uses", "uses", "list"}}
  \cup {InCtx([k |-> "union", mod |-> m, lay |-> "top", ctx |-> "plain", idents |-> Idents, levels |-> <<Un(<<IdCh(m, "a", "d1", << >>), Mem("int8", Lv0)>>)>>], IdCtxs[c]) : m \in {"a", "b"}, c \in 1..Len(IdCtxs)}
IdGroupFam ==
  UNION {LET A == IdCh("a", "a", bn, <<Lv0>>)
             B == Relaid(A, "xmod")
             F(c) == InCtx(IdCh("b", "a", bn, <<Lv0>>), c)
         IN BothOrders({<<A, B>>, <<A, F("uses-foreign")>>, <<B, F("uses-foreign")>>, <<A, InCtx(A, "submodule")>>, <<B, InCtx(B, "submodule")>>, <<A, InCtx(B, "augment")>>,
                        <<F("uses-foreign"), F("uses-foreign-nested")>>, <<InCtx(A, "uses"), F("uses-foreign-container")>>})
            \cup {<<A, F("uses-foreign"), B>>, <<F("uses-foreign"), InCtx(B, "submodule-uses"), A>>}
         : bn \in {"b0", "tcp", "udp"}}
\* ------------------------------------------------------------------ family table
\* fam 10000 + r: r < 100 shared chains, r in 100..199 different bases, 200..299 histories of one typedef, 300.. leaf contexts
\* 410..419 one chain in two layouts over the modules, 420 leaves of both modules sharing an identityref typedef
GroupsOf(fam) == LET r == fam % 1000 IN IF r < 100 THEN SharedFam(r) ELSE IF r < 200 THEN DiffBaseFam(r - 100) ELSE IF r < 300 THEN KindHistFam(r - 200) ELSE IF r < 400 THEN CtxGroupFam(r - 300)
                                        ELSE IF r < 420 THEN XLayGroupFam(r - 410) ELSE IdGroupFam
\* the chains of an exhaustive family (group = fam \div 1000)
ChainsOf(fam, maxd) ==
  LET g == fam \div 1000  r == fam % 1000 IN
  CASE g = 1 -> IntRangeFam(r \div 100, r % 100, maxd)
    [] g = 2 -> IntDefFam(r \div 100, (r % 100) \div 10, r % 10)
    [] g = 3 -> DecRangeFam(r \div 100, r % 100, maxd)
    [] g = 4 -> DecDefFam(r)
    [] g = 5 -> LenFam(r, maxd)
    [] g = 6 -> (CASE r = 1 -> PatFam(maxd) [] r = 2 -> MixFam [] OTHER -> StrDefFam)
    [] g = 7 -> (CASE r = 1 -> KindFam [] r = 2 -> OtherDefFam [] OTHER -> LayoutFam)
    [] g = 8 -> (CASE r \in 1..8 -> DirectIntFam(r) [] r \in 11..16 -> DirectDecFam(r - 10) [] r = 20 -> DirectStrFam [] r = 21 -> DirectOtherFam [] r \in 31..49 -> UnionDupFam(r - 30)
                    [] r = 51 -> UnionHoleFam(TRUE) [] r = 52 -> UnionHoleFam(FALSE) [] r = 53 -> IdCtxFam [] r \in 100..299 -> DecUlpFam((r - 100) \div 10, (r - 100) % 10) [] OTHER -> MsgFam)
    [] g = 12 -> (CASE r < 10 -> HugeGapFam(r) [] r = 10 -> HugeLenFam [] r \in 21..28 -> LimitIntFam(r - 20) [] r = 30 -> LimitLenFam [] r = 50 -> FdRefFam
                    [] r \in 41..46 -> LimitDecFam(r - 40) [] r \in 101..199 -> DefNarrowFam(r - 100) [] r \in 300..399 -> CtxFam(r - 300) [] OTHER -> DefProbeFam(r - 200))
    [] g = 13 -> BigFam(r)
    [] g = 14 -> (CASE r < 200 -> DecUlpFam(r \div 10, r % 10) [] r \in 200..299 -> XLayFam(r - 200) [] OTHER -> {})
    [] OTHER -> {}
\* group 8 (directly constructed types) is probed with lexical variants and multi-byte strings
Rich(fam) == fam \div 1000 = 8
\* Vectors(fam, maxd, nrand): the set of vectors of a family; group 9 = seeded random chains
Vectors(fam, maxd, nrand) ==
  IF fam \div 1000 = 10 THEN {GVec(g, fam, FALSE) : g \in GroupsOf(fam)}
  ELSE IF fam \div 1000 = 11 THEN (IF Burn(fam % 1000) THEN {GVec(RandGroup(i), fam, fam % 1000 >= 100) : i \in 1..nrand} ELSE {})
  ELSE IF fam \div 1000 = 9 THEN (IF Burn(fam % 1000) THEN {RandVec(fam, 12, i) : i \in 1..nrand} ELSE {})
  ELSE {Vec(ch, fam, Rich(fam)) : ch \in ChainsOf(fam, maxd)}
=============================================================================
