----------------------------- MODULE SchemaNodes -----------------------------
(* Schema trees as data, shared by SchemaPath (C17) and DataValidate (C18).
   A schema is a sequence of node records; every record has the same fields so
   that TLC can compare any two of them.  The harness renders these records to
   YANG text (dvm.RenderYang) and compiles it with the real compiler, so the
   specification and the code under test see the same schema.

     kind       "container" "list" "leaf" "leaflist" "choice" "case"
     presence   container has a presence statement
     typ        "string" "int8" "empty" for leaf / leaf-list, or the same reached through a
                typedef: "tstring" "tint8" "tempty"; path shapes and sampled path schemas (C17)
                also "boolean" "enum" (enumeration { on, off }) "union" (union { int8, boolean })
                and their typedefs "tbool" "tenum" "tunion"; "-" otherwise
     key        name of the key leaf of a single-key list ("" for a list with several keys)
     keys       the key statement of a list: the names of its key leaves in the order of the
                statement (RFC 6020 7.8.2); <<key>> for a single-key list
     mandatory  leaf / choice
     def        default value of a leaf, default case of a choice, "" = none
     min, max   min-/max-elements of list / leaf-list (max = 0: unbounded)
     uniq       unique statements of a list: sequence of sets-as-sequences of
                descendant leaf paths (sequences of names)
     kids       child nodes                                                   *)
EXTENDS Integers, Sequences, FiniteSets

N(kind, name, kids) ==
  [kind |-> kind, name |-> name, presence |-> FALSE, typ |-> "-", key |-> "", keys |-> << >>, mandatory |-> FALSE,
   def |-> "", min |-> 0, max |-> 0, uniq |-> << >>, kids |-> kids]
Leaf(n, t)        == [N("leaf", n, << >>) EXCEPT !.typ = t]
LeafM(n, t)       == [Leaf(n, t) EXCEPT !.mandatory = TRUE]
LeafD(n, t, d)    == [Leaf(n, t) EXCEPT !.def = d]
LL(n, t)          == [N("leaflist", n, << >>) EXCEPT !.typ = t]
LLmm(n, t, mn, mx) == [LL(n, t) EXCEPT !.min = mn, !.max = mx]
Cont(n, kids)     == N("container", n, kids)
PCont(n, kids)    == [N("container", n, kids) EXCEPT !.presence = TRUE]
List(n, key, kids) == [N("list", n, kids) EXCEPT !.key = key, !.keys = <<key>>]
\* a list whose key statement names several leaves (in that order); the key leaves may stand
\* anywhere among kids, in any order
ListK(n, keys, kids) == [N("list", n, kids) EXCEPT !.key = (IF Len(keys) = 1 THEN keys[1] ELSE ""), !.keys = keys]
ListX(n, key, mn, mx, uq, kids) == [List(n, key, kids) EXCEPT !.min = mn, !.max = mx, !.uniq = uq]
Choice(n, cases)  == N("choice", n, cases)
ChoiceD(n, d, cases) == [Choice(n, cases) EXCEPT !.def = d]
ChoiceM(n, cases) == [Choice(n, cases) EXCEPT !.mandatory = TRUE]
Case(n, kids)     == N("case", n, kids)

IsData(n) == n.kind \notin {"choice", "case"}

SeqRange(s) == {s[i] : i \in 1..Len(s)}

\* the data nodes reachable from a child list without passing a data node: choices
\* and cases never appear in data or in paths (RFC 6020 7.9: "the choice and case
\* nodes are not visible in the data tree")
RECURSIVE Visible(_)
Visible(kids) ==
  IF kids = << >> THEN {}
  ELSE (IF IsData(kids[1]) THEN {kids[1]} ELSE Visible(kids[1].kids)) \cup Visible(Tail(kids))

HasVisible(kids, nm) == \E c \in Visible(kids) : c.name = nm
VisibleNamed(kids, nm) == CHOOSE c \in Visible(kids) : c.name = nm

\* the orders in which k things can stand
Orders(k) == CASE k = 1 -> << <<1>> >>
              [] k = 2 -> << <<1, 2>>, <<2, 1>> >>
              [] k = 3 -> << <<1, 2, 3>>, <<1, 3, 2>>, <<2, 1, 3>>, <<2, 3, 1>>, <<3, 1, 2>>, <<3, 2, 1>> >>

\* every name used in a schema (nodes of every kind)
RECURSIVE AllNames(_)
AllNames(kids) == IF kids = << >> THEN {} ELSE {kids[1].name} \cup AllNames(kids[1].kids) \cup AllNames(Tail(kids))

\* lexical value spaces of the three types used here (they are the business of C16;
\* only tokens whose membership is beyond doubt are ever used as values).  A type reached
\* through a typedef has the value space of its base.  Type empty has exactly one lexical
\* value, the empty string (RFC 6020 9.11: "no value"): as a path token it may follow the
\* leaf name, any other token may not.
\* boolean (RFC 6020 9.5: lexical values "true" and "false"): a third value space, so that the keys of a
\* list with three keys can all be told apart by one token each.  enum = enumeration { enum on; enum off; }
\* (9.6: the assigned names are the lexical values); union = union { type int8; type boolean; } (9.12: a
\* value matches the union iff it matches one member type).  Path validation (C17) crosses every one of
\* these types with both node kinds that carry a value (leaf, leaf-list) and with key leaves.
BaseType(t) == CASE t = "tstring" -> "string" [] t = "tint8" -> "int8" [] t = "tempty" -> "empty"
                 [] t = "tbool" -> "boolean" [] t = "tenum" -> "enum" [] t = "tunion" -> "union" [] OTHER -> t
IsEmptyType(t) == BaseType(t) = "empty"
IntToks == {"5", "7", "-3"}
TypeAccepts(t, v) ==
  CASE BaseType(t) = "string" -> TRUE
    [] BaseType(t) = "int8"   -> v \in IntToks
    [] BaseType(t) = "empty"  -> v = ""
    [] BaseType(t) = "boolean" -> v \in {"true", "false"}
    [] BaseType(t) = "enum"    -> v \in {"on", "off"}
    [] BaseType(t) = "union"   -> v \in IntToks \cup {"true", "false"}
    [] OTHER                  -> FALSE
=============================================================================
