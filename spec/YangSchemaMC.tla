---------------------------- MODULE YangSchemaMC ----------------------------
(* Design-level checks of YangSchema on the generator's space (TLC explores one
   state per case; the case is judged by the worker that dequeues it):
     InlineEq        Schema(M) = Schema(Inline(M))   (uses/refine/augment = written in place)
     EditEq          Schema(M + D) = Schema(Edit(M, D))   (deviation = source edit)
     InlineFixed     Inline(M) contains no uses and no grouping
     PruneIdem       Prune(Prune(s, f), f) = Prune(s, f)
     PruneTopDown    the nodes of Prune(s, f) are exactly those reachable from the root through passing nodes,
                     and each keeps every attribute
   A violation here is a fault of the spec (exit 2), never a verdict on the code. *)
EXTENDS YangSchemaSets
CONSTANTS Fams
VARIABLES fam, cs, res, phase
None == [m |-> <<>>, e |-> {}, alt |-> "none", fl |-> <<>>]

\* the namespace of must/when conditions is not comparable across a deviation and its edit form
RECURSIVE NoCondNs(_)
NoCondNs(n) == [n EXCEPT !.musts = {[text |-> m.text, ns |-> ""] : m \in n.musts}, !.whens = [i \in 1..Len(n.whens) |-> [n.whens[i] EXCEPT !.ns = ""]],
                         !.children = {NoCondNs(c) : c \in n.children}]
RECURSIVE NoUses(_)
NoUses(s) == s.kw \notin {"uses", "grouping"} /\ \A i \in 1..Len(s.subs) : NoUses(s.subs[i])
RECURSIVE SameButChildren(_, _, _)
\* every node of pruned tree p is the node of s at the same place, with possibly fewer children
SameButChildren(p, s, f) == /\ [p EXCEPT !.children = {}] = [s EXCEPT !.children = {}]
                            /\ \A c \in p.children : \E d \in s.children : d.name = c.name /\ Pass(f, d) /\ SameButChildren(c, d, f)
                            /\ Cardinality(p.children) = Cardinality({d \in s.children : Pass(f, d)})
Judge(c) ==
  LET a == Analyse(c.m, c.e)
      judged == a.verdict # "unjudged"
      inl == Analyse(a.inline, c.e)
      edi == Analyse(a.edit, c.e)
  IN [inlineEq |-> (c.alt # "inline" \/ ~judged \/ ~a.inlineOk) \/ (inl.verdict = a.verdict /\ (a.verdict \notin {"ok", "open"} \/ (inl.schema = a.schema /\ inl.opens = a.opens))),
      inlineFixed |-> (c.alt # "inline" \/ ~a.inlineOk) \/ \A i \in 1..Len(a.inline) : NoUses(a.inline[i]),
      editEq |-> (c.alt # "edit" \/ ~judged \/ ~a.editOk) \/ (edi.verdict = a.verdict /\ (a.verdict \notin {"ok", "open"} \/ (NoCondNs(edi.schema) = NoCondNs(a.schema) /\ edi.opens = a.opens))),
      pruneIdem |-> a.verdict \notin {"ok", "open"} \/ \A i \in 1..Len(c.fl) : Prune(Prune(a.schema, c.fl[i]), c.fl[i]) = Prune(a.schema, c.fl[i]),
      pruneTopDown |-> a.verdict \notin {"ok", "open"} \/ \A i \in 1..Len(c.fl) :
                          /\ Paths(Prune(a.schema, c.fl[i]), <<>>) = PassingPaths(a.schema, c.fl[i], <<>>)
                          /\ AllPass(Prune(a.schema, c.fl[i]), c.fl[i])
                          /\ SameButChildren(Prune(a.schema, c.fl[i]), a.schema, c.fl[i])]
AllTrue == [inlineEq |-> TRUE, inlineFixed |-> TRUE, editEq |-> TRUE, pruneIdem |-> TRUE, pruneTopDown |-> TRUE]
MCInit == fam \in Fams /\ cs = None /\ phase = "init" /\ res = AllTrue
Pick == phase = "init" /\ \E c \in Family(fam) : cs' = c /\ phase' = "picked" /\ UNCHANGED <<fam, res>>
Check == phase = "picked" /\ res' = Judge(cs) /\ phase' = "checked" /\ UNCHANGED <<fam, cs>>
MCNext == Pick \/ Check
Checked == phase = "checked"
InlineEq == Checked => res.inlineEq
InlineFixed == Checked => res.inlineFixed
EditEq == Checked => res.editEq
PruneIdem == Checked => res.pruneIdem
PruneTopDown == Checked => res.pruneTopDown
=============================================================================
