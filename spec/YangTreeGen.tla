----------------------------- MODULE YangTreeGen -----------------------------
(* C10, model -> code: statement trees inside a minimal module, rendered in many
   layouts; each vector carries the text and the tree a reader must find (keywords,
   decoded arguments, order, nesting, line and byte column of every keyword).

   Per tree: the compact layout; every trivia of the menus at every used token
   boundary, one boundary at a time; every quoting form of every argument, one
   argument at a time; every trailing trivia; NLay layouts with all choices drawn
   at random (TLC -seed).  Only every sixth small tree (every second one in the thorough
   tier) gets the one-at-a-time layouts; the choice trees (members in every order) get the compact
   and the random layouts.  Trees: family f holds the trees with index = f modulo
   NFam of the exhaustive small set plus NTrees random deeper trees.

   Before a vector is written TLC checks the spec against itself: ParseText of the
   text is the annotated tree (the spec's lexer and parser invert the rendering),
   and every judged argument decodes to the argument of the source tree.           *)
EXTENDS YangTree, Json, SequencesExt, FiniteSets
CONSTANTS Size, NFam, NTrees, NLay
VARIABLES fam, done

Thorough == Size = "thorough"
X(kw) == Node(C(kw), FALSE, << >>, << >>)
XA(kw, v) == Node(C(kw), TRUE, v, << >>)
ArgPool == << C("foo"), C("a b"), C("x'y"), C("q") \o <<DQ>> \o C("r"), C("a") \o <<BSL>> \o C("b"), << >>, <<233>>, C("1.5"), C("a/b:c"),
              C("l1") \o <<LF>> \o C("l2"), C("{;}"), C("//c"), C("a+b"), C("it's ") \o <<DQ>> \o C("q") \o <<DQ>>, C("/*") >>
Ids == << C("c1"), C("d-2"), C("e_3.x") >>
Module(body) == Node(C("module"), TRUE, C("m"), <<XA("namespace", C("urn:m")), XA("prefix", C("m"))>> \o body)
Leaf(id, extra) == Node(C("leaf"), TRUE, id, <<XA("type", C("string"))>> \o extra)
Cont(id, subs) == Node(C("container"), TRUE, id, subs)
Ext(kw, hasArg, v, subs) == Node(C(kw), hasArg, v, subs)

Terms == <<X("x:a"), XA("x:b-c", ArgPool[1]), XA("x:b-c", ArgPool[2]), XA("description", ArgPool[14]), XA("x:b-c", ArgPool[6])>>
NT == IF Thorough THEN 5 ELSE 3
IsDesc(n) == n.kw = C("description")
\* the same multi-line double-quoted source text several times in one module (same and different statements, different
\* nesting depths): each occurrence stands for the decoding of its own source form at its own quote column, so the
\* occurrences have different values, and a layout that moves one of them changes that one only
RawText == C("a") \o <<LF>> \o Spaces(6) \o C("b") \o <<LF>> \o Spaces(30) \o C("c") \o <<LF, TAB>> \o C("d")
RawA == <<[q |-> "d", src |-> RawText]>>
RawB == <<[q |-> "s", src |-> C("p q")], [q |-> "d", src |-> RawText], [q |-> "d", src |-> RawText]>>
RawBodies ==
  {<<Cont(Ids[1], <<RawNode(C("description"), RawA, << >>), RawNode(C("x:b-c"), RawA, << >>),
                    Cont(Ids[2], <<RawNode(C("description"), RawA, << >>)>>)>>), RawNode(C("x:b-c"), RawA, << >>)>>,
   <<RawNode(C("x:b-c"), RawA, << >>), RawNode(C("x:b-c"), RawA, << >>), RawNode(C("x:d"), RawB, <<RawNode(C("x:b-c"), RawA, << >>)>>)>>}
SmallBodies ==
  {<<Terms[i]>> : i \in {1, 2, 3, 5}}
  \cup {<<Ext("x:d", h, ArgPool[3], <<Terms[i]>>)>> : h \in BOOLEAN, i \in 1..NT}
  \cup {<<Ext("x:d", TRUE, ArgPool[9], <<Terms[i], Terms[j]>>)>> : i \in 1..NT, j \in 1..NT}
  \cup {<<Cont(Ids[1], <<Terms[i]>>)>> : i \in 1..NT}
  \cup {<<Cont(Ids[2], <<Terms[i], Terms[j]>>)>> : i \in 1..NT, j \in {1, 2}}
  \cup {<<Leaf(Ids[3], << >>)>>, <<Leaf(Ids[1], <<Terms[4], Terms[1]>>)>>, <<Cont(Ids[1], << >>), Leaf(Ids[2], << >>)>>,
        <<Cont(Ids[1], <<Cont(Ids[2], <<Leaf(Ids[3], <<Terms[2]>>)>>), Terms[1]>>), Terms[3]>>}
  \cup RawBodies
Small == SetToSeq(SmallBodies)
\* choices that mix shorthand members (leaf, container, leaf-list), explicit cases and other substatements, in every order:
\* the children of the choice are the source statements in source order
ChoiceMembers == << Leaf(C("la"), << >>), Cont(C("cb"), << >>), Node(C("case"), TRUE, C("cc"), <<Leaf(C("lc"), << >>)>>),
                    XA("description", ArgPool[1]), X("x:a") >>
ChoiceMembers2 == << Node(C("leaf-list"), TRUE, C("ll"), <<XA("type", C("string"))>>), Node(C("case"), TRUE, C("c1"), <<Cont(C("k1"), << >>)>>),
                     Leaf(C("lb"), <<XA("description", ArgPool[2])>>), Node(C("case"), TRUE, C("c2"), << >>) >>
\* the k-th permutation of a sequence (k from 0), so that no set of all permutations has to be built
RECURSIVE Fact(_), PermOf(_, _)
Fact(n) == IF n <= 1 THEN 1 ELSE n * Fact(n - 1)
PermOf(s, k) == IF s = << >> THEN << >>
                ELSE LET f == Fact(Len(s) - 1)  i == (k \div f) + 1 IN
                     <<s[i]>> \o PermOf(SubSeq(s, 1, i - 1) \o SubSeq(s, i + 1, Len(s)), k % f)
NChoice == 120 + 24
ChoiceBody(k) == IF k < 120 THEN <<Node(C("choice"), TRUE, C("ch"), PermOf(ChoiceMembers, k))>>
                 ELSE <<Cont(Ids[1], <<Node(C("choice"), TRUE, C("ch"), PermOf(ChoiceMembers2, k - 120)), Terms[1]>>)>>
\* arguments made of escapes: a slice of the escape runs of YangString (all runs of two, every fourth run of three) as
\* the source of an argument, in the double-quoted spelling (the argument is the decoded value) next to the single-quoted
\* one (the argument is the run itself), also on a continuation line and as a piece of a concatenation
SelectInSeq2(q) == [i \in 1..(Len(q) \div 4) |-> q[4 * i]]
EscSeq == SetToSeq(EscRuns2) \o SelectInSeq2(SetToSeq(EscRuns3))
NEsc == Len(EscSeq)
EscBody(k) == LET r == EscSeq[k]  d == [q |-> "d", src |-> r]  sq == [q |-> "s", src |-> r] IN
  <<RawNode(C("x:b-c"), <<d>>, << >>), RawNode(C("x:b-c"), <<sq>>, << >>),
    Cont(Ids[1], <<RawNode(C("description"), <<[q |-> "d", src |-> C("C:") \o r \o <<LF>> \o Spaces(12) \o r], sq, d>>, << >>)>>)>>
\* arguments whose source is a multi-line double-quoted string with blanks at its edges (YangString!Edge2): indentation
\* and trailing blanks on the first and on the last line, lines of blanks only.  Each tree has the string as the argument of
\* two statements at different depths and once more cut in two pieces after its last line break; every argument must be
\* the decoding of its own source form (blanks before a line break go, blanks before the closing quote stay).
EdgeSeq == SetToSeq(Edge2({<< >>, Spaces(2), Spaces(20), <<TAB>>}, <<LF>>))
NEdge == Len(EdgeSeq)
EdgeBody(k) == LET src == EdgeSeq[k]  d == [q |-> "d", src |-> src] IN
  <<RawNode(C("x:b-c"), <<d>>, << >>),
    Cont(Ids[1], <<RawNode(C("description"), <<d>>, << >>),
                   RawNode(C("x:b-c"), <<[q |-> "d", src |-> HeadOf(src)], [q |-> "d", src |-> TailOf(src)]>>, << >>)>>)>>
\* the same for characters that are white space to Unicode only (and CRs outside a line break) at the edges and in the middle
\* of the lines (YangString!Exo2): they are ordinary characters of the argument
ExoSeq == SetToSeq(UNION {Exo2(x, 12, <<LF>>, FALSE) \cup Exo2(x, 3, <<CR, LF>>, FALSE) : x \in ExoChars})
NExo == Len(ExoSeq)
ExoStep == IF Thorough THEN 32 ELSE 40      \* every 32nd / 40th source
ExoBody(k) == LET src == ExoSeq[k]  d == [q |-> "d", src |-> src] IN
  <<RawNode(C("x:b-c"), <<d>>, << >>),
    Cont(Ids[1], <<RawNode(C("description"), <<d>>, << >>), RawNode(C("x:b-c"), <<[q |-> "s", src |-> src]>>, << >>)>>)>>
\* blocks of every size: a block of n statements (with and without blocks of their own), followed by further non-empty blocks -
\* after it in the enclosing block, or the enclosing block goes on after it.  Every statement of every block must be found
\* where the source has it, whatever was parsed after it.
RECURSIVE DecT(_)
DecT(k) == IF k < 10 THEN <<48 + k>> ELSE DecT(k \div 10) \o <<48 + (k % 10)>>
BigStmt(v, i) == IF v = 0 THEN XA("x:b-c", C("v") \o DecT(i)) ELSE Leaf(C("l") \o DecT(i), << >>)
BigBody(n, v) == IF v < 2 THEN <<Cont(Ids[1], [i \in 1..n |-> BigStmt(v, i)]), Cont(Ids[2], <<Leaf(C("x"), << >>), Leaf(C("y"), << >>)>>)>>
                 ELSE IF v = 2 THEN <<Cont(Ids[1], <<Cont(Ids[2], [i \in 1..n |-> BigStmt(n % 2, i)]), Leaf(C("x"), << >>)>>), Terms[1]>>
                 ELSE [i \in 1..n |-> BigStmt((n + 1) % 2, i)] \o <<Cont(Ids[2], <<Terms[2], Terms[1]>>)>>
BigSizes == IF Thorough THEN (1..80) \cup {96, 127, 128, 129, 143, 144, 160, 255, 256, 257, 300} ELSE 1..80
BigVariants(n) == 0..3
\* which small trees get the full set of layouts (all of them in the thorough tier)
\* ("shift": trees with fixed source forms get the blank trivia only, which is what moves an occurrence to another column)
FullSet(i, body) == IF HasRaw(Module(body)) THEN (IF Thorough THEN "full" ELSE "shift")
                    ELSE IF i % (IF Thorough THEN 2 ELSE 6) = 1 THEN "full" ELSE "light"

RE(seq) == seq[RandomElement(1..Len(seq))]
RECURSIVE RandStmt(_)
RandStmts(d, lo, hi) == [k \in 1..RandomElement(lo..hi) |-> RandStmt(d)]
RandStmt(d) ==
  LET r == RandomElement(1..10) IN
  IF d = 0 \/ r <= 3 THEN (IF RandomElement(1..4) = 1 THEN X("x:a") ELSE XA(RE(<<"x:b-c", "y:z">>), RE(ArgPool)))
  ELSE IF r <= 6 THEN Ext(RE(<<"x:d", "x:e.f">>), RandomElement(1..3) > 1, RE(ArgPool), RandStmts(d - 1, 0, 3))
  ELSE IF r <= 8 THEN Cont(RE(Ids), (IF RandomElement(1..2) = 1 THEN <<XA("description", RE(ArgPool))>> ELSE << >>) \o RandStmts(d - 1, 0, 2))
  ELSE Leaf(RE(Ids), (IF RandomElement(1..2) = 1 THEN <<XA("description", RE(ArgPool))>> ELSE << >>) \o RandStmts(0, 0, 2))
RandBody(u_) == RandStmts(2, 1, 3)

\* ---- layouts of one tree ----
RECURSIVE CountStmts(_)
CountStmts(n) == 1 + FoldSeq(LAMBDA s, acc : acc + CountStmts(s), 0, n.subs)
NSlots(n) == Slots * CountStmts(n)
Zero(k) == [b \in 1..k |-> 0]
MaxMenu == Len(TrivOpt)
Feat(kind, b, t) == [kind |-> kind, slot |-> b % Slots, pick |-> t]

Checked(src, L, its) == LET p == ParseItems(its, L.text) IN
  /\ Assert(p.ok, <<"spec fault: the rendering is not read back", L.text>>)
  /\ Assert(p.tree = L.tree, <<"spec fault: ParseText does not invert Layout", L.text, p.tree, L.tree>>)
  /\ Assert(ArgsKept(src, L.tree), <<"spec fault: a rendered argument does not decode to its source", L.text>>)

Vec(f, tid, src, L, feat, endPick) ==
  LET its == LexAll(L.text, Intended) IN
  [fam |-> f, tid |-> tid, text |-> L.text, tree |-> L.tree, hasTree |-> TRUE, judged |-> AllJudged(L.tree), feat |-> feat, layoutFree |-> ~HasRaw(src),
   wordThenComment |-> WordThenComment(its, L.text), lineCommentAtEnd |-> (endPick % Len(TrivEnd)) >= Len(TrivOpt), ok |-> Checked(src, L, its),
   entry |-> "Parse", first |-> << >>]

Layouts(f, tid, body, full) ==
  LET src == Module(body)  k == NSlots(src)  P0 == Zero(k)  Q0 == Zero(k)  P1 == [b \in 1..k |-> 1]
      base == Layout(P0, Q0, src, 0)
      used == {base.used[i] : i \in 1..Len(base.used)}
      lim(n) == IF full = "shift" /\ n > 8 THEN 8 ELSE n
      one == UNION {{<<u[1], t>> : t \in 1..(lim(IF u[2] = "s" THEN Len(TrivSep) ELSE IF u[2] = "o" THEN Len(TrivOpt) ELSE 5) - 1)} : u \in used}
      args == {u[1] - 1 : u \in {v \in used : v[2] = "s"}}
  IN {Vec(f, tid, src, base, Feat("base", 0, 0), 0)}
     \cup (IF full \notin {"light", "light2"} THEN
            {Vec(f, tid, src, Layout([P0 EXCEPT ![x[1]] = x[2]], Q0, src, 0), Feat("trivia", x[1], x[2]), 0) : x \in one}
            \cup {Vec(f, tid, src, Layout(P1, [Q0 EXCEPT ![x[1]] = x[2]], src, 0), Feat("quoting", x[1], x[2]), 0) : x \in {<<b, q>> : b \in args, q \in 1..5}}
            \cup {Vec(f, tid, src, Layout(P0, Q0, src, e), Feat("end", 0, e), e) : e \in 1..(lim(Len(TrivEnd)) - 1)}
            ELSE {})
     \cup {LET e == RandomElement(0..(Len(TrivEnd) - 1)) IN
           Vec(f, tid, src, Layout([b \in 1..k |-> RandomElement(0..(MaxMenu - 1))], [b \in 1..k |-> RandomElement(0..5)], src, e), Feat("random", 0, j), e) : j \in 1..(IF full = "light2" /\ NLay > 2 /\ ~Thorough THEN 2 ELSE NLay)}

\* a text that starts with a byte order mark (directly followed by the first keyword): every statement is where it is in the
\* text handed to the parser - the mark is a character of line 1 (3 bytes), lines and columns below are what they are
\* without it.  Layouts: compact, a line break at every boundary (every keyword in column 0), a line break and four
\* blanks, and random ones.
BomLayouts(f, tid, body) ==
  LET src == Module(body)  k == NSlots(src)
      fix(P) == [P EXCEPT ![1] = 0]
      V(P, Q, e, feat) == [Vec(f, tid, src, LayoutFrom(<<BOM>>, fix(P), Q, src, e), feat, e) EXCEPT !.layoutFree = FALSE]
      \* trivia t at every optional boundary, a blank (t = 3: a line feed) between keyword and argument
      uni(t) == [b \in 1..k |-> IF b % Slots = 2 THEN (IF t = 3 THEN 2 ELSE 0) ELSE t]
  IN {V(uni(t), Zero(k), 0, Feat("bom", 0, t)) : t \in {0, 3, 6, 1}}
     \cup {LET e == RandomElement(0..(Len(TrivEnd) - 1)) IN
           V([b \in 1..k |-> RandomElement(0..(MaxMenu - 1))], [b \in 1..k |-> RandomElement(0..5)], e, Feat("bom-random", 0, j)) : j \in 1..(IF Thorough THEN 4 ELSE 2)}
\* big blocks are rendered directly (the general layout machinery is too slow for hundreds of statements): ASCII, unquoted
\* arguments, one blank between tokens; a statement is written on one line ("flat") or, down to depth d, with every
\* substatement on a line of its own, indented by two blanks per level.  Positions follow by construction; for the smaller
\* sizes TLC checks that the spec's reader finds exactly this tree in the text.
FAnn(n, line, col, subs) == [kw |-> n.kw, kwAlt |-> n.kw, hasArg |-> n.hasArg, arg |-> n.arg, argJ |-> TRUE, line |-> line, col |-> col, colJ |-> TRUE, subs |-> subs]
FHead(n) == n.kw \o (IF n.hasArg THEN <<SP>> \o n.arg ELSE << >>)
RECURSIVE FlatStmt(_, _, _), FlatSeq(_, _, _, _, _, _)
FlatStmt(n, line, col) ==
  IF n.subs = << >> THEN [text |-> FHead(n) \o <<SEMI>>, tree |-> FAnn(n, line, col, << >>)]
  ELSE LET open == FHead(n) \o C(" { ")
           ss == FlatSeq(n.subs, line, col + Len(open), 1, << >>, << >>)
       IN [text |-> open \o ss.text \o C(" }"), tree |-> FAnn(n, line, col, ss.trees)]
FlatSeq(subs, line, col, k, text, trees) ==
  IF k > Len(subs) THEN [text |-> text, trees |-> trees]
  ELSE LET st == FlatStmt(subs[k], line, col) IN
       FlatSeq(subs, line, col + Len(st.text) + 1, k + 1, text \o st.text \o (IF k < Len(subs) THEN <<SP>> ELSE << >>), Append(trees, st.tree))
RECURSIVE LinesStmt(_, _, _, _), LinesSeq(_, _, _, _, _, _, _)
\* the statement starts on `line` at column `ind`; returns its text (no final line feed), its tree and the line it ends on
LinesStmt(n, line, ind, d) ==
  IF d = 0 \/ n.subs = << >> THEN LET f == FlatStmt(n, line, ind) IN [text |-> f.text, tree |-> f.tree, last |-> line]
  ELSE LET ss == LinesSeq(n.subs, line + 1, ind + 2, d - 1, 1, << >>, << >>) IN
       [text |-> FHead(n) \o C(" {") \o <<LF>> \o ss.text \o Spaces(ind) \o C("}"), tree |-> FAnn(n, line, ind, ss.trees), last |-> ss.line]
\* every substatement on its own line(s), each followed by a line feed; `line` is where the next one starts
LinesSeq(subs, line, ind, d, k, text, trees) ==
  IF k > Len(subs) THEN [text |-> text, trees |-> trees, line |-> line]
  ELSE LET st == LinesStmt(subs[k], line, ind, d) IN
       LinesSeq(subs, st.last + 1, ind, d, k + 1, text \o Spaces(ind) \o st.text \o <<LF>>, Append(trees, st.tree))
BigVec(f, tid, body, d) ==
  LET src == Module(body)
      r == LinesStmt(src, 1, 0, d)
      text == r.text \o <<LF>>
      small == CountStmts(src) <= 16
  IN [fam |-> f, tid |-> tid, text |-> text, tree |-> r.tree, hasTree |-> TRUE, judged |-> TRUE, feat |-> Feat("big", 0, d), layoutFree |-> TRUE,
      wordThenComment |-> FALSE, lineCommentAtEnd |-> FALSE, entry |-> "Parse", first |-> << >>,
      ok |-> ~small \/ LET p == ParseText(text) IN Assert(p.ok /\ p.tree = r.tree, <<"spec fault: the reader does not find the tree of a directly rendered text", text>>)]
BigLayouts(f, tid, body, n) == {BigVec(f, tid, body, d) : d \in 0..3}
\* the same text after a byte order mark: only the first line changes (the mark is 3 bytes of it)
BigBomVec(f, tid, body, d) ==
  LET v == BigVec(f, tid, body, d)
      text == <<BOM>> \o v.text
      tree == [v.tree EXCEPT !.col = Width(BOM), !.colJ = FALSE, !.kwAlt = <<BOM>> \o v.tree.kw]
  IN [v EXCEPT !.text = text, !.tree = tree, !.layoutFree = FALSE, !.feat = Feat("bom-big", 0, d),
               !.ok = CountStmts(Module(body)) > 16 \/ LET p == ParseText(text) IN Assert(p.ok /\ p.tree = tree, <<"spec fault: the reader does not find the tree of a directly rendered text", text>>)]

\* the ways into the parser (YangChars!AllEntries): the tree and every position are those of the text of THIS call, through
\* parse.ParseWithInterners, through New(..).Parse / NewWithInterners(..).Parse, and when the Tree has parsed another text
\* before (`first`: a one-line module, a module of many lines, the empty text, a text that is rejected, a module after
\* empty lines - shorter and longer than the text under test, with fewer and more lines).  Layouts in which positions
\* matter: a line break at every boundary, a line break and four blanks, random ones, and the compact one-line form.
EntryFirsts(u_) == << Layout(Zero(40), Zero(40), Module(<<Terms[2]>>), 0).text,
                      LinesStmt(Module(BigBody(9, 1)), 1, 0, 3).text \o <<LF>>,
                      << >>,
                      C("module a { b c d }"),
                      [i \in 1..7 |-> LF] \o Layout(Zero(40), Zero(40), Module(<<Terms[1], Terms[3]>>), 0).text \o <<LF>> >>
Via(v, k) == LET e == OtherEntries[1 + (k % 4)]  F == EntryFirsts(0) IN
             [v EXCEPT !.entry = e, !.first = IF e = "Reparse" THEN F[1 + ((k \div 4) % Len(F))] ELSE << >>, !.feat = [@ EXCEPT !.kind = "entry-" \o @]]
EntryLayouts(f, tid, body) ==
  LET src == Module(body)  k == NSlots(src)
      uni(t) == [b \in 1..k |-> IF b % Slots = 2 THEN (IF t = 3 THEN 2 ELSE 0) ELSE t]
      V(P, Q, e, feat, j) == Via(Vec(f, tid, src, Layout(P, Q, src, e), feat, e), j)
  IN {V(uni(3), Zero(k), 0, Feat("lines", 0, 3), j) : j \in 0..3}
     \cup {V(uni(6), Zero(k), 0, Feat("lines", 0, 6), tid + j) : j \in {0, 4 + 3}}
     \cup {V(Zero(k), Zero(k), 0, Feat("base", 0, 0), tid + 8 + 3 + 4 * j) : j \in 0..2}
     \cup {LET e == RandomElement(0..(Len(TrivEnd) - 1)) IN
           V([b \in 1..k |-> RandomElement(0..(MaxMenu - 1))], [b \in 1..k |-> RandomElement(0..5)], e, Feat("random", 0, j), RandomElement(0..19)) : j \in 1..(IF Thorough THEN 4 ELSE 2)}
Cases ==
  UNION {Layouts(fam, i, Small[i], FullSet(i, Small[i])) : i \in {i \in 1..Len(Small) : i % NFam = fam % NFam}}
  \cup UNION {Layouts(fam, 500 + k, ChoiceBody(k), "light2") : k \in {k \in 0..(NChoice - 1) : k % NFam = fam % NFam}}
  \cup UNION {Layouts(fam, 3000 + k, EdgeBody(k), "light2") : k \in {k \in 1..NEdge : k % NFam = fam % NFam /\ (Thorough \/ k % 3 = 0)}}
  \cup UNION {Layouts(fam, 2000 + k, EscBody(k), "light2") : k \in {k \in 1..NEsc : k % NFam = fam % NFam /\ (Thorough \/ k % 2 = 0)}}
  \cup UNION {Layouts(fam, 7000 + k, ExoBody(k), "light2") : k \in {k \in 1..NExo : k % ExoStep = 0 /\ (k \div ExoStep) % NFam = fam % NFam}}
  \cup UNION {UNION {BigLayouts(fam, 4000 + 4 * n + v, BigBody(n, v), n) : v \in BigVariants(n)} : n \in {n \in BigSizes : n % NFam = fam % NFam}}
  \cup UNION {BomLayouts(fam, 6000 + i, Small[i]) : i \in {i \in 1..Len(Small) : i % NFam = fam % NFam /\ (Thorough \/ i % 2 = 0)}}
  \cup UNION {{BigBomVec(fam, 6500 + n, BigBody(n, n % 2), d) : d \in 1..3} : n \in {n \in 1..40 : n % NFam = fam % NFam}}
  \cup UNION {EntryLayouts(fam, 8000 + i, Small[i]) : i \in {i \in 1..Len(Small) : i % NFam = fam % NFam /\ (Thorough \/ i % 2 = 0)}}
  \cup UNION {{Via(BigVec(fam, 8500 + n, BigBody(n, n % 4), 1 + ((n + j) % 3)), n + 5 * j) : j \in 0..3} : n \in {n \in 1..(IF Thorough THEN 80 ELSE 40) : n % NFam = fam % NFam}}
  \cup UNION {Layouts(fam, 1000 * (fam + 1) + j, RandBody(j), "full") : j \in 1..NTrees}
GInit == fam \in 0..(NFam - 1) /\ done = FALSE
GNext == /\ ~done /\ done' = TRUE /\ UNCHANGED fam
         /\ ndJsonSerialize("vec_" \o ToString(fam) \o ".ndjson", SetToSeq(Cases))
=============================================================================
