INIT MCInit
NEXT MCNext
CONSTANT Shapes = {1, 2, 3, 4, 5, 6, 7, 8, 9, 10, 11, 12, 13, 14, 15, 16, 17, 18, 19, 20, 21, 22, 23, 24, 25, 26, 27, 28, 29, 30}
CONSTANT MaxEntries = 2
CONSTANT Wide = {5, 7, 12, 15}
CONSTANT MaxLL = 3
INVARIANT Idempotent
INVARIANT ExplicitKept
INVARIANT OnlyDefaultsAdded
INVARIANT Verdict
INVARIANT MustSound
INVARIANT PruneIdem
INVARIANT WellFormedDeco
CHECK_DEADLOCK FALSE
