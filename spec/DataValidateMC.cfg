INIT MCInit
NEXT MCNext
CONSTANT Shapes = {1, 2, 3, 4, 5, 6, 7, 8, 9, 10, 11, 12, 13, 14, 15, 16, 17, 18, 19, 20, 21, 22, 23, 24, 25, 26, 27, 28, 29, 30, 31, 32, 33, 34, 35, 36, 37, 38, 39, 40, 41, 42, 43, 44, 45, 46, 47, 48, 49, 50, 51, 52, 53, 54, 55, 56, 57, 58, 59, 60, 61}
CONSTANT MaxEntries = 2
CONSTANT Wide = {5, 7, 12, 15}
CONSTANT MaxLL = 3
INVARIANT Laws
CHECK_DEADLOCK FALSE
