INIT GInit
NEXT GNext
CONSTANT Size = "quick"
CONSTANT NFam = 24
CONSTANT NTrees = 1
CONSTANT NLay = 10
CHECK_DEADLOCK FALSE
