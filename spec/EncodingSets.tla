---------------------------- MODULE EncodingSets ----------------------------
(* The bounded spaces of C19: a menu of schema nodes (every built-in type the
   statement names, both list and leaf-list orderings, nesting, an augmenting
   module with a foreign identity), the schemas built from subsets of the menu
   (rendered to YANG text), all valid data trees of a schema over the value
   classes, the single-point mutants of an encoding, and the token alphabets
   for the decoders' totality runs.                                          *)
EXTENDS Encoding

\* ---------------------------------------------------------------- the menu
\* every item is a child of container a:c, except where noted
EnumT == TyEnum(<<"one", "two">>)
Menu == <<
  Leaf("i8", "a", Ty("int8")),                                                        \* 1
  Leaf("i32", "a", Ty("int32")),                                                      \* 2
  Leaf("i64", "a", Ty("int64")),                                                      \* 3
  Leaf("u8", "a", Ty("uint8")),                                                       \* 4
  Leaf("u32", "a", Ty("uint32")),                                                     \* 5
  Leaf("u64", "a", Ty("uint64")),                                                     \* 6
  Leaf("d3", "a", TyDec(3)),                                                          \* 7
  Leaf("s", "a", Ty("string")),                                                       \* 8
  Leaf("bo", "a", Ty("boolean")),                                                     \* 9
  Leaf("e", "a", Ty("empty")),                                                        \* 10
  Leaf("en", "a", EnumT),                                                             \* 11
  Leaf("id", "a", TyIdref("a:base-id")),                                              \* 12
  LeafList("llu", "a", Ty("string"), TRUE),                                           \* 13
  LeafList("lls", "a", Ty("int32"), FALSE),                                           \* 14
  LeafList("ll64", "a", Ty("uint64"), TRUE),                                          \* 15
  List("lu", "a", "k", TRUE, <<Leaf("k", "a", Ty("string")), Leaf("v", "a", Ty("int64")),
                               Cont("in", "a", FALSE, <<Leaf("x", "a", Ty("string"))>>)>>),       \* 16
  List("ls", "a", "k", FALSE, <<Leaf("k", "a", Ty("uint32")), Leaf("v", "a", Ty("string")),
                                LeafList("w", "a", Ty("string"), TRUE)>>),            \* 17
  Cont("pc", "a", TRUE, << >>),                                                       \* 18
  Cont("np", "a", FALSE, <<Leaf("y", "a", Ty("string")), Leaf("z", "a", Ty("int8"))>>),          \* 19
  Leaf("baug", "b", Ty("string")),                                                    \* 20  augment from module b
  Cont("bc", "b", FALSE, <<Leaf("bl", "b", Ty("string")), Leaf("bid", "b", TyIdref("a:base-id"))>>), \* 21 augment from b
  Cont("d", "b", FALSE, <<Leaf("dl", "b", Ty("uint64"))>>),                           \* 22  top level of module b
  List("lo", "a", "k", FALSE, <<Leaf("k", "a", Ty("string")),
        List("li", "a", "j", TRUE, <<Leaf("j", "a", Ty("int8")), Leaf("e2", "a", Ty("empty"))>>)>>),   \* 23
  Leaf("d18", "a", TyDec(18)),                                                        \* 24
  LeafList("lid", "a", TyIdref("a:base-id"), TRUE),                                   \* 25
  Leaf("sp", "a", TyDigits),                                                          \* 26  string with pattern [0-9]+
  \* list keys of the types that have alternative lexical forms
  List("lk", "a", "k", FALSE, <<Leaf("k", "a", TyIdref("a:base-id")), Leaf("v", "a", Ty("string"))>>),   \* 27
  List("bk", "b", "k", TRUE, <<Leaf("k", "b", TyIdref("a:base-id")), Leaf("v", "b", Ty("int8"))>>),      \* 28  augment from b
  List("ld", "a", "k", FALSE, <<Leaf("k", "a", TyDec(3)), Leaf("t", "a", Ty("boolean"))>>),             \* 29
  List("lt", "a", "k", TRUE, <<Leaf("k", "a", Ty("boolean"))>>),                                        \* 30
  \* a constraint over the default-decorated tree: unique over a leaf with a default
  ListU("lq", "a", "k", FALSE, "port", <<Leaf("k", "a", Ty("string")), LeafD("port", "a", Ty("int8"), "5")>>)   \* 31
>>
NMenu == Len(Menu)
TopB == {22}
RECURSIVE PickSeq(_, _, _)
PickSeq(S, i, only) == IF i > NMenu THEN << >>
                       ELSE (IF i \in S /\ ((i \in TopB) = only) THEN <<Menu[i]>> ELSE << >>) \o PickSeq(S, i + 1, only)
\* the schema with the menu items S
Schema(S) == Root(<<Cont("c", "a", FALSE, PickSeq(S, 1, FALSE))>> \o PickSeq(S, 1, TRUE))

\* --------------------------------------------------------------- YANG text
RType(ty, mod) ==
  CASE ty.b = "decimal64" -> "type decimal64 { fraction-digits " \o ToString(ty.fd) \o "; } "
    [] ty.b = "enumeration" -> "type enumeration { enum one; enum two; } "
    [] ty.b = "string" /\ ty.pat = "digits" -> "type string { pattern \"[0-9]+\"; } "
    [] ty.b = "identityref" -> "type identityref { base " \o (IF mod = "a" THEN "base-id" ELSE "a:base-id") \o "; } "
    [] OTHER -> "type " \o ty.b \o "; "
RECURSIVE RNode(_), RNodes(_, _)
RNode(sn) ==
  CASE sn.k = "leaf" -> "leaf " \o sn.n \o " { " \o RType(sn.ty, sn.mod) \o (IF sn.dflt # "" THEN "default " \o sn.dflt \o "; " ELSE "") \o "} "
    [] sn.k = "ll" -> "leaf-list " \o sn.n \o " { " \o RType(sn.ty, sn.mod)
                      \o (IF sn.user THEN "ordered-by user; " ELSE "") \o "} "
    [] sn.k = "cont" -> "container " \o sn.n \o " { " \o (IF sn.pres THEN "presence \"p\"; " ELSE "") \o RNodes(sn.kids, 1) \o "} "
    [] sn.k = "list" -> "list " \o sn.n \o " { key " \o sn.key \o "; " \o (IF sn.user THEN "ordered-by user; " ELSE "")
                        \o (IF sn.uniq # "" THEN "unique \"" \o sn.uniq \o "\"; " ELSE "") \o RNodes(sn.kids, 1) \o "} "
RNodes(kids, i) == IF i > Len(kids) THEN "" ELSE RNode(kids[i]) \o RNodes(kids, i + 1)
OfMod(kids, mod) == SelectSeq(kids, LAMBDA x : x.mod = mod)
YangA(S) == "module a { namespace \"urn:a\"; prefix a; identity base-id; identity loc-id { base base-id; } "
            \o "container c { " \o RNodes(OfMod(PickSeq(S, 1, FALSE), "a"), 1) \o "} }"
YangB(S) == "module b { namespace \"urn:b\"; prefix b; import a { prefix a; } identity for-id { base a:base-id; } "
            \o (IF OfMod(PickSeq(S, 1, FALSE), "b") # << >>
                THEN "augment /a:c { " \o RNodes(OfMod(PickSeq(S, 1, FALSE), "b"), 1) \o "} " ELSE "")
            \o RNodes(PickSeq(S, 1, TRUE), 1) \o "}"

\* ------------------------------------------------------------ value classes
\* wide = TRUE: every class of the statement; FALSE: two per type (used in combinations)
\* strings needing escaping (RFC 6020 9.4: a string is any sequence of XML 1.0 characters, i.e. TAB, LF, CR and
\* everything from U+0020 on): the three legal C0 controls, DEL, a C1 control, the characters JSON / XML / HTML-safe
\* writers treat specially (quote, backslash, slash, < > & '), BMP characters that are legal but not "printable"
\* (zero-width space, line separator, U+FFFD), a lone combining mark, an astral printable and an astral
\* non-printable (tag) character.  How a writer escapes them is its business; the document must parse and give
\* back the same string.
StrVals(wide) == IF wide THEN <<"x", "", "a b", "{22}q{5C}", "{3C}{26}{3E}{27}", "l{A}b", "t{9}", "{E9}{20AC}", "{1F600}",
                                "true", "12", " lead", "null", "a:b", "]]{3E}", "c{D}r",
                                "d{7F}l", "n{85}{9F}", "s/l{5C}/", "{E0001}g", "{301}", "z{200B}{2028}w", "{FFFD}">>
                 ELSE <<"x", "{22}{3C}{26}{E9}{7F}">>
ValsOf(ty, mod, wide) ==
  LET b == ty.b IN
  CASE b = "int8" -> IF wide THEN <<"-128", "127", "0", "5">> ELSE <<"-128", "5">>
    [] b = "int32" -> IF wide THEN <<"-2147483648", "2147483647", "7">> ELSE <<"-2147483648", "7">>
    [] b = "int64" -> IF wide THEN <<"-9223372036854775808", "9223372036854775807", "9007199254740993", "-1">>
                      ELSE <<"-9223372036854775808", "9007199254740993">>
    [] b = "uint8" -> <<"0", "255">>
    [] b = "uint32" -> IF wide THEN <<"4294967295", "0", "16777217">> ELSE <<"4294967295", "3">>
    [] b = "uint64" -> IF wide THEN <<"18446744073709551615", "9007199254740993", "0", "9223372036854775808">>
                       ELSE <<"18446744073709551615", "9007199254740993">>
    [] b = "decimal64" /\ ty.fd = 3 -> IF wide THEN <<"1.5", "-0.001", "9223372036854775.807", "-9223372036854775.808", "2.0">>
                                       ELSE <<"-0.001", "9223372036854775.807">>
    [] b = "decimal64" -> IF wide THEN <<"-9.223372036854775808", "9.223372036854775807", "0.000000000000000001", "1.5">>
                          ELSE <<"-9.223372036854775808", "1.5">>
    [] b = "string" -> IF ty.pat = "digits" THEN <<"12", "007">> ELSE StrVals(wide)
    [] b = "boolean" -> <<"true", "false">>
    [] b = "enumeration" -> ty.en
    [] b = "identityref" -> IF mod = "a" THEN <<"loc-id", "b:for-id">> ELSE <<"for-id", "a:loc-id">>
KeyVals(ty, mod) == CASE ty.b = "string" -> <<"kb", "ka", "k {22}{7F}c">>
                      [] ty.b = "int8" -> <<"-3", "2">>
                      [] ty.b = "identityref" -> IF mod = "a" THEN <<"loc-id", "b:for-id">> ELSE <<"for-id", "a:loc-id">>
                      [] ty.b = "decimal64" -> <<"1.5", "-0.001", "2.0">>
                      [] ty.b = "boolean" -> <<"true", "false">>
                      [] OTHER -> <<"7", "4294967295">>

\* ----------------------------------------------------------- trees of a schema
\* sequences of length 1..2 over a pool (user-ordered: both orders; else one order per pair)
Seqs12(pool, user) ==
  {<<pool[i]>> : i \in 1..Len(pool)}
  \cup {<<pool[p[1]], pool[p[2]]>> : p \in {q \in (1..Len(pool)) \X (1..Len(pool)) : IF user THEN q[1] # q[2] ELSE q[1] < q[2]}}
Seqs3(pool) == IF Len(pool) >= 3 THEN {<<pool[3], pool[1], pool[2]>>} ELSE {}
RECURSIVE TreesOf(_, _), KidSeqs(_, _, _)
\* all sequences of present children (in schema order) of the kids from index i on
KidSeqs(kids, i, wide) ==
  IF i > Len(kids) THEN {<< >>}
  ELSE LET rest == KidSeqs(kids, i + 1, wide) IN
       rest \cup {<<t>> \o r : t \in TreesOf(kids[i], wide), r \in rest}
TreesOf(sn, wide) ==
  CASE sn.k = "leaf" ->
         IF sn.ty.b = "empty" THEN {N(sn.n, << >>, << >>), N(sn.n, <<"">>, << >>)}
         ELSE {N(sn.n, <<ValsOf(sn.ty, sn.mod, wide)[i]>>, << >>) : i \in 1..Len(ValsOf(sn.ty, sn.mod, wide))}
    [] sn.k = "ll" -> {N(sn.n, vs, << >>) : vs \in Seqs12(ValsOf(sn.ty, sn.mod, wide), sn.user)
                                                   \cup (IF wide THEN Seqs3(ValsOf(sn.ty, sn.mod, wide)) ELSE {})}
    [] sn.k = "cont" -> {N(sn.n, << >>, ks) : ks \in (IF sn.pres THEN KidSeqs(sn.kids, 1, wide) ELSE KidSeqs(sn.kids, 1, wide) \ {<< >>})}
    [] sn.k = "list" ->
         LET keyleaf == Child(sn, sn.key)
             others == SelectSeq(sn.kids, LAMBDA x : x.n # sn.key)
             all == KidSeqs(others, 1, FALSE)
             full == {x \in all : \A y \in all : Len(y) <= Len(x)}
             some == {<< >>} \cup {CHOOSE x \in full : TRUE}
             rests == IF wide \/ sn.uniq # "" THEN all ELSE some
             firsts == IF sn.uniq # "" THEN all ELSE some
             entry(kv, r) == N(kv, << >>, <<N(sn.key, <<kv>>, << >>)>> \o r)
             pool == IF wide THEN KeyVals(keyleaf.ty, keyleaf.mod) ELSE SubSeq(KeyVals(keyleaf.ty, keyleaf.mod), 1, 2)
             one == {<<entry(pool[i], r)>> : i \in 1..Len(pool), r \in rests}
             \* two entries: both orders if user-ordered; the first is the bare key or a full entry
             two == {<<entry(pool[p[1]], r1), entry(pool[p[2]], r2)>> :
                       p \in {q \in (1..Len(pool)) \X (1..Len(pool)) : IF sn.user THEN q[1] # q[2] ELSE q[1] < q[2]},
                       r1 \in firsts, r2 \in rests}
         IN {N(sn.n, << >>, es) : es \in {x \in one \cup two : UniqueOK(sn, x)}}
Trees(S, wide) == {N("root", << >>, ks) : ks \in KidSeqs(Schema(S).kids, 1, wide)}
\* the trees of a schema in which every menu item is present (used for mutants)
ItemCount(t) == LET cs == {i \in 1..Len(t.kids) : t.kids[i].n = "c"} IN
                (IF cs = {} THEN 0 ELSE Len(t.kids[MinOf(cs)].kids)) + (Len(t.kids) - Cardinality(cs))
FullTrees(S) == {t \in Trees(S, FALSE) : ItemCount(t) = Cardinality(S)}

\* ------------------------------------------------------- sized collections
\* Size is an input: lists and leaf-lists (both orderings, top level and nested in a list entry) with n
\* entries for every n of a set of sizes, inside the full tree of the schema (every other node present
\* once), the children of every node in one of several arrangements (the children of a container / list
\* entry are a set, RFC 6020 7.5.7 / 7.8.5: any order is a valid tree and a valid document).  Entry keys
\* and values are numbered by a fixed injective sequence that is neither ascending nor descending, as
\* numbers or as text, so that "the order the user gave" is no order a program would produce by itself.
Scr(i) == (i * 37) % 101            \* 1..100 -> 1..100, injective (101 is prime)
MaxSize == 100
NthVal(ty, i) ==
  LET s == ToString(Scr(i)) IN
  CASE ty.b = "int8" -> IF Scr(i) >= 50 THEN ToString(Scr(i) - 50) ELSE "-" \o ToString(50 - Scr(i))
    [] ty.b \in Wide -> s \o "000000000000000"                     \* beyond 2^53
    [] ty.b \in IntTypes -> s
    [] ty.b = "decimal64" -> IF ty.fd >= 4 THEN "1." \o s \o "5" ELSE s \o ".5"
    [] ty.b = "string" -> IF ty.pat = "digits" THEN s ELSE "e" \o s
\* n values of a type (fewer when the value space is smaller)
SmallSpace(ty) == ty.b \in {"boolean", "enumeration", "identityref", "empty"}
SizedVals(ty, mod, n) ==
  IF SmallSpace(ty) THEN LET pool == IF ty.b = "empty" THEN <<"">> ELSE ValsOf(ty, mod, FALSE) IN SubSeq(pool, 1, IF n < Len(pool) THEN n ELSE Len(pool))
  ELSE Mat([i \in 1..n |-> NthVal(ty, i)])
\* arrangements of a sequence of siblings: 1 as written in the schema, 2 reversed, 3 rotated by half,
\* 4 a seeded random permutation (generator only)
RECURSIVE RandPerm(_)
RandPerm(s) == IF Len(s) <= 1 THEN s ELSE LET i == RandomElement(1..Len(s)) IN <<s[i]>> \o RandPerm(RemoveAt(s, i))
Arrange(s, arr) ==
  CASE arr = 1 -> s
    [] arr = 2 -> Mat([i \in 1..Len(s) |-> s[Len(s) + 1 - i]])
    [] arr = 3 -> LET h == Len(s) \div 2 IN SubSeq(s, h + 1, Len(s)) \o SubSeq(s, 1, h)
    [] OTHER -> RandPerm(s)
\* the node of sn with n entries in every collection; idx numbers the leaf values of the enclosing entry.
\* List entries: every entry has its key; leaves besides the key are present in every other entry (in every
\* entry when the list has a unique constraint, with distinct values); nested collections and containers in
\* the first entry only.
RECURSIVE SizedNode(_, _, _, _), SizedKids(_, _, _, _, _)
SizedKids(kids, n, idx, arr, i) ==
  IF i > Len(kids) THEN << >> ELSE <<SizedNode(kids[i], n, idx, arr)>> \o SizedKids(kids, n, idx, arr, i + 1)
SizedNode(sn, n, idx, arr) ==
  CASE sn.k = "leaf" -> IF sn.ty.b = "empty" THEN N(sn.n, IF idx % 4 = 1 THEN << >> ELSE <<"">>, << >>)
                        ELSE IF SmallSpace(sn.ty) THEN LET pool == ValsOf(sn.ty, sn.mod, FALSE) IN N(sn.n, <<pool[((idx - 1) % Len(pool)) + 1]>>, << >>)
                        ELSE N(sn.n, <<NthVal(sn.ty, idx)>>, << >>)
    [] sn.k = "ll" -> N(sn.n, SizedVals(sn.ty, sn.mod, n), << >>)
    [] sn.k = "cont" -> N(sn.n, << >>, Arrange(SizedKids(sn.kids, n, idx, arr, 1), arr))
    [] sn.k = "list" ->
         LET keyleaf == Child(sn, sn.key)
             keys == SizedVals(keyleaf.ty, keyleaf.mod, n)
             leaves == SelectSeq(sn.kids, LAMBDA x : x.n # sn.key /\ x.k = "leaf")
             nested == SelectSeq(sn.kids, LAMBDA x : x.n # sn.key /\ x.k # "leaf")
             entry(i) == N(keys[i], << >>,
                           Arrange(<<N(sn.key, <<keys[i]>>, << >>)>>
                                   \o (IF i % 2 = 1 \/ sn.uniq # "" THEN SizedKids(leaves, n, i, arr, 1) ELSE << >>)
                                   \o (IF i = 1 THEN SizedKids(nested, n, i, arr, 1) ELSE << >>), arr))
         IN N(sn.n, << >>, Mat([i \in 1..Len(keys) |-> entry(i)]))
SizedTree(S, n, arr) ==
  LET sn == Schema(S)
      top == Mat([i \in 1..Len(sn.kids) |-> SizedNode(sn.kids[i], n, 1, arr)])
      \* a container without children carries no data (pc is a presence container: kept)
      kept == SelectSeq(top, LAMBDA t : t.kids # << >>)
  IN N("root", << >>, Arrange(kept, arr))
SizedTrees(S, sizes, arrs) == {SizedTree(S, n, arr) : n \in sizes, arr \in arrs}

\* XML documents in which the entries of a list / the values of a leaf-list are interleaved with their
\* sibling elements (RFC 6020 7.7.7 / 7.8.5: they "MAY be interleaved with other sibling elements"): at every
\* element the children are dealt round-robin over the element names, which keeps the relative order of
\* the same-named ones
RECURSIVE Riffle(_, _), XRiffle(_)
Riffle(groups, r) ==     \* groups: sequence of sequences; r: round
  LET live == SelectSeq(groups, LAMBDA g : Len(g) >= r) IN
  IF live = << >> THEN << >> ELSE Mat([i \in 1..Len(live) |-> live[i][r]]) \o Riffle(live, r + 1)
XRiffle(e) ==
  LET ks == Mat([i \in 1..Len(e.kids) |-> XRiffle(e.kids[i])])
      names == FirstNames(ks, 1, << >>)
  IN [e EXCEPT !.kids = Riffle(Mat([i \in 1..Len(names) |-> SelectSeq(ks, LAMBDA x : x.n = names[i])]), 1)]

\* ------------------------------------------------------------------ mutants
\* single-point mutants of a JSON document: a value replaced by a value of another JSON type or
\* class (a fraction for an integer, out of range, a string, a boolean, null, an empty array or
\* object), a member removed (a missing key among them), duplicated with another value, an
\* unknown member added, an array element removed or repeated
\* value spellings from the JSON grammar (RFC 8259 sections 3, 6, 7), whatever the encoders emit: numbers with
\* fraction / exponent / sign / -0 / huge exponent that denote whole numbers or not, spellings that are no JSON
\* numbers (leading zero, plus sign, bare point, empty exponent, hexadecimal), numbers and number-like strings
\* where the mapping wants the other, true / false / null / [null] / arrays / objects in scalar position
AltScalars == {JNum("1.7"), JNum("5"), JNum("-1"), JNum("300"), JNum("18446744073709551616"), JNum("0.5"),
               JNum("1e2"), JNum("100.0"), JNum("2.5e1"), JNum("-1E+3"), JNum("10e-1"), JNum("1.0000000000000000001"),
               JNum("5.0"), JNum("-0"), JNum("0.0"), JNum("-0.0"), JNum("0e0"), JNum("1E0"), JNum("5e-1"), JNum("1e400"), JNum("12e0"),
               JNum("007"), JNum("+5"), JNum(".5"), JNum("5."), JNum("1e"), JNum("0x10"), JNum("-"),
               JStr("x"), JStr("5"), JStr("1.7"), JStr("1e2"), JStr("100.0"), JStr("+5"), JStr("007"), JStr("-0"),
               JStr("1.50"), JStr("2"), JStr("true"), JStr("TRUE"),
               JStr("zz:loc-id"), JStr("a:loc-id"), JStr("b:for-id"), JStr("loc-id"), JStr("for-id"), JTrue, JFalse, JNull, JArr(<< >>, TRUE), JObj(<< >>),
               JArr(<<JNum("5")>>, TRUE), JArr(<<JNull>>, TRUE), JStr("")}
RECURSIVE DocMut(_)
DocMut(v) ==
  CASE v.t = "obj" ->
         UNION {{JObj([v.m EXCEPT ![i] = Mem(v.m[i].k, x)]) : x \in DocMut(v.m[i].v)} : i \in 1..Len(v.m)}
         \cup {JObj(RemoveAt(v.m, i)) : i \in 1..Len(v.m)}
         \cup UNION {{JObj(InsertAfter(v.m, i, Mem(v.m[i].k, x))) : x \in {JNum("5"), JStr("x"), v.m[i].v}} : i \in {j \in 1..Len(v.m) : JScalar(v.m[j].v)}}
         \cup {JObj(Append(v.m, Mem("zz", JNum("1")))), JObj(<<Mem("zz", JObj(<< >>))>> \o v.m)}
    [] v.t = "arr" ->
         UNION {{JArr([v.a EXCEPT ![i] = x], v.ord) : x \in DocMut(v.a[i])} : i \in 1..Len(v.a)}
         \cup {JArr(RemoveAt(v.a, i), v.ord) : i \in 1..Len(v.a)}
         \cup {JArr(InsertAfter(v.a, i, v.a[i]), v.ord) : i \in 1..Len(v.a)}
         \cup {JNum("5"), JObj(<< >>)}
    [] OTHER -> AltScalars \ {v}
\* token-level: one structural token dropped (always ill-formed), or doubled
TokDrops(ts) == {RemoveAt(ts, i) : i \in {j \in 1..Len(ts) : ts[j].c \in {"{", "}", "[", "]", ":", ","}}}
                \cup {InsertAfter(ts, i, ts[i]) : i \in {j \in 1..Len(ts) : ts[j].c \in {"{", "}", ","}}}
JMutants(doc) == {JToks(d) : d \in DocMut(doc)} \cup TokDrops(JToks(doc))

\* the same for XML: text replaced, an element removed / repeated / repeated with another text,
\* an unknown element added, a tag dropped, an end tag renamed
AltTexts == {"1.7", "5", "-1", "300", "x", "", "true", "zz:loc-id", "18446744073709551616", "1e2", "100.0",
             "a:loc-id", "b:for-id", "loc-id", "for-id", "+5", "007", "1.50", "2", "TRUE", "false"}
RECURSIVE ElMut(_)
ElMut(e) ==
  (IF e.kids = << >> THEN {[e EXCEPT !.text = x, !.q = NoQ] : x \in AltTexts \ {e.text}}
                          \cup {[e EXCEPT !.kids = <<XEl("x", e.ns, "5", NoQ, << >>, FALSE)>>]}
   ELSE {[e EXCEPT !.text = "x"]})
  \cup UNION {{[e EXCEPT !.kids[i] = x] : x \in ElMut(e.kids[i])} : i \in 1..Len(e.kids)}
  \cup {[e EXCEPT !.kids = RemoveAt(e.kids, i)] : i \in 1..Len(e.kids)}
  \cup {[e EXCEPT !.kids = InsertAfter(e.kids, i, e.kids[i])] : i \in 1..Len(e.kids)}
  \cup {[e EXCEPT !.kids = InsertAfter(e.kids, i, [e.kids[i] EXCEPT !.text = "5", !.q = NoQ])] : i \in {j \in 1..Len(e.kids) : e.kids[j].kids = << >>}}
  \cup {[e EXCEPT !.kids = Append(e.kids, XEl("zz", e.ns, "1", NoQ, << >>, FALSE))]}
XTokDrops(ts) == {RemoveAt(ts, i) : i \in {j \in 1..Len(ts) : ts[j].c \in {"start", "end"}}}
                 \cup {[ts EXCEPT ![i] = XEnd("zz")] : i \in {j \in 1..Len(ts) : ts[j].c = "end"}}
XMutants(el) == {XToks(d) : d \in ElMut(el)} \cup XTokDrops(XToks(el))

\* XML documents from the document grammar rather than from the encoders' output: at every leaf element
\* of a document, element text x namespace declarations on the element and on its parent (XML Namespaces:
\* prefix = text before the first colon, innermost declaration in scope): text equal to a declared prefix,
\* prefix with empty local part, empty prefix, two colons, declared / undeclared / shadowed / foreign
\* prefixes in front of names that are and are not identities, several declarations, and the element
\* itself in the inherited or in another default namespace
Decl(p, uri) == [p |-> p, uri |-> uri]
NsDecls == { [own |-> << >>, anc |-> << >>],
             [own |-> <<Decl("p", "urn:b")>>, anc |-> << >>],
             [own |-> <<Decl("p", "urn:a")>>, anc |-> << >>],
             [own |-> << >>, anc |-> <<Decl("p", "urn:b")>>],
             [own |-> <<Decl("p", "urn:b")>>, anc |-> <<Decl("p", "urn:a")>>],
             [own |-> <<Decl("p", "urn:zz")>>, anc |-> <<Decl("p", "urn:b")>>],
             [own |-> <<Decl("q", "urn:a"), Decl("p", "urn:b")>>, anc |-> << >>],
             [own |-> <<Decl("b", "urn:a")>>, anc |-> << >>] }
NsTexts == {"p", "p:", ":x", ":", "p:q:r", "p:for-id", "p:loc-id", "p:base-id", "u:for-id", "for-id", "loc-id",
            "b:for-id", "a:loc-id", "q", "q:loc-id", "p:5", "5", "b"}
RECURSIVE XNsMut(_)
XNsMut(e) ==
  UNION { IF e.kids[i].kids = << >>
          THEN {[e EXCEPT !.decl = d.anc, !.kids[i] = [e.kids[i] EXCEPT !.text = t, !.q = NoQ, !.decl = d.own]]
                  : d \in NsDecls, t \in NsTexts}
               \cup {[e EXCEPT !.kids[i] = [e.kids[i] EXCEPT !.text = t, !.q = NoQ, !.decl = d, !.ns = ns]]
                       : d \in {<< >>, <<Decl("p", "urn:b")>>}, t \in {"loc-id", "p:for-id", "5", "x"}, ns \in {"", "urn:b", "urn:zz"}}
          ELSE {[e EXCEPT !.kids[i] = x] : x \in XNsMut(e.kids[i])}
          : i \in 1..Len(e.kids) }
XNsMutants(el) == {XToks(d) : d \in XNsMut(el)}
\* the full tree of a schema with the longest XML encoding
BigTree(S) == CHOOSE t \in FullTrees(S) : \A u \in FullTrees(S) : Len(XToks(EncX(Schema(S), u))) <= Len(XToks(EncX(Schema(S), t)))

\* ------------------------------------------------ alphabets for the totality runs
\* schema of the totality runs
FuzzItems == {1, 6, 7, 8, 10, 12, 13, 16, 20}
JAlphabet == <<Tk("{", ""), Tk("}", ""), Tk("[", ""), Tk("]", ""), Tk(":", ""), Tk(",", ""),
               Tk("str", "a:c"), Tk("str", "i8"), Tk("str", "s"), Tk("str", "lu"), Tk("str", "k"), Tk("str", "e"),
               Tk("str", "x"), Tk("num", "5"), Tk("num", "1.7"), Tk("num", "1e2"), Tk("null", ""), Tk("true", ""), Tk("raw", "x")>>
\* contexts: (prefix, suffix) token sequences around the enumerated class string
JContexts == << [pre |-> << >>, suf |-> << >>],
                [pre |-> <<Tk("{", ""), Tk("str", "a:c"), Tk(":", ""), Tk("{", "")>>, suf |-> <<Tk("}", ""), Tk("}", "")>>],
                [pre |-> <<Tk("{", ""), Tk("str", "a:c"), Tk(":", ""), Tk("{", ""), Tk("str", "lu"), Tk(":", ""), Tk("[", ""), Tk("{", "")>>,
                 suf |-> <<Tk("}", ""), Tk("]", ""), Tk("}", ""), Tk("}", "")>>] >>
XAlphabet == <<XStart("c", "urn:a", << >>), XEnd("c"), XStart("i8", "urn:a", << >>), XEnd("i8"), XStart("s", "urn:a", << >>), XEnd("s"),
               XStart("lu", "urn:a", << >>), XEnd("lu"), XStart("k", "urn:a", << >>), XEnd("k"), XStart("e", "urn:a", << >>), XEnd("e"),
               XStart("id", "urn:a", <<[p |-> "q", uri |-> "urn:b"]>>), XEnd("id"),
               XText("5"), XText("1.7"), XText("x"), XText("q:for-id"), XText("q"), XRaw("{3C}")>>
XContexts == << [pre |-> << >>, suf |-> << >>],
                [pre |-> <<XStart("root", "", << >>), XStart("c", "urn:a", << >>)>>, suf |-> <<XEnd("c"), XEnd("root")>>],
                [pre |-> <<XStart("root", "", << >>), XStart("c", "urn:a", << >>), XStart("lu", "urn:a", << >>)>>,
                 suf |-> <<XEnd("lu"), XEnd("c"), XEnd("root")>>] >>
=============================================================================
