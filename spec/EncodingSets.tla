---------------------------- MODULE EncodingSets ----------------------------
(* The bounded spaces of C19: a menu of schema nodes (every built-in type the
   statement names, both list and leaf-list orderings, nesting, an augmenting
   module with a foreign identity), the schemas built from subsets of the menu
   (rendered to YANG text), all valid data trees of a schema over the value
   classes, the single-point mutants of an encoding, and the token alphabets
   for the decoders' totality runs.                                          *)
EXTENDS Encoding

\* ---------------------------------------------------------------- the menu
\* every item is a child of container a:c, except where noted
EnumT == TyEnum(<<"one", "two">>)
\* unions without and with an identityref member, and one whose identityref sits in a nested union
UnNoId == TyUnion(<<Ty("uint8"), EnumT>>)
UnId == TyUnion(<<TyIdref("a:base-id"), Ty("uint8")>>)
UnNest == TyUnion(<<TyUnion(<<TyIdref("a:base-id"), EnumT>>), Ty("uint8")>>)
Menu == <<
  Leaf("i8", "a", Ty("int8")),                                                        \* 1
  Leaf("i32", "a", Ty("int32")),                                                      \* 2
  Leaf("i64", "a", Ty("int64")),                                                      \* 3
  Leaf("u8", "a", Ty("uint8")),                                                       \* 4
  Leaf("u32", "a", Ty("uint32")),                                                     \* 5
  Leaf("u64", "a", Ty("uint64")),                                                     \* 6
  Leaf("d3", "a", TyDec(3)),                                                          \* 7
  Leaf("s", "a", Ty("string")),                                                       \* 8
  Leaf("bo", "a", Ty("boolean")),                                                     \* 9
  Leaf("e", "a", Ty("empty")),                                                        \* 10
  Leaf("en", "a", EnumT),                                                             \* 11
  Leaf("id", "a", TyIdref("a:base-id")),                                              \* 12
  LeafList("llu", "a", Ty("string"), TRUE),                                           \* 13
  LeafList("lls", "a", Ty("int32"), FALSE),                                           \* 14
  LeafList("ll64", "a", Ty("uint64"), TRUE),                                          \* 15
  List("lu", "a", "k", TRUE, <<Leaf("k", "a", Ty("string")), Leaf("v", "a", Ty("int64")),
                               Cont("in", "a", FALSE, <<Leaf("x", "a", Ty("string"))>>)>>),       \* 16
  List("ls", "a", "k", FALSE, <<Leaf("k", "a", Ty("uint32")), Leaf("v", "a", Ty("string")),
                                LeafList("w", "a", Ty("string"), TRUE)>>),            \* 17
  Cont("pc", "a", TRUE, << >>),                                                       \* 18
  Cont("np", "a", FALSE, <<Leaf("y", "a", Ty("string")), Leaf("z", "a", Ty("int8"))>>),          \* 19
  Leaf("baug", "b", Ty("string")),                                                    \* 20  augment from module b
  Cont("bc", "b", FALSE, <<Leaf("bl", "b", Ty("string")), Leaf("bid", "b", TyIdref("a:base-id"))>>), \* 21 augment from b
  Cont("d", "b", FALSE, <<Leaf("dl", "b", Ty("uint64"))>>),                           \* 22  top level of module b
  List("lo", "a", "k", FALSE, <<Leaf("k", "a", Ty("string")),
        List("li", "a", "j", TRUE, <<Leaf("j", "a", Ty("int8")), Leaf("e2", "a", Ty("empty"))>>)>>),   \* 23
  Leaf("d18", "a", TyDec(18)),                                                        \* 24
  LeafList("lid", "a", TyIdref("a:base-id"), TRUE),                                   \* 25
  Leaf("sp", "a", TyDigits),                                                          \* 26  string with pattern [0-9]+
  \* list keys of the types that have alternative lexical forms
  List("lk", "a", "k", FALSE, <<Leaf("k", "a", TyIdref("a:base-id")), Leaf("v", "a", Ty("string"))>>),   \* 27
  List("bk", "b", "k", TRUE, <<Leaf("k", "b", TyIdref("a:base-id")), Leaf("v", "b", Ty("int8"))>>),      \* 28  augment from b
  List("ld", "a", "k", FALSE, <<Leaf("k", "a", TyDec(3)), Leaf("t", "a", Ty("boolean"))>>),             \* 29
  List("lt", "a", "k", TRUE, <<Leaf("k", "a", Ty("boolean"))>>),                                        \* 30
  \* a constraint over the default-decorated tree: unique over a leaf with a default
  ListU("lq", "a", "k", FALSE, "port", <<Leaf("k", "a", Ty("string")), LeafD("port", "a", Ty("int8"), "5")>>),  \* 31
  \* every type that has a lexical space of its own as a leaf, a leaf-list entry and a list key: uint8, boolean,
  \* enumeration, pattern string, identityref (above) and unions without / with an identityref member
  Leaf("un", "a", UnNoId),                                                                              \* 32
  Leaf("ui", "a", UnId),                                                                                \* 33
  List("ke", "a", "k", FALSE, <<Leaf("k", "a", EnumT), LeafList("w", "a", Ty("uint8"), TRUE)>>),        \* 34
  List("kp", "a", "k", TRUE, <<Leaf("k", "a", TyDigits), LeafList("w", "a", Ty("boolean"), FALSE)>>),   \* 35
  List("k8", "a", "k", FALSE, <<Leaf("k", "a", Ty("uint8")), LeafList("w", "a", EnumT, TRUE)>>),        \* 36
  List("kun", "a", "k", TRUE, <<Leaf("k", "a", UnNoId), LeafList("w", "a", TyDigits, FALSE)>>),         \* 37
  List("kui", "b", "k", FALSE, <<Leaf("k", "b", UnNest), LeafList("w", "b", UnId, TRUE)>>),             \* 38  augment from b
  LeafList("llun", "a", UnNoId, TRUE),                                                                  \* 39
  \* members of the cases of a choice (RFC 6020 7.9): in the data tree they are children of a:c
  InCase(Leaf("cl", "a", Ty("uint8")), "ch:ca"),                                                        \* 40
  InCase(Leaf("ce", "a", Ty("empty")), "ch:ca"),                                                        \* 41
  InCase(Cont("cc", "a", FALSE, <<Leaf("cx", "a", Ty("string"))>>), "ch:cb"),                           \* 42
  InCase(List("cli", "a", "k", TRUE, <<Leaf("k", "a", Ty("string")), LeafList("cw", "a", Ty("int8"), FALSE)>>), "ch:cb"),   \* 43
  InCase(LeafList("cll", "a", Ty("uint8"), FALSE), "ch:cll")                                             \* 44  shorthand case
>>
ChoiceNames == <<"ch">>
CaseTags == <<"ch:ca", "ch:cb", "ch:cll">>
\* the collections of the items up to SizedFullMax get every size of Sizes, the later ones (the same node kinds
\* with other key / entry types) the sizes of SizesMany
SizedFullMax == 31
NMenu == Len(Menu)
TopB == {22}
RECURSIVE PickSeq(_, _, _)
PickSeq(S, i, only) == IF i > NMenu THEN << >>
                       ELSE (IF i \in S /\ ((i \in TopB) = only) THEN <<Menu[i]>> ELSE << >>) \o PickSeq(S, i + 1, only)
\* the schema with the menu items S
Schema(S) == Root(<<Cont("c", "a", FALSE, PickSeq(S, 1, FALSE))>> \o PickSeq(S, 1, TRUE))

\* --------------------------------------------------------------- YANG text
RECURSIVE RType(_, _), RTypes(_, _, _)
RTypes(mems, mod, i) == IF i > Len(mems) THEN "" ELSE RType(mems[i], mod) \o RTypes(mems, mod, i + 1)
RType(ty, mod) ==
  CASE ty.b = "decimal64" -> "type decimal64 { fraction-digits " \o ToString(ty.fd) \o "; } "
    [] ty.b = "enumeration" -> "type enumeration { enum one; enum two; } "
    [] ty.b = "string" /\ ty.pat = "digits" -> "type string { pattern \"[0-9]+\"; } "
    [] ty.b = "identityref" -> "type identityref { base " \o (IF mod = "a" THEN "base-id" ELSE "a:base-id") \o "; } "
    [] ty.b = "union" -> "type union { " \o RTypes(ty.mem, mod, 1) \o "} "
    [] OTHER -> "type " \o ty.b \o "; "
RECURSIVE RNode(_), RNodes(_, _), RChoices(_, _), RCases(_, _), RSeq(_, _)
RNode(sn) ==
  CASE sn.k = "leaf" -> "leaf " \o sn.n \o " { " \o RType(sn.ty, sn.mod) \o (IF sn.dflt # "" THEN "default " \o sn.dflt \o "; " ELSE "") \o "} "
    [] sn.k = "ll" -> "leaf-list " \o sn.n \o " { " \o RType(sn.ty, sn.mod)
                      \o (IF sn.user THEN "ordered-by user; " ELSE "") \o "} "
    [] sn.k = "cont" -> "container " \o sn.n \o " { " \o (IF sn.pres THEN "presence \"p\"; " ELSE "") \o RNodes(sn.kids, 1) \o "} "
    [] sn.k = "list" -> "list " \o sn.n \o " { key " \o sn.key \o "; " \o (IF sn.user THEN "ordered-by user; " ELSE "")
                        \o (IF sn.uniq # "" THEN "unique \"" \o sn.uniq \o "\"; " ELSE "") \o RNodes(sn.kids, 1) \o "} "
\* the nodes outside any choice, then every choice with its cases (a case named like its only node is written in
\* the shorthand form, RFC 6020 7.9.2)
RSeq(kids, i) == IF i > Len(kids) THEN "" ELSE RNode(kids[i]) \o RSeq(kids, i + 1)
RNodes(kids, i) == IF i > Len(kids) THEN RChoices(kids, 1) ELSE (IF kids[i].cs = "" THEN RNode(kids[i]) ELSE "") \o RNodes(kids, i + 1)
RChoices(kids, c) ==
  IF c > Len(ChoiceNames) THEN ""
  ELSE LET ms == SelectSeq(kids, LAMBDA x : x.cs # "" /\ ChoiceOf(x.cs) = ChoiceNames[c]) IN
       (IF ms = << >> THEN "" ELSE "choice " \o ChoiceNames[c] \o " { " \o RCases(ms, 1) \o "} ") \o RChoices(kids, c + 1)
RCases(ms, j) ==
  IF j > Len(CaseTags) THEN ""
  ELSE LET cm == SelectSeq(ms, LAMBDA x : x.cs = CaseTags[j]) IN
       (IF cm = << >> THEN ""
        ELSE IF Len(cm) = 1 /\ cm[1].n = CaseOf(CaseTags[j]) THEN RNode(cm[1])
        ELSE "case " \o CaseOf(CaseTags[j]) \o " { " \o RSeq(cm, 1) \o "} ") \o RCases(ms, j + 1)
OfMod(kids, mod) == SelectSeq(kids, LAMBDA x : x.mod = mod)
YangA(S) == "module a { namespace \"urn:a\"; prefix a; identity base-id; identity loc-id { base base-id; } "
            \o "container c { " \o RNodes(OfMod(PickSeq(S, 1, FALSE), "a"), 1) \o "} }"
YangB(S) == "module b { namespace \"urn:b\"; prefix b; import a { prefix a; } identity for-id { base a:base-id; } "
            \o (IF OfMod(PickSeq(S, 1, FALSE), "b") # << >>
                THEN "augment /a:c { " \o RNodes(OfMod(PickSeq(S, 1, FALSE), "b"), 1) \o "} " ELSE "")
            \o RNodes(PickSeq(S, 1, TRUE), 1) \o "}"

\* ------------------------------------------------------------ value classes
\* wide = TRUE: every class of the statement; FALSE: two per type (used in combinations)
\* strings needing escaping (RFC 6020 9.4: a string is any sequence of XML 1.0 characters, i.e. TAB, LF, CR and
\* everything from U+0020 on): the three legal C0 controls, DEL, a C1 control, the characters JSON / XML / HTML-safe
\* writers treat specially (quote, backslash, slash, < > & '), BMP characters that are legal but not "printable"
\* (zero-width space, line separator, U+FFFD), a lone combining mark, an astral printable and an astral
\* non-printable (tag) character.  How a writer escapes them is its business; the document must parse and give
\* back the same string.
StrVals(wide) == IF wide THEN <<"x", "", "a b", "{22}q{5C}", "{3C}{26}{3E}{27}", "l{A}b", "t{9}", "{E9}{20AC}", "{1F600}",
                                "true", "12", " lead", "null", "a:b", "]]{3E}", "c{D}r",
                                "d{7F}l", "n{85}{9F}", "s/l{5C}/", "{E0001}g", "{301}", "z{200B}{2028}w", "{FFFD}">>
                 ELSE <<"x", "{22}{3C}{26}{E9}{7F}">>
RECURSIVE ValsOf(_, _, _), FlatVals(_, _, _)
FlatVals(mems, mod, i) == IF i > Len(mems) THEN << >> ELSE ValsOf(mems[i], mod, TRUE) \o FlatVals(mems, mod, i + 1)
ValsOf(ty, mod, wide) ==
  LET b == ty.b IN
  CASE b = "int8" -> IF wide THEN <<"-128", "127", "0", "5">> ELSE <<"-128", "5">>
    [] b = "int32" -> IF wide THEN <<"-2147483648", "2147483647", "7">> ELSE <<"-2147483648", "7">>
    [] b = "int64" -> IF wide THEN <<"-9223372036854775808", "9223372036854775807", "9007199254740993", "-1">>
                      ELSE <<"-9223372036854775808", "9007199254740993">>
    [] b = "uint8" -> <<"0", "255">>
    [] b = "uint32" -> IF wide THEN <<"4294967295", "0", "16777217">> ELSE <<"4294967295", "3">>
    [] b = "uint64" -> IF wide THEN <<"18446744073709551615", "9007199254740993", "0", "9223372036854775808">>
                       ELSE <<"18446744073709551615", "9007199254740993">>
    [] b = "decimal64" /\ ty.fd = 3 -> IF wide THEN <<"1.5", "-0.001", "9223372036854775.807", "-9223372036854775.808", "2.0">>
                                       ELSE <<"-0.001", "9223372036854775.807">>
    [] b = "decimal64" -> IF wide THEN <<"-9.223372036854775808", "9.223372036854775807", "0.000000000000000001", "1.5">>
                          ELSE <<"-9.223372036854775808", "1.5">>
    [] b = "string" -> IF ty.pat = "digits" THEN <<"12", "007">> ELSE StrVals(wide)
    [] b = "boolean" -> <<"true", "false">>
    [] b = "enumeration" -> ty.en
    [] b = "identityref" -> IF mod = "a" THEN <<"loc-id", "b:for-id">> ELSE <<"for-id", "a:loc-id">>
    \* union: the values of every member; two classes: a value of the first and one of the last member
    [] b = "union" -> IF wide THEN FlatVals(ty.mem, mod, 1)
                      ELSE <<ValsOf(ty.mem[1], mod, FALSE)[1], ValsOf(ty.mem[Len(ty.mem)], mod, FALSE)[2]>>
KeyVals(ty, mod) == CASE ty.b = "string" /\ ty.pat = "digits" -> <<"12", "007">>
                      [] ty.b = "uint8" -> <<"7", "255">>
                      [] ty.b = "enumeration" -> ty.en
                      [] ty.b = "union" -> LET w == ValsOf(ty, mod, TRUE) IN <<w[1], w[Len(w)], w[2]>>
                      [] ty.b = "string" /\ ty.pat # "digits" -> <<"kb", "ka", "k {22}{7F}c">>
                      [] ty.b = "int8" -> <<"-3", "2">>
                      [] ty.b = "identityref" -> IF mod = "a" THEN <<"loc-id", "b:for-id">> ELSE <<"for-id", "a:loc-id">>
                      [] ty.b = "decimal64" -> <<"1.5", "-0.001", "2.0">>
                      [] ty.b = "boolean" -> <<"true", "false">>
                      [] OTHER -> <<"7", "4294967295">>

\* ----------------------------------------------------------- trees of a schema
\* sequences of length 1..2 over a pool (user-ordered: both orders; else one order per pair)
Seqs12(pool, user) ==
  {<<pool[i]>> : i \in 1..Len(pool)}
  \cup {<<pool[p[1]], pool[p[2]]>> : p \in {q \in (1..Len(pool)) \X (1..Len(pool)) : IF user THEN q[1] # q[2] ELSE q[1] < q[2]}}
Seqs3(pool) == IF Len(pool) >= 3 THEN {<<pool[3], pool[1], pool[2]>>} ELSE {}
RECURSIVE TreesOf(_, _), KidSeqs(_, _, _)
\* all sequences of present children (in schema order) of the kids from index i on
KidSeqs(kids, i, wide) ==
  IF i > Len(kids) THEN {<< >>}
  ELSE LET rest == KidSeqs(kids, i + 1, wide) IN
       rest \cup {<<t>> \o r : t \in TreesOf(kids[i], wide), r \in rest}
TreesOf(sn, wide) ==
  CASE sn.k = "leaf" ->
         IF sn.ty.b = "empty" THEN {N(sn.n, << >>, << >>), N(sn.n, <<"">>, << >>)}
         ELSE {N(sn.n, <<ValsOf(sn.ty, sn.mod, wide)[i]>>, << >>) : i \in 1..Len(ValsOf(sn.ty, sn.mod, wide))}
    [] sn.k = "ll" -> {N(sn.n, vs, << >>) : vs \in Seqs12(ValsOf(sn.ty, sn.mod, wide), sn.user)
                                                   \cup (IF wide THEN Seqs3(ValsOf(sn.ty, sn.mod, wide)) ELSE {})}
    [] sn.k = "cont" -> {N(sn.n, << >>, ks) : ks \in {x \in (IF sn.pres THEN KidSeqs(sn.kids, 1, wide) ELSE KidSeqs(sn.kids, 1, wide) \ {<< >>}) : CasesOK(sn, x)}}
    [] sn.k = "list" ->
         LET keyleaf == Child(sn, sn.key)
             others == SelectSeq(sn.kids, LAMBDA x : x.n # sn.key)
             all == KidSeqs(others, 1, FALSE)
             full == {x \in all : \A y \in all : Len(y) <= Len(x)}
             some == {<< >>} \cup {CHOOSE x \in full : TRUE}
             rests == IF wide \/ sn.uniq # "" THEN all ELSE some
             firsts == IF sn.uniq # "" THEN all ELSE some
             entry(kv, r) == N(kv, << >>, <<N(sn.key, <<kv>>, << >>)>> \o r)
             pool == IF wide THEN KeyVals(keyleaf.ty, keyleaf.mod) ELSE SubSeq(KeyVals(keyleaf.ty, keyleaf.mod), 1, 2)
             one == {<<entry(pool[i], r)>> : i \in 1..Len(pool), r \in rests}
             \* two entries: both orders if user-ordered; the first is the bare key or a full entry
             two == {<<entry(pool[p[1]], r1), entry(pool[p[2]], r2)>> :
                       p \in {q \in (1..Len(pool)) \X (1..Len(pool)) : IF sn.user THEN q[1] # q[2] ELSE q[1] < q[2]},
                       r1 \in firsts, r2 \in rests}
         IN {N(sn.n, << >>, es) : es \in {x \in one \cup two : UniqueOK(sn, x)}}
Trees(S, wide) == {N("root", << >>, ks) : ks \in KidSeqs(Schema(S).kids, 1, wide)}
\* the trees of a schema in which every menu item is present (used for mutants)
ItemCount(t) == LET cs == {i \in 1..Len(t.kids) : t.kids[i].n = "c"} IN
                (IF cs = {} THEN 0 ELSE Len(t.kids[MinOf(cs)].kids)) + (Len(t.kids) - Cardinality(cs))
FullTrees(S) == {t \in Trees(S, FALSE) : ItemCount(t) = Cardinality(S)}

\* ------------------------------------------------------- sized collections
\* Size is an input: lists and leaf-lists (both orderings, top level and nested in a list entry) with n
\* entries for every n of a set of sizes, inside the full tree of the schema (every other node present
\* once), the children of every node in one of several arrangements (the children of a container / list
\* entry are a set, RFC 6020 7.5.7 / 7.8.5: any order is a valid tree and a valid document).  Entry keys
\* and values are numbered by a fixed injective sequence that is neither ascending nor descending, as
\* numbers or as text, so that "the order the user gave" is no order a program would produce by itself.
Scr(i) == (i * 37) % 101            \* 1..100 -> 1..100, injective (101 is prime)
MaxSize == 100
RECURSIVE SmallSpace(_), NthVal(_, _)
SmallSpace(ty) == IF ty.b = "union" THEN \A i \in 1..Len(ty.mem) : SmallSpace(ty.mem[i])
                  ELSE ty.b \in {"boolean", "enumeration", "identityref", "empty"}
NthVal(ty, i) ==
  LET s == ToString(Scr(i)) IN
  CASE ty.b = "int8" -> IF Scr(i) >= 50 THEN ToString(Scr(i) - 50) ELSE "-" \o ToString(50 - Scr(i))
    [] ty.b \in Wide -> s \o "000000000000000"                     \* beyond 2^53
    [] ty.b \in IntTypes -> s
    [] ty.b = "decimal64" -> IF ty.fd >= 4 THEN "1." \o s \o "5" ELSE s \o ".5"
    [] ty.b = "string" -> IF ty.pat = "digits" THEN s ELSE "e" \o s
    [] ty.b = "union" -> NthVal(ty.mem[MinOf({j \in 1..Len(ty.mem) : ~SmallSpace(ty.mem[j])})], i)
\* n values of a type (fewer when the value space is smaller)
SizedVals(ty, mod, n) ==
  IF SmallSpace(ty) THEN LET pool == IF ty.b = "empty" THEN <<"">> ELSE ValsOf(ty, mod, FALSE) IN SubSeq(pool, 1, IF n < Len(pool) THEN n ELSE Len(pool))
  ELSE Mat([i \in 1..n |-> NthVal(ty, i)])
\* arrangements of a sequence of siblings: 1 as written in the schema, 2 reversed, 3 rotated by half,
\* 4 a seeded random permutation (generator only)
RECURSIVE RandPerm(_)
RandPerm(s) == IF Len(s) <= 1 THEN s ELSE LET i == RandomElement(1..Len(s)) IN <<s[i]>> \o RandPerm(RemoveAt(s, i))
Arrange(s, arr) ==
  CASE arr = 1 -> s
    [] arr = 2 -> Mat([i \in 1..Len(s) |-> s[Len(s) + 1 - i]])
    [] arr = 3 -> LET h == Len(s) \div 2 IN SubSeq(s, h + 1, Len(s)) \o SubSeq(s, 1, h)
    [] OTHER -> RandPerm(s)
\* the node of sn with n entries in every collection; idx numbers the leaf values of the enclosing entry.
\* List entries: every entry has its key; leaves besides the key are present in every other entry (in every
\* entry when the list has a unique constraint, with distinct values); nested collections and containers in
\* the first entry only.
\* of the nodes of several cases of a choice those of the first case met are kept
RECURSIVE KeepCase(_, _, _)
KeepCase(psn, kids, i) ==
  IF i > Len(kids) THEN << >>
  ELSE (IF \E j \in 1..(i - 1) : OtherCase(Child(psn, kids[j].n).cs, Child(psn, kids[i].n).cs) THEN << >> ELSE <<kids[i]>>)
       \o KeepCase(psn, kids, i + 1)
RECURSIVE SizedNode(_, _, _, _), SizedKids(_, _, _, _, _)
SizedKids(kids, n, idx, arr, i) ==
  IF i > Len(kids) THEN << >> ELSE <<SizedNode(kids[i], n, idx, arr)>> \o SizedKids(kids, n, idx, arr, i + 1)
SizedNode(sn, n, idx, arr) ==
  CASE sn.k = "leaf" -> IF sn.ty.b = "empty" THEN N(sn.n, IF idx % 4 = 1 THEN << >> ELSE <<"">>, << >>)
                        ELSE IF SmallSpace(sn.ty) THEN LET pool == ValsOf(sn.ty, sn.mod, FALSE) IN N(sn.n, <<pool[((idx - 1) % Len(pool)) + 1]>>, << >>)
                        ELSE N(sn.n, <<NthVal(sn.ty, idx)>>, << >>)
    [] sn.k = "ll" -> N(sn.n, SizedVals(sn.ty, sn.mod, n), << >>)
    [] sn.k = "cont" -> N(sn.n, << >>, Arrange(KeepCase(sn, SizedKids(sn.kids, n, idx, arr, 1), 1), arr))
    [] sn.k = "list" ->
         LET keyleaf == Child(sn, sn.key)
             keys == SizedVals(keyleaf.ty, keyleaf.mod, n)
             leaves == SelectSeq(sn.kids, LAMBDA x : x.n # sn.key /\ x.k = "leaf")
             nested == SelectSeq(sn.kids, LAMBDA x : x.n # sn.key /\ x.k # "leaf")
             entry(i) == N(keys[i], << >>,
                           Arrange(<<N(sn.key, <<keys[i]>>, << >>)>>
                                   \o (IF i % 2 = 1 \/ sn.uniq # "" THEN SizedKids(leaves, n, i, arr, 1) ELSE << >>)
                                   \o (IF i = 1 THEN SizedKids(nested, n, i, arr, 1) ELSE << >>), arr))
         IN N(sn.n, << >>, Mat([i \in 1..Len(keys) |-> entry(i)]))
SizedTree(S, n, arr) ==
  LET sn == Schema(S)
      top == Mat([i \in 1..Len(sn.kids) |-> SizedNode(sn.kids[i], n, 1, arr)])
      \* a container without children carries no data (pc is a presence container: kept)
      kept == SelectSeq(top, LAMBDA t : t.kids # << >>)
  IN N("root", << >>, Arrange(kept, arr))
SizedTrees(S, sizes, arrs) == {SizedTree(S, n, arr) : n \in sizes, arr \in arrs}

\* XML documents in which the entries of a list / the values of a leaf-list are interleaved with their
\* sibling elements (RFC 6020 7.7.7 / 7.8.5: they "MAY be interleaved with other sibling elements"): at every
\* element the children are dealt round-robin over the element names, which keeps the relative order of
\* the same-named ones
RECURSIVE Riffle(_, _), XRiffle(_)
Riffle(groups, r) ==     \* groups: sequence of sequences; r: round
  LET live == SelectSeq(groups, LAMBDA g : Len(g) >= r) IN
  IF live = << >> THEN << >> ELSE Mat([i \in 1..Len(live) |-> live[i][r]]) \o Riffle(live, r + 1)
XRiffle(e) ==
  LET ks == Mat([i \in 1..Len(e.kids) |-> XRiffle(e.kids[i])])
      names == FirstNames(ks, 1, << >>)
  IN [e EXCEPT !.kids = Riffle(Mat([i \in 1..Len(names) |-> SelectSeq(ks, LAMBDA x : x.n = names[i])]), 1)]

\* ------------------------------------------------------------------ mutants
\* single-point mutants of a JSON document: a value replaced by a value of another JSON type or
\* class (a fraction for an integer, out of range, a string, a boolean, null, an empty array or
\* object), a member removed (a missing key among them), duplicated with another value, an
\* unknown member added, an array element removed or repeated
\* value spellings from the JSON grammar (RFC 8259 sections 3, 6, 7), whatever the encoders emit: numbers with
\* fraction / exponent / sign / -0 / huge exponent that denote whole numbers or not, spellings that are no JSON
\* numbers (leading zero, plus sign, bare point, empty exponent, hexadecimal), numbers and number-like strings
\* where the mapping wants the other, true / false / null / [null] / arrays / objects in scalar position
AltScalars == {JNum("1.7"), JNum("5"), JNum("-1"), JNum("300"), JNum("18446744073709551616"), JNum("0.5"),
               JNum("1e2"), JNum("100.0"), JNum("2.5e1"), JNum("-1E+3"), JNum("10e-1"), JNum("1.0000000000000000001"),
               JNum("5.0"), JNum("-0"), JNum("0.0"), JNum("-0.0"), JNum("0e0"), JNum("1E0"), JNum("5e-1"), JNum("1e400"), JNum("12e0"),
               JNum("007"), JNum("+5"), JNum(".5"), JNum("5."), JNum("1e"), JNum("0x10"), JNum("-"),
               JStr("x"), JStr("5"), JStr("1.7"), JStr("1e2"), JStr("100.0"), JStr("+5"), JStr("007"), JStr("-0"),
               JStr("1.50"), JStr("2"), JStr("true"), JStr("TRUE"),
               JStr("zz:loc-id"), JStr("a:loc-id"), JStr("b:for-id"), JStr("loc-id"), JStr("for-id"), JTrue, JFalse, JNull, JArr(<< >>, TRUE), JObj(<< >>),
               JArr(<<JNum("5")>>, TRUE), JArr(<<JNull>>, TRUE), JStr("")}
\* the value at a scalar position spelled with a module name in front, "<module>:<value>": the leaf's own module,
\* the other module, no module of the schema, the own module twice.  RFC 7951 6.8 / RFC 6020 9.10.3 give such a
\* prefix a meaning for identityref values only; for every other type the text is the value as it stands
ModPrefixes == {"a", "b", "zz"}
Decorated(v) == IF v.t \in {"str", "num", "true", "false"}
                THEN {JStr(m \o ":" \o LitOf(v)) : m \in ModPrefixes} \cup {JStr(m \o ":" \o m \o ":" \o LitOf(v)) : m \in {"a", "b"}}
                ELSE {}
RECURSIVE DocMut(_)
DocMut(v) ==
  CASE v.t = "obj" ->
         UNION {{JObj([v.m EXCEPT ![i] = Mem(v.m[i].k, x)]) : x \in DocMut(v.m[i].v)} : i \in 1..Len(v.m)}
         \cup {JObj(RemoveAt(v.m, i)) : i \in 1..Len(v.m)}
         \cup UNION {{JObj(InsertAfter(v.m, i, Mem(v.m[i].k, x))) : x \in {JNum("5"), JStr("x"), v.m[i].v}} : i \in {j \in 1..Len(v.m) : JScalar(v.m[j].v)}}
         \cup {JObj(Append(v.m, Mem("zz", JNum("1")))), JObj(<<Mem("zz", JObj(<< >>))>> \o v.m)}
    [] v.t = "arr" ->
         UNION {{JArr([v.a EXCEPT ![i] = x], v.ord) : x \in DocMut(v.a[i])} : i \in 1..Len(v.a)}
         \cup {JArr(RemoveAt(v.a, i), v.ord) : i \in 1..Len(v.a)}
         \cup {JArr(InsertAfter(v.a, i, v.a[i]), v.ord) : i \in 1..Len(v.a)}
         \cup {JNum("5"), JObj(<< >>)}
    [] OTHER -> (AltScalars \cup Decorated(v)) \ {v}

\* Values of the wrong shape (RFC 7951 section 5 prescribes an object for a container and for a list entry, an
\* array for a list and for a leaf-list, a scalar for a leaf): at every position of a document - the document
\* itself, every member value, every array element, i.e. every kind of schema node the schema has, at every
\* depth it has - every kind of JSON value: the four kinds of scalars; the empty object and the empty array; an
\* object with an unknown member; an object holding what stands there under the position's own name; arrays of
\* scalars, of objects, of arrays, of null, mixing objects and scalars; what stands there inside one and two
\* arrays and in an array beside a scalar (so an array of objects where a container is expected, an array of arrays
\* where a list or leaf-list is, an array of scalars where a leaf is); its first component in its place (an entry
\* where the list is expected, a member's value where the object is).
Shapes(orig, nm) ==
  ( {JStr("x"), JNum("5"), JTrue, JNull, JObj(<< >>), JArr(<< >>, TRUE),
     JObj(<<Mem("zz", JNum("1"))>>), JObj(<<Mem(nm, orig)>>),
     JArr(<<JNum("5"), JStr("x")>>, TRUE), JArr(<<JObj(<< >>)>>, TRUE), JArr(<<JArr(<<JNum("5")>>, TRUE)>>, TRUE), JArr(<<JNull>>, TRUE),
     JArr(<<JObj(<< >>), JNum("5")>>, TRUE),
     JArr(<<orig>>, TRUE), JArr(<<JArr(<<orig>>, TRUE)>>, TRUE), JArr(<<orig, JNum("5")>>, TRUE), JArr(<<JStr("x"), orig>>, TRUE)}
    \cup (IF orig.t = "arr" /\ Len(orig.a) > 0 THEN {orig.a[1]} ELSE {})
    \cup (IF orig.t = "obj" /\ Len(orig.m) > 0 THEN {orig.m[1].v} ELSE {}) ) \ {orig}
RECURSIVE ShapeMut(_, _)
ShapeMut(v, nm) ==
  Shapes(v, nm)
  \cup (CASE v.t = "obj" -> UNION {{JObj([v.m EXCEPT ![i] = Mem(v.m[i].k, x)]) : x \in ShapeMut(v.m[i].v, v.m[i].k)} : i \in 1..Len(v.m)}
         [] v.t = "arr" -> UNION {{JArr([v.a EXCEPT ![i] = x], v.ord) : x \in ShapeMut(v.a[i], nm)} : i \in 1..Len(v.a)}
         [] OTHER -> {})
JShapeMutants(doc) == {JToks(d) : d \in ShapeMut(doc, "zz")}
\* token-level: one structural token dropped (always ill-formed), or doubled
TokDrops(ts) == {RemoveAt(ts, i) : i \in {j \in 1..Len(ts) : ts[j].c \in {"{", "}", "[", "]", ":", ","}}}
                \cup {InsertAfter(ts, i, ts[i]) : i \in {j \in 1..Len(ts) : ts[j].c \in {"{", "}", ","}}}
JMutants(doc) == {JToks(d) : d \in DocMut(doc)} \cup TokDrops(JToks(doc))

\* the same for XML: text replaced, an element removed / repeated / repeated with another text,
\* an unknown element added, a tag dropped, an end tag renamed
AltTexts == {"1.7", "5", "-1", "300", "x", "", "true", "zz:loc-id", "18446744073709551616", "1e2", "100.0",
             "a:loc-id", "b:for-id", "loc-id", "for-id", "+5", "007", "1.50", "2", "TRUE", "false"}
\* the text of an element spelled with a module name in front, the prefix undeclared or declared for that
\* module's namespace on the element
Decl(p, uri) == [p |-> p, uri |-> uri]
XDecorated(e) == IF e.text = "" THEN {}
                 ELSE UNION {{[e EXCEPT !.text = m \o ":" \o e.text, !.q = NoQ, !.decl = d] : d \in {<< >>, <<Decl(m, NsOf(m))>>}} : m \in ModPrefixes}
                      \cup {[e EXCEPT !.text = m \o ":" \o m \o ":" \o e.text, !.q = NoQ] : m \in {"a", "b"}}
RECURSIVE ElMut(_)
ElMut(e) ==
  (IF e.kids = << >> THEN {[e EXCEPT !.text = x, !.q = NoQ] : x \in AltTexts \ {e.text}} \cup XDecorated(e)
                          \cup {[e EXCEPT !.kids = <<XEl("x", e.ns, "5", NoQ, << >>, FALSE)>>]}
   ELSE {[e EXCEPT !.text = "x"]})
  \cup UNION {{[e EXCEPT !.kids[i] = x] : x \in ElMut(e.kids[i])} : i \in 1..Len(e.kids)}
  \cup {[e EXCEPT !.kids = RemoveAt(e.kids, i)] : i \in 1..Len(e.kids)}
  \cup {[e EXCEPT !.kids = InsertAfter(e.kids, i, e.kids[i])] : i \in 1..Len(e.kids)}
  \cup {[e EXCEPT !.kids = InsertAfter(e.kids, i, [e.kids[i] EXCEPT !.text = "5", !.q = NoQ])] : i \in {j \in 1..Len(e.kids) : e.kids[j].kids = << >>}}
  \cup {[e EXCEPT !.kids = Append(e.kids, XEl("zz", e.ns, "1", NoQ, << >>, FALSE))]}
XTokDrops(ts) == {RemoveAt(ts, i) : i \in {j \in 1..Len(ts) : ts[j].c \in {"start", "end"}}}
                 \cup {[ts EXCEPT ![i] = XEnd("zz")] : i \in {j \in 1..Len(ts) : ts[j].c = "end"}}
XMutants(el) == {XToks(d) : d \in ElMut(el)} \cup XTokDrops(XToks(el))

\* Content of the wrong shape (RFC 6020 7.5.7 - 7.8.5: a container and a list entry hold elements, a leaf and a
\* leaf-list entry hold character data): at every element of a document every kind of content - nothing, text
\* only, an unknown element, the element inside itself once and twice, its parent inside it, its first child
\* alone, each with and without character data in front (mixed content), its own content plus itself
XContents(e, parent) ==
  LET unk == XEl("zz", e.ns, "5", NoQ, << >>, FALSE)
      in1 == [e EXCEPT !.q = NoQ]
      in2 == [e EXCEPT !.q = NoQ, !.text = "", !.kids = <<in1>>]
      par == [parent EXCEPT !.q = NoQ, !.text = "", !.kids = <<in1>>]
      kidsets == {<< >>, <<unk>>, <<in1>>, <<in2>>, <<par>>, <<in1, unk>>} \cup (IF e.kids # << >> THEN {<<e.kids[1]>>} ELSE {})
  IN {[text |-> t, kids |-> ks] : t \in {"", "x"}, ks \in kidsets} \cup {[text |-> e.text, kids |-> Append(e.kids, in1)]}
RECURSIVE XShapeMut(_)
XShapeMut(e) ==
  UNION { {[e EXCEPT !.kids[i] = [e.kids[i] EXCEPT !.text = c.text, !.kids = c.kids, !.q = NoQ]]
             : c \in XContents(e.kids[i], e) \ {[text |-> e.kids[i].text, kids |-> e.kids[i].kids]}}
          \cup {[e EXCEPT !.kids[i] = x] : x \in XShapeMut(e.kids[i])}
          : i \in 1..Len(e.kids) }
  \cup {[e EXCEPT !.text = "x"]}
XShapeMutants(el) == {XToks(d) : d \in XShapeMut(el)}

\* XML documents from the document grammar rather than from the encoders' output: at every leaf element
\* of a document, element text x namespace declarations on the element and on its parent (XML Namespaces:
\* prefix = text before the first colon, innermost declaration in scope): text equal to a declared prefix,
\* prefix with empty local part, empty prefix, two colons, declared / undeclared / shadowed / foreign
\* prefixes in front of names that are and are not identities, several declarations, and the element
\* itself in the inherited or in another default namespace
NsDecls == { [own |-> << >>, anc |-> << >>],
             [own |-> <<Decl("p", "urn:b")>>, anc |-> << >>],
             [own |-> <<Decl("p", "urn:a")>>, anc |-> << >>],
             [own |-> << >>, anc |-> <<Decl("p", "urn:b")>>],
             [own |-> <<Decl("p", "urn:b")>>, anc |-> <<Decl("p", "urn:a")>>],
             [own |-> <<Decl("p", "urn:zz")>>, anc |-> <<Decl("p", "urn:b")>>],
             [own |-> <<Decl("q", "urn:a"), Decl("p", "urn:b")>>, anc |-> << >>],
             [own |-> <<Decl("b", "urn:a")>>, anc |-> << >>] }
NsTexts == {"p", "p:", ":x", ":", "p:q:r", "p:for-id", "p:loc-id", "p:base-id", "u:for-id", "for-id", "loc-id",
            "b:for-id", "a:loc-id", "q", "q:loc-id", "p:5", "5", "b"}
RECURSIVE XNsMut(_)
XNsMut(e) ==
  UNION { IF e.kids[i].kids = << >>
          THEN {[e EXCEPT !.decl = d.anc, !.kids[i] = [e.kids[i] EXCEPT !.text = t, !.q = NoQ, !.decl = d.own]]
                  : d \in NsDecls, t \in NsTexts}
               \cup {[e EXCEPT !.kids[i] = [e.kids[i] EXCEPT !.text = t, !.q = NoQ, !.decl = d, !.ns = ns]]
                       : d \in {<< >>, <<Decl("p", "urn:b")>>}, t \in {"loc-id", "p:for-id", "5", "x"}, ns \in {"", "urn:b", "urn:zz"}}
          ELSE {[e EXCEPT !.kids[i] = x] : x \in XNsMut(e.kids[i])}
          : i \in 1..Len(e.kids) }
XNsMutants(el) == {XToks(d) : d \in XNsMut(el)}
\* the namespace grid is for the items up to SizedFullMax (every node kind, identityref in every position) and for
\* the later ones whose types have an identityref inside a union
RECURSIVE HasIdUnion(_)
HasIdUnion(sn) == (sn.k \in {"leaf", "ll"} /\ sn.ty.b = "union" /\ IdsOf(sn.ty) # {}) \/ \E i \in 1..Len(sn.kids) : HasIdUnion(sn.kids[i])
NsGrid(S) == \A i \in S : i <= SizedFullMax \/ HasIdUnion(Menu[i])
\* the full tree of a schema with the longest XML encoding
BigTree(S) == CHOOSE t \in FullTrees(S) : \A u \in FullTrees(S) : Len(XToks(EncX(Schema(S), u))) <= Len(XToks(EncX(Schema(S), t)))

\* ------------------------------------------------ alphabets for the totality runs
\* schema of the totality runs
FuzzItems == {1, 6, 7, 8, 10, 12, 13, 16, 20}
JAlphabet == <<Tk("{", ""), Tk("}", ""), Tk("[", ""), Tk("]", ""), Tk(":", ""), Tk(",", ""),
               Tk("str", "a:c"), Tk("str", "i8"), Tk("str", "s"), Tk("str", "lu"), Tk("str", "k"), Tk("str", "e"),
               Tk("str", "x"), Tk("str", "a:5"), Tk("num", "5"), Tk("num", "1.7"), Tk("num", "1e2"), Tk("null", ""), Tk("true", ""), Tk("raw", "x")>>
\* contexts: (prefix, suffix) token sequences around the enumerated class string
JContexts == << [pre |-> << >>, suf |-> << >>],
                [pre |-> <<Tk("{", ""), Tk("str", "a:c"), Tk(":", ""), Tk("{", "")>>, suf |-> <<Tk("}", ""), Tk("}", "")>>],
                [pre |-> <<Tk("{", ""), Tk("str", "a:c"), Tk(":", ""), Tk("{", ""), Tk("str", "lu"), Tk(":", ""), Tk("[", ""), Tk("{", "")>>,
                 suf |-> <<Tk("}", ""), Tk("]", ""), Tk("}", ""), Tk("}", "")>>],
                \* the elements of the array of a list, of a leaf-list
                [pre |-> <<Tk("{", ""), Tk("str", "a:c"), Tk(":", ""), Tk("{", ""), Tk("str", "lu"), Tk(":", ""), Tk("[", "")>>,
                 suf |-> <<Tk("]", ""), Tk("}", ""), Tk("}", "")>>],
                [pre |-> <<Tk("{", ""), Tk("str", "a:c"), Tk(":", ""), Tk("{", ""), Tk("str", "llu"), Tk(":", ""), Tk("[", "")>>,
                 suf |-> <<Tk("]", ""), Tk("}", ""), Tk("}", "")>>] >>
XAlphabet == <<XStart("c", "urn:a", << >>), XEnd("c"), XStart("i8", "urn:a", << >>), XEnd("i8"), XStart("s", "urn:a", << >>), XEnd("s"),
               XStart("lu", "urn:a", << >>), XEnd("lu"), XStart("k", "urn:a", << >>), XEnd("k"), XStart("e", "urn:a", << >>), XEnd("e"),
               XStart("id", "urn:a", <<[p |-> "q", uri |-> "urn:b"]>>), XEnd("id"),
               XText("5"), XText("1.7"), XText("x"), XText("a:5"), XText("q:for-id"), XText("q"), XRaw("{3C}")>>
XContexts == << [pre |-> << >>, suf |-> << >>],
                [pre |-> <<XStart("root", "", << >>), XStart("c", "urn:a", << >>)>>, suf |-> <<XEnd("c"), XEnd("root")>>],
                [pre |-> <<XStart("root", "", << >>), XStart("c", "urn:a", << >>), XStart("lu", "urn:a", << >>)>>,
                 suf |-> <<XEnd("lu"), XEnd("c"), XEnd("root")>>] >>
=============================================================================
