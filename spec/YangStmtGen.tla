---------------------------- MODULE YangStmtGen ----------------------------
(* Probe generator (model -> code).  One family per initial state so that all TLC
   workers are used; each family is written as one ndjson file of records
   [fam, lab, tree, comp, compile, clean, exp, kwq] where exp = Expect(tree) is the
   verdict the property prescribes (computed here, never in Go or Python).        *)
EXTENDS YangStmtTpl, Json
CONSTANTS Fams, MaxCount, NRand, RandDepth, Thorough
VARIABLES fam, done

ParentSeq == SetToSeq(ParentIds)          \* families 1..Len(ParentSeq): cardinality probes of one parent
SitesFor(kind) == IF Thorough \/ kind # "identifier" THEN SitesOf(kind)
                  ELSE {s \in SitesOf(kind) : s[1] \in {"module", "leaf", "prefix", "import", "typedef", "bit", "case", "feature"}}
SiteSeq == SetToSeq(UNION {{<<k, s>> : s \in SitesFor(k)} : k \in JudgedKinds})   \* families 101..: one argument kind on one statement
AllFams == (1..Len(ParentSeq)) \cup {100 + i : i \in 1..Len(SiteSeq)} \cup {200, 201, 202, 203, 300}

Probe(f, lab, tree, clean) ==
  [fam |-> f, lab |-> lab, tree |-> tree, comp |-> Companions(tree), compile |-> TRUE, clean |-> clean,
   exp |-> Expect(tree), kwq |-> ""]
CardProbes(f) == LET P == ParentSeq[f] IN
  UNION {{Probe(f, <<"card", P, C, ToString(n)>>, CardTree(P, C, n), CardClean(P, C, n)) : n \in CardCounts(P, C, MaxCount)} : C \in ExtOrKw}
ArgProbes(f) == LET kind == SiteSeq[f - 100][1]  s == SiteSeq[f - 100][2] IN
  {LET t == ArgTree(s[1], s[2], a) IN Probe(f, <<"arg", kind, s[1], a>>, t, ArgClean(kind, s[1], a, t)) : a \in Cands(kind)}
OrderProbes(f) == LET root == IF f = 200 THEN "module" ELSE "submodule" IN
  {Probe(f, <<"order", root, "", "">>, t, TRUE) : t \in OrderTrees(root)}
RevProbes == UNION {{Probe(202, <<"rev", root, "", "">>, t, TRUE) : t \in RevTrees(root)} : root \in {"module", "submodule"}}
KwProbes == {[fam |-> 203, lab |-> <<"kw", k, "", "">>, kwq |-> k, known |-> k \in Keywords] :
               k \in Keywords \cup {ExtKw, "foo", "yin", "p:leaf", "yin_element", "leaflist"}}
RandBases == {[id |-> i, tree |-> RandTree(i, RandDepth), pool |-> RandPool(i)] : i \in 1..NRand}

Out(f) == "vec_" \o ToString(f) \o ".ndjson"
GInit == fam \in (Fams \cap AllFams) /\ done = FALSE
GNext == /\ ~done /\ done' = TRUE /\ UNCHANGED fam
         /\ ndJsonSerialize(Out(fam), SetToSeq(
              IF fam <= 99 THEN CardProbes(fam)
              ELSE IF fam <= 199 THEN ArgProbes(fam)
              ELSE IF fam \in {200, 201} THEN OrderProbes(fam)
              ELSE IF fam = 202 THEN RevProbes
              ELSE IF fam = 203 THEN KwProbes
              ELSE RandBases))
=============================================================================
