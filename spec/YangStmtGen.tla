---------------------------- MODULE YangStmtGen ----------------------------
(* Probe generator (model -> code).  One family per initial state so that all TLC
   workers are used; each family is written as one ndjson file of records
   [fam, lab, tree, comp, compile, clean, exp, kwq] where exp = Expect(tree) is the
   verdict the property prescribes (computed here, never in Go or Python).        *)
EXTENDS YangStmtTpl, Json
CONSTANTS Fams, MaxCount, NRand, RandDepth, Thorough, BigK, HistBad, HistOk
VARIABLES fam, done

ParentSeq == SetToSeq(ParentIds)          \* families 1..Len(ParentSeq): cardinality probes of one parent
SiteSeq == SetToSeq(UNION {{<<k, s>> : s \in SitesFor(k, Thorough)} : k \in JudgedKinds})   \* families 101..: one argument kind on one statement
\* 401.. / 205: large multiplicities (cells, data-definition aggregate); 302 / 303 and 500..: histories
\* 601..: odd white space, one argument kind on one statement (quick: one statement per kind)
\* (quick: every statement of a kind that has at most two, else one)
WsSites(k) == IF Thorough \/ Cardinality(SitesOf(k)) <= 2 THEN SitesFor(k, Thorough) ELSE {OneSite(k)}
WsSiteSeq == SetToSeq(UNION {{<<k, s>> : s \in WsSites(k)} : k \in JudgedKinds})
\* 701..: the whole byte range in identifier-like arguments (quick: one statement per kind, and prefix)
ByteSites(k) == IF Thorough THEN SitesFor(k, Thorough) ELSE {OneSite(k)} \cup (IF k = "identifier" THEN {<<"prefix", HostKw("prefix")>>} ELSE {})
ByteSiteSeq == SetToSeq(UNION {{<<k, s>> : s \in ByteSites(k)} : k \in ByteKinds})
\* 801..: closed-list (keyword) arguments, one kind on EVERY statement of that kind (both tiers)
KwSiteSeq == SetToSeq(UNION {{<<k, s>> : s \in SitesOf(k)} : k \in KwKinds})
\* 901..: the same, one statement keyword under every parent that allows it
KwStmtSeq == SetToSeq(UNION {{<<k, w>> : w \in KwStmts(k)} : k \in KwKinds})
AllFams == (1..Len(ParentSeq)) \cup {100 + i : i \in 1..Len(SiteSeq)} \cup {200, 201, 202, 203, 205, 206, 207, 208, 209, 210, 211, 300, 302, 303, 304}
           \cup {400 + i : i \in 1..Len(ParentSeq)} \cup {500 + i : i \in 1..Len(SiteSeq)}
           \cup {600 + i : i \in 1..Len(WsSiteSeq)} \cup {700 + i : i \in 1..Len(ByteSiteSeq)} \cup {800 + i : i \in 1..Len(KwSiteSeq)} \cup {900 + i : i \in 1..Len(KwStmtSeq)}

Probe(f, lab, tree, clean) ==
  [fam |-> f, lab |-> lab, tree |-> tree, comp |-> Companions(tree), compile |-> TRUE, clean |-> clean,
   exp |-> Expect(tree), kwq |-> ""]
CardProbes(f) == LET P == ParentSeq[f] IN
  UNION {{Probe(f, <<"card", P, C, ToString(n)>>, CardTree(P, C, n), CardClean(P, C, n)) : n \in CardCounts(P, C, MaxCount)} : C \in ExtOrKw}
ArgProbes(f) == LET kind == SiteSeq[f - 100][1]  s == SiteSeq[f - 100][2] IN
  {LET t == ArgTree(s[1], s[2], a) IN Probe(f, <<"arg", kind, s[1], a>>, t, ArgClean(kind, s[1], a, t)) : a \in Cands(kind)}
OrderProbes(f) == LET root == IF f = 200 THEN "module" ELSE "submodule" IN
  {Probe(f, <<"order", root, "", "">>, t, TRUE) : t \in OrderTrees(root)}
\* 206 / 207: extension statements interleaved in section orders; 208 / 209: in revision lists
OrderExtProbes(f) == LET root == IF f = 206 THEN "module" ELSE "submodule" IN
  {Probe(f, <<"order", root, "ext", "">>, t, TRUE) : t \in OrderInterleaved(root, Thorough)}
RevExtProbes(f) == LET root == IF f = 208 THEN "module" ELSE "submodule" IN
  {Probe(f, <<"rev", root, "ext", "">>, t, TRUE) : t \in RevInterleaved(root)}
WsProbes(f) == LET kind == WsSiteSeq[f - 600][1]  s == WsSiteSeq[f - 600][2] IN
  {LET t == ArgTree(s[1], s[2], a) IN Probe(f, <<"arg", kind, s[1], a>>, t, FALSE) : a \in WsCands(kind) \cup GramCands(kind, Thorough)}
ByteProbes(f) == LET kind == ByteSiteSeq[f - 700][1]  s == ByteSiteSeq[f - 700][2] IN
  {LET t == ArgTree(s[1], s[2], a) IN Probe(f, <<"arg", kind, s[1], a>>, t, FALSE) : a \in ByteCands(kind, Thorough)}
KwArgProbes(f) == LET kind == KwSiteSeq[f - 800][1]  s == KwSiteSeq[f - 800][2] IN
  {LET t == ArgTree(s[1], s[2], a) IN Probe(f, <<"arg", kind, s[1], a>>, t, ArgClean(kind, s[1], a, t)) : a \in KwCands(kind, Thorough)}
KwUnderProbes(f) == LET kind == KwStmtSeq[f - 900][1]  kw == KwStmtSeq[f - 900][2] IN
  UNION {{LET t == ArgUnderTree(P, kw, a) IN Probe(f, <<"argin", P, kw, a>>, t, CardClean(P, kw, 1) /\ ArgClean(kind, kw, a, t)) : a \in KwCore(kind, Thorough)}
         : P \in KwParents(kw)}
\* 210 / 211: extension statements named after the parser's own keywords
ExtNameProbes(f) ==
  {Probe(f, <<"extname", x.P, x.kw, x.v>>, x.tree, x.P \in ParentIds => CardClean(x.P, ExtKw, 1))
     : x \in (IF f = 210 THEN ExtNameTrees(Thorough) ELSE ExtInSequence(Thorough))}
RevProbes == UNION {{Probe(202, <<"rev", root, "", "">>, t, TRUE) : t \in RevTrees(root)} : root \in {"module", "submodule"}}
KwProbes == {[fam |-> 203, lab |-> <<"kw", k, "", "">>, kwq |-> k, known |-> k \in Keywords] :
               k \in Keywords \cup {ExtKw, "foo", "yin", "p:leaf", "yin_element", "leaflist"}}
BigTotals == {255, 256, 257, 512}
HugeTotals == {65535, 65536, 65537}
BigProbe(P, C, T) ==
  LET d == BigExpand(P, C, T) IN
  [fam |-> 204, lab |-> <<"big", P, C, ToString(T)>>, tree |-> d[1], expand |-> d[2], comp |-> Companions(d[1]),
   compile |-> T <= 600 \/ CellVerdict(P, C, T) = "reject",      \* compiling 65536 valid statements is slow; a deferred rejection is not
   clean |-> BigClean(P, C, T), exp |-> BigExpect(P, C, T, d[3]), kwq |-> ""]
BigProbes(f) == LET P == ParentSeq[f - 400] IN
  UNION {{BigProbe(P, C, T) : T \in BigTotals} : C \in BigCells(P, BigK)}
  \cup (IF Thorough /\ P \in {"container", "list", "leaf", "module", "type"}
        THEN UNION {{BigProbe(P, C, T) : T \in HugeTotals} : C \in BigCells(P, 1)} ELSE {})
AggProbes ==
  {LET d == AggExpand(P, T) IN
   [fam |-> 205, lab |-> <<"big", P, "data-def aggregate", ToString(T)>>, tree |-> d[1], expand |-> d[2], comp |-> << >>,
    compile |-> T <= 600, clean |-> T <= 600, exp |-> [verdict |-> "accept", locate |-> FALSE, bad |-> {}], kwq |-> ""]
   : P \in {"list", "container", "grouping", "case", "input", "notification", "augment"}, T \in BigTotals \cup (IF Thorough THEN HugeTotals ELSE {})}
Hist(label, hs) == {[label |-> label, seq |-> h] : h \in hs}
SiteHist(f) == LET kind == SiteSeq[f - 500][1]  s == SiteSeq[f - 500][2] IN
  Hist(<<"arg", kind, s[1]>>, ArgHistories(kind, s, HistBad, HistOk))
RandBases == {[id |-> i, tree |-> RandTree(i, RandDepth), pool |-> RandPool(i)] : i \in 1..NRand}

Out(f) == "vec_" \o ToString(f) \o ".ndjson"
GInit == fam \in (Fams \cap AllFams) /\ done = FALSE
GNext == /\ ~done /\ done' = TRUE /\ UNCHANGED fam
         /\ ndJsonSerialize(Out(fam), SetToSeq(
              IF fam <= 99 THEN CardProbes(fam)
              ELSE IF fam <= 199 THEN ArgProbes(fam)
              ELSE IF fam \in {200, 201} THEN OrderProbes(fam)
              ELSE IF fam = 202 THEN RevProbes
              ELSE IF fam = 203 THEN KwProbes
              ELSE IF fam \in 401..499 THEN BigProbes(fam)
              ELSE IF fam = 205 THEN AggProbes
              ELSE IF fam \in {206, 207} THEN OrderExtProbes(fam)
              ELSE IF fam \in {208, 209} THEN RevExtProbes(fam)
              ELSE IF fam \in {210, 211} THEN ExtNameProbes(fam)
              ELSE IF fam >= 901 THEN KwUnderProbes(fam)
              ELSE IF fam >= 801 THEN KwArgProbes(fam)
              ELSE IF fam >= 701 THEN ByteProbes(fam)
              ELSE IF fam >= 601 THEN WsProbes(fam)
              ELSE IF fam = 300 THEN RandBases
              ELSE IF fam = 302 THEN Hist(<<"cross", "", "">>, CrossHistories(IF Thorough THEN 1000 ELSE 80))
              ELSE IF fam = 304 THEN ExtPlan(IF Thorough THEN 3 ELSE 2)
              ELSE IF fam = 303 THEN Hist(<<"card", "", "">>, CardHistories(IF Thorough THEN 68 ELSE 12))
              ELSE SiteHist(fam)))
=============================================================================
