--------------------------- MODULE CompilePipeline ---------------------------
(* C11 - schema compilation is total and deterministic.

   An INSTANCE is a reference graph over modules, submodules, groupings,
   typedefs, identities and features (plus augments / deviations between
   modules).  Two things are written here:

   1. the MEANING of an instance, from RFC 6020: Verdict(I) = "error" iff the
      instance has a reference cycle of any kind (import, include, grouping,
      typedef, identity, feature - a self reference is a cycle of length one),
      a dangling reference (unknown prefix, module not supplied, name not
      defined, include of something that is not a submodule of the module,
      augment / deviation target that does not exist) or two sibling nodes
      with the same name; otherwise Schema(I) = the set of data nodes of the
      compiled modules (uses expanded in the namespace of the using module,
      augments added, deviations applied, if-feature evaluated).

   2. the MECHANISM of the compiler as a transition system: its phases
         attach submodules -> includes -> topological sort of the imports
         -> features -> identities (collect, bases, cycles) -> grouping
         validation -> expansion per module in sort order -> deviations in
         sort order -> build in sort order
      where every `for ... range map` of the code is an existential choice
      of one of the remaining keys and the sort is ANY topological order.
      Trees are built incrementally: an augment looks its target up in the
      tree of the target module AS EXPANDED SO FAR.

   TLC explores every order of every instance of the families below and
   checks termination (Progress), and that every terminal outcome equals
   the meaning (Confluent): hence "cycle or dangling => error" and the set
   of terminal outcomes of one input is a singleton.                      *)
EXTENDS Naturals, Sequences, FiniteSets, TLC

CONSTANT SortMode     \* "topo" (the design) | "any" (self test: must break confluence)

Mods == {"m1", "m2", "m3"}
SubNames == {"s1", "s2"}
Kinds == {"grouping", "typedef", "identity", "feature"}

(* An instance I is a record
     fam, shape : labels (reporting only)
     mods  : modules supplied                      (subset of Mods)
     imp   : import statements <<u, t>>            (u a module or a submodule; prefix "p" \o t
             unless alias says otherwise).  An import written in a submodule is a dependency
             of its module: cycles and the sort order are about the LIFTED graph (RFC 6020 5.1:
             a module is its submodules), while prefixes stay per textual unit.
     alias : <<u, t, p>>  unit u imports t under prefix p (spelling only: a submodule may use, for
             another module, the very prefix string its module uses)
     spell : how a reference to a definition of the same module is SPELLED: "u" unprefixed, "o" with
             the module's own prefix, "mix" (some links one way, some the other).  RFC 6020 5.5 / 6.2.1:
             both spellings mean the same, so the meaning below does not look at it.
     subs  : submodules supplied <<s, b>>          (s belongs-to b)
     inc   : include statements <<u, s>>           (u a module or submodule)
     defs  : definitions [k, n, home, refs, pos]  (k in Kinds; home is the SCOPE in
             which the definition is written: a module "m1", or - groupings and
             typedefs - a container of it "m1.x1"; refs a set of [m, n]: "prefix of
             module m : n", unprefixed if m is the home's module; pos: the syntactic
             POSITION in which the definition's references stand -
               grouping: "direct" (uses directly in the grouping), "container" (inside its container k<n>),
                         "list" (inside a list q<n>), "choice" (inside choice o<n> / case w<n>), "augment"
                         (uses h<n> { augment h<n> { uses ... } }: inside an augment below a uses of a helper
                         grouping), "inner" (inside a nested grouping i<n> that the grouping itself uses)
               typedef : "direct" (type b) or "union" (a member of a union)
               identity, feature: "direct")
     rpos  : the position of the using data nodes - grouping: uses in the module's "container", in a "list", in a
             "choice"/case, in an "rpc" input, in a "notification"; typedef: type of a "leaf", of a "leaf-list", member
             of a "union"; identity: identityref of a "leaf", inside a "union", through a "typedef"; feature:
             if-feature on a "leaf", "leaf-list", "container", "list"  (roots written in a container scope keep to
             positions that exist there)
     roots : uses from data nodes [home, k, m, n]  (k in Kinds or "subtype"; home is
             the scope in which the using data node is written)
             Scoping (RFC 6020 5.5, 6.2.1): an unprefixed name is looked up in the scope
             of the reference first, then at the top level of its module; a prefixed
             name only at the top level of the named module.  The same name may be
             defined in two modules and in two sibling scopes of one module; a scope
             must not redefine a name of its module's top level (shadowing = error).
     augs  : [m, t, n]      module m augments /t:t<t>/t:k<n> with leaf x<m>
     devs  : [m, t, n, how, by]  module m deviates the leaf l<n> of that container
             (how = "ns" not-supported | "rep" replace default) or, how = "nsx",
             the leaf x<by> added there by module by
     off   : names of the features switched off by the caller
     spath : HOW the scopes "m.x" of the instance are reached from the top level of their module: a sequence of
             statements, outermost first, the last one being the statement that holds the definitions
             (RFC 6020: typedef / grouping may stand in container, list, grouping, input, output, notification):
               "container" / "list"   a container / list (the last one is named x, the others v<i>x)
               "choice"               choice o<i>x { case w<i>x { ... } }     "short"  choice o<i>x { <container|list> }
               "input" / "output"     rpc <name> { input|output { ... } }     "notification"  notification <name> { ... }
               "grouping"             grouping <name> { ... } followed by a uses of it (the definitions are lexically
                                      inside another grouping and reach the data tree through its expansion)
               "augment"              container v<i>x { }  augment "/v<i>x" { ... }   (top level only)
               "uaugment"             uses h<i>x { augment v<i>x { ... } }   (h<i>x a helper grouping with that container)
             <<"container">> is the plain case: a container x at the top level.  What a reference means does not depend
             on it (scoping is lexical); only the paths of the data nodes do.
     ill   : statements added to a fixed well-formed host (see "ill-formed statements" below) whose argument may be of
             the wrong KIND (absolute / descendant schema node id) or name a node of the wrong kind or no node:
             [site, arg, tgt, prop, m, at]                                                  *)

\* ------------------------------------------------------------- graph helpers
RECURSIVE ReachFrom(_, _, _)
ReachFrom(E, frontier, seen) ==
  LET nxt == {e[2] : e \in {x \in E : x[1] \in frontier}} \ seen
  IN IF nxt = {} THEN seen ELSE ReachFrom(E, nxt, seen \cup nxt)
Reach1(E, n) == ReachFrom(E, {n}, {})                \* successors, >= 1 step
OnCycle(E, n) == n \in Reach1(E, n)
HasCycle(E) == \E e \in E : OnCycle(E, e[1])
ReachesCycle(E, n) == OnCycle(E, n) \/ \E x \in Reach1(E, n) : OnCycle(E, x)

\* ------------------------------------------------------------- accessors
SubsOf(I, m) == {sb[1] : sb \in {x \in I.subs : x[2] = m}}
UnitsOf(I, m) == {m} \cup SubsOf(I, m)
IncEdgesOf(I, m) == {e \in I.inc : e[1] \in UnitsOf(I, m)}
Imports(I, h) == {e[2] : e \in {x \in I.imp : x[1] = h}}
DefsK(I, k) == {d \in I.defs : d.k = k}
DefKey(d) == <<d.home, d.n>>
Ref(m, n) == [m |-> m, n |-> n]
\* scopes: "m1" = top level of module m1, "m1.x1" = inside container x1 of m1
ModH(h) == SubSeq(h, 1, 2)
Scoped(h) == Len(h) > 2
\* the definitions a reference r of kind k written in scope h denotes (0 or 1)
Target(I, k, h, r) ==
  LET inScope == {d \in I.defs : d.k = k /\ d.n = r.n /\ d.home = h}
      atTop == {d \in I.defs : d.k = k /\ d.n = r.n /\ d.home = r.m}
  IN IF r.m = ModH(h) /\ Scoped(h) /\ inScope # {} THEN inScope ELSE atTop
TargetDef(I, k, h, r) == CHOOSE d \in Target(I, k, h, r) : TRUE
\* a reference written in scope h resolves: known prefix, module supplied, name defined
Resolves(I, h, k, r) == /\ (r.m = ModH(h) \/ r.m \in Imports(I, ModH(h)))
                        /\ r.m \in I.mods
                        /\ Target(I, k, h, r) # {}
KEdges(I, k) == UNION {{<<DefKey(d), DefKey(TargetDef(I, k, d.home, r))>> : r \in {x \in d.refs : Resolves(I, d.home, k, x)}} : d \in DefsK(I, k)}
SubTypeOK(I, r) == r.n \in SubsOf(I, r.home) /\ <<r.home, r.n>> \in I.inc
\* a scope redefines a name of the top level of its module
ShadowIn(I, m) == \E d1 \in I.defs : \E d2 \in I.defs :
                     d1.k = d2.k /\ d1.n = d2.n /\ Scoped(d2.home) /\ d1.home = ModH(d2.home) /\ d1.home = m
Shadow(I) == \E m \in I.mods : ShadowIn(I, m)
RootResolves(I, r) == IF r.k = "subtype" THEN SubTypeOK(I, r) ELSE Resolves(I, r.home, r.k, Ref(r.m, r.n))

\* ------------------------------------------------------------- meaning: verdict
BadBelongs(I) == \E sb \in I.subs : sb[2] \notin I.mods
BadInclude(I) == \E m \in I.mods : \E e \in IncEdgesOf(I, m) : e[2] \notin SubsOf(I, m)
IncludeCycle(I) == HasCycle(I.inc)
UnitMod(I, u) == IF \E sb \in I.subs : sb[1] = u THEN (CHOOSE sb \in I.subs : sb[1] = u)[2] ELSE u
LiftImp(I) == {<<UnitMod(I, e[1]), e[2]>> : e \in I.imp}
ModImports(I, m) == {e[2] : e \in {x \in LiftImp(I) : x[1] = m}}
ImportCycle(I) == HasCycle(LiftImp(I))
ImportAbsent(I) == \E e \in I.imp : e[2] \notin I.mods
DefCycle(I) == \E k \in Kinds : HasCycle(KEdges(I, k))
Dangling(I) == \/ \E d \in I.defs : \E r \in d.refs : ~Resolves(I, d.home, d.k, r)
               \/ \E r \in I.roots : ~RootResolves(I, r)
RefError(I) == BadBelongs(I) \/ BadInclude(I) \/ IncludeCycle(I) \/ ImportCycle(I) \/ ImportAbsent(I)
               \/ DefCycle(I) \/ Dangling(I) \/ Shadow(I)

\* ------------------------------------------------------------- meaning: schema
Top(m) == "/" \o m \o ":t" \o m
Node(p, t, via, d, ids) == [p |-> p, t |-> t, via |-> via, d |-> d, ids |-> ids, ns |-> FALSE]
\* ---- scope paths (I.spath).  Holders = statements that may hold typedefs and groupings.
Holders == {"container", "list", "input", "output", "notification", "grouping"}
Wrappers == Holders \cup {"choice", "short", "augment", "uaugment"}
ValidSPath(s) == /\ Len(s) \in 1..3 /\ s[Len(s)] \in Holders
                 /\ \A i \in 2..Len(s) : /\ s[i] \notin {"input", "output", "notification", "augment"}          \* top level only
                                          /\ (s[i] = "grouping" => s[i-1] \in Holders)                           \* where a grouping may be defined
                                          /\ (s[i-1] = "short" => s[i] \in {"container", "list"})                 \* shorthand case
Dig(i) == CASE i = 1 -> "1" [] i = 2 -> "2" [] OTHER -> "3"
SName(s, i, x) == IF i = Len(s) THEN x ELSE "v" \o Dig(i) \o x
\* the data path below which the content of element i of the scope path stands (P: the path outside it, u the module)
SStep(P, u, w, nm) == CASE w \in {"container", "list", "augment", "uaugment"} -> P \o "/" \o u \o ":" \o nm
                        [] w \in {"input", "output"} -> "#" \o u \o ":" \o nm \o "/" \o w
                        [] w = "notification" -> "#" \o u \o ":" \o nm
                        [] OTHER -> P                                   \* choice, case, grouping: not nodes of the data tree
RECURSIVE SPathAt(_, _, _, _)
SPathAt(s, u, x, i) == IF i = 0 THEN "" ELSE SStep(SPathAt(s, u, x, i - 1), u, s[i], SName(s, i, x))
\* the nodes the statements of the scope path themselves are
SNodes(s, u, x) == UNION {LET p == SPathAt(s, u, x, i) IN
                          CASE s[i] \in {"container", "augment", "uaugment"} -> {Node(p, "c", "", "", {})}
                            [] s[i] = "list" -> {Node(p, "list", "", "", {}), Node(p \o "/" \o u \o ":id", "l", "", "", {})}
                            [] OTHER -> {} : i \in 1..Len(s)}
ScopeName(h) == SubSeq(h, 4, Len(h))
ScopeTop(I, h) == IF Scoped(h) THEN SPathAt(I.spath, ModH(h), ScopeName(h), Len(I.spath)) ELSE Top(h)
\* the nodes a `uses` of grouping g contributes below path P in using module u (RFC 6020 7.12:
\* the grouping's nodes are copied into the namespace of the using module); `via` tells two
\* copies of the same grouping apart, so that equal sibling names are seen
RECURSIVE GExp(_, _, _, _, _)
GExp(I, g, P, u, via) ==
  LET v2 == via \o ">" \o g.n
      kp == P \o "/" \o u \o ":k" \o g.n
      q(x) == "/" \o u \o ":" \o x \o g.n
      \* what the position adds to the schema, and below which path the used groupings' nodes land
      scaffold == IF g.refs = {} THEN {}
                  ELSE CASE g.pos = "list" -> {Node(P \o q("q"), "list", v2, "", {}), Node(P \o q("q") \o "/" \o u \o ":id", "l", v2, "", {})}
                         [] g.pos = "augment" -> {Node(P \o q("h"), "c", v2, "", {})}
                         [] OTHER -> {}
      \* (choice and case are not nodes of the data tree: what stands inside them is a child of the enclosing data
      \* node, also for the uniqueness of sibling names, RFC 6020 7.9.2)
      under == CASE g.pos = "container" -> kp [] g.pos = "list" -> P \o q("q")
                 [] g.pos = "augment" -> P \o q("h") [] OTHER -> P
  IN {Node(kp, "c", v2, "", {}), Node(kp \o "/" \o u \o ":l" \o g.n, "l", v2, "d0", {})} \cup scaffold
     \cup UNION {GExp(I, TargetDef(I, "grouping", g.home, r), under, u, v2) : r \in g.refs}
\* ---- ill-formed statements (I.ill).  When I.ill # {} module m1 carries a fixed, well-formed HOST:
\*        grouping eg { container ec { leaf el { default "d0" } leaf em }  leaf-list ell  list eq { key id; leaf id; leaf ev }
\*                      choice eo { case ew { leaf ex } case ew2 { leaf ex2 } } }
\*        container eh { uses eg; }         (x.at says where this uses stands, see IllRoot)
\*        list eu { key id; leaf id; leaf ev; container en { leaf y } }
\*      and every x in I.ill is ONE statement written in module x.m:
\*        site "uses-augment"  augment <id> { leaf ea }      under the uses of eg
\*             "refine"        refine <id> { <x.prop> }      under the uses of eg
\*             "unique"        unique <id>                    in list eu
\*             "augment"       augment <id> { leaf eb }      at the top level of x.m
\*             "deviation"     deviation <id> { deviate <x.prop> }   at the top level of x.m
\*        arg  "desc" | "abs"  the KIND of schema node id written (descendant: relative to the uses / the list;
\*                              absolute: from the root)
\*        tgt  the node the id names: container (ec), leaf (el, has a default), leafnd (em, no default), leaf-list (ell),
\*             list (eq), choice (eo), case (eo/ew), none (no such node), nonedeep (ec/ez); unique: leaf (ev), nested (en/y),
\*             container (en), none
\*      RFC 6020: 7.12.2 / 7.15 uses-augment and refine take a descendant id, a top-level augment and a deviation an absolute
\*      one (7.18.1), unique descendant ids of leafs (7.8.3); the target of an augment is a container, list, choice, case
\*      (input, output, notification: not in the host); refine / deviate properties must fit the kind of the target
\*      (7.12.2, 7.18.3.2).  Anything else is ill-formed: an error.
IllNeedArg(site) == IF site \in {"uses-augment", "refine", "unique"} THEN "desc" ELSE "abs"
Augmentable == {"container", "list", "choice", "case"}
RefineOK(t, prop) == CASE prop = "description" -> TRUE
                       [] prop = "default" -> t \in {"leaf", "leafnd", "choice"}      \* (for a choice the default written is the case ew)
                       [] prop = "mandatory" -> t \in {"leafnd", "choice"}            \* 7.6.4: not together with a default
                       [] prop = "presence" -> t = "container"
                       [] prop = "min-elements" -> t \in {"list", "leaf-list"}
                       [] OTHER -> FALSE
DeviateOK(t, prop) == CASE prop = "not-supported" -> TRUE
                        [] prop = "replace" -> t = "leaf"          \* replace / delete default: the property must exist
                        [] prop = "delete" -> t = "leaf"
                        [] prop = "add" -> t = "leafnd"            \* add default: a leaf that has none
                        [] OTHER -> FALSE
IllExists(x) == x.tgt \notin {"none", "nonedeep"}
IllWF(x) == /\ x.arg = IllNeedArg(x.site) /\ IllExists(x)
            /\ CASE x.site \in {"uses-augment", "augment"} -> x.tgt \in Augmentable
                 [] x.site = "refine" -> RefineOK(x.tgt, x.prop)
                 [] x.site = "unique" -> x.tgt \in {"leaf", "nested"}
                 [] x.site = "deviation" -> DeviateOK(x.tgt, x.prop)
                 [] OTHER -> FALSE
\* the wrong kind of id is where parsers differ (one that refuses it keeps the module set outside C11)
IllArgKind(I) == \E x \in I.ill : x.arg # IllNeedArg(x.site)
IllError(I) == \E x \in I.ill : ~IllWF(x)
\* where the uses of the host grouping stands: directly in container eh ("data"), in a grouping eg2 that eh uses
\* ("grouping"), inside choice / case in eh ("case"), in the input of rpc eh ("rpc": not part of the data tree)
IllAt(I) == IF I.ill = {} THEN "data" ELSE (CHOOSE x \in I.ill : TRUE).at
IllRoot(I) == IF IllAt(I) = "rpc" THEN "#m1:eh/input" ELSE "/m1:eh"
IllHost(I, m) ==
  IF I.ill = {} \/ m # "m1" THEN {} ELSE
  LET R == IllRoot(I)  n(p, t, d) == Node(p, t, "", d, {}) IN
  {n(R, IF IllAt(I) = "rpc" THEN "input" ELSE "c", ""),      \* (the input of the rpc: below "#", not part of the compared tree)
   n(R \o "/m1:ec", "c", ""), n(R \o "/m1:ec/m1:el", "l", "d0"), n(R \o "/m1:ec/m1:em", "l", ""), n(R \o "/m1:ell", "leaf-list", ""),
        n(R \o "/m1:eq", "list", ""), n(R \o "/m1:eq/m1:id", "l", ""), n(R \o "/m1:eq/m1:ev", "l", ""), n(R \o "/m1:ex", "l", ""), n(R \o "/m1:ex2", "l", ""),
        n("/m1:eu", "list", ""), n("/m1:eu/m1:id", "l", ""), n("/m1:eu/m1:ev", "l", ""), n("/m1:eu/m1:en", "c", ""), n("/m1:eu/m1:en/m1:y", "l", "")}
\* the data node a target is / below which an added leaf lands (choice and case are not data nodes)
IllPath(I, x) == LET R == IllRoot(I) IN
  CASE x.tgt = "container" -> R \o "/m1:ec" [] x.tgt = "leaf" -> R \o "/m1:ec/m1:el" [] x.tgt = "leafnd" -> R \o "/m1:ec/m1:em"
    [] x.tgt = "leaf-list" -> R \o "/m1:ell" [] x.tgt = "list" -> R \o "/m1:eq" [] OTHER -> R
Below(q, p) == Len(q) >= Len(p) /\ SubSeq(q, 1, Len(p)) = p /\ (Len(q) = Len(p) \/ SubSeq(q, Len(p) + 1, Len(p) + 1) = "/")
\* effect of the well-formed statements of module m at the given sites on a set of nodes
IllOf(I, m, sites) == {x \in I.ill : x.m = m /\ x.site \in sites}
IllBad(I, m, sites) == \E x \in IllOf(I, m, sites) : ~IllWF(x)
IllOne(I, x, S) ==
  CASE x.site = "uses-augment" -> S \cup {Node(IllPath(I, x) \o "/m1:ea", "l", "", "", {})}
    [] x.site = "augment" -> S \cup {Node(IllPath(I, x) \o "/" \o x.m \o ":eb", "l", "", "", {})}
    [] x.site = "refine" /\ x.prop = "default" /\ x.tgt \in {"leaf", "leafnd"} -> {IF n.p = IllPath(I, x) THEN [n EXCEPT !.d = "dr"] ELSE n : n \in S}
    [] x.site = "deviation" /\ x.prop = "not-supported" -> {IF Below(n.p, IllPath(I, x)) THEN [n EXCEPT !.ns = TRUE] ELSE n : n \in S}
    [] x.site = "deviation" /\ x.prop \in {"replace", "add"} -> {IF n.p = IllPath(I, x) THEN [n EXCEPT !.d = "dv"] ELSE n : n \in S}
    [] x.site = "deviation" /\ x.prop = "delete" -> {IF n.p = IllPath(I, x) THEN [n EXCEPT !.d = ""] ELSE n : n \in S}
    [] OTHER -> S
\* (at most one statement per site and module, so the order of application does not matter)
RECURSIVE IllApplySet(_, _, _)
IllApplySet(I, X, S) == IF X = {} THEN S ELSE LET x == CHOOSE y \in X : TRUE IN IllApplySet(I, X \ {x}, IllOne(I, x, S))
IllApply(I, m, sites, S) == IllApplySet(I, {x \in IllOf(I, m, sites) : IllWF(x)}, S)
IllApplyAll(I, sites, S) == IllApplySet(I, {x \in I.ill : x.site \in sites /\ IllWF(x)}, S)
\* identities derived (transitively) from identity i: "module:name"
Derived(I, i) == LET E == {<<e[2], e[1]>> : e \in KEdges(I, "identity")} IN {x[1] \o ":" \o x[2] : x \in Reach1(E, i)}
RECURSIVE FeatOn(_, _)
FeatOn(I, f) == f.n \notin I.off /\ \A r \in f.refs : FeatOn(I, TargetDef(I, "feature", f.home, r))
\* position of a using data node (rpc and notification only exist at the top level of a module)
RPos(I, r) == IF Scoped(r.home) /\ I.rpos \in {"rpc", "notification"} THEN "container" ELSE I.rpos
\* Nodes whose path starts with "#" (below an rpc or a notification) are not part of the data tree: they take part
\* in the sibling-name check but not in the schema that is compared.
RootNodes(I, r) ==
  LET P == ScopeTop(I, r.home)  u == ModH(r.home)  lp(x) == P \o "/" \o u \o ":" \o x \o r.n
      sub(x) == "/" \o u \o ":" \o x
      T(k) == TargetDef(I, k, r.home, Ref(r.m, r.n))
      rp == RPos(I, r)
      idl == Node(lp("rf") \o sub("id"), "l", "", "", {}) IN
  CASE r.k = "grouping" ->
         (CASE rp = "list" -> {Node(P \o sub("rq"), "list", "", "", {}), Node(P \o sub("rq") \o sub("id"), "l", "", "", {})}
                              \cup GExp(I, T("grouping"), P \o sub("rq"), u, "")
            [] rp = "rpc" -> GExp(I, T("grouping"), "#" \o u \o ":rr/input", u, "")
            [] rp = "notification" -> GExp(I, T("grouping"), "#" \o u \o ":rn", u, "")
            [] OTHER -> GExp(I, T("grouping"), P, u, ""))
    [] r.k = "typedef"  -> {Node(lp("rt"), IF rp = "leaf-list" THEN "leaf-list" ELSE "l", "", "", {})}
    [] r.k = "subtype"  -> {Node(lp("ru"), "l", "", "", {})}
    [] r.k = "identity" -> {Node(lp("ri"), "l", "", "", Derived(I, DefKey(T("identity"))))}
    [] r.k = "feature"  -> IF ~FeatOn(I, T("feature")) THEN {}
                           ELSE CASE rp = "container" -> {Node(lp("rf"), "c", "", "", {})}
                                  [] rp = "list" -> {Node(lp("rf"), "list", "", "", {}), idl}
                                  [] rp = "leaf-list" -> {Node(lp("rf"), "leaf-list", "", "", {})}
                                  [] OTHER -> {Node(lp("rf"), "l", "", "", {})}
\* data nodes written in (or expanded into) module m itself; the nodes of a submodule join the
\* module that includes it
SubNodes(I, m) == UNION {{Node("/" \o m \o ":c" \o s, "c", "", "", {}), Node("/" \o m \o ":c" \o s \o "/" \o m \o ":l", "l", "", "", {})}
                         : s \in {x \in SubsOf(I, m) : <<m, x>> \in I.inc}}
\* the containers that are scopes of module m (each holds a leaf l0, its definitions and its uses)
ScopesOf(I, m) == {h \in {d.home : d \in I.defs} \cup {r.home : r \in I.roots} : Scoped(h) /\ ModH(h) = m}
Literal(I, m) == {Node(Top(m), "c", "", "", {}), Node(Top(m) \o "/" \o m \o ":l0", "l", "", "", {})} \cup SubNodes(I, m)
                 \cup UNION {SNodes(I.spath, m, ScopeName(h)) \cup {Node(ScopeTop(I, h) \o "/" \o m \o ":l0", "l", "", "", {})} : h \in ScopesOf(I, m)}
                 \cup IllHost(I, m)
OwnNodes(I, m) == Literal(I, m) \cup UNION {RootNodes(I, r) : r \in {x \in I.roots : ModH(x.home) = m}}
AugTarget(a) == Top(a.t) \o "/" \o a.t \o ":k" \o a.n
\* (a.m is the unit in which the augment is written; its leaf belongs to the namespace of that unit's module)
AugLeaf(I, a) == Node(AugTarget(a) \o "/" \o UnitMod(I, a.m) \o ":x" \o a.m, "l", "", "", {})
DevTarget(d) == IF d.how = "nsx" THEN Top(d.t) \o "/" \o d.t \o ":k" \o d.n \o "/" \o d.by \o ":x" \o d.by
                ELSE Top(d.t) \o "/" \o d.t \o ":k" \o d.n \o "/" \o d.t \o ":l" \o d.n
Has(S, p, t) == \E x \in S : x.p = p /\ x.t = t
Collides(S) == \E x \in S : \E y \in S : x.p = y.p /\ x.via # y.via
\* prefixes used by an augment / deviation must be imported
AugPrefixOK(I, a) == (a.t = UnitMod(I, a.m) \/ a.t \in Imports(I, a.m)) /\ a.t \in I.mods
DevPrefixOK(I, d) == /\ d.t \in Imports(I, d.m) /\ d.t \in I.mods
                     /\ (d.how = "nsx" => d.by \in Imports(I, d.m) /\ d.by \in I.mods)
FullTree(I) ==    \* before deviations
  LET own == UNION {OwnNodes(I, m) : m \in I.mods}
  IN IllApplyAll(I, {"uses-augment", "refine", "augment"}, own \cup {AugLeaf(I, a) : a \in {x \in I.augs : Has(own, AugTarget(x), "c")}})
TargetError(I) ==
  LET own == UNION {OwnNodes(I, m) : m \in I.mods}  full == FullTree(I) IN
  \/ \E a \in I.augs : ~AugPrefixOK(I, a) \/ ~Has(own, AugTarget(a), "c")
  \/ \E d \in I.devs : ~DevPrefixOK(I, d) \/ ~Has(full, DevTarget(d), "l")
\* deviations: not-supported removes the leaf; replace sets the default; two modules replacing
\* the default of one leaf with different values: RFC 6020 does not say which wins ("?")
Deviated(I, S) ==
  LET gone == {DevTarget(d) : d \in {x \in I.devs : x.how \in {"ns", "nsx"}}}
      rep(p) == {d.m : d \in {x \in I.devs : x.how = "rep" /\ DevTarget(x) = p}}
  IN {IF rep(x.p) = {} THEN x
      ELSE [x EXCEPT !.d = IF Cardinality(rep(x.p)) = 1 THEN "d" \o (CHOOSE m \in rep(x.p) : TRUE) ELSE "?"]
      : x \in {y \in S : y.p \notin gone}}
Strip(S) == {[p |-> x.p, t |-> x.t, d |-> x.d, ids |-> x.ids] : x \in {y \in S : SubSeq(y.p, 1, 1) # "#"}}

Verdict(I) == IF RefError(I) THEN "error"
              ELSE IF Collides(UNION {OwnNodes(I, m) : m \in I.mods}) \/ TargetError(I) \/ IllError(I) THEN "error" ELSE "ok"
Schema(I) == IF Verdict(I) = "ok" THEN Strip({n \in IllApplyAll(I, {"deviation"}, Deviated(I, FullTree(I))) : ~n.ns}) ELSE {}
Expected(I) == [verdict |-> Verdict(I), schema |-> Schema(I)]
\* What is judged on the real compiler.  A dangling reference inside a definition that no data node
\* (transitively) uses is an error by RFC 6020, but the property statement only demands that cycles are
\* reported and that nothing crashes: when such references are the ONLY defect the verdict is not
\* judged (totality and determinism still are).
UsedKeys(I, k) == LET R0 == {DefKey(TargetDef(I, k, r.home, Ref(r.m, r.n))) : r \in {x \in I.roots : x.k = k /\ RootResolves(I, x)}}
                  IN ReachFrom(KEdges(I, k), R0, R0)
DanglingUsed(I) == \/ \E r \in I.roots : ~RootResolves(I, r)
                   \/ \E d \in I.defs : DefKey(d) \in UsedKeys(I, d.k) /\ \E r \in d.refs : ~Resolves(I, d.home, d.k, r)
\* the defects of an instance, by class (names the failing class in reports and known findings)
CycleUsed(I, k) == \E x \in UsedKeys(I, k) : OnCycle(KEdges(I, k), x)
Defects(I) ==
  (IF BadBelongs(I) THEN {"belongs-to"} ELSE {}) \cup (IF BadInclude(I) THEN {"include-unknown"} ELSE {})
  \cup (IF IncludeCycle(I) THEN {"include-cycle"} ELSE {}) \cup (IF ImportCycle(I) THEN {"import-cycle"} ELSE {})
  \cup (IF ImportAbsent(I) THEN {"import-absent"} ELSE {}) \cup (IF Shadow(I) THEN {"shadow"} ELSE {})
  \cup UNION {IF ~HasCycle(KEdges(I, k)) THEN {} ELSE IF CycleUsed(I, k) THEN {k \o "-cycle-used"} ELSE {k \o "-cycle-unused"} : k \in Kinds}
  \cup (IF DanglingUsed(I) THEN {"dangling-used"} ELSE IF Dangling(I) THEN {"dangling-unused"} ELSE {})
  \cup (IF ~RefError(I) /\ Collides(UNION {OwnNodes(I, m) : m \in I.mods}) THEN {"name-clash"} ELSE {})
  \cup (IF ~RefError(I) /\ TargetError(I) THEN {"target-missing"} ELSE {})
  \cup (IF IllError(I) THEN {"ill-formed"} ELSE {})
\* Which local references carry the module's own prefix (the renderer follows exactly this rule): all of them
\* ("o"), or ("mix") those of the definitions a and c and of the data nodes using a typedef or a feature.
OwnSpelled(I, src) == I.spell = "o" \/ (I.spell = "mix" /\ src \in {"a", "c", "typedef", "feature"})
\* An own-prefixed reference that has to be resolved in an enclosing scope below the top level (a typedef or
\* grouping defined inside a container).  RFC 6020 5.5 resolves it like an unprefixed one, so the meaning above says
\* "ok" for a well-formed instance; but C11 only demands termination, that CYCLES are reported and determinism - a
\* compiler that deterministically refuses such a valid module does not break it.  For these instances the
\* expectation "ok" is therefore not judged (either outcome is accepted; no crash, same outcome on every run and
\* order are still required); an expected ERROR (cycle, dangling, ...) stays judged - any error verdict satisfies it.
ScopedOwnRef(I) ==
  \/ \E d \in I.defs : \E r \in d.refs : /\ r.m = ModH(d.home) /\ OwnSpelled(I, d.n) /\ Resolves(I, d.home, d.k, r)
                                           /\ Scoped(TargetDef(I, d.k, d.home, r).home)
  \/ \E r \in {x \in I.roots : x.k \in Kinds} : /\ r.m = ModH(r.home) /\ OwnSpelled(I, r.k) /\ RootResolves(I, r)
                                                  /\ Scoped(TargetDef(I, r.k, r.home, Ref(r.m, r.n)).home)
JudgeVerdict0(I) == \/ Verdict(I) = "ok"
                   \/ BadBelongs(I) \/ BadInclude(I) \/ IncludeCycle(I) \/ ImportCycle(I) \/ ImportAbsent(I)
                   \/ DefCycle(I) \/ DanglingUsed(I) \/ Shadow(I) \/ ~RefError(I)
JudgeVerdict(I) == JudgeVerdict0(I) /\ (ScopedOwnRef(I) => Verdict(I) = "error")

\* ------------------------------------------------------------- mechanism
VARIABLES inst, phase, todo, order, pos, trees, out
pvars == <<inst, phase, todo, order, pos, trees, out>>

PhaseSeq == <<"pick", "attach", "includes", "tsort", "features", "identities", "idbase", "idcycle", "groupings",
              "expand", "deviate", "build", "done">>
PhaseNo(p) == CHOOSE i \in 1..Len(PhaseSeq) : PhaseSeq[i] = p
IdKeys(I) == {d.home \o ":" \o d.n : d \in DefsK(I, "identity")}
IdOf(I, key) == CHOOSE d \in DefsK(I, "identity") : d.home \o ":" \o d.n = key
\* vertices of the import graph: the modules and every imported name
Vertices(I) == I.mods \cup {e[2] : e \in I.imp}
Perms(S) == {f \in [1..Cardinality(S) -> S] : \A i, j \in 1..Cardinality(S) : i # j => f[i] # f[j]}
TopoOrders(I) == {f \in Perms(Vertices(I)) : \A i, j \in 1..Len(f) : <<f[i], f[j]>> \in LiftImp(I) => j < i}
Orders(I) == IF SortMode = "topo" THEN TopoOrders(I) ELSE Perms(Vertices(I))
\* keys of the loop of a phase (map loops: a set; sort-order loops use order/pos)
KeysOf(I, p) == CASE p = "attach" -> {sb[1] : sb \in I.subs}
                  [] p \in {"includes", "features", "identities", "groupings"} -> I.mods
                  [] p \in {"idbase", "idcycle"} -> IdKeys(I)
                  [] OTHER -> {}
Fail == /\ phase' = "done" /\ out' = [verdict |-> "error", schema |-> {}]
        /\ UNCHANGED <<inst, todo, order, pos, trees>>
\* move on to the next phase when the loop is exhausted
Advance(p) == /\ phase' = p /\ todo' = KeysOf(inst, p) /\ pos' = 1
              /\ UNCHANGED <<inst, order, trees, out>>
Consume(k) == /\ todo' = todo \ {k} /\ UNCHANGED <<inst, phase, order, pos, trees, out>>

\* --- per key checks of the check-only phases (what the RFC forbids, looked at locally)
AttachBad(I, s) == \E sb \in I.subs : sb[1] = s /\ sb[2] \notin I.mods
\* (a scope shadowing a top-level name is refused when the scopes of the module are set up: the
\* first phase that looks at the module)
IncludesBad(I, m) == \/ ShadowIn(I, m)
                     \/ HasCycle(IncEdgesOf(I, m))
                     \/ \E e \in IncEdgesOf(I, m) : e[2] \notin SubsOf(I, m)
FeaturesBad(I, m) == \E f \in {d \in DefsK(I, "feature") : ModH(d.home) = m} :
                        \/ ReachesCycle(KEdges(I, "feature"), DefKey(f))
                        \/ \E g \in {f} \cup {d \in DefsK(I, "feature") : DefKey(d) \in Reach1(KEdges(I, "feature"), DefKey(f))} :
                              \E r \in g.refs : ~Resolves(I, g.home, "feature", r)
IdBaseBad(I, key) == \E r \in IdOf(I, key).refs : ~Resolves(I, IdOf(I, key).home, "identity", r)
\* (the derived-identity tree is complete when the cycle loop runs)
IdCycleBad(I, key) == LET E == {<<e[2], e[1]>> : e \in KEdges(I, "identity")} IN ReachesCycle(E, DefKey(IdOf(I, key)))
\* grouping validation of module m: cycles (any module's groupings reachable) and unresolvable uses
GroupingsBad(I, m) == \E g \in {d \in DefsK(I, "grouping") : ModH(d.home) = m} :
                         \/ ReachesCycle(KEdges(I, "grouping"), DefKey(g))
                         \/ \E r \in g.refs : ~Resolves(I, g.home, "grouping", r)

\* --- expansion of module m (uses of its data nodes, then its augments, targets looked up in the
\*     trees as they are NOW)
ExpandBad(I, m) == \/ m \notin I.mods
                   \/ \E r \in {x \in I.roots : ModH(x.home) = m /\ x.k = "grouping"} : ~RootResolves(I, r)
                   \/ IllBad(I, m, {"uses-augment", "refine", "augment"})
ExpandedOwn(I, m) == IllApply(I, m, {"uses-augment", "refine"},
                              Literal(I, m) \cup UNION {RootNodes(I, r) : r \in {x \in I.roots : ModH(x.home) = m /\ x.k = "grouping"}})
\* --- build of module m: types, identityrefs, if-features of its data nodes; typedef cycles anywhere in m
BuildBad(I, m) == \/ \E r \in {x \in I.roots : ModH(x.home) = m /\ x.k # "grouping"} : ~RootResolves(I, r)
                  \/ IllBad(I, m, {"unique"})
                  \/ \E d \in {x \in DefsK(I, "typedef") : ModH(x.home) = m} :
                        \/ ReachesCycle(KEdges(I, "typedef"), DefKey(d))
                        \/ \E r \in d.refs : ~Resolves(I, d.home, "typedef", r)
                  \/ \E r \in {x \in I.roots : ModH(x.home) = m /\ x.k = "typedef" /\ RootResolves(I, x)} :
                        LET E == KEdges(I, "typedef")  k0 == DefKey(TargetDef(I, "typedef", r.home, Ref(r.m, r.n))) IN
                        \/ ReachesCycle(E, k0)
                        \/ \E d \in {x \in DefsK(I, "typedef") : DefKey(x) \in {k0} \cup Reach1(E, k0)} :
                              \E q \in d.refs : ~Resolves(I, d.home, "typedef", q)
BuiltRoots(I, m) == UNION {RootNodes(I, r) : r \in {x \in I.roots : ModH(x.home) = m /\ x.k # "grouping"}}

PInit(I0) == /\ inst = I0 /\ phase = "attach" /\ todo = KeysOf(I0, "attach") /\ order = << >> /\ pos = 1
             /\ trees = [m \in I0.mods |-> {}] /\ out = [verdict |-> "none", schema |-> {}]
\* the same as an action (used by the model checker's first step and by the trace validator)
PStart(I0) == /\ inst' = I0 /\ phase' = "attach" /\ todo' = KeysOf(I0, "attach") /\ order' = << >> /\ pos' = 1
              /\ trees' = [m \in I0.mods |-> {}] /\ out' = [verdict |-> "none", schema |-> {}]

MapPhase(p, nxt, Bad(_, _)) ==
  /\ phase = p
  /\ IF todo = {} THEN Advance(nxt)
     ELSE \E k \in todo : IF Bad(inst, k) THEN Fail ELSE Consume(k)

Tsort == /\ phase = "tsort"
         /\ IF SortMode = "topo" /\ HasCycle(LiftImp(inst)) THEN Fail
            ELSE \E f \in Orders(inst) :
                   /\ order' = f /\ phase' = "features" /\ todo' = KeysOf(inst, "features") /\ pos' = 1
                   /\ UNCHANGED <<inst, trees, out>>

Expand == /\ phase = "expand"
          /\ IF pos > Len(order)
             THEN /\ phase' = "deviate" /\ pos' = 1 /\ UNCHANGED <<inst, todo, order, trees, out>>
             ELSE LET m == order[pos] IN
                  IF ExpandBad(inst, m) THEN Fail
                  ELSE LET own == ExpandedOwn(inst, m)
                           t1 == [trees EXCEPT ![m] = trees[m] \cup own]      \* keeps what others augmented into m earlier
                           myaugs == {a \in inst.augs : UnitMod(inst, a.m) = m}
                           illaugs == IllOf(inst, m, {"augment"})      \* (their target lives in the tree of m1)
                       IN IF \/ Collides(own) \/ \E a \in myaugs : ~AugPrefixOK(inst, a) \/ ~Has(t1[a.t], AugTarget(a), "c")
                             \/ \E x \in illaugs : ~\E n \in t1["m1"] : n.p = IllPath(inst, x)
                          THEN Fail
                          ELSE /\ trees' = [x \in DOMAIN t1 |-> LET t2 == t1[x] \cup {AugLeaf(inst, a) : a \in {y \in myaugs : y.t = x}}
                                                                  IN IF x = "m1" THEN IllApply(inst, m, {"augment"}, t2) ELSE t2]
                               /\ pos' = pos + 1 /\ UNCHANGED <<inst, phase, todo, order, out>>

Deviate == /\ phase = "deviate"
           /\ IF pos > Len(order)
              THEN /\ phase' = "build" /\ pos' = 1 /\ UNCHANGED <<inst, todo, order, trees, out>>
              ELSE LET m == order[pos]  mydevs == {d \in inst.devs : d.m = m} IN
                   IF \/ \E d \in mydevs : ~DevPrefixOK(inst, d) \/ ~Has(trees[d.t], DevTarget(d), "l")
                      \/ IllBad(inst, m, {"deviation"}) \/ \E x \in IllOf(inst, m, {"deviation"}) : ~\E n \in trees["m1"] : n.p = IllPath(inst, x)
                   THEN Fail
                   ELSE \* the deviations are recorded on the leaf (who replaced it) and resolved as in the meaning
                        /\ trees' = [x \in DOMAIN trees |-> IllApply(inst, m, IF x = "m1" THEN {"deviation"} ELSE {},
                                       {IF \E d \in mydevs : d.t = x /\ DevTarget(d) = n.p
                                        THEN LET d == CHOOSE d \in mydevs : d.t = x /\ DevTarget(d) = n.p IN
                                             IF d.how = "rep" THEN [n EXCEPT !.d = IF n.d \in {"", "d0"} THEN "d" \o m ELSE IF n.d = "d" \o m THEN n.d ELSE "?"]
                                             ELSE [n EXCEPT !.ns = TRUE]
                                        ELSE n : n \in trees[x]})]
                        /\ pos' = pos + 1 /\ UNCHANGED <<inst, phase, todo, order, out>>

Build == /\ phase = "build"
         /\ IF pos > Len(order)
            THEN /\ phase' = "done" /\ UNCHANGED <<inst, todo, order, pos, trees>>
                 /\ out' = [verdict |-> "ok", schema |-> Strip({n \in UNION {trees[m] : m \in inst.mods} : ~n.ns})]
            ELSE LET m == order[pos] IN
                 IF BuildBad(inst, m) \/ Collides(trees[m] \cup BuiltRoots(inst, m)) THEN Fail
                 ELSE /\ trees' = [trees EXCEPT ![m] = trees[m] \cup BuiltRoots(inst, m)]
                      /\ pos' = pos + 1 /\ UNCHANGED <<inst, phase, todo, order, out>>

PNext == \/ MapPhase("attach", "includes", AttachBad)
         \/ MapPhase("includes", "tsort", IncludesBad)
         \/ Tsort
         \/ MapPhase("features", "identities", FeaturesBad)
         \/ MapPhase("identities", "idbase", LAMBDA I, k : FALSE)
         \/ MapPhase("idbase", "idcycle", IdBaseBad)
         \/ MapPhase("idcycle", "groupings", IdCycleBad)
         \/ MapPhase("groupings", "expand", GroupingsBad)
         \/ Expand \/ Deviate \/ Build

\* ------------------------------------------------------------- what TLC checks
Done == phase = "done"
\* every terminal outcome is the meaning of the input: error iff cycle / dangling / clash, and
\* the same schema whatever the orders taken (confluence)
Confluent == Done => out = Expected(inst)
\* termination: every step strictly decreases this measure, and only `done` is terminal
Measure == (Len(PhaseSeq) - PhaseNo(phase)) * 16 + Cardinality(todo) + (IF phase \in {"expand", "deviate", "build"} THEN 8 - pos ELSE 0)
Progress == [][phase # "pick" => Measure' < Measure]_pvars
NoStuck == phase # "done" => ENABLED PNext
=============================================================================
