---------------------------- MODULE XPathFuncsMC ----------------------------
(* Small pools for the exhaustive exploration of XPathFuncs (all orders of registrations,
   compilations and runs up to MaxSteps steps).                                         *)
EXTENDS XPathFuncs
SmallInfoPool == {Info("my-fn", <<"n">>, "n", "arg", "typed"), Info("my-fn", << >>, "s", "const", "typed"), Info("x2", << >>, "n", "panic", "none"),
                  Info("Bad_Name", << >>, "n", "const", "typed"), Info("contains", <<"s", "s">>, "b", "const", "typed")}
SmallBatches(u_) == {<<i>> : i \in SmallInfoPool} \cup {<<Info("my-fn", <<"n">>, "n", "arg", "typed"), Info("my-fn", << >>, "s", "const", "typed")>>}
SmallExprPool(u_) == {FCall("my-fn", << >>), FCall("my-fn", <<LitE("12")>>), BinE("+", FCall("my-fn", <<NumE(1)>>), NumE(1)),
                      FCall("contains", <<LitE("ab"), LitE("b")>>), FCall("string", <<FCall("x2", << >>)>>), FCall("nosuch", << >>)}
SmallNamePool == {"my-fn", "contains", "Bad_Name", "nosuch"}
SmallChkPool == {{}, {"my-fn", "nosuch"}}
=============================================================================
