---------------------------- MODULE YangStmtTpl ----------------------------
(* Templates: the minimal valid context the spec builds around a probe.

     Mk(kw, i, P)      minimal valid statement of keyword kw, i-th of its kind, under parent P
     PStmt(P, C, n)    statement of parent P carrying n statements of keyword C
     Embed(X)          X wrapped in its hosts up to a module / submodule
     Complete(root)    root plus the definitions it refers to (prelude)
     Companions(root)  the other modules a compile of root needs
     Probe families    cardinality triples, section orders, revision lists, argument strings,
                       keyword table, random trees                                            *)
EXTENDS YangStmt, SequencesExt

Is(i) == ToString(i)
Nm(i) == "p" \o Is(i)
TypeStr == Lf("type", "string")
ExtKw == "p:ext"
RootName == "probe"

Mk(kw, i, P) ==
  CASE kw = "module"       -> St(kw, "m" \o Is(i), <<Lf("namespace", "urn:m" \o Is(i)), Lf("prefix", "m" \o Is(i))>>)
    [] kw = "submodule"    -> St(kw, "s" \o Is(i), <<St("belongs-to", RootName, <<Lf("prefix", "p")>>)>>)
    [] kw = "yang-version" -> Lf(kw, "1")
    [] kw = "namespace"    -> Lf(kw, "urn:p" \o Is(i))
    [] kw = "prefix"       -> Lf(kw, IF P = "import" THEN "i" \o Is(i) ELSE IF i = 1 THEN "p" ELSE Nm(i))
    [] kw = "import"       -> St(kw, "imp" \o Is(i), <<Lf("prefix", "i" \o Is(i))>>)
    [] kw = "include"      -> Lf(kw, "sub" \o Is(i))
    [] kw = "revision"     -> Lf(kw, "2020-0" \o Is(9 - i) \o "-01")         \* later statements are older
    [] kw = "revision-date"-> Lf(kw, "2020-01-01")
    [] kw = "belongs-to"   -> St(kw, "main", <<Lf("prefix", "p")>>)
    [] kw \in {"organization","contact","description","reference","units","presence","error-app-tag",
               "error-message","default"} -> Lf(kw, "t")
    [] kw = "typedef"      -> St(kw, "t" \o Is(i), <<TypeStr>>)
    [] kw = "type"         -> TypeStr
    [] kw \in {"container","choice","case","anyxml","grouping","rpc","notification","identity","extension",
               "feature","enum","bit"} -> Lf(kw, Nm(i))
    [] kw \in {"leaf","leaf-list"} -> St(kw, Nm(i), <<TypeStr>>)
    [] kw = "list"         -> St(kw, Nm(i), <<Lf("key", "k"), St("leaf", "k", <<TypeStr>>)>>)
    [] kw = "key"          -> Lf(kw, "k")
    [] kw = "unique"       -> Lf(kw, "k")
    [] kw \in {"must","when"} -> Lf(kw, "true()")
    [] kw = "uses"         -> Lf(kw, "g" \o Is(i))
    [] kw = "refine"       -> Lf(kw, IF i = 1 THEN "gl1" ELSE "gc1")
    [] kw = "augment"      -> IF P = "uses" THEN St(kw, "gc1", <<St("leaf", "a" \o Is(i), <<TypeStr>>)>>)
                              ELSE St(kw, "/tc", <<St("leaf", "a" \o Is(i), <<TypeStr>>)>>)
    [] kw \in {"input","output"} -> St(kw, NoArg, <<St("leaf", "io" \o Is(i), <<TypeStr>>)>>)
    [] kw = "base"         -> Lf(kw, "idn")
    [] kw = "argument"     -> Lf(kw, "a" \o Is(i))
    [] kw = "yin-element"  -> Lf(kw, "true")
    [] kw = "if-feature"   -> Lf(kw, "f" \o Is(i))
    [] kw = "deviation"    -> St(kw, "/tl" \o Is(i), <<Lf("deviate", "not-supported")>>)
    [] kw = "deviate"      -> IF i = 1 THEN Lf(kw, "not-supported") ELSE St(kw, "add", <<Lf("units", "t")>>)
    [] kw \in {"range","length"} -> Lf(kw, "1..2")
    [] kw = "pattern"      -> Lf(kw, "a*")
    [] kw \in {"value","position"} -> Lf(kw, Is(i))
    [] kw = "path"         -> Lf(kw, "/tl1")
    [] kw = "fraction-digits" -> Lf(kw, "2")
    [] kw \in {"require-instance","config","mandatory"} -> Lf(kw, "true")
    [] kw = "status"       -> Lf(kw, "current")
    [] kw = "min-elements" -> Lf(kw, "1")
    [] kw = "max-elements" -> Lf(kw, "2")
    [] kw = "ordered-by"   -> Lf(kw, "user")
    [] OTHER               -> Lf(kw, "x")         \* extension statements

\* where a statement of keyword kw is hosted ("" = it is a root)
HostKw(kw) ==
  CASE kw \in {"module", "submodule"} -> ""
    [] kw = "type" -> "leaf"
    [] kw \in {"range","length","pattern","enum","bit","path","fraction-digits","require-instance","base"} -> "type"
    [] kw = "value" -> "enum"
    [] kw = "position" -> "bit"
    [] kw = "case" -> "choice"
    [] kw \in {"input", "output"} -> "rpc"
    [] kw = "refine" -> "uses"
    [] kw = "argument" -> "extension"
    [] kw = "yin-element" -> "argument"
    [] kw = "revision-date" -> "import"
    [] kw = "belongs-to" -> "submodule"
    [] kw = "deviate" -> "deviation"
    [] kw \in {"key","unique","ordered-by","min-elements","max-elements"} -> "list"
    [] kw \in {"must","when","presence","config","status","if-feature"} -> "container"
    [] kw \in {"mandatory","default","units"} -> "leaf"
    [] kw \in {"error-app-tag","error-message"} -> "must"
    [] OTHER -> "module"

TypeFor(c) ==
  CASE c = "bit" -> "bits" [] c = "enum" -> "enumeration" [] c \in {"length", "pattern"} -> "string"
    [] c = "range" -> "int32" [] c = "fraction-digits" -> "decimal64" [] c = "path" -> "leafref"
    [] c = "require-instance" -> "instance-identifier" [] c = "base" -> "identityref" [] c = "type" -> "union"
    [] OTHER -> "string"
PlainItems(a) == LET it == Items(Toks(a)) IN {i \in 1..Len(it) : IsPlainId(it[i])}
RECURSIVE Join(_)
Join(ts) == IF ts = << >> THEN "" ELSE Head(ts) \o Join(Tail(ts))
ItemNames(a) == {Join(Items(Toks(a))[i]) : i \in PlainItems(a)}
LeavesFor(names) == [i \in 1..Cardinality(names) |-> St("leaf", SetToSeq(names)[i], <<TypeStr>>)]

\* the statement of keyword h that will carry statement X (adapted so that the pair is semantically clean)
HostFor(h, X) ==
  LET c == X.kw IN
  CASE h = "module"    -> St("module", RootName, <<Lf("namespace", "urn:p"), Lf("prefix", "p")>>)
    [] h = "submodule" -> St("submodule", RootName, <<St("belongs-to", "main", <<Lf("prefix", "p")>>)>>)
    [] h = "type" -> IF c = "range" /\ HasDecimal(Toks(X.arg)) THEN St("type", "decimal64", <<Lf("fraction-digits", "4")>>)
                     ELSE Lf("type", TypeFor(c))
    [] h = "list" -> IF c = "key" THEN St("list", "p1", IF ArgVerdict("key", X.arg) = "valid" THEN LeavesFor(IF ItemNames(X.arg) = {} THEN {"k"} ELSE ItemNames(X.arg))
                                                        ELSE LeavesFor(ItemNames(X.arg) \cup {"k"}))
                     ELSE IF c = "unique" THEN St("list", "p1", <<Lf("key", "k"), St("leaf", "k", <<TypeStr>>)>>
                                                   \o LeavesFor(ItemNames(X.arg) \ {"k"}))
                     ELSE Mk("list", 1, "module")
    [] h = "deviation" -> Lf("deviation", "/tl1")
    [] OTHER -> Mk(h, 1, HostKw(h))
\* put X into host: replace the host's own statement of that keyword, else append
Place(host, X) ==
  IF \E i \in 1..Len(host.subs) : host.subs[i].kw = X.kw
  THEN LET i == CHOOSE j \in 1..Len(host.subs) : host.subs[j].kw = X.kw /\ \A k \in 1..(j-1) : host.subs[k].kw # X.kw IN
       St(host.kw, host.arg, [j \in 1..Len(host.subs) |-> IF j = i THEN X ELSE host.subs[j]])
  ELSE St(host.kw, host.arg, Append(host.subs, X))
\* module children in section order (stable); extension statements stay in the body
RankOf(s) == IF s.kw \in Keywords THEN SectionRank(s.kw) ELSE 5
Assemble(t) == IF t.kw \notin {"module", "submodule"} THEN t
               ELSE St(t.kw, t.arg, SelectSeq(t.subs, LAMBDA s : RankOf(s) = 1) \o SelectSeq(t.subs, LAMBDA s : RankOf(s) = 2)
                                 \o SelectSeq(t.subs, LAMBDA s : RankOf(s) = 3) \o SelectSeq(t.subs, LAMBDA s : RankOf(s) = 4)
                                 \o SelectSeq(t.subs, LAMBDA s : RankOf(s) = 5))
RECURSIVE Embed(_)
Embed(X) == IF HostKw(X.kw) = "" THEN X
            ELSE Embed(Assemble(Place(HostFor(HostKw(X.kw), X), X)))

(* ---- prelude: definitions the tree refers to ---- *)
RECURSIVE AllStmts(_)
AllStmts(t) == {t} \cup UNION {AllStmts(t.subs[i]) : i \in 1..Len(t.subs)}
\* local name of an identifier reference with our own prefix (or none); "" if it is not ours
Local(a) == LET ps == Split(Toks(a), {":"}) IN
            IF ~IsNodeId(Toks(a)) THEN "" ELSE IF Len(ps) = 1 THEN a ELSE IF Join(ps[1]) = "p" THEN Join(ps[2]) ELSE ""
\* the name an ill-formed reference would resolve to if a lenient parser let it through (empty pieces dropped):
\* the template defines it too, so that a wrongly accepted argument is not rescued by an unrelated "not found"
LenientLocal(a) == LET ps == NonEmpty(Split(Toks(a), {":"})) IN
  IF Len(ps) \in {1, 2} /\ (\A i \in 1..Len(ps) : IsIdent(ps[i])) /\ (Len(ps) = 1 \/ Join(ps[1]) = "p") THEN Join(ps[Len(ps)]) ELSE ""
StepNames(a) == LET st == NonEmpty(Split(Toks(a), {"/"})) IN [i \in 1..Len(st) |-> LenientLocal(Join(st[i]))]
RECURSIVE Chain(_)
Chain(ns) == St("container", ns[1], IF Len(ns) = 1 THEN << >> ELSE <<Chain(Tail(ns))>>)
GroupingFor(g) ==
  IF g \in {"g1", "g2"} THEN
    LET k == SubSeq(g, 2, 2) IN
    St("grouping", g, <<St("leaf", "gl" \o k, <<TypeStr>>), St("container", "gc" \o k, <<Lf("container", "gc" \o k)>>), St("leaf-list", "gll" \o k, <<TypeStr>>)>>)
  ELSE St("grouping", g, <<St("leaf", "gx", <<TypeStr>>)>>)
DefFor(s) ==        \* set of definitions statement s needs
  CASE s.kw = "uses" /\ LenientLocal(s.arg) # "" -> {GroupingFor(LenientLocal(s.arg))}
    [] s.kw = "if-feature" /\ LenientLocal(s.arg) # "" -> {Lf("feature", LenientLocal(s.arg))}
    [] s.kw = "base" /\ LenientLocal(s.arg) # "" -> {Lf("identity", LenientLocal(s.arg))}
    [] s.kw = "type" /\ LenientLocal(s.arg) # "" /\ LenientLocal(s.arg) \notin Builtin -> {St("typedef", LenientLocal(s.arg), <<TypeStr>>)}
    [] IsExtKw(s.kw) /\ Len(s.kw) > 2 /\ SubSeq(s.kw, 1, 2) = "p:" -> {St("extension", SubSeq(s.kw, 3, Len(s.kw)), <<Lf("argument", "a")>>)}
    [] s.kw \in {"augment", "deviation"} /\ s.arg = "/tc" -> {Lf("container", "tc")}
    [] s.kw \in {"deviation", "path"} /\ Len(s.arg) = 4 /\ SubSeq(s.arg, 1, 3) = "/tl" -> {St("leaf", SubSeq(s.arg, 2, 4), <<TypeStr>>)}
    [] s.kw \in {"augment", "deviation"} /\ Len(s.arg) >= 1 /\ SubSeq(s.arg, 1, 1) = "/" /\ Len(StepNames(s.arg)) >= 1 /\ (\A i \in 1..Len(StepNames(s.arg)) : StepNames(s.arg)[i] # "")
         -> {Chain(StepNames(s.arg))}
    [] OTHER -> {}
Defined(root, d) == \E i \in 1..Len(root.subs) : root.subs[i].kw = d.kw /\ root.subs[i].arg = d.arg
Complete(root) ==
  LET need == UNION {DefFor(s) : s \in AllStmts(root)}
      add == {d \in need : ~Defined(root, d)} IN
  St(root.kw, root.arg, root.subs \o SetToSeq(add))      \* definitions are body statements: appended, order kept

(* ---- companion modules for a compile ---- *)
CompRev == Lf("revision", "2020-01-01")
Companions(root) ==
  LET ss == AllStmts(root)
      owner == IF root.kw = "submodule" THEN "main" ELSE root.arg
      imps == {s.arg : s \in {x \in ss : x.kw = "import" /\ IsIdent(Toks(x.arg))}}
      incs == {s.arg : s \in {x \in ss : x.kw = "include" /\ IsIdent(Toks(x.arg))}}
      bel == IF root.kw = "submodule" THEN {s.arg : s \in {x \in ss : x.kw = "belongs-to" /\ IsIdent(Toks(x.arg))}} ELSE {}
      m(a) == St("module", a, <<Lf("namespace", "urn:c:" \o a), Lf("prefix", "c"), CompRev>>)
      sm(a) == St("submodule", a, <<St("belongs-to", owner, <<Lf("prefix", "c")>>), CompRev>>)
      own(a) == St("module", a, <<Lf("namespace", "urn:c:" \o a), Lf("prefix", "c")>>
                                  \o <<Lf("include", root.arg)>> \o [i \in 1..Cardinality(incs) |-> Lf("include", SetToSeq(incs)[i])]) IN
  SetToSeq({m(a) : a \in imps \ {root.arg}} \cup {sm(a) : a \in incs \ {root.arg}} \cup {own(a) : a \in bel \ {root.arg}})

(* ---- cardinality probes ---- *)
ExtOrKw == Keywords \cup {ExtKw, "foo"}          \* "foo": an unprefixed keyword that is no YANG statement
Required(P, C) == C \in DOMAIN Sub(P) /\ Sub(P)[C][1] >= 1
PBase(P, C, n) ==
  CASE P \in {DevId(k) : k \in DeviateKinds} -> Lf("deviate", SubSeq(P, 9, Len(P)))
    [] P = "type" -> Lf("type", IF n = 0 THEN "string" ELSE TypeFor(C))
    [] P = "refine" -> Lf("refine", IF C = "presence" THEN "gc1" ELSE IF C \in {"min-elements", "max-elements"} THEN "gll1" ELSE "gl1")
    [] P = "list" /\ C = "key" /\ n = 0 -> St("list", "p1", <<Lf("config", "false"), St("leaf", "k", <<TypeStr>>)>>)
    [] P \in {"module", "submodule"} -> HostFor(P, Lf(C, ""))
    [] P \in {"grouping", "typedef"} -> LET b == Mk(P, 1, HostKw(P)) IN St(b.kw, "h1", b.subs)      \* nested definitions must not shadow
    [] OTHER -> Mk(P, 1, HostKw(P))
PStmt(P, C, n) ==
  LET b == PBase(P, C, n)
      keep == IF Required(P, C) \/ (P = "list" /\ C = "key") THEN SelectSeq(b.subs, LAMBDA s : s.kw # C) ELSE b.subs IN
  Assemble(St(b.kw, b.arg, keep \o [i \in 1..n |-> Mk(C, i, P)]))
\* the tree for n = 0 is the same for every C that the template does not contain: one representative is enough
CardCounts(P, C, max) == {n \in 0..max : n > 0 \/ Required(P, C) \/ (P = "list" /\ C = "key") \/ C = "anyxml"}
CardTree(P, C, n) == Complete(Embed(PStmt(P, C, n)))
\* path of the P statement inside the embedded tree: follow the unique statement with P's keyword and argument
RECURSIVE FindPath(_, _, _)
FindPath(t, X, path) ==
  IF t = X THEN {path} ELSE UNION {FindPath(t.subs[i], X, Append(path, i)) : i \in 1..Len(t.subs)}

\* semantic cleanliness: compile of a grammatically valid probe is demanded only for these
ForeignRef(t) == \E s \in AllStmts(t) : s.kw \in {"type","uses","base","if-feature"} /\ IsNodeId(Toks(s.arg)) /\ Local(s.arg) = ""
CardClean(P, C, n) ==
  /\ ~(P = "choice" /\ C = "default")                        \* a default needs its case
  /\ ~(P = "deviation" /\ C = "deviate" /\ n >= 2)
  /\ P \notin {DevId(k) : k \in DeviateKinds}               \* what may be added / deleted / replaced depends on the target
  /\ ~(C = ExtKw /\ P \in {"refine", "augment"})             \* applying an extension to a target is the extension's business
  /\ ~(P = "augment" /\ C = "case")                          \* the template's target is a container

(* ---- argument candidates per kind (verdicts are computed by ArgVerdict, not written here) ---- *)
Cat3(A, B, C) == UNION {UNION {{a \o b \o c : c \in C} : b \in B} : a \in A}
Cat2(A, B) == UNION {{a \o b : b \in B} : a \in A}
Cands(kind) ==
  CASE kind = "identifier" -> Cat3({"a", "_", "X", "x", "1", "-", ".", "~u", ""}, {"", "b", "9", "-", ".", "_", ":", " ", "~e", "ml", "ML", "/", "+"}, {"", "c", "L1"})
    [] kind = "idref" -> {"a", "p:a", "p:", "a:", ":a", "a:b:c", "p:1a", "1p:a", "p :a", "p: a", "p:a.b", "xml:a", "p:xml", "p:xm", "p:~ua", "~up:a",
                          "a::b", "", "p:a-b", "p:_a", "P:A", "q:a", "p:a b", "p/a", "p:a/b", "p:a:", ":", "-a", "p:-a", ".a", "a.", "a-", "p;a", "p:a~e"}
    [] kind = "date" -> {"2020-01-01", "2020-1-01", "2020-01-1", "20-01-01", "2020/01/01", "2020-01-01 ", " 2020-01-01", "+020-01-01", "-020-01-01",
                         "2020-+1-01", "2020-01-+1", "2020-13-01", "2020-02-30", "2020-00-10", "2020-01-00", "0001-01-01", "2020-01-0a", "2020-0a-01",
                         "202a-01-01", "2020-01-011", "02020-01-01", "", "2020-01", "2020_01_01", "2020-01-01T00", "~u020-01-01", "2020-01-0~u", "2020.01.01",
                         "2020-0101", "20200101", "2020-01-01-", "2020--1-01", "1999-12-28", "2020-12-28", "2020 01 01", "0x20-01-01", "2020-1_-01", "2_20-01-01"}
    [] kind = "boolean" -> {"true", "false", "TRUE", "True", "1", "0", "t", "T", "f", "F", "yes", "no", "", " true", "true ", "tru", "truee", "FALSE", "False",
                            "on", "off", "true;", "~ttrue", "tr~ue", "false0", "0x1", "+1", "truefalse", "null"}
    [] kind \in {"integer", "nonneg", "maxel"} ->
         Cat2({"", "-", "+"}, {"0", "1", "10", "01", "00", "007", "0x2", "0X2", "0b1", "0o7", "1_0", "1e1", "1.0", "", "a", "12345", "2147483647", " 1", "1 ",
                               "unbounded", "~u", "1~u", "-1", "123456789"}) \cup {"Unbounded", "UNBOUNDED", "unbounded ", "max", "1-", "1+1"}
    [] kind = "status" -> {"current", "obsolete", "deprecated", "Current", "CURRENT", "curr", "current ", " current", "", "deprecate", "obsoleted", "true", "user", "add", "1", "currentobsolete", "~ucurrent"}
    [] kind = "orderedby" -> {"user", "system", "User", "SYSTEM", "", "user ", " system", "usr", "users", "current", "true", "unordered", "system-ordered", "0", "user~e"}
    [] kind = "deviate" -> {"add", "delete", "replace", "not-supported", "Add", "DELETE", "", "add ", " add", "not_supported", "notsupported", "not-supporte", "remove", "adds", "replace1", "true", "~uadd"}
    [] kind = "range" ->
         LET P == {"1", "1..5", "min..5", "5..max", "min..max", "-3..5", "1 .. 5", "min", "max", "0", "-0"}
             Bad == {"1..", "..5", "1...5", "1.5.", "+1..5", "01..5", "0x1..5", "a..5", "1..5..10", "1. .5", "", " ", "|", "1|", "|1", "1||5", "1,5", "1-5",
                     "1.", ".5", "1.5.2", "--1", "1..+5", "1 5", "1..5 6", "MIN", "Max..5", "1..max1", "1e1", "1_0..5", "~u", "1..~u", "1.~e5"}
             Sem == {"5..1", "1..1", "1|1", "5|1", "max..min", "1..max|5", "min|min", "1.5..1.6", "1.0..5", "-3.25..5.5", "1.5", "1.5|2.5", "1.55555..2",
                     " 1..5", "1..5 ", "~t1", "1~n", "1234567..12345678", "1..5|3..9", "1~t..~n5", "1..5~n|~t7"} IN
         P \cup Bad \cup Sem \cup Cat3({"1..2", "min..2", "1"}, {"|", " | ", "||", "| |", " "}, {"5", "5..max", "7..9", "max", "2", "a"})
    [] kind = "length" ->
         {"1", "1..5", "min..5", "5..max", "min..max", "0", "0..0", "1 .. 5", "1|5", "1..2 | 5..max", "min", "max",
          "-1", "-0", "-3..5", "1.5", "1..2.5", "+1", "01", "0x1", "00", "1..", "..5", "1...5", "", " ", "|", "1|", "|1", "1||5", "a", "1,5", "1-5", "1 5",
          "1..5..10", "MIN", "1e1", "1_0", "~u", "5..1", "1|1", "max..min", " 1", "1 ", "1~t|~n5", "1..max|5", "123456789012"}
    [] kind = "key" -> {"k", "k j", "k  j", "k~tj", "k~nj", " k", "k ", "k,j", "k;j", "p:k", "p:k j", "k k", "1k", "k 1j", "", "  ", "k/j", "k.j", "a:b:c",
                        "k~uj", "xmlk", ":k", "k:", "k j i", "_k", "k-1 j.2", "k+j", "k|j", "~e", "k ~e", "/k", "k j:", "K"}
    [] kind = "unique" -> {"k", "k j", "a/b", "a/b c", "/a", "a/", "a//b", "a/b/", "a b/", "p:a/p:b", "1a", "a/1b", "", " ", "k,j", "k k", "../a", "a/..",
                           "./a", "a/~ub", "k~tj", "k~nj", " k", "k ", "a/b/c", "a:b:c", "a/xmlb", "k j i", "p:k", "k;", "a/b:", "a/:b", "a\\b", "k|j"}
    [] kind = "absnode" -> {"/tl1", "/tc", "/p:tl1", "/a/b", "a", "a/b", "/", "//a", "/a/", "/a//b", "/1a", "/a:", "/:a", "/a b", "", "/a/p:b", "/a.b", "/xmla",
                            " /a", "/a ", "/a/1b", "/p:a:b", "/a;", "p:a", "/~ua", "/a/~eb", "./a", "../a", "/a/..", "/a/.", "/a|/b", "/-a", "/_a", "/a-"}
    [] kind = "descnode" -> {"gl1", "gc1", "gc1/x", "p:gl1", "/gl1", "gl1/", "gl1//x", "1a", "", "a b", "a/1b", "a:", ":a", "a/b/c", "a/p:b", "a.b/c-d", "xmla",
                             "a/xmlb", "../a", "./a", "a/..", "~ua", "a/~eb", " a", "a ", "a;", "a|b", "a:b:c", "-a", "_a/_b"}
    [] kind = "fracdigits" -> {"1","2","3","4","5","6","7","8","9","10","11","12","13","14","15","16","17","18"}
                              \cup {"0", "19", "20", "01", "001", "018", "+1", "+18", "-1", "1 ", " 1", "", "a", "1.0", "0x1", "0x12", "100", "1_", "1_8", "1e1", "~u", "1~u", "99", "00", "i", "1,8"}
    [] kind = "pattern" ->
         LET U == {"a", "b*", "[a-z]", "(a|b)", "(", ")", "*", "+", "?", "|", "[a", "a+", "a?", ".", "\\d", ")(", "[0-9]+", "ab"} IN
         U \cup Cat2(U, U) \cup {"", "(a)(b)", "((a)", "(a))", "a{2}", "[^a]", "a|b|c", "(a|b)*c", "a**", "a+*", "a*?", "[ab]c", "[a-z", "a]", "^a$", "(*a)", "(|a)", "[z-a]", "~u", "a~e*"}
    [] OTHER -> {}

\* the statements an argument kind is probed on: <<keyword, parent keyword of the statement>>
SitesOf(kind) ==
  CASE kind = "identifier" -> {<<k, HostKw(k)>> : k \in {"module","submodule","import","include","belongs-to","typedef","container","leaf","leaf-list",
                                "list","choice","case","anyxml","grouping","rpc","notification","identity","extension","argument","feature","bit","prefix"}}
    [] kind = "idref" -> {<<"type", "leaf">>, <<"uses", "module">>, <<"base", "type">>, <<"if-feature", "container">>}
    [] kind = "date" -> {<<"revision", "module">>, <<"revision-date", "import">>}
    [] kind = "boolean" -> {<<"config", "container">>, <<"mandatory", "leaf">>, <<"require-instance", "type">>, <<"yin-element", "argument">>}
    [] kind = "integer" -> {<<"value", "enum">>}
    [] kind = "nonneg" -> {<<"position", "bit">>, <<"min-elements", "list">>}
    [] kind = "maxel" -> {<<"max-elements", "list">>}
    [] kind = "status" -> {<<"status", "container">>}
    [] kind = "orderedby" -> {<<"ordered-by", "list">>}
    [] kind = "deviate" -> {<<"deviate", "deviation">>}
    [] kind = "range" -> {<<"range", "type">>}
    [] kind = "length" -> {<<"length", "type">>}
    [] kind = "key" -> {<<"key", "list">>}
    [] kind = "unique" -> {<<"unique", "list">>}
    [] kind = "absnode" -> {<<"deviation", "module">>, <<"augment", "module">>}
    [] kind = "descnode" -> {<<"refine", "uses">>, <<"augment", "uses">>}
    [] kind = "fracdigits" -> {<<"fraction-digits", "type">>}
    [] kind = "pattern" -> {<<"pattern", "type">>}
    [] OTHER -> {}
QuickIdSites == {"module", "leaf", "prefix", "typedef", "bit", "case"}
SitesFor(kind, full) == IF full \/ kind # "identifier" THEN SitesOf(kind) ELSE {s \in SitesOf(kind) : s[1] \in QuickIdSites}
ArgStmt(kw, parentKw, a) ==
  LET b == Mk(kw, 1, parentKw) IN
  IF kw = "augment" /\ parentKw = "uses" THEN St("uses", "g1", <<St("augment", a, b.subs)>>)
  ELSE St(b.kw, a, b.subs)
ArgTree(kw, parentKw, a) == Complete(Embed(ArgStmt(kw, parentKw, a)))
\* compile of a valid argument probe is demanded unless the value needs definitions the template does not supply
ArgClean(kind, kw, a, tree) ==
  /\ ~ForeignRef(tree)
  /\ kind \in {"absnode", "descnode"} => a \in {"/tl1", "/tc", "gl1", "gc1"} /\ (kw = "augment" => a \in {"/tc", "gc1"}) /\ (kw = "deviation" => a = "/tl1") /\ (kw = "refine" => a \in {"gl1", "gc1"})
  /\ kind = "key" => \A i \in 1..Len(Items(Toks(a))) : IsPlainId(Items(Toks(a))[i])
  /\ kind = "unique" => \A i \in 1..Len(Items(Toks(a))) : IsPlainId(Items(Toks(a))[i])
  /\ kind = "deviate" => a = "not-supported"
  /\ kind = "identifier" /\ kw \in {"typedef"} => a \notin Builtin

(* ---- section order and revision probes ---- *)
OrderElems(root) ==
  <<Lf("yang-version", "1")>>
  \o (IF root = "module" THEN <<Lf("namespace", "urn:p"), Lf("prefix", "p")>> ELSE <<St("belongs-to", "main", <<Lf("prefix", "p")>>)>>)
  \o <<Mk("import", 1, root), Mk("import", 2, root), Lf("organization", "t"), Lf("contact", "t"), Lf("description", "t"), Lf("reference", "t"),
       Lf("revision", "2020-02-02"), Lf("revision", "2020-01-01"), Mk("leaf", 1, root), Mk("container", 2, root), Lf(ExtKw, "x")>>
MoveTo(sq, i, j) == InsertAt(RemoveAt(sq, i), j, sq[i])
OrderMoves(root) == LET e == OrderElems(root) IN
  {St(root, RootName, MoveTo(e, i, j)) : i \in 1..Len(e), j \in 1..Len(e)}
Blocks(root) == <<IF root = "module" THEN <<Lf("namespace", "urn:p"), Lf("prefix", "p")>> ELSE <<St("belongs-to", "main", <<Lf("prefix", "p")>>)>>,
                  <<Mk("import", 1, root)>>, <<Lf("organization", "t")>>, <<Lf("revision", "2020-02-02")>>, <<Mk("leaf", 1, root)>>>>
Perms5 == {p \in [1..5 -> 1..5] : \A i, j \in 1..5 : i # j => p[i] # p[j]}
OrderPerms(root) == LET b == Blocks(root) IN
  {St(root, RootName, b[p[1]] \o b[p[2]] \o b[p[3]] \o b[p[4]] \o b[p[5]]) : p \in Perms5}
\* a section dropped, two swapped: every order of every subset of the five sections
Subseqs5 == {s \in UNION {[1..n -> 1..5] : n \in 2..4} : \A i, j \in DOMAIN s : i # j => s[i] # s[j]}
OrderSubsets(root) == LET b == Blocks(root) IN
  {St(root, RootName, FlattenSeq([i \in DOMAIN s |-> b[s[i]]])) : s \in {x \in Subseqs5 : \E i \in DOMAIN x : x[i] = 1}}
OrderTrees(root) == {Complete(t) : t \in OrderMoves(root) \cup OrderPerms(root) \cup OrderSubsets(root)}

RevDates == <<"2020-01-01", "2020-01-02", "2021-01-01">>
RevTrees(root) ==
  LET hdr == Blocks(root)[1] IN
  {St(root, RootName, hdr \o [i \in DOMAIN s |-> Lf("revision", RevDates[s[i]])] \o <<Mk("leaf", 1, root)>>) :
     s \in UNION {[1..n -> 1..3] : n \in 1..3}}

(* ---- random statement trees (seeded by TLC -seed) ---- *)
RECURSIVE RandStmt(_, _, _, _)
RandStmt(kw, i, P, d) ==
  LET b == IF kw = "module" THEN HostFor("module", Lf("x", "")) ELSE Mk(kw, i, P)
      pid == PId(b)
      have == {b.subs[j].kw : j \in 1..Len(b.subs)}
      kids == {c \in DOMAIN Sub(pid) : Sub(pid)[c][2] = N \/ c \notin have} IN
  IF d = 0 \/ kids = {} \/ IsExtKw(kw) THEN b
  ELSE LET k == RandomElement(0..3)
           extra == [j \in 1..k |-> RandStmt(RandomElement(kids \cup {ExtKw}), 10 * i + j, pid, d - 1)] IN
       Assemble(St(b.kw, b.arg, b.subs \o extra))
RandTree(u, d) == Complete(RandStmt("module", 0, "", d))
RandArgStmt(u) ==       \* one statement with a candidate argument of its kind, for grafting
  LET kind == RandomElement(JudgedKinds)
      site == RandomElement(SitesOf(kind))
      a == RandomElement(Cands(kind)) IN ArgStmt(site[1], site[2], a)
PoolKw == Keywords \cup {ExtKw}
RandPool(u) == [j \in 1..6 |-> IF j <= 3 THEN Mk(RandomElement(PoolKw), 7, "module") ELSE RandArgStmt(j)]

(* ---- large multiplicities (machine-integer boundaries) ----
   The tree carries ONE representative child; "expand" tells the renderer how many copies of the child at
   that path the text must contain in total (copies directly after it; identifier-like arguments get a
   distinct suffix).  The verdict is read off the same table cell (CellVerdict), and YangStmtMC checks
   on real expanded trees that this is what Valid says (BigConsistent).                              *)
CellVerdict(P, C, cnt) ==
  IF IsExtKw(C) THEN "accept"
  ELSE IF C \notin Keywords THEN (IF cnt = 0 THEN "accept" ELSE "reject")
  ELSE IF CellUnjudged(P, C, cnt) THEN "unjudged"
  ELSE IF C \notin DOMAIN Sub(P) THEN (IF cnt = 0 THEN "accept" ELSE "reject")
  ELSE IF cnt >= Sub(P)[C][1] /\ cnt <= Sub(P)[C][2] THEN "accept" ELSE "reject"
CellKind(P, C, cnt) ==
  IF C \notin Keywords THEN "unknown-keyword" ELSE IF C \notin DOMAIN Sub(P) THEN "not-allowed"
  ELSE IF cnt < Sub(P)[C][1] THEN "missing" ELSE "too-many"
CellClass(P, C) ==
  IF IsExtKw(C) THEN "ext" ELSE IF C \notin Keywords THEN "unknown" ELSE IF C \notin DOMAIN Sub(P) THEN "na"
  ELSE IF Sub(P)[C] = <<0, 1>> THEN "01" ELSE IF Sub(P)[C] = <<1, 1>> THEN "11" ELSE IF Sub(P)[C] = <<0, N>> THEN "0n" ELSE "1n"
Classes == {"ext", "unknown", "na", "01", "11", "0n", "1n"}
FirstK(S, k) == LET q == SetToSeq(S) IN {q[i] : i \in 1..(IF Len(q) < k THEN Len(q) ELSE k)}
\* a sample of k cells of every cardinality class of parent P
\* (copies of a revision would also break the date order: a different rule, so revision is left out)
BigKw == ExtOrKw \ {"revision"}
BigCells(P, k) == UNION {FirstK({C \in BigKw : CellClass(P, C) = cl}, k) : cl \in Classes}
Renamed(C) == ArgKind(C, "module") = "identifier" \/ C = "enum"
RepIndex(X, C, P) == CHOOSE j \in 1..Len(X.subs) : X.subs[j] = Mk(C, 1, P) /\ \A k \in 1..(j-1) : X.subs[k] # Mk(C, 1, P)
XPath(t, X) == IF HostKw(X.kw) = "" THEN << >> ELSE CHOOSE q \in FindPath(t, X, << >>) : TRUE
\* statements that can be repeated any number of times in a clean template once their names differ
Repeatable == {"leaf", "leaf-list", "container", "anyxml", "choice", "case", "must", "pattern", "typedef", "grouping", "feature",
               "identity", "extension", "enum", "bit", "notification", "rpc", ExtKw}
BigExpand(P, C, T) ==        \* <<tree, expand directives, path of P's statement>>
  LET X == PStmt(P, C, 1)
      t == CardTree(P, C, 1)
      xp == XPath(t, X)
      j == RepIndex(X, C, P) IN
  << t, << [path |-> Append(xp, j), n |-> T - (Count(X, C) - 1), rename |-> Renamed(C)] >>, xp >>
BigExpect(P, C, T, xp) ==
  LET cv == CellVerdict(P, C, T) IN
  [verdict |-> cv, locate |-> cv = "reject",
   bad |-> IF cv = "reject" THEN {F(CellKind(P, C, T), C, xp, {xp}, TRUE)} ELSE {}]
BigClean(P, C, T) == CardClean(P, C, 1) /\ C \in Repeatable /\ T <= 600
\* data-definition aggregate: a leaves and b containers next to what the template has; every cell is 0..n
AggExpand(P, T) ==
  LET X0 == PStmt(P, "leaf", 1)
      X == St(X0.kw, X0.arg, Append(X0.subs, Mk("container", 2, P)))
      t == Complete(Embed(X))
      xp == XPath(t, X)
      base == Cardinality({i \in 1..Len(X.subs) : X.subs[i].kw \in DD}) - 2
      a == (T - base) \div 2 IN
  <<t, <<[path |-> Append(xp, RepIndex(X, "leaf", P)), n |-> a, rename |-> TRUE],
         [path |-> Append(xp, Len(X.subs)), n |-> T - base - a, rename |-> TRUE]>>, xp>>
\* the expansion the renderer performs, as a spec operator (used by YangStmtMC on moderate counts)
Replicate(X, j, n, rename) ==
  LET c == X.subs[j]
      copy(i) == IF rename /\ i > 1 THEN St(c.kw, c.arg \o "x" \o ToString(i), c.subs) ELSE c IN
  St(X.kw, X.arg, SubSeq(X.subs, 1, j - 1) \o [i \in 1..n |-> copy(i)] \o SubSeq(X.subs, j + 1, Len(X.subs)))

(* ---- histories: the same verdicts whatever was parsed before with the same interners ----
   A history is a short sequence of trees parsed one after the other with ONE shared pair of interners
   (parse.ParseWithInterners, as compile.ParseModules does).  Nothing is prescribed here but the trees:
   each event is judged by Expect(tree) of that tree alone (YangStmtTrace).                            *)
BadArgs(kind) == {a \in Cands(kind) : ArgVerdict(kind, a) = "invalid"}
OkArgs(kind) == {a \in Cands(kind) : ArgVerdict(kind, a) = "valid"}
ArgHistories(kind, s, kb, ko) ==
  LET B == FirstK(BadArgs(kind), kb)  O == FirstK(OkArgs(kind), ko)
      T(a) == ArgTree(s[1], s[2], a) IN
  {<<T(b), T(b)>> : b \in B}
  \cup UNION {{<<T(o), T(b)>>, <<T(b), T(o)>>, <<T(b), T(o), T(b)>>, <<T(o), T(b), T(o)>>} : o \in O, b \in B}
\* the same argument text under statements of different kinds: valid for one, invalid for the other
CrossArgs == {"true", "1", "current", "user", "add", "2020-01-01", "a", "unbounded", "1..2", "/tc", "p:a", "18"}
OneSite(kind) == CHOOSE s \in SitesOf(kind) : TRUE
CrossTriples(u_) == {x \in JudgedKinds \X JudgedKinds \X CrossArgs :
                   x[1] # x[2] /\ ArgVerdict(x[1], x[3]) = "valid" /\ ArgVerdict(x[2], x[3]) = "invalid"}
CrossHistories(k) ==
  UNION {LET s1 == OneSite(x[1])  s2 == OneSite(x[2])  a == x[3] IN
         {<<ArgTree(s1[1], s1[2], a), ArgTree(s2[1], s2[2], a)>>, <<ArgTree(s2[1], s2[2], a), ArgTree(s1[1], s1[2], a)>>}
         : x \in FirstK(CrossTriples(0), k)}
CardHistories(k) ==
  UNION {UNION {{<<CardTree(P, C, 2), CardTree(P, C, 2)>>, <<CardTree(P, C, 1), CardTree(P, C, 2), CardTree(P, C, 1)>>}
                : C \in FirstK({c \in DOMAIN Sub(P) : Sub(P)[c][2] = 1}, 1)} : P \in FirstK({p \in ParentIds : DOMAIN Sub(p) # {}}, k)}

(* ---- extension statements interleaved in the module / submodule statement sequence ----
   stmtsep admits a prefixed extension statement at every position: before the header, between two sections,
   between two revisions.  Valid ignores them (YangStmtMC.InterleaveNeutral), so the expectations are those
   of the same sequence without them.                                                                    *)
ExtAt(i) == Lf(ExtKw, "x" \o ToString(i))
\* an extension statement in every gap g of the children (gap 0 = before the first child) with g \in gaps
WithExts(t, gaps) ==
  St(t.kw, t.arg, (IF 0 \in gaps THEN <<ExtAt(0)>> ELSE << >>)
                  \o FlattenSeq([i \in 1..Len(t.subs) |-> IF i \in gaps THEN <<t.subs[i], ExtAt(i)>> ELSE <<t.subs[i]>>]))
StripExts(t) == St(t.kw, t.arg, SelectSeq(t.subs, LAMBDA s : s.kw # ExtKw))
\* order trees: one extension at each single gap, and one in every gap
OrderInterleaved(root, full) ==
  UNION {{Complete(WithExts(t, {g})) : g \in 0..Len(t.subs)} \cup {Complete(WithExts(t, 0..Len(t.subs)))}
         : t \in OrderPerms(root) \cup (IF full THEN OrderSubsets(root) ELSE {})}
  \cup {Complete(WithExts(t, 0..Len(t.subs))) : t \in OrderSubsets(root)}
\* revision lists: every subset of the gaps next to a revision (before the first, between two, after the last)
RevLists(root) ==
  LET hdr == Blocks(root)[1] IN
  {[t |-> St(root, RootName, hdr \o [i \in DOMAIN s |-> Lf("revision", RevDates[s[i]])] \o <<Mk("leaf", 1, root)>>),
    lo |-> Len(hdr), hi |-> Len(hdr) + Len(s)] : s \in UNION {[1..n -> 1..3] : n \in 1..3}}
RevInterleaved(root) ==
  UNION {{Complete(WithExts(r.t, gaps)) : gaps \in (SUBSET (r.lo..r.hi)) \ {{}}} : r \in RevLists(root)}

(* ---- white space that is not optsep ----
   optsep / sep are built from SP, HTAB and line breaks only.  Form feed, vertical tab, NEL (U+0085), NBSP (U+00A0),
   LINE SEPARATOR (U+2028) and IDEOGRAPHIC SPACE (U+3000) are ordinary (illegal) characters for every typed argument,
   wherever a trimming or splitting routine might swallow them: leading, trailing, next to a separator, in place of
   a blank.  They travel as placeholders; the verdict is the ABNF predicate's, as for every other candidate.       *)
OddWs == {"~f", "~v", "~N", "~b", "~L", "~I"}
WsBases(kind) ==
  CASE kind \in {"range", "length"} -> {"1..5", "1..2|5", "1 .. 2 | 5", "min..max"}
    [] kind = "key" -> {"k j", "k"}
    [] kind = "unique" -> {"k j", "k"}
    [] OTHER -> FirstK(OkArgs(kind), 2)
InsertAt2(a, g, w) == SubSeq(a, 1, g) \o w \o SubSeq(a, g + 1, Len(a))            \* w after the g-th character of the string
ReplaceAt2(a, g, w) == SubSeq(a, 1, g - 1) \o w \o SubSeq(a, g + 1, Len(a))
WsCands(kind) ==
  UNION {UNION {{InsertAt2(a, g, w) : g \in 0..Len(a)} \cup {ReplaceAt2(a, g, w) : g \in {i \in 1..Len(a) : SubSeq(a, i, i) = " "}}
                : w \in OddWs} : a \in {b \in WsBases(kind) : \A i \in 1..Len(b) : SubSeq(b, i, i) # "~"}}

(* ---- the argument grammar enumerated: ALL strings over a kind's atom / separator alphabet up to a bound ----
   Hand-picked candidates miss positions.  For every structured kind the atoms and separators of its ABNF rule are
   an alphabet; every string over it up to length n is a candidate, so that an empty / doubled / tripled / leading /
   trailing separator is covered at every position.  The renderer always quotes arguments, so "//a" reaches the
   argument parser.  Verdicts are the ABNF predicates', as for every other candidate.                              *)
RECURSIVE WordsUpTo(_, _)
WordsUpTo(A, n) == IF n = 0 THEN {""} ELSE LET w == WordsUpTo(A, n - 1) IN w \cup {x \o a : x \in w, a \in A}
GramAlphabet(kind) ==
  CASE kind \in {"absnode", "descnode"} -> {"/", "a", ":"}
    [] kind \in {"range", "length"} -> {"1", ".", "|", " "}
    [] kind = "key" -> {" ", "k", "j", ":"}
    [] kind = "unique" -> {" ", "/", "k", "j"}
    [] kind = "date" -> {"2020", "01", "-"}
    [] kind = "idref" -> {"a", ":", "p"}
    [] kind = "identifier" -> {"a", "-", ".", "_", "1", ":"}
    [] kind \in {"integer", "nonneg", "maxel", "fracdigits"} -> {"0", "1", "8", "-", "+"}
    [] OTHER -> {}
GramBound(kind, full) ==
  CASE kind \in {"absnode", "descnode"} -> IF full THEN 7 ELSE 5
    [] kind \in {"range", "length"} -> IF full THEN 6 ELSE 5
    [] kind \in {"key", "unique"} -> IF full THEN 5 ELSE 4
    [] kind = "date" -> IF full THEN 6 ELSE 5
    [] kind = "idref" -> IF full THEN 6 ELSE 5
    [] kind = "identifier" -> IF full THEN 4 ELSE 3
    [] OTHER -> 3
GramCands(kind, full) ==
  IF GramAlphabet(kind) = {} THEN {}
  ELSE IF kind \in {"range", "length"} /\ ~full
       THEN WordsUpTo({"1", ".", "|"}, 5) \cup WordsUpTo(GramAlphabet(kind), 4)     \* quick: blanks only up to length 4
  ELSE WordsUpTo(GramAlphabet(kind), GramBound(kind, full))

(* ---- histories of parses with different extension cardinality functions ----
   The third argument of parse.Parse (nil, a function returning nothing, several different non-empty functions: optional,
   mandatory, repeated extension substatements, on statements with an RFC table and on statements without one) is part
   of the input; a history runs parses with different functions one after the other in one process and every parse is
   judged by the function IT was given (ExpectX).                                                              *)
ExtCells(e) == UNION {{<<p, c>> : c \in DOMAIN ExtFns[e][p]} : p \in DOMAIN ExtFns[e]}
\* trees for one function: every cell of it with 0, 1, 2 copies, and the same parents under the other functions' keywords
ExtTreesOf(e) == {CardTree(x[1], x[2], n) : x \in ExtCells(e), n \in 0..2}
PlainTrees == {CardTree("container", "description", n) : n \in 0..2} \cup {CardTree("leaf", "type", n) : n \in 0..2}
              \cup {CardTree("list", "key", n) : n \in 1..2} \cup {CardTree("typedef", "units", 1), CardTree("module", "contact", 1)}
\* what is parsed under function e: its own trees, the plain ones, and the trees of every other function
\* (their extension cells are then unjudged, their RFC part is judged)
TreesUnder(e) == ExtTreesOf(e) \cup PlainTrees \cup UNION {{CardTree(x[1], x[2], 1) : x \in ExtCells(o)} : o \in ExtNames \ {e}}
ExtTable(e) == SetToSeq({[p |-> x[1], c |-> x[2], min |-> ExtFns[e][x[1]][x[2]][1], max |-> ExtFns[e][x[1]][x[2]][2]] : x \in ExtCells(e)})
\* one plan: per function the block of trees parsed under it, and every order in which the blocks are run
\* (every ordered k-tuple of distinct functions, then nil once more); the recorder runs order by order, block by block
ExtPlan(k) ==
  LET names == SetToSeq(ExtNames) IN
  {[label |-> <<"ext", "", "">>,
    blocks |-> [i \in 1..Len(names) |-> [ext |-> names[i], trees |-> SetToSeq(TreesUnder(names[i]))]],
    orders |-> SetToSeq({Append(h, "nil") : h \in {x \in [1..k -> ExtNames] : \A i, j \in 1..k : i # j => x[i] # x[j]}}),
    exts |-> [i \in 1..Len(names) |-> [name |-> names[i], cells |-> ExtTable(names[i])]]]}

(* ---- the whole byte range in identifiers ----
   ALPHA, DIGIT, "_", "-", "." are 65 of the 256 byte values; every other one - each C0 control byte, DEL, every ASCII
   punctuation, every byte >= 0x80 - is the single fault of an otherwise valid argument, at every atom position (first /
   later character of an identifier, of a prefix, of each step or item), for each identifier-like kind.  Printable ASCII
   is written as itself, any other byte as the placeholder ~xHH (the renderer writes the raw byte inside the quotes).   *)
Printable == " !\"#$%&'()*+,-./0123456789:;<=>?@ABCDEFGHIJKLMNOPQRSTUVWXYZ[\\]^_`abcdefghijklmnopqrstuvwxyz{|}"
HexDigits == "0123456789abcdef"
ByteStr(n) == IF n >= 32 /\ n <= 125 THEN SubSeq(Printable, n - 31, n - 31)
              ELSE "~x" \o SubSeq(HexDigits, (n \div 16) + 1, (n \div 16) + 1) \o SubSeq(HexDigits, (n % 16) + 1, (n % 16) + 1)
ByteBase(kind) ==
  CASE kind = "identifier" -> "ab" [] kind = "idref" -> "pp:ab" [] kind = "absnode" -> "/ab/cd" [] kind = "descnode" -> "ab/cd"
    [] kind \in {"key", "unique"} -> "ab cd" [] OTHER -> ""
ByteKinds == {"identifier", "idref", "absnode", "descnode", "key", "unique"}
\* bytes the lexer itself acts on inside a double-quoted string are left to the lexical properties (C07, C08, C10)
ByteRange == (0..255) \ {0}
ByteCands(kind, full) ==     \* quick: the first character of the first atom and the last character of the last one
  LET a == ByteBase(kind)
      all == {i \in 1..Len(a) : SubSeq(a, i, i) \notin {"/", ":", " "}}
      pos == IF full THEN all ELSE {CHOOSE i \in all : \A j \in all : i <= j, Len(a)} IN
  UNION {{SubSeq(a, 1, i - 1) \o ByteStr(n) \o SubSeq(a, i + 1, Len(a)) : n \in ByteRange} : i \in pos}

(* ---- closed-list (keyword) arguments: candidates built from the legal values themselves ----
   boolean-arg, status-arg, ordered-by-arg, the deviate kinds (and "unbounded" of max-value-arg) are closed lists:
   the argument is exactly one of the listed words.  Whatever a membership routine might also let through is built
   from the legal values: two of them (also the same one twice) joined by every ASCII character that is not a letter
   or digit (the renderer quotes every argument, so lexer terminators travel too), by tab / line break and by
   nothing; every arrangement of three or more distinct values joined likewise; the same with the joiner also in front
   and behind; a piece of one value, a joiner, a piece of the next; every proper prefix and suffix; one character
   dropped or doubled at every position; one character added in front or behind; every case variant that changes one
   character, a leading run, or all.  Verdicts are ArgVerdict's, as for every other candidate.                      *)
KwKinds == EnumKinds \cup {"maxel"}
KwValues(kind) == IF kind = "maxel" THEN {"unbounded", "1"} ELSE EnumValues(kind)
AlnumBytes == (48..57) \cup (65..90) \cup (97..122)
Joiners == {ByteStr(n) : n \in (32..126) \ AlnumBytes} \cup {"~t", "~n", ""}
ChainJoiners(full) == IF full THEN Joiners ELSE {"|", ",", " ", "/", ":", ";", ""}
AddChars == (Joiners \ {""}) \cup {"s", "X", "0"}
Arrangements(V, k) == {q \in [1..k -> V] : \A i, j \in 1..k : i # j => q[i] # q[j]}
RECURSIVE JoinWith(_, _)
JoinWith(sq, j) == IF Len(sq) = 1 THEN sq[1] ELSE sq[1] \o j \o JoinWith(Tail(sq), j)
LowerStr == "abcdefghijklmnopqrstuvwxyz"
UpperStr == "ABCDEFGHIJKLMNOPQRSTUVWXYZ"
UpChar(c) == IF \E i \in 1..26 : SubSeq(LowerStr, i, i) = c
             THEN LET i == CHOOSE j \in 1..26 : SubSeq(LowerStr, j, j) = c IN SubSeq(UpperStr, i, i) ELSE c
RECURSIVE UpAll(_)
UpAll(v) == IF v = "" THEN "" ELSE UpChar(SubSeq(v, 1, 1)) \o UpAll(SubSeq(v, 2, Len(v)))
KwEdits(v) ==
  LET n == Len(v) IN
  {SubSeq(v, 1, i - 1) \o SubSeq(v, i + 1, n) : i \in 1..n}                                    \* one character dropped
  \cup {SubSeq(v, 1, i) \o SubSeq(v, i, n) : i \in 1..n}                                       \* one character doubled
  \cup {SubSeq(v, 1, i) : i \in 0..(n - 1)} \cup {SubSeq(v, i, n) : i \in 2..n}                \* proper prefixes (and ""), suffixes
  \cup {c \o v : c \in AddChars} \cup {v \o c : c \in AddChars}                                \* one character added
  \cup {UpAll(SubSeq(v, 1, i)) \o SubSeq(v, i + 1, n) : i \in 1..n}                            \* leading run / all in upper case
  \cup {SubSeq(v, 1, i - 1) \o UpChar(SubSeq(v, i, i)) \o SubSeq(v, i + 1, n) : i \in 1..n}    \* one character in upper case
KwCands(kind, full) ==
  LET V == KwValues(kind)
      m == Cardinality(V)
      CJ == ChainJoiners(full)
      arr == UNION {Arrangements(V, k) : k \in 1..m}
      cut(v) == IF Len(v) > 2 THEN {1, Len(v) - 1} ELSE {1} IN
  V
  \cup {a \o j \o b : a \in V, b \in V, j \in Joiners}
  \cup {JoinWith(q, j) : q \in {x \in arr : Len(x) >= 3}, j \in CJ}
  \cup {j \o JoinWith(q, j) \o j : q \in arr, j \in CJ}
  \cup UNION {UNION {{SubSeq(a, Len(a) - x + 1, Len(a)) \o j \o SubSeq(b, 1, y) : x \in cut(a), y \in cut(b), j \in CJ} : b \in V} : a \in V}
  \cup UNION {KwEdits(v) : v \in V}

\* ... and the same statement under EVERY parent whose table allows it (the argument routine may be reached on
\* different paths; what the compiler re-checks differs from parent to parent): the legal values, every pair and
\* every longer arrangement of them with a joiner
KwStmts(kind) == {s[1] : s \in SitesOf(kind)}
KwParents(kw) == {P \in ParentIds : kw \in DOMAIN Sub(P)}
KwCore(kind, full) ==
  LET V == KwValues(kind) IN
  V \cup {x \o j \o y : x \in V, y \in V, j \in ChainJoiners(full)}
    \cup {JoinWith(q, j) : q \in UNION {Arrangements(V, k) : k \in 3..Cardinality(V)}, j \in ChainJoiners(FALSE)}
ArgUnder(P, kw, a) ==      \* the minimal statement of parent P with one kw statement, whose argument is a
  LET X == PStmt(P, kw, 1)
      j == CHOOSE i \in 1..Len(X.subs) : X.subs[i].kw = kw /\ \A k \in 1..(i - 1) : X.subs[k].kw # kw IN
  St(X.kw, X.arg, [i \in 1..Len(X.subs) |-> IF i = j THEN St(kw, a, X.subs[i].subs) ELSE X.subs[i]])
ArgUnderTree(P, kw, a) == Complete(Embed(ArgUnder(P, kw, a)))

(* ---- extension keywords drawn from the parser's own keyword tables ----
   A prefixed keyword is an extension statement whatever its local name is: <prefix>:<name> for every RFC statement
   name and every local name of the extensions the parser has built in (configd: / opd:) must be accepted wherever an
   extension statement may stand - under every parent kind, in every module section, inside another extension - with
   an argument, without one, and with a body.                                                                       *)
RegisteredLocal == {"help", "validate", "normalize", "syntax", "priority", "allowed", "begin", "end", "create", "delete", "update",
                    "subst", "secret", "error-message", "pattern-help", "call-rpc", "get-state", "defer-actions", "must",
                    "argument", "augment", "command", "option", "on-enter", "inherit", "repeatable", "pass-opc-args",
                    "privileged", "local"}
ForeignKws == {"p:" \o n : n \in Keywords \cup RegisteredLocal}
ExtVariant(kw, v) == IF v = "noarg" THEN Lf(kw, NoArg) ELSE IF v = "body" THEN St(kw, "x", <<Lf(ExtKw, "y"), Lf(kw, "z")>>) ELSE Lf(kw, "x")
ExtUnder(P, kw, v) ==       \* the minimal statement of parent P carrying the extension statement
  LET b == IF P = ExtKw THEN Lf(ExtKw, "x") ELSE PBase(P, ExtKw, 1) IN
  Complete(Embed(Assemble(St(b.kw, b.arg, Append(b.subs, ExtVariant(kw, v))))))
ExtParentsQuick == {"module", "container", "leaf", "type", "description", ExtKw}
ExtNameTrees(full) ==
  LET ps == IF full THEN ParentIds \cup {ExtKw} ELSE ExtParentsQuick IN
  {[P |-> P, kw |-> k, v |-> "arg", tree |-> ExtUnder(P, k, "arg")] : P \in ps, k \in ForeignKws}
  \cup {[P |-> "container", kw |-> k, v |-> v, tree |-> ExtUnder("container", k, v)] : k \in ForeignKws, v \in {"noarg", "body"}}
  \cup {[P |-> P, kw |-> k, v |-> "arg", tree |-> ExtUnder(P, k, "arg")] : P \in ParentIds, k \in {"p:help", "p:must", "p:argument", "p:leaf", "p:priority"}}
\* in the module's statement sequence: before the header, after it, between the sections, at the end
HeaderBase == St("module", RootName, <<Lf("yang-version", "1"), Lf("namespace", "urn:p"), Lf("prefix", "p"), Lf("organization", "t"),
                                      Lf("revision", "2020-02-02"), Mk("leaf", 1, "module")>>)
ExtInSequence(full) ==
  {[P |-> "module", kw |-> k, v |-> "gap" \o ToString(g),
    tree |-> Complete(St("module", RootName, SubSeq(HeaderBase.subs, 1, g) \o <<Lf(k, "x")>> \o SubSeq(HeaderBase.subs, g + 1, 6)))]
   : k \in ForeignKws, g \in (IF full THEN 0..6 ELSE {0, 3, 5})}
=============================================================================
