INIT GInit
NEXT GNext
CONSTANT Sets = {{1}, {10}, {12, 16}}
CONSTANT MutMax = 1
CONSTANT ExhMax = 2
CONSTANT RandPer = 20
CONSTANT Fuzz = TRUE
CONSTANT MutAll = TRUE
CONSTANT Sizes = {1, 2, 12, 13, 20, 40, 100}
CONSTANT SizesMany = {2, 13, 40}
CONSTANT ManyMin = 2
CHECK_DEADLOCK FALSE
