INIT GInit
NEXT GNext
CONSTANT Sets = {{1}, {10}, {12, 16}}
CONSTANT MutMax = 1
CONSTANT ExhMax = 2
CONSTANT RandPer = 20
CONSTANT Fuzz = TRUE
CONSTANT MutAll = TRUE
CHECK_DEADLOCK FALSE
