INIT GInit
NEXT GNext
CONSTANT Shapes = {1, 2, 100}
CONSTANT MaxLen = 5
CONSTANT Ext = 1
CONSTANT FullTails = TRUE
CONSTANT NRand = 20
CONSTANT RandDepth = 3
CHECK_DEADLOCK FALSE
