--------------------------- MODULE ValidateXPathGen ---------------------------
(* Behaviour generator of the extension module X-validate-xpath (model -> code).  Per shape:
     vxs_<id>.ndjson   the schema records (rendered to YANG by the harness, compiled by the real compiler)
     vxv_<id>.ndjson   per data tree and validation type the prescribed error list: errs = the run of
                       the validator machine under the RFC reading of O1, code = the run as the code
                       does it (equal unless O1 applies), cw = the false whens on choices / cases that
                       guard present data (O2).  Sibling non-presence containers are taken in schema
                       order; the replay accepts any order of their blocks (at / np delimit them).
     vxw_<id>.ndjson   the schema as the schema walker XNode shows it
     vxa_<id>.ndjson   per data tree the adapter view: every node reachable through XChildren with its
                       name, value, XPath, flags, keys, key probes, XParent and the children under
                       every filter, sorted and unsorted
   Ids above 100: the structure of shape ((id - 101) % NXShapes) + 1 with every when / must drawn again
   (RandomElement, -seed).                                                                   *)
EXTENDS ValidateXPathShapes, Json
CONSTANTS Shapes, MaxEntries, Wide, MaxLL, StateShapes
VARIABLES shape, sch, step
Base(id) == IF id > 100 THEN ((id - 101) % NXShapes) + 1 ELSE id
Sfx(n) == ToString(n) \o ".ndjson"
AllVTs == <<"all", "none", "state", "config">>
\* O1 can only show where an unconfigurable non-presence container has a false when (own or handed on)
RECURSIVE O1Possible(_)
O1Possible(cs) == \E i \in 1..Len(cs) : (cs[i].kind = "container" /\ ~cs[i].presence /\ WhenFalse(cs[i])) \/ O1Possible(cs[i].kids)
Vec(s, d, vt, o1) ==
  LET rfc == Run(s, d, vt, Opt(FALSE)) IN
  [d |-> d, vt |-> vt, errs |-> rfc, code |-> IF o1 THEN Run(s, d, vt, Opt(TRUE)) ELSE rfc,
   cw |-> LET c == CaseWhens(s, d, << >>) IN IF c = {} THEN << >> ELSE SetAsSeq(c)]
GInit == shape \in Shapes /\ sch = << >> /\ step = 0
GNext ==
  \/ /\ step = 0 /\ step' = 1 /\ UNCHANGED shape
     /\ sch' = IF shape > 100 THEN RandShape(Base(shape)) ELSE XShape(shape)
  \/ /\ step = 1 /\ step' = 2 /\ UNCHANGED <<shape, sch>>
     /\ LET ds == DataTrees(sch, IF Base(shape) \in Wide THEN MaxEntries ELSE 2, MaxLL)
            o1 == O1Possible(TreeNode(sch).kids)
            \* all four validation types where the schema has config false nodes, else "all" and "config"
            VTIdx == IF Base(shape) \in StateShapes THEN 1..4 ELSE {1, 4} IN
        /\ ndJsonSerialize("vxs_" \o Sfx(shape), <<[id |-> shape, kids |-> sch]>>)
        /\ ndJsonSerialize("vxv_" \o Sfx(shape), SetAsSeq({Vec(sch, d, AllVTs[v], o1) : d \in ds, v \in VTIdx}))
        /\ ndJsonSerialize("vxw_" \o Sfx(shape), <<SchemaView(sch)>>)
        /\ ndJsonSerialize("vxa_" \o Sfx(shape), SetAsSeq({[d |-> d, view |-> View(sch, d)] : d \in ds}))
=============================================================================
