--------------------------- MODULE ValidateXPathMC ---------------------------
(* Exhaustive model of the extension module X-validate-xpath.  One initial state per shape; the
   first step picks a data tree and a validation type, the second checks the adapter laws on the
   whole view, then the validator machine (ValidateXPath!StepWith) runs to the end, branching
   over the order in which sibling non-presence containers are taken (map iteration in the code).

   Invariants
     AdapterLaws   (once per input) on every node y of the adapter view reachable through XChildren:
                   each child's XParent is y and its XRoot the root; XPath of a child = XPath of y
                   plus its name; sorted and unsorted children are permutations of each other; the
                   sorted ones are in natural order (NatBefore) inside each run of system-ordered
                   entries / values and container children come in natural order of their names;
                   a config-only filter keeps exactly the config children; a name filter exactly
                   the children of that name; NatLessCode and NatBefore agree on all names and values
     AtDone        when the agenda is empty:
        Meaning        the errors (as a bag, without their tags) are exactly Meaning(..., Odd)
        RFCPart        the errors that are not marked spurious are exactly Meaning(..., FALSE):
                       the mechanism differs from the RFC reading by the O1 errors and nothing else
        WhenStopsMust  an adapter node that reported a when error reported no must error and none
                       for its unconfigured non-presence containers (a leafref error may follow)
        VisitOrder     the addresses at which errors were reported follow document order
        CacheEmpty     (leafref machines cannot run) nothing was cached
     CacheSound    (LRun = TRUE, the model of what checkLeafref would do if machines ran) a cache hit
                   returns what a fresh run would have returned.  With CacheAll = TRUE (every result
                   cached, ValidateXPathHazard.cfg) TLC must find a violation: the relative path in
                   shape 11 has one XPath string for all list entries.
   Property        Terminates: every run empties its agenda.                                  *)
EXTENDS ValidateXPathShapes
CONSTANTS Shapes, MaxEntries, Wide, MaxLL, StateShapes, Odd, LRun, CacheAll
VARIABLES shape, phase, inp, st
vars == <<shape, phase, inp, st>>
Sch == XShape(shape)
ME == IF shape \in Wide THEN MaxEntries ELSE 2
TheOpt == [odd |-> Odd, lrun |-> LRun, call |-> CacheAll]
VTs == IF shape \in StateShapes THEN {"all", "none", "state", "config"} ELSE {"all"}
MCInit == shape \in Shapes /\ phase = "pick" /\ inp = [d |-> << >>, vt |-> "all"] /\ st = Init
Pick == /\ phase = "pick" /\ phase' = "adapter" /\ UNCHANGED shape
        /\ \E d \in DataTrees(Sch, ME, MaxLL), vt \in VTs : inp' = [d |-> d, vt |-> vt] /\ st' = Init
Look == phase = "adapter" /\ phase' = "run" /\ UNCHANGED <<shape, inp, st>>
Step == /\ phase = "run" /\ ~Done(st) /\ UNCHANGED <<shape, phase, inp>>
        /\ \E n \in Choices(st) : st' = StepWith(RootX(Sch, inp.d), st, n, inp.vt, TheOpt)
Finish == phase = "run" /\ Done(st) /\ phase' = "done" /\ UNCHANGED <<shape, inp, st>>
MCNext == Pick \/ Look \/ Step \/ Finish
MCSpec == MCInit /\ [][MCNext]_vars /\ WF_vars(MCNext)
Terminates == <>(phase = "done")

Law(name, holds) == holds \/ (PrintT(<<"LAW VIOLATED", name>>) /\ FALSE)

\* ---- adapter laws
IsPerm(s, t) == BagEq(s, t)
RECURSIVE Ordered(_)
Ordered(keys) == Len(keys) < 2 \/ (NatBefore(keys[1], keys[2]) /\ Ordered(Tail(keys)))
\* the children of y grouped as XChildren builds them: one group per data child of y
GroupKeys(y) ==
  LET cs == Children(y, TRUE) IN
  [i \in 1..Len(cs) |-> IF cs[i].t = "cont" THEN << >>
                        ELSE IF cs[i].t = "leaf" \/ cs[i].sch.user THEN << >>
                        ELSE [j \in 1..Len(Children(cs[i], TRUE)) |-> XValue(Children(cs[i], TRUE)[j])]]
RECURSIVE AllWords(_)
AllWords(dk) == UNION {{dk[i].name} \cup SeqSet(dk[i].vals) \cup AllWords(dk[i].kids) : i \in 1..Len(dk)}
RECURSIVE NodeLaws(_, _)
NodeLaws(y, root) ==
  LET ks == XChildren(y, AllKids, TRUE)  ku == XChildren(y, AllKids, FALSE)  cs == Children(y, TRUE) IN
  /\ Law("ParentOfChild", \A i \in 1..Len(ks) : XParentOf(ks[i]) = y /\ XRootOf(ks[i]) = root)
  /\ Law("XPathOfChild", \A i \in 1..Len(ks) : XPathOf(ks[i]) = (IF y.t = "tree" THEN <<"/", XName(ks[i])>> ELSE Append(XPathOf(y), XName(ks[i]))))
  /\ Law("SortedIsPermutation", IsPerm(ks, ku))
  /\ Law("KidsByName", Ordered([i \in 1..Len(cs) |-> XName(cs[i])]))
  /\ Law("EntriesNatural", \A i \in 1..Len(cs) : Ordered(GroupKeys(y)[i]))
  /\ Law("ConfigOnly", XChildren(y, Flt("*", "", TRUE), TRUE) = SelectSeq(ks, LAMBDA c : c.sch.cfg))
  /\ Law("ByName", \A nm \in KidNames(y) : XChildren(y, Flt(nm, "", FALSE), TRUE) = SelectSeq(ks, LAMBDA c : XName(c) = nm))
  /\ Law("ByNamespace", XChildren(y, Flt("*", "own", FALSE), TRUE) = ks /\ XChildren(y, Flt("*", "other", FALSE), TRUE) = << >>)
  /\ Law("KeysOfEntry", (XListKeys(y) # << >>) = (y.t = "entry") /\ (y.t = "entry" => XListKeyMatches(y, "own", y.sch.key, y.name)))
  /\ \A i \in 1..Len(ks) : NodeLaws(ks[i], root)
AdapterLaws == phase = "adapter" =>
  LET root == RootX(Sch, inp.d)  ws == AllWords(inp.d) IN
  /\ NodeLaws(root, root)
  /\ Law("NatOrderTotal", \A a \in ws, b \in ws : a # b => (NatLessCode(a, b) = NatBefore(a, b) /\ NatLessCode(a, b) # NatLessCode(b, a)))

\* ---- validator laws
PlainSeq(es) == [i \in 1..Len(es) |-> Plain(es[i])]
AtDone == phase = "done" =>
  LET es == st.errs IN
  /\ Law("Meaning", BagEq(PlainSeq(es), Meaning(Sch, inp.d, inp.vt, Odd)))
  /\ Law("RFCPart", BagEq(PlainSeq(SelectSeq(es, LAMBDA e : ~e.sp)), Meaning(Sch, inp.d, inp.vt, FALSE)))
  /\ Law("WhenStopsMust", \A i \in 1..Len(es), j \in 1..Len(es) : es[i].src = "when" /\ es[j].at = es[i].at => es[j].src \in {"when", "lref"})
  /\ Law("VisitOrder", SubSeqOf(Dedupe([i \in 1..Len(es) |-> es[i].at]), << << >> >> \o DocOrder(Sch, inp.d, << >>)))
  /\ Law("CacheEmpty", LRun \/ st.cache = << >>)
  /\ Law("NoneIsSilent", inp.vt = "none" => es = << >>)
CacheSound == Law("CacheSound", ~st.stale)
=============================================================================
