INIT MCInit
NEXT MCNext
CONSTANT Sets = {{1}, {10}, {12, 16}}
CONSTANT MutMax = 1
CONSTANT Sizes = {1, 2, 12, 13, 20, 40, 100}
CONSTANT SizesMany = {2, 13, 40}
CONSTANT ManyMin = 2
INVARIANT TreeConforms
INVARIANT RoundTripRFC
INVARIANT RoundTripJSON
INVARIANT RoundTripXML
INVARIANT RiffleXML
INVARIANT MutantsRFC
INVARIANT MutantsJSON
INVARIANT MutantsXML
INVARIANT MutantsNs
INVARIANT MutantsShape
CHECK_DEADLOCK FALSE
