INIT MCInit
NEXT MCNext
CONSTANT Sets = {{1}, {10}, {12, 16}}
CONSTANT MutMax = 1
INVARIANT TreeConforms
INVARIANT RoundTripRFC
INVARIANT RoundTripJSON
INVARIANT RoundTripXML
INVARIANT MutantsRFC
INVARIANT MutantsJSON
INVARIANT MutantsXML
INVARIANT MutantsNs
CHECK_DEADLOCK FALSE
