INIT TInit
NEXT TNext
CONSTANT EventFile = "events.ndjson"
INVARIANT Report
CHECK_DEADLOCK FALSE
