------------------------------ MODULE PrefixScope ------------------------------
(* C15 - embedded XPath is checked at compile time in the right prefix scope.

   Meaning (RFC 6020 6.4.1, 7.5.3, 7.19.5, 9.9.2): a must / when / leafref path
   statement compiles iff its argument is syntactically valid and every prefix in
   it is declared in the module in which the statement is TEXTUALLY WRITTEN: that
   module's own prefix or the prefix of one of its imports.  This holds wherever
   the statement ends up: copied by `uses` into the same or another module
   (also through a chain of groupings), added to another module by `augment`,
   reached through a typedef.  A prefixed name test resolves to the namespace the
   textual module binds the prefix to.  An unprefixed name test belongs to the
   namespace of the current node: the module where the statement is written, or,
   inside a grouping, the module that uses the grouping.  An unknown prefix is an
   error, and the error names the statement carrying the expression.

   This module has no variables: configurations of import maps that bind the SAME
   prefix to DIFFERENT modules, placements, expression pools, and the meaning.
   PrefixScopeMC models the compiler's clone mechanism; PrefixScopeGen generates
   instances; PrefixScopeTrace judges what the real compiler did.              *)
EXTENDS Naturals, Sequences, FiniteSets, TLC

Mods == {"m1", "m2", "m3"}
\* textual units: modules, and (configuration "sub") the submodule s2 of m2
Ns(m) == "urn:" \o m

\* ------------------------------------------------------------- import maps
\* imports are acyclic (m1 -> m2 -> m3, m4); own prefixes and import prefixes collide on purpose.
\* Configuration "sub": m2 includes its submodule s2.  A submodule is a textual unit of its own (RFC 6020 5.1,
\* 7.1.5, 7.2.2): its prefixes are its OWN import statements plus the belongs-to prefix (which denotes the
\* module it belongs to); what its module imports is not visible in it, and what it imports is not visible
\* in its module.  s2 binds p differently from m2 (m4 / m3), imports r which m2 does not, and m2 imports t
\* which s2 does not.
\* Configuration "words": the prefixes are spelled like an XPath function (count) and operators (div, and).
Cfgs == {"swap", "same", "two", "sub", "words"}
Present(c) == IF c = "two" THEN {"m1", "m2"} ELSE IF c = "sub" THEN Mods \cup {"m4"} ELSE Mods
SubUnits(c) == IF c = "sub" THEN {"s2"} ELSE {}
Units(c) == Present(c) \cup SubUnits(c)
ModOf(u) == IF u = "s2" THEN "m2" ELSE u         \* the module a unit is (part of)
IsSub(u) == u = "s2"
\* own prefix of a module / belongs-to prefix of a submodule
Own(c, m) == CASE c = "swap" -> (CASE m = "m1" -> "o" [] m = "m2" -> "q" [] OTHER -> "p")
               [] c = "same" -> (CASE m = "m1" -> "p" [] m = "m2" -> "p" [] OTHER -> "q")
               [] c = "sub"  -> (CASE m = "m1" -> "o" [] m \in {"m2", "s2"} -> "q" [] OTHER -> "p")
               [] c = "words" -> (CASE m = "m1" -> "and" [] m = "m2" -> "div" [] OTHER -> "count")
               [] OTHER -> "a"
ImportsOf(c, m) ==      \* set of <<prefix, module>>
  CASE c = "swap" -> (CASE m = "m1" -> {<<"p", "m2">>, <<"q", "m3">>} [] m = "m2" -> {<<"p", "m3">>} [] OTHER -> {})
    [] c = "same" -> (CASE m = "m1" -> {<<"q", "m2">>, <<"r", "m3">>} [] m = "m2" -> {<<"q", "m3">>} [] OTHER -> {})
    [] c = "words" -> (CASE m = "m1" -> {<<"count", "m2">>, <<"div", "m3">>} [] m = "m2" -> {<<"count", "m3">>} [] OTHER -> {})
    [] c = "sub"  -> (CASE m = "m1" -> {<<"p", "m2">>, <<"q", "m3">>} [] m = "m2" -> {<<"p", "m3">>, <<"t", "m4">>}
                        [] m = "s2" -> {<<"p", "m4">>, <<"r", "m3">>} [] OTHER -> {})
    [] OTHER -> (CASE m = "m1" -> {<<"b", "m2">>} [] OTHER -> {})
PMap(c, m) == {<<Own(c, m), ModOf(m)>>} \cup ImportsOf(c, m)
Known(c, m, p) == \E b \in PMap(c, m) : b[1] = p
Lookup(c, m, p) == (CHOOSE b \in PMap(c, m) : b[1] = p)[2]
ImportsMod(c, u, t) == \E b \in ImportsOf(c, u) : b[2] = t
PrefixFor(c, u, t) == (CHOOSE b \in PMap(c, u) : b[2] = ModOf(t))[1]
AllPrefixes(c) == UNION {{b[1] : b \in PMap(c, m)} : m \in Units(c)}
\* prefixes a statement written in module m may try: none, the declared ones, one that only other
\* modules declare, one that nobody declares
Choices(c, m) == {""} \cup {b[1] : b \in PMap(c, m)} \cup (AllPrefixes(c) \ {b[1] : b \in PMap(c, m)}) \cup {"zz"}

\* ------------------------------------------------------------- placements
(* A statement s is a record
     kind  : "must" | "when" | "path"
     place : where it is written and how it reaches the schema
        direct         on a leaf of T's own container
        grp-local      on a leaf of a grouping of T used in T
        grp-cross      on a leaf of a grouping of T used in U (U imports T)
        grp-chain      on a leaf of a grouping of T used by a grouping of V used in U
        augment        on a leaf that T adds to U's container by augment (T imports U)
        typedef-local  (path) in a typedef of T used by a leaf of T
        typedef-cross  (path) in a typedef of T used by a leaf of U (U imports T)
        when-uses      (when) on a `uses` written in T of a grouping of G (G = T or imported)
        when-augment   (when) on an `augment` written in T of U's container
        grp-unused     on a leaf of a grouping of T that nothing uses ("every expression in the module")
        typedef-unused (path) in a typedef of T that nothing uses
        refine         (must) added by `refine` under a `uses` written in T of a grouping of G
        deviate-add    (must) added by a `deviation` written in T to a leaf of U (T imports U)
     Several statements on ONE node: a statement with on = j > 0 has no leaf of its own, it is a
     further must (or the when) of the node that carries statement j (hp = the place of statement j):
        same           written next to statement j on the same node (same T, U, V)
        refine-on      (must) added to that node by `refine` under the uses that copies it (T = U of j)
        deviate-on     (must) added to that node by a `deviation` written in module T
        uses-when      (when) written on the uses that copies the node (T = U of j) and handed down to it
        augment-when   (when) written on the augment that adds the node and handed down to it
     Two statements of one node may have byte-identical text and still be written in different units, i.e. be
     two statements with two prefix scopes (a leaf's own when and the when of the uses that copies it).
     T : module in which the statement is textually written;  U, V as above
     e : expression (index into the pool of its kind), pf : prefix per slot
     sp : how the colon after a prefix is written ("" = `p:n`; l, r, lr = blanks around it)
     mut : one character-level change that makes the argument invalid (none | trunc | del | ins | ctl | ctlcut)    *)
Places(kind) == CASE kind = "must" -> {"direct", "grp-local", "grp-cross", "grp-chain", "grp-unused", "augment", "refine", "deviate-add"}
                  [] kind = "when" -> {"direct", "grp-local", "grp-cross", "grp-chain", "grp-unused", "augment", "when-uses", "when-augment"}
                  [] OTHER -> {"direct", "grp-local", "grp-cross", "grp-chain", "grp-unused", "augment", "typedef-local", "typedef-cross", "typedef-unused"}
\* <<T, U, V>> combinations a configuration allows for a place
\* (T, U, V are units; a grouping / typedef of unit T is reachable from unit U when U imports T's module,
\* or when T is the submodule that U's module includes)
Sees(c, u, t) == ModOf(u) # ModOf(t) /\ ImportsMod(c, u, ModOf(t))
\* The TARGET PATH of an augment / deviation is not an embedded XPath expression and is not judged here.  When
\* it is written in a submodule, only targets are generated whose prefix the submodule's module does not bind to
\* another module (the compiler resolves the first step of such a path in the module, the rest in the submodule).
TargetPathPlain(c, t, u) == ~IsSub(t) \/ LET p == PrefixFor(c, t, u) IN ~Known(c, ModOf(t), p) \/ Lookup(c, ModOf(t), p) = u
Sites(c, place) ==
  LET P == Units(c)  M == Present(c) IN
  CASE place \in {"direct", "grp-local", "typedef-local", "grp-unused", "typedef-unused"} -> {<<t, t, t>> : t \in P}
    [] place \in {"grp-cross", "typedef-cross"} -> {<<x[1], x[2], x[2]>> : x \in {y \in P \X P : Sees(c, y[2], y[1]) \/ (IsSub(y[1]) /\ y[2] = ModOf(y[1]))}}
    [] place = "grp-chain" -> {<<x[1], x[2], x[3]>> : x \in {y \in M \X M \X M : ImportsMod(c, y[3], y[1]) /\ ImportsMod(c, y[2], y[3])}}
    [] place \in {"augment", "when-augment", "deviate-add"} -> {<<x[1], x[2], x[2]>> : x \in {y \in P \X M : ImportsMod(c, y[1], y[2]) /\ ModOf(y[1]) # y[2] /\ TargetPathPlain(c, y[1], y[2])}}
    [] place \in {"when-uses", "refine"} -> {<<x[1], x[1], x[2]>> : x \in {y \in P \X P : y[1] = y[2] \/ Sees(c, y[1], y[2]) \/ (IsSub(y[2]) /\ y[1] = ModOf(y[2]))}}   \* V = home of the grouping
\* the module whose namespace an unprefixed name belongs to; "*" = not judged (RFC 6020 is silent for
\* a typedef used from another module, for a when whose context node is an augment's target and for
\* a must that a deviation adds to a node of another module)
CurMod(s) == CASE s.place \in {"direct", "grp-local", "typedef-local", "augment", "when-uses", "refine", "grp-unused", "typedef-unused", "refine-on", "uses-when"} -> s.T
               [] s.place \in {"grp-cross", "grp-chain"} -> s.U
               [] s.place = "same" -> (IF s.hp \in {"grp-cross", "grp-chain"} THEN s.U ELSE s.T)
               [] OTHER -> "*"
\* is the statement named by the error judged?  (a `when` inherited from uses / augment is carried by
\* every node it is copied to, a must added by refine / deviate is written in one place and carried
\* by a node written in another: which statement "carries" it is a matter of taste)
NamedJudged(s) == s.place \notin {"when-uses", "when-augment", "refine", "deviate-add", "refine-on", "deviate-on", "uses-when", "augment-when"}

\* does a machine for the statement appear in the compiled schema (when the module set compiles)?
Observable(s) == s.place \notin {"grp-unused", "typedef-unused"}

\* ------------------------------------------------------------- expressions
Lit(v) == [t |-> "s", v |-> v, slot |-> 0]
Nm(slot, l) == [t |-> "n", v |-> l, slot |-> slot]
\* an UNPREFIXED name test whose local name is spelled exactly like the prefix chosen for the slot ("n0" if the slot has
\* none): a prefix and a node name are different things even when they are spelled alike (a container bgp and an import
\* prefix bgp, an unknown prefix spelled like an earlier step, a prefix spelled like a function or operator name)
Ln(slot) == [t |-> "ln", v |-> "n0", slot |-> slot]
\* a WILDCARD name test: `p:*` - every child in the namespace the prefix is bound to; the prefix is expanded exactly like the
\* prefix of a QName and "it is an error if there is no namespace declaration for the prefix" (XPath 1.0, 2.3) - or, when the
\* slot has no prefix, the bare `*` (every child, whatever its namespace: the namespace of that name test is not judged).
\* A leafref path has no wildcards (RFC 6020 section 12, path-arg: node-identifier only): for a path they are in the reject pool.
Wc(slot) == [t |-> "w", v |-> "*", slot |-> slot]
AcceptPool(kind) ==
  IF kind = "path"
  THEN << <<Lit("../"), Nm(1, "n1")>>,
          <<Lit("../../"), Nm(1, "n1"), Lit("/"), Nm(2, "n2")>>,
          <<Lit("/"), Nm(1, "n1"), Lit("/"), Nm(2, "n2")>>,
          <<Lit("/"), Nm(1, "n1"), Lit("["), Nm(2, "k"), Lit(" = current()/../"), Nm(1, "r"), Lit("]/"), Nm(2, "n2")>>,
          <<Lit("../"), Ln(1), Lit("/"), Nm(1, "n1")>>,
          <<Lit("/"), Nm(1, "n1"), Lit("/"), Ln(1), Lit("/"), Nm(2, "n2"), Lit("/"), Ln(2)>> >>
  ELSE << <<Lit("../"), Nm(1, "n1"), Lit(" = 'v'")>>,
          <<Lit("count(/"), Nm(1, "n1"), Lit("/"), Nm(2, "n2"), Lit(") > 0")>>,
          <<Nm(1, "n1"), Lit(" or "), Nm(2, "n2")>>,
          <<Lit("not(../"), Nm(1, "n1"), Lit("["), Nm(2, "k"), Lit(" = 'x'])")>>,
          <<Lit("current()/../"), Nm(2, "n1"), Lit(" != ''")>>,
          <<Lit("../"), Ln(1), Lit("/"), Nm(1, "as"), Lit(" > 0")>>,
          <<Lit("../"), Nm(1, "peer"), Lit(" or ../"), Ln(1)>>,
          <<Lit("count(../"), Ln(2), Lit("/"), Nm(1, "n1"), Lit(") = count(/"), Nm(2, "n2"), Lit("/"), Ln(1), Lit(")")>>,
          \* wildcard name tests in every position of a prefix: the only step, first / middle / last step, function
          \* argument, predicate, next to the multiplication operator (which is spelled like the wildcard)
          <<Wc(1), Lit(" = 'v'")>>,
          <<Wc(1), Lit("/"), Nm(2, "n2"), Lit(" != ''")>>,
          <<Lit("/"), Nm(1, "n1"), Lit("/"), Wc(2), Lit("/"), Nm(1, "n2"), Lit(" = 'v'")>>,
          <<Lit("../"), Ln(1), Lit("/"), Wc(1), Lit(" = 'v'")>>,
          <<Lit("count("), Wc(1), Lit(") > 0")>>,
          <<Lit("../"), Ln(1), Lit("["), Wc(1), Lit(" = 'x']")>>,
          <<Lit("not(../"), Wc(2), Lit("["), Wc(1), Lit("]) or "), Wc(2)>>,
          <<Wc(1), Lit(" * 2 > "), Wc(1)>> >>
\* syntactically invalid arguments (clearly so: unbalanced brackets, two names in a row, unknown
\* function, dangling operator, unterminated literal; for a path also anything that is not a path)
RejectPool(kind) ==
  IF kind = "path"
  THEN << <<Lit("../n1 n2")>>, <<Lit("../n1[n2")>>, <<Lit("../n1]")>>, <<Lit("../n1[n2 = ]")>>, <<Lit("nosuchfn(../n1)")>>,
          <<Lit("../n1 = 1")>>, <<Lit("1")>>, <<Lit("../n1[n2 = current()]")>>, <<Lit("../"), Nm(1, "n1"), Lit("/")>>,
          <<Lit("../"), Wc(1)>>, <<Lit("/"), Nm(1, "n1"), Lit("/"), Wc(2), Lit("/"), Nm(1, "n2")>> >>
  ELSE << <<Lit("n1 n2")>>, <<Lit("(n1 = 1")>>, <<Lit("n1 = 1)")>>, <<Lit("n1[n2")>>, <<Lit("n1]")>>, <<Lit("nosuchfn(n1)")>>,
          <<Lit("n1 =")>>, <<Lit("'abc")>>, <<Lit("n1 + ")>>, <<Lit("n1 = = 2")>>, <<Nm(1, "n1"), Lit(" n2")>> >>
NAccept(kind) == Len(AcceptPool(kind))
Expr(s) == IF s.e <= NAccept(s.kind) THEN AcceptPool(s.kind)[s.e] ELSE RejectPool(s.kind)[s.e - NAccept(s.kind)]
\* ---- invalid arguments DERIVED from the valid ones: truncation (every proper prefix), deletion of a quote / bracket /
\* parenthesis, insertion of one at every position.  Only results that are CLEARLY invalid are kept (decided on
\* characters, no grammar needed): a literal left open, unbalanced ( ) or [ ] outside literals, or the text ends - after
\* blanks - in an operator (= > < ! + , or and), in the colon of a prefix, or in a slash that is not the whole expression - unless what
\* precedes that last word / slash expects a name there (then `or`, `and` are name tests and `/` is the root: valid or not judged).
\* ---- CHARACTERS are input too.  Outside a literal an expression consists of tokens and ExprWhitespace (XPath 1.0, 3.7;
\* whitespace = #x20 #x9 #xD #xA); no token contains a C0 control character or DEL, so an expression with one of them (other
\* than tab, CR, LF) outside a literal is not an expression - whatever follows the character.  Mutation "ctl" inserts such a
\* character (ch = its code, two hex digits; the text carries the mark {U+00hh}, the driver writes the real character)
\* followed by `tail`, "ctlcut" replaces the rest of the text by them.  The tails are nothing or text that is wrong on its own
\* (unbalanced brackets, an undeclared prefix): nothing behind the character may be lost sight of.  A control character INSIDE
\* a literal is not generated (Literal ::= '"' [^"]* '"' admits it; XML's Char does not: not judged).
CtlChars == {"00", "01", "02", "03", "04", "05", "06", "07", "08", "0B", "0C", "0E", "0F", "10", "11", "12", "13", "14", "15", "16",
             "17", "18", "19", "1A", "1B", "1C", "1D", "1E", "1F", "7F"}
CtlMark(ch) == "{U+00" \o ch \o "}"
JunkTails == {"", " (((", " ]]]", "or zz:y", " or zz:y", "/zz:q[", " zz:junk", "((( zz:junk"}
NoMut == [op |-> "none", at |-> 0, ch |-> "", tail |-> ""]
Mutate(t, m) == CASE m.op = "trunc" -> SubSeq(t, 1, m.at)
                  [] m.op = "ctl" -> (IF m.at = 0 THEN "" ELSE SubSeq(t, 1, m.at)) \o CtlMark(m.ch) \o m.tail \o (IF m.at = Len(t) THEN "" ELSE SubSeq(t, m.at + 1, Len(t)))
                  [] m.op = "ctlcut" -> (IF m.at = 0 THEN "" ELSE SubSeq(t, 1, m.at)) \o CtlMark(m.ch) \o m.tail
                  [] m.op = "del" -> (IF m.at = 1 THEN "" ELSE SubSeq(t, 1, m.at - 1)) \o (IF m.at = Len(t) THEN "" ELSE SubSeq(t, m.at + 1, Len(t)))
                  [] m.op = "ins" -> (IF m.at = 0 THEN "" ELSE SubSeq(t, 1, m.at)) \o m.ch \o (IF m.at = Len(t) THEN "" ELSE SubSeq(t, m.at + 1, Len(t)))
                  [] OTHER -> t
St0 == [q |-> FALSE, po |-> 0, pc |-> 0, bo |-> 0, bc |-> 0, neg |-> FALSE]
RECURSIVE Scan(_, _, _)
Scan(t, i, st) ==
  IF i > Len(t) THEN st
  ELSE LET c == SubSeq(t, i, i) IN
       Scan(t, i + 1, IF c = "'" THEN [st EXCEPT !.q = ~st.q]
                      ELSE IF st.q THEN st
                      ELSE IF c = "(" THEN [st EXCEPT !.po = st.po + 1]
                      ELSE IF c = ")" THEN [st EXCEPT !.pc = st.pc + 1, !.neg = st.neg \/ st.pc + 1 > st.po]
                      ELSE IF c = "[" THEN [st EXCEPT !.bo = st.bo + 1]
                      ELSE IF c = "]" THEN [st EXCEPT !.bc = st.bc + 1, !.neg = st.neg \/ st.bc + 1 > st.bo]
                      ELSE st)
RECURSIVE LastNonSpace(_, _)
LastNonSpace(t, n) == IF n = 0 THEN 0 ELSE IF SubSeq(t, n, n) = " " THEN LastNonSpace(t, n - 1) ELSE n
\* does the text up to position m end (after blanks) in something after which a NAME is expected - nothing at all, an operator
\* character, an opening bracket, a comma, or the letters of an operator name?  Then a following `or` / `and` is a name test
\* (XPath 1.0, 3.7: an NCName is an operator name only when a preceding token exists and is not an operator ...) and a
\* following `/` is the root: such endings are not "clearly invalid".  (Over-approximated on purpose: `floor` ends in `or`.)
EndsIn(t, k, w) == k >= Len(w) /\ SubSeq(t, k - Len(w) + 1, k) = w
NameExpectedAfter(t, m) == LET k == LastNonSpace(t, m) IN
                           k = 0 \/ SubSeq(t, k, k) \in {"=", ">", "<", "!", "+", "-", "*", "/", "|", "(", "[", ",", ":", "@"}
                                 \/ EndsIn(t, k, "or") \/ EndsIn(t, k, "and") \/ EndsIn(t, k, "div") \/ EndsIn(t, k, "mod")
EndsBad(t) == LET n == LastNonSpace(t, Len(t)) IN
              n >= 1 /\ LET c == SubSeq(t, n, n) IN
                        \/ c \in {"=", ">", "<", "!", ":", "+", ","} \/ (c = "/" /\ n > 1 /\ ~NameExpectedAfter(t, n - 1))
                        \/ (n >= 4 /\ SubSeq(t, n - 2, n) = " or" /\ ~NameExpectedAfter(t, n - 3))
                        \/ (n >= 5 /\ SubSeq(t, n - 3, n) = " and" /\ ~NameExpectedAfter(t, n - 4))
ClearlyInvalid(t) == LET st == Scan(t, 1, St0) IN
                     Len(t) >= 1 /\ (st.q \/ st.po # st.pc \/ st.bo # st.bc \/ st.neg \/ EndsBad(t))
MarkChars == {"'", "(", ")", "[", "]"}
Muts(t) == {m \in {[op |-> "trunc", at |-> i, ch |-> "", tail |-> ""] : i \in 1..(Len(t) - 1)}
                  \cup {[op |-> "del", at |-> i, ch |-> "", tail |-> ""] : i \in {j \in 1..Len(t) : SubSeq(t, j, j) \in MarkChars}}
                  \cup {[op |-> "ins", at |-> x[1], ch |-> x[2], tail |-> ""] : x \in (0..Len(t)) \X MarkChars}
            : ClearlyInvalid(Mutate(t, m))}
\* positions (0 = before the first character .. Len) that are outside a literal
OutsideLit(t) == {i \in 0..Len(t) : i = 0 \/ ~Scan(SubSeq(t, 1, i), 1, St0).q}
SyntaxOK(s) == s.e <= NAccept(s.kind) /\ s.mut.op = "none"
Slots(x) == {x[i].slot : i \in {j \in 1..Len(x) : x[j].t \in {"n", "ln", "w"}}}      \* slots that shape the text
PSlots(x) == {x[i].slot : i \in {j \in 1..Len(x) : x[j].t \in {"n", "w"}}}         \* slots used as a PREFIX
\* how the colon between a prefix and its local part (or `*`) is written: "" = `p:n`; l / r / lr = a blank on the left / right /
\* both sides.  A QName and `p:*` are single tokens, whitespace is only allowed BETWEEN tokens (XPath 1.0, 3.7; RFC 6020
\* node-identifier), yet lexers that skip blanks there exist (this one does): a statement written like this whose prefixes are
\* all declared is LOOSE - its validity is not judged; if it is accepted, its machine and namespaces are.  With an undeclared
\* prefix it is an error under either reading.
Colon(sp) == CASE sp = "l" -> " :" [] sp = "r" -> ": " [] sp = "lr" -> " : " [] OTHER -> ":"
RECURSIVE Text(_, _, _)
Text(x, pf, sp) == IF x = << >> THEN ""
                   ELSE (IF x[1].t = "s" THEN x[1].v
                         ELSE IF x[1].t = "ln" THEN (IF pf[x[1].slot] = "" THEN x[1].v ELSE pf[x[1].slot])
                         ELSE IF pf[x[1].slot] = "" THEN x[1].v ELSE pf[x[1].slot] \o Colon(sp) \o x[1].v)
                        \o Text(Tail(x), pf, sp)
NameToks(x) == SelectSeq(x, LAMBDA k : k.t \in {"n", "ln", "w"})

\* ------------------------------------------------------------- meaning
UnknownPrefix(c, s) == \E i \in PSlots(Expr(s)) : s.pf[i] # "" /\ ~Known(c, s.T, s.pf[i])
Bad(c, s) == ~SyntaxOK(s) \/ UnknownPrefix(c, s)
UsesPrefix(s) == \E i \in PSlots(Expr(s)) : s.pf[i] # ""
Loose(c, s) == ~Bad(c, s) /\ s.sp # "" /\ UsesPrefix(s)
\* namespace of the i-th name test ("*" = not judged)
NameNs(c, s, k) == IF k.t \in {"n", "w"} /\ s.pf[k.slot] # "" THEN (IF Known(c, s.T, s.pf[k.slot]) THEN Ns(Lookup(c, s.T, s.pf[k.slot])) ELSE "?")
                   ELSE IF k.t = "w" \/ CurMod(s) = "*" THEN "*" ELSE Ns(ModOf(CurMod(s)))
Names(c, s) == LET x == NameToks(Expr(s)) IN [i \in 1..Len(x) |-> [ns |-> NameNs(c, s, x[i]), l |-> IF x[i].t = "ln" /\ s.pf[x[i].slot] # "" THEN s.pf[x[i].slot] ELSE x[i].v]]
\* an instance: a configuration and a sequence of statements
\* "any": no statement is wrong, but the validity of one is not judged (Loose)
Verdict(I) == IF \E i \in 1..Len(I.stmts) : Bad(I.cfg, I.stmts[i]) THEN "error"
              ELSE IF \E i \in 1..Len(I.stmts) : Loose(I.cfg, I.stmts[i]) THEN "any" ELSE "ok"
BadStmts(I) == {i \in 1..Len(I.stmts) : Bad(I.cfg, I.stmts[i])}

\* ------------------------------------------------------------- instance space
Stmt(kind, place, site, e, pf) == [kind |-> kind, place |-> place, T |-> site[1], U |-> site[2], V |-> site[3], e |-> e, pf |-> pf, on |-> 0, hp |-> "", mut |-> NoMut, sp |-> ""]
PfChoices(c, m, x) == LET sl == Slots(x) IN
                      {pf \in [1..2 -> Choices(c, m)] : \A i \in 1..2 : i \notin sl => pf[i] = ""}
StmtsOf(c, kind, place) ==
  UNION {UNION {{Stmt(kind, place, site, e, pf) : pf \in PfChoices(c, site[1], AcceptPool(kind)[e])} : e \in 1..NAccept(kind)}
         \cup UNION {{Stmt(kind, place, site, NAccept(kind) + e, pf) : pf \in PfChoices(c, site[1], RejectPool(kind)[e])} : e \in 1..Len(RejectPool(kind))}
         : site \in Sites(c, place)}
Kinds == {"must", "when", "path"}
Single(c, kind, place) == {[cfg |-> c, stmts |-> <<s>>] : s \in StmtsOf(c, kind, place)}
AllStmts(c) == UNION {UNION {StmtsOf(c, k, p) : p \in Places(k)} : k \in Kinds}
\* ---- seeded sampling.  Every random choice is bound by a singleton set comprehension, so that it is drawn
\* exactly once (sets are never materialised just to draw from them).
ExprAt(kind, e) == IF e <= NAccept(kind) THEN AcceptPool(kind)[e] ELSE RejectPool(kind)[e - NAccept(kind)]
PfGood(c, m, x) == LET sl == Slots(x)  ch == {""} \cup {b[1] : b \in PMap(c, m)} IN
                   {pf \in [1..2 -> ch] : \A i \in 1..2 : i \notin sl => pf[i] = ""}
\* one random statement of the kind at the place (a singleton set; empty if the configuration has no such site):
\* good = from the accept pool with declared prefixes only; otherwise accept pool 2 : 1 reject pool, any prefix
\* spm: how the colons are written - "none" = `p:n` always, "mix" = half of the statements that use a prefix get blanks, "force" = all of them
SampleSp(c, kind, place, good, spm) ==
  IF Sites(c, place) = {} THEN {}
  ELSE UNION {UNION {UNION {{[Stmt(kind, place, site, e, pf) EXCEPT !.sp = sp]
                             : sp \in {IF spm = "none" \/ (\A i \in PSlots(ExprAt(kind, e)) : pf[i] = "") \/ (spm = "mix" /\ RandomElement(1..2) = 1)
                                       THEN "" ELSE RandomElement({"l", "r", "lr"})}}
                      : pf \in {RandomElement(IF good THEN PfGood(c, site[1], ExprAt(kind, e)) ELSE PfChoices(c, site[1], ExprAt(kind, e)))}}
                     : e \in {IF good \/ RandomElement(1..3) > 1 THEN RandomElement(1..NAccept(kind))
                              ELSE NAccept(kind) + RandomElement(1..Len(RejectPool(kind)))}}
              : site \in {RandomElement(Sites(c, place))}}
SampleOne(c, kind, place, good) == SampleSp(c, kind, place, good, IF good THEN "none" ELSE "mix")
SpacedStmts(c, kind, place, n) == UNION {SampleSp(c, kind, place, FALSE, "force") : i \in 1..n}
SampleStmts(c, kind, place, n) == UNION {SampleOne(c, kind, place, FALSE) : i \in 1..n}
RandStmt(c, good) == UNION {UNION {SampleOne(c, k, p, good) : p \in {RandomElement({q \in Places(k) : Sites(c, q) # {}})}} : k \in {RandomElement(Kinds)}}
\* ---- mutated statements: a valid statement whose argument is made clearly invalid by one truncation / deletion / insertion
SText(s) == Mutate(Text(Expr(s), s.pf, s.sp), s.mut)
MutOne(c) == UNION {UNION {IF MS = {} THEN {} ELSE {[cfg |-> c, stmts |-> <<[s EXCEPT !.mut = RandomElement(MS)]>>]}
                           : MS \in {Muts(Text(Expr(s), s.pf, s.sp))}} : s \in RandStmt(c, TRUE)}
Mutated(c, n) == UNION {MutOne(c) : i \in 1..n}
\* ---- control characters: a valid statement (random placement, declared prefixes) with one control character outside a literal -
\* at the end of the text (where what precedes it is a whole expression) or at a random position - and a random tail
GoodOfKind(c, k) == UNION {SampleOne(c, k, p, TRUE) : p \in {RandomElement({q \in Places(k) : Sites(c, q) # {}})}}
CtlOne(c, k, ch, atEnd) ==
  UNION {UNION {{[cfg |-> c, stmts |-> <<[s EXCEPT !.mut = [op |-> o, at |-> i, ch |-> ch, tail |-> tl]]>>]
                 : o \in {RandomElement({"ctl", "ctlcut"})}, tl \in {RandomElement(JunkTails)}}
                : i \in {IF atEnd THEN Len(Text(Expr(s), s.pf, s.sp)) ELSE RandomElement(OutsideLit(Text(Expr(s), s.pf, s.sp)))}}
         : s \in GoodOfKind(c, k)}
Ctl(c, n) == UNION {UNION {CtlOne(c, k, ch, TRUE) \cup UNION {CtlOne(c, k, ch, FALSE) : i \in 1..n} : k \in Kinds} : ch \in CtlChars}
\* every accept expression x every position outside a literal x every control character (written directly in m1, own prefix), random tail
CtlAll(c) ==
  UNION {UNION {UNION {UNION {{[cfg |-> c, stmts |-> <<[Stmt(k, "direct", <<"m1", "m1", "m1">>, e, pf) EXCEPT !.mut = [op |-> o, at |-> i, ch |-> ch, tail |-> tl]]>>]
                               : o \in {RandomElement({"ctl", "ctlcut"})}, tl \in {RandomElement(JunkTails)}}
                              : i \in OutsideLit(Text(AcceptPool(k)[e], pf, "")), ch \in CtlChars}
                       : pf \in {[j \in 1..2 |-> IF j \in Slots(AcceptPool(k)[e]) THEN Own(c, "m1") ELSE ""]}}
                : e \in 1..NAccept(k)} : k \in Kinds}
\* every clearly invalid mutation of every accept expression (written directly in m1, without prefixes and with m1's own)
MutAll(c) ==
  UNION {UNION {UNION {{[cfg |-> c, stmts |-> <<[Stmt(k, "direct", <<"m1", "m1", "m1">>, e, pf) EXCEPT !.mut = m]>>]
                        : m \in Muts(Text(AcceptPool(k)[e], pf, ""))}
                       : pf \in {[i \in 1..2 |-> IF i \in Slots(AcceptPool(k)[e]) THEN p ELSE ""] : p \in {"", Own(c, "m1")}}}
                : e \in 1..NAccept(k)} : k \in Kinds}

\* the truncations that end right after an opening quote, bracket or parenthesis, an operator character, a prefix colon or a
\* slash (always generated, also in the quick tier)
\* (the same set as {I \in MutAll(c) : truncation /\ last character in BoundaryChars}, computed without materialising MutAll)
BoundaryChars == {"'", "(", "[", "=", ">", "<", "!", ":", "/", "+", ","}
MutBoundary(c) ==
  UNION {UNION {UNION {{[cfg |-> c, stmts |-> <<[Stmt(k, "direct", <<"m1", "m1", "m1">>, e, pf) EXCEPT !.mut = [op |-> "trunc", at |-> i, ch |-> "", tail |-> ""]]>>]
                        : i \in {j \in 1..(Len(Text(AcceptPool(k)[e], pf, "")) - 1) :
                                   LET t == Text(AcceptPool(k)[e], pf, "") IN SubSeq(t, j, j) \in BoundaryChars /\ ClearlyInvalid(SubSeq(t, 1, j))}}
                       : pf \in {[i \in 1..2 |-> IF i \in Slots(AcceptPool(k)[e]) THEN p ELSE ""] : p \in {"", Own(c, "m1")}}}
                : e \in 1..NAccept(k)} : k \in Kinds}

\* ---- several statements on one node.  A host statement (must, when or path; written directly, in a grouping used
\* locally / from another unit, or under augment) and two or three further statements on the SAME node: musts (and, if
\* the host is not a when, possibly the node's when) written next to it, or musts added by refine (host in a grouping)
\* or by a deviation (host written directly).  Statements of one kind on one node have different expressions, so each
\* compiled machine can be told by its text.  `bad` in 0..4: which position (0 = none, 1 = host) carries the defect
\* (reject pool or undeclared / foreign prefix).
HostPlaces == {"direct", "grp-local", "grp-cross", "augment"}
DevUnits(c, h) == {d \in Present(c) : ImportsMod(c, d, ModOf(h.T)) /\ d # ModOf(h.T) /\ TargetPathPlain(c, d, ModOf(h.T))}
Modes(c, h) == {"same"} \cup (IF h.place \in {"grp-local", "grp-cross"} THEN {"refine-on"} ELSE {})
               \cup (IF h.place = "direct" /\ DevUnits(c, h) # {} THEN {"deviate-on"} ELSE {})
\* one random further statement (singleton set) of the kind on the node of host h (statement number j), expression not in `used`
ExtraOne(c, h, j, kind, mode, good, used) ==
  UNION {UNION {UNION {{[kind |-> kind, place |-> mode, T |-> t, U |-> h.U, V |-> h.V, e |-> e, pf |-> pf, on |-> j, hp |-> h.place, mut |-> NoMut, sp |-> ""]
                        : pf \in {RandomElement(IF good THEN PfGood(c, t, ExprAt(kind, e)) ELSE PfChoices(c, t, ExprAt(kind, e)))}}
                       : e \in {IF good \/ RandomElement(1..2) = 1 THEN RandomElement((1..NAccept(kind)) \ used)
                                ELSE NAccept(kind) + RandomElement(1..Len(RejectPool(kind)))}}
                : t \in {CASE mode \in {"same", "augment-when"} -> h.T [] mode \in {"refine-on", "uses-when"} -> h.U [] OTHER -> RandomElement(DevUnits(c, h))}}
         : dummy \in {1}}
\* a bad statement must really be bad (a draw from all prefixes may come out well-formed): draw until it is
RECURSIVE ExtraBad(_, _, _, _, _, _, _)
ExtraBad(c, h, j, kind, mode, used, fuel) ==
  LET X == ExtraOne(c, h, j, kind, mode, FALSE, used) IN
  IF fuel = 0 \/ \E x \in X : Bad(c, x) THEN X ELSE ExtraBad(c, h, j, kind, mode, used, fuel - 1)
Extra(c, h, j, kind, mode, bad, used) == IF bad THEN ExtraBad(c, h, j, kind, mode, used, 20) ELSE ExtraOne(c, h, j, kind, mode, TRUE, used)
RECURSIVE HostBad(_, _, _, _)
HostBad(c, k, p, fuel) == LET X == SampleOne(c, k, p, FALSE) IN
                          IF fuel = 0 \/ \E x \in X : Bad(c, x) THEN X ELSE HostBad(c, k, p, fuel - 1)
UsedE(h, kind) == IF h.kind = kind THEN {h.e} ELSE {}
SeqOf(X) == IF X = {} THEN << >> ELSE <<CHOOSE x \in X : TRUE>>
\* a when handed down to the node of host h from the uses that copies it / the augment that adds it: two times out of
\* three the very text of a when the node already has (prev), else an expression of its own
ViaWhen(c, h, prev) ==
  LET mode == IF h.place \in {"grp-local", "grp-cross"} THEN "uses-when" ELSE IF h.place = "augment" THEN "augment-when" ELSE ""
      ew == SelectSeq(prev, LAMBDA x : x.kind = "when")
  IN IF mode = "" THEN {}
     ELSE IF ew # << >> /\ RandomElement(1..3) <= 2
     THEN {[ew[1] EXCEPT !.place = mode, !.T = IF mode = "uses-when" THEN h.U ELSE h.T, !.on = 1, !.hp = h.place]}
     ELSE ExtraOne(c, h, 1, "when", mode, RandomElement(BOOLEAN), {})
\* a must added by refine with the very text of the host's own must (written in the using unit)
CopyMust(c, h) == IF h.kind = "must" /\ h.place \in {"grp-local", "grp-cross"} /\ RandomElement(1..2) = 1
                  THEN {[h EXCEPT !.place = "refine-on", !.T = h.U, !.on = 1, !.hp = h.place]} ELSE {}
StackOne(c) ==
  UNION {UNION {UNION {UNION {UNION {UNION {UNION {UNION {
     {[cfg |-> c, stmts |-> base \o SeqOf(ViaWhen(c, h, base)) \o SeqOf(CopyMust(c, h))]
        : base \in {IF n3 THEN <<h, x2, x3, x4>> ELSE <<h, x2, x3>>}}
        : x4 \in Extra(c, h, 1, "must", m4, bad = 4, UsedE(h, "must") \cup {x2.e, x3.e})}
       : m4 \in {RandomElement(Modes(c, h))}}
      : x3 \in Extra(c, h, 1, k3, IF k3 = "when" THEN "same" ELSE RandomElement(Modes(c, h)), bad = 3, UsedE(h, k3) \cup (IF k3 = "must" THEN {x2.e} ELSE {}))}
     : k3 \in {IF h.kind # "when" /\ RandomElement(1..3) = 1 THEN "when" ELSE "must"}}
    : x2 \in Extra(c, h, 1, "must", RandomElement(Modes(c, h)), bad = 2, UsedE(h, "must"))}
   : h \in (IF bad = 1 THEN HostBad(c, hk, hp, 20) ELSE SampleOne(c, hk, hp, TRUE))}
  : hp \in {RandomElement({q \in HostPlaces : Sites(c, q) # {}})}}
  : hk \in {RandomElement(Kinds)}, n3 \in {RandomElement(BOOLEAN)}, bad \in {RandomElement(0..4)}}
Stacks(c, n) == UNION {StackOne(c) : i \in 1..n}

\* n seeded random instances with several statements at once (at most one of them rejected, so that
\* the statement the error must name is unique)
Multi(c, n) == UNION {UNION {UNION {UNION {UNION {{[cfg |-> c, stmts |-> <<s1, s2, s3, s4>>]} : s4 \in RandStmt(c, TRUE)} : s3 \in RandStmt(c, TRUE)}
                             : s2 \in RandStmt(c, FALSE)} : s1 \in RandStmt(c, TRUE)} : i \in 1..n}
=============================================================================
