---------------------------- MODULE SchemaPathGen ----------------------------
(* Behaviour generator for C17 (model -> code).  Per shape: the schema records
   (rendered to YANG by the harness) and, for every judged path, the verdict in
   both modes: accepted or the index of the first offending element, together
   with the phase the walk machine was in when it met that element (names the
   disagreement class when the code differs).  A path through a list with several
   keys past its first key value has no prescribed verdict (at = -1, phase "unjudged"):
   it is left out when that holds in both modes (counted in spu_N), else the one mode is
   marked.  Shape 100: NRand schemas sampled
   with RandomElement (-seed), written without verdicts: the harness walks them
   with seeded random paths and SchemaPathTrace judges the recorded events.
   One initial state per shape so that all TLC workers are used.               *)
EXTENDS SchemaPath, SchemaRand, Json, SequencesExt
CONSTANTS Shapes, MaxLen, Ext, FullTails, NRand, RandDepth
VARIABLES shape, done

V(sch, p, inc) == LET r == Rec(sch, p, inc) IN
  [ok |-> r.ok, at |-> r.at, ph |-> IF r.ok THEN "end:" \o Run(sch, p).ph ELSE PhaseBefore(sch, p, r.at)]
Vec(sch, p) == [p |-> p, s |-> V(sch, p, FALSE), i |-> V(sch, p, TRUE)]
Sfx(n) == ToString(n) \o ".ndjson"

RECURSIVE RandSchemas(_)
RandSchemas(n) == IF n = 0 THEN << >> ELSE RandSchemas(n - 1) \o <<[id |-> 1000 + n, kids |-> RandSchema(RandDepth, "keys")]>>

GInit == shape \in Shapes /\ done = FALSE
GNext == /\ ~done /\ done' = TRUE /\ UNCHANGED shape
         /\ IF shape = 100
            THEN ndJsonSerialize("sprand.ndjson", RandSchemas(NRand))
            ELSE LET sch == PathShape(shape)
                     all == PathsFor(sch, MaxLen, Ext, FullTails)
                     jud == JudgedPaths(sch, all) IN
                 /\ ndJsonSerialize("sps_" \o Sfx(shape), <<[id |-> shape, kids |-> sch]>>)
                 /\ ndJsonSerialize("spv_" \o Sfx(shape), SetToSeq({Vec(sch, p) : p \in jud}))
                 /\ ndJsonSerialize("spu_" \o Sfx(shape), <<[id |-> shape, paths |-> Cardinality(all), judged |-> Cardinality(jud)]>>)
=============================================================================
