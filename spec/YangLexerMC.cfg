SPECIFICATION Spec
CONSTANT MaxLen = 8
CONSTANT Alphabet = {97, 32, 10, 13, 34, 39, 92, 123, 125, 59, 43, 47, 42, 233, 1114367}
CONSTANT EofIsTerminator = TRUE
CONSTANT DrainOnAbort = TRUE
INVARIANT TypeOK NothingLeft Outcome Stream
PROPERTY ParserReturns LexerEnds NoLeak
CHECK_DEADLOCK FALSE
