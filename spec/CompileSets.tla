----------------------------- MODULE CompileSets -----------------------------
(* The bounded input space of CompilePipeline: reference graphs over <= 3 modules,
   2 submodules, 3 groupings / typedefs / identities / features.  Every graph kind
   occurs: acyclic (chain, fan, shared dag), self loop, 2-cycle, 3-cycle, a path
   leading into a cycle, dangling reference (local and cross-module), cross-module
   placement of every definition, missing import, module not supplied, unused
   cyclic definitions; plus import graphs, include graphs and augment / deviation
   combinations between modules; definitions scoped in statements reached through
   any nesting (scoped: I.spath), one statement with the wrong kind of schema node id
   or a target of the wrong kind (illformed: I.ill), a name defined as another kind
   (kindmix), one prefix string bound to different modules by two modules (homonym).
   Chunk(c) is one family (one TLC initial state). *)
EXTENDS CompilePipeline

Base == [fam |-> "", shape |-> "", mods |-> Mods, imp |-> {}, subs |-> {}, inc |-> {}, defs |-> {},
         roots |-> {}, augs |-> {}, devs |-> {}, off |-> {}, alias |-> {}, spell |-> "u", rpos |-> "container",
         spath |-> <<"container">>, ill |-> {}]
Spellings == {"u", "o", "mix"}

\* ---- definition graphs: name -> set of referenced names ("z" is never defined)
ShapeFn(sh) ==
  CASE sh = "single" -> ("a" :> {})
    [] sh = "chain"  -> ("a" :> {"b"} @@ "b" :> {"c"} @@ "c" :> {})
    [] sh = "fan"    -> ("a" :> {"b", "c"} @@ "b" :> {} @@ "c" :> {})
    [] sh = "dag"    -> ("a" :> {"b", "c"} @@ "b" :> {"c"} @@ "c" :> {})
    [] sh = "self"   -> ("a" :> {"a"})
    [] sh = "cyc2"   -> ("a" :> {"b"} @@ "b" :> {"a"})
    [] sh = "cyc3"   -> ("a" :> {"b"} @@ "b" :> {"c"} @@ "c" :> {"a"})
    [] sh = "lasso"  -> ("a" :> {"b"} @@ "b" :> {"c"} @@ "c" :> {"b"})
    [] sh = "dang1"  -> ("a" :> {"z"})
    [] sh = "dang"   -> ("a" :> {"b"} @@ "b" :> {"z"})
Cyclic(sh) == sh \in {"self", "cyc2", "cyc3", "lasso"}
SingleRef == {"single", "chain", "self", "cyc2", "cyc3", "lasso", "dang1", "dang"}
ShapesOf(k) == IF k \in {"grouping", "feature"} THEN SingleRef \cup {"fan", "dag"} ELSE SingleRef

\* Places: the modules over which the definitions are spread ("a" always lives in m1)
HomesOf(sh, Places) == {h \in [DOMAIN ShapeFn(sh) -> Places] : h["a"] = "m1"}
\* <<position of the references of each definition, position of the using data node>>: every position once with every
\* shape (all definitions of the instance in the same position, so that a cycle is closed through that position only)
PosPairs(k) == CASE k = "grouping" -> {<<"direct", "container">>, <<"container", "list">>, <<"list", "choice">>, <<"choice", "rpc">>,
                                       <<"augment", "notification">>, <<"inner", "container">>}
                 [] k = "typedef" -> {<<"direct", "leaf">>, <<"union", "leaf-list">>, <<"direct", "union">>, <<"union", "leaf">>}
                 [] k = "identity" -> {<<"direct", "leaf">>, <<"direct", "union">>, <<"direct", "typedef">>}
                 [] OTHER -> {<<"direct", "leaf">>, <<"direct", "container">>, <<"direct", "list">>, <<"direct", "leaf-list">>}
NestsOf(k, sh) == LET D == DOMAIN ShapeFn(sh) IN
                  {<<[n \in D |-> pp[1]], pp[2]>> : pp \in PosPairs(k)}
                  \cup (IF k = "grouping" /\ sh \in {"fan", "dag"} THEN {<<[n \in D |-> IF n = x THEN "container" ELSE "direct"], "container">> : x \in D} ELSE {})

DefInst(k, sh, home, nest, zm, rh, used, off, sp) ==
  LET F == ShapeFn(sh)
      refsOf(n) == {IF y = "z" THEN Ref(zm, "z") ELSE Ref(home[y], y) : y \in F[n]}
      defs == {[k |-> k, n |-> n, home |-> home[n], refs |-> refsOf(n), pos |-> nest[1][n]] : n \in DOMAIN F}
      need == UNION {{<<d.home, r.m>> : r \in {x \in d.refs : x.m # d.home}} : d \in defs}
              \cup (IF used /\ rh # "m1" THEN {<<rh, "m1">>} ELSE {})
  IN [Base EXCEPT !.fam = k, !.shape = sh, !.defs = defs, !.imp = need, !.off = off, !.spell = sp, !.rpos = nest[2],
                  !.roots = IF used THEN {[home |-> rh, k |-> k, m |-> "m1", n |-> "a"]} ELSE {}]

\* variants of one instance: an import statement missing; a module not supplied
DropImport(I) == {[I EXCEPT !.imp = I.imp \ {e}, !.shape = I.shape \o "-noimport"] : e \in I.imp}
DropModule(I) == {[I EXCEPT !.mods = I.mods \ {x}, !.shape = I.shape \o "-nomodule",
                            !.defs = {d \in I.defs : ModH(d.home) # x},
                            !.imp = {e \in I.imp : e[1] # x},
                            !.augs = {a \in I.augs : a.m # x}, !.devs = {d \in I.devs : d.m # x}]
                  : x \in {y \in Mods : y # "m1" /\ \A r \in I.roots : ModH(r.home) # y}}
Variants(I) == {I} \cup DropImport(I) \cup DropModule(I)

DefFamily(k, sh, Places) ==
  UNION {Variants(DefInst(k, sh, home, nest, zm, rh, used, off, sp))
         : sp \in Spellings, home \in HomesOf(sh, Places), nest \in NestsOf(k, sh),
           zm \in (IF "z" \in UNION {ShapeFn(sh)[n] : n \in DOMAIN ShapeFn(sh)} THEN Places ELSE {"m1"}),
           rh \in {"m1", "m2"},
           used \in (IF Cyclic(sh) THEN {TRUE, FALSE} ELSE {TRUE}),
           off \in (IF k = "feature" /\ ~Cyclic(sh) /\ sh \notin {"dang", "dang1"}
                    THEN {{}} \cup {{n} : n \in DOMAIN ShapeFn(sh)} ELSE {{}})}

\* ---- twins: the SAME local names defined twice - in two modules, in two sibling scopes of one module,
\* at the top level of one module and in a scope of another, or (an error in itself) at the top level and
\* in a scope of the same module.  One copy has shape sh1, the other sh2 (well-formed, cyclic or dangling,
\* in both roles), every reference is local to its scope, each copy is used by a data node of its own
\* scope, and optionally a third module uses one of the top-level copies through its prefix.
LocalDefs(k, sh, h, nest) ==
  LET F == ShapeFn(sh) IN {[k |-> k, n |-> n, home |-> h, refs |-> {Ref(ModH(h), y) : y \in F[n]}, pos |-> nest[1]] : n \in DOMAIN F}
TwinInst(k, sh1, sh2, hh, nest, x, sp) ==
  [Base EXCEPT !.fam = k, !.shape = "twin-" \o sh1 \o "-" \o sh2, !.spell = sp, !.rpos = nest[2],
               !.defs = LocalDefs(k, sh1, hh[1], nest) \cup LocalDefs(k, sh2, hh[2], nest),
               !.roots = {[home |-> h, k |-> k, m |-> ModH(h), n |-> "a"] : h \in {hh[1], hh[2]}}
                         \cup (IF x = "" THEN {} ELSE {[home |-> "m3", k |-> k, m |-> x, n |-> "a"]}),
               !.imp = IF x = "" THEN {} ELSE {<<"m3", x>>}]
TwinScopes(k) == {<<"m1", "m2">>, <<"m2", "m1">>}
                 \cup (IF k \in {"grouping", "typedef"}
                       THEN {<<"m1.x1", "m1.x2">>, <<"m1.x2", "m1.x1">>, <<"m1", "m2.x3">>, <<"m2.x3", "m1">>, <<"m1.x1", "m2.x3">>,
                             <<"m2.x3", "m1.x1">>, <<"m1", "m1.x1">>, <<"m1.x1", "m1">>}
                       ELSE {})
TwinFamily(k) ==
  UNION {{TwinInst(k, sh1, sh2, hh, nest, x, sp) : x \in {""} \cup {h \in {hh[1], hh[2]} : ~Scoped(h)}}
         : sp \in Spellings, sh1 \in {"single", "chain"}, sh2 \in {"single", "chain", "self", "cyc2", "cyc3", "lasso", "dang1", "dang"},
           hh \in TwinScopes(k), nest \in PosPairs(k)}

\* ---- scoped: the definitions of one reference graph (every shape) written in a scope "m1.x1" that is reached through
\* any nesting of statements (I.spath: container / list / choice-case / shorthand case / rpc input / output / notification /
\* another grouping / augment / uses-augment, up to three deep, the innermost being any statement that may hold
\* definitions), used by a data node of that scope.  Placement of the definitions: all in the scope ("in"), or only "a" in
\* the scope and the rest of the graph at the top level of the module ("top") or in another module ("out") - an
\* unprefixed name is looked up in the scope first, then at the top level, so a chain may leave the scope but never
\* re-enter it (the cycle shapes then contain a reference to a name that is not visible there: dangling).
SPathsN(n) == {s \in [1..n -> Wrappers] : ValidSPath(s)}
SPathsAll(u_) == SPathsN(1) \cup SPathsN(2) \cup SPathsN(3)
\* the model checker's share: every holder alone, and every wrapper once in front of a container
SPathsSmall == SPathsN(1) \cup {s \in SPathsN(2) : s[2] = "container"}
ScopedPlaces == {"in", "top", "out"}
ScopedInst(k, sh, nest, pl, used, sp, spath) ==
  LET F == ShapeFn(sh)
      homeOf(n) == IF n = "a" \/ pl = "in" THEN "m1.x1" ELSE IF pl = "top" THEN "m1" ELSE "m2"
      refsOf(n) == {IF y = "z" THEN Ref("m1", "z") ELSE Ref(ModH(homeOf(y)), y) : y \in F[n]}
      defs == {[k |-> k, n |-> n, home |-> homeOf(n), refs |-> refsOf(n), pos |-> nest[1]] : n \in DOMAIN F}
      need == UNION {{<<ModH(d.home), r.m>> : r \in {x \in d.refs : x.m # ModH(d.home)}} : d \in defs}
  IN [Base EXCEPT !.fam = k, !.shape = "scoped-" \o sh \o "-" \o pl, !.defs = defs, !.imp = need, !.spell = sp, !.rpos = nest[2], !.spath = spath,
                  !.roots = IF used THEN {[home |-> "m1.x1", k |-> k, m |-> "m1", n |-> "a"]} ELSE {}]
\* (exhaustive part: unprefixed spelling - the sampled part draws all three; an acyclic graph is always used)
ScopedFamily(k, SP) ==
  {ScopedInst(k, sh, nest, pl, TRUE, "u", spath) : sh \in ShapesOf(k), nest \in PosPairs(k), pl \in ScopedPlaces, spath \in SP}
  \cup {ScopedInst(k, sh, nest, pl, FALSE, "u", spath) : sh \in {x \in ShapesOf(k) : Cyclic(x)}, nest \in PosPairs(k), pl \in ScopedPlaces, spath \in SP}
SampleScoped(k) ==
  {ScopedInst(k, sh, nest, pl, used, sp, spath)
   \* (the single-statement paths are all in the exhaustive part: deeper ones and the all-in-the-scope placement drawn more often)
   : sh \in {RandomElement(ShapesOf(k))}, nest \in {RandomElement(PosPairs(k))}, pl \in {<<"in", "in", "top", "out">>[RandomElement(1..4)]},
     used \in {RandomElement(1..4) > 1}, sp \in {RandomElement(Spellings)},
     spath \in {LET n == <<1, 2, 2, 3, 3>>[RandomElement(1..5)] IN RandomElement(SPathsN(n))}}
\* a sweep: every scope path of one or two statements once with a reference cycle inside the scope (random cycle shape,
\* position, spelling), so that no kind of enclosing statement depends on the luck of the draw
SweepScoped(k) ==
  UNION {{ScopedInst(k, sh, nest, "in", TRUE, sp, spath)
          : sh \in {RandomElement({x \in ShapesOf(k) : Cyclic(x)})}, nest \in {RandomElement(PosPairs(k))}, sp \in {RandomElement(Spellings)}}
         : spath \in SPathsN(1) \cup SPathsN(2)}
SampleScopeds(k, n) == SweepScoped(k) \cup UNION {SampleScoped(k) : i \in 1..n}

\* ---- kindmix: a name that IS defined - as a definition of another kind (typedef a; uses a).  Typedefs, groupings,
\* identities and features have separate name spaces (RFC 6020 6.2.1): the reference is dangling unless a definition
\* of the right kind exists too ("both").  The reference comes from a data node or from a definition b a data node uses.
KindMixInst(k1, k2, h1, via, both, nest, sp) ==
  LET d1 == {[k |-> k1, n |-> "a", home |-> h1, refs |-> {}, pos |-> "direct"]}
           \cup (IF both THEN {[k |-> k2, n |-> "a", home |-> h1, refs |-> {}, pos |-> nest[1]]} ELSE {})
      d2 == IF via THEN {[k |-> k2, n |-> "b", home |-> "m1", refs |-> {Ref(h1, "a")}, pos |-> nest[1]]} ELSE {}
  IN [Base EXCEPT !.fam = "kindmix", !.shape = k1 \o "-as-" \o k2 \o (IF both THEN "-both" ELSE ""), !.defs = d1 \cup d2, !.spell = sp, !.rpos = nest[2],
                  !.imp = IF h1 = "m1" THEN {} ELSE {<<"m1", h1>>},
                  !.roots = {[home |-> "m1", k |-> k2, m |-> (IF via THEN "m1" ELSE h1), n |-> (IF via THEN "b" ELSE "a")]}]
KindMixFamily == UNION {IF k1 = k2 THEN {} ELSE {KindMixInst(k1, k2, h1, via, both, nest, sp) : nest \in PosPairs(k2)}
                        : k1 \in Kinds, k2 \in Kinds, h1 \in {"m1", "m2"}, via \in BOOLEAN, both \in BOOLEAN, sp \in {"u", "o"}}

\* ---- homonym: the same WRITTEN reference "q:a" in two modules that bind the prefix string q differently (RFC 6020 7.1.5:
\* a prefix is local to the module that declares it).  m1 imports m3 as q; m2 imports m1 as q ("both": a is defined in
\* m3 and in m1, one copy plain, the other with a second definition that changes what a compiled node shows: a derived
\* identity, a feature dependency switched off, a further grouping), or m1 does not define a ("dangling"), or m2 imports
\* m3 as q as well ("same"), or m2 declares no prefix q at all ("unknown").  Both modules use the reference from a data
\* node, directly or through a local definition c.
HomonymDefs(k, h, rich) ==
  LET d(n, refs) == [k |-> k, n |-> n, home |-> h, refs |-> {Ref(h, y) : y \in refs}, pos |-> "direct"] IN
  IF ~rich THEN {d("a", {})} ELSE IF k = "identity" THEN {d("a", {}), d("b", {"a"})} ELSE {d("a", {"b"}), d("b", {})}
HomonymInst(k, mode, rich3, via) ==
  LET t2 == IF mode = "same" THEN "m3" ELSE "m1"         \* what q means in m2 (mode "unknown": m2 has no such import)
      user(u, t) == IF via THEN {[k |-> k, n |-> "c", home |-> u, refs |-> {Ref(t, "a")}, pos |-> "direct"]} ELSE {}
      root(u, t) == [home |-> u, k |-> k, m |-> (IF via THEN u ELSE t), n |-> (IF via THEN "c" ELSE "a")]
  IN [Base EXCEPT !.fam = "homonym", !.shape = k \o "-" \o mode \o (IF rich3 THEN "-r3" ELSE "-r1") \o (IF via THEN "-via" ELSE ""),
                  !.rpos = (IF k = "grouping" THEN "container" ELSE "leaf"), !.off = IF k = "feature" THEN {"b"} ELSE {},
                  !.imp = {<<"m1", "m3">>} \cup (IF mode = "unknown" THEN {} ELSE {<<"m2", t2>>}),
                  !.alias = {<<"m1", "m3", "q">>, <<"m2", t2, "q">>},
                  !.defs = HomonymDefs(k, "m3", rich3) \cup (IF mode = "dangling" THEN {} ELSE HomonymDefs(k, "m1", ~rich3))
                           \cup user("m1", "m3") \cup user("m2", t2),
                  !.roots = {root("m1", "m3"), root("m2", t2)}]
HomonymFamily == {HomonymInst(k, mode, rich3, via) : k \in Kinds, mode \in {"both", "dangling", "same", "unknown"}, rich3 \in BOOLEAN, via \in BOOLEAN}

\* ---- illformed: ONE statement (uses-augment, refine, unique, top-level augment, deviation) with either kind of schema
\* node id, naming every kind of node of the host (or none), with every property; see CompilePipeline "ill-formed
\* statements".  Well-formed and ill-formed members differ in exactly that statement.
IllTargets == {"container", "leaf", "leafnd", "leaf-list", "list", "choice", "case", "none", "nonedeep"}
IllRec(site, arg, tgt, prop, m, at) == [site |-> site, arg |-> arg, tgt |-> tgt, prop |-> prop, m |-> m, at |-> at]
IllStatements(u_) ==
  {IllRec("uses-augment", arg, tgt, "leaf", "m1", at) : arg \in {"desc", "abs"}, tgt \in IllTargets, at \in {"data", "grouping", "case", "rpc"}}
  \cup {IllRec("refine", arg, tgt, prop, "m1", at) : arg \in {"desc", "abs"}, tgt \in IllTargets, at \in {"data", "grouping", "case", "rpc"},
                                                     prop \in {"default", "mandatory", "presence", "description", "min-elements"}}
  \cup {IllRec("unique", arg, tgt, "-", "m1", "data") : arg \in {"desc", "abs"}, tgt \in {"leaf", "nested", "container", "none"}}
  \cup {IllRec("augment", arg, tgt, "leaf", m, at) : arg \in {"desc", "abs"}, tgt \in IllTargets, m \in {"m1", "m2"}, at \in {"data", "rpc"}}
  \cup {IllRec("deviation", arg, tgt, prop, "m2", "data") : arg \in {"desc", "abs"}, tgt \in IllTargets \ {"choice", "case"},
                                                            prop \in {"not-supported", "replace", "add", "delete"}}
IllInst(x, sp) == [Base EXCEPT !.fam = "illformed", !.shape = x.site \o "-" \o x.arg \o "-" \o x.tgt, !.mods = {"m1", "m2"}, !.imp = {<<"m2", "m1">>},
                               !.spell = sp, !.ill = {x}]
IllSites == {"uses-augment", "refine", "unique", "augment", "deviation"}
IllFamily(site) == {IllInst(x, sp) : x \in {y \in IllStatements(0) : y.site = site}, sp \in {"u", "o"}}

\* ---- import graphs: every set of import statements between the supplied modules
ImportFamily(present) ==
  {[Base EXCEPT !.fam = "import", !.shape = IF HasCycle(E) THEN "cyclic" ELSE "acyclic", !.mods = present, !.imp = E]
   : E \in SUBSET (present \X Mods)}

\* ---- import graphs through a submodule: m1 includes s1; every set of import statements between the modules
\* x every non-empty set of imports written in s1 (dependencies of m1 that exist only through its submodule, cycles
\* m1 -(s1)-> N -> ... -> m1).  "collide": s1 names m2 by the prefix string under which m1 imports m3 and vice
\* versa (same prefix string, different module, in a module and its submodule).  Without collision s1 may also
\* augment a grouping-produced container of m2, which must then be expanded before m1.
SubImportFamily ==
  LET ME == {<<"m1", "m2">>, <<"m1", "m3">>, <<"m2", "m1">>, <<"m2", "m3">>, <<"m3", "m1">>, <<"m3", "m2">>}
      SE == {<<"s1", "m2">>, <<"s1", "m3">>}
      One(E, S, col, aug) ==
        [Base EXCEPT !.fam = "subimport", !.shape = (IF HasCycle(E \cup {<<"m1", e[2]>> : e \in S}) THEN "cyclic" ELSE "acyclic") \o (IF col THEN "-collide" ELSE ""),
                     !.imp = E \cup S, !.subs = {<<"s1", "m1">>}, !.inc = {<<"m1", "s1">>},
                     !.alias = IF col THEN {<<"s1", "m2", "pm3">>, <<"s1", "m3", "pm2">>} ELSE {},
                     !.defs = IF aug THEN {[k |-> "grouping", n |-> "a", home |-> "m2", refs |-> {}, pos |-> "direct"]} ELSE {},
                     !.roots = IF aug THEN {[home |-> "m2", k |-> "grouping", m |-> "m2", n |-> "a"]} ELSE {},
                     !.augs = IF aug THEN {[m |-> "s1", t |-> "m2", n |-> "a"]} ELSE {}]
  IN {One(E, S, col, FALSE) : E \in SUBSET ME, S \in (SUBSET SE) \ {{}}, col \in BOOLEAN}
     \cup {One(E, S, FALSE, TRUE) : E \in SUBSET ME, S \in {X \in SUBSET SE : <<"s1", "m2">> \in X}}

\* ---- include graphs
IncludeFamily(present, Cand) ==
  LET Bel == {"m1", "m2", "m9", "-"}
      EdgeSets(b1, b2) == {X \in SUBSET Cand : \A e \in X : (e[1] \in present \/ (e[1] = "s1" /\ b1 # "-") \/ (e[1] = "s2" /\ b2 # "-"))}
      One(b1, b2) ==
        {[Base EXCEPT !.fam = "include", !.mods = present, !.inc = E,
                      !.shape = IF HasCycle(E) THEN "cyclic" ELSE "acyclic",
                      !.subs = (IF b1 = "-" THEN {} ELSE {<<"s1", b1>>}) \cup (IF b2 = "-" THEN {} ELSE {<<"s2", b2>>}),
                      !.roots = IF rt THEN {[home |-> "m1", k |-> "subtype", m |-> "m1", n |-> "s1"]} ELSE {}]
         : rt \in BOOLEAN, E \in EdgeSets(b1, b2)}
  IN UNION {One(bb[1], bb[2]) : bb \in Bel \X Bel}
IncCandFull == {<<"m1", "s1">>, <<"m1", "s2">>, <<"s1", "s1">>, <<"s1", "s2">>, <<"s2", "s1">>, <<"m1", "s9">>, <<"m2", "s1">>}
IncCandSmall == {<<"m1", "s1">>, <<"m1", "s2">>, <<"s1", "s1">>, <<"s1", "s2">>, <<"s2", "s1">>}
\* the schema of a module that does not itself include every submodule that is attached to it
\* is not judged (RFC 6020 does not say whether such a submodule's nodes belong to the module)
SchemaJudged(I) == \A sb \in I.subs : sb[2] \in I.mods => <<sb[2], sb[1]>> \in I.inc

\* ---- augments and deviations between modules: m1 { grouping a; uses a }, m2 and m3 act on it
Acts == {"none", "aug", "augz", "ns", "rep", "devz", "nsx"}
AugDevInst(a2, a3, used, self, sp) ==
  LET other(m) == IF m = "m2" THEN "m3" ELSE "m2"
      act(m) == IF m = "m2" THEN a2 ELSE a3
      augs == UNION {IF act(m) = "aug" THEN {[m |-> m, t |-> "m1", n |-> "a"]}
                     ELSE IF act(m) = "augz" THEN {[m |-> m, t |-> "m1", n |-> "z"]} ELSE {} : m \in {"m2", "m3"}}
              \cup (IF self THEN {[m |-> "m1", t |-> "m1", n |-> "a"]} ELSE {})      \* m1 augments its own container
      devs == UNION {CASE act(m) = "ns" -> {[m |-> m, t |-> "m1", n |-> "a", how |-> "ns", by |-> ""]}
                       [] act(m) = "rep" -> {[m |-> m, t |-> "m1", n |-> "a", how |-> "rep", by |-> ""]}
                       [] act(m) = "devz" -> {[m |-> m, t |-> "m1", n |-> "z", how |-> "ns", by |-> ""]}
                       [] act(m) = "nsx" -> {[m |-> m, t |-> "m1", n |-> "a", how |-> "nsx", by |-> other(m)]}
                       [] OTHER -> {} : m \in {"m2", "m3"}}
      imp == {<<"m2", "m1">>, <<"m3", "m1">>} \cup {<<m, other(m)>> : m \in {x \in {"m2", "m3"} : act(x) = "nsx"}}
  IN [Base EXCEPT !.fam = "augdev", !.shape = a2 \o "+" \o a3 \o (IF self THEN "+self" ELSE ""), !.spell = sp, !.imp = imp, !.augs = augs, !.devs = devs,
                  !.defs = {[k |-> "grouping", n |-> "a", home |-> "m1", refs |-> {}, pos |-> "direct"]},
                  !.roots = IF used THEN {[home |-> "m1", k |-> "grouping", m |-> "m1", n |-> "a"]} ELSE {}]
AugDevFamily == UNION {Variants(AugDevInst(a2, a3, used, self, sp)) : a2 \in Acts, a3 \in Acts, used \in BOOLEAN, self \in BOOLEAN, sp \in {"u", "o"}}

\* ---- seeded sampling.  Every random parameter is bound by a singleton set, so it is drawn exactly once, and no
\* family is materialised just to draw from it.
ZSet(sh, Places) == IF "z" \in UNION {ShapeFn(sh)[n] : n \in DOMAIN ShapeFn(sh)} THEN Places ELSE {"m1"}
OffSet(k, sh) == IF k = "feature" /\ ~Cyclic(sh) /\ sh \notin {"dang", "dang1"} THEN {{}} \cup {{n} : n \in DOMAIN ShapeFn(sh)} ELSE {{}}
SampleDef(k, sh, Places) ==        \* one random member of DefFamily(k, sh, Places), as a singleton set
  {RandomElement(Variants(DefInst(k, sh, home, nest, zm, rh, used, off, sp)))
   : sp \in {RandomElement(Spellings)}, home \in {RandomElement(HomesOf(sh, Places))}, nest \in {RandomElement(NestsOf(k, sh))},
     zm \in {RandomElement(ZSet(sh, Places))}, rh \in {RandomElement({"m1", "m2"})},
     used \in {IF Cyclic(sh) THEN RandomElement(BOOLEAN) ELSE TRUE}, off \in {RandomElement(OffSet(k, sh))}}
SampleDefs(k, sh, Places, n) == UNION {SampleDef(k, sh, Places) : i \in 1..n}
SampleTwin(k) ==
  UNION {{TwinInst(k, sh1, sh2, hh, nest, x, sp) : x \in {RandomElement({""} \cup {h \in {hh[1], hh[2]} : ~Scoped(h)})}}
         : sp \in {RandomElement(Spellings)}, sh1 \in {RandomElement({"single", "chain"})},
           sh2 \in {RandomElement({"single", "chain", "self", "cyc2", "cyc3", "lasso", "dang1", "dang"})},
           hh \in {RandomElement(TwinScopes(k))}, nest \in {RandomElement(PosPairs(k))}}
SampleTwins(k, n) == UNION {SampleTwin(k) : i \in 1..n}
SampleAugDev == {RandomElement(Variants(AugDevInst(a2, a3, used, self, sp)))
                 : a2 \in {RandomElement(Acts)}, a3 \in {RandomElement(Acts)}, used \in {RandomElement(BOOLEAN)},
                   self \in {RandomElement(BOOLEAN)}, sp \in {RandomElement({"u", "o"})}}

\* ---- seeded combinations (code -> model): one instance of each of four families merged into one set of modules
\* (grouping graph or augment/deviation case, typedef graph, identity graph, feature graph).  Most instances of the
\* families are erroneous: three times out of four a component is redrawn until it is valid, so that a good share of
\* the combinations compiles.  Components keep all three modules.
Merge(A, B) == [A EXCEPT !.fam = "combo", !.shape = A.shape \o "&" \o B.shape, !.imp = A.imp \cup B.imp, !.defs = A.defs \cup B.defs,
                         !.roots = A.roots \cup B.roots, !.augs = A.augs \cup B.augs, !.devs = A.devs \cup B.devs, !.off = A.off \cup B.off]
Plain(k) == DefInst(k, "single", [n \in {"a"} |-> "m1"], <<[n \in {"a"} |-> "direct"], "leaf">>, "m1", "m1", TRUE, {}, "u")
RECURSIVE Draw(_, _, _, _)
Draw(k, Places, ok, fuel) ==
  LET X == IF k = "grouping" /\ RandomElement(1..3) = 1 THEN SampleAugDev ELSE SampleDef(k, RandomElement(ShapesOf(k)), Places) IN
  IF fuel = 0 THEN {Plain(k)}
  ELSE IF \E I \in X : I.mods = Mods /\ (ok => Verdict(I) = "ok") THEN X ELSE Draw(k, Places, ok, fuel - 1)
Combos(n, Places) ==
  UNION {{Merge(Merge(g, t), Merge(d, f)) : g \in Draw("grouping", Places, RandomElement(1..4) > 1, 40), t \in Draw("typedef", Places, RandomElement(1..4) > 1, 40),
                                            d \in Draw("identity", Places, RandomElement(1..4) > 1, 40), f \in Draw("feature", Places, RandomElement(1..4) > 1, 40)}
         : i \in 1..n}

\* ---- chunks: <<family, shape, size>>, size "s" = two modules only (quick), "l" = three
AllPlaces(sz) == IF sz = "s" THEN {"m1", "m2"} ELSE Mods
Chunk(c) ==
  CASE c[1] \in Kinds /\ c[2] = "twin" -> TwinFamily(c[1])
    [] c[1] \in Kinds /\ c[2] = "scoped" -> ScopedFamily(c[1], IF c[3] = "s" THEN SPathsN(1) ELSE SPathsSmall)
    [] c[1] \in Kinds -> DefFamily(c[1], c[2], AllPlaces(c[3]))
    [] c[1] = "kindmix" -> KindMixFamily
    [] c[1] = "homonym" -> HomonymFamily
    [] c[1] = "illformed" -> IllFamily(c[2])
    [] c[1] = "subimport" -> SubImportFamily
    [] c[1] = "import" -> ImportFamily(IF c[3] = "s" THEN {"m1", "m2"} ELSE Mods)
    [] c[1] = "include" -> IncludeFamily(IF c[3] = "s" THEN {"m1"} ELSE {"m1", "m2"}, IF c[3] = "s" THEN IncCandSmall ELSE IncCandFull)
    [] c[1] = "augdev" -> AugDevFamily
Chunks(sz) == {<<k, sh, sz>> : k \in Kinds, sh \in SingleRef} \cup {<<k, "twin", sz>> : k \in Kinds} \cup {<<k, sh, sz>> : k \in {"grouping", "feature"}, sh \in {"fan", "dag"}}
              \cup {<<k, "scoped", sz>> : k \in {"grouping", "typedef"}}
              \cup {<<"subimport", "-", sz>>, <<"import", "-", sz>>, <<"include", "-", sz>>, <<"augdev", "-", sz>>, <<"kindmix", "-", sz>>, <<"homonym", "-", sz>>}
              \cup {<<"illformed", site, sz>> : site \in IllSites}
=============================================================================
