INIT GInit
NEXT GNext
CONSTANT Alphabet = {97, 32, 10, 13, 34, 39, 92, 123, 125, 59, 43, 47, 42, 233, 1114367}
CONSTANT MaxLen = 3
CONSTANT Variants = {1, 2}
CONSTANT NRand = 200
CONSTANT RandLen = 40
CHECK_DEADLOCK FALSE
CONSTANT InFile = "texts.ndjson"
CONSTANT NCatTexts = 4
CONSTANT NCat = 50

CONSTANT AliasWide = FALSE
