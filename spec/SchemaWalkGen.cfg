INIT GInit
NEXT GNext
CONSTANT Shapes = {1, 2, 3, 4, 5, 6, 7, 8, 9, 100}
CONSTANT NRand = 20
CONSTANT RandDepth = 3
CHECK_DEADLOCK FALSE
