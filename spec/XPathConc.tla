------------------------------ MODULE XPathConc ------------------------------
(* Concurrency design of the XPath layer: several goroutines compile expressions
   (each function name is resolved by LookupXpathFunction under the global mutex
   mu, which also guards the lazy one-time plugin load) while others run already
   compiled machines, each on its own context.  A machine is immutable: runners of
   the same expression share one machine object.

   Compiler p resolves K[p] function names; per lookup the code passes three trace
   points (hooks): lookup-enter (before mu.Lock), lookup (under mu, first statement),
   lookup-exit (under mu, last statement).  The actions below are exactly the
   stretches of execution between two trace points, so a TLC behaviour is a
   schedule the harness can replay on real goroutines.

     CArrive  run to the lookup-enter point
     CTry     mu.Lock(): acquire (reach "lookup") or block behind the holder
     CBody    under mu: load the plugins if not yet loaded, read the table (reach "lookup-exit")
     CRelease unlock; a blocked compiler, if any, gets the lock at once; continue to
              the next lookup-enter point or finish
     RStep    a runner executes one instruction on its private state           *)
EXTENDS XPathExec, XPathSets, Json
CONSTANTS Comps, Runs          \* sets of process ids (integers), disjoint

CompPool(u_) == {F1A("not", Fn0A("true")), BinA("and", F1A("not", Fn0A("true")), F2A("concat", L("a"), L("b"))),
                 F1A("string-length", F2A("concat", F1A("string", N1), L("x"))), BinA("+", N1, N("2", Num(2))),
                 Path("rel", <<St("a")>>), Fn0A("false")}
RunPool(u_) == {Path("rel", <<St("a"), St("b")>>), BinA("=", Path("abs", <<St("a")>>), L("x")),
                Path("rel", <<StP("a", <<Pred("k", Path("cur", <<St("z")>>))>>), St("b")>>),
                BinA("+", Rel1("vnum"), N1), F1A("string", Rel1("vmulti")), Path("rel", <<St("b"), St("a")>>)}
NLookups(e) == Cardinality({i \in 1..Len(Compile(e)) : Compile(e)[i].i = "bltin"})

VARIABLES mu, loaded, nloads, cast, cpc, ck, rast, rst, sched
cvars == <<mu, loaded, nloads, cast, cpc, ck, rast, rst, sched>>

Init == /\ mu = 0 /\ loaded = FALSE /\ nloads = 0
        /\ cast \in [Comps -> CompPool(0)]
        /\ cpc = [p \in Comps |-> "idle"] /\ ck = [p \in Comps |-> 1]
        /\ rast \in [Runs -> RunPool(0)]
        /\ rst = [r \in Runs |-> InitState]
        /\ sched = << >>
Log(a, p) == sched' = Append(sched, [a |-> a, p |-> p])
Waiting == {p \in Comps : cpc[p] = "waiting"}

CArrive(p) == /\ cpc[p] = "idle"
              /\ cpc' = [cpc EXCEPT ![p] = IF ck[p] <= NLookups(cast[p]) THEN "atEnter" ELSE "done"]
              /\ Log("arrive", p) /\ UNCHANGED <<mu, loaded, nloads, cast, ck, rast, rst>>
CTry(p) == /\ cpc[p] = "atEnter"
           /\ IF mu = 0
              THEN mu' = p /\ cpc' = [cpc EXCEPT ![p] = "locked"] /\ Log("acquire", p)
              ELSE Waiting = {} /\ mu' = mu /\ cpc' = [cpc EXCEPT ![p] = "waiting"] /\ Log("block", p)
           /\ UNCHANGED <<loaded, nloads, cast, ck, rast, rst>>
CBody(p) == /\ cpc[p] = "locked" /\ mu = p
            /\ loaded' = TRUE /\ nloads' = IF loaded THEN nloads ELSE nloads + 1
            /\ cpc' = [cpc EXCEPT ![p] = "atExit"]
            /\ Log("body", p) /\ UNCHANGED <<mu, cast, ck, rast, rst>>
CRelease(p) == /\ cpc[p] = "atExit" /\ mu = p
               /\ LET next == IF ck[p] + 1 <= NLookups(cast[p]) THEN "atEnter" ELSE "done"
                  IN IF Waiting = {}
                     THEN mu' = 0 /\ cpc' = [cpc EXCEPT ![p] = next]
                     ELSE LET q == CHOOSE q \in Waiting : TRUE
                          IN mu' = q /\ cpc' = [cpc EXCEPT ![p] = next, ![q] = "locked"]
               /\ ck' = [ck EXCEPT ![p] = @ + 1]
               /\ Log("release", p) /\ UNCHANGED <<loaded, nloads, cast, rast, rst>>
RStep(r) == /\ ~Halted(Compile(rast[r]), rst[r])
            /\ rst' = [rst EXCEPT ![r] = Apply(Compile(rast[r]), rst[r], 0)]
            /\ Log("step", r) /\ UNCHANGED <<mu, loaded, nloads, cast, cpc, ck, rast>>
Next == (\E p \in Comps : CArrive(p) \/ CTry(p) \/ CBody(p) \/ CRelease(p)) \/ (\E r \in Runs : RStep(r))
Spec == Init /\ [][Next]_cvars

AllDone == (\A p \in Comps : cpc[p] = "done") /\ (\A r \in Runs : Halted(Compile(rast[r]), rst[r]))
ViewNoSched == <<mu, loaded, nloads, cast, cpc, ck, rast, rst>>   \* the history variable is not part of the state space
\* ---- design properties ----
InCritical(p) == cpc[p] \in {"locked", "atExit"}
MutualExclusion == \A p, q \in Comps : InCritical(p) /\ InCritical(q) => p = q
LockConsistent == \A p \in Comps : InCritical(p) <=> mu = p
LoadOnce == nloads <= 1 /\ (loaded <=> nloads = 1)
ReadAfterLoad == \A p \in Comps : cpc[p] = "atExit" => loaded
\* every run returns what it returns in isolation, whatever the interleaving
IsolatedResults == \A r \in Runs : Halted(Compile(rast[r]), rst[r]) =>
                      /\ rst[r].err = "none" /\ rst[r].res = Denote(rast[r]) /\ rst[r].calls = Designated(rast[r])
NoDeadlock == AllDone \/ ENABLED Next
\* the lock protocol proved for any number of compilers and lookups (LockProto.tla, TLAPS): this model refines it
LP == INSTANCE LockProto WITH pc <- cpc
RefinesLockProto == LP!Spec
\* used with -simulate: print every complete schedule as JSON
EmitSchedule == AllDone => PrintT("SCHEDJSON " \o ToJson([comps |-> [p \in Comps |-> Render(cast[p], "min", 0)],
                                                            runs |-> [r \in Runs |-> Render(rast[r], "min", 0)],
                                                            nlookups |-> [p \in Comps |-> NLookups(cast[p])],
                                                            steps |-> sched]))
=============================================================================
