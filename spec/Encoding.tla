------------------------------ MODULE Encoding ------------------------------
(* C19.  Abstract YANG data trees over a schema, abstract JSON / RFC 7951 / XML
   documents, and the mappings between them.

   Written from RFC 7951 (JSON encoding of YANG data), RFC 6020 sections 7.x
   "XML Mapping Rules" and 9.x (lexical representations of the built-in types),
   RFC 8259 (JSON grammar) and the XML well-formedness rules for elements.
   "Plain JSON" is RFC 7951 with (a) unqualified member names, (b) every integer
   type, also the 64-bit ones, as a JSON number, (c) `empty` as null (the older
   draft-ietf-netmod-yang-json mapping the package names in its comments).

   The module declares no variables: EncodingMC, EncodingGen and EncodingTrace
   all extend it.

   Data trees have the shape of datanode.DataNode:  [n, vals, kids]
     container   n = name, kids = children
     list        n = name, kids = entries; entry: n = key value, kids = leaves ...
     leaf        n = name, vals = <<v>>   (type empty: <<>> or <<"">>)
     leaf-list   n = name, vals = <<v1, ...>>
   Strings are opaque to the mappings; characters outside printable ASCII and the
   ones JSON/XML must escape travel as placeholders "{hex}" which only the harness
   expands.                                                                     *)
EXTENDS Naturals, Sequences, FiniteSets, TLC

\* ------------------------------------------------------------------ strings
Ch(s, i) == SubSeq(s, i, i)
Tail1(s) == SubSeq(s, 2, Len(s))
DIGITS == {"0", "1", "2", "3", "4", "5", "6", "7", "8", "9"}
DVal(c) == CASE c = "0" -> 0 [] c = "1" -> 1 [] c = "2" -> 2 [] c = "3" -> 3 [] c = "4" -> 4
             [] c = "5" -> 5 [] c = "6" -> 6 [] c = "7" -> 7 [] c = "8" -> 8 [] c = "9" -> 9
MinOf(S) == CHOOSE i \in S : \A j \in S : i <= j
IsDigits(s) == Len(s) > 0 /\ \A i \in 1..Len(s) : Ch(s, i) \in DIGITS
AllZero(s) == \A i \in 1..Len(s) : Ch(s, i) = "0"
RECURSIVE Strip0(_)
Strip0(s) == IF Len(s) > 1 /\ Ch(s, 1) = "0" THEN Strip0(Tail1(s)) ELSE s
\* a <= b for digit strings without leading zeros
LeMag(a, b) == \/ Len(a) < Len(b)
               \/ /\ Len(a) = Len(b)
                  /\ LET d == {i \in 1..Len(a) : Ch(a, i) # Ch(b, i)}
                     IN d = {} \/ DVal(Ch(a, MinOf(d))) < DVal(Ch(b, MinOf(d)))
IdxOf(s, c) == LET d == {i \in 1..Len(s) : Ch(s, i) = c} IN IF d = {} THEN 0 ELSE MinOf(d)
RECURSIVE Zeros(_)
Zeros(n) == IF n = 0 THEN "" ELSE "0" \o Zeros(n - 1)
SeqRange(s) == {s[i] : i \in 1..Len(s)}
RemoveAt(s, i) == SubSeq(s, 1, i - 1) \o SubSeq(s, i + 1, Len(s))
InsertAfter(s, i, x) == SubSeq(s, 1, i) \o <<x>> \o SubSeq(s, i + 1, Len(s))
\* TLC evaluates [i \in S |-> e][j] anew on every application; concatenation turns the function
\* into an explicit tuple once (matters for the nested recursive mappings below)
Mat(f) == f \o << >>

\* -------------------------------------------------------------------- types
\* RFC 6020 section 9: value spaces and lexical representations of the built-in types.
Ty(b) == [b |-> b, fd |-> 0, en |-> << >>, base |-> "", pat |-> "", mem |-> << >>]
TyDec(fd) == [b |-> "decimal64", fd |-> fd, en |-> << >>, base |-> "", pat |-> "", mem |-> << >>]
TyEnum(en) == [b |-> "enumeration", fd |-> 0, en |-> en, base |-> "", pat |-> "", mem |-> << >>]
TyIdref(base) == [b |-> "identityref", fd |-> 0, en |-> << >>, base |-> base, pat |-> "", mem |-> << >>]
\* string restricted by the pattern [0-9]+ (9.4.6: the whole value must match)
TyDigits == [b |-> "string", fd |-> 0, en |-> << >>, base |-> "", pat |-> "digits", mem |-> << >>]
\* 9.12: a value of a union is a value of one of its member types (members may be unions themselves)
TyUnion(mems) == [b |-> "union", fd |-> 0, en |-> << >>, base |-> "", pat |-> "", mem |-> mems]
NoTy == Ty("none")

SignedInts == {"int8", "int16", "int32", "int64"}
UnsignedInts == {"uint8", "uint16", "uint32", "uint64"}
IntTypes == SignedInts \cup UnsignedInts
Wide == {"int64", "uint64"}
NumericTypes == IntTypes \cup {"decimal64"}
\* magnitudes of the bounds (9.2)
HiOf(b) == CASE b = "int8" -> "127" [] b = "int16" -> "32767" [] b = "int32" -> "2147483647"
             [] b = "int64" -> "9223372036854775807" [] b = "uint8" -> "255" [] b = "uint16" -> "65535"
             [] b = "uint32" -> "4294967295" [] b = "uint64" -> "18446744073709551615"
LoOf(b) == CASE b = "int8" -> "128" [] b = "int16" -> "32768" [] b = "int32" -> "2147483648"
             [] b = "int64" -> "9223372036854775808" [] OTHER -> "0"

HasSign(s) == Len(s) > 0 /\ Ch(s, 1) \in {"-", "+"}
IsNeg(s) == Len(s) > 0 /\ Ch(s, 1) = "-"
Unsigned(s) == IF HasSign(s) THEN Tail1(s) ELSE s

\* 9.2.1: optional sign, decimal digits; the value must lie in the type's range
AcceptsInt(b, s) ==
  LET body == Unsigned(s) IN
  /\ IsDigits(body)
  /\ LET m == Strip0(body) IN IF IsNeg(s) THEN m = "0" \/ LeMag(m, LoOf(b)) ELSE LeMag(m, HiOf(b))

\* 9.3: optional sign, digits, optionally "." and digits; value = i x 10^-fd with i in int64.
\* More fraction digits than fd: "no" if a significant digit would be lost, otherwise not judged.
AcceptsDec(fd, s) ==
  LET body == Unsigned(s)
      p == IdxOf(body, ".")
      ip == IF p = 0 THEN body ELSE SubSeq(body, 1, p - 1)
      fp == IF p = 0 THEN "" ELSE SubSeq(body, p + 1, Len(body))
  IN IF ~IsDigits(ip) \/ (p # 0 /\ ~IsDigits(fp)) THEN "no"
     ELSE IF Len(fp) > fd
          THEN (IF AllZero(SubSeq(fp, fd + 1, Len(fp))) THEN "unj" ELSE "no")
          ELSE LET m == Strip0(ip \o fp \o Zeros(fd - Len(fp)))
               IN IF (IF IsNeg(s) THEN m = "0" \/ LeMag(m, LoOf("int64")) ELSE LeMag(m, HiOf("int64")))
                  THEN "yes" ELSE "no"

\* why a decimal64 lexeme is rejected: "lexical" or "range"
DecWhy(fd, s) ==
  LET body == Unsigned(s)
      p == IdxOf(body, ".")
      ip == IF p = 0 THEN body ELSE SubSeq(body, 1, p - 1)
      fp == IF p = 0 THEN "" ELSE SubSeq(body, p + 1, Len(body))
  IN IF ~IsDigits(ip) \/ (p # 0 /\ ~IsDigits(fp)) \/ Len(fp) > fd THEN "lexical" ELSE "range"

\* identities (9.10); one derivation level is all the generated modules use
Idents == { [mod |-> "a", name |-> "base-id", base |-> ""],
            [mod |-> "a", name |-> "loc-id", base |-> "a:base-id"],
            [mod |-> "b", name |-> "for-id", base |-> "a:base-id"] }
DerivedFrom(base) == {i \in Idents : i.base = base}
NsOf(mod) == "urn:" \o mod
\* the data tree names an identity of the leaf's own module by its bare name and any other
\* identity by "module:name" (the RFC 7951 6.8 form, which is what datanode trees carry)
IdVal(leafmod, id) == IF id.mod = leafmod THEN id.name ELSE id.mod \o ":" \o id.name
IdQual(id) == id.mod \o ":" \o id.name

\* the identities an identityref type, or an identityref member of a union (at any depth), can name
RECURSIVE IdsOf(_)
IdsOf(ty) == IF ty.b = "identityref" THEN DerivedFrom(ty.base)
             ELSE IF ty.b = "union" THEN UNION {IdsOf(ty.mem[i]) : i \in 1..Len(ty.mem)} ELSE {}
\* the type without its identityref members (an identityref itself: a union without members, which accepts nothing)
RECURSIVE NoIds(_)
NoIds(ty) == IF ty.b = "identityref" THEN TyUnion(<< >>)
             ELSE IF ty.b = "union" THEN TyUnion(Mat([i \in 1..Len(ty.mem) |-> NoIds(ty.mem[i])]))
             ELSE ty
RECURSIVE IsNumericTy(_)
IsNumericTy(ty) == ty.b \in NumericTypes \/ (ty.b = "union" /\ \E i \in 1..Len(ty.mem) : IsNumericTy(ty.mem[i]))

\* "yes" / "no" / "unj" (not judged)
RECURSIVE Accepts(_, _, _)
Accepts(ty, mod, s) ==
  LET yn(b_) == IF b_ THEN "yes" ELSE "no" IN
  CASE ty.b \in IntTypes -> yn(AcceptsInt(ty.b, s) /\ (ty.b \in SignedInts \/ ~IsNeg(s) \/ Strip0(Unsigned(s)) = "0"))
    [] ty.b = "decimal64" -> AcceptsDec(ty.fd, s)
    [] ty.b = "string" -> IF ty.pat = "digits" THEN yn(IsDigits(s)) ELSE "yes"
    [] ty.b = "boolean" -> yn(s \in {"true", "false"})
    [] ty.b = "empty" -> yn(s = "")
    [] ty.b = "enumeration" -> yn(\E i \in 1..Len(ty.en) : ty.en[i] = s)
    [] ty.b = "identityref" -> yn(\E id \in DerivedFrom(ty.base) : IdVal(mod, id) = s)
    [] ty.b = "union" -> LET rs == {Accepts(ty.mem[i], mod, s) : i \in 1..Len(ty.mem)} IN
                         IF "yes" \in rs THEN "yes" ELSE IF "unj" \in rs THEN "unj" ELSE "no"
    [] OTHER -> "unj"

\* canonical lexemes (9.2.2, 9.3.2): what an encoder writes for a value.  Other accepted lexemes
\* ("+5", "007", "-0", "2" for a decimal64) name a value no encoding of a tree contains, so what a
\* decoder does with them is judged by Conforms / NotAltered only.
RECURSIVE StripT0(_)
StripT0(s) == IF Len(s) > 0 /\ Ch(s, Len(s)) = "0" THEN StripT0(SubSeq(s, 1, Len(s) - 1)) ELSE s
RECURSIVE IsCanonLex(_, _)
IsCanonLex(ty, s) ==
  LET body == Unsigned(s)
      p == IdxOf(body, ".")
      ip == IF p = 0 THEN body ELSE SubSeq(body, 1, p - 1)
      fp == IF p = 0 THEN "" ELSE SubSeq(body, p + 1, Len(body))
      zero == AllZero(ip) /\ AllZero(fp)
  IN CASE ty.b \in IntTypes -> (~HasSign(s) \/ (IsNeg(s) /\ ~zero)) /\ Len(ip) > 0 /\ ip = Strip0(ip)
       [] ty.b = "decimal64" -> /\ (~HasSign(s) \/ (IsNeg(s) /\ ~zero)) /\ Len(ip) > 0 /\ ip = Strip0(ip)
                                /\ p # 0 /\ Len(fp) > 0 /\ (fp = "0" \/ fp = StripT0(fp))
       \* union: canonical for every member type that accepts the lexeme
       [] ty.b = "union" -> \A i \in 1..Len(ty.mem) : Accepts(ty.mem[i], "", s) = "no" \/ IsCanonLex(ty.mem[i], s)
       [] OTHER -> TRUE

\* ------------------------------------------------------------------- schema
\* dflt: default value of a leaf ("" = none); uniq: the leaf named by a list's unique statement ("" = none)
LeafD(n, mod, ty, dflt) == [k |-> "leaf", n |-> n, mod |-> mod, ty |-> ty, user |-> FALSE, pres |-> FALSE, key |-> "", kids |-> << >>, dflt |-> dflt, uniq |-> "", cs |-> ""]
Leaf(n, mod, ty) == LeafD(n, mod, ty, "")
LeafList(n, mod, ty, user) == [k |-> "ll", n |-> n, mod |-> mod, ty |-> ty, user |-> user, pres |-> FALSE, key |-> "", kids |-> << >>, dflt |-> "", uniq |-> "", cs |-> ""]
Cont(n, mod, pres, kids) == [k |-> "cont", n |-> n, mod |-> mod, ty |-> NoTy, user |-> FALSE, pres |-> pres, key |-> "", kids |-> kids, dflt |-> "", uniq |-> "", cs |-> ""]
ListU(n, mod, key, user, uniq, kids) == [k |-> "list", n |-> n, mod |-> mod, ty |-> NoTy, user |-> user, pres |-> FALSE, key |-> key, kids |-> kids, dflt |-> "", uniq |-> uniq, cs |-> ""]
List(n, mod, key, user, kids) == ListU(n, mod, key, user, "", kids)
\* the model set: top-level nodes of all modules; "no module" so that every top-level name is qualified
Root(kids) == [k |-> "root", n |-> "", mod |-> "", ty |-> NoTy, user |-> FALSE, pres |-> TRUE, key |-> "", kids |-> kids, dflt |-> "", uniq |-> "", cs |-> ""]
\* RFC 6020 7.9: a node written inside a case of a choice is, in the data tree, a child of the node that holds the choice;
\* cs = "<choice>:<case>" for such a node ("" otherwise).  At most one case of a choice has nodes in a valid tree.
InCase(sn, cs) == [sn EXCEPT !.cs = cs]
ChoiceOf(cs) == SubSeq(cs, 1, IdxOf(cs, ":") - 1)
CaseOf(cs) == SubSeq(cs, IdxOf(cs, ":") + 1, Len(cs))
OtherCase(a, b) == a # "" /\ b # "" /\ ChoiceOf(a) = ChoiceOf(b) /\ a # b
HasChild(sn, name) == \E i \in 1..Len(sn.kids) : sn.kids[i].n = name
Child(sn, name) == sn.kids[CHOOSE i \in 1..Len(sn.kids) : sn.kids[i].n = name]

\* the children (data nodes) of a node of psn belong to at most one case of every choice
CasesOK(psn, kids) ==
  LET names == {kids[i].n : i \in 1..Len(kids)}
      tags == {psn.kids[j].cs : j \in {k \in 1..Len(psn.kids) : psn.kids[k].cs # "" /\ psn.kids[k].n \in names}}
  IN \A a, b \in tags : ~OtherCase(a, b)

\* -------------------------------------------------------------------- trees
N(n, vals, kids) == [n |-> n, vals |-> vals, kids |-> kids]
NoTree == N("", << >>, << >>)
Distinct(s) == \A i, j \in 1..Len(s) : i # j => s[i] # s[j]
KidNames(t) == [i \in 1..Len(t.kids) |-> t.kids[i].n]
\* an `empty` leaf without a value and with the single value "" are the same node
NormVals(sn, vals) == IF sn.k = "leaf" /\ sn.ty.b = "empty" /\ vals = <<"">> THEN << >> ELSE vals

\* Conformance of a tree to a schema (structure, value spaces, RFC 6020 7.7/7.8 uniqueness).
\* "" = conforms; otherwise the first reason found.  A leaf-list or list node without entries
\* carries no data and is not judged.
\* RFC 6020 7.8.3: the values of the leaf named by `unique`, "including leafs with default values", are
\* distinct over the entries in which the leaf exists; i.e. the constraint is read on the default-decorated
\* tree (7.6.1: an omitted leaf with a default is in use with that value)
EffVal(sn, e, leaf) ==      \* sequence: <<value>> or << >>
  LET is == {j \in 1..Len(e.kids) : e.kids[j].n = leaf} IN
  IF is # {} THEN e.kids[MinOf(is)].vals
  ELSE IF HasChild(sn, leaf) /\ Child(sn, leaf).dflt # "" THEN <<Child(sn, leaf).dflt>> ELSE << >>
UniqueOK(sn, es) ==
  \/ sn.uniq = ""
  \/ \A i, j \in 1..Len(es) : i < j => \/ EffVal(sn, es[i], sn.uniq) = << >>
                                        \/ EffVal(sn, es[i], sn.uniq) # EffVal(sn, es[j], sn.uniq)
RECURSIVE ConfNode(_, _), ConfKids(_, _, _)
ConfVals(sn, vals) ==
  LET bad == {i \in 1..Len(vals) : Accepts(sn.ty, sn.mod, vals[i]) = "no"} IN
  IF bad = {} THEN ""
  ELSE "value:" \o sn.ty.b \o (IF sn.ty.b = "decimal64" THEN ":" \o DecWhy(sn.ty.fd, vals[MinOf(bad)]) ELSE "")
ConfKids(psn, kids, i) ==
  IF i > Len(kids) THEN ""
  ELSE IF ~HasChild(psn, kids[i].n) THEN "unknown-node"
  ELSE LET r == ConfNode(Child(psn, kids[i].n), kids[i]) IN IF r # "" THEN r ELSE ConfKids(psn, kids, i + 1)
ConfNode(sn, t) ==
  CASE sn.k = "leaf" ->
         IF t.kids # << >> THEN "leaf-with-children"
         ELSE IF sn.ty.b = "empty" THEN (IF NormVals(sn, t.vals) = << >> THEN "" ELSE "empty-leaf-value")
         ELSE IF Len(t.vals) # 1 THEN "leaf-value-count:" \o sn.ty.b
         ELSE ConfVals(sn, t.vals)
    [] sn.k = "ll" ->
         IF t.kids # << >> THEN "leaf-with-children"
         ELSE IF ~Distinct(t.vals) THEN "leaf-list-duplicate"
         ELSE ConfVals(sn, t.vals)
    [] sn.k \in {"cont", "root"} ->
         IF t.vals # << >> THEN "container-with-value"
         ELSE IF ~Distinct(KidNames(t)) THEN "duplicate-child"
         ELSE IF ~CasesOK(sn, t.kids) THEN "choice-cases"
         ELSE ConfKids(sn, t.kids, 1)
    [] sn.k = "list" ->
         IF t.vals # << >> THEN "list-with-value"
         ELSE IF ~Distinct(KidNames(t)) THEN "duplicate-key"
         ELSE IF ~UniqueOK(sn, t.kids) THEN "unique"
         ELSE LET bad == {i \in 1..Len(t.kids) :
                            LET e == t.kids[i] IN
                            \/ e.vals # << >> \/ ~Distinct(KidNames(e)) \/ ~CasesOK(sn, e.kids)
                            \/ ~\E j \in 1..Len(e.kids) : e.kids[j].n = sn.key /\ e.kids[j].vals = <<e.n>>
                            \/ ConfKids(sn, e.kids, 1) # ""}
              IN IF bad = {} THEN ""
                 ELSE LET e == t.kids[MinOf(bad)] IN
                      IF e.vals # << >> THEN "entry-with-value"
                      ELSE IF ~Distinct(KidNames(e)) THEN "duplicate-child"
                      ELSE IF ~CasesOK(sn, e.kids) THEN "choice-cases"
                      ELSE IF ConfKids(sn, e.kids, 1) # "" THEN ConfKids(sn, e.kids, 1)
                      ELSE "entry-key"
    [] OTHER -> "schema-kind"
Conforms(root, t) == ConfNode(root, t)

\* The same tree: order matters for user-ordered lists and leaf-lists only; the name of
\* the (synthetic) root is not compared.
\* ord = FALSE: user-ordered collections are compared as sets as well (used to say how two trees differ)
RECURSIVE SameNodeO(_, _, _, _), SameKidsO(_, _, _, _)
SameKidsO(psn, a, b, ord) ==
  /\ Len(a) = Len(b) /\ Distinct([i \in 1..Len(a) |-> a[i].n]) /\ Distinct([i \in 1..Len(b) |-> b[i].n])
  /\ \A i \in 1..Len(a) : \E j \in 1..Len(b) :
        a[i].n = b[j].n /\ HasChild(psn, a[i].n) /\ SameNodeO(Child(psn, a[i].n), a[i], b[j], ord)
SameEntryO(sn, a, b, ord) == a.n = b.n /\ a.vals = b.vals /\ SameKidsO(sn, a.kids, b.kids, ord)
SameNodeO(sn, a, b, ord) ==
  CASE sn.k = "leaf" -> NormVals(sn, a.vals) = NormVals(sn, b.vals) /\ a.kids = b.kids
    [] sn.k = "ll" -> /\ a.kids = b.kids
                      /\ IF sn.user /\ ord THEN a.vals = b.vals
                         ELSE Len(a.vals) = Len(b.vals) /\ SeqRange(a.vals) = SeqRange(b.vals)
    [] sn.k \in {"cont", "root"} -> a.vals = b.vals /\ SameKidsO(sn, a.kids, b.kids, ord)
    [] sn.k = "list" ->
         /\ a.vals = b.vals /\ Len(a.kids) = Len(b.kids)
         /\ IF sn.user /\ ord THEN \A i \in 1..Len(a.kids) : SameEntryO(sn, a.kids[i], b.kids[i], ord)
            ELSE /\ Distinct(KidNames(a)) /\ Distinct(KidNames(b))
                 /\ \A i \in 1..Len(a.kids) : \E j \in 1..Len(b.kids) : SameEntryO(sn, a.kids[i], b.kids[j], ord)
    [] OTHER -> FALSE
SameNode(sn, a, b) == SameNodeO(sn, a, b, TRUE)
SameKids(psn, a, b) == SameKidsO(psn, a, b, TRUE)
SameEntry(sn, a, b) == SameEntryO(sn, a, b, TRUE)
SameTree(root, a, b) == SameNode(root, a, b)
\* how two trees that are not the same differ: only in the order of the entries of user-ordered lists / leaf-lists, or in more
TreeDiff(root, a, b) == IF SameNodeO(root, a, b, FALSE) THEN "user-order-changed" ELSE "content"

\* ---------------------------------------------------------------- outcomes
\* What a decoder may do with a document:
\*   "tree"   it must return the tree t
\*   "either" it may reject the document or return t (the mapping is silent or a lenient
\*            reading exists: a value in another JSON type whose text the type accepts,
\*            an unknown member that is ignored, a qualified name where none is needed)
\*   "error"  it must reject
\*   "open"   not predicted; a returned tree is judged by Conforms and NotAltered only
Out(cls, t) == [cls |-> cls, t |-> t]
ErrOut == Out("error", NoTree)
OpenOut == Out("open", NoTree)
Comb(c1, c2) == IF "error" \in {c1, c2} THEN "error" ELSE IF "open" \in {c1, c2} THEN "open"
                ELSE IF "either" \in {c1, c2} THEN "either" ELSE "tree"
Lenient(o) == IF o.cls = "tree" THEN Out("either", o.t) ELSE o
RECURSIVE CombAll(_, _)
CombAll(outs, i) == IF i > Len(outs) THEN "tree" ELSE Comb(outs[i].cls, CombAll(outs, i + 1))

\* ============================================================ JSON documents
\* any: the JSON type of the scalar is not prescribed (RFC 7951 6.10: a union value is encoded as a value of
\* one of the member types; which one a writer picks for a lexeme is not judged)
JStr(s) == [t |-> "str", s |-> s, ss |-> {s}, any |-> FALSE]
JStrAlt(s, ss) == [t |-> "str", s |-> s, ss |-> ss, any |-> FALSE]      \* encoder may write any of ss
JUni(s, ss) == [t |-> "str", s |-> s, ss |-> ss, any |-> TRUE]
JNum(s) == [t |-> "num", s |-> s]
JTrue == [t |-> "true"]
JFalse == [t |-> "false"]
JNull == [t |-> "null"]
JArr(a, ord) == [t |-> "arr", a |-> a, ord |-> ord]       \* ord: element order is significant
JObj(m) == [t |-> "obj", m |-> m]                          \* m: sequence of [k, v]
Mem(k, v) == [k |-> k, v |-> v]
JScalar(v) == v.t \in {"str", "num", "true", "false", "null"}

\* ---- RFC 7951 section 4 (names), 5 (nodes), 6 (values)
JName(rfc, pmod, csn) == IF rfc /\ csn.mod # pmod THEN csn.mod \o ":" \o csn.n ELSE csn.n
EncJVal(rfc, csn, v) ==
  LET b == csn.ty.b
      \* 6.8: an identity of the leaf's own module may be written with or without the module name
      forms == IF \E id \in IdsOf(csn.ty) : id.mod = csn.mod /\ id.name = v THEN {v, csn.mod \o ":" \o v} ELSE {v}
  IN
  CASE b \in IntTypes -> IF rfc /\ b \in Wide THEN JStr(v) ELSE JNum(v)            \* 6.1
    [] b = "boolean" -> IF v = "true" THEN JTrue ELSE JFalse                      \* 6.3
    [] b = "empty" -> IF rfc THEN JArr(<<JNull>>, TRUE) ELSE JNull                \* 6.9
    [] b = "identityref" -> JStrAlt(v, forms)                                     \* 6.8
    [] b = "union" -> JUni(v, forms)                                              \* 6.10
    [] OTHER -> JStr(v)                                                           \* 6.1 (decimal64), 6.2, 6.4
RECURSIVE EncJNode(_, _, _), EncJKids(_, _, _, _)
EncJNode(rfc, csn, t) ==
  CASE csn.k = "leaf" -> EncJVal(rfc, csn, IF t.vals = << >> THEN "" ELSE t.vals[1])
    [] csn.k = "ll" -> JArr(Mat([i \in 1..Len(t.vals) |-> EncJVal(rfc, csn, t.vals[i])]), csn.user)
    [] csn.k = "cont" -> JObj(EncJKids(rfc, csn, csn.mod, t.kids))
    [] csn.k = "list" -> JArr(Mat([i \in 1..Len(t.kids) |-> JObj(EncJKids(rfc, csn, csn.mod, t.kids[i].kids))]), csn.user)
EncJKids(rfc, psn, pmod, kids) ==
  Mat([i \in 1..Len(kids) |-> LET csn == Child(psn, kids[i].n) IN Mem(JName(rfc, pmod, csn), EncJNode(rfc, csn, kids[i]))])
EncJ(rfc, root, t) == JObj(EncJKids(rfc, root, "", t.kids))

\* ---- tokens (RFC 8259 section 2-7); "raw" is anything that is no JSON token
Tk(c, s) == [c |-> c, s |-> s]
RECURSIVE JToks(_), JToksArr(_, _), JToksMem(_, _)
JToks(v) ==
  CASE v.t \in {"str", "num"} -> <<Tk(v.t, v.s)>>
    [] v.t \in {"true", "false", "null"} -> <<Tk(v.t, "")>>
    [] v.t = "arr" -> <<Tk("[", "")>> \o JToksArr(v.a, 1) \o <<Tk("]", "")>>
    [] v.t = "obj" -> <<Tk("{", "")>> \o JToksMem(v.m, 1) \o <<Tk("}", "")>>
JToksArr(a, i) == IF i > Len(a) THEN << >>
                  ELSE (IF i > 1 THEN <<Tk(",", "")>> ELSE << >>) \o JToks(a[i]) \o JToksArr(a, i + 1)
JToksMem(m, i) == IF i > Len(m) THEN << >>
                  ELSE (IF i > 1 THEN <<Tk(",", "")>> ELSE << >>) \o <<Tk("str", m[i].k), Tk(":", "")>> \o JToks(m[i].v) \o JToksMem(m, i + 1)

\* RFC 8259 section 6:  [ minus ] int [ frac ] [ exp ];  int = zero / ( digit1-9 *DIGIT )
FirstOf(s, cs) == LET d == {i \in 1..Len(s) : Ch(s, i) \in cs} IN IF d = {} THEN 0 ELSE MinOf(d)
JNumLex(s) ==
  LET b0 == IF IsNeg(s) THEN Tail1(s) ELSE s
      ei == FirstOf(b0, {"e", "E"})
      mant == IF ei = 0 THEN b0 ELSE SubSeq(b0, 1, ei - 1)
      ex == IF ei = 0 THEN "" ELSE SubSeq(b0, ei + 1, Len(b0))
      exd == IF Len(ex) > 0 /\ Ch(ex, 1) \in {"+", "-"} THEN Tail1(ex) ELSE ex
      p == IdxOf(mant, ".")
      ip == IF p = 0 THEN mant ELSE SubSeq(mant, 1, p - 1)
      fp == IF p = 0 THEN "" ELSE SubSeq(mant, p + 1, Len(mant))
  IN /\ IsDigits(ip) /\ (Len(ip) = 1 \/ Ch(ip, 1) # "0")
     /\ (p = 0 \/ IsDigits(fp))
     /\ (ei = 0 \/ IsDigits(exd))
\* ---- well-formedness recogniser / parser over token classes
PBad == [ok |-> FALSE, v |-> JNull, i |-> 0]
RECURSIVE PValue(_, _), PMembers(_, _, _), PElems(_, _, _)
PValue(ts, i) ==
  IF i > Len(ts) THEN PBad
  ELSE LET c == ts[i].c IN
       CASE c = "str" -> [ok |-> TRUE, v |-> JStr(ts[i].s), i |-> i + 1]
         [] c = "num" -> IF JNumLex(ts[i].s) THEN [ok |-> TRUE, v |-> JNum(ts[i].s), i |-> i + 1] ELSE PBad
         [] c = "true" -> [ok |-> TRUE, v |-> JTrue, i |-> i + 1]
         [] c = "false" -> [ok |-> TRUE, v |-> JFalse, i |-> i + 1]
         [] c = "null" -> [ok |-> TRUE, v |-> JNull, i |-> i + 1]
         [] c = "{" -> IF i + 1 <= Len(ts) /\ ts[i + 1].c = "}" THEN [ok |-> TRUE, v |-> JObj(<< >>), i |-> i + 2]
                       ELSE PMembers(ts, i + 1, << >>)
         [] c = "[" -> IF i + 1 <= Len(ts) /\ ts[i + 1].c = "]" THEN [ok |-> TRUE, v |-> JArr(<< >>, TRUE), i |-> i + 2]
                       ELSE PElems(ts, i + 1, << >>)
         [] OTHER -> PBad
PMembers(ts, i, acc) ==
  IF i + 1 > Len(ts) \/ ts[i].c # "str" \/ ts[i + 1].c # ":" THEN PBad
  ELSE LET r == PValue(ts, i + 2) IN
       IF ~r.ok \/ r.i > Len(ts) THEN PBad
       ELSE LET acc2 == Append(acc, Mem(ts[i].s, r.v)) IN
            IF ts[r.i].c = "}" THEN [ok |-> TRUE, v |-> JObj(acc2), i |-> r.i + 1]
            ELSE IF ts[r.i].c = "," THEN PMembers(ts, r.i + 1, acc2) ELSE PBad
PElems(ts, i, acc) ==
  LET r == PValue(ts, i) IN
  IF ~r.ok \/ r.i > Len(ts) THEN PBad
  ELSE LET acc2 == Append(acc, r.v) IN
       IF ts[r.i].c = "]" THEN [ok |-> TRUE, v |-> JArr(acc2, TRUE), i |-> r.i + 1]
       ELSE IF ts[r.i].c = "," THEN PElems(ts, r.i + 1, acc2) ELSE PBad
JParse(ts) == LET r == PValue(ts, 1) IN
              IF r.ok /\ r.i = Len(ts) + 1 THEN [ok |-> TRUE, v |-> r.v] ELSE [ok |-> FALSE, v |-> JNull]

\* ---- does a document (parsed from an encoder's output) match the predicted one?
RECURSIVE JMatch(_, _)
JMatch(p, r) ==
  CASE p.t = "obj" -> /\ r.t = "obj" /\ Len(p.m) = Len(r.m)
                      /\ Distinct([i \in 1..Len(r.m) |-> r.m[i].k])
                      /\ \A i \in 1..Len(p.m) : \E j \in 1..Len(r.m) : r.m[j].k = p.m[i].k /\ JMatch(p.m[i].v, r.m[j].v)
    [] p.t = "arr" -> /\ r.t = "arr" /\ Len(p.a) = Len(r.a)
                      /\ IF p.ord THEN \A i \in 1..Len(p.a) : JMatch(p.a[i], r.a[i])
                         ELSE /\ \A i \in 1..Len(p.a) : \E j \in 1..Len(r.a) : JMatch(p.a[i], r.a[j])
                              /\ \A j \in 1..Len(r.a) : \E i \in 1..Len(p.a) : JMatch(p.a[i], r.a[j])
    [] p.t = "str" -> IF p.any THEN r.t \in {"str", "num", "true", "false"} /\ (IF r.t \in {"str", "num"} THEN r.s ELSE r.t) \in p.ss
                      ELSE r.t = "str" /\ r.s \in p.ss
    [] p.t = "num" -> r.t = "num" /\ r.s = p.s
    [] OTHER -> r.t = p.t

\* ---- JSON number literals: "int" (-?digits), "frac" (a fraction with a non-zero digit, no
\* exponent), "other" (exponent, or a fraction of zeros: the same number as an integer in
\* RFC 8259 terms, so whether it denotes a YANG integer is not judged)
NumClass(s) ==
  LET body == IF IsNeg(s) THEN Tail1(s) ELSE s
      p == IdxOf(body, ".")
  IN IF IsDigits(body) THEN "int"
     ELSE IF p > 1 /\ IsDigits(SubSeq(body, 1, p - 1)) /\ IsDigits(SubSeq(body, p + 1, Len(body)))
               /\ ~AllZero(SubSeq(body, p + 1, Len(body))) THEN "frac"
     ELSE "other"

\* ---- decoding (RFC 7951 read right to left)
LitOf(jv) == IF jv.t \in {"str", "num"} THEN jv.s ELSE jv.t
\* is this JSON type the one the mapping prescribes for the YANG type?
Native(rfc, b, jt) ==
  CASE b \in IntTypes -> IF rfc /\ b \in Wide THEN jt = "str" ELSE jt = "num"
    [] b = "boolean" -> jt \in {"true", "false"}
    [] b = "union" -> TRUE                                   \* 6.10: the JSON type of any member
    [] OTHER -> jt = "str"
\* RFC 7951 6.8: both forms name an identity of the leaf's own module; the tree carries the bare one
\* (only an identityref, or an identityref member of a union, reads a "module:" prefix; for every other type the
\* text is the value as it stands)
NormId(csn, s) ==
  IF \E id \in IdsOf(csn.ty) : id.mod = csn.mod /\ IdQual(id) = s
  THEN (CHOOSE id \in IdsOf(csn.ty) : id.mod = csn.mod /\ IdQual(id) = s).name ELSE s
\* one scalar for a leaf / leaf-list entry:  [cls, v]
DecJScalar(rfc, csn, jv) ==
  LET b == csn.ty.b IN
  IF b = "empty" THEN
       (IF rfc THEN (IF jv.t = "arr" /\ Len(jv.a) = 1 /\ jv.a[1].t = "null" THEN [cls |-> "tree", v |-> ""]
                     ELSE IF jv.t = "null" THEN [cls |-> "either", v |-> ""]
                     ELSE IF jv = JStr("") \/ jv.t = "arr" THEN [cls |-> "open", v |-> ""]
                     ELSE [cls |-> "error", v |-> ""])
        ELSE (IF jv.t = "null" THEN [cls |-> "tree", v |-> ""]
              ELSE IF jv.t = "arr" /\ Len(jv.a) = 1 /\ jv.a[1].t = "null" THEN [cls |-> "either", v |-> ""]
              ELSE IF jv = JStr("") \/ jv.t = "arr" THEN [cls |-> "open", v |-> ""]
              ELSE [cls |-> "error", v |-> ""]))
  ELSE IF jv.t = "arr" THEN [cls |-> "open", v |-> ""]
  ELSE IF jv.t \in {"obj", "null"} THEN [cls |-> "error", v |-> ""]
  ELSE LET v == NormId(csn, LitOf(jv))
           acc == Accepts(csn.ty, csn.mod, v)
       IN IF acc = "no" THEN [cls |-> "error", v |-> ""]
          ELSE IF acc = "unj" \/ ~IsCanonLex(csn.ty, v) THEN [cls |-> "open", v |-> ""]
          \* the qualified name of an identity of the leaf's own module (6.8) is an alternative spelling no
          \* encoding here contains: accepted (as the bare name) or rejected
          ELSE IF Native(rfc, b, jv.t) /\ v = LitOf(jv) THEN [cls |-> "tree", v |-> v]
          ELSE [cls |-> "either", v |-> v]

\* resolve a member name against the children of psn:  [st, n]
\*   st: "native" (the form the mapping prescribes), "lenient", "unknown", "foreign-prefix"
ResolveJ(rfc, psn, pmod, k) ==
  LET plain == {i \in 1..Len(psn.kids) : psn.kids[i].n = k}
      qual == {i \in 1..Len(psn.kids) : psn.kids[i].mod \o ":" \o psn.kids[i].n = k}
  IN IF plain # {} THEN LET c == psn.kids[MinOf(plain)] IN
                        [st |-> IF ~rfc \/ c.mod = pmod THEN "native" ELSE "lenient", n |-> c.n]
     ELSE IF qual # {} THEN LET c == psn.kids[MinOf(qual)] IN
                            [st |-> IF rfc /\ c.mod # pmod THEN "native" ELSE "lenient", n |-> c.n]
     ELSE IF IdxOf(k, ":") > 0 THEN [st |-> "foreign-prefix", n |-> ""]
     ELSE [st |-> "unknown", n |-> ""]

RECURSIVE DecJNode(_, _, _), DecJMembers(_, _, _, _, _, _)
DecJVals(rfc, csn, a) ==
  LET rs == Mat([i \in 1..Len(a) |-> DecJScalar(rfc, csn, a[i])]) IN
  Out(CombAll(rs, 1), N(csn.n, Mat([i \in 1..Len(a) |-> rs[i].v]), << >>))
\* child names that several members of the object resolve to (RFC 8259 section 4: the behaviour of
\* a reader is then unpredictable; which of them it uses is not judged)
DupNames(rfc, psn, pmod, m) ==
  LET ns == Mat([i \in 1..Len(m) |-> ResolveJ(rfc, psn, pmod, m[i].k).n]) IN
  {ns[i] : i \in {j \in 1..Len(m) : ns[j] # "" /\ \E k \in 1..Len(m) : k # j /\ ns[k] = ns[j]}}
DecJObj(rfc, psn, pmod, m) == DecJMembers(rfc, psn, pmod, m, 1, DupNames(rfc, psn, pmod, m))
DecJNode(rfc, csn, jv) ==
  CASE csn.k = "leaf" -> LET r == DecJScalar(rfc, csn, jv) IN Out(r.cls, N(csn.n, <<r.v>>, << >>))
    [] csn.k = "ll" ->
         IF jv.t # "arr" \/ Len(jv.a) = 0 THEN OpenOut
         ELSE LET o == DecJVals(rfc, csn, jv.a) IN
              IF o.cls \in {"tree", "either"} /\ ~Distinct(o.t.vals) THEN OpenOut ELSE o
    [] csn.k = "cont" ->
         IF jv.t # "obj" THEN OpenOut
         ELSE LET r == DecJObj(rfc, csn, csn.mod, jv.m) IN
              \* an empty non-presence container carries no data: kept or pruned, not judged
              IF ~csn.pres /\ r.kids = << >> /\ r.cls \in {"tree", "either"} THEN OpenOut
              ELSE IF ~CasesOK(csn, r.kids) THEN OpenOut
              ELSE Out(r.cls, N(csn.n, << >>, r.kids))
    [] csn.k = "list" ->
         IF jv.t # "arr" \/ Len(jv.a) = 0 \/ \E i \in 1..Len(jv.a) : jv.a[i].t # "obj" THEN OpenOut
         ELSE LET es == Mat([i \in 1..Len(jv.a) |->
                           LET r == DecJObj(rfc, csn, csn.mod, jv.a[i].m)
                               ks == {j \in 1..Len(r.kids) : r.kids[j].n = csn.key}
                           IN IF r.cls = "error" THEN ErrOut
                              ELSE IF r.cls = "open" THEN OpenOut
                              ELSE IF ks = {} THEN ErrOut                    \* RFC 7951 5.4 / RFC 6020 7.8.2: key required
                              ELSE IF ~CasesOK(csn, r.kids) THEN OpenOut
                              ELSE Out(r.cls, N(r.kids[MinOf(ks)].vals[1], << >>, r.kids))])
                  cls == CombAll(es, 1)
              IN IF cls \in {"tree", "either"} /\ ~Distinct([i \in 1..Len(es) |-> es[i].t.n]) THEN OpenOut
                 \* a validating decoder judges the default-decorated tree
                 ELSE IF cls \in {"tree", "either"} /\ ~UniqueOK(csn, Mat([i \in 1..Len(es) |-> es[i].t])) THEN ErrOut
                 ELSE Out(cls, N(csn.n, << >>, Mat([i \in 1..Len(es) |-> es[i].t])))
\* members of an object -> [cls, kids]
DecJMembers(rfc, psn, pmod, m, i, dups) ==
  IF i > Len(m) THEN [cls |-> "tree", kids |-> << >>]
  ELSE LET rest == DecJMembers(rfc, psn, pmod, m, i + 1, dups)
           rn == ResolveJ(rfc, psn, pmod, m[i].k)
       IN IF rn.st = "foreign-prefix" \/ rn.n \in dups THEN [cls |-> Comb("open", rest.cls), kids |-> rest.kids]
          ELSE IF rn.st = "unknown" THEN [cls |-> Comb("either", rest.cls), kids |-> rest.kids]   \* rejected or ignored
          ELSE LET o == DecJNode(rfc, Child(psn, rn.n), m[i].v)
                   c0 == IF rn.st = "lenient" THEN Lenient(o).cls ELSE o.cls
               IN [cls |-> Comb(c0, rest.cls),
                   kids |-> IF o.cls \in {"tree", "either"} THEN <<o.t>> \o rest.kids ELSE rest.kids]
DecJ(rfc, root, doc) ==
  IF doc.t # "obj" THEN OpenOut
  ELSE LET r == DecJObj(rfc, root, "", doc.m) IN Out(r.cls, N("root", << >>, r.kids))

\* ---- where a document has a value of the wrong shape (only used to describe a failure): "" or
\* "<kind of schema node>:<kind of JSON value>" for the first value that is not of the JSON type RFC 7951 section 5
\* prescribes for its node (object for a container and a list entry, array for a list and a leaf-list, scalar
\* for a leaf and a leaf-list entry, [null] / null for an empty leaf); "choice-member-" is put in front of a node
\* that is written in a case of a choice
JKind(jv) == IF jv.t \in {"true", "false"} THEN "bool" ELSE jv.t
SnKind(csn) == (IF csn.cs # "" THEN "choice-member-" ELSE "")
               \o (CASE csn.k = "leaf" -> IF csn.ty.b = "empty" THEN "empty-leaf" ELSE "leaf"
                     [] csn.k = "ll" -> "leaf-list" [] csn.k = "cont" -> "container" [] csn.k = "list" -> "list" [] OTHER -> "root")
RECURSIVE JShapeNode(_, _, _), JShapeMembers(_, _, _, _, _)
JShapeMembers(rfc, psn, pmod, m, i) ==
  IF i > Len(m) THEN ""
  ELSE LET rn == ResolveJ(rfc, psn, pmod, m[i].k)
           r == IF rn.n = "" THEN "" ELSE JShapeNode(rfc, Child(psn, rn.n), m[i].v)
       IN IF r # "" THEN r ELSE JShapeMembers(rfc, psn, pmod, m, i + 1)
JShapeNode(rfc, csn, jv) ==
  CASE csn.k = "leaf" ->
         IF csn.ty.b = "empty"
         THEN (IF jv.t = "null" \/ (jv.t = "arr" /\ Len(jv.a) = 1 /\ jv.a[1].t = "null") THEN "" ELSE SnKind(csn) \o ":" \o JKind(jv))
         ELSE IF jv.t \in {"str", "num", "true", "false"} THEN "" ELSE SnKind(csn) \o ":" \o JKind(jv)
    [] csn.k = "ll" ->
         IF jv.t # "arr" THEN SnKind(csn) \o ":" \o JKind(jv)
         ELSE LET bad == {i \in 1..Len(jv.a) : jv.a[i].t \notin {"str", "num", "true", "false"}} IN
              IF bad = {} THEN "" ELSE SnKind(csn) \o "-entry:" \o JKind(jv.a[MinOf(bad)])
    [] csn.k = "cont" -> IF jv.t # "obj" THEN SnKind(csn) \o ":" \o JKind(jv) ELSE JShapeMembers(rfc, csn, csn.mod, jv.m, 1)
    [] csn.k = "list" ->
         IF jv.t # "arr" THEN SnKind(csn) \o ":" \o JKind(jv)
         ELSE LET bad == {i \in 1..Len(jv.a) : jv.a[i].t # "obj" \/ JShapeMembers(rfc, csn, csn.mod, jv.a[i].m, 1) # ""} IN
              IF bad = {} THEN ""
              ELSE LET x == jv.a[MinOf(bad)] IN
                   IF x.t # "obj" THEN SnKind(csn) \o "-entry:" \o JKind(x) ELSE JShapeMembers(rfc, csn, csn.mod, x.m, 1)
    [] OTHER -> ""
JShape(rfc, root, doc) == IF doc.t # "obj" THEN "root:" \o JKind(doc) ELSE JShapeMembers(rfc, root, "", doc.m, 1)

\* literals of a JSON input: every scalar token that is not a member name
JLits(ts) == { [s |-> (IF ts[i].c \in {"str", "num"} THEN ts[i].s ELSE ts[i].c), ns |-> "", rest |-> "", c |-> ts[i].c]
               : i \in {j \in 1..Len(ts) : ts[j].c \in {"str", "num", "true", "false"}
                                              /\ ~(j < Len(ts) /\ ts[j + 1].c = ":")} }

\* ============================================================= XML documents
\* element: [n, ns, text, q, kids, user];  q = the text read as a QName: [ns, rest] (ns = "" if the
\* text has no prefix or the prefix is not declared in scope)
\* own: the prefix is declared on the element itself; decl: further xmlns:p declarations to write on the element
XEl(n, ns, text, q, kids, user) == [n |-> n, ns |-> ns, text |-> text, q |-> q, kids |-> kids, user |-> user, decl |-> << >>]
NoQ == [ns |-> "", rest |-> "", own |-> FALSE]
\* tokens: start tag (name, namespace it is in, xmlns:p declarations), end tag, character data, raw
XStart(n, ns, decl) == [c |-> "start", n |-> n, ns |-> ns, decl |-> decl, s |-> ""]
XEnd(n) == [c |-> "end", n |-> n, ns |-> "", decl |-> << >>, s |-> ""]
XText(s) == [c |-> "text", n |-> "", ns |-> "", decl |-> << >>, s |-> s]
XRaw(s) == [c |-> "raw", n |-> "", ns |-> "", decl |-> << >>, s |-> s]

\* ---- RFC 6020 7.5.7, 7.6.6, 7.7.7, 7.8.5 (XML mapping rules), 9.10.3 (identityref is a QName)
EncXLeaf(csn, v) ==
  LET ids == {id \in IdsOf(csn.ty) : IdVal(csn.mod, id) = v} IN
  IF ids # {}
  THEN LET id == CHOOSE x \in ids : TRUE IN XEl(csn.n, NsOf(csn.mod), v, [ns |-> NsOf(id.mod), rest |-> id.name, own |-> TRUE], << >>, csn.user)
  ELSE XEl(csn.n, NsOf(csn.mod), v, NoQ, << >>, csn.user)
RECURSIVE EncXKids(_, _, _), EncXNode(_, _)
EncXNode(csn, t) ==      \* sequence of elements for one data node
  CASE csn.k = "leaf" -> <<EncXLeaf(csn, IF t.vals = << >> THEN "" ELSE t.vals[1])>>
    [] csn.k = "ll" -> Mat([i \in 1..Len(t.vals) |-> EncXLeaf(csn, t.vals[i])])
    [] csn.k = "cont" -> <<XEl(csn.n, NsOf(csn.mod), "", NoQ, EncXKids(csn, t.kids, 1), FALSE)>>
    [] csn.k = "list" -> Mat([i \in 1..Len(t.kids) |-> XEl(csn.n, NsOf(csn.mod), "", NoQ, EncXKids(csn, t.kids[i].kids, 1), csn.user)])
EncXKids(psn, kids, i) == IF i > Len(kids) THEN << >> ELSE EncXNode(Child(psn, kids[i].n), kids[i]) \o EncXKids(psn, kids, i + 1)
EncX(root, t) == XEl("root", "", "", NoQ, EncXKids(root, t.kids, 1), FALSE)

\* element tree -> tokens (a prefix is declared on the element that uses it)
PrefixOf(s) == LET p == IdxOf(s, ":") IN IF p > 1 THEN SubSeq(s, 1, p - 1) ELSE ""
RECURSIVE XToks(_), XToksSeq(_, _)
XToks(e) ==
  <<XStart(e.n, e.ns, e.decl \o (IF e.q.ns # "" /\ PrefixOf(e.text) # "" THEN <<[p |-> PrefixOf(e.text), uri |-> e.q.ns]>> ELSE << >>))>>
  \o (IF e.text # "" THEN <<XText(e.text)>> ELSE << >>) \o XToksSeq(e.kids, 1) \o <<XEnd(e.n)>>
XToksSeq(es, i) == IF i > Len(es) THEN << >> ELSE XToks(es[i]) \o XToksSeq(es, i + 1)

\* ---- well-formedness recogniser / parser over tokens
XBadR == [ok |-> FALSE, e |-> XEl("", "", "", NoQ, << >>, FALSE), i |-> 0]
\* XML namespaces: the innermost declaration of the prefix is the one in scope (nown = how many of
\* the declarations at the front of scope are the element's own)
ResolveQ(text, scope, nown) ==
  LET p == PrefixOf(text)
      ds == {i \in 1..Len(scope) : scope[i].p = p}
  IN IF p = "" \/ ds = {} THEN NoQ
     ELSE [ns |-> scope[MinOf(ds)].uri, rest |-> SubSeq(text, Len(p) + 2, Len(text)), own |-> MinOf(ds) <= nown]
RECURSIVE XElemAt(_, _, _), XContent(_, _, _, _, _, _)
XElemAt(ts, i, scope) ==
  IF i > Len(ts) \/ ts[i].c # "start" THEN XBadR ELSE XContent(ts, i + 1, ts[i], ts[i].decl \o scope, "", << >>)
XContent(ts, i, st, sc, text, kids) ==
  IF i > Len(ts) THEN XBadR
  ELSE CASE ts[i].c = "text" -> XContent(ts, i + 1, st, sc, text \o ts[i].s, kids)
         [] ts[i].c = "start" -> LET r == XElemAt(ts, i, sc) IN
                                 IF ~r.ok THEN XBadR ELSE XContent(ts, r.i, st, sc, text, Append(kids, r.e))
         [] ts[i].c = "end" -> IF ts[i].n = st.n
                               THEN [ok |-> TRUE, e |-> XEl(st.n, st.ns, text, ResolveQ(text, sc, Len(st.decl)), kids, TRUE), i |-> i + 1]
                               ELSE XBadR
         [] OTHER -> XBadR
\* ok: one well-formed root element; trailing: tokens follow it or character data precedes it
\* (whether a decoder must look at them is not judged)
RECURSIVE SkipText(_, _)
SkipText(ts, i) == IF i <= Len(ts) /\ ts[i].c = "text" THEN SkipText(ts, i + 1) ELSE i
XParse(ts) == LET i0 == SkipText(ts, 1)
                  r == XElemAt(ts, i0, << >>) IN
              [ok |-> r.ok, e |-> r.e, trailing |-> r.ok /\ (r.i # Len(ts) + 1 \/ i0 # 1)]

\* ---- match of the parsed output of an encoder with the prediction: children are unordered,
\* except that same-named siblings of a user-ordered list / leaf-list keep their order
SubSeqByName(es, nm) == SelectSeq(es, LAMBDA e : e.n = nm)
RECURSIVE XMatch(_, _)
XTextMatch(p, r) ==
  IF p.q.ns = "" THEN r.text = p.text
  ELSE \/ r.q.ns = p.q.ns /\ r.q.rest = p.q.rest                       \* any declared prefix
       \/ p.q.ns = p.ns /\ r.text = p.q.rest /\ r.ns = p.ns            \* no prefix: the element's default namespace
XMatch(p, r) ==
  /\ p.n = r.n /\ p.ns = r.ns /\ XTextMatch(p, r) /\ Len(p.kids) = Len(r.kids)
  /\ \A nm \in {p.kids[i].n : i \in 1..Len(p.kids)} \cup {r.kids[i].n : i \in 1..Len(r.kids)} :
        LET ps == SubSeqByName(p.kids, nm)  rs == SubSeqByName(r.kids, nm) IN
        /\ Len(ps) = Len(rs)
        /\ IF ps[1].user THEN \A i \in 1..Len(ps) : XMatch(ps[i], rs[i])
           ELSE /\ \A i \in 1..Len(ps) : \E j \in 1..Len(rs) : XMatch(ps[i], rs[j])
                /\ \A j \in 1..Len(rs) : \E i \in 1..Len(ps) : XMatch(ps[i], rs[j])

\* ---- decoding
\* distinct element names in order of first occurrence
RECURSIVE FirstNames(_, _, _)
FirstNames(es, i, acc) == IF i > Len(es) THEN acc
                          ELSE FirstNames(es, i + 1, IF es[i].n \in SeqRange(acc) THEN acc ELSE Append(acc, es[i].n))
DecXScalar(csn, e) ==      \* [cls, v]
  IF e.kids # << >> THEN [cls |-> "open", v |-> ""]
  ELSE IF csn.ty.b = "empty" THEN [cls |-> IF e.text = "" THEN "tree" ELSE "error", v |-> ""]
  ELSE LET ids == IdsOf(csn.ty)
           byq == {id \in ids : e.q.ns = NsOf(id.mod) /\ e.q.rest = id.name}
           bare == {id \in ids : id.mod = csn.mod /\ id.name = e.text}
           \* the text read by the other member types (all of the type when it has no identityref member):
           \* no prefix is ever dropped
           acc == Accepts(NoIds(csn.ty), csn.mod, e.text)
           plain == [cls |-> IF acc = "no" THEN "error" ELSE IF acc = "yes" /\ IsCanonLex(csn.ty, e.text) THEN "tree" ELSE "open", v |-> e.text]
       \* a prefix declared on the element itself is what RFC 6020 9.10.3 examples and this library's encoder
       \* write; one inherited from an ancestor is as valid XML, but no encoding of a tree here contains it,
       \* so a decoder that rejects it does not break the round trip
       IN IF ids = {} THEN plain
          ELSE IF byq # {} THEN [cls |-> IF e.q.own THEN "tree" ELSE "either", v |-> IdVal(csn.mod, CHOOSE id \in byq : TRUE)]
          ELSE IF bare # {} /\ e.ns = NsOf(csn.mod) THEN [cls |-> "tree", v |-> e.text]
          \* a prefix that is undeclared or bound to another namespace, a bare name outside the leaf's namespace:
          \* whether the text may still be read as the "module:name" form of RFC 7951 is not judged
          ELSE IF PrefixOf(e.text) # "" /\ \E id \in ids : e.text \in {IdVal(csn.mod, id), IdQual(id)} THEN [cls |-> "open", v |-> ""]
          ELSE IF bare # {} THEN [cls |-> "open", v |-> ""]
          ELSE plain
RECURSIVE DecXKids(_, _), DecXGroup(_, _)
DecXGroup(csn, g) ==       \* all same-named sibling elements of one data node -> Out
  IF \E i \in 1..Len(g) : g[i].ns # NsOf(csn.mod) THEN OpenOut
  ELSE CASE csn.k = "leaf" ->
              IF Len(g) # 1 THEN OpenOut
              ELSE LET r == DecXScalar(csn, g[1]) IN Out(r.cls, N(csn.n, <<r.v>>, << >>))
         [] csn.k = "ll" ->
              LET rs == Mat([i \in 1..Len(g) |-> DecXScalar(csn, g[i])])
                  vals == Mat([i \in 1..Len(g) |-> rs[i].v])
                  cls == CombAll(rs, 1)
              IN IF cls \in {"tree", "either"} /\ ~Distinct(vals) THEN OpenOut ELSE Out(cls, N(csn.n, vals, << >>))
         [] csn.k = "cont" ->
              IF Len(g) # 1 \/ g[1].text # "" THEN OpenOut
              ELSE LET r == DecXKids(csn, g[1].kids) IN
                   IF ~csn.pres /\ r.kids = << >> /\ r.cls \in {"tree", "either"} THEN OpenOut
                   ELSE IF ~CasesOK(csn, r.kids) THEN OpenOut
                   ELSE Out(r.cls, N(csn.n, << >>, r.kids))
         [] csn.k = "list" ->
              IF \E i \in 1..Len(g) : g[i].text # "" THEN OpenOut
              ELSE LET es == Mat([i \in 1..Len(g) |->
                                LET r == DecXKids(csn, g[i].kids)
                                    ks == {j \in 1..Len(r.kids) : r.kids[j].n = csn.key}
                                IN IF r.cls = "error" THEN ErrOut
                                   ELSE IF r.cls = "open" THEN OpenOut
                                   ELSE IF ks = {} THEN ErrOut
                                   ELSE IF ~CasesOK(csn, r.kids) THEN OpenOut
                                   ELSE Out(r.cls, N(r.kids[MinOf(ks)].vals[1], << >>, r.kids))])
                       cls == CombAll(es, 1)
                   IN IF cls \in {"tree", "either"} /\ ~Distinct([i \in 1..Len(es) |-> es[i].t.n]) THEN OpenOut
                      ELSE IF cls \in {"tree", "either"} /\ ~UniqueOK(csn, Mat([i \in 1..Len(es) |-> es[i].t])) THEN ErrOut
                      ELSE Out(cls, N(csn.n, << >>, Mat([i \in 1..Len(es) |-> es[i].t])))
DecXKids(psn, els) ==
  LET names == FirstNames(els, 1, << >>)
      outs == Mat([i \in 1..Len(names) |->
                 IF ~HasChild(psn, names[i]) THEN Out("unknown", NoTree)
                 ELSE DecXGroup(Child(psn, names[i]), SubSeqByName(els, names[i]))])
      known == SelectSeq(outs, LAMBDA o : o.cls # "unknown")
      cls0 == CombAll(known, 1)
      cls == IF Len(known) # Len(outs) THEN Comb("either", cls0) ELSE cls0        \* unknown element: rejected or ignored
      good == SelectSeq(known, LAMBDA o : o.cls \in {"tree", "either"})
  IN [cls |-> cls, kids |-> Mat([i \in 1..Len(good) |-> good[i].t])]
DecX(root, e) ==
  IF e.text # "" THEN OpenOut
  ELSE LET r == DecXKids(root, e.kids) IN Out(r.cls, N("root", << >>, r.kids))

\* ---- where an XML document has content of the wrong shape (only used to describe a failure): character data
\* in an element that holds elements (container, list entry, the root), elements in one that holds text (leaf,
\* leaf-list entry), both (mixed)
XContentKind(e) == IF e.kids # << >> /\ e.text # "" THEN "mixed" ELSE IF e.kids # << >> THEN "elements" ELSE IF e.text # "" THEN "text" ELSE "nothing"
RECURSIVE XShapeKids(_, _, _)
XShapeKids(psn, els, i) ==
  IF i > Len(els) THEN ""
  ELSE LET e == els[i]
           r == IF ~HasChild(psn, e.n) THEN ""
                ELSE LET csn == Child(psn, e.n) IN
                     IF csn.k \in {"leaf", "ll"}
                     THEN (IF e.kids # << >> THEN SnKind(csn) \o (IF csn.k = "ll" THEN "-entry:" ELSE ":") \o XContentKind(e) ELSE "")
                     ELSE IF e.text # "" THEN SnKind(csn) \o (IF csn.k = "list" THEN "-entry:" ELSE ":") \o XContentKind(e)
                     ELSE XShapeKids(csn, e.kids, 1)
       IN IF r # "" THEN r ELSE XShapeKids(psn, els, i + 1)
XShape(root, e) == IF e.text # "" THEN "root:" \o XContentKind(e) ELSE XShapeKids(root, e.kids, 1)

\* literals of an XML input: the character data of every element, with its QName reading
RECURSIVE XLitsOf(_)
XLitsOf(e) == {[s |-> e.text, ns |-> e.q.ns, rest |-> e.q.rest, c |-> "text"]}
              \cup UNION {XLitsOf(e.kids[i]) : i \in 1..Len(e.kids)}

\* =============================================================== NotAltered
\* Every leaf value of a returned tree is a literal of the input: the text of a scalar, or for
\* an identityref one of the forms that name the same identity, or for a number another lexeme
\* of the same number.  A value of type `empty` has no literal.  When the input holds a JSON number of class "other", numeric leaves are not
\* judged (see NumClass).
\* the number a lexeme denotes, as sign + integer digits + "." + fraction digits without redundant
\* zeros (a decoder may return the canonical form of the literal it read)
IsNumLex(s) == LET body == Unsigned(s)  p == IdxOf(body, ".") IN
               IF p = 0 THEN IsDigits(body)
               ELSE IsDigits(SubSeq(body, 1, p - 1)) /\ IsDigits(SubSeq(body, p + 1, Len(body)))
CanonNum(s) == LET body == Unsigned(s)
                   p == IdxOf(body, ".")
                   ip == Strip0(IF p = 0 THEN body ELSE SubSeq(body, 1, p - 1))
                   fp == StripT0(IF p = 0 THEN "" ELSE SubSeq(body, p + 1, Len(body)))
               IN (IF IsNeg(s) /\ ~(ip = "0" /\ fp = "") THEN "-" ELSE "") \o ip \o "." \o fp
LitOK(csn, v, lits) ==
  \/ csn.ty.b = "empty"
  \/ \E l \in lits : l.s = v
  \/ /\ IsNumericTy(csn.ty) /\ IsNumLex(v)
     /\ \E l \in lits : IsNumLex(l.s) /\ CanonNum(l.s) = CanonNum(v)
  \/ \E id \in IdsOf(csn.ty) :
          /\ IdVal(csn.mod, id) = v
          /\ \E l \in lits : l.s = IdQual(id) \/ (l.ns = NsOf(id.mod) /\ l.rest = id.name)
\* how a value that is no literal of the input relates to one: it is a literal without its leading "<prefix>:"
\* (a name that still has a prefix after that was a qualified name with one more prefix in front)
DropHow(v, lits) ==
  IF \E l \in lits : /\ Len(l.s) > Len(v) + 1 /\ SubSeq(l.s, Len(l.s) - Len(v) + 1, Len(l.s)) = v
                      /\ Ch(l.s, Len(l.s) - Len(v)) = ":"
  THEN (IF IdxOf(v, ":") > 0 THEN ":prefix-dropped-from-qualified-name" ELSE ":prefix-dropped") ELSE ""
RECURSIVE AlteredIn(_, _, _), AlteredKids(_, _, _, _)
\* "" or the type of the first altered leaf (and how it was altered, if that can be told)
AlteredKids(psn, kids, lits, i) ==
  IF i > Len(kids) THEN ""
  ELSE LET r == IF HasChild(psn, kids[i].n) THEN AlteredIn(Child(psn, kids[i].n), kids[i], lits) ELSE ""
       IN IF r # "" THEN r ELSE AlteredKids(psn, kids, lits, i + 1)
AlteredIn(sn, t, lits) ==
  CASE sn.k \in {"leaf", "ll"} -> LET bad == {i \in 1..Len(t.vals) : ~LitOK(sn, t.vals[i], lits)} IN
                                  IF bad = {} THEN "" ELSE sn.ty.b \o DropHow(t.vals[MinOf(bad)], lits)
    [] sn.k \in {"cont", "root"} -> AlteredKids(sn, t.kids, lits, 1)
    [] sn.k = "list" -> LET bad == {i \in 1..Len(t.kids) : AlteredKids(sn, t.kids[i].kids, lits, 1) # ""} IN
                        IF bad = {} THEN "" ELSE AlteredKids(sn, t.kids[MinOf(bad)].kids, lits, 1)
    [] OTHER -> ""
NotAltered(root, t, lits) == AlteredIn(root, t, lits) = ""
=============================================================================
