INIT GInit
NEXT GNext
CONSTANT Kinds = {"chars"}
CONSTANT MaxFull = 2
CONSTANT MaxCore = 3
CONSTANT MaxTiny = 4
CONSTANT MaxLref = 4
CONSTANT MaxChars = 3
CONSTANT MutFams = {14}
CONSTANT NChunks = 12
CONSTANT MutEvery = 4
CHECK_DEADLOCK FALSE
