INIT GInit
NEXT GNext
CONSTANT Fams = {"F1"}
CONSTANT Chunks = 4
CONSTANT NRand = 40
CHECK_DEADLOCK FALSE
CONSTANT RandMode = "C20"
