----------------------------- MODULE YangTypesMC -----------------------------
(* Design-level model: one initial state per family, the first step picks an item
   (a typedef chain, a pair of ranges, a union, an identity, a pattern); TLC
   checks on every reachable state the laws the type system must satisfy:

     Narrowing   if every level narrows its base (CompileChain says ok) then keeping
                 only the innermost range / length (the mechanism of the code)
                 accepts exactly the values that satisfy every level;
     Derive      Accepts(Derive(b, r), v) <=> Accepts(b, v) /\ r(v);
     Default     the compiled default is the nearest one and is a value of the type;
     Subset      Covered (on digit strings, with contiguity) <=> set inclusion of the
                 value sets, computed on small integers;
     Arith       Lt / Inc / Dec / Show / Parse agree with TLC integers;
     Union       acceptance by some member; nesting and order are irrelevant;
     Identity    Derived = transitive closure of "base", irreflexive here;
     Regex       the position-set matcher = the denotation of the expression.    *)
EXTENDS YangTypesSets
CONSTANTS Fams, MaxDepth
VARIABLES fam, item
None == [kind |-> "none"]
Int2Num(n) == IF n < 0 THEN Mk(TRUE, NatDigits(0 - n)) ELSE Nat2Num(n)
\* --- items
SmallParts == {<<Part(Int2Num(a), Int2Num(b))>> : a \in 0..6, b \in 0..6} \cup
              {<<Part(Int2Num(a), Int2Num(b)), Part(Int2Num(c), Int2Num(d))>> : a \in 0..3, b \in 0..4, c \in 2..6, d \in 4..6}
WellFormed(ps) == /\ \A i \in 1..Len(ps) : Le(ps[i].lo, ps[i].hi)
                  /\ \A i \in 1..(Len(ps) - 1) : Lt(ps[i].hi, ps[i + 1].lo)
SubsetItems == {[kind |-> "subset", base |-> b, a |-> a, b |-> bb] : b \in {p \in SmallParts : WellFormed(p)}, a \in 0..6, bb \in 0..6}
ArithItems == {[kind |-> "arith", a |-> a, b |-> b] : a \in -21..21, b \in {-101, -100, -11, -10, -9, -1, 0, 1, 9, 10, 11, 99, 100, 999, 1000}}
             \cup {[kind |-> "edge", x |-> x, fd |-> fd] : x \in UNION {{Dec(y), y, Inc(y)} : y \in {Width[k].lo : k \in DOMAIN Width} \cup {Width[k].hi : k \in DOMAIN Width}}, fd \in {1, 2, 18}}
UMembers == <<Mem("int8", Rg(<<P2(c1, c5)>>)), Mem("string", Ln(<<P1(c2)>>)), Mem("boolean", Lv0), Mem("uint8", Lv0), Mem("enumeration", En(Lv0))>>
UnionItems == {[kind |-> "union", a |-> UMembers[i], b |-> UMembers[j], c |-> UMembers[k]] : i \in 1..5, j \in 1..5, k \in 1..5}
IdItems == {[kind |-> "identity", x |-> Idents[i]] : i \in 1..Len(Idents)}
SmallStrs == {<< >>} \cup {<<x>> : x \in {ca, cb, cc}} \cup {<<x, y>> : x \in {ca, cb, cc}, y \in {ca, cb, cc}} \cup {<<x, y, z>> : x \in {ca, cb, cc}, y \in {ca, cb, cc}, z \in {ca, cb}}
RegexItems == UNION {{[kind |-> "regex", re |-> AllPats[i], s |-> s] : s \in SmallStrs \cup {<<ce, ce>>, <<ca, cb, ca, cb>>, <<ca, cb, cc>>, <<ca, cb, ca, cb, cc>>} \cup AnchorProbes(AllPats[i])} : i \in 1..Len(AllPats)}
Items(f) == CASE f = 20001 -> SubsetItems [] f = 20002 -> ArithItems [] f = 20003 -> UnionItems [] f = 20004 -> IdItems [] f = 20005 -> RegexItems
              [] OTHER -> {[kind |-> "chain", ch |-> ch, rich |-> Rich(f)] : ch \in ChainsOf(f, MaxDepth)}
\* --- laws
Prefix(ch) == [ch EXCEPT !.levels = SubSeq(@, 1, Len(@) - 1)]
\* the last level's own restriction, evaluated against the type it restricts
SatLevel(L, tb, v) ==
  /\ L.rng = << >> \/ LET p == IF tb.k = "decimal64" THEN ParseDec(v, tb.fd) ELSE ParseInt(v)
                          n == IF tb.k = "decimal64" THEN Narrow(L.rng, tb.parts, LAMBDA x : ParseDec(x, tb.fd), LAMBDA x : CanonDec(x, tb.fd), FALSE)
                               ELSE Narrow(L.rng, tb.parts, LAMBDA x : ParseInt(x), LAMBDA x : CanonInt(x), TRUE)
                      IN p.ok /\ InParts(p.v, n.parts)
  /\ L.len = << >> \/ InParts(Nat2Num(Len(v)), Narrow(L.len, tb.lparts, LAMBDA x : ParseInt(x), LAMBDA x : CanonInt(x), TRUE).parts)
  /\ \A i \in 1..Len(L.pats) : FullMatch(L.pats[i].re, v)
ChainLaw(ch, rich) ==
  LET r == CompileChain(ch) IN
  IF ~r.ok THEN
     \* a refused chain has a reason, and a chain is never refused at its first level for narrowing against nothing
     r.why # "ok"
  ELSE LET t == r.t  d == DefaultOf(ch)  vs == ProbeSet(t, rich) IN
       /\ \A v \in vs : Accepts(t, v) = AcceptsMech(t, v)                                   \* Narrowing
       /\ t.hasDef = d.has /\ (d.has => t.def = d.v /\ Accepts(t, d.v))                      \* Default
       /\ Len(ch.levels) = 1 \/
            LET rb == CompileChain(Prefix(ch)) IN
            /\ rb.ok
            /\ \A v \in vs : Accepts(t, v) = (Accepts(rb.t, v) /\ SatLevel(ch.levels[Len(ch.levels)], rb.t, v))   \* Derive
            /\ \A v \in vs : Accepts(t, v) => Accepts(rb.t, v)                                \* a derived type never accepts more
Num2Int(x) == LET m == FoldLeft(LAMBDA acc, dg : acc * 10 + dg, 0, x.d) IN IF x.neg THEN 0 - m ELSE m
SubsetLaw(it) ==
  LET p == Part(Int2Num(it.a), Int2Num(it.b))
      vals(ps) == {n \in 0..7 : InParts(Int2Num(n), ps)}
  IN it.a > it.b \/
     /\ Covered(p, it.base, TRUE) = (vals(<<p>>) \subseteq vals(it.base))
     /\ Covered(p, it.base, FALSE) = (\E i \in 1..Len(it.base) : vals(<<p>>) \subseteq vals(<<it.base[i]>>))
ArithLaw(it) ==
  IF it.kind = "arith" THEN
    LET x == Int2Num(it.a)  y == Int2Num(it.b) IN
    /\ Lt(x, y) = (it.a < it.b) /\ Le(x, y) = (it.a <= it.b)
    /\ Inc(x) = Int2Num(it.a + 1) /\ Dec(x) = Int2Num(it.a - 1) /\ Inc(y) = Int2Num(it.b + 1) /\ Dec(y) = Int2Num(it.b - 1)
    /\ Num2Int(y) = it.b /\ ParseInt(ShowNum(y)).v = y /\ ParseInt(ShowNum(y)).ok
    /\ ParseDec(ShowDec(y, 2), 2).v = y /\ ParseDec(ShowNum(x), 1).v = Int2Num(it.a * 10)
  ELSE
    LET x == it.x IN
    /\ Inc(Dec(x)) = x /\ Dec(Inc(x)) = x /\ Lt(Dec(x), x) /\ Lt(x, Inc(x)) /\ ~Lt(x, x) /\ ~Lt(Inc(x), x)
    /\ ParseInt(ShowNum(x)) = [ok |-> TRUE, v |-> x]
    /\ ParseDec(ShowDec(x, it.fd), it.fd) = [ok |-> TRUE, v |-> x]
    /\ CanonInt(ShowNum(x)) /\ CanonDec(ShowDec(x, it.fd), it.fd)
UnionLaw(it) ==
  LET U(ms) == CompileChain(Chain("union", <<Un(ms)>>)).t
      ta == CompileChain(it.a).t  tb == CompileChain(it.b).t  tc == CompileChain(it.c).t
      nested == U(<<Mem("union", Un(<<it.a, it.b>>)), it.c>>)
      flat == U(<<it.a, it.b, it.c>>)
      rev == U(<<it.c, it.b, it.a>>)
      vs == ProbeSet(flat, FALSE)
  IN \A v \in vs : /\ Accepts(flat, v) = (Accepts(ta, v) \/ Accepts(tb, v) \/ Accepts(tc, v))
                   /\ Accepts(nested, v) = Accepts(flat, v) /\ Accepts(rev, v) = Accepts(flat, v)
\* x is derived from base iff a chain of base statements leads from x to base
RECURSIVE Reaches(_, _, _, _)
Reaches(x, bm, bn, fuel) == fuel > 0 /\ x.bn # "" /\
  ((x.bm = bm /\ x.bn = bn) \/ \E y \in RangeOf(Idents) : y.m = x.bm /\ y.n = x.bn /\ Reaches(y, bm, bn, fuel - 1))
IdentityLaw(it) ==
  LET b == it.x  d == Derived(Idents, b.m, b.n) IN
  /\ \A y \in RangeOf(Idents) : (y \in d) = Reaches(y, b.m, b.n, Len(Idents))
  /\ b \notin d
  /\ \A y \in d : Derived(Idents, y.m, y.n) \subseteq d
\* denotation of a pattern on a whole string (by splitting), independent of the position-set matcher
RECURSIVE Den(_, _), DenCat(_, _, _), DenRep(_, _, _, _)
Den(re, s) ==
  CASE re.op = "lit" -> s = <<re.c>>
    [] re.op = "dot" -> Len(s) = 1 /\ s[1] \notin {10, 13}
    [] re.op = "cls" -> Len(s) = 1 /\ (InCls(s[1], re.rs) # re.neg)
    [] re.op = "cat" -> DenCat(re.kids, 1, s)
    [] re.op = "alt" -> \E k \in 1..Len(re.kids) : Den(re.kids[k], s)
    [] re.op = "rep" -> \E n \in re.m..(IF re.n >= 0 THEN re.n ELSE re.m + Len(s)) : DenRep(re.kids[1], n, s, re.m)
    [] OTHER -> FALSE
DenCat(kids, k, s) == IF k > Len(kids) THEN s = << >>
                      ELSE \E i \in 0..Len(s) : Den(kids[k], SubSeq(s, 1, i)) /\ DenCat(kids, k + 1, SubSeq(s, i + 1, Len(s)))
\* exactly n repetitions (empty repetitions allowed only to reach the minimum)
DenRep(kid, n, s, m) == IF n = 0 THEN s = << >>
                        ELSE \E i \in 0..Len(s) : Den(kid, SubSeq(s, 1, i)) /\ DenRep(kid, n - 1, SubSeq(s, i + 1, Len(s)), m)
RegexLaw(it) == FullMatch(it.re, it.s) = Den(it.re, it.s)
Law(it) == CASE it.kind = "chain" -> ChainLaw(it.ch, it.rich)
             [] it.kind = "subset" -> SubsetLaw(it)
             [] it.kind \in {"arith", "edge"} -> ArithLaw(it)
             [] it.kind = "union" -> UnionLaw(it)
             [] it.kind = "identity" -> IdentityLaw(it)
             [] it.kind = "regex" -> RegexLaw(it)
             [] OTHER -> TRUE
MCInit == fam \in Fams /\ item = None
MCNext == /\ item = None /\ UNCHANGED fam
          /\ \E it \in Items(fam) : item' = it
Laws == Law(item)
=============================================================================
