------------------------------ MODULE XPathGen ------------------------------
(* Behaviour generator (model -> code): for every AST of a family the vector holds
   the rendered expression in several styles, the program Compile prescribes, the
   data-tree calls XPath designates and the value under the three result
   accessors.  One family per initial state so that all TLC workers are used.   *)
EXTENDS XPathSets, Json
CONSTANTS Fams, NRand, RandKind, NChunks, WsEach
VARIABLES fam, chunk, done
NumOut(x) == [c |-> x.c, neg |-> x.neg, n |-> x.n, d |-> x.d]
ReqOut(r) == [root |-> r.root, elems |-> r.elems]
\* sub-expressions outside location paths, and two facts about them that tell whether an expression exercises one of
\* the two recorded C01 findings (used when a run can be judged by its result only)
RECURSIVE Subs(_)
Subs(e) == {e} \cup (CASE e.k \in {"f1", "neg"} -> Subs(e.a)
                       [] e.k \in {"f2", "bin"} -> Subs(e.a) \cup Subs(e.b)
                       [] e.k = "f3" -> Subs(e.a) \cup Subs(e.b) \cup Subs(e.c)
                       [] OTHER -> {})
Kids(x) == CASE x.k \in {"f1", "neg"} -> {x.a} [] x.k \in {"f2", "bin"} -> {x.a, x.b} [] x.k = "f3" -> {x.a, x.b, x.c} [] OTHER -> {}
InfStrIn(e) == \E x \in Subs(e) : LET v == Denote(x) IN v.t = "s" /\ StrClass(v.s) = "infinity"
MultiConvIn(e) == \E x \in Subs(e) : (x.k \in {"f1", "f2", "f3", "neg"} \/ (x.k = "bin" /\ x.op \in ArithOps))
                                      /\ \E y \in Kids(x) : Denote(y).t = "multi"
Vec(e, f) ==
  LET ev == Eval(e, EmptyPath)  v == ev.v IN
  [fam |-> f,
   expr |-> Render(e, "min", 0),
   variants |-> <<Render(e, "full", 0), Render(e, "min", 1), Render(e, "full", 2), Render(e, "min", 2), Render(e, "min", 3), Render(e, "full", 3)>>
                \o (IF RenderTight(e) # Render(e, "min", 0) THEN <<RenderTight(e)>> ELSE << >>)     \* no blank between a number and an operator name
                \o (IF Len(Toks(e, "min")) <= WsEach     \* whitespace at each single token boundary in turn
                    THEN LET n == Len(Toks(e, "min")) - 1 IN
                         [i \in 1..(3 * n) |-> RenderAt(e, ((i - 1) % n) + 1, IF i <= n THEN " " ELSE IF i <= 2 * n THEN "\n" ELSE " \t\r\n ")]
                    ELSE << >>),
   prog |-> Compile(e),
   calls |-> ev.calls,
   t |-> v.t, vclass |-> ValClass(v), judged |-> v.j,
   rb |-> ToBool(v), rn |-> ToNum(v), rs |-> ToStr(v),
   rnJudged |-> v.j /\ ~IsOOM(ToNum(v)),
   infstr |-> InfStrIn(e), multiconv |-> MultiConvIn(e)]
GInit == fam \in Fams /\ chunk \in 0..(NChunks - 1) /\ done = FALSE
GNext == /\ ~done /\ done' = TRUE /\ UNCHANGED <<fam, chunk>>
         /\ LET S == IF fam = 100 THEN (IF chunk = 0 THEN RandFamily(RandKind, NRand) ELSE {}) ELSE FamilyC(fam, chunk, NChunks)
            IN S = {} \/ ndJsonSerialize("vec_" \o ToString(fam) \o "_" \o ToString(chunk) \o ".ndjson", SetToSeq({Vec(e, fam) : e \in S}))
=============================================================================
