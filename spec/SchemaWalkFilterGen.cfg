INIT GInit
NEXT GNext
CONSTANT Shapes = {1, 2, 3, 4, 5, 6}
CONSTANT MaxEntries = 1
CONSTANT MaxLL = 2
CHECK_DEADLOCK FALSE
