-------------------------- MODULE XPathFuncsScript --------------------------
(* Directed behaviours of XPathFuncs (model -> code).  The sampled behaviours of XPathFuncs_Sim seldom line up the
   one history that matters for a function that fails for some operands only: register it, compile two machines that
   call it with operands of different classes, run them in both orders and again.  Here every such history is
   enumerated: one initial state per script, the steps are the actions of XPathFuncs taken in the script's order, and
   the complete behaviour is printed when the script is used up (same FUNCJSON format, replayed by xp funcs).
   What the model says: a failure of a custom function is confined to the call in which it happens - every run is
   judged by RunObs of its own machine, whatever ran before.                                                     *)
EXTENDS XPathFuncs
VARIABLE script
svars == <<tbl, loaded, gen, machs, hist, script>>

PartialInfos == {i \in InfoPool : i.beh = "partial"}
\* operands of every class a declared sort can be converted from (empty / non-empty string, zero / non-zero number,
\* non-numeric string, true / false, absent and present leaves)
Operands == {LitE(""), LitE("12"), LitE("x"), NumE(0), NumE(1), FCall("true", << >>), FCall("false", << >>), RelE("vabs"), RelE("vnum")}
CallOf(i, o) == IF Len(i.args) = 1 THEN FCall(i.name, <<o>>) ELSE FCall(i.name, <<o, FCall("true", << >>)>>)
Forms(c) == {c, FCall("string", <<c>>), BinE("=", c, LitE("12"))}
SReg(i) == [a |-> "reg", batch |-> <<i>>]
SCmp(e) == [a |-> "compile", e |-> e]
SRun(m) == [a |-> "run", m |-> m]
\* two machines over one registration, run in both orders and again; then a machine compiled after the runs
Script(i, o1, o2, f) ==
  <<SReg(i), SCmp(CallOf(i, o1)), SCmp(f), SRun(1), SRun(2), SRun(1), SRun(2), SCmp(CallOf(i, o2)), SRun(3), SRun(2), SRun(1)>>
\* a function that consults state outside the tree: the same machine run before and after that state has changed, with constant and
\* with data-tree operands, and a machine compiled in between
ExtInfos == {i \in InfoPool : i.beh = "ext"}
Other == Info("-x", << >>, "n", "const", "typed")
ExtScript(i, o, f) ==
  <<SReg(i), SCmp(f), SRun(1), SReg(Other), SRun(1), SCmp(CallOf(i, o)), SRun(2), SReg(Other), SRun(1), SRun(2), SRun(1)>>
ExtScripts == UNION {{ExtScript(i, o, f) : f \in Forms(CallOf(i, o))} : i \in ExtInfos, o \in Operands}
Scripts == ExtScripts \cup UNION {{Script(i, o1, o2, f) : f \in Forms(CallOf(i, o2))} : i \in PartialInfos, o1 \in Operands, o2 \in Operands}

SInit == Init /\ script \in Scripts
Step(s) == CASE s.a = "reg" -> Register(s.batch)
             [] s.a = "compile" -> DoCompile(s.e, TRUE, {})
             [] OTHER -> IF s.m <= Len(machs) /\ machs[s.m].st = "ok" THEN DoRun(s.m) ELSE UNCHANGED fvars
SNext == script # << >> /\ Step(Head(script)) /\ script' = Tail(script)
SSpec == SInit /\ [][SNext]_svars
EmitScript == (Emit /\ script = << >>) => PrintT("FUNCJSON " \o ToJson([steps |-> hist]))
=============================================================================
