------------------------------ MODULE XPathAst ------------------------------
(* Abstract syntax of the supported XPath subset, its meaning (Eval: value and
   the navigation requests XPath designates), its compilation to the postfix
   stack program (Compile, from the grammar actions of xpath.y) and its
   rendering to text (Render, with minimal or full parentheses and several
   whitespace styles).  Pure operators.

   AST (records; the field k selects the sort)
     [k |-> "num", txt, v]             number literal, source text and value
     [k |-> "lit", s]                  string literal
     [k |-> "fn0", f]  [k |-> "f1", f, a]  [k |-> "f2", f, a, b]  [k |-> "f3", f, a, b, c]
     [k |-> "bin", op, a, b]           op in ArithOps, CmpOps, BoolOps
     [k |-> "neg", a]                  unary minus
     [k |-> "path", root, arg, steps]  root in "abs" "rel" "cur" "deref"; arg = path (deref) or 0
         step = [n, pfx, preds]  n = name | ".." | "." ;  pred = [key, opnd]        *)
EXTENDS XPathValues

\* ------------------------------------------------------------ data tree model
(* A request is [root, elems]; elems a sequence of [n, keys] with keys a function
   name -> string.  The tree answers by a deterministic function of the request, so a
   wrong request also changes the value.  Leaves whose name is in the table below have
   the listed value whatever their position.                                     *)
EmptyMap == [x \in {} |-> ""]
EmptyPath == [root |-> FALSE, elems |-> << >>]
RootPath == [root |-> TRUE, elems |-> << >>]
Elem(n) == [n |-> n, keys |-> EmptyMap]
KeyPool == <<"j", "k", "kk", "m">>      \* alphabetical; predicate key names are drawn from here
RECURSIVE KeyStr(_, _)
KeyStr(keys, i) == IF i > Len(KeyPool) THEN ""
   ELSE (IF KeyPool[i] \in DOMAIN keys THEN "[" \o KeyPool[i] \o "=" \o keys[KeyPool[i]] \o "]" ELSE "") \o KeyStr(keys, i + 1)
RECURSIVE ElemsStr(_)
ElemsStr(es) == IF es = << >> THEN "" ELSE "/" \o es[1].n \o KeyStr(es[1].keys, 1) \o ElemsStr(Tail(es))
ReqStr(r) == (IF r.root THEN "ROOT" ELSE "CTX") \o ElemsStr(r.elems)
LastName(r) == IF r.elems = << >> THEN "" ELSE r.elems[Len(r.elems)].n
TreeVal(r) ==
  LET n == LastName(r) IN
  CASE n = "vabs" -> VAbsent
    [] n = "vmulti" -> VMulti(<<"1", "x", " 2.5 ">>)
    [] n = "vm2" -> VMulti(<<"", "7">>)
    [] n = "vone" -> VMulti(<<"0">>)          \* a leaf-list with a single entry
    [] n = "vnil" -> VMulti(<<"">>)           \* a leaf-list whose single entry is the empty string
    [] n = "vempty" -> VS("")
    [] n = "vnum" -> VS("12")
    [] n = "vneg" -> VS(" -1.5 ")
    [] n = "vtxt" -> VS("a~b")
    [] OTHER -> VS("V(" \o ReqStr(r) \o ")")
\* the leafref target the tree reports: a keyed list entry whose key values are of the classes real targets have
\* (an IPv6 address, an identityref with its prefix, a value with path and predicate punctuation and a blank)
DerefTarget(r) == [root |-> TRUE, elems |-> << [n |-> "tgt", keys |-> ("k" :> ReqStr(r)) @@ ("j" :> "2001:db8::1") @@ ("m" :> "p:x")
                                                                       @@ ("kk" :> "a/b[c='d'] =e")] >>]
Call(op, r) == [op |-> op, req |-> r]

\* -------------------------------------------------------------------- meaning
RECURSIVE Eval(_, _), PathReq(_, _)
(* PathReq(p, ctx): the request a location path designates and the calls made for its
   predicate operands (and deref argument), evaluated in order.  ctx is the path that
   stands for the context node.                                                  *)
PathReq(p, ctx) ==
  LET start == CASE p.root = "abs" -> [calls |-> << >>, cur |-> RootPath]
                 [] p.root = "cur" -> [calls |-> << >>, cur |-> EmptyPath]
                 [] p.root = "rel" -> [calls |-> << >>, cur |-> ctx]
                 [] p.root = "deref" -> LET a == PathReq(p.arg, ctx)
                                        IN [calls |-> a.calls \o <<Call("nav", a.req), Call("follow", a.req)>>,
                                            cur |-> DerefTarget(a.req)]
      F[i \in 0..Len(p.steps)] ==
        IF i = 0 THEN start
        ELSE LET prev == F[i - 1]
                 st == p.steps[i]
             IN IF st.n = "." THEN prev
                ELSE LET withElem == [prev.cur EXCEPT !.elems = Append(@, Elem(st.n))]
                         G[x \in 0..Len(st.preds)] ==
                           IF x = 0 THEN [calls |-> prev.calls, keys |-> EmptyMap]
                           ELSE LET pg == G[x - 1]
                                    pr == st.preds[x]
                                    ev == Eval(pr.opnd, withElem)
                                IN [calls |-> pg.calls \o ev.calls,
                                    keys |-> (pr.key :> ToStr(ev.v)) @@ pg.keys]   \* a later predicate on the same key wins
                         g == G[Len(st.preds)]
                     IN [calls |-> g.calls,
                         cur |-> [prev.cur EXCEPT !.elems = Append(@, [n |-> st.n, keys |-> g.keys])]]
      f == F[Len(p.steps)]
  IN [calls |-> f.calls, req |-> f.cur]

Eval(e, ctx) ==
  CASE e.k = "num" -> [v |-> VN(e.v), calls |-> << >>]
    [] e.k = "lit" -> [v |-> VS(e.s), calls |-> << >>]
    [] e.k = "fn0" -> [v |-> Fn0(e.f), calls |-> << >>]
    [] e.k = "f1" -> LET a == Eval(e.a, ctx) IN [v |-> Fn1(e.f, a.v), calls |-> a.calls]
    [] e.k = "f2" -> LET a == Eval(e.a, ctx)  b == Eval(e.b, ctx) IN [v |-> Fn2(e.f, a.v, b.v), calls |-> a.calls \o b.calls]
    [] e.k = "f3" -> LET a == Eval(e.a, ctx)  b == Eval(e.b, ctx)  c == Eval(e.c, ctx)
                     IN [v |-> Fn3(e.f, a.v, b.v, c.v), calls |-> a.calls \o b.calls \o c.calls]
    [] e.k = "bin" -> LET a == Eval(e.a, ctx)  b == Eval(e.b, ctx) IN [v |-> Bin(e.op, a.v, b.v), calls |-> a.calls \o b.calls]
    [] e.k = "neg" -> LET a == Eval(e.a, ctx) IN [v |-> NegV(a.v), calls |-> a.calls]
    [] e.k = "path" -> LET pr == PathReq(e, ctx)
                       IN [v |-> TreeVal(pr.req), calls |-> pr.calls \o <<Call("nav", pr.req), Call("get", pr.req)>>]
Denote(e) == Eval(e, EmptyPath).v
Designated(e) == Eval(e, EmptyPath).calls

\* ------------------------------------------------------------------ compilation
\* instruction = [i, s, n]: name, string operand, numeric operand
Ins(i) == [i |-> i, s |-> "", n |-> Zero(FALSE)]
InsS(i, s) == [i |-> i, s |-> s, n |-> Zero(FALSE)]
InsN(i, n) == [i |-> i, s |-> "", n |-> n]
OpIns(op) == CASE op = "+" -> "add" [] op = "-" -> "sub" [] op = "*" -> "mul" [] op = "div" -> "div" [] op = "mod" -> "mod"
               [] op = "=" -> "eq" [] op = "!=" -> "ne" [] op = "<" -> "lt" [] op = "<=" -> "le" [] op = ">" -> "gt" [] op = ">=" -> "ge"
               [] op = "and" -> "and" [] op = "or" -> "or" [] op = "|" -> "union"
RECURSIVE Comp(_), CompPathBody(_), CompSteps(_), CompPreds(_)
CompPreds(ps) == IF ps = << >> THEN << >>
   ELSE <<Ins("PREDSTART"), InsS("name", ps[1].key), Ins("evalLocPath")>> \o Comp(ps[1].opnd)
        \o <<Ins("eq"), Ins("PREDEND")>> \o CompPreds(Tail(ps))
CompSteps(ss) == IF ss = << >> THEN << >>
   ELSE (CASE ss[1].n = ".." -> <<Ins("dotdot")>> [] ss[1].n = "." -> << >> [] OTHER -> <<InsS("name", ss[1].n)>>)
        \o (IF ss[1].preds = << >> THEN << >> ELSE <<Ins("PredicatesStart")>> \o CompPreds(ss[1].preds) \o <<Ins("PredicatesEnd")>>)
        \o CompSteps(Tail(ss))
CompPathBody(p) ==
   (CASE p.root = "abs" -> <<Ins("root")>> [] p.root = "cur" -> <<Ins("pathsetcurrent")>>
      [] p.root = "deref" -> CompPathBody(p.arg) \o <<Ins("deref")>> [] OTHER -> << >>)
   \o CompSteps(p.steps)
Comp(e) ==
  CASE e.k = "num" -> <<InsN("numpush", e.v)>>
    [] e.k = "lit" -> <<InsS("litpush", e.s)>>
    [] e.k = "fn0" -> <<InsS("bltin", e.f)>>
    [] e.k = "f1" -> Comp(e.a) \o <<InsS("bltin", e.f)>>
    [] e.k = "f2" -> Comp(e.a) \o Comp(e.b) \o <<InsS("bltin", e.f)>>
    [] e.k = "f3" -> Comp(e.a) \o Comp(e.b) \o Comp(e.c) \o <<InsS("bltin", e.f)>>
    [] e.k = "bin" -> Comp(e.a) \o Comp(e.b) \o <<Ins(OpIns(e.op))>>
    [] e.k = "neg" -> Comp(e.a) \o <<Ins("negate")>>
    [] e.k = "path" -> CompPathBody(e) \o <<Ins("evalLocPath")>>
Compile(e) == Comp(e) \o <<Ins("store")>>

\* -------------------------------------------------------------------- rendering
\* precedence: or 1 < and 2 < equality 3 < relational 4 < additive 5 < multiplicative 6 < unary 7 < union 8 < primary/path 9
Level(e) == IF e.k = "bin" THEN (CASE e.op = "or" -> 1 [] e.op = "and" -> 2 [] e.op \in {"=", "!="} -> 3
                                   [] e.op \in {"<", "<=", ">", ">="} -> 4 [] e.op \in {"+", "-"} -> 5 [] e.op = "|" -> 8 [] OTHER -> 6)
            ELSE IF e.k = "neg" THEN 7 ELSE 9
RECURSIVE Toks(_, _), PathToks(_, _), StepsToks(_, _), PredToks(_, _)
Paren(ts) == <<"(">> \o ts \o <<")">>
\* child e rendered as an operand that must be at least of level lv
Opnd(e, lv, mode) == IF mode = "full" \/ Level(e) < lv THEN Paren(Toks(e, mode)) ELSE Toks(e, mode)
Arg(e, mode) == IF mode = "full" THEN Paren(Toks(e, mode)) ELSE Toks(e, mode)
PredToks(ps, mode) == IF ps = << >> THEN << >>
   ELSE <<"[", ps[1].key, "=">> \o Opnd(ps[1].opnd, 4, mode) \o <<"]">> \o PredToks(Tail(ps), mode)
StepsToks(ss, mode) == IF ss = << >> THEN << >>
   ELSE (IF ss[1].pfx = "" THEN <<ss[1].n>> ELSE <<ss[1].pfx \o ":" \o ss[1].n>>) \o PredToks(ss[1].preds, mode)
        \o (IF Len(ss) > 1 THEN <<"/">> ELSE << >>) \o StepsToks(Tail(ss), mode)
PathToks(p, mode) ==
   (CASE p.root = "abs" -> <<"/">>
      [] p.root = "cur" -> <<"current", "(", ")">> \o (IF p.steps = << >> THEN << >> ELSE <<"/">>)
      [] p.root = "deref" -> <<"deref", "(">> \o PathToks(p.arg, mode) \o <<")">> \o (IF p.steps = << >> THEN << >> ELSE <<"/">>)
      [] OTHER -> << >>)
   \o StepsToks(p.steps, mode)
Quote(s) == IF \E i \in 1..Len(s) : Ch(s, i) = "'" THEN "\"" \o s \o "\"" ELSE "'" \o s \o "'"
Toks(e, mode) ==
  CASE e.k = "num" -> <<e.txt>>
    [] e.k = "lit" -> <<Quote(e.s)>>
    [] e.k = "fn0" -> <<e.f, "(", ")">>
    [] e.k = "f1" -> <<e.f, "(">> \o Arg(e.a, mode) \o <<")">>
    [] e.k = "f2" -> <<e.f, "(">> \o Arg(e.a, mode) \o <<",">> \o Arg(e.b, mode) \o <<")">>
    [] e.k = "f3" -> <<e.f, "(">> \o Arg(e.a, mode) \o <<",">> \o Arg(e.b, mode) \o <<",">> \o Arg(e.c, mode) \o <<")">>
    [] e.k = "bin" -> Opnd(e.a, Level(e), mode) \o <<e.op>> \o Opnd(e.b, Level(e) + 1, mode)
    [] e.k = "neg" -> <<"-">> \o Opnd(e.a, 7, mode)
    [] e.k = "path" -> PathToks(e, mode)

\* lexical classes of a token's edges, to decide where whitespace is significant
IsWordCh(c) == c \in {"a","b","c","d","e","f","g","h","i","j","k","l","m","n","o","p","q","r","s","t","u","v","w","x","y","z",
                       "A","B","C","D","E","F","G","H","I","J","K","L","M","N","O","P","Q","R","S","T","U","V","W","X","Y","Z",
                       "0","1","2","3","4","5","6","7","8","9","_","-",".",":"}
NeedsSep(t1, t2) ==
  LET a == Ch(t1, Len(t1))  b == Ch(t2, 1) IN
  /\ Ch(t1, 1) \notin {"'", "\""}  /\  b \notin {"'", "\""}
  /\ IsWordCh(a) /\ IsWordCh(b)
  /\ ~(a = "-" /\ Len(t1) = 1 /\ b # "-")      \* a lone '-' operator needs no space before a name or number ...
  /\ TRUE
\* ... except that "--" never occurs here and "a -b": a name followed by '-' must be separated (b = "-" is a word char)
Ws(style, i) == CASE style = 1 -> " "
                  [] style = 2 -> (IF i % 3 = 0 THEN "\t" ELSE IF i % 3 = 1 THEN "\n " ELSE "  ")
                  [] style = 3 -> (IF i % 4 = 0 THEN " \n" ELSE IF i % 4 = 1 THEN "\r\n" ELSE IF i % 4 = 2 THEN "\t\r\n " ELSE " \t\n\n")
                  [] OTHER -> ""
RECURSIVE Join(_, _, _)
Join(ts, style, i) ==
  IF ts = << >> THEN ""
  ELSE IF Len(ts) = 1 THEN ts[1] \o (IF style = 2 THEN " " ELSE IF style = 3 THEN "\r\n" ELSE "")
  ELSE ts[1] \o (IF style = 0 THEN (IF NeedsSep(ts[1], ts[2]) THEN " " ELSE "") ELSE Ws(style, i)) \o Join(Tail(ts), style, i + 1)
\* whitespace w at exactly one token boundary k (all other boundaries minimal)
RECURSIVE JoinAt(_, _, _, _)
JoinAt(ts, k, w, i) ==
  IF ts = << >> THEN "" ELSE IF Len(ts) = 1 THEN ts[1]
  ELSE ts[1] \o (IF i = k THEN w ELSE IF NeedsSep(ts[1], ts[2]) THEN " " ELSE "") \o JoinAt(Tail(ts), k, w, i + 1)
RenderAt(e, k, w) == JoinAt(Toks(e, "min"), k, w, 1)
\* the tightest spelling: XPath 1.0 3.7 takes the longest token, and a Number holds no letters, so an operator name may
\* follow a number without any blank ("7mod 3", "1and 0", "(8div 2)mod 3")
IsNumTokT(t) == t \notin {".", ".."} /\ Ch(t, 1) \in {"0", "1", "2", "3", "4", "5", "6", "7", "8", "9", "."}
NeedsSepTight(t1, t2) == NeedsSep(t1, t2) /\ ~(IsNumTokT(t1) /\ t2 \in {"and", "or", "div", "mod"})
RECURSIVE JoinTight(_)
JoinTight(ts) == IF ts = << >> THEN "" ELSE IF Len(ts) = 1 THEN ts[1]
                 ELSE ts[1] \o (IF NeedsSepTight(ts[1], ts[2]) THEN " " ELSE "") \o JoinTight(Tail(ts))
RenderTight(e) == JoinTight(Toks(e, "min"))
Render(e, mode, style) == (IF style = 2 THEN " " ELSE IF style = 3 THEN "\n\t" ELSE "") \o Join(Toks(e, mode), style, 0)
=============================================================================
