INIT GInit
NEXT GNext
CONSTANT Fams = {4}
CONSTANT NRand = 100
CONSTANT RandKind = "path"
CONSTANT NChunks = 12
CHECK_DEADLOCK FALSE
