------------------------------ MODULE XPathSets ------------------------------
(* Bounded input spaces (sets of ASTs) enumerated by TLC for the exhaustive model
   and for the behaviour generator.  Families are indexed so that generation can be
   split over initial states (one family per worker).                            *)
EXTENDS XPathAst, SequencesExt

NoArg == [k |-> "none"]
N(txt, v) == [k |-> "num", txt |-> txt, v |-> v]
L(s) == [k |-> "lit", s |-> s]
Fn0A(f) == [k |-> "fn0", f |-> f]
F1A(f, a) == [k |-> "f1", f |-> f, a |-> a]
F2A(f, a, b) == [k |-> "f2", f |-> f, a |-> a, b |-> b]
F3A(f, a, b, c) == [k |-> "f3", f |-> f, a |-> a, b |-> b, c |-> c]
BinA(op, a, b) == [k |-> "bin", op |-> op, a |-> a, b |-> b]
NegA(a) == [k |-> "neg", a |-> a]
St(n) == [n |-> n, pfx |-> "", preds |-> << >>]
StP(n, preds) == [n |-> n, pfx |-> "", preds |-> preds]
StX(pfx, n) == [n |-> n, pfx |-> pfx, preds |-> << >>]
Pred(key, o) == [key |-> key, opnd |-> o]
Path(root, steps) == [k |-> "path", root |-> root, arg |-> NoArg, steps |-> steps]
Deref(arg, steps) == [k |-> "path", root |-> "deref", arg |-> arg, steps |-> steps]
Rel1(n) == Path("rel", <<St(n)>>)

N0 == N("0", Num(0))
N1 == N("1", Num(1))
NumLeaves == {N0, N1, N("2", Num(2)), N("3", Num(3)), N("10", Num(10)), N("0.5", Fin(FALSE, 1, 2)),
              N("1.5", Fin(FALSE, 3, 2)), N("2.5", Fin(FALSE, 5, 2)), N("0.125", Fin(FALSE, 1, 8)),
              N("1000000", Num(1000000)), N("10000000000000000000000", P10(FALSE, 22)), N("0.0000001", P10(FALSE, -7)),
              N("4503599627370497", Big(FALSE, 1)), N("9007199254740991", Big(FALSE, 2)), N("0.49999999999999994", Big(FALSE, 3))}
SmallNums == {N0, N1, N("2", Num(2)), N("0.5", Fin(FALSE, 1, 2)), N("2.5", Fin(FALSE, 5, 2))}
\* special values as tiny expressions
XNaN == F1A("number", L("x"))
XPInf == BinA("div", N1, N0)
XNInf == BinA("div", NegA(N1), N0)
XNZero == NegA(N0)
Specials == {XNaN, XPInf, XNInf, XNZero, NegA(N1), NegA(N("1.5", Fin(FALSE, 3, 2))), NegA(N("0.5", Fin(FALSE, 1, 2))), NegA(N("2.5", Fin(FALSE, 5, 2)))}
StrLeaves(u_) == {L(s) : s \in {"", "a", "12", " 12 ", "+5", "1e3", "ab cd", " a  b ", "-1.5", ".5", "5.", "abc", "a~b^", "~", "`x",
                            "-", ".", "Infinity", "NaN", "0x10", "12abc", "\t7\n", "-0", "007", "1000000000000000000000", "0.000001",
                            \* { } @ : no-break space, form feed, em space - white space to Unicode, ordinary characters to XPath
                            " {a{ b ", "}x}", "{{", "{12", "a@b", "1}"}}
SmallStrs == {L(s) : s \in {"", "a", "abc", "ab cd", "a~b^", "12", " a  b "}}
BoolLeaves == {Fn0A("true"), Fn0A("false")}
TreeLeaves == {Rel1(n) : n \in {"vabs", "vmulti", "vm2", "vone", "vnil", "vempty", "vnum", "vneg", "vtxt"}}
Leaves(u_) == NumLeaves \cup StrLeaves(0) \cup BoolLeaves \cup TreeLeaves \cup Specials
NumLike == NumLeaves \cup Specials
AllOps == ArithOps \cup CmpOps \cup BoolOps

\* ---- C01 families (scalar evaluation) ----
D1Bin(ops) == {BinA(o, x, y) : o \in ops, x \in Leaves(0), y \in Leaves(0)}
D1F1(u_) == {F1A(f, x) : f \in F1, x \in Leaves(0)} \cup {NegA(x) : x \in Leaves(0)} \cup {Fn0A(f) : f \in F0}
D1F2(u_) == {F2A(f, x, y) : f \in F2, x \in StrLeaves(0) \cup TreeLeaves \cup SmallNums \cup BoolLeaves, y \in StrLeaves(0) \cup TreeLeaves}
\* re-match: subjects x patterns of the judged regex subset
RxSubjects == {L(""), L("a"), L("abc"), L("xabcx"), L("ab"), L("aab"), L("a~b"), L("abcd"), L("b"), Rel1("vnum"), Rel1("vabs"), N1}
RxPatterns == {L(""), L("a"), L("abc"), L("a*"), L("a*b"), L("a.c"), L(".*"), L(".+b"), L("ab|cd"), L("a|abc"), L("ab?c?"), L("a+b"), L(".."), L("12"), L("1")}
D1Rx(u_) == {F2A("re-match", x, y) : x \in RxSubjects, y \in RxPatterns}
\* positions and lengths of every magnitude: beyond the string, beyond 2^53 (where adding one no longer changes a double), both signs
HugeNums == {N("100000000000", P10(FALSE, 11)), NegA(N("100000000000", P10(FALSE, 11))), N("1000000000000000000", P10(FALSE, 18)),
             NegA(N("1000000000000000000", P10(FALSE, 18))), N("9007199254740991", Big(FALSE, 2)), NegA(N("9007199254740991", Big(FALSE, 2)))}
SubArgs == SmallNums \cup Specials \cup HugeNums \cup {N("3", Num(3)), N("1.5", Fin(FALSE, 3, 2)), L("2"), L("x"), Rel1("vabs"), Rel1("vnum")}
D1F3(u_) == {F3A("substring", s, p, l) : s \in {L("12345"), L("a~b^c"), L(""), Rel1("vtxt"), Rel1("vabs")}, p \in SubArgs, l \in SubArgs}
        \cup {F3A("translate", x, y, z) : x \in SmallStrs \cup {Rel1("vtxt")}, y \in SmallStrs, z \in {L(""), L("a"), L("12"), L("~"), L("^xy")}}
ArithD1(u_) == {BinA(o, x, y) : o \in ArithOps, x \in NumLike, y \in NumLike}
\* depth 2: conversion chains and operators over depth-1 arithmetic
D2Conv(u_) == {F1A(f, F1A(g, x)) : f \in F1, g \in F1, x \in Leaves(0)}
D2OverArith(u_) == {F1A(f, x) : f \in F1, x \in ArithD1(0)}
\* chunk c of C of a set (for spreading a big family over workers)
Chunk(S, c, C) == LET q == SetToSeq(S) IN {q[i] : i \in {j \in 1..Len(q) : j % C = c}}
NumCore == SmallNums \cup Specials
ArithCore(u_) == {BinA(o, x, y) : o \in ArithOps, x \in NumCore, y \in NumCore}
D2Other == SmallNums \cup {XNaN, XPInf, XNZero, L(""), L("12"), Fn0A("true"), Rel1("vabs"), Rel1("vmulti")}
D2Bin(ops, c, C) == {BinA(o, x, y) : o \in ops, x \in Chunk(ArithCore(0), c, C), y \in D2Other}
                    \cup {BinA(o, y, x) : o \in ops, x \in Chunk(ArithCore(0), c, C), y \in D2Other}

\* ---- C02 families (location paths) ----
Names == {"a", "b"}
OpndPaths(u_) == {Path(r, s) : r \in {"abs", "cur"}, s \in {<<St("z")>>, <<St(".."), St("z")>>, <<St("y"), St(".."), St("z")>>}}
             \cup {Path("rel", <<St(".."), St("z")>>), Path("rel", <<St(".."), St(".."), St("z")>>), Path("cur", << >>)}
OpndScalars == {L("x"), L(""), L("a b"), N("2", Num(2)), N("2.5", Fin(FALSE, 5, 2)), F2A("concat", L("p"), L("q")),
                F1A("string", N("10", Num(10))), NegA(N1), Fn0A("true"),
                \* numbers whose XPath string-value differs from other customary spellings (no exponent, Infinity, -0 -> 0)
                N("0.00001", P10(FALSE, -5)), N("123456.5", Fin(FALSE, 246913, 2)), N("100000000000000000000", P10(FALSE, 20)),
                N("9007199254740991", Big(FALSE, 2)), XPInf, XNInf, XNaN, XNZero}
Opnds(u_) == OpndScalars \cup OpndPaths(0)
Preds1(keys, opnds) == {Pred(ky, o) : ky \in keys, o \in opnds}
PredSeqs(u_) == {<< >>} \cup {<<p>> : p \in Preds1({"k", "j"}, Opnds(0))}
            \cup {<<p, q>> : p \in Preds1({"k"}, Opnds(0)), q \in Preds1({"j"}, {L("x"), N("2", Num(2)), Path("cur", <<St("z")>>), Path("abs", <<St("z")>>), Path("rel", <<St(".."), St("z")>>)})}
            \cup {<<q, p>> : p \in Preds1({"k"}, {L("x"), Path("cur", <<St("z")>>)}), q \in Preds1({"j", "m"}, {L("y"), Path("abs", <<St("z")>>)})}
            \cup {<<p, q, r>> : p \in Preds1({"m"}, {L("x")}), q \in Preds1({"k"}, {L("y"), Path("cur", <<St("z")>>)}), r \in Preds1({"j"}, {L("w")})}
Steps(u_) == {StP(nm, ps) : nm \in Names, ps \in PredSeqs(0)} \cup {St("..")}
PlainSteps == {St("a"), St("b"), St(".."), StX("p", "a"), St(".")}
StepSeqs1(u_) == {<<s>> : s \in Steps(0)}
StepSeqs2(u_) == {<<s, t>> : s \in Steps(0), t \in PlainSteps} \cup {<<t, s>> : s \in Steps(0), t \in PlainSteps}
StepSeqs3(u_) == {<<t, s, u>> : s \in Steps(0), t \in {St("a"), St("..")}, u \in {St("b"), St(".."), StP("b", <<Pred("k", L("x"))>>)}}
PlainSeqs(u_) == {<<s>> : s \in PlainSteps} \cup {<<s, t>> : s \in PlainSteps, t \in PlainSteps}
             \cup {<<s, t, u>> : s \in PlainSteps, t \in PlainSteps, u \in PlainSteps}
             \cup {<<St("a"), St("b"), St(".."), St("a"), St("b")>>}
PathsBy(roots, seqs) == {Path(r, ss) : r \in roots, ss \in seqs}
DerefArgs == {Path("rel", <<St("a")>>), Path("abs", <<St("a"), St("b")>>), Path("cur", <<St(".."), St("a")>>),
              Path("rel", <<StP("a", <<Pred("k", L("x"))>>), St("b")>>), Path("rel", <<St(".."), St("a")>>)}
DerefPaths(u_) == {Deref(a, ss) : a \in DerefArgs, ss \in {<< >>, <<St("b")>>, <<St(".."), St("b")>>, <<StP("b", <<Pred("k", Path("cur", <<St("z")>>))>>)>>}}
              \cup {Deref(Deref(Path("rel", <<St("a")>>), <<St("b")>>), <<St("c")>>)}
              \cup {Path("rel", <<StP("a", <<Pred("k", Deref(Path("cur", <<St("z")>>), <<St("y")>>))>>)>>)}
\* paths as operands of comparison / boolean operators
PathOperands == {Path("rel", <<St("a")>>), Path("abs", <<St("a"), St("b")>>), Path("cur", <<St(".."), St("a")>>),
                 Path("rel", <<StP("a", <<Pred("k", L("x"))>>), St("b")>>),
                 Path("rel", <<StP("a", <<Pred("k", Path("cur", <<St("z")>>))>>)>>),
                 Deref(Path("rel", <<St("a")>>), <<St("b")>>)}
PathExprs(u_) == {BinA(o, p, q) : o \in {"=", "!=", "<", "and", "or", "+"}, p \in PathOperands, q \in PathOperands \cup {L("x"), N1}}
             \cup {BinA(o, q, p) : o \in {"=", ">="}, p \in PathOperands, q \in {L("x"), N1}}
             \cup {F1A(f, p) : f \in {"string", "number", "boolean", "not", "string-length"}, p \in PathOperands}
             \cup {F2A("concat", p, q) : p \in PathOperands, q \in PathOperands}

\* a comparison with a multi-valued (or absent) leaf on the left, then keyed paths later in the same expression
LLFirst(u_) == {BinA(o, BinA(c, Rel1(l), r), p) : o \in {"and", "or"}, c \in {"=", "!=", "<"}, l \in {"vmulti", "vm2", "vabs", "vnum"},
                                                r \in {L("x"), N1, Rel1("vmulti")},
                                                p \in {q \in PathOperands : TRUE} \cup {BinA("=", Path("abs", <<StP("a", <<Pred("k", L("x"))>>), St("b")>>), L("y"))}}
               \cup {BinA("and", p, BinA("=", Rel1("vmulti"), L("x"))) : p \in PathOperands}
               \cup {BinA("and", BinA("=", Rel1("vmulti"), L("1")), BinA("and", Path("rel", <<StP("a", <<Pred("k", L("x")), Pred("j", Path("cur", <<St("z")>>))>>)>>), Path("abs", <<StP("b", <<Pred("m", L("y"))>>)>>)))}
\* ---- C03 families (precedence, associativity) ----
OpA == N("7", Num(7))
OpB == N("2", Num(2))
OpC == N("3", Num(3))
OpD == N("5", Num(5))
Chain2(x, y, z) == {BinA(o2, BinA(o1, x, y), z) : o1 \in AllOps, o2 \in AllOps} \cup {BinA(o1, x, BinA(o2, y, z)) : o1 \in AllOps, o2 \in AllOps}
Chain2Neg(u_) == {BinA(o2, BinA(o1, NegA(OpA), OpB), OpC) : o1 \in AllOps, o2 \in AllOps}
             \cup {BinA(o1, OpA, BinA(o2, NegA(OpB), OpC)) : o1 \in AllOps, o2 \in AllOps}
             \cup {NegA(BinA(o1, OpA, OpB)) : o1 \in AllOps} \cup {BinA(o1, OpA, NegA(NegA(OpB))) : o1 \in AllOps}
             \cup {NegA(BinA(o2, BinA(o1, OpA, OpB), OpC)) : o1 \in AllOps, o2 \in AllOps}
Chain3(u_) == {BinA(o3, BinA(o2, BinA(o1, OpA, OpB), OpC), OpD) : o1 \in AllOps, o2 \in AllOps, o3 \in AllOps}
          \cup {BinA(o1, OpA, BinA(o2, OpB, BinA(o3, OpC, OpD))) : o1 \in AllOps, o2 \in AllOps, o3 \in AllOps}
          \cup {BinA(o2, BinA(o1, OpA, OpB), BinA(o3, OpC, OpD)) : o1 \in AllOps, o2 \in AllOps, o3 \in AllOps}
          \cup {BinA(o1, OpA, BinA(o3, BinA(o2, OpB, OpC), OpD)) : o1 \in AllOps, o2 \in AllOps, o3 \in AllOps}
          \cup {BinA(o3, BinA(o1, OpA, BinA(o2, OpB, OpC)), OpD) : o1 \in AllOps, o2 \in AllOps, o3 \in AllOps}
MixedOperands == {L("7"), F2A("concat", L("1"), L("2")), Rel1("vnum"), Path("abs", <<St("a"), St("vneg")>>), Fn0A("true"),
                  F1A("string-length", L("abc")), N("0.5", Fin(FALSE, 1, 2)),
                  Path("rel", <<St("..")>>), Path("rel", <<St("vnum"), St("..")>>), Path("rel", <<St(".")>>), Path("cur", << >>),
                  Path("rel", <<StP("a", <<Pred("k", L("x"))>>)>>)}
Chain2Mixed(u_) == UNION {Chain2(x, y, OpC) : x \in MixedOperands, y \in {OpB, Rel1("vnum"), L("2"), Path("rel", <<St("..")>>)}}
                   \cup UNION {Chain2(OpA, x, OpC) \cup Chain2(OpA, OpB, x) : x \in {Path("rel", <<St("..")>>), Path("rel", <<St("a"), St("..")>>), Path("rel", <<St(".")>>)}}

\* union binds tighter than unary minus: only empty node-sets (absent nodes) can be united on this data tree
UnionOpnds == {Rel1("vabs"), Path("abs", <<St("a"), St("vabs")>>)}
UnionChains(u_) ==
  LET U == {BinA("|", x, y) : x \in UnionOpnds, y \in UnionOpnds}
      Z == {Rel1("vabs"), OpB, L("2")}
  IN U \cup {NegA(u) : u \in U} \cup {NegA(NegA(u)) : u \in U}
       \cup {BinA(o, u, z) : o \in AllOps, u \in U, z \in Z} \cup {BinA(o, z, u) : o \in AllOps, u \in U, z \in Z}
       \cup {BinA(o, NegA(u), z) : o \in AllOps, u \in U, z \in Z} \cup {BinA(o, z, NegA(u)) : o \in AllOps, u \in U, z \in Z}
       \cup {BinA("|", u, x) : u \in U, x \in UnionOpnds}
       \cup {BinA(o2, BinA(o1, z, u), OpC) : o1 \in AllOps, o2 \in AllOps, u \in U, z \in {OpB}}
\* the value of a path expression is the value the tree reports for the designated node, whatever its class
PathValues(u_) == {Path(r, pre \o <<St(leaf)>>) : r \in {"abs", "rel", "cur"},
                                                  pre \in {<< >>, <<St("a")>>, <<StP("a", <<Pred("k", L("x"))>>)>>, <<St("..")>>, <<St("b"), St("..")>>},
                                                  leaf \in {"vabs", "vmulti", "vm2", "vone", "vnil", "vempty", "vnum", "vneg", "vtxt"}}
\* names of one character directly after a one-character token (/ . < > @ and friends): the lexer's look-ahead holds the
\* name's only character while the blanks behind it are skipped, so name length is an input dimension of its own
ShortNameOpnds == {Rel1("a"), Path("abs", <<St("a")>>), Path("abs", <<St("a"), St("b")>>), Path("rel", <<St(".."), St("a")>>),
                  Path("rel", <<St("."), St("a")>>), Path("cur", <<St("a")>>)}
ShortNameChains(u_) == UNION {Chain2(x, y, OpC) : x \in ShortNameOpnds, y \in {Rel1("a"), Path("abs", <<St("b")>>), OpB}}
                       \cup UNION {Chain2(OpA, x, y) : x \in ShortNameOpnds, y \in {Rel1("b"), Path("abs", <<St("a")>>)}}
                       \cup {NegA(x) : x \in ShortNameOpnds} \cup {BinA(o, NegA(x), y) : o \in AllOps, x \in ShortNameOpnds, y \in {Rel1("a"), OpB}}
\* argument tuples that coincide when written one after the other with a separator: (x s, y) and (x, s y).  Whatever
\* the library keeps between calls (tables, memos) may not confuse them; each is judged on its own
SepChars == {"|", ",", ":", "/", ";", " ", "=", "-", ".", "+"}
SepBases == {<<"ab", "x">>, <<"a", "b">>, <<"12", "2">>}
SepCollide(u_) ==
  UNION {{F2A(f, L(b[1] \o sp), L(b[2])), F2A(f, L(b[1]), L(sp \o b[2]))} : f \in F2 \ {"re-match"}, sp \in SepChars, b \in SepBases}
  \cup UNION {{F3A("translate", sj, L(b[1] \o sp), L(b[2])), F3A("translate", sj, L(b[1]), L(sp \o b[2])),
              F3A("translate", L(b[1] \o sp), L(b[2]), L("z")), F3A("translate", L(b[1]), L(sp \o b[2]), L("z"))}
             : sj \in {L("ab|a,b:x/1;2 =-.+"), Rel1("vtxt")}, sp \in SepChars, b \in SepBases}
  \cup UNION {{F2A("concat", F2A("concat", L(b[1] \o sp), L(b[2])), L("!")), F2A("concat", F2A("concat", L(b[1]), L(sp \o b[2])), L("!"))}
             : sp \in SepChars, b \in SepBases}
Family(i) ==
  CASE i = 1 -> D1Bin(ArithOps)
    [] i = 2 -> D1Bin({"=", "!="})
    [] i = 3 -> D1Bin({"<", "<=", ">", ">="})
    [] i = 4 -> D1Bin(BoolOps) \cup D1F1(0) \cup TreeLeaves          \* a path as the whole expression: the value the tree reported
    [] i = 5 -> D1F2(0)
    [] i = 6 -> D1F3(0) \cup D1Rx(0)
    [] i = 7 -> D2Conv(0)
    [] i = 8 -> D2OverArith(0)
    [] i = 9 -> D2Bin(ArithOps, 0, 1)
    [] i = 10 -> D2Bin(CmpOps \cup BoolOps, 0, 1)
    [] i = 11 -> PathsBy({"abs", "rel", "cur"}, StepSeqs1(0) \cup PlainSeqs(0))
    [] i = 12 -> PathsBy({"abs", "rel", "cur"}, StepSeqs2(0))
    [] i = 13 -> PathsBy({"abs", "rel"}, StepSeqs3(0)) \cup DerefPaths(0)
    [] i = 14 -> PathExprs(0)
    [] i = 15 -> Chain2(OpA, OpB, OpC) \cup Chain2Neg(0)
    [] i = 16 -> Chain3(0)
    [] i = 17 -> Chain2Mixed(0)
    [] i = 18 -> LLFirst(0)
    [] i = 19 -> UnionChains(0)
    [] i = 20 -> PathValues(0)
    [] i = 21 -> ShortNameChains(0)
    [] i = 22 -> SepCollide(0)
NFamilies == 22
\* families 9 and 10 are big and come in NChunks chunks; the others are chunk 0 only
FamilyC(i, c, C) ==
  IF i = 9 THEN D2Bin(ArithOps, c, C) ELSE IF i = 10 THEN D2Bin(CmpOps \cup BoolOps, c, C)
  ELSE IF c = 0 THEN Family(i) ELSE {}


\* ---- TLC-sampled deeper ASTs (family 100): RandomElement draws, seeded by -seed ----
RLeaves == NumLeaves \cup SmallStrs \cup BoolLeaves \cup TreeLeaves \cup Specials
RECURSIVE RandScalar(_)
RandScalar(d) ==
  IF d = 0 THEN RandomElement(RLeaves)
  ELSE LET k == RandomElement(1..12) IN
       CASE k <= 4 -> BinA(RandomElement(AllOps), RandScalar(d - 1), RandScalar(d - 1))
         [] k = 5 -> NegA(RandScalar(d - 1))
         [] k \in {6, 7} -> F1A(RandomElement(F1), RandScalar(d - 1))
         [] k = 8 -> F2A(RandomElement(F2), RandScalar(d - 1), RandScalar(d - 1))
         [] k = 9 -> F3A("substring", RandScalar(d - 1), RandScalar(d - 1), RandScalar(d - 1))
         [] k = 10 -> F3A("translate", RandScalar(d - 1), RandomElement(SmallStrs), RandomElement(SmallStrs))
         [] OTHER -> RandomElement(RLeaves)
RECURSIVE RandSteps(_)
RandOpnd == LET k == RandomElement(1..3) IN IF k = 1 THEN RandomElement(OpndScalars) ELSE RandomElement(OpndPaths(0))
RandPreds == LET k == RandomElement(1..6) IN
             CASE k <= 3 -> << >>
               [] k = 4 -> <<Pred(RandomElement({"j", "k", "kk", "m"}), RandOpnd)>>
               [] k = 5 -> <<Pred("k", RandOpnd), Pred("j", RandOpnd)>>
               [] OTHER -> <<Pred("m", RandOpnd), Pred("j", RandOpnd), Pred("kk", RandOpnd)>>
RandStep == LET k == RandomElement(1..5) IN
            IF k = 1 THEN St("..") ELSE IF k = 2 THEN StX("p", RandomElement({"a", "b", "c"})) ELSE StP(RandomElement({"a", "b", "c", "vnum", "vmulti", "vabs"}), RandPreds)
RandSteps(n) == IF n = 0 THEN << >> ELSE <<RandStep>> \o RandSteps(n - 1)
RandPath == LET k == RandomElement(1..7) IN
            IF k = 7 THEN Deref(Path(RandomElement({"abs", "rel", "cur"}), RandSteps(RandomElement(1..3))), RandSteps(RandomElement(0..3)))
            ELSE Path(RandomElement({"abs", "rel", "cur"}), RandSteps(RandomElement(1..8)))
RECURSIVE RandOps(_)
RandOps(d) == IF d = 0 THEN RandomElement({OpA, OpB, OpC, OpD, L("7"), Rel1("vnum"), Fn0A("true"), F1A("string-length", L("abc")), N("0.5", Fin(FALSE, 1, 2))})
              ELSE LET k == RandomElement(1..8) IN
                   IF k = 1 THEN NegA(RandOps(d - 1)) ELSE IF k = 2 THEN RandOps(0)
                   ELSE BinA(RandomElement(AllOps), RandOps(d - 1), RandOps(d - 1))
RandPathExpr == LET k == RandomElement(1..4) IN
                IF k = 1 THEN BinA(RandomElement({"=", "!=", "<", "and", "or", "+"}), RandPath, RandPath)
                ELSE IF k = 2 THEN F1A(RandomElement({"string", "boolean", "not", "string-length"}), RandPath) ELSE RandPath
RandFamily(kind, n) ==
  {(CASE kind = "scalar" -> RandScalar(RandomElement(2..5))
      [] kind = "path" -> RandPathExpr
      [] kind = "ops" -> RandOps(RandomElement(2..5))) : i \in 1..n}
=============================================================================
