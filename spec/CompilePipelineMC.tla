-------------------------- MODULE CompilePipelineMC --------------------------
(* Exhaustive model: every instance of the chosen chunks is run through the
   mechanism in every order of every loop.  One initial state per chunk (so that
   all TLC workers are used); the first step picks the instance.              *)
EXTENDS CompileSets
CONSTANTS Size, Only, Positions     \* Size "s" | "l"; Only = {} (all chunks) or a set of family names
VARIABLE chunk
MCChunks == {c \in Chunks(Size) : Only = {} \/ c[1] \in Only}
MCInit == /\ chunk \in MCChunks /\ phase = "pick" /\ inst = Base /\ todo = {} /\ order = << >> /\ pos = 1
          /\ trees = << >> /\ out = [verdict |-> "none", schema |-> {}]
\* Spelling does not enter meaning or mechanism, and the positions of typedef / identity / feature references only
\* rename or re-kind single nodes: the model explores one spelling and, for those kinds, the leaf position; grouping
\* positions (which decide where nodes land and which sibling names clash) are all explored.
MCRelevant(J) == /\ J.spell = "u" /\ (J.fam \in {"typedef", "identity", "feature"} => J.rpos = "leaf")
                 /\ \A d \in J.defs : d.pos \in Positions
                 /\ (Len(J.shape) > 4 /\ SubSeq(J.shape, 1, 4) = "twin" => J.rpos \in {"container", "leaf"})   \* twins: first position pair
Pick == /\ phase = "pick" /\ UNCHANGED chunk
        /\ \E I \in {J \in Chunk(chunk) : MCRelevant(J)} : PStart(I)
MCNext == Pick \/ (phase # "pick" /\ PNext /\ UNCHANGED chunk) \/ (Done /\ UNCHANGED <<pvars, chunk>>)
MCSpec == MCInit /\ [][MCNext]_<<pvars, chunk>>
MCProgress == [][phase # "pick" => Measure' < Measure]_<<pvars, chunk>>
=============================================================================
