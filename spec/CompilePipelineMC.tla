-------------------------- MODULE CompilePipelineMC --------------------------
(* Exhaustive model: every instance of the chosen chunks is run through the
   mechanism in every order of every loop.  One initial state per chunk (so that
   all TLC workers are used); the first step picks the instance.              *)
EXTENDS CompileSets
CONSTANTS Size, Only     \* Size "s" | "l"; Only = {} (all chunks) or a set of family names
VARIABLE chunk
MCChunks == {c \in Chunks(Size) : Only = {} \/ c[1] \in Only}
MCInit == /\ chunk \in MCChunks /\ phase = "pick" /\ inst = Base /\ todo = {} /\ order = << >> /\ pos = 1
          /\ trees = << >> /\ out = [verdict |-> "none", schema |-> {}]
Pick == /\ phase = "pick" /\ UNCHANGED chunk
        /\ \E I \in {J \in Chunk(chunk) : J.spell = "u"} : PStart(I)     \* (spelling does not enter meaning or mechanism)
MCNext == Pick \/ (phase # "pick" /\ PNext /\ UNCHANGED chunk) \/ (Done /\ UNCHANGED <<pvars, chunk>>)
MCSpec == MCInit /\ [][MCNext]_<<pvars, chunk>>
MCProgress == [][phase # "pick" => Measure' < Measure]_<<pvars, chunk>>
=============================================================================
