--------------------------- MODULE PathEvalUtilGen ---------------------------
(* Enumerates the inputs of the xutils helpers with the results PathEvalUtil prescribes, and checks on
   every enumerated input the design properties that relate mechanism and meaning (a failure is a TLC error):
     P1  well-formed expression  =>  repaired mechanism = meaning
     P2  well-formed expression with at most one predicate  =>  code's mechanism = meaning   (U1 is the only gap)
     P3  a path without empty elements other than the root: PTString(NewPathType(s)) = TrimSpace(s), and
         SpacedString has the elements separated by single blanks
     P4  FindNodeMech = FindNodeIntent whenever a node has the reference (U3 is the only gap)
   Kinds: "toks" all token sequences to MaxToks tokens over Alpha (one chunk per first token);
          "wf" longer well-formed expressions; "filter"; "warn"; "ref".                              *)
EXTENDS PathEvalUtil, Json, SequencesExt
CONSTANTS Kinds, MaxToks, WfMax
VARIABLES kind, part, done

Alpha == <<"/", "..", ".", "a", "b", "p:", "[k='v']", "[j=current()/../v]", "current()", " ", "../">>
CurPaths == {<<"/", "x", "y", "leaf", "val">>, <<"/", "leaf", "val">>, <<"/", "val">>, << >>}
SeqsFrom(first, maxlen) == LET A == {Alpha[i] : i \in 1..Len(Alpha)} IN UNION {{<<first>> \o s : s \in [1..n -> A]} : n \in 0..(maxlen - 1)}
NoEmpty(p) == \A i \in 1..Len(p) : p[i] # "" /\ (i > 1 => p[i] # "/")
AbsVec(k, ts, cur) ==
  LET s == Concat(ts)
      px == ParsePathExpr(ts)
      mech == GetAbsPath(s, cur, FALSE)
      fixed == GetAbsPath(s, cur, TRUE)
      intent == IF px.ok THEN AbsPathIntent(px, cur) ELSE << >>
      npt == NewPathType(s)
      ok == /\ Assert(px.ok => fixed = intent, <<"P1", s, cur>>)
            /\ Assert((px.ok /\ NPreds(ts) <= 1) => mech = intent, <<"P2", s, cur>>)
            /\ Assert((NoEmpty(npt) /\ npt # <<"/">>) => PTString(npt) = TrimSpace(s), <<"P3", s>>)
  IN [kind |-> k, expr |-> s, cur |-> cur, wf |-> px.ok /\ ok, npreds |-> NPreds(ts), mech |-> mech, fixed |-> fixed, intent |-> intent,
      npt |-> npt, str |-> PTString(npt), spaced |-> SpacedString(npt),
      uniq |-> UniqueString([loc |-> "m.yang:7", test |-> s], TRUE), uniqRaw |-> UniqueString([loc |-> "m.yang:7", test |-> s], FALSE)]
\* longer well-formed expressions
WfNames == {<<"a">>, <<"p:", "a">>, <<"a", "[k='v']">>, <<"q:", "b", "[j=current()/../v]">>, <<"p:", "b", "[k='v']", "[j=current()/../v]">>,
            <<"b", "[k='v']", "[k='v']", "[k='v']">>}
RECURSIVE Slashed(_)
Slashed(ns) == IF Len(ns) = 1 THEN ns[1] ELSE ns[1] \o <<"/">> \o Slashed(Tail(ns))
WfNameSeqs == {<<x>> : x \in WfNames} \cup {<<x, y>> : x \in WfNames, y \in WfNames} \cup (IF WfMax < 3 THEN {} ELSE {<<x, y, z>> : x \in WfNames, y \in WfNames, z \in WfNames})
RECURSIVE Ups(_)
Ups(k) == IF k = 0 THEN << >> ELSE <<"..", "/">> \o Ups(k - 1)
WfExprs == {<<"/">> \o Slashed(ns) : ns \in WfNameSeqs} \cup {Ups(k) \o Slashed(ns) : k \in 1..4, ns \in WfNameSeqs}

\* MatchFilter
Spaces == {"", "s", "t"}
FilterVecs == {[kind |-> "filter", f |-> f, t |-> t, want |-> MatchFilter(f, t),
                 fcfg |-> f.on = "config", tcfg |-> t.tt = "config", topd |-> t.tt = "opd"] :      \* MatchConfigOnly, IsConfig, IsOpd
                 f \in [space : Spaces, local : {"*", "a", "b"}, on : {"full", "config", "opd"}],
                 t \in [space : Spaces, local : {"a", "b", "*"}, tt : {"none", "config", "opd"}]}
\* Warning.Match
Strs == {"", "x", "xy"}
WarnPool == {[typ |-> 1, node |-> "x", stmt |-> "xy", loc |-> "x", test |-> "p:a/q:b", dbg |-> "xy"],
             [typ |-> 3, node |-> "", stmt |-> "x", loc |-> "xy", test |-> "", dbg |-> ""],
             [typ |-> 0, node |-> "xy", stmt |-> "", loc |-> "", test |-> "x", dbg |-> "x"]}
ExpPool == [typ : {0, 1, 3}, node : Strs, stmt : Strs, loc : Strs, test : {"", "x", "p:a/q:b"}, dbg : Strs]
WarnVecs == {[kind |-> "warn", w |-> w, e |-> e, exact |-> MatchW(w, e, TRUE), loose |-> MatchW(w, e, FALSE)] : w \in WarnPool, e \in ExpPool}
TypeSeqs == UNION {[1..n -> 0..7] : n \in 0..3}
NPVecs == {[kind |-> "np", types |-> ts, want |-> [i \in 1..Len(RemoveNP([j \in 1..Len(ts) |-> [typ |-> ts[j]]])) |-> RemoveNP([j \in 1..Len(ts) |-> [typ |-> ts[j]]])[i].typ]] : ts \in TypeSeqs}

\* NodeRef: data trees numbered in document order
K(k, v) == <<k, v>>
Nd(p, n, ks) == [parent |-> p, name |-> n, keys |-> ks]
Tree1 == <<Nd(0, "root", << >>),
           Nd(1, "l", <<K("k", "1")>>), Nd(2, "k", << >>), Nd(2, "v", << >>),
           Nd(1, "l", <<K("k", "2")>>), Nd(5, "k", << >>), Nd(5, "c", << >>), Nd(7, "v", << >>),
           Nd(1, "ll", << >>), Nd(1, "ll", << >>),
           Nd(1, "m", <<K("a", "1"), K("b", "x y")>>), Nd(11, "v", << >>)>>
Tree2 == <<Nd(0, "root", << >>), Nd(1, "c", << >>), Nd(2, "c", << >>), Nd(3, "c", << >>), Nd(1, "d", <<K("k", "")>>)>>
Trees == <<Tree1, Tree2>>
RefsOf(tree) == LET own == {RefOf(tree, i) : i \in 1..Len(tree)} IN
                own \cup {SubSeq(r, 1, Len(r) - 1) \o <<[r[Len(r)] EXCEPT !.name = "zz"]>> : r \in own \ {<< >>}}
                    \cup {SubSeq(r, 1, Len(r) - 1) \o <<[r[Len(r)] EXCEPT !.keys = <<K("k", "9")>>]>> : r \in own \ {<< >>}}
                    \cup {Append(r, [name |-> "v", keys |-> << >>]) : r \in own}
RefVecs == UNION {{LET tree == Trees[t]  fi == FindNodeIntent(tree, s, r)  fm == FindNodeMech(tree, s, r)
                       ok == Assert(fi # 0 => fm = fi, <<"P4", t, s, r>>) IN
                   [kind |-> "ref", tree |-> tree, start |-> s, ref |-> r, refstr |-> RefStr(r), intent |-> fi, mech |-> fm, ok |-> ok,
                    startRef |-> RefStr(RefOf(tree, s)), eq |-> RefEqual(RefOf(tree, s), r)] : s \in 1..Len(Trees[t]), r \in RefsOf(Trees[t])} : t \in 1..Len(Trees)}

Parts == [k \in {"toks", "wf", "filter", "warn", "ref"} |-> IF k = "toks" THEN Len(Alpha) ELSE 1]
GInit == kind \in Kinds /\ part \in 1..Len(Alpha) /\ part <= Parts[kind] /\ done = FALSE
Out(S) == S = {} \/ ndJsonSerialize("uvec_" \o kind \o "_" \o ToString(part) \o ".ndjson", SetToSeq(S))
GNext == /\ ~done /\ done' = TRUE /\ UNCHANGED <<kind, part>>
         /\ CASE kind = "toks" -> Out({AbsVec("abs", ts, cur) : ts \in SeqsFrom(Alpha[part], MaxToks), cur \in CurPaths})
              [] kind = "wf" -> Out({AbsVec("abs", ts, cur) : ts \in WfExprs, cur \in CurPaths})
              [] kind = "filter" -> Out(FilterVecs)
              [] kind = "warn" -> Out(WarnVecs \cup NPVecs)
              [] kind = "ref" -> Out(RefVecs)
=============================================================================
