INIT MCInit
NEXT MCNext
CONSTANT SortMode = "topo"
CONSTANT Size = "s"
CONSTANT Positions = {"direct", "container", "list", "choice", "augment", "inner", "union"}
CONSTANT Only = {}
INVARIANT Confluent
PROPERTY MCProgress
CHECK_DEADLOCK TRUE
