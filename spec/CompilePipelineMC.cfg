INIT MCInit
NEXT MCNext
CONSTANT SortMode = "topo"
CONSTANT Size = "s"
CONSTANT Only = {}
INVARIANT Confluent
PROPERTY MCProgress
CHECK_DEADLOCK TRUE
