------------------------------ MODULE YangTypes ------------------------------
(* YANG type system (RFC 6020 section 9, 7.3.4, 7.6.4) as operators, no variables.

   * All text that matters character-wise (lexemes, defaults, range/length bound
     texts, pattern texts, enum names) is a sequence of Unicode code points.
   * 64-bit and decimal quantities are Num records [neg, d]: sign + sequence of
     decimal digits without leading zeros (TLC integers are 32 bit); decimal64
     values are scaled by 10^fraction-digits and compared exactly.
   * A chain is what a YANG author writes: a built-in type name and a sequence
     of levels; level 1 is the `type <builtin> {...}` statement of the
     innermost typedef (with that typedef's default), every further level is a
     `type <previous typedef> {...}` of the next typedef outwards, the last
     level is the leaf's own type statement with the leaf's default.
   * CompileChain gives the compile verdict RFC 6020 prescribes (restrictions must
     narrow, be ordered and disjoint, be of a kind that applies, defaults must
     be values of the type at their level) and the compiled type; Accepts(t, v)
     is the value space; Viol gives the restrictions a rejected value violates
     (for the custom error-message / error-app-tag of the rejection).           *)
EXTENDS Integers, Sequences, FiniteSets, TLC

\* ------------------------------------------------------------------ text
Printable == " !\"#$%&'()*+,-./0123456789:;<=>?@ABCDEFGHIJKLMNOPQRSTUVWXYZ[\\]^_`abcdefghijklmnopqrstuvwxyz{|}~"
CpTab == [i \in 1..Len(Printable) |-> SubSeq(Printable, i, i)]
CpOf == [c \in {CpTab[i] : i \in 1..Len(Printable)} |-> 31 + (CHOOSE i \in 1..Len(Printable) : CpTab[i] = c)]
\* ASCII string constant -> code points
T(s) == [i \in 1..Len(s) |-> CpOf[SubSeq(s, i, i)]]
MinT == <<109, 105, 110>>
MaxT == <<109, 97, 120>>
SetMax(S) == CHOOSE x \in S : \A y \in S : y <= x
SetMin(S) == CHOOSE x \in S : \A y \in S : x <= y
RangeOf(s) == {s[i] : i \in 1..Len(s)}

\* ------------------------------------------------------------------ numbers
Strip(d) == LET nz == {i \in 1..Len(d) : d[i] # 0} IN
            IF nz = {} THEN <<0>> ELSE SubSeq(d, SetMin(nz), Len(d))
Mk(neg, d) == LET s == Strip(d) IN [neg |-> neg /\ s # <<0>>, d |-> s]
Zero == [neg |-> FALSE, d |-> <<0>>]
MagLt(a, b) == IF Len(a) # Len(b) THEN Len(a) < Len(b)
               ELSE \E i \in 1..Len(a) : a[i] < b[i] /\ \A j \in 1..(i - 1) : a[j] = b[j]
Lt(x, y) == CASE x.neg /\ ~y.neg -> TRUE
              [] ~x.neg /\ y.neg -> FALSE
              [] x.neg /\ y.neg -> MagLt(y.d, x.d)
              [] OTHER -> MagLt(x.d, y.d)
Le(x, y) == x = y \/ Lt(x, y)
MagInc(d) == LET n9 == {i \in 1..Len(d) : d[i] # 9} IN
             IF n9 = {} THEN <<1>> \o [i \in 1..Len(d) |-> 0]
             ELSE LET k == SetMax(n9) IN [i \in 1..Len(d) |-> IF i < k THEN d[i] ELSE IF i = k THEN d[i] + 1 ELSE 0]
MagDec(d) == LET k == SetMax({i \in 1..Len(d) : d[i] # 0}) IN      \* d > 0
             Strip([i \in 1..Len(d) |-> IF i < k THEN d[i] ELSE IF i = k THEN d[i] - 1 ELSE 9])
Inc(x) == IF x.neg THEN Mk(TRUE, MagDec(x.d)) ELSE Mk(FALSE, MagInc(x.d))
Dec(x) == IF x.neg THEN Mk(TRUE, MagInc(x.d)) ELSE IF x.d = <<0>> THEN Mk(TRUE, <<1>>) ELSE Mk(FALSE, MagDec(x.d))
Neg(x) == Mk(~x.neg, x.d)
RECURSIVE NatDigits(_)
NatDigits(n) == IF n < 10 THEN <<n>> ELSE NatDigits(n \div 10) \o <<n % 10>>
Nat2Num(n) == Mk(FALSE, NatDigits(n))
Zeros(k) == [i \in 1..k |-> 0]

IsDigit(c) == c \in 48..57
AllDigits(s) == Len(s) > 0 /\ \A i \in 1..Len(s) : IsDigit(s[i])
DigitsOf(s) == [i \in 1..Len(s) |-> s[i] - 48]
Signed(v) == Len(v) > 0 /\ v[1] \in {43, 45}
Body(v) == IF Signed(v) THEN SubSeq(v, 2, Len(v)) ELSE v
NoNum == [ok |-> FALSE, v |-> Zero]
\* RFC 6020 9.2.1: optional sign, then a sequence of decimal digits
ParseInt(v) == IF AllDigits(Body(v)) THEN [ok |-> TRUE, v |-> Mk(Signed(v) /\ v[1] = 45, DigitsOf(Body(v)))] ELSE NoNum
\* RFC 6020 9.3.1: optional sign, digits, optionally "." and digits; value scaled by 10^fd
ParseDec(v, fd) ==
  LET b == Body(v)
      dots == {i \in 1..Len(b) : b[i] = 46}
  IN IF dots = {} THEN (IF AllDigits(b) THEN [ok |-> TRUE, v |-> Mk(Signed(v) /\ v[1] = 45, DigitsOf(b) \o Zeros(fd))] ELSE NoNum)
     ELSE IF Cardinality(dots) > 1 THEN NoNum
     ELSE LET p == SetMin(dots)
              ip == SubSeq(b, 1, p - 1)
              fp == SubSeq(b, p + 1, Len(b))
          IN IF AllDigits(ip) /\ AllDigits(fp) /\ Len(fp) <= fd
             THEN [ok |-> TRUE, v |-> Mk(Signed(v) /\ v[1] = 45, DigitsOf(ip) \o DigitsOf(fp) \o Zeros(fd - Len(fp)))]
             ELSE NoNum
\* canonical texts
ShowNum(x) == (IF x.neg THEN <<45>> ELSE << >>) \o [i \in 1..Len(x.d) |-> x.d[i] + 48]
ShowDec(x, fd) == LET d == (IF Len(x.d) < fd + 1 THEN Zeros(fd + 1 - Len(x.d)) ELSE << >>) \o x.d
                      n == Len(d)
                  IN (IF x.neg THEN <<45>> ELSE << >>) \o [i \in 1..(n - fd) |-> d[i] + 48] \o <<46>> \o [i \in 1..fd |-> d[n - fd + i] + 48]
\* integer constant from an ASCII string
N(s) == ParseInt(T(s)).v
\* range-boundary texts judged here: "-"? ("0" | nonzero digit, digits) and the same with "." digits
CanonInt(v) == LET b == IF Len(v) > 0 /\ v[1] = 45 THEN SubSeq(v, 2, Len(v)) ELSE v IN AllDigits(b) /\ (Len(b) = 1 \/ b[1] # 48)
CanonDec(v, fd) == LET dots == {i \in 1..Len(v) : v[i] = 46} IN
                   IF dots = {} THEN CanonInt(v)
                   ELSE Cardinality(dots) = 1 /\ CanonInt(SubSeq(v, 1, SetMin(dots) - 1)) /\ ParseDec(v, fd).ok

\* ------------------------------------------------------------------ built-in types
SIntKinds == {"int8", "int16", "int32", "int64"}
UIntKinds == {"uint8", "uint16", "uint32", "uint64"}
IntKinds == SIntKinds \cup UIntKinds
NumKinds == IntKinds \cup {"decimal64"}
Kinds == NumKinds \cup {"string", "enumeration", "boolean", "empty", "union", "identityref"}
Part(lo, hi) == [lo |-> lo, hi |-> hi]
Width == [int8 |-> Part(N("-128"), N("127")), int16 |-> Part(N("-32768"), N("32767")),
          int32 |-> Part(N("-2147483648"), N("2147483647")), int64 |-> Part(N("-9223372036854775808"), N("9223372036854775807")),
          uint8 |-> Part(N("0"), N("255")), uint16 |-> Part(N("0"), N("65535")),
          uint32 |-> Part(N("0"), N("4294967295")), uint64 |-> Part(N("0"), N("18446744073709551615"))]
\* decimal64: the scaled value is a 64-bit signed integer whatever fraction-digits is
WidthOf(k) == IF k = "decimal64" THEN Width.int64 ELSE Width[k]
\* "max" of an unrestricted string length (RFC 6020 leaves the maximum to the implementation; only used as "larger than any probe")
MaxLen == N("18446744073709551615")
ImplMaxLen == N("4294967295")
KindClass(k) == IF k \in SIntKinds THEN "int" ELSE IF k \in UIntKinds THEN "uint" ELSE k

InParts(x, parts) == \E i \in 1..Len(parts) : Le(parts[i].lo, x) /\ Le(x, parts[i].hi)

\* ------------------------------------------------------------------ restrictions
\* a part specification is [lo, hi, single]: texts "min" | "max" | number
Bound(txt, base, P(_), C(_)) ==
  IF txt = MinT THEN [ok |-> TRUE, v |-> base[1].lo]
  ELSE IF txt = MaxT THEN [ok |-> TRUE, v |-> base[Len(base)].hi]
  ELSE IF C(txt) THEN P(txt) ELSE NoNum
\* a new part may lie in one base part or, where the values are whole numbers,
\* span base parts that leave no value out (RFC 6020 9.2.4: equal or more limiting)
Covered(p, base, contig) ==
  \E i \in 1..Len(base) : \E j \in i..Len(base) :
     /\ Le(base[i].lo, p.lo) /\ Le(p.hi, base[j].hi)
     /\ \A k \in i..(j - 1) : contig /\ Inc(base[k].hi) = base[k + 1].lo
\* Narrow: [syn (bound texts understood), ok, why, parts]
Narrow(spec, base, P(_), C(_), contig) ==
  LET lo == [i \in 1..Len(spec) |-> Bound(spec[i].lo, base, P, C)]
      hi == [i \in 1..Len(spec) |-> Bound(spec[i].hi, base, P, C)]
      syn == \A i \in 1..Len(spec) : lo[i].ok /\ hi[i].ok
      parts == [i \in 1..Len(spec) |-> Part(lo[i].v, hi[i].v)]
      n == Len(parts)
      why == IF \E i \in 1..n : Lt(parts[i].hi, parts[i].lo) THEN "part-descending"
             ELSE IF \E i \in 1..(n - 1) : ~Lt(parts[i].hi, parts[i + 1].lo) THEN "parts-unordered-or-overlapping"
             ELSE IF \E i \in 1..n : ~Covered(parts[i], base, contig) THEN "not-narrowing"
             ELSE "ok"
  IN [syn |-> syn, ok |-> syn /\ why = "ok", why |-> IF syn THEN why ELSE "bound-syntax", parts |-> parts]

\* ------------------------------------------------------------------ patterns (subset common to XSD and RE2)
\* re: [op, c, neg, rs, kids, m, n];  op in lit | dot | cls | cat | alt | rep (n = -1: unbounded)
ReLit(c) == [op |-> "lit", c |-> c, neg |-> FALSE, rs |-> << >>, kids |-> << >>, m |-> 0, n |-> 0]
ReDot == [ReLit(0) EXCEPT !.op = "dot"]
ReCls(neg, rs) == [ReLit(0) EXCEPT !.op = "cls", !.neg = neg, !.rs = rs]
ReCat(kids) == [ReLit(0) EXCEPT !.op = "cat", !.kids = kids]
ReAlt(kids) == [ReLit(0) EXCEPT !.op = "alt", !.kids = kids]
ReRep(k, m, n) == [ReLit(0) EXCEPT !.op = "rep", !.kids = <<k>>, !.m = m, !.n = n]
InCls(c, rs) == \E i \in 1..Len(rs) : rs[i][1] <= c /\ c <= rs[i][2]
RECURSIVE Ends(_, _, _), EndsCat(_, _, _, _), EndsRep(_, _, _, _, _)
\* Ends(re, s, i): the positions j such that re matches s[i..j-1]
Ends(re, s, i) ==
  CASE re.op = "lit" -> IF i <= Len(s) /\ s[i] = re.c THEN {i + 1} ELSE {}
    [] re.op = "dot" -> IF i <= Len(s) /\ s[i] \notin {10, 13} THEN {i + 1} ELSE {}
    [] re.op = "cls" -> IF i <= Len(s) /\ (InCls(s[i], re.rs) # re.neg) THEN {i + 1} ELSE {}
    [] re.op = "cat" -> EndsCat(re.kids, 1, s, {i})
    [] re.op = "alt" -> UNION {Ends(re.kids[k], s, i) : k \in 1..Len(re.kids)}
    [] re.op = "rep" -> EndsRep(re.kids[1], s, {i}, 0, re)
    [] OTHER -> {}
EndsCat(kids, k, s, S) == IF k > Len(kids) \/ S = {} THEN S ELSE EndsCat(kids, k + 1, s, UNION {Ends(kids[k], s, j) : j \in S})
\* S = positions reachable after cnt iterations
EndsRep(kid, s, S, cnt, re) ==
  LET here == IF cnt >= re.m THEN S ELSE {}
      last == IF re.n >= 0 THEN re.n ELSE re.m + Len(s) + 1
  IN IF cnt >= last \/ S = {} THEN here
     ELSE here \cup EndsRep(kid, s, UNION {Ends(kid, s, j) : j \in S}, cnt + 1, re)
\* YANG patterns are implicitly anchored at both ends (XSD regular expressions)
FullMatch(re, s) == (Len(s) + 1) \in Ends(re, s, 1)
\* pattern text
RECURSIVE PatText(_), PatCat(_, _)
Atomic(re) == re.op \in {"lit", "dot", "cls"}
Paren(re) == IF Atomic(re) THEN PatText(re) ELSE <<40>> \o PatText(re) \o <<41>>
PatCat(kids, k) == IF k > Len(kids) THEN << >>
                   ELSE (IF kids[k].op = "alt" THEN Paren(kids[k]) ELSE PatText(kids[k])) \o PatCat(kids, k + 1)
RECURSIVE PatAlt(_, _)
PatAlt(kids, k) == IF k > Len(kids) THEN << >> ELSE (IF k > 1 THEN <<124>> ELSE << >>) \o PatText(kids[k]) \o PatAlt(kids, k + 1)
RECURSIVE ClsText(_, _)
\* inside a bracket expression \ ] [ - ^ are written escaped (single character escapes of XSD, literals in RE2);
\* ( ) | $ . * + ? { } are ordinary characters there
ClsCh(c) == IF c \in {92, 93, 91, 45, 94} THEN <<92, c>> ELSE <<c>>
ClsText(rs, k) == IF k > Len(rs) THEN << >>
                  ELSE (IF rs[k][1] = rs[k][2] THEN ClsCh(rs[k][1]) ELSE ClsCh(rs[k][1]) \o <<45>> \o ClsCh(rs[k][2])) \o ClsText(rs, k + 1)
\* outside brackets the metacharacters ( ) | \ . * + ? [ ] { } ^ are written escaped
MetaChars == {40, 41, 124, 92, 46, 42, 43, 63, 91, 93, 123, 125, 94}
PatText(re) ==
  CASE re.op = "lit" -> IF re.c \in MetaChars THEN <<92, re.c>> ELSE <<re.c>>
    [] re.op = "dot" -> <<46>>
    [] re.op = "cls" -> <<91>> \o (IF re.neg THEN <<94>> ELSE << >>) \o ClsText(re.rs, 1) \o <<93>>
    [] re.op = "cat" -> PatCat(re.kids, 1)
    [] re.op = "alt" -> PatAlt(re.kids, 1)
    [] re.op = "rep" -> Paren(re.kids[1]) \o
         (CASE re.m = 0 /\ re.n = -1 -> <<42>>
            [] re.m = 1 /\ re.n = -1 -> <<43>>
            [] re.m = 0 /\ re.n = 1 -> <<63>>
            [] re.n = -1 -> <<123>> \o ShowNum(Nat2Num(re.m)) \o <<44, 125>>
            [] re.m = re.n -> <<123>> \o ShowNum(Nat2Num(re.m)) \o <<125>>
            [] OTHER -> <<123>> \o ShowNum(Nat2Num(re.m)) \o <<44>> \o ShowNum(Nat2Num(re.n)) \o <<125>>)
    [] OTHER -> << >>

\* ------------------------------------------------------------------ identities
\* idents: sequence of [m, n, bm, bn] (module, name, base module, base name; bm = "" for none); names are ASCII strings
RECURSIVE IdClosure(_, _)
IdClosure(ids, S) == LET S2 == S \cup {x \in ids : \E y \in S : x.bm = y.m /\ x.bn = y.n} IN IF S2 = S THEN S ELSE IdClosure(ids, S2)
\* the identities derived (in one or more steps) from base bm:bn; the base itself is not one of them
Derived(idents, bm, bn) == LET ids == RangeOf(idents) IN IdClosure(ids, {x \in ids : x.bm = bm /\ x.bn = bn})
\* lexical form used by this API: the bare name for an identity of the leaf's module, module:name otherwise
IdLex(x, mod) == IF x.m = mod THEN T(x.n) ELSE T(x.m) \o <<58>> \o T(x.n)
\* forms left unjudged: own-module identity written with its module name, foreign identity written bare
IdUnjudged(x, mod) == IF x.m = mod THEN T(x.m) \o <<58>> \o T(x.n) ELSE T(x.n)

\* ------------------------------------------------------------------ chains and compiled types
NoId == [m |-> "", n |-> ""]
\* a level with nothing in it
Lv0 == [fd |-> 0, enums |-> << >>, members |-> << >>, idbase |-> NoId,
        rng |-> << >>, rmsg |-> "", rtag |-> "", len |-> << >>, lmsg |-> "", ltag |-> "",
        pats |-> << >>, hasDef |-> FALSE, def |-> << >>]
\* lay: where the typedefs are written ("top": module level, "local": inside the container of the leaf, "xmod": the
\* innermost typedef in module a, the leaf in module b; "xm-s-naming-spelling": the s innermost typedefs in module a,
\* the others in module b, typedefs of the two modules with the same / mirrored / different local names, references
\* inside a module bare or with the module's own prefix) - the meaning of a chain does not depend on it: a chain is
\* a sequence of DISTINCT typedefs whatever they are called, so it always ends in its built-in type
\* mod: the module the leaf BELONGS to (whose statements put the node into the data tree: the module that uses a
\* grouping, that augments, that a submodule belongs to) - not necessarily the file the leaf statement is written in
\* ctx: what the leaf statement carries besides its type and where it stands (see LeafCtxs) - the type of a leaf,
\* the compile verdict on its type statement and on the defaults along its chain do not depend on it
Chain(k, levels) == [k |-> k, mod |-> "a", lay |-> "top", ctx |-> "plain", idents |-> << >>, levels |-> levels]
\* leaf contexts: mandatory / config / status / if-feature (feature enabled) on the leaf itself; the leaf inside a
\* choice (explicit case, shorthand case, the default case), in a list entry (not a key), in a presence container,
\* defined in a grouping and brought in by uses, made mandatory by a refine of that uses;
\* the leaf statement written in another file than the module the leaf belongs to: in a grouping of module a used by
\* module b (directly, through a second grouping, inside a container of the grouping), in an augment statement (the
\* leaf lands in the container of module a and belongs to the augmenting module), in a submodule of its module (in a
\* container of the submodule, or in a grouping of the submodule used by the module)
ForeignCtxs == {"uses-foreign", "uses-foreign-mandatory", "uses-foreign-nested", "uses-foreign-container"}
ElsewhereCtxs == ForeignCtxs \cup {"augment", "submodule", "submodule-uses"}
LeafCtxs == {"plain", "mandatory", "config-false", "state-mandatory", "deprecated", "obsolete", "if-feature", "mandatory-if-feature",
             "case", "short-case", "case-mandatory", "default-case", "list", "list-mandatory", "presence", "presence-mandatory",
             "uses", "uses-mandatory", "refine-mandatory"} \cup ElsewhereCtxs
MandatoryCtx(c) == c \in {"mandatory", "state-mandatory", "mandatory-if-feature", "case-mandatory", "list-mandatory", "presence-mandatory",
                          "uses-mandatory", "refine-mandatory", "uses-foreign-mandatory"}
\* compiled type
CT0(k) == [k |-> k, fd |-> 0, parts |-> (IF k \in NumKinds THEN <<WidthOf(k)>> ELSE << >>), rl |-> << >>, lparts |-> <<Part(Zero, MaxLen)>>, ll |-> << >>, pats |-> << >>,
           enums |-> << >>, acc |-> {}, unj |-> {}, members |-> << >>, sub |-> FALSE, hasDef |-> FALSE, def |-> << >>]
Res(ok, j, why, t) == [ok |-> ok, j |-> j, why |-> why, t |-> t]

RECURSIVE Accepts(_, _)
Accepts(t, v) ==
  CASE t.k \in IntKinds -> LET p == ParseInt(v) IN p.ok /\ InParts(p.v, <<WidthOf(t.k)>>) /\ \A i \in 1..Len(t.rl) : InParts(p.v, t.rl[i].parts)
    [] t.k = "decimal64" -> LET p == ParseDec(v, t.fd) IN p.ok /\ InParts(p.v, <<WidthOf(t.k)>>) /\ \A i \in 1..Len(t.rl) : InParts(p.v, t.rl[i].parts)
    [] t.k = "string" -> /\ \A i \in 1..Len(t.ll) : InParts(Nat2Num(Len(v)), t.ll[i].parts)      \* length in characters
                         /\ \A i \in 1..Len(t.pats) : FullMatch(t.pats[i].re, v)                   \* every pattern of every level
    [] t.k = "enumeration" -> \E i \in 1..Len(t.enums) : t.enums[i] = v
    [] t.k = "boolean" -> v = T("true") \/ v = T("false")
    [] t.k = "empty" -> v = << >>
    [] t.k = "identityref" -> v \in t.acc
    [] t.k = "union" -> \E i \in 1..Len(t.members) : Accepts(t.members[i], v)
    [] OTHER -> FALSE
\* the mechanism of the code under test: only the innermost range / length is kept (sound iff narrowing is enforced)
AcceptsMech(t, v) ==
  CASE t.k \in IntKinds -> LET p == ParseInt(v) IN p.ok /\ InParts(p.v, t.parts)
    [] t.k = "decimal64" -> LET p == ParseDec(v, t.fd) IN p.ok /\ InParts(p.v, t.parts)
    [] t.k = "string" -> InParts(Nat2Num(Len(v)), t.lparts) /\ \A i \in 1..Len(t.pats) : FullMatch(t.pats[i].re, v)
    [] OTHER -> Accepts(t, v)
\* is the verdict on v judged at all (forms on which the RFC / the statement is silent are not)
RECURSIVE ProbeJudged(_, _)
ProbeJudged(t, v) ==
  CASE t.sub -> ~Accepts(t, v)           \* only "the base rejects it, so must the derived type" is prescribed
    [] t.k = "identityref" -> v \notin t.unj
    [] t.k = "union" -> \A i \in 1..Len(t.members) : ProbeJudged(t.members[i], v)
    [] OTHER -> TRUE

\* restrictions violated by a rejected value: [lex, rs] (rs: set of [msg, tag]); lex = FALSE: not even a value of the built-in type
Viol(t, v) ==
  CASE t.k \in NumKinds ->
         LET p == IF t.k = "decimal64" THEN ParseDec(v, t.fd) ELSE ParseInt(v) IN
         IF ~(p.ok /\ InParts(p.v, <<WidthOf(t.k)>>)) THEN [lex |-> FALSE, rs |-> {}]
         ELSE [lex |-> TRUE, rs |-> {[msg |-> t.rl[i].msg, tag |-> t.rl[i].tag] : i \in {i \in 1..Len(t.rl) : ~InParts(p.v, t.rl[i].parts)}}]
    [] t.k = "string" ->
         [lex |-> TRUE, rs |-> {[msg |-> t.ll[i].msg, tag |-> t.ll[i].tag] : i \in {i \in 1..Len(t.ll) : ~InParts(Nat2Num(Len(v)), t.ll[i].parts)}}
                          \cup {[msg |-> t.pats[i].msg, tag |-> t.pats[i].tag] : i \in {i \in 1..Len(t.pats) : ~FullMatch(t.pats[i].re, v)}}]
    [] OTHER -> [lex |-> FALSE, rs |-> {}]
MsgJudged(t, v) == LET w == Viol(t, v) IN w.lex /\ w.rs # {} /\ \A r \in w.rs : r.msg # ""
TagJudged(t, v) == LET w == Viol(t, v) IN w.lex /\ w.rs # {} /\ \A r \in w.rs : r.tag # ""
Msgs(t, v) == {r.msg : r \in Viol(t, v).rs}
Tags(t, v) == {r.tag : r \in Viol(t, v).rs}
\* the path a rejection must carry: the value's path; for type empty the leaf's path is accepted as well
PathModes(t) == IF t.k = "empty" THEN {"value", "leaf"} ELSE {"value"}

\* lexeme class (for attributing disagreements); for a union the class under the first member that accepts the lexeme
RECURSIVE LexClass(_, _)
LexClass(t, v) ==
  CASE t.k \in NumKinds ->
         LET p == IF t.k = "decimal64" THEN ParseDec(v, t.fd) ELSE ParseInt(v) IN
         IF ~p.ok THEN "malformed"
         ELSE IF v[1] = 43 THEN "plus-sign"
         ELSE IF v[1] = 45 /\ p.v = Zero THEN "negative-zero"
         ELSE IF Len(Body(v)) > 1 /\ Body(v)[1] = 48 /\ Body(v)[2] # 46 THEN "leading-zero"
         ELSE IF ~InParts(p.v, <<WidthOf(t.k)>>) THEN "outside-width"
         ELSE IF t.k = "decimal64" /\ 46 \notin RangeOf(v) THEN "no-fraction"
         ELSE "canonical"
    [] t.k = "string" -> IF \E i \in 1..Len(v) : v[i] > 127 THEN "multibyte" ELSE "ascii"
    [] t.k = "identityref" -> IF v \notin t.acc THEN "plain" ELSE IF 58 \in RangeOf(v) THEN "identity-qualified" ELSE "identity-bare"
    [] t.k = "union" -> LET ms == {i \in 1..Len(t.members) : Accepts(t.members[i], v)} IN
                        IF ms = {} THEN "plain" ELSE LexClass(t.members[SetMin(ms)], v)
    [] OTHER -> "plain"

RECURSIVE CompileChain(_), CompileFrom(_, _, _, _), CompileMembers(_, _, _)
\* one level applied to the type compiled so far
ApplyLevel(ch, t, L, first) ==
  LET k == t.k
      wrong == \/ L.rng # << >> /\ k \notin NumKinds
               \/ L.len # << >> /\ k # "string"
               \/ L.pats # << >> /\ k # "string"
               \/ L.fd # 0 /\ k # "decimal64"
               \/ L.enums # << >> /\ ~(k = "enumeration" /\ first)
               \/ L.members # << >> /\ ~(k = "union" /\ first)
               \/ L.idbase # NoId /\ ~(k = "identityref" /\ first)
      \* forms the statement does not cover: not judged
      \* a substatement that belongs to the definition of the base only, on a reference to a typedef (fraction-digits on a
      \* decimal64 typedef): whether the statement is refused or ignored is not judged; if it compiles, the derived type
      \* may not accept what its base rejects (sub: only an upper bound of the value space is prescribed)
      inert == L.fd # 0 /\ k = "decimal64" /\ ~first
      odd == \/ first /\ k = "decimal64" /\ L.fd \notin 1..18
             \/ first /\ k = "enumeration" /\ L.enums = << >>
             \/ first /\ k = "union" /\ L.members = << >>
             \/ first /\ k = "identityref" /\ L.idbase = NoId
      t1 == IF ~first THEN t
            ELSE CASE k = "decimal64" -> [t EXCEPT !.fd = L.fd]
                   [] k = "enumeration" -> [t EXCEPT !.enums = L.enums]
                   [] k = "identityref" -> LET d == Derived(ch.idents, L.idbase.m, L.idbase.n) IN
                                           [t EXCEPT !.acc = {IdLex(x, ch.mod) : x \in d}, !.unj = {IdUnjudged(x, ch.mod) : x \in d} \ {IdLex(x, ch.mod) : x \in d}]
                   [] OTHER -> t
      ms == IF first /\ k = "union" /\ ~wrong THEN CompileMembers(ch, L.members, 1) ELSE Res(TRUE, TRUE, "ok", << >>)
      t2 == IF first /\ k = "union" /\ ms.ok THEN [t1 EXCEPT !.members = ms.t] ELSE t1
      fd == t2.fd
      rn == IF L.rng = << >> \/ wrong THEN [syn |-> TRUE, ok |-> TRUE, why |-> "ok", parts |-> t2.parts]
            ELSE IF k = "decimal64" THEN Narrow(L.rng, t2.parts, LAMBDA x : ParseDec(x, fd), LAMBDA x : CanonDec(x, fd), FALSE)
            ELSE Narrow(L.rng, t2.parts, LAMBDA x : ParseInt(x), LAMBDA x : CanonInt(x), TRUE)
      ln == IF L.len = << >> \/ wrong THEN [syn |-> TRUE, ok |-> TRUE, why |-> "ok", parts |-> t2.lparts]
            ELSE Narrow(L.len, t2.lparts, LAMBDA x : ParseInt(x), LAMBDA x : CanonInt(x) /\ x[1] # 45, TRUE)
      t3 == [t2 EXCEPT !.parts = rn.parts,
                       !.rl = IF L.rng = << >> THEN @ ELSE Append(@, [parts |-> rn.parts, msg |-> L.rmsg, tag |-> L.rtag]),
                       !.lparts = ln.parts,
                       !.ll = IF L.len = << >> THEN @ ELSE Append(@, [parts |-> ln.parts, msg |-> L.lmsg, tag |-> L.ltag]),
                       !.pats = @ \o L.pats,
                       !.sub = inert \/ @,
                       !.hasDef = L.hasDef \/ @,
                       !.def = IF L.hasDef THEN L.def ELSE @]
      \* decimal64 parts exactly one unit apart hold the same values as one part; whether a derived
      \* part may span them is judged as "no" (parts of a decimal64 range are never contiguous)
      \* RFC 6020 leaves the longest string to the implementation: a length accepted only because the base is an
      \* unrestricted string, with an explicit bound above 2^32-1, is not judged
      lnBig == ln.ok /\ \E i \in 1..Len(L.len) : \E x \in {L.len[i].lo, L.len[i].hi} :
                   x \notin {MinT, MaxT} /\ CanonInt(x) /\ Lt(ImplMaxLen, ParseInt(x).v)
      badDef == t3.hasDef /\ ~Accepts(t3, t3.def)
      defJ == ~t3.hasDef \/ ProbeJudged(t3, t3.def)
  IN IF wrong THEN Res(FALSE, TRUE, "restriction-kind", t)
     ELSE IF odd THEN Res(FALSE, FALSE, "not-judged", t)
     ELSE IF ~ms.ok THEN Res(FALSE, ms.j, "member:" \o ms.why, t)
     ELSE IF ~rn.ok THEN Res(FALSE, rn.syn, "range:" \o rn.why, t)
     ELSE IF ~ln.ok THEN Res(FALSE, ln.syn, "length:" \o ln.why, t)
     ELSE IF badDef THEN Res(FALSE, ms.j /\ defJ /\ ~lnBig /\ ~t3.sub, "default-rejected", t3)
     ELSE Res(TRUE, ms.j /\ defJ /\ ~lnBig /\ ~t3.sub, "ok", t3)
CompileMembers(ch, members, i) ==
  IF i > Len(members) THEN Res(TRUE, TRUE, "ok", << >>)
  ELSE LET r == CompileChain([members[i] EXCEPT !.idents = ch.idents, !.mod = ch.mod]) IN
       IF ~r.ok THEN Res(FALSE, r.j, r.why, << >>)
       ELSE LET rest == CompileMembers(ch, members, i + 1) IN
            IF ~rest.ok THEN rest ELSE Res(TRUE, r.j /\ rest.j, "ok", <<r.t>> \o rest.t)
CompileFrom(ch, t, i, j) ==
  IF i > Len(ch.levels) THEN Res(TRUE, j, "ok", t)
  ELSE LET r == ApplyLevel(ch, t, ch.levels[i], i = 1) IN
       IF ~r.ok THEN [r EXCEPT !.j = r.j /\ j] ELSE CompileFrom(ch, r.t, i + 1, j /\ r.j)
\* [ok, j, why, t]: compile verdict, whether it is judged, reason, compiled type
\* A default statement on a mandatory leaf (RFC 6020 7.6.5 forbids the pair; the statement of C13 is about types and
\* says nothing on it): the verdict on such a leaf is not judged.  Every other context leaves the verdict as it is:
\* in particular a default that a mandatory leaf merely inherits from a typedef must still be a value of the leaf's type.
CtxJudged(ch) == ch.ctx \in LeafCtxs /\ ~(MandatoryCtx(ch.ctx) /\ ch.levels[Len(ch.levels)].hasDef)
CompileChain(ch) == IF ch.k \notin Kinds \/ ch.levels = << >> THEN Res(FALSE, FALSE, "not-judged", CT0("empty"))
                    ELSE LET r == CompileFrom(ch, CT0(ch.k), 1, TRUE) IN [r EXCEPT !.j = @ /\ CtxJudged(ch)]
\* the default of a leaf: nearest of leaf, then each typedef outwards
\* (RFC 6020 7.6.1: a mandatory leaf has no default value in the data tree although its type may have one; what
\* Default() of such a leaf reports is not judged)
DefaultJudged(ch) == ~MandatoryCtx(ch.ctx)
DefaultOf(ch) == LET ds == {i \in 1..Len(ch.levels) : ch.levels[i].hasDef} IN
                 IF ds = {} THEN [has |-> FALSE, v |-> << >>] ELSE [has |-> TRUE, v |-> ch.levels[SetMax(ds)].def]
=============================================================================
