INIT GInit
NEXT GNext
CONSTANT NSample = 0
CONSTANT NRand = 50
CONSTANT NStack = 50
CONSTANT NMut = 50
CONSTANT NCtl = 2
CONSTANT NSp = 50
CHECK_DEADLOCK FALSE
