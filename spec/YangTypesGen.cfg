INIT GInit
NEXT GNext
CONSTANT Fams = {1104}
CONSTANT MaxDepth = 3
CONSTANT NRand = 50
CHECK_DEADLOCK FALSE
