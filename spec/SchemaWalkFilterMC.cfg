INIT MCInit
NEXT MCNext
CONSTANT Shapes = {1, 2, 3, 4, 5, 6}
CONSTANT MaxEntries = 1
CONSTANT MaxLL = 2
INVARIANT Laws
INVARIANT Mono
CHECK_DEADLOCK FALSE
