----------------------------- MODULE SchemaRand -----------------------------
(* Seeded sampling (TLC RandomElement, -seed) of schemas larger than the
   enumerated shapes, for the code -> model direction of C17 and C18.
   Names: every node has a position (a unique string, see Suf); its name
   is the position string, except that - wherever YANG allows two nodes to share
   a name - it is sometimes the name of its parent: the first child of a
   container, list or case may be named like that parent, the first case of a
   choice like the choice, and a case may be a short-hand (the data node itself,
   so choice, implicit case and node can all three coincide).  Siblings always
   differ, and so do the data nodes lifted out of the cases of one choice, so
   every generated schema is legal YANG.  Types are string / int8 / empty, direct
   or through a typedef.  mode "path": no constraints; mode "keys": as "path", but
   leaves and leaf-lists alike take every type of SchemaNodes (string int8 empty boolean
   enum union, direct or through a typedef),
   a list has one to three keys (every type but empty), its key leaves stand in a drawn order at drawn places among the other
   children, whatever the order of the key statement; mode "data": mandatory,
   default, min-/max-elements, one to three unique statements, default /
   mandatory choices (respecting RFC 6020: no default on a mandatory leaf, no
   mandatory node under a default case, unique leaves without defaults);
   mode "sparse": as "data", but mandatory leaves and min-elements are rare,
   containers have presence, and choices (often mandatory, nested in cases)
   are frequent - levels where a nested mandatory node is the only one.        *)
EXTENDS SchemaNodes, TLC

\* Node names are part of the input space.  A position is a string of suffixes, one per level, each
\* ending in "q" (and holding no other q, so positions are unique); the suffixes of the children of one
\* parent come from one of four families (v): letters; digit runs whose natural and byte order differ
\* (2 10 9 100 1); the same behind - _ . ; names that differ only in case or are prefixes of each other.
Suf(v, i) ==
  CASE v = 1 -> (CASE i = 1 -> "aq" [] i = 2 -> "bq" [] i = 3 -> "cq" [] i = 4 -> "dq" [] OTHER -> "eq")
    [] v = 2 -> (CASE i = 1 -> "2q" [] i = 2 -> "10q" [] i = 3 -> "9q" [] i = 4 -> "100q" [] OTHER -> "1q")
    [] v = 3 -> (CASE i = 1 -> "-2q" [] i = 2 -> "-10q" [] i = 3 -> "_2q" [] i = 4 -> ".2q" [] OTHER -> "_10q")
    [] OTHER -> (CASE i = 1 -> "aq" [] i = 2 -> "Aq" [] i = 3 -> "abq" [] i = 4 -> "aBq" [] OTHER -> "abcq")
CaseKidsR(c) == IF c.kind = "case" THEN c.kids ELSE <<c>>

\* a mandatory node in the sense of RFC 6020 section 3.1, anywhere below kids
RECURSIVE AnyMandatory(_)
AnyMandatory(kids) ==
  \E i \in 1..Len(kids) : LET c == kids[i] IN
     \/ c.kind \in {"leaf", "choice"} /\ c.mandatory
     \/ c.kind \in {"list", "leaflist"} /\ c.min > 0
     \/ c.kind = "container" /\ ~c.presence /\ AnyMandatory(c.kids)
     \/ c.kind \in {"choice", "case"} /\ AnyMandatory(c.kids)

Plain(mode) == mode \in {"path", "keys"}      \* no constraints

\* two sequences interleaved at drawn places, each keeping its order
RECURSIVE RandMerge(_, _)
RandMerge(a, b) ==
  IF a = << >> THEN b ELSE IF b = << >> THEN a
  ELSE IF RandomElement(1..2) = 1 THEN <<a[1]>> \o RandMerge(Tail(a), b) ELSE <<b[1]>> \o RandMerge(a, Tail(b))

\* mode "keys": the list nm at position pos with the other children `others`: K key leaves (the key statement names
\* them in the order kq, jq, iq), declared in a drawn order and merged into the other children
KeyTypes == {"string", "int8", "tstring", "tint8", "boolean", "tbool", "enum", "tenum", "union", "tunion"}
\* mode "keys": leaves AND leaf-lists take every type (type empty is legal for a leaf-list in RFC 6020)
AllValueTypes == KeyTypes \cup {"empty", "tempty"}
RandKeyedList(nm, pos, others) ==
  LET k4  == RandomElement(1..4)
      K   == IF k4 = 4 THEN 2 ELSE k4
      l1  == Leaf(pos \o "kq", RandomElement(KeyTypes))
      l2  == Leaf(pos \o "jq", RandomElement(KeyTypes))
      l3  == Leaf(pos \o "iq", RandomElement(KeyTypes))
      kl  == SubSeq(<<l1, l2, l3>>, 1, K)
      o   == Orders(K)[RandomElement(1..Len(Orders(K)))]
      dcl == CASE K = 1 -> <<kl[1]>> [] K = 2 -> <<kl[o[1]], kl[o[2]]>> [] OTHER -> <<kl[o[1]], kl[o[2]], kl[o[3]]>>
  IN ListK(nm, SubSeq(<<l1.name, l2.name, l3.name>>, 1, K), RandMerge(dcl, others))

RandLeaf(nm, mode) ==
  LET t == RandomElement({"string", "tstring", "int8", "tint8", "empty", "tempty"})
      r == RandomElement(1..4)
      rare == RandomElement(1..4) IN
  IF mode = "keys" THEN Leaf(nm, RandomElement(AllValueTypes))
  ELSE IF Plain(mode) THEN Leaf(nm, t)
  ELSE IF r = 1 /\ (mode # "sparse" \/ rare = 1) THEN LeafM(nm, t)
  ELSE IF r = 2 /\ ~IsEmptyType(t) THEN LeafD(nm, t, IF BaseType(t) = "int8" THEN "7" ELSE "dv")
  ELSE Leaf(nm, t)
RandLL(nm, mode) ==
  LET t == RandomElement({"string", "int8", "tint8"})
      mm == RandomElement({<<0, 0>>, <<0, 0>>, <<1, 0>>, <<0, 2>>, <<1, 2>>, <<2, 3>>})
      rare == RandomElement(1..4) IN
  IF mode = "keys" THEN LL(nm, RandomElement(AllValueTypes))
  ELSE IF Plain(mode) THEN LL(nm, t)
  ELSE IF mode = "sparse" /\ rare # 1 THEN LLmm(nm, t, 0, mm[2])
  ELSE LLmm(nm, t, mm[1], mm[2])

\* one to three unique statements over the candidate leaves (indices ul of kids)
RandUniq(kids, ul) ==
  LET u == RandomElement(1..6)
      a == CHOOSE i \in ul : TRUE
      b == CHOOSE i \in ul \ {a} : TRUE
      c == CHOOSE i \in ul \ {a, b} : TRUE
      P(i) == <<kids[i].name>> IN
  IF ul = {} \/ u = 1 THEN << >>
  ELSE IF Cardinality(ul) = 1 \/ u = 2 THEN << <<P(a)>> >>
  ELSE IF u = 3 THEN << <<P(a), P(b)>> >>
  ELSE IF Cardinality(ul) = 2 \/ u = 4 THEN << <<P(a)>>, <<P(b)>> >>                \* two single-leaf statements
  ELSE IF u = 5 THEN << <<P(a)>>, <<P(b)>>, <<P(c), P(a)>> >>
  ELSE << <<P(a), P(b)>>, <<P(c)>> >>

\* (sequences are built by concatenation: a function constructor would be evaluated
\*  lazily, drawing again at every use)
\* RandNode(nm, pos, d, mode): a node named nm at position pos
\* RandKids(parent, pos, d, n, mode): n children of the node named parent at position pos
RECURSIVE RandNode(_, _, _, _), RandKids(_, _, _, _, _, _), RandCases(_, _, _, _, _, _)
\* v: the name family of these siblings
RandKids(parent, pos, d, n, mode, v) ==
  IF n = 0 THEN << >>
  ELSE LET share == RandomElement(1..3)
           nm    == IF n = 1 /\ parent # "" /\ share = 1 THEN parent ELSE pos \o Suf(v, n)
       IN RandKids(parent, pos, d, n - 1, mode, v) \o <<RandNode(nm, pos \o Suf(v, n), d, mode)>>
RandCases(choice, pos, d, n, mode, v) ==
  IF n = 0 THEN << >>
  ELSE LET m     == RandomElement(1..2)
           share == RandomElement(1..3)
           short == RandomElement(1..4)
           vk    == RandomElement(1..4)
           cn    == IF n = 1 /\ share = 1 THEN choice ELSE pos \o Suf(v, n) \o "xq"
       IN RandCases(choice, pos, d, n - 1, mode, v) \o
          <<IF short = 1 THEN RandNode(cn, pos \o Suf(v, n), 0, mode)          \* short-hand case: a leaf / leaf-list
            ELSE Case(cn, RandKids(cn, pos \o Suf(v, n), d, m, mode, vk))>>
RandNode(nm, pos, d, mode) ==
  LET k0 == RandomElement(1..10)
      kc == RandomElement(1..2)
      k  == IF mode = "sparse" /\ kc = 1 /\ k0 \in 4..7 THEN 8 ELSE k0 IN      \* sparse: more choices
  IF d = 0 \/ k <= 3 THEN (IF k = 10 \/ k = 3 THEN RandLL(nm, mode) ELSE RandLeaf(nm, mode))
  ELSE IF k <= 5 THEN
       LET nk   == RandomElement(0..4)
           vk   == RandomElement(1..4)
           kids == RandKids(nm, pos, d - 1, nk, mode, vk)
           pr   == RandomElement(1..2) IN
       IF pr = 1 \/ mode = "sparse" THEN PCont(nm, kids) ELSE Cont(nm, kids)
  ELSE IF k <= 7 THEN
       LET kt   == RandomElement({"string", "int8", "tstring"})
           nk   == RandomElement(0..4)
           vk   == RandomElement(1..4)
           key  == pos \o "kq"
           kids == <<Leaf(key, kt)>> \o RandKids(nm, pos, d - 1, nk, mode, vk)
           ul   == {i \in 2..Len(kids) : kids[i].kind = "leaf" /\ kids[i].def = "" /\ ~IsEmptyType(kids[i].typ)}
           mm   == RandomElement({<<0, 0>>, <<0, 0>>, <<1, 0>>, <<0, 2>>, <<1, 2>>})
           uq   == RandUniq(kids, ul)
           rare == RandomElement(1..4)
       IN IF mode = "keys" THEN RandKeyedList(nm, pos, RandKids(nm, pos, d - 1, nk, mode, vk))
          ELSE IF mode = "path" THEN List(nm, key, kids)
          ELSE ListX(nm, key, IF mode = "sparse" /\ rare # 1 THEN 0 ELSE mm[1], mm[2], uq, kids)
  ELSE LET nc == RandomElement(1..3)
           vk == RandomElement(1..4)
           cs == RandCases(nm, pos, d - 1, nc, mode, vk)
           r  == RandomElement(1..3) IN
       IF Plain(mode) THEN Choice(nm, cs)
       ELSE IF r = 1 /\ ~AnyMandatory(CaseKidsR(cs[1])) THEN ChoiceD(nm, cs[1].name, cs)
       ELSE IF r = 2 \/ (r = 3 /\ mode = "sparse") THEN ChoiceM(nm, cs)
       ELSE Choice(nm, cs)

\* (top-level names start with "n": a YANG identifier starts with a letter or "_")
RandSchema(d, mode) == LET n == RandomElement(2..4) v == RandomElement(1..4) IN RandKids("", "n", d, n, mode, v)
=============================================================================
