----------------------------- MODULE SchemaRand -----------------------------
(* Seeded sampling (TLC RandomElement, -seed) of schemas larger than the
   enumerated shapes, for the code -> model direction of C17 and C18.  Names are
   unique in the whole schema (derived from the position), so every generated
   schema is legal YANG.  mode "path": no constraints; mode "data": mandatory,
   default, min-/max-elements, unique, default / mandatory choices (respecting
   RFC 6020: no default on a mandatory leaf, no mandatory node under a default
   case, unique leaves without defaults).                                       *)
EXTENDS SchemaNodes, TLC

Dig(i) == CASE i = 1 -> "a" [] i = 2 -> "b" [] i = 3 -> "c" [] i = 4 -> "d" [] OTHER -> "e"

\* a mandatory node in the sense of RFC 6020 section 3.1, anywhere below kids
RECURSIVE AnyMandatory(_)
AnyMandatory(kids) ==
  \E i \in 1..Len(kids) : LET c == kids[i] IN
     \/ c.kind \in {"leaf", "choice"} /\ c.mandatory
     \/ c.kind \in {"list", "leaflist"} /\ c.min > 0
     \/ c.kind = "container" /\ ~c.presence /\ AnyMandatory(c.kids)
     \/ c.kind \in {"choice", "case"} /\ AnyMandatory(c.kids)

RandLeaf(nm, mode) ==
  LET t == RandomElement({"string", "string", "int8", "int8", "empty"})
      r == RandomElement(1..4) IN
  IF mode = "path" THEN Leaf(nm, t)
  ELSE IF r = 1 THEN LeafM(nm, t)
  ELSE IF r = 2 /\ t # "empty" THEN LeafD(nm, t, IF t = "int8" THEN "7" ELSE "dv")
  ELSE Leaf(nm, t)
RandLL(nm, mode) ==
  LET t == RandomElement({"string", "int8"})
      mm == RandomElement({<<0, 0>>, <<0, 0>>, <<1, 0>>, <<0, 2>>, <<1, 2>>, <<2, 3>>}) IN
  IF mode = "path" THEN LL(nm, t) ELSE LLmm(nm, t, mm[1], mm[2])

RECURSIVE RandNode(_, _, _), RandKids(_, _, _, _), RandCases(_, _, _, _)
RandKids(pfx, d, n, mode) ==
  IF n = 0 THEN << >> ELSE RandKids(pfx, d, n - 1, mode) \o <<RandNode(pfx \o Dig(n), d, mode)>>
\* (built by concatenation: a function constructor would be evaluated lazily, drawing again at every use)
RandCases(pfx, d, n, mode) ==
  IF n = 0 THEN << >>
  ELSE LET m == RandomElement(1..2) IN
       RandCases(pfx, d, n - 1, mode) \o <<Case(pfx \o Dig(n) \o "x", RandKids(pfx \o Dig(n), d, m, mode))>>
RandNode(nm, d, mode) ==
  LET k == RandomElement(1..10) IN
  IF d = 0 \/ k <= 3 THEN (IF k = 10 \/ k = 3 THEN RandLL(nm, mode) ELSE RandLeaf(nm, mode))
  ELSE IF k <= 5 THEN
       LET nk   == RandomElement(0..3)
           kids == RandKids(nm, d - 1, nk, mode)
           pr   == RandomElement(1..2) IN
       IF pr = 1 THEN PCont(nm, kids) ELSE Cont(nm, kids)
  ELSE IF k <= 7 THEN
       LET kt   == RandomElement({"string", "int8"})
           nk   == RandomElement(0..3)
           kids == <<Leaf(nm \o "k", kt)>> \o RandKids(nm, d - 1, nk, mode)
           u1   == RandomElement(1..2)
           u2   == RandomElement(1..2)
           ul   == {i \in 2..Len(kids) : kids[i].kind = "leaf" /\ kids[i].def = "" /\ kids[i].typ # "empty"}
           mm   == RandomElement({<<0, 0>>, <<0, 0>>, <<1, 0>>, <<0, 2>>, <<1, 2>>})
           uq   == IF ul = {} \/ u1 = 1 THEN << >>
                   ELSE IF Cardinality(ul) >= 2 /\ u2 = 1
                        THEN LET a == CHOOSE i \in ul : TRUE  b == CHOOSE i \in ul \ {a} : TRUE
                             IN << << <<kids[a].name>>, <<kids[b].name>> >> >>
                        ELSE << << <<kids[CHOOSE i \in ul : TRUE].name>> >> >>
       IN IF mode = "path" THEN List(nm, nm \o "k", kids) ELSE ListX(nm, nm \o "k", mm[1], mm[2], uq, kids)
  ELSE LET nc == RandomElement(1..3)
           cs == RandCases(nm, d - 1, nc, mode)
           r  == RandomElement(1..3) IN
       IF mode = "path" THEN Choice(nm, cs)
       ELSE IF r = 1 /\ ~AnyMandatory(cs[1].kids) THEN ChoiceD(nm, cs[1].name, cs)
       ELSE IF r = 2 THEN ChoiceM(nm, cs)
       ELSE Choice(nm, cs)

RandSchema(d, mode) == LET n == RandomElement(2..4) IN RandKids("", d, n, mode)
=============================================================================
