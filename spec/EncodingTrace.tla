---------------------------- MODULE EncodingTrace ----------------------------
(* Trace validation (code -> model) for C19.  The harness only executes and records:
     "rt"  a valid tree t, what the real encoder wrote for it (as tokens, re-read with
           encoding/json / encoding/xml), and what the real decoder made of those bytes; the
           three encodings of a small batch of trees are all produced before any is read, kept
           as returned, and `stable` says whether the bytes still equal a copy taken at return;
     "dec" an input of the decoder (a TLC-generated mutant, a class string, seeded random
           bytes; as tokens when it has a token structure) and the outcome
           (tree | error | panic).
   Every event is judged here:
     encode   the written document is well-formed and matches Enc*(schema, t);
     decode   the outcome is one the spec allows for Dec*(Parse(tokens)): "error" must be
              rejected, "tree" must give that tree, "either" may do one or the other, "open"
              is not predicted; an ill-formed input must be rejected; no panic, ever;
     any returned tree conforms to the schema and its leaf values are literals of the input
     (Conforms, NotAltered); a round trip of a correctly encoded tree returns the tree.
   Failures are printed (FAILJSON) and validation continues; the driver checks that every
   event was consumed.                                                               *)
EXTENDS Encoding, EncodingSets, Json
CONSTANT TraceFile, MaxFail
Trace == ndJsonDeserialize(TraceFile)
VARIABLES l, nfail
tvars == <<l, nfail>>

ItemsOf(e) == {e.items[i] : i \in 1..Len(e.items)}
IsX(e) == e.enc = "xml"
Rfc(e) == e.enc = "rfc"

\* features of the input that narrow a report: null / fraction / long number tokens present
HasTok(e, c) == \E i \in 1..Len(e.toks) : e.toks[i].c = c
HasFrac(e) == \E i \in 1..Len(e.toks) : e.toks[i].c = "num" /\ NumClass(e.toks[i].s) = "frac"
HasBig(e) == \E i \in 1..Len(e.toks) : e.toks[i].c = "num" /\ Len(e.toks[i].s) > 15

Failure(e, site, what, detail, pred) ==
  [id |-> e.id, at |-> l, ev |-> e.ev, src |-> e.src, enc |-> e.enc, site |-> site, what |-> what, detail |-> detail,
   pred |-> pred, null |-> HasTok(e, "null"), frac |-> HasFrac(e), big |-> HasBig(e), items |-> e.items]

\* ---- the decoder's outcome against the prediction;  "" or <<what, detail, predicted class>>
NoFail == <<"", "", "">>
\* a returned tree judged on its own
TreeFaults(sn, e, lits, pred) ==
  LET cf == Conforms(sn, [e.tree EXCEPT !.n = "root"])
      al == AlteredIn(sn, e.tree, lits)
  IN IF cf # "" THEN <<"nonconforming", cf, pred>>
     ELSE IF e.hastoks /\ al # "" THEN <<"altered", al, pred>>
     ELSE NoFail
Judge(sn, e, wf, o, lits, shape) ==
  \* wf: the input is well-formed; o: the prediction (only if wf); shape: where the input has a value of the wrong shape
  \* value xor error: anything but a tree or an error (a panic, neither, both) is a failure
  IF e.out \notin {"tree", "error"} THEN <<e.out, shape, IF wf THEN o.cls ELSE "error">>
  ELSE IF ~wf THEN (IF e.out = "error" THEN NoFail
                    ELSE LET f == TreeFaults(sn, e, lits, "error") IN IF f # NoFail THEN f ELSE <<"accepted-ill-formed", "", "error">>)
  ELSE IF e.out = "error" THEN (IF o.cls = "tree" THEN <<"rejected-valid", "", "tree">> ELSE NoFail)
  ELSE LET f == TreeFaults(sn, e, lits, o.cls) IN
       IF o.cls = "error" THEN (IF f # NoFail THEN f ELSE <<"accepted-invalid", "", "error">>)
       ELSE IF o.cls \in {"tree", "either"} /\ ~SameTree(sn, e.tree, o.t) THEN (IF f # NoFail THEN f ELSE <<"wrong-tree", TreeDiff(sn, e.tree, o.t), o.cls>>)
       ELSE f
DecodeFault(sn, e) ==
  IF ~e.hastoks
  THEN (IF e.out \notin {"tree", "error"} THEN <<e.out, "", "">> ELSE IF e.out = "tree" THEN TreeFaults(sn, e, {}, "") ELSE NoFail)
  ELSE IF IsX(e)
  THEN LET p == XParse(e.xtoks) IN
       Judge(sn, e, p.ok, IF p.ok /\ ~p.trailing THEN DecX(sn, p.e) ELSE OpenOut, IF p.ok THEN XLitsOf(p.e) ELSE {},
             IF p.ok THEN XShape(sn, p.e) ELSE "")
  ELSE LET p == JParse(e.toks) IN
       Judge(sn, e, p.ok, IF p.ok THEN DecJ(Rfc(e), sn, p.v) ELSE OpenOut, JLits(e.toks), IF p.ok THEN JShape(Rfc(e), sn, p.v) ELSE "")

\* ---- the encoder's output against the prediction
EncodeFault(sn, e) ==
  IF e.out = "panic" /\ ~e.hastoks /\ e.in = "" THEN <<"panic", "", "">>
  \* an encoding is a value: the bytes an encoder returned are still the same bytes after later encoder calls
  ELSE IF ~e.stable THEN <<"changed-after-return", "", "">>
  ELSE IF ~e.outok THEN <<"ill-formed-output", "", "">>
  ELSE IF IsX(e)
  THEN LET p == XParse(e.xtoks) IN
       IF ~p.ok \/ p.trailing THEN <<"ill-formed-output", "", "">>
       ELSE IF ~XMatch(EncX(sn, e.t), p.e) THEN <<"document", "", "">> ELSE NoFail
  ELSE LET p == JParse(e.toks) IN
       IF ~p.ok THEN <<"ill-formed-output", "", "">>
       ELSE IF ~JMatch(EncJ(Rfc(e), sn, e.t), p.v) THEN <<"document", "", "">> ELSE NoFail

\* which part of the tree the encoder got wrong: the types of the menu items of the schema
\* (small schemas make this precise)
TInit == l = 1 /\ nfail = 0
AddFails(fs) == /\ nfail' = nfail + Len(fs)
                /\ \A i \in 1..Len(fs) : nfail + i > MaxFail \/ PrintT("FAILJSON " \o ToJson(fs[i]))
TStep ==
  /\ l <= Len(Trace) /\ l' = l + 1
  /\ LET e == Trace[l]
         sn == Schema(ItemsOf(e))
         ef == IF e.ev = "rt" THEN EncodeFault(sn, e) ELSE NoFail
         df == IF ef[1] \in {"panic", "ill-formed-output"} THEN NoFail ELSE DecodeFault(sn, e)
         \* the property itself: a correctly encoded tree decodes to the same tree
         rf == IF e.ev = "rt" /\ ef = NoFail /\ df = NoFail /\ ~(e.out = "tree" /\ SameTree(sn, e.tree, e.t))
               THEN <<"round-trip", TreeDiff(sn, e.tree, e.t), "tree">> ELSE NoFail
         fs == (IF ef # NoFail THEN <<Failure(e, "encode", ef[1], ef[2], ef[3])>> ELSE << >>)
               \o (IF df # NoFail THEN <<Failure(e, "decode", df[1], df[2], df[3])>> ELSE << >>)
               \o (IF rf # NoFail THEN <<Failure(e, "decode", rf[1], rf[2], rf[3])>> ELSE << >>)
     IN AddFails(fs)
TNext == TStep
Consumed == l = Len(Trace) + 1
Report == Consumed => PrintT(<<"TRACE-RESULT", Len(Trace), nfail>>)
=============================================================================
