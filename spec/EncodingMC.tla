----------------------------- MODULE EncodingMC -----------------------------
(* Exhaustive model of C19 on the spec itself: for every schema of Sets and every valid
   tree over its value classes, each codec's decode(parse(tokens(encode(t)))) is predicted
   as "must return t", the encoding parses and matches itself, the tree conforms and its
   values are literals of the encoding; for the full trees of the one-item schemas every
   single-point mutant is classified and every predicted tree conforms and is unaltered,
   and dropping a structural token always yields an ill-formed document.
   The trees of a schema include the sized ones (EncodingSets.SizedTrees): every collection with n entries
   for every n of Sizes, the children of every node in three arrangements; the interleaved XML document
   of each of them (XRiffle) must decode to the same tree.
   One initial state per schema; the first step picks the tree, the second checks it.                       *)
EXTENDS EncodingSets
CONSTANTS Sets, MutMax, Sizes, SizesMany, ManyMin   \* Sets: set of item sets; MutMax: mutants only for |S| <= MutMax;
  \* Sizes / SizesMany: entries per collection in the sized trees of schemas with < / >= ManyMin items
VARIABLES si, tree, picked
vars == <<si, tree, picked>>
Wd(S) == Cardinality(S) = 1
MCInit == si \in Sets /\ tree = NoTree /\ picked = FALSE
\* two steps, so that the checks of one schema's trees are spread over all workers
Pick == /\ ~picked /\ tree = NoTree /\ UNCHANGED <<si, picked>>
        /\ \E t \in Trees(si, Wd(si)) \cup SizedTrees(si, IF Cardinality(si) >= ManyMin \/ \E i \in si : i > SizedFullMax THEN SizesMany ELSE Sizes, {1, 2, 3}) : tree' = t
Check == ~picked /\ tree # NoTree /\ picked' = TRUE /\ UNCHANGED <<si, tree>>
MCNext == Pick \/ Check
Sn == Schema(si)

JsonRT(rfc) ==
  LET doc == EncJ(rfc, Sn, tree)
      ts == JToks(doc)
      p == JParse(ts)
      o == DecJ(rfc, Sn, p.v)
  IN /\ p.ok /\ JMatch(doc, p.v)
     /\ o.cls = "tree" /\ SameTree(Sn, o.t, tree)
     /\ Conforms(Sn, o.t) = "" /\ NotAltered(Sn, o.t, JLits(ts))
XmlRT ==
  LET doc == EncX(Sn, tree)
      ts == XToks(doc)
      p == XParse(ts)
      o == DecX(Sn, p.e)
  IN /\ p.ok /\ ~p.trailing /\ XMatch(doc, p.e)
     /\ o.cls = "tree" /\ SameTree(Sn, o.t, tree)
     /\ Conforms(Sn, o.t) = "" /\ NotAltered(Sn, o.t, XLitsOf(p.e))
\* RFC 6020 7.7.7 / 7.8.5: entries interleaved with their siblings are the same list
XmlRiffleRT ==
  LET p == XParse(XToks(XRiffle(EncX(Sn, tree))))
      o == DecX(Sn, p.e)
  IN p.ok /\ ~p.trailing /\ o.cls = "tree" /\ SameTree(Sn, o.t, tree)
RiffleXML == picked => XmlRiffleRT
TreeConforms == picked => Conforms(Sn, tree) = ""
RoundTripRFC == picked => JsonRT(TRUE)
RoundTripJSON == picked => JsonRT(FALSE)
RoundTripXML == picked => XmlRT

Classes == {"tree", "either", "error", "open"}
\* (items beyond SizedFullMax: the largest full tree only, as the generator does)
IsFull == Cardinality(si) <= MutMax /\ tree \in FullTrees(si) /\ ((\A i \in si : i <= SizedFullMax) \/ tree = BigTree(si))
JMutOK(rfc) ==
  LET doc == EncJ(rfc, Sn, tree) IN
  /\ \A m \in TokDrops(JToks(doc)) : ~JParse(m).ok
  /\ \A m \in JMutants(doc) :
        LET p == JParse(m) IN
        p.ok => LET o == DecJ(rfc, Sn, p.v) IN
                /\ o.cls \in Classes
                /\ o.cls \in {"tree", "either"} => Conforms(Sn, o.t) = "" /\ NotAltered(Sn, o.t, JLits(m))
XMutOK ==
  LET doc == EncX(Sn, tree) IN
  /\ \A m \in XTokDrops(XToks(doc)) : ~XParse(m).ok \/ XParse(m).trailing
  /\ \A m \in XMutants(doc) :
        LET p == XParse(m) IN
        (p.ok /\ ~p.trailing) => LET o == DecX(Sn, p.e) IN
                /\ o.cls \in Classes
                /\ o.cls \in {"tree", "either"} => Conforms(Sn, o.t) = "" /\ NotAltered(Sn, o.t, XLitsOf(p.e))
XNsOK ==
  \A m \in XNsMutants(EncX(Sn, tree)) :
     LET p == XParse(m)
         o == DecX(Sn, p.e) IN
     /\ p.ok /\ ~p.trailing /\ o.cls \in Classes
     /\ o.cls \in {"tree", "either"} => Conforms(Sn, o.t) = "" /\ NotAltered(Sn, o.t, XLitsOf(p.e))
\* every document with a value / content of the wrong shape has a verdict; a predicted tree conforms and is unaltered
ShapesOK ==
  /\ \A rfc \in {TRUE, FALSE} : \A m \in JShapeMutants(EncJ(rfc, Sn, tree)) :
        LET p == JParse(m)
            o == DecJ(rfc, Sn, p.v) IN
        /\ p.ok /\ o.cls \in Classes
        /\ o.cls \in {"tree", "either"} => Conforms(Sn, o.t) = "" /\ NotAltered(Sn, o.t, JLits(m))
  /\ \A m \in XShapeMutants(EncX(Sn, tree)) :
        LET p == XParse(m)
            o == DecX(Sn, p.e) IN
        /\ p.ok /\ ~p.trailing /\ o.cls \in Classes
        /\ o.cls \in {"tree", "either"} => Conforms(Sn, o.t) = "" /\ NotAltered(Sn, o.t, XLitsOf(p.e))
MutantsShape == (picked /\ Cardinality(si) <= MutMax /\ FullTrees(si) # {} /\ tree = BigTree(si)) => ShapesOK
MutantsNs == (picked /\ Cardinality(si) <= MutMax /\ FullTrees(si) # {} /\ NsGrid(si) /\ tree = BigTree(si)) => XNsOK
MutantsRFC == (picked /\ IsFull) => JMutOK(TRUE)
MutantsJSON == (picked /\ IsFull) => JMutOK(FALSE)
MutantsXML == (picked /\ IsFull) => XMutOK
=============================================================================
