----------------------------- MODULE EncodingMC -----------------------------
(* Exhaustive model of C19 on the spec itself: for every schema of Sets and every valid
   tree over its value classes, each codec's decode(parse(tokens(encode(t)))) is predicted
   as "must return t", the encoding parses and matches itself, the tree conforms and its
   values are literals of the encoding; for the full trees of the one-item schemas every
   single-point mutant is classified and every predicted tree conforms and is unaltered,
   and dropping a structural token always yields an ill-formed document.
   One initial state per schema; the first step picks the tree, the second checks it.                       *)
EXTENDS EncodingSets
CONSTANTS Sets, MutMax            \* Sets: set of item sets; MutMax: mutants only for |S| <= MutMax
VARIABLES si, tree, picked
vars == <<si, tree, picked>>
Wd(S) == Cardinality(S) = 1
MCInit == si \in Sets /\ tree = NoTree /\ picked = FALSE
\* two steps, so that the checks of one schema's trees are spread over all workers
Pick == /\ ~picked /\ tree = NoTree /\ UNCHANGED <<si, picked>>
        /\ \E t \in Trees(si, Wd(si)) : tree' = t
Check == ~picked /\ tree # NoTree /\ picked' = TRUE /\ UNCHANGED <<si, tree>>
MCNext == Pick \/ Check
Sn == Schema(si)

JsonRT(rfc) ==
  LET doc == EncJ(rfc, Sn, tree)
      ts == JToks(doc)
      p == JParse(ts)
      o == DecJ(rfc, Sn, p.v)
  IN /\ p.ok /\ JMatch(doc, p.v)
     /\ o.cls = "tree" /\ SameTree(Sn, o.t, tree)
     /\ Conforms(Sn, o.t) = "" /\ NotAltered(Sn, o.t, JLits(ts))
XmlRT ==
  LET doc == EncX(Sn, tree)
      ts == XToks(doc)
      p == XParse(ts)
      o == DecX(Sn, p.e)
  IN /\ p.ok /\ ~p.trailing /\ XMatch(doc, p.e)
     /\ o.cls = "tree" /\ SameTree(Sn, o.t, tree)
     /\ Conforms(Sn, o.t) = "" /\ NotAltered(Sn, o.t, XLitsOf(p.e))
TreeConforms == picked => Conforms(Sn, tree) = ""
RoundTripRFC == picked => JsonRT(TRUE)
RoundTripJSON == picked => JsonRT(FALSE)
RoundTripXML == picked => XmlRT

Classes == {"tree", "either", "error", "open"}
IsFull == Cardinality(si) <= MutMax /\ tree \in FullTrees(si)
JMutOK(rfc) ==
  LET doc == EncJ(rfc, Sn, tree) IN
  /\ \A m \in TokDrops(JToks(doc)) : ~JParse(m).ok
  /\ \A m \in JMutants(doc) :
        LET p == JParse(m) IN
        p.ok => LET o == DecJ(rfc, Sn, p.v) IN
                /\ o.cls \in Classes
                /\ o.cls \in {"tree", "either"} => Conforms(Sn, o.t) = "" /\ NotAltered(Sn, o.t, JLits(m))
XMutOK ==
  LET doc == EncX(Sn, tree) IN
  /\ \A m \in XTokDrops(XToks(doc)) : ~XParse(m).ok \/ XParse(m).trailing
  /\ \A m \in XMutants(doc) :
        LET p == XParse(m) IN
        (p.ok /\ ~p.trailing) => LET o == DecX(Sn, p.e) IN
                /\ o.cls \in Classes
                /\ o.cls \in {"tree", "either"} => Conforms(Sn, o.t) = "" /\ NotAltered(Sn, o.t, XLitsOf(p.e))
XNsOK ==
  \A m \in XNsMutants(EncX(Sn, tree)) :
     LET p == XParse(m)
         o == DecX(Sn, p.e) IN
     /\ p.ok /\ ~p.trailing /\ o.cls \in Classes
     /\ o.cls \in {"tree", "either"} => Conforms(Sn, o.t) = "" /\ NotAltered(Sn, o.t, XLitsOf(p.e))
MutantsNs == (picked /\ Cardinality(si) <= MutMax /\ FullTrees(si) # {} /\ tree = BigTree(si)) => XNsOK
MutantsRFC == (picked /\ IsFull) => JMutOK(TRUE)
MutantsJSON == (picked /\ IsFull) => JMutOK(FALSE)
MutantsXML == (picked /\ IsFull) => XMutOK
=============================================================================
