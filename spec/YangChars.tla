------------------------------ MODULE YangChars ------------------------------
(* Characters of a YANG text.  A text is a sequence of code points (integers);
   a byte that is not part of a valid UTF-8 sequence is InvalidBase + byte.
   This is also the interchange form (JSON arrays of integers).                *)
EXTENDS Integers, Sequences

SP == 32    TAB == 9    LF == 10   CR == 13   DQ == 34   SQ == 39   BSL == 92
LBR == 123  RBR == 125  SEMI == 59 PLUS == 43 SLASH == 47 STAR == 42 COLON == 58
EOFC == -1                      \* "no character": end of the text
InvalidBase == 1114112

\* bytes of the UTF-8 form
Width(c) == IF c < 128 THEN 1 ELSE IF c < 2048 THEN 2 ELSE IF c < 65536 THEN 3 ELSE IF c < InvalidBase THEN 4 ELSE 1
IsAscii(c) == c >= 0 /\ c < 128

Printable == " !\"#$%&'()*+,-./0123456789:;<=>?@ABCDEFGHIJKLMNOPQRSTUVWXYZ[\\]^_`abcdefghijklmnopqrstuvwxyz{|}~"
OrdMap == [ch \in {SubSeq(Printable, i, i) : i \in 1..95} |-> 31 + (CHOOSE i \in 1..95 : SubSeq(Printable, i, i) = ch)]
Ord(ch) == OrdMap[ch]
\* a TLA+ string literal (printable ASCII) as a text
S2C(s) == [i \in 1..Len(s) |-> Ord(SubSeq(s, i, i))]

At(t, i) == IF i >= 1 /\ i <= Len(t) THEN t[i] ELSE EOFC

IsBlank(c) == c = SP \/ c = TAB
IsSep(c) == c = SP \/ c = TAB \/ c = LF \/ c = CR

\* ---- characters that are ordinary to YANG but look like structure to a program that is careless about code points ----
\* the ASCII characters that mean something to the lexer
Structural == {SP, TAB, LF, CR, DQ, SQ, BSL, LBR, RBR, SEMI, PLUS, SLASH, STAR}
\* for every structural character s the code points of 2, 3 and 4 bytes (Latin-1, BMP, the supplementary planes 1 and 16)
\* that become s when a code point is cut down to its low 7, 8 or 16 bits: 0x80+s, 0x100+s, 0x2000+s, 0x10000+s, 0x1F600+s,
\* 0x10FF00+s.  YANG knows nothing of them: each is an ordinary character of a word, a string or a comment.
AliasOffsets == <<128, 256, 8192, 65536, 128512, 1113856>>
AliasesAt(o) == {s + o : s \in Structural}
\* white space to Unicode (White_Space property, or what reads as a blank: zero-width space, byte order mark) - but neither a
\* blank nor a separator of YANG (RFC 6020 6.1.3 / 6.1.2 speak of space, tab and line breaks only)
VT == 11   FF == 12   NEL == 133   NBSP == 160   BOM == 65279
UniBlanks == {VT, FF, NEL, NBSP, 5760, 8192, 8201, 8203, 8232, 8233, 8239, 8287, 12288}

\* ---- the ways into the parser (package parse): parse.Parse and parse.ParseWithInterners; the two-step form
\* parse.New(name, cardinality).Parse(text) / parse.NewWithInterners(...).Parse(text); and Parse called again on a Tree that has
\* parsed another text before ("Reparse").  The properties speak of parsing a text: what they require is required of the
\* call, through whichever entry the text arrives, and refers to the text of that call.
OtherEntries == <<"ParseWithInterners", "New.Parse", "NewWithInterners.Parse", "Reparse">>
AllEntries == <<"Parse">> \o OtherEntries

RECURSIVE SumWidth(_, _, _)
SumWidth(t, a, b) == IF a > b THEN 0 ELSE Width(t[a]) + SumWidth(t, a + 1, b)
\* byte offset of the character at index i (1-based) = bytes before it
ByteOff(t, i) == SumWidth(t, 1, i - 1)

\* index of the last LF strictly before index i (0 if none)
RECURSIVE LastLfBefore(_, _)
LastLfBefore(t, i) == IF i <= 1 THEN 0 ELSE IF t[i - 1] = LF THEN i - 1 ELSE LastLfBefore(t, i - 1)
RECURSIVE CountLf(_, _, _)
CountLf(t, a, b) == IF a > b THEN 0 ELSE (IF t[a] = LF THEN 1 ELSE 0) + CountLf(t, a + 1, b)
\* 1-based line and 0-based byte column of the character at index i, as a reader of the text counts them
LineOf(t, i) == 1 + CountLf(t, 1, i - 1)
ColOf(t, i) == SumWidth(t, LastLfBefore(t, i) + 1, i - 1)
\* byte lengths of the lines of a text (split at LF, LF excluded)
RECURSIVE LineLensFrom(_, _, _)
LineLensFrom(t, i, acc) == IF i > Len(t) THEN <<acc>>
                           ELSE IF t[i] = LF THEN <<acc>> \o LineLensFrom(t, i + 1, 0)
                           ELSE LineLensFrom(t, i + 1, acc + Width(t[i]))
LineLens(t) == LineLensFrom(t, 1, 0)
=============================================================================
