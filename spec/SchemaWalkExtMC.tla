---------------------------- MODULE SchemaWalkExtMC ----------------------------
(* Exhaustive model for the Extensions hooks (X-walk part 3).  One initial state per
   module-set shape; the first step picks which hook call is refused (or none); then the
   work-list machine runs with every module order.
     Function      a module's calls in the machine = ModuleCalls (the recursion as a function),
                   module by module, whatever the module order
     Bag           a complete compilation fires exactly CallBag(T), the recursive count
     BottomUp      everything below a node, its types and its musts fire before the node's hook
     OncePerObject one hook call per schema object of YangSchema's Schema(M) (uses expanded,
                   augments applied, short-hand cases explicit, rpc / input / output /
                   notification), and no other object call
     SetLast       the model set's hook is the last call of a successful compilation
     ErrorStops    a refused call is the last call; the result is an error; everything before
                   it is a prefix of a successful compilation with the same module order   *)
EXTENDS SchemaWalkExt
CONSTANTS Shapes
VARIABLES shape, fail, x, order, T      \* T: the expanded module set (computed once, in the initial state)
M == ExtShape(shape)
Law(name, holds) == holds \/ (PrintT(<<"LAW VIOLATED", name, shape, fail>>) /\ FALSE)
Unpicked == [hook |-> "?", arg |-> ""]
Fails == {NoFail} \cup {[hook |-> c.hook, arg |-> c.arg] : c \in BagToSet(CallBag(T))}
MCInit == shape \in Shapes /\ fail = Unpicked /\ T = Expanded(ExtShape(shape)) /\ x = X0(T) /\ order = << >>
Pick == fail = Unpicked /\ (\E f \in Fails : fail' = f) /\ UNCHANGED <<shape, x, order, T>>
Step == /\ fail # Unpicked /\ x.st = "run"
        /\ \/ CanFire(T, x) /\ x' = FireNext(T, fail, x) /\ UNCHANGED order
           \/ CanStart(T, x) /\ \E i \in x.left : x' = StartModule(T, x, i) /\ order' = Append(order, i)
           \/ CanFinish(T, x) /\ x' = Finish(T, fail, x) /\ UNCHANGED order
        /\ UNCHANGED <<shape, fail, T>>
MCNext == Pick \/ Step
\* what a successful compilation with this module order fires
Full == Concat([k \in 1..Len(order) |-> ModuleCalls(T, T[order[k]])]) \o (IF Len(order) = Cardinality(ModIdx(T)) THEN <<SetCall(T)>> ELSE << >>)
Prefix(a, b) == Len(a) <= Len(b) /\ SubSeq(b, 1, Len(a)) = a
Function == Law("Function", Prefix(x.out, Full))
Done == x.st = "ok" =>
  /\ Law("Bag", SeqBag(x.out) = CallBag(T))
  /\ Law("BottomUp", BottomUp(x.out))
  /\ Law("OncePerObject", OncePerObject(M, x.out))
  /\ Law("SetLast", x.out[Len(x.out)] = SetCall(T) /\ x.out = Full)
  /\ Law("NoFail", \A i \in 1..Len(x.out) : ~Refused(fail, x.out[i]))
ErrorStops == x.st = "error" =>
  /\ Law("ErrorStops-last", Refused(fail, x.out[Len(x.out)]) /\ \A i \in 1..(Len(x.out) - 1) : ~Refused(fail, x.out[i]))
  /\ Law("ErrorStops-prefix", Prefix(x.out, Full) \/ (x.out[Len(x.out)] = SetCall(T)))
ShapeOk == fail = Unpicked => Law("ShapeCompiles", Analyse(M, {}).verdict = "ok")
=============================================================================
