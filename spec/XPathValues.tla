---------------------------- MODULE XPathValues ----------------------------
(* XPath 1.0 value domain, conversions (REC-xpath-19991116 sections 3.4, 3.5, 4.1-4.4)
   and the core function library, written from the Recommendation - not from
   the Go code.  Pure operators, no variables: every machine, generator and
   trace validator EXTENDS this module.

   Numbers.  TLC has no floating point.  An XPath number is one of
     nan | inf(neg) | fin(neg, n, d)  with d \in {1,2,4,8}, n <= MaxN (dyadic
     rationals: + - * mod on them are exact in IEEE-754 double, div whenever
     the quotient is again dyadic) | p10(neg, e) = +-10^e for e \in -9..-1 or
     7..22 (conversion and ordering only) | oom (out of model: the exact
     result left the domain; such results are never judged).
   Strings are TLC strings over ASCII; the characters ~ ^ ` stand for one
   2-byte, one 3-byte and one 4-byte (astral) UTF-8 character; the harness
   substitutes them, so every string function here is per *character*.      *)
EXTENDS Integers, Sequences, FiniteSets, TLC

MaxN == 1048576

NaN == [c |-> "nan", neg |-> FALSE, n |-> 0, d |-> 1]
Inf(neg) == [c |-> "inf", neg |-> neg, n |-> 0, d |-> 1]
OOM == [c |-> "oom", neg |-> FALSE, n |-> 0, d |-> 1]
Zero(neg) == [c |-> "fin", neg |-> neg, n |-> 0, d |-> 1]

RECURSIVE Gcd(_, _)
Gcd(a, b) == IF b = 0 THEN a ELSE Gcd(b, a % b)

Fin(neg, n, d) ==
  IF n = 0 THEN Zero(neg)
  ELSE LET g == Gcd(n, d)  nn == n \div g  dd == d \div g
       IN IF dd \in {1, 2, 4, 8} /\ nn <= MaxN
          THEN [c |-> "fin", neg |-> neg, n |-> nn, d |-> dd] ELSE OOM

Pow10(k) == CASE k = 0 -> 1 [] k = 1 -> 10 [] k = 2 -> 100 [] k = 3 -> 1000 [] k = 4 -> 10000
              [] k = 5 -> 100000 [] k = 6 -> 1000000 [] OTHER -> 0
P10(neg, e) == IF e \in 0..6 THEN Fin(neg, Pow10(e), 1)
               ELSE IF e \in (-9..-1) \cup (7..22) THEN [c |-> "p10", neg |-> neg, n |-> e, d |-> 1] ELSE OOM
Num(i) == Fin(i < 0, IF i < 0 THEN 0 - i ELSE i, 1)
(* "big": a few exact doubles that need 16-17 significant digits, given by their shortest decimal
   text: odd integers at the top of the 53-bit range and the double just below one half.  Only
   conversion, ordering and floor/ceiling/round are defined on them; arithmetic leaves the model. *)
BigTxt == <<"4503599627370497", "9007199254740991", "0.49999999999999994">>
BigIsInt == <<TRUE, TRUE, FALSE>>
BigRank == <<<<3, 156>>, <<3, 157>>, <<2, 63>>>>      \* see MagRank: between 10^15 and 10^16; between 3/8 and 1/2
Big(neg, i) == [c |-> "big", neg |-> neg, n |-> i, d |-> 1]

IsNaN(x) == x.c = "nan"
IsOOM(x) == x.c = "oom"
IsZero(x) == x.c = "fin" /\ x.n = 0
Abs(i) == IF i < 0 THEN 0 - i ELSE i
Bad(x, y) == x.c = "oom" \/ y.c = "oom"
Neg(x) == IF x.c \in {"nan", "oom"} THEN x ELSE [x EXCEPT !.neg = ~x.neg]
S8(x) == (IF x.neg THEN -1 ELSE 1) * x.n * (8 \div x.d)   \* fin only: signed numerator over 8

\* class of a number, used to describe operands of a disagreeing instruction
NumClass(x) == CASE x.c = "nan" -> "nan" [] x.c = "oom" -> "oom"
                 [] x.c = "inf" -> (IF x.neg THEN "ninf" ELSE "pinf")
                 [] x.c = "p10" -> (IF x.n < 0 THEN "tiny" ELSE "huge")
                 [] x.c = "big" -> (IF BigIsInt[x.n] THEN "bigint" ELSE "below-half")
                 [] IsZero(x) -> (IF x.neg THEN "nzero" ELSE "pzero")
                 [] x.d = 1 -> (IF x.neg THEN "negint" ELSE "posint")
                 [] OTHER -> (IF x.neg THEN "negfrac" ELSE "posfrac")

\* ---------------------------------------------------------------- order
\* magnitude rank of a non-NaN, non-oom number: <<class, sub>>, lexicographic
MagRank(x) == CASE x.c = "inf" -> <<4, 0>>
                [] x.c = "p10" -> (IF x.n < 0 THEN <<1, x.n>> ELSE <<3, x.n * 10>>)
                [] x.c = "big" -> BigRank[x.n]
                [] IsZero(x) -> <<0, 0>>
                [] OTHER -> <<2, 16 * x.n * (8 \div x.d)>>        \* sixteenths of an eighth: 63 lies between 3/8 (48) and 1/2 (64)
MagLt(a, b) == a[1] < b[1] \/ (a[1] = b[1] /\ a[2] < b[2])
\* IEEE <, = (NaN unordered, -0 = +0)
NumLt(x, y) ==
  IF IsNaN(x) \/ IsNaN(y) THEN FALSE
  ELSE LET zx == IsZero(x)  zy == IsZero(y)  mx == MagRank(x)  my == MagRank(y)
       IN IF zx /\ zy THEN FALSE
          ELSE IF zx THEN ~y.neg
          ELSE IF zy THEN x.neg
          ELSE IF x.neg /\ ~y.neg THEN TRUE
          ELSE IF ~x.neg /\ y.neg THEN FALSE
          ELSE IF x.neg THEN MagLt(my, mx) ELSE MagLt(mx, my)
NumEq(x, y) ==
  IF IsNaN(x) \/ IsNaN(y) THEN FALSE
  ELSE IF IsZero(x) /\ IsZero(y) THEN TRUE
  ELSE x.c = y.c /\ x.neg = y.neg /\ x.n = y.n /\ x.d = y.d
NumLe(x, y) == NumLt(x, y) \/ NumEq(x, y)

\* ----------------------------------------------------------- arithmetic
Arith(x, y) == x.c \in {"fin"} /\ y.c \in {"fin"}     \* both finite dyadic
Add(x, y) ==
  IF Bad(x, y) THEN OOM
  ELSE IF IsNaN(x) \/ IsNaN(y) THEN NaN
  ELSE IF x.c = "inf" /\ y.c = "inf" THEN (IF x.neg = y.neg THEN x ELSE NaN)
  ELSE IF x.c = "inf" THEN x ELSE IF y.c = "inf" THEN y
  ELSE IF IsZero(x) /\ IsZero(y) THEN Zero(x.neg /\ y.neg)
  ELSE IF IsZero(x) THEN y ELSE IF IsZero(y) THEN x
  ELSE IF ~Arith(x, y) THEN OOM
  ELSE LET s == S8(x) + S8(y) IN IF s = 0 THEN Zero(FALSE) ELSE Fin(s < 0, Abs(s), 8)
Sub(x, y) == Add(x, Neg(y))
Mul(x, y) ==
  IF Bad(x, y) THEN OOM
  ELSE IF IsNaN(x) \/ IsNaN(y) THEN NaN
  ELSE IF (x.c = "inf" /\ IsZero(y)) \/ (y.c = "inf" /\ IsZero(x)) THEN NaN
  ELSE IF x.c = "inf" \/ y.c = "inf" THEN Inf(x.neg # y.neg)
  ELSE IF IsZero(x) \/ IsZero(y) THEN Zero(x.neg # y.neg)
  ELSE IF ~Arith(x, y) \/ x.n > 46000 \/ y.n > 46000 THEN OOM
  ELSE Fin(x.neg # y.neg, x.n * y.n, x.d * y.d)
Div(x, y) ==
  IF Bad(x, y) THEN OOM
  ELSE IF IsNaN(x) \/ IsNaN(y) THEN NaN
  ELSE IF x.c = "inf" /\ y.c = "inf" THEN NaN
  ELSE IF x.c = "inf" THEN Inf(x.neg # y.neg)
  ELSE IF y.c = "inf" THEN Zero(x.neg # y.neg)
  ELSE IF IsZero(y) THEN (IF IsZero(x) THEN NaN ELSE Inf(x.neg # y.neg))
  ELSE IF IsZero(x) THEN Zero(x.neg # y.neg)
  ELSE IF ~Arith(x, y) THEN OOM
  ELSE Fin(x.neg # y.neg, x.n * y.d, x.d * y.n)    \* Fin reduces; non-dyadic quotient = oom
\* XPath mod = truncating remainder with the sign of the dividend (IEEE fmod)
Mod(x, y) ==
  IF Bad(x, y) THEN OOM
  ELSE IF IsNaN(x) \/ IsNaN(y) \/ x.c = "inf" \/ IsZero(y) THEN NaN
  ELSE IF y.c = "inf" THEN x
  ELSE IF IsZero(x) THEN x
  ELSE IF ~Arith(x, y) THEN OOM
  ELSE LET r == Abs(S8(x)) % Abs(S8(y)) IN IF r = 0 THEN Zero(x.neg) ELSE Fin(x.neg, r, 8)

BigFloor(x) == IF BigIsInt[x.n] THEN x ELSE IF x.neg THEN Num(-1) ELSE Zero(FALSE)
BigCeil(x) == IF BigIsInt[x.n] THEN x ELSE IF x.neg THEN Zero(TRUE) ELSE Num(1)
BigRound(x) == IF BigIsInt[x.n] THEN x ELSE Zero(x.neg)       \* 0.49999999999999994 is closer to 0 than to 1
Floor(x) == IF x.c = "big" THEN BigFloor(x) ELSE IF x.c = "p10" THEN (IF x.n > 0 THEN x ELSE IF x.neg THEN Num(-1) ELSE Zero(FALSE))
            ELSE IF x.c # "fin" \/ IsZero(x) THEN x
            ELSE LET q == S8(x) \div 8 IN IF q = 0 THEN Zero(FALSE) ELSE Num(q)
Ceil(x) == IF x.c = "big" THEN BigCeil(x) ELSE IF x.c = "p10" THEN (IF x.n > 0 THEN x ELSE IF x.neg THEN Zero(TRUE) ELSE Num(1))
           ELSE IF x.c # "fin" \/ IsZero(x) THEN x
           ELSE LET q == 0 - ((0 - S8(x)) \div 8) IN IF q = 0 THEN Zero(TRUE) ELSE Num(q)
\* round: closest integer, ties towards +infinity; NaN, +-Inf, +-0 to themselves;
\* -0.5 <= x < 0 gives negative zero (XPath 4.4)
Round(x) == IF x.c = "big" THEN BigRound(x) ELSE IF x.c = "p10" THEN (IF x.n > 0 THEN x ELSE Zero(x.neg))
            ELSE IF x.c # "fin" \/ IsZero(x) THEN x
            ELSE LET q == (S8(x) + 4) \div 8 IN IF q = 0 THEN Zero(x.neg) ELSE Num(q)

\* ---------------------------------------------------------------- strings
Ch(s, i) == SubSeq(s, i, i)
IsWs(c) == c \in {" ", "\t", "\n", "\r"}
DigitVal(c) == CASE c = "0" -> 0 [] c = "1" -> 1 [] c = "2" -> 2 [] c = "3" -> 3 [] c = "4" -> 4
                 [] c = "5" -> 5 [] c = "6" -> 6 [] c = "7" -> 7 [] c = "8" -> 8 [] c = "9" -> 9 [] OTHER -> -1
RECURSIVE LTrim(_)
LTrim(s) == IF Len(s) > 0 /\ IsWs(Ch(s, 1)) THEN LTrim(SubSeq(s, 2, Len(s))) ELSE s
RECURSIVE RTrim(_)
RTrim(s) == IF Len(s) > 0 /\ IsWs(Ch(s, Len(s))) THEN RTrim(SubSeq(s, 1, Len(s) - 1)) ELSE s
AllDigits(s) == \A i \in 1..Len(s) : DigitVal(Ch(s, i)) >= 0
RECURSIVE DigitsVal(_)
DigitsVal(s) == IF s = "" THEN 0 ELSE DigitsVal(SubSeq(s, 1, Len(s) - 1)) * 10 + DigitVal(Ch(s, Len(s)))
RECURSIVE StripLeadZ(_)
StripLeadZ(s) == IF Len(s) > 1 /\ Ch(s, 1) = "0" THEN StripLeadZ(SubSeq(s, 2, Len(s))) ELSE s
RECURSIVE StripTrailZ(_)
StripTrailZ(s) == IF Len(s) > 0 /\ Ch(s, Len(s)) = "0" THEN StripTrailZ(SubSeq(s, 1, Len(s) - 1)) ELSE s
AllZero(s) == \A i \in 1..Len(s) : Ch(s, i) = "0"
MinOf(ps) == CHOOSE i \in ps : \A j \in ps : i <= j
DotPos(s) == LET ps == {i \in 1..Len(s) : Ch(s, i) = "."} IN IF ps = {} THEN 0 ELSE MinOf(ps)
RECURSIVE Zeros(_)
Zeros(k) == IF k <= 0 THEN "" ELSE "0" \o Zeros(k - 1)

\* number(string): optional whitespace, optional '-', Number (Digits ('.' Digits?)? | '.' Digits),
\* optional whitespace; anything else NaN (XPath 4.4)
ToNumS(s0) ==
  LET t == RTrim(LTrim(s0))
      neg == Len(t) > 0 /\ Ch(t, 1) = "-"
      u == IF neg THEN SubSeq(t, 2, Len(t)) ELSE t
      dp == DotPos(u)
      ip0 == IF dp = 0 THEN u ELSE SubSeq(u, 1, dp - 1)
      fp0 == IF dp = 0 THEN "" ELSE SubSeq(u, dp + 1, Len(u))
  IN IF ~(AllDigits(ip0) /\ AllDigits(fp0)) \/ (ip0 = "" /\ fp0 = "") THEN NaN
     ELSE IF \E i \in 1..Len(BigTxt) : u = BigTxt[i] THEN Big(neg, CHOOSE i \in 1..Len(BigTxt) : u = BigTxt[i])
     ELSE LET ip == StripLeadZ(IF ip0 = "" THEN "0" ELSE ip0)
              fp == StripTrailZ(fp0)
          IN IF fp = "" /\ Len(ip) > 7
                THEN (IF Ch(ip, 1) = "1" /\ AllZero(SubSeq(ip, 2, Len(ip))) THEN P10(neg, Len(ip) - 1) ELSE OOM)
             ELSE IF ip = "0" /\ Len(fp) > 3
                THEN (IF Ch(fp, Len(fp)) = "1" /\ AllZero(SubSeq(fp, 1, Len(fp) - 1)) THEN P10(neg, 0 - Len(fp)) ELSE OOM)
             ELSE IF Len(ip) > 7 \/ Len(fp) > 3 THEN OOM
             ELSE Fin(neg, DigitsVal(ip) * Pow10(Len(fp)) + DigitsVal(fp), Pow10(Len(fp)))

Pad3(k) == IF k < 10 THEN "00" \o ToString(k) ELSE IF k < 100 THEN "0" \o ToString(k) ELSE ToString(k)
\* string(number): NaN, Infinity, -Infinity, 0 for both zeros, integers without '.',
\* otherwise decimal notation, never an exponent (XPath 4.2)
ToStrN(x) ==
  CASE x.c = "nan" -> "NaN"
    [] x.c = "oom" -> "?oom"
    [] x.c = "inf" -> (IF x.neg THEN "-Infinity" ELSE "Infinity")
    [] x.c = "big" -> (IF x.neg THEN "-" ELSE "") \o BigTxt[x.n]
    [] x.c = "p10" -> (IF x.neg THEN "-" ELSE "") \o (IF x.n > 0 THEN "1" \o Zeros(x.n) ELSE "0." \o Zeros((0 - x.n) - 1) \o "1")
    [] IsZero(x) -> "0"
    [] OTHER -> LET ip == x.n \div x.d  fr == ((x.n % x.d) * 1000) \div x.d
                IN (IF x.neg THEN "-" ELSE "") \o ToString(ip) \o (IF fr = 0 THEN "" ELSE "." \o StripTrailZ(Pad3(fr)))

Find(s, t) == LET ps == {i \in 1..(Len(s) - Len(t) + 1) : SubSeq(s, i, i + Len(t) - 1) = t}
              IN IF ps = {} THEN 0 ELSE MinOf(ps)
RECURSIVE NormWs(_, _)
NormWs(s, prevWs) == IF s = "" THEN ""
   ELSE LET c == Ch(s, 1)  r == SubSeq(s, 2, Len(s))
        IN IF IsWs(c) THEN (IF prevWs THEN NormWs(r, TRUE) ELSE " " \o NormWs(r, TRUE)) ELSE c \o NormWs(r, FALSE)
NormSpace(s) == RTrim(NormWs(LTrim(s), FALSE))
RECURSIVE Transl(_, _, _)
Transl(s, f, t) == IF s = "" THEN ""
   ELSE LET c == Ch(s, 1)  j == Find(f, c)  r == Transl(SubSeq(s, 2, Len(s)), f, t)
        IN IF j = 0 THEN c \o r ELSE IF j <= Len(t) THEN Ch(t, j) \o r ELSE r
\* substring(s, p, l): characters at positions i with round(p) <= i < round(p) + round(l)
RECURSIVE SubstrAux(_, _, _, _)
SubstrAux(s, i, lo, hi) == IF i > Len(s) THEN ""
   ELSE (IF NumLe(lo, Num(i)) /\ NumLt(Num(i), hi) THEN Ch(s, i) ELSE "") \o SubstrAux(s, i + 1, lo, hi)
SubstringJudged(p, l) == LET hi == Add(Round(p), Round(l)) IN ~IsOOM(p) /\ ~IsOOM(l) /\ ~IsOOM(hi)
Substring(s, p, l) == SubstrAux(s, 1, Round(p), Add(Round(p), Round(l)))
StrClass(s) == IF s = "" THEN "empty"
               ELSE IF RTrim(LTrim(s)) \in {"Infinity", "-Infinity"} THEN "infinity"
               ELSE IF \E i \in 1..Len(s) : Ch(s, i) \in {"~", "^", "`", "{", "}", "@"} THEN "nonascii"
               ELSE IF \E i \in 1..Len(s) : IsWs(Ch(s, i)) THEN "ws" ELSE "ascii"

\* ------------------------------------------------------------------ values
(* t: "b" boolean, "n" number, "s" string, "abs" absent node (empty node-set),
   "multi" leaf-list (node-set of string-valued nodes ms, in document order).
   j: judged - FALSE once a value derives from an out-of-model number.        *)
VB(b) == [t |-> "b", b |-> b, n |-> NaN, s |-> "", ms |-> << >>, j |-> TRUE]
VN(n) == [t |-> "n", b |-> FALSE, n |-> n, s |-> "", ms |-> << >>, j |-> ~IsOOM(n)]
VS(s) == [t |-> "s", b |-> FALSE, n |-> NaN, s |-> s, ms |-> << >>, j |-> TRUE]
VAbsent == [t |-> "abs", b |-> FALSE, n |-> NaN, s |-> "", ms |-> << >>, j |-> TRUE]
VMulti(ms) == [t |-> "multi", b |-> FALSE, n |-> NaN, s |-> "", ms |-> ms, j |-> TRUE]
Unj(v) == [v EXCEPT !.j = FALSE]
WithJ(v, j) == [v EXCEPT !.j = v.j /\ j]
IsSet(v) == v.t \in {"abs", "multi"}
Members(v) == IF v.t = "abs" THEN << >> ELSE v.ms    \* string-values of the nodes

ToStr(v) == CASE v.t = "s" -> v.s
              [] v.t = "b" -> (IF v.b THEN "true" ELSE "false")
              [] v.t = "n" -> ToStrN(v.n)
              [] v.t = "abs" -> ""
              [] v.t = "multi" -> (IF v.ms = << >> THEN "" ELSE v.ms[1])   \* first node in document order
ToNum(v) == CASE v.t = "n" -> v.n
              [] v.t = "b" -> (IF v.b THEN Num(1) ELSE Num(0))
              [] OTHER -> ToNumS(ToStr(v))
ToBool(v) == CASE v.t = "b" -> v.b
               [] v.t = "n" -> ~(IsNaN(v.n) \/ IsZero(v.n))
               [] v.t = "s" -> Len(v.s) > 0
               [] v.t = "abs" -> FALSE
               [] v.t = "multi" -> v.ms # << >>
ValClass(v) == CASE v.t = "b" -> "bool" [] v.t = "n" -> "num:" \o NumClass(v.n)
                 [] v.t = "s" -> "str:" \o StrClass(v.s)
                 [] v.t = "abs" -> "absent" [] v.t = "multi" -> "multi"

\* comparison of two non-node-set values (XPath 3.4)
NumRel(op, x, y) == CASE op = "=" -> NumEq(x, y) [] op = "!=" -> ~NumEq(x, y)
                      [] op = "<" -> NumLt(x, y) [] op = "<=" -> NumLe(x, y)
                      [] op = ">" -> NumLt(y, x) [] op = ">=" -> NumLe(y, x)
CmpScalar(op, a, b) ==
  IF op \in {"=", "!="}
  THEN IF a.t = "b" \/ b.t = "b" THEN (IF op = "=" THEN ToBool(a) = ToBool(b) ELSE ToBool(a) # ToBool(b))
       ELSE IF a.t = "n" \/ b.t = "n" THEN NumRel(op, ToNum(a), ToNum(b))
       ELSE (IF op = "=" THEN ToStr(a) = ToStr(b) ELSE ToStr(a) # ToStr(b))
  ELSE NumRel(op, ToNum(a), ToNum(b))
\* with node-sets: existential over the string-values of the nodes
\* a node-set against a boolean: through boolean(node-set) (XPath 1.0 section 3.4, for all six operators)
Cmp(op, a, b) ==
  IF IsSet(a) /\ b.t = "b" THEN CmpScalar(op, VB(ToBool(a)), b)
  ELSE IF IsSet(b) /\ a.t = "b" THEN CmpScalar(op, a, VB(ToBool(b)))
  ELSE IF IsSet(a) /\ IsSet(b)
  THEN \E i \in 1..Len(Members(a)) : \E k \in 1..Len(Members(b)) : CmpScalar(op, VS(Members(a)[i]), VS(Members(b)[k]))
  ELSE IF IsSet(a) THEN \E i \in 1..Len(Members(a)) : CmpScalar(op, VS(Members(a)[i]), b)
  ELSE IF IsSet(b) THEN \E k \in 1..Len(Members(b)) : CmpScalar(op, a, VS(Members(b)[k]))
  ELSE CmpScalar(op, a, b)
\* a node-set compared with a boolean is decided through boolean(node-set) in XPath 1.0, while the property text
\* says an absent node is "false in every comparison" and a leaf-list "compares existentially" (member by member):
\* judged where all readings agree, i.e. for a non-empty set none of whose members is the empty string
\* (member-wise boolean(string) is then true for every member, as boolean(node-set) is).
SetVsBoolJudged(v) == Members(v) # << >> /\ \A i \in 1..Len(Members(v)) : Members(v)[i] # ""
CmpJudged(op, a, b) == /\ (IsSet(a) /\ b.t = "b") => SetVsBoolJudged(a)
                       /\ (IsSet(b) /\ a.t = "b") => SetVsBoolJudged(b)
CmpUsesNum(op, a, b) == op \notin {"=", "!="} \/ a.t = "n" \/ b.t = "n"
CmpNumsJudged(op, a, b) ==
  LET na == IF IsSet(a) THEN [i \in 1..Len(Members(a)) |-> ToNumS(Members(a)[i])] ELSE <<ToNum(a)>>
      nb == IF IsSet(b) THEN [i \in 1..Len(Members(b)) |-> ToNumS(Members(b)[i])] ELSE <<ToNum(b)>>
  IN ~CmpUsesNum(op, a, b)
     \/ (op \in {"=", "!="} /\ (a.t = "b" \/ b.t = "b"))          \* decided on booleans, no number involved
     \/ ((\A i \in 1..Len(na) : ~IsOOM(na[i])) /\ (\A i \in 1..Len(nb) : ~IsOOM(nb[i])))

ArithOps == {"+", "-", "*", "div", "mod"}
CmpOps == {"=", "!=", "<", "<=", ">", ">="}
BoolOps == {"and", "or"}
Bin(op, a, b) ==
  LET j == a.j /\ b.j IN
  CASE op = "+" -> WithJ(VN(Add(ToNum(a), ToNum(b))), j)
    [] op = "-" -> WithJ(VN(Sub(ToNum(a), ToNum(b))), j)
    [] op = "*" -> WithJ(VN(Mul(ToNum(a), ToNum(b))), j)
    [] op = "div" -> WithJ(VN(Div(ToNum(a), ToNum(b))), j)
    [] op = "mod" -> WithJ(VN(Mod(ToNum(a), ToNum(b))), j)
    [] op \in CmpOps -> WithJ(VB(Cmp(op, a, b)), j /\ CmpJudged(op, a, b) /\ CmpNumsJudged(op, a, b))
    [] op = "|" -> IF a.t = "abs" /\ b.t = "abs" THEN WithJ(VAbsent, j)      \* union: only empty node-sets exist as node-sets here;
                   ELSE WithJ(VAbsent, FALSE)                                 \* anything else is a run error (XPathExec), not judged as a value
    [] op = "and" -> WithJ(VB(ToBool(a) /\ ToBool(b)), j)
    [] op = "or" -> WithJ(VB(ToBool(a) \/ ToBool(b)), j)
NegV(a) == WithJ(VN(Neg(ToNum(a))), a.j)

\* ---- re-match(subject, pattern) of RFC 7950 10.2.1: TRUE iff the WHOLE subject matches the XSD regular
\* expression.  Modelled on the subset where XSD and RE2 agree and that needs no escapes: literal
\* characters, '.', the postfix quantifiers * + ?, and alternation '|' at top level.  Other patterns: not judged.
RxMeta == {".", "*", "+", "?", "|", "(", ")", "[", "]", "{", "}", "\\", "^", "$"}
RECURSIVE RxSplit(_, _, _)          \* split at top-level '|'
RxSplit(p, i, acc) == IF i > Len(p) THEN <<acc>>
                      ELSE IF Ch(p, i) = "|" THEN <<acc>> \o RxSplit(p, i + 1, "")
                      ELSE RxSplit(p, i + 1, acc \o Ch(p, i))
RECURSIVE RxItems(_, _)             \* a branch as a sequence of [c, q]
RxItems(b, i) == IF i > Len(b) THEN << >>
                 ELSE LET q == IF i < Len(b) /\ Ch(b, i + 1) \in {"*", "+", "?"} THEN Ch(b, i + 1) ELSE "1"
                      IN <<[c |-> Ch(b, i), q |-> q]>> \o RxItems(b, IF q = "1" THEN i + 1 ELSE i + 2)
RxBranchOk(b) == \A i \in 1..Len(b) :
                    LET c == Ch(b, i) IN
                    IF c \in {"*", "+", "?"} THEN i > 1 /\ Ch(b, i - 1) \notin {"*", "+", "?"}
                    ELSE c = "." \/ c \notin RxMeta
RxInSubset(p) == \A k \in 1..Len(RxSplit(p, 1, "")) : RxBranchOk(RxSplit(p, 1, "")[k])
RxCh(it, c) == it.c = "." \/ it.c = c
RECURSIVE RxMatch(_, _, _, _)       \* does s[i..] match items[k..] entirely
RxMatch(s, i, its, k) ==
  IF k > Len(its) THEN i > Len(s)
  ELSE LET it == its[k]  here == i <= Len(s) /\ RxCh(it, Ch(s, i)) IN
       CASE it.q = "1" -> here /\ RxMatch(s, i + 1, its, k + 1)
         [] it.q = "?" -> RxMatch(s, i, its, k + 1) \/ (here /\ RxMatch(s, i + 1, its, k + 1))
         [] it.q = "*" -> RxMatch(s, i, its, k + 1) \/ (here /\ RxMatch(s, i + 1, its, k))
         [] it.q = "+" -> here /\ (RxMatch(s, i + 1, its, k + 1) \/ RxMatch(s, i + 1, its, k))
ReMatch(s, p) == \E k \in 1..Len(RxSplit(p, 1, "")) : RxMatch(s, 1, RxItems(RxSplit(p, 1, "")[k], 1), 1)

\* core function library (declared arities of this implementation)
F0 == {"true", "false", "last", "position"}
F1 == {"string", "number", "boolean", "not", "floor", "ceiling", "round", "string-length", "normalize-space"}
F2 == {"concat", "contains", "starts-with", "substring-before", "substring-after", "re-match"}
F3 == {"substring", "translate"}
Fn0(f) == CASE f = "true" -> VB(TRUE) [] f = "false" -> VB(FALSE)
            [] f = "last" -> VN(Num(1)) [] f = "position" -> VN(Num(1))   \* top-level context: size 1, position 1
NumArgJ(a) == ~IsOOM(ToNum(a))
Fn1(f, a) ==
  CASE f = "string" -> WithJ(VS(ToStr(a)), a.j /\ (a.t # "n" \/ ~IsOOM(a.n)))
    [] f = "number" -> WithJ(VN(ToNum(a)), a.j)
    [] f = "boolean" -> WithJ(VB(ToBool(a)), a.j)
    [] f = "not" -> WithJ(VB(~ToBool(a)), a.j)
    [] f = "floor" -> WithJ(VN(Floor(ToNum(a))), a.j)
    [] f = "ceiling" -> WithJ(VN(Ceil(ToNum(a))), a.j)
    [] f = "round" -> WithJ(VN(Round(ToNum(a))), a.j)
    [] f = "string-length" -> WithJ(VN(Num(Len(ToStr(a)))), a.j)
    [] f = "normalize-space" -> WithJ(VS(NormSpace(ToStr(a))), a.j)
Fn2(f, a, b) ==
  LET x == ToStr(a)  y == ToStr(b)  j == a.j /\ b.j IN
  CASE f = "concat" -> WithJ(VS(x \o y), j)
    [] f = "contains" -> WithJ(VB(y = "" \/ Find(x, y) > 0), j)
    [] f = "starts-with" -> WithJ(VB(Len(y) <= Len(x) /\ SubSeq(x, 1, Len(y)) = y), j)
    [] f = "substring-before" -> WithJ(VS(IF y = "" THEN "" ELSE LET i == Find(x, y) IN IF i = 0 THEN "" ELSE SubSeq(x, 1, i - 1)), j)
    [] f = "re-match" -> WithJ(VB(RxInSubset(y) /\ ReMatch(x, y)), j /\ RxInSubset(y))
    [] f = "substring-after" -> WithJ(VS(IF y = "" THEN x ELSE LET i == Find(x, y) IN IF i = 0 THEN "" ELSE SubSeq(x, i + Len(y), Len(x))), j)
Fn3(f, a, b, c) ==
  LET j == a.j /\ b.j /\ c.j IN
  CASE f = "substring" -> WithJ(VS(Substring(ToStr(a), ToNum(b), ToNum(c))), j /\ SubstringJudged(ToNum(b), ToNum(c)))
    [] f = "translate" -> WithJ(VS(Transl(ToStr(a), ToStr(b), ToStr(c))), j)

\* conversion applied to an argument before the function body (XPath 3.2): by declared parameter sort
ParamSort(f, i) ==
  CASE f \in {"string", "number", "boolean"} -> "object"
    [] f = "not" -> "b"
    [] f \in {"floor", "ceiling", "round"} -> "n"
    [] f = "substring" /\ i > 1 -> "n"
    [] OTHER -> "s"
=============================================================================
