INIT GInit
NEXT GNext
CONSTANT SortMode = "topo"
CONSTANT Size = "s"
CONSTANT Only = {}
CONSTANT NSample = 0
CONSTANT NCombo = 50
CONSTANT NScoped = 100
CHECK_DEADLOCK FALSE
