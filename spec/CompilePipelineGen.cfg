INIT GInit
NEXT GNext
CONSTANT SortMode = "topo"
CONSTANT Size = "s"
CONSTANT Only = {}
CONSTANT NSample = 0
CONSTANT NCombo = 50
CHECK_DEADLOCK FALSE
