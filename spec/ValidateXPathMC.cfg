SPECIFICATION MCSpec
CONSTANTS
  Shapes = {1, 2, 3, 4, 5, 6, 7, 8, 9, 10, 11, 12, 13}
  MaxEntries = 3
  Wide = {}
  MaxLL = 2
  StateShapes = {4, 13}
  Odd = TRUE
  LRun = FALSE
  CacheAll = FALSE
INVARIANT AdapterLaws
INVARIANT AtDone
INVARIANT CacheSound
PROPERTY Terminates
CHECK_DEADLOCK FALSE
