SPECIFICATION MCSpec
CONSTANT Shapes = {1, 2, 3, 4, 5, 6, 7, 8, 9, 10, 11}
CONSTANT MaxEntries = 2
CONSTANT Wide = {}
CONSTANT MaxLL = 2
CONSTANT StateShapes = {4}
CONSTANT Odd = TRUE
CONSTANT LRun = FALSE
CONSTANT CacheAll = FALSE
INVARIANT AdapterLaws
INVARIANT AtDone
INVARIANT CacheSound
PROPERTY Terminates
CHECK_DEADLOCK FALSE
