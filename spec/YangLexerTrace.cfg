INIT TInit
NEXT TNext
CONSTANT TraceFile = "trace.ndjson"
CONSTANT MaxFail = 1000000
INVARIANT Report
CHECK_DEADLOCK FALSE
