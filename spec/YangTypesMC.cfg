INIT MCInit
NEXT MCNext
CONSTANT Fams = {20001, 20002, 20003, 20004, 20005, 1104, 3104, 5003, 6001, 7001, 7002}
CONSTANT MaxDepth = 3
INVARIANT Laws
CHECK_DEADLOCK FALSE
