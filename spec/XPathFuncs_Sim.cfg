SPECIFICATION RSpec
CONSTANT MaxSteps = 14
CONSTANT MaxGen = 99
CONSTANT MaxMachs = 99
CONSTANT Emit = TRUE
INVARIANT CoreKept
INVARIANT Gate
INVARIANT OnlyValidNames
INVARIANT StampInv
INVARIANT EmitBehaviour
CHECK_DEADLOCK FALSE
