----------------------------- MODULE YangStmtMC -----------------------------
(* Design-level checks of the specification itself (a failure here is a fault of the
   spec, never a verdict on the code).  One state per probe; on every state TLC checks

     TablesOK       the substatement tables are well-formed, every keyword is placed
     CardMinimal    the tree built for (P, C, n) violates nothing but cell (P, C), at the
                    statement of P, and its verdict is the one the table cell gives directly
     ArgMinimal     the tree built for an argument candidate violates nothing but that argument
     OrderMinimal   order / revision trees violate nothing but order / revision rules
     ExtAnywhere    a prefixed extension statement never changes a verdict                *)
EXTENDS YangStmtTpl
CONSTANTS MaxCount, Thorough
VARIABLE st
ParentSeqMC == SetToSeq(ParentIds)
KindSeqMC == SetToSeq(JudgedKinds)

\* two-level choice so that the successors are spread over all workers
MCInit == st = <<"init", "", "", 0>>
PickFam == /\ st[1] = "init"
           /\ \/ \E P \in ParentIds : st' = <<"P", P, "", 0>>
              \/ \E k \in JudgedKinds : \E s \in SitesFor(k, Thorough) : st' = <<"K", k, s, 0>>
              \/ \E r \in {"module", "submodule"}, part \in {"base", "rev", "ext"}, ch \in 0..3 : st' = <<"O", r, part, ch>>
              \/ \E k \in JudgedKinds : st' = <<"W", k, OneSite(k), 0>>
              \/ \E k \in KwKinds : \E s \in SitesOf(k) : st' = <<"E", k, s, 0>>
PickCard == st[1] = "P" /\ \E C \in ExtOrKw : \E n \in CardCounts(st[2], C, MaxCount) : st' = <<"card", st[2], C, n>>
PickArg == st[1] = "K" /\ \E a \in Cands(st[2]) : st' = <<"arg", st[2], st[3], a>>
OrderSet(root, part) == IF part = "base" THEN OrderTrees(root) \cup RevTrees(root)
                        ELSE IF part = "rev" THEN RevInterleaved(root) ELSE OrderInterleaved(root, Thorough)
\* (the worker that expands a state also checks its successors: 8 chunks per set keep all workers busy)
PickOrder == st[1] = "O" /\ \E t \in {x \in OrderSet(st[2], st[3]) : Len(x.subs) % 4 = st[4]} : st' = <<"order", st[2], t, 0>>
PickWs == st[1] = "W" /\ \E a \in WsCands(st[2]) \cup GramCands(st[2], Thorough) \cup (IF Thorough \/ st[2] = "identifier" THEN ByteCands(st[2], Thorough) ELSE {}) :
                         st' = <<"arg", st[2], st[3], a>>
PickUnder == \/ st[1] = "init" /\ \E k \in KwKinds : \E w \in KwStmts(k) : \E P \in KwParents(w) : st' = <<"U", k, <<w, P>>, 0>>
             \/ st[1] = "U" /\ \E a \in KwCore(st[2], Thorough) : st' = <<"argin", st[2], st[3], a>>
PickKw == st[1] = "E" /\ \E a \in KwCands(st[2], Thorough) : st' = <<"arg", st[2], st[3], a>>
PickExt == st[1] = "init" /\ \E e \in ExtNames : \E x \in ExtCells(e), n \in 0..2 : st' = <<"X", e, x, n>>
MCNext == PickExt \/ PickFam \/ PickCard \/ PickArg \/ PickOrder \/ PickWs \/ PickKw \/ PickUnder

TablesOK == TableWellFormed /\ EveryKeywordPlaced

CardKinds == {"not-allowed", "missing", "too-many", "cell", "unknown-keyword"}
CardMinimalB ==
  st[1] = "card" =>
    LET P == st[2]  C == st[3]  n == st[4]
        X == PStmt(P, C, n)
        t == CardTree(P, C, n)
        v == AllViol(t)
        xp == IF HostKw(X.kw) = "" THEN {<< >>} ELSE FindPath(t, X, << >>)
        cv == CellVerdict(P, C, Count(X, C))
        ev == ExpectOf(v).verdict IN
    /\ Cardinality(xp) = 1
    /\ \A f \in v : \/ (f.kind \in CardKinds /\ f.kw = C /\ f.path \in xp)
                    \/ (f.kind = "argument" /\ ~f.judged /\ f.kw = C)          \* augment outside module / uses
    /\ (cv = "accept" => ev = "accept")
    /\ (cv = "reject" => ev = "reject")
    /\ (cv = "unjudged" => ev # "accept")
    /\ Count(X, C) >= n
ArgMinimalB ==
  st[1] = "arg" =>
    LET k == st[2]  s == st[3]  a == st[4]
        t == ArgTree(s[1], s[2], a)
        v == AllViol(t)
        av == ArgVerdict(k, a) IN
    /\ \A f \in v : f.kind = "argument" /\ f.kw = s[1]
    /\ (av = "valid" <=> v = {})
    /\ (av = "invalid" <=> ExpectOf(v).verdict = "reject")
    /\ ArgKind(s[1], s[2]) = k
OrderMinimalB ==
  st[1] = "order" => \A f \in AllViol(st[3]) : f.kind \in {"order", "revision-order"} /\ f.judged
\* inserting an extension statement anywhere in a card probe's parent leaves the verdict alone
ExtAnywhereB ==
  st[1] = "card" /\ st[4] = 1 =>
    LET X == PStmt(st[2], st[3], 1)
        Y == St(X.kw, X.arg, <<Lf(ExtKw, "x")>> \o X.subs \o <<Lf(ExtKw, "y")>>) IN
    Expect(Complete(Embed(Y))).verdict = Expect(Complete(Embed(X))).verdict
\* extension statements in the module's statement sequence never change the verdict nor the offending keywords
InterleaveNeutralB ==
  st[1] = "order" =>
    LET a == Expect(st[3])  b == Expect(StripExts(st[3])) IN
    a.verdict = b.verdict /\ {<<f.kind, f.kw>> : f \in a.bad} = {<<f.kind, f.kw>> : f \in b.bad}
\* odd white space is never accepted by a judged predicate
OddWsRejectedB ==
  st[1] = "arg" /\ (\E i \in 1..Len(st[4]) : SubSeq(st[4], i, i) = "~" /\ i < Len(st[4]) /\ SubSeq(st[4], i, i + 1) \in OddWs)
    => ArgVerdict(st[2], st[4]) # "valid"
\* closed lists: of the candidates built from the legal values, exactly the legal values are valid, nothing is unjudged
KwExactB ==
  st[1] = "arg" /\ st[2] \in EnumKinds =>
    /\ EnumValues(st[2]) # {}
    /\ ArgVerdict(st[2], st[4]) = (IF \E v \in EnumValues(st[2]) : v = st[4] THEN "valid" ELSE "invalid")
\* the tree built for a closed-list argument under parent P violates nothing but that argument, and iff it is no legal value
ArgUnderMinimalB ==
  st[1] = "argin" =>
    LET k == st[2]  w == st[3][1]  P == st[3][2]  a == st[4]
        X == ArgUnder(P, w, a)
        t == ArgUnderTree(P, w, a)
        v == AllViol(t)
        av == ArgVerdict(k, a) IN
    /\ (IF P \in {DevId(d) : d \in DeviateKinds} THEN X.kw = "deviate" ELSE X.kw = P) /\ Count(X, w) = 1
    /\ \A f \in v : f.kind = "argument" /\ f.kw = w /\ f.judged
    /\ (av = "valid" <=> v = {})
    /\ (av = "invalid" <=> ExpectOf(v).verdict = "reject")
    /\ ArgKind(w, X.kw) = k
\* extension cardinalities: the tree built for cell (p, c, n) of function e violates only cells of e, and cell (p, c) iff n is out of its range
RECURSIVE StmtKwAt(_, _)
StmtKwAt(t, path) == IF path = << >> THEN t.kw ELSE StmtKwAt(t.subs[Head(path)], Tail(path))
ExtMinimalB ==
  st[1] = "X" =>
    LET e == st[2]  p == st[3][1]  c == st[3][2]  n == st[4]
        t == CardTree(p, c, n)
        v == AllViolX(t, ExtFns[e])
        cell == ExtFns[e][p][c] IN
    /\ \A f \in v : f.judged /\ f.kind \in {"missing", "too-many"} /\ f.kw \in UNION {DOMAIN ExtFns[e][q] : q \in DOMAIN ExtFns[e]}
    /\ (n < cell[1] \/ n > cell[2]) => \E f \in v : f.kw = c
    /\ (n >= cell[1] /\ n <= cell[2]) => ~\E f \in v : f.kw = c /\ StmtKwAt(t, f.path) = p
\* the compact prescription for large counts (BigExpand / BigExpect) is what Valid says of the really expanded tree
BigConsistentB ==
  st[1] = "card" /\ st[4] = 1 /\ st[3] \in BigKw =>
    LET P == st[2]  C == st[3]  T == 20
        X == PStmt(P, C, 1)
        d == BigExpand(P, C, T)[2][1]
        Y == Replicate(X, RepIndex(X, C, P), d.n, d.rename)
        ev == Expect(Complete(Embed(Y))).verdict
        cv == CellVerdict(P, C, T) IN
    /\ Count(Y, C) = T
    /\ (cv = "accept" => ev # "reject")        \* copies may add unjudged parts (equal typedef names are renamed away)
    /\ (cv = "reject" => ev = "reject")
\* a failing state is printed (all of them with -continue)
CardMinimal == CardMinimalB \/ (PrintT(<<"MCFAIL", "CardMinimal", st>>) /\ FALSE)
ArgMinimal == ArgMinimalB \/ (PrintT(<<"MCFAIL", "ArgMinimal", st>>) /\ FALSE)
OrderMinimal == OrderMinimalB \/ (PrintT(<<"MCFAIL", "OrderMinimal", st>>) /\ FALSE)
ExtAnywhere == ExtAnywhereB \/ (PrintT(<<"MCFAIL", "ExtAnywhere", st>>) /\ FALSE)
InterleaveNeutral == InterleaveNeutralB \/ (PrintT(<<"MCFAIL", "InterleaveNeutral", st>>) /\ FALSE)
OddWsRejected == OddWsRejectedB \/ (PrintT(<<"MCFAIL", "OddWsRejected", st>>) /\ FALSE)
ExtMinimal == ExtMinimalB \/ (PrintT(<<"MCFAIL", "ExtMinimal", st>>) /\ FALSE)
KwExact == KwExactB \/ (PrintT(<<"MCFAIL", "KwExact", st>>) /\ FALSE)
ArgUnderMinimal == ArgUnderMinimalB \/ (PrintT(<<"MCFAIL", "ArgUnderMinimal", st>>) /\ FALSE)
BigConsistent == BigConsistentB \/ (PrintT(<<"MCFAIL", "BigConsistent", st>>) /\ FALSE)
=============================================================================
