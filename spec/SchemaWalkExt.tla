----------------------------- MODULE SchemaWalkExt -----------------------------
(* Extension module X-walk, part 3: the compile.Extensions hooks (compile/extensions.go
   and the extendX calls in compile/compile.go).

   Documented intent ("As each node is compiled, it is passed to the extensions which are
   given an opportunity to wrap (decorate) the node ... If the extensions are misused then
   an error may be returned instead"): when a non-nil Extensions is handed to the compiler,
   every schema object it builds is offered to the hook of its kind exactly once, together
   with the parse node it was built from, and what the hook returns is what the compiler
   uses from then on (it becomes the child of the parent built next).

   Which objects: the compiler builds from the EXPANDED statement trees - uses replaced by
   copies of the grouping body (every copy is built, and offered, on its own), augments
   applied to their targets (the augmenting nodes are built with the target's module),
   short-hand cases made explicit (a `case` object and hook for each).  Expanded(M) below is
   Stage2 + ApplyAugments of YangSchema.tla, the specification of properties C12 / C14.
   Per module: for every rpc a tree for input and one for output (also when the rpc has
   none) and the rpc; for every notification a tree and the notification; every data node;
   the module's tree; the model; after all modules the model set.  For a leaf / leaf-list
   ExtendType is called once per level of its type: the built-in type (base nil), then every
   typedef on the way up (base = the level below), the members of a union before the union.
   ExtendMust is called once per must statement with the parse node of the owner.

   Mechanism (order, as the code does it; deliberate details named):
     - strictly bottom-up within a module: a node's hook fires after the hooks of everything
       below it, so the hook sees children that are already replaced;
     - a container's musts are offered BEFORE its children are built, a list's AFTER its
       children; a leaf's / leaf-list's types come first, then its musts, then the leaf;
     - rpcs (statement order), notifications, data nodes (statement order of the expanded
       tree), tree, model; the order of the modules is that of a Go map: any;
     - a hook that returns an error stops the compilation at once: no later hook fires and
       CompileParseTrees returns the error;
     - ExtendMust returns a replacement expression: it is used iff it compiles as XPath,
       otherwise the original expression is kept silently; "" means no replacement;
     - ExtendType's return value replaces the type; this specification only records the
       call (a wrapped type would lose its kind for the next typedef level).
   The machine below is a work-list interpreter of the build recursion: items are expanded
   (silent steps) or fired (one step per hook call).  Meaning: the bag of calls as a
   recursive count over the expanded tree, the bottom-up law, "once per built node" against
   the node set of YangSchema's Schema(M).  SchemaWalkExtMC checks machine against meaning.

   A call is [hook, path, arg, base, nk]: path = <<"m:" module>> followed by the schema
   node names (choices and cases included); "rpc:", <name>, "input" / "output" and
   "notification:", <name> in front of the names inside an rpc / a notification; << >> for the model set.  arg = argument of the parse node
   (type: the type name; must: the expression); base = ExtendType's base ("nil" or a type
   name), else ""; nk = number of already-replaced children the hook can see (data nodes
   through Children(): choices are looked through; a choice sees its cases).         *)
EXTENDS YangSchemaSets, Bags

HC(hook, path, arg, base, nk) == [hook |-> hook, path |-> path, arg |-> arg, base |-> base, nk |-> nk]
NoCall == HC("-", << >>, "", "", 0)
Expanded(M) == ApplyAugments(Stage2(M))
MLabel(f) == "m:" \o f.arg[1]

\* ------------------------------------------------------------ counting what a hook can see
RECURSIVE VisCount(_)
VisCount(stmts) ==
  IF stmts = << >> THEN 0
  ELSE (CASE stmts[1].kw \in {"choice", "case"} -> VisCount(stmts[1].subs)
          [] stmts[1].kw \in DataKw -> 1
          [] OTHER -> 0) + VisCount(Tail(stmts))
NodeSubs(s) == SelectSeq(s.subs, LAMBDA c : c.kw \in NodeKw)
HookOf(kw) == IF kw = "leaf-list" THEN "leaflist" ELSE kw
NkOf(s) == CASE s.kw \in {"leaf", "leaf-list"} -> 0
             [] s.kw = "choice" -> Len(NodeSubs(s))
             [] OTHER -> VisCount(s.subs)

\* ------------------------------------------------------------ types and musts
TypeName(t) == t.arg[Len(t.arg)]
TypedefsOf(T, own) == IF HasFile(T, own) THEN Sub(FileOf(T, own), "typedef") ELSE << >>
RECURSIVE TypeSeq(_, _, _, _)
TypeSeq(tds, t, path, fuel) ==
  LET nm == TypeName(t)
      td == SelectSeq(tds, LAMBDA d : d.arg[1] = nm)
  IN IF nm = "union" THEN Concat([i \in 1..Len(Sub(t, "type")) |-> TypeSeq(tds, Sub(t, "type")[i], path, fuel)]) \o <<HC("type", path, "union", "nil", 0)>>
     ELSE IF td = << >> \/ fuel = 0 THEN <<HC("type", path, nm, "nil", 0)>>
     ELSE LET inner == Sub(td[1], "type")[1] IN TypeSeq(tds, inner, path, fuel - 1) \o <<HC("type", path, nm, TypeName(inner), 0)>>
MustSeq(s, path) == LET ms == Sub(s, "must") IN [i \in 1..Len(ms) |-> HC("must", path, ms[i].arg[1], "", 0)]
\* which replacement expressions compile (facts about the two candidates the harness uses)
MustExts == {"", "true()", "1 +"}
Compiles(x) == x = "true()"
MustText(orig, ext) == IF ext # "" /\ Compiles(ext) THEN ext ELSE orig

\* ------------------------------------------------------------ the sequence of one module (the recursion, as a function)
RECURSIVE NodeCalls(_, _, _), KidsCalls(_, _, _)
KidsCalls(T, stmts, path) == Concat([i \in 1..Len(stmts) |-> IF stmts[i].kw \in NodeKw THEN NodeCalls(T, stmts[i], path) ELSE << >>])
NodeCalls(T, s, path) ==
  LET p    == path \o <<s.arg[1]>>
      self == <<HC(HookOf(s.kw), p, s.arg[1], "", NkOf(s))>>
  IN CASE s.kw = "container" -> MustSeq(s, p) \o KidsCalls(T, s.subs, p) \o self
       [] s.kw = "list"      -> KidsCalls(T, s.subs, p) \o MustSeq(s, p) \o self
       [] s.kw \in {"leaf", "leaf-list"} ->
            (IF Has(s, "type") THEN TypeSeq(TypedefsOf(T, s.def), Sub(s, "type")[1], p, 4) ELSE << >>) \o MustSeq(s, p) \o self
       [] OTHER              -> KidsCalls(T, s.subs, p) \o self            \* choice, case
TreeCalls(T, stmts, path, arg) == KidsCalls(T, stmts, path) \o <<HC("tree", path, arg, "", VisCount(stmts))>>
RpcCalls(T, f, r) ==
  LET p == <<MLabel(f), "rpc:", r.arg[1]>>
      io(k) == TreeCalls(T, IF Has(r, k) THEN Sub(r, k)[1].subs ELSE << >>, p \o <<k>>, k)
  IN io("input") \o io("output") \o <<HC("rpc", p, r.arg[1], "", 2)>>
NotifCalls(T, f, n) ==
  LET p == <<MLabel(f), "notification:", n.arg[1]>>
  IN TreeCalls(T, n.subs, p, n.arg[1]) \o <<HC("notification", p, n.arg[1], "", 1)>>
ModuleCalls(T, f) ==
  LET rs == Sub(f, "rpc")  ns == Sub(f, "notification") IN
  Concat([i \in 1..Len(rs) |-> RpcCalls(T, f, rs[i])]) \o Concat([i \in 1..Len(ns) |-> NotifCalls(T, f, ns[i])])
  \o TreeCalls(T, f.subs, <<MLabel(f)>>, f.arg[1]) \o <<HC("model", <<MLabel(f)>>, f.arg[1], "", 1)>>
TopCount(T) == LET F[i \in 0..Len(T)] == IF i = 0 THEN 0 ELSE F[i - 1] + VisCount(T[i].subs) IN F[Len(T)]
SetCall(T) == HC("modelset", << >>, "", "", TopCount(T))
ModIdx(T) == {i \in 1..Len(T) : T[i].kw = "module"}

\* ------------------------------------------------------------ mechanism: the work-list machine
\* item [op, s, path, c]: op "fire" carries the call c; the other ops carry a statement s to expand
It(op, s, path, c) == [op |-> op, s |-> s, path |-> path, c |-> c]
NoSt == St("-", << >>, << >>)
Fire(c) == It("fire", NoSt, << >>, c)
Fires(cs) == [i \in 1..Len(cs) |-> Fire(cs[i])]
KidItems(stmts, path) == LET ns == SelectSeq(stmts, LAMBDA c : c.kw \in NodeKw) IN [i \in 1..Len(ns) |-> It("node", ns[i], path, NoCall)]
TreeItems(stmts, path, arg) == KidItems(stmts, path) \o <<Fire(HC("tree", path, arg, "", VisCount(stmts)))>>
ExpandItem(T, it) ==
  LET s == it.s  path == it.path IN
  CASE it.op = "module" ->
         LET rs == Sub(s, "rpc")  ns == Sub(s, "notification") IN
         [i \in 1..Len(rs) |-> It("rpc", rs[i], <<MLabel(s)>>, NoCall)] \o [i \in 1..Len(ns) |-> It("notif", ns[i], <<MLabel(s)>>, NoCall)]
         \o TreeItems(s.subs, <<MLabel(s)>>, s.arg[1]) \o <<Fire(HC("model", <<MLabel(s)>>, s.arg[1], "", 1))>>
    [] it.op = "rpc" ->
         LET p == path \o <<"rpc:", s.arg[1]>>
             io(k) == TreeItems(IF Has(s, k) THEN Sub(s, k)[1].subs ELSE << >>, p \o <<k>>, k)
         IN io("input") \o io("output") \o <<Fire(HC("rpc", p, s.arg[1], "", 2))>>
    [] it.op = "notif" ->
         LET p == path \o <<"notification:", s.arg[1]>> IN
         TreeItems(s.subs, p, s.arg[1]) \o <<Fire(HC("notification", p, s.arg[1], "", 1))>>
    [] OTHER ->      \* "node"
         LET p    == path \o <<s.arg[1]>>
             self == <<Fire(HC(HookOf(s.kw), p, s.arg[1], "", NkOf(s)))>>
         IN CASE s.kw = "container" -> Fires(MustSeq(s, p)) \o KidItems(s.subs, p) \o self
              [] s.kw = "list"      -> KidItems(s.subs, p) \o Fires(MustSeq(s, p)) \o self
              [] s.kw \in {"leaf", "leaf-list"} ->
                   Fires(IF Has(s, "type") THEN TypeSeq(TypedefsOf(T, s.def), Sub(s, "type")[1], p, 4) ELSE << >>) \o Fires(MustSeq(s, p)) \o self
              [] OTHER -> KidItems(s.subs, p) \o self
\* does the hook refuse this call?  fail = [hook, arg] ("-" = nothing fails)
Refused(fail, c) == fail.hook = c.hook /\ fail.arg = c.arg
NoFail == [hook |-> "-", arg |-> ""]
\* state x = [left (modules not yet compiled), todo, out, st]: st = "run" | "ok" | "error"
X0(T) == [left |-> ModIdx(T), todo |-> << >>, out |-> << >>, st |-> "run"]
\* silent steps: expand until a fire item (or nothing) is in front
RECURSIVE Unfold(_, _)
Unfold(T, todo) == IF todo = << >> \/ todo[1].op = "fire" THEN todo ELSE Unfold(T, ExpandItem(T, todo[1]) \o Tail(todo))
StartModule(T, x, i) == [x EXCEPT !.left = @ \ {i}, !.todo = <<It("module", T[i], << >>, NoCall)>>]
FireNext(T, fail, x) ==
  LET td == Unfold(T, x.todo)  c == td[1].c IN
  IF Refused(fail, c) THEN [x EXCEPT !.todo = << >>, !.out = Append(@, c), !.st = "error"]
  ELSE [x EXCEPT !.todo = Unfold(T, Tail(td)), !.out = Append(@, c)]
CanFire(T, x) == x.st = "run" /\ Unfold(T, x.todo) # << >>
CanStart(T, x) == x.st = "run" /\ Unfold(T, x.todo) = << >> /\ x.left # {}
CanFinish(T, x) == x.st = "run" /\ Unfold(T, x.todo) = << >> /\ x.left = {}
Finish(T, fail, x) == LET c == SetCall(T) IN
  [x EXCEPT !.out = Append(@, c), !.st = IF Refused(fail, c) THEN "error" ELSE "ok"]

\* ------------------------------------------------------------ meaning
SeqBag(s) == LET F[i \in 0..Len(s)] == IF i = 0 THEN EmptyBag ELSE F[i - 1] (+) SetToBag({s[i]}) IN F[Len(s)]
\* the bag of every call of a complete compilation: a recursive count over the expanded tree, no order
RECURSIVE ModBags(_, _)
ModBags(T, I) == IF I = {} THEN EmptyBag ELSE LET i == CHOOSE j \in I : TRUE IN SeqBag(ModuleCalls(T, T[i])) (+) ModBags(T, I \ {i})
CallBag(T) == ModBags(T, ModIdx(T)) (+) SetToBag({SetCall(T)})
NodeHooks == {"container", "list", "leaf", "leaflist", "choice", "case"}
IsPrefixOf(a, b) == Len(a) <= Len(b) /\ SubSeq(b, 1, Len(a)) = a
\* c must have fired before d
Below(c, d) ==
  \/ IsPrefixOf(d.path, c.path) /\ Len(c.path) > Len(d.path) /\ d.hook \notin {"type", "must"}
  \/ c.path = d.path /\ c.hook \in {"type", "must"} /\ d.hook \in NodeHooks
  \/ c.path = d.path /\ c.hook = "tree" /\ d.hook \in {"model", "notification"}
BottomUp(out) == \A i, j \in 1..Len(out) : Below(out[i], out[j]) => i < j
\* the schema objects of the compiled model set according to YangSchema (the specification of C12 / C14):
\* paths below the root; an rpc is a child named like the rpc with children "input" and "output"
RECURSIVE SchemaPaths(_, _)
SchemaPaths(n, pre) == UNION {{pre \o <<c.name>>} \cup SchemaPaths(c, pre \o <<c.name>>) : c \in {k \in n.children : k.kind \notin {"!error", "!unjudged"}}}
ObjectHooks == NodeHooks \cup {"rpc", "notification"}
IsObjectCall(c) == c.hook \in ObjectHooks \/ (c.hook = "tree" /\ c.path[Len(c.path)] \in {"input", "output"} /\ Len(c.path) = 4)
ObjectPath(c) == IF Len(c.path) >= 2 /\ c.path[2] \in {"rpc:", "notification:"} THEN SubSeq(c.path, 3, Len(c.path)) ELSE Tail(c.path)
OncePerObject(M, out) ==
  LET I == {i \in 1..Len(out) : IsObjectCall(out[i])} IN
  /\ \A i, j \in I : i # j => out[i].path # out[j].path
  /\ {ObjectPath(out[i]) : i \in I} = SchemaPaths(Analyse(M, {}).schema, << >>)

\* ------------------------------------------------------------ module-set shapes
LeafT(n, t, extra) == St("leaf", <<n>>, <<Ty(t)>> \o extra)
LeafListT(n, t, extra) == St("leaf-list", <<n>>, <<Ty(t)>> \o extra)
LeafU(n, ts, extra) == St("leaf", <<n>>, <<St("type", <<"union">>, [i \in 1..Len(ts) |-> Ty(ts[i])])>> \o extra)
Typedef(n, t) == St("typedef", <<n>>, <<Ty(t)>>)
TypedefU(n, ts) == St("typedef", <<n>>, <<St("type", <<"union">>, [i \in 1..Len(ts) |-> Ty(ts[i])])>>)
Must(e) == P("must", e)
Rpc(n, subs) == St("rpc", <<n>>, subs)
Input(subs) == St("input", << >>, subs)
Output(subs) == St("output", << >>, subs)
Notif(n, subs) == St("notification", <<n>>, subs)
ExtShape(id) ==
  CASE id = 1 ->   \* every kind of node, musts on container / list / leaf / leaf-list, typedef chain, union
         << Module("a", << >>, <<
              Typedef("t1", "string"), Typedef("t2", "t1"),
              Cont("c", << Must("l1 = 'x'"), LeafT("l1", "string", << Must("1 = 1"), Must("2 = 2") >>), LeafT("l2", "t2", << >>),
                           LeafListT("ll", "int8", << Must("3 = 3") >>),
                           List("li", "k", << Must("4 = 4"), LeafU("v", <<"int8", "string">>, << >>) >>),
                           Choice("ch", << Case("ca", << Leaf("cl", << >>) >>), Leaf("sh", << >>) >>) >>),
              Leaf("top", << >>) >>) >>
    [] id = 2 ->   \* one grouping used three times, a grouping using a grouping: every copy is built and offered
         << Module("a", << >>, <<
              Typedef("t1", "int8"),
              Grouping("g", << LeafT("gl", "t1", << Must("5 = 5") >>), Cont("gc", << Leaf("gcl", << >>), Uses("", "h", << >>) >>) >>),
              Grouping("h", << LeafList("hl", << >>) >>),
              Uses("", "g", << >>),
              Cont("c", << Uses("", "g", << >>) >>),
              List("li", "k", << Uses("", "g", << >>) >>) >>) >>
    [] id = 3 ->   \* rpc with and without parameters, notification, uses inside them
         << Module("a", << >>, <<
              Grouping("g", << Leaf("gl", << >>), Cont("gc", << Leaf("x", << >>) >>) >>),
              Rpc("r", << Input(<< Leaf("i", << >>), Uses("", "g", << >>) >>), Output(<< Cont("o", << Leaf("ol", << >>) >>) >>) >>),
              Rpc("q", << >>),
              Rpc("p", << Input(<< Leaf("only", << >>) >>) >>),
              Notif("n", << Leaf("nl", << >>), Uses("", "g", << >>) >>),
              Notif("e", << >>),
              Cont("c", << Leaf("l", << >>) >>) >>) >>
    [] id = 4 ->   \* a second module augments a container and a list of the first: built with the target
         << Module("a", << >>, << Cont("c", << Leaf("l", << >>), List("li", "k", << Leaf("v", << >>) >>) >>) >>),
            Module("b", <<"a">>, <<
              Grouping("g", << Leaf("gl", << >>) >>),
              Augment(<<"a", "c">>, << Leaf("al", << Must("6 = 6") >>), Cont("ac", << Uses("", "g", << >>) >>) >>),
              Augment(<<"a", "c", "a", "li">>, << Leaf("av", << >>) >>),
              Cont("own", << Uses("", "g", << >>) >>) >>) >>
    [] id = 5 ->   \* uses with refine and augment; augment of a choice (new case) and of a case
         << Module("a", << >>, <<
              Grouping("g", << Cont("gc", << Leaf("x", << >>) >>), Choice("gch", << Case("c1", << Leaf("y", << >>) >>) >>) >>),
              Cont("c", << Uses("", "g", << Refine(<<"", "gc", "", "x">>, << P("default", "d") >>),
                                            Augment(<<"", "gc">>, << Leaf("added", << >>) >>),
                                            Augment(<<"", "gch">>, << Case("c2", << Leaf("z", << >>) >>) >>),
                                            Augment(<<"", "gch", "", "c1">>, << Leaf("w", << >>) >>) >>) >>) >>) >>
    [] id = 6 ->   \* choices in choices, short-hand cases of every kind, uses in a case
         << Module("a", << >>, <<
              Grouping("g", << Leaf("gl", << >>), LeafList("gll", << >>) >>),
              Choice("o", << Case("o1", << Choice("i", << Leaf("s1", << >>), Cont("s2", << Leaf("x", << >>) >>), Case("i3", << Uses("", "g", << >>) >>) >>) >>),
                             List("o2", "k", << >>), LeafList("o3", << >>) >>) >>) >>
    [] id = 7 ->   \* deep typedef chain, union of typedefs, typedef of a union, leaf-list with a typedef
         << Module("a", << >>, <<
              Typedef("t1", "int8"), Typedef("t2", "t1"), Typedef("t3", "t2"), Typedef("s1", "string"), TypedefU("u1", <<"t2", "s1">>),
              LeafT("a", "t3", << >>), LeafU("b", <<"t3", "s1", "boolean">>, << >>), LeafT("c", "u1", << >>),
              LeafListT("d", "t2", << >>), List("li", "k", << LeafT("e", "s1", << Must("7 = 7") >>) >>) >>) >>
    [] id = 8 ->   \* two independent modules (any module order), each with an rpc
         << Module("a", << >>, << Cont("ca", << Leaf("x", << >>) >>), Rpc("ra", << Input(<< Leaf("i", << >>) >>) >>) >>),
            Module("b", << >>, << Cont("cb", << Leaf("y", << Must("8 = 8") >>) >>), Rpc("rb", << >>), Notif("nb", << Leaf("z", << >>) >>) >>) >>
    [] OTHER -> << Module("a", << >>, << >>) >>     \* a module without anything
NExtShapes == 9
=============================================================================
