------------------------------ MODULE PathEval ------------------------------
(* The third XPath grammar of the library, xpath/grammars/path_eval ("strip out everything
   except paths to allow for validation at compile time"), the program it builds, what running
   that program does, and what compile.go does with it.  Pure operators; the transition system
   is PathEvalMC, the behaviour generator PathEvalGen.  AST, rendering: XPathAst.

   MEANING (written from the grammar's header comment, the ProgBuilder comment "for path
   evaluation, we want to ignore anything inside a predicate" and the package's own listing
   tests): PathsOf(ast) is the sequence, in source order, of the location paths of the
   expression that stand outside predicates - the operands of operators, the arguments of
   functions (also of current()/deref(), which this grammar knows only as function calls) and
   the relative path that follows a function call.  Each is a root flag and a list of
   (name, namespace) / ".." elements; "." adds no element; predicates add nothing.
   A path_eval program tests each of these exactly once, in this order, and nothing else of
   the expression leaves a trace:

       PathEvalCompile(ast) = for each path:  [root] elem* locPathExists ;  storePathEval

   Running it (intended machine, variant "intent": the design of upstream's machine, which
   the instruction names and context.go's comment on pathOperPushes still describe): a
   root/dotdot/name instruction pushes one path element on the stack and counts it;
   locPathExists pops the counted elements, validates the path against the schema tree from
   the context node, pushes the verdict and records a warning (invalid) or non-warning
   (valid); storePathEval pops verdicts and saves their conjunction.

   MECHANISM OF THIS FORK (variant "fork"; deliberate modelling of what the code does,
   each item is reported as a finding in notes/ext_patheval.md):
     F1  CodeNameTest is not guarded by ignoreInsidePred: every name test inside a predicate
         (the key name, names of operand paths, at any nesting depth) is emitted into the
         enclosing path, so `a[k='x']/b` tests a/k/b.   PathEvalCompileFork.
     F2  the lexer returns CURRENTFUNC / DEREFFUNC for current( / deref(, tokens this grammar
         does not have: every expression that contains current() or deref() is a syntax
         error here although expr accepts it.   ForkRejects.
     F3  the push instructions act on ctx.actualPathStack and never count pathOperPushes, so
         locPathExists always fails with "Cannot evaluate zero length path." on a context
         made by NewCtxFromCurrent (kind "cur"); on a context made by NewCtxFromMach (kind
         "mach", the one compile.go uses) actualPathStack is nil and the first push
         instruction fails with a nil dereference.  No path is ever validated.
     F4  a bare `.` compiles to locPathExists over no element (zero-length path error in
         both variants; kept as the mechanism, no intent is claimed for it).
     F5  storePathEval stops popping at the first false verdict (the stack is then left
         non-empty); harmless, modelled as it is.                                        *)
EXTENDS XPathAst

\* ---------------------------------------------------------------- instructions
NsOf(pfx) == IF pfx = "" THEN "urn:self" ELSE "urn:" \o pfx
PI(i) == [i |-> i, s |-> "", ns |-> ""]
PName(n, pfx) == [i |-> "name", s |-> n, ns |-> NsOf(pfx)]
PushIns == {"root", "dotdot", "name"}
PEVocabulary == PushIns \cup {"locPathExists", "storePathEval"}

\* -------------------------------------------------------------------- meaning
\* a tested path: [abs, elems], elems a sequence of [n, ns]  (n = ".." has ns "")
PElem(st) == IF st.n = ".." THEN [n |-> "..", ns |-> ""] ELSE [n |-> st.n, ns |-> NsOf(st.pfx)]
RECURSIVE StepElems(_)
StepElems(ss) == IF ss = << >> THEN << >>
                 ELSE (IF ss[1].n = "." THEN << >> ELSE <<PElem(ss[1])>>) \o StepElems(Tail(ss))
TPath(abs, ss) == [abs |-> abs, elems |-> StepElems(ss)]
RECURSIVE PathsOf(_)
PathsOf(e) ==
  CASE e.k \in {"num", "lit", "fn0"} -> << >>
    [] e.k \in {"f1", "neg"} -> PathsOf(e.a)
    [] e.k \in {"f2", "bin"} -> PathsOf(e.a) \o PathsOf(e.b)
    [] e.k = "f3" -> PathsOf(e.a) \o PathsOf(e.b) \o PathsOf(e.c)
    [] e.k = "path" ->
         CASE e.root = "abs" -> <<TPath(TRUE, e.steps)>>
           [] e.root = "rel" -> <<TPath(FALSE, e.steps)>>
           [] e.root = "cur" -> IF e.steps = << >> THEN << >> ELSE <<TPath(FALSE, e.steps)>>
           [] e.root = "deref" -> PathsOf(e.arg) \o (IF e.steps = << >> THEN << >> ELSE <<TPath(FALSE, e.steps)>>)
ZeroLen(p) == ~p.abs /\ p.elems = << >>

\* ---------------------------------------------------------------- compilation
(* Syntax directed, one clause per grammar action of path_eval.y.  ip: inside a predicate
   (ignoreInsidePred > 0); leak: the fork's unguarded CodeNameTest (F1).               *)
RECURSIVE PEComp(_, _, _), PEPath(_, _, _), PESteps(_, _, _), PEPreds(_, _)
LPE(ip) == IF ip THEN << >> ELSE <<PI("locPathExists")>>
PEPreds(ps, leak) ==
  IF ps = << >> THEN << >>
  ELSE (IF leak THEN <<PName(ps[1].key, "")>> ELSE << >>) \o PEComp(ps[1].opnd, TRUE, leak) \o PEPreds(Tail(ps), leak)
PESteps(ss, ip, leak) ==
  IF ss = << >> THEN << >>
  ELSE (CASE ss[1].n = ".." -> (IF ip THEN << >> ELSE <<PI("dotdot")>>)
          [] ss[1].n = "." -> << >>
          [] OTHER -> (IF ip /\ ~leak THEN << >> ELSE <<PName(ss[1].n, ss[1].pfx)>>))
       \o PEPreds(ss[1].preds, leak) \o PESteps(Tail(ss), ip, leak)
PEPath(p, ip, leak) ==
  CASE p.root = "abs" -> (IF ip THEN << >> ELSE <<PI("root")>>) \o PESteps(p.steps, ip, leak) \o LPE(ip)
    [] p.root = "rel" -> PESteps(p.steps, ip, leak) \o LPE(ip)
    [] p.root = "cur" -> IF p.steps = << >> THEN << >> ELSE PESteps(p.steps, ip, leak) \o LPE(ip)
    [] p.root = "deref" -> PEPath(p.arg, ip, leak)
                           \o (IF p.steps = << >> THEN << >> ELSE PESteps(p.steps, ip, leak) \o LPE(ip))
PEComp(e, ip, leak) ==
  CASE e.k \in {"num", "lit", "fn0"} -> << >>
    [] e.k \in {"f1", "neg"} -> PEComp(e.a, ip, leak)
    [] e.k \in {"f2", "bin"} -> PEComp(e.a, ip, leak) \o PEComp(e.b, ip, leak)
    [] e.k = "f3" -> PEComp(e.a, ip, leak) \o PEComp(e.b, ip, leak) \o PEComp(e.c, ip, leak)
    [] e.k = "path" -> PEPath(e, ip, leak)
PathEvalCompile(e) == PEComp(e, FALSE, FALSE) \o <<PI("storePathEval")>>
PathEvalCompileFork(e) == PEComp(e, FALSE, TRUE) \o <<PI("storePathEval")>>

\* F2: current() / deref() anywhere in the expression (also inside predicates, which are parsed)
RECURSIVE UsesCurDeref(_)
StepsUse(ss) == \E i \in 1..Len(ss) : \E j \in 1..Len(ss[i].preds) : UsesCurDeref(ss[i].preds[j].opnd)
UsesCurDeref(e) ==
  CASE e.k \in {"num", "lit", "fn0"} -> FALSE
    [] e.k \in {"f1", "neg"} -> UsesCurDeref(e.a)
    [] e.k \in {"f2", "bin"} -> UsesCurDeref(e.a) \/ UsesCurDeref(e.b)
    [] e.k = "f3" -> UsesCurDeref(e.a) \/ UsesCurDeref(e.b) \/ UsesCurDeref(e.c)
    [] e.k = "path" -> e.root \in {"cur", "deref"} \/ (e.root = "deref" /\ UsesCurDeref(e.arg)) \/ StepsUse(e.steps)
ForkRejects(e) == UsesCurDeref(e)
RECURSIVE HasPreds(_)
HasPreds(e) ==
  CASE e.k \in {"num", "lit", "fn0"} -> FALSE
    [] e.k \in {"f1", "neg"} -> HasPreds(e.a)
    [] e.k \in {"f2", "bin"} -> HasPreds(e.a) \/ HasPreds(e.b)
    [] e.k = "f3" -> HasPreds(e.a) \/ HasPreds(e.b) \/ HasPreds(e.c)
    [] e.k = "path" -> (\E i \in 1..Len(e.steps) : e.steps[i].preds # << >>) \/ (e.root = "deref" /\ HasPreds(e.arg))

\* reading a listing back: the paths it tests (BadPaths if it is not of the shape  ([root] elem* locPathExists)* storePathEval)
BadPaths == <<[abs |-> FALSE, elems |-> <<[n |-> "#bad", ns |-> "#bad"]>>]>>
RECURSIVE DecodeFrom(_, _, _)
DecodeFrom(prog, i, cur) ==      \* cur: the path being collected, or the record NoCur
  IF i > Len(prog) THEN BadPaths
  ELSE LET I == prog[i] IN
       CASE I.i = "storePathEval" -> IF i = Len(prog) /\ cur.fresh THEN << >> ELSE BadPaths
         [] I.i = "locPathExists" -> <<[abs |-> cur.abs, elems |-> cur.elems]>> \o DecodeFrom(prog, i + 1, [fresh |-> TRUE, abs |-> FALSE, elems |-> << >>])
         [] I.i = "root" -> IF cur.fresh THEN DecodeFrom(prog, i + 1, [fresh |-> FALSE, abs |-> TRUE, elems |-> << >>]) ELSE BadPaths
         [] I.i = "dotdot" -> DecodeFrom(prog, i + 1, [cur EXCEPT !.fresh = FALSE, !.elems = Append(@, [n |-> "..", ns |-> ""])])
         [] I.i = "name" -> DecodeFrom(prog, i + 1, [cur EXCEPT !.fresh = FALSE, !.elems = Append(@, [n |-> I.s, ns |-> I.ns])])
         [] OTHER -> BadPaths
Decode(prog) == DecodeFrom(prog, 1, [fresh |-> TRUE, abs |-> FALSE, elems |-> << >>])

\* ------------------------------------------------------------- schema oracle
(* The tiny schema the intended machine validates against (the harness compiles the same tree
   from YANG): node paths from the root.  Validation follows names only; namespaces are
   compared by the real code but every node of this tree is in the module's own namespace,
   so a prefixed element (urn:p, urn:q) is never found.                                   *)
SchemaPaths == {<< >>, <<"a">>, <<"a", "b">>, <<"a", "b", "c">>, <<"a", "b", "z">>, <<"a", "z">>, <<"a", "vnum">>,
                <<"b">>, <<"z">>, <<"vnum">>, <<"vabs">>}
NoNode == <<"#none">>
RECURSIVE Walk(_, _, _)
Walk(at, elems, i) ==
  IF at = NoNode \/ i > Len(elems) THEN at
  ELSE LET el == elems[i] IN
       IF el.n = ".." THEN (IF at = << >> THEN NoNode ELSE Walk(SubSeq(at, 1, Len(at) - 1), elems, i + 1))
       ELSE IF el.ns = "urn:self" /\ Append(at, el.n) \in SchemaPaths THEN Walk(Append(at, el.n), elems, i + 1)
       ELSE NoNode
ValidPath(p, ctxNode) == Walk(IF p.abs THEN << >> ELSE ctxNode, p.elems, 1) # NoNode

\* ------------------------------------------------------------- the machine
(* State.  ds: the stack, uniform records [t, b, n, ns] (t = "b" verdict, "pe" path element);
   pushes = pathOperPushes; ps = actualPathStack (fork), nilps = it is nil (kind "mach");
   tested: paths handed to validatePath so far (observable as warnings + non-warnings).    *)
DB(b) == [t |-> "b", b |-> b, n |-> "", ns |-> ""]
DPE(n, ns) == [t |-> "pe", b |-> FALSE, n |-> n, ns |-> ns]
PSEmpty == [root |-> FALSE, names |-> << >>]
PEInit(kind) == [pc |-> 1, ds |-> << >>, pushes |-> 0, ps |-> IF kind = "mach" THEN << >> ELSE <<PSEmpty>>, nilps |-> kind = "mach",
                 err |-> "none", hasRes |-> FALSE, res |-> FALSE, tested |-> << >>]
PETop(st) == st.ps[Len(st.ps)]
PESetTop(st, p) == [st.ps EXCEPT ![Len(st.ps)] = p]
ElemOfIns(I) == CASE I.i = "root" -> DPE("/", "") [] I.i = "dotdot" -> DPE("..", "") [] OTHER -> DPE(I.s, I.ns)
\* the path a run of k stacked elements stands for
PathOfElems(es) ==
  LET abs == es # << >> /\ es[1].n = "/"
      rest == IF abs THEN Tail(es) ELSE es
  IN [abs |-> abs, elems |-> [i \in 1..Len(rest) |-> [n |-> rest[i].n, ns |-> rest[i].ns]]]
RECURSIVE PopVerdicts(_)
\* storePathEval: pop until a false verdict (F5); a path element on the stack is a run error
PopVerdicts(ds) ==
  IF ds = << >> THEN [ds |-> << >>, res |-> TRUE, err |-> "none"]
  ELSE LET top == ds[Len(ds)]  rest == SubSeq(ds, 1, Len(ds) - 1) IN
       IF top.t # "b" THEN [ds |-> rest, res |-> FALSE, err |-> "run"]
       ELSE IF ~top.b THEN [ds |-> rest, res |-> FALSE, err |-> "none"]
       ELSE PopVerdicts(rest)

PEExec(I, st, variant, ctxNode) ==
  CASE I.i \in PushIns ->
         IF variant = "intent" THEN [st EXCEPT !.ds = Append(@, ElemOfIns(I)), !.pushes = @ + 1]
         ELSE IF st.nilps THEN [st EXCEPT !.err = "nilptr"]
         ELSE IF st.ps = << >> THEN [st EXCEPT !.err = "run"]
         ELSE IF I.i = "root" THEN [st EXCEPT !.ps = PESetTop(st, [root |-> TRUE, names |-> << >>])]
         ELSE [st EXCEPT !.ps = PESetTop(st, [PETop(st) EXCEPT !.names = Append(@, IF I.i = "dotdot" THEN ".." ELSE I.s)])]
    [] I.i = "locPathExists" ->
         IF st.pushes = 0 THEN [st EXCEPT !.err = "zerolen"]
         ELSE IF st.pushes > Len(st.ds) THEN [st EXCEPT !.err = "run"]
         ELSE LET k == st.pushes
                  es == SubSeq(st.ds, Len(st.ds) - k + 1, Len(st.ds))
                  below == SubSeq(st.ds, 1, Len(st.ds) - k)
              IN IF \E i \in 1..k : es[i].t # "pe" THEN [st EXCEPT !.err = "run"]
                 ELSE LET p == PathOfElems(es) IN
                      [st EXCEPT !.ds = Append(below, DB(ValidPath(p, ctxNode))), !.pushes = 0, !.tested = Append(@, p)]
    [] I.i = "storePathEval" ->
         LET r == PopVerdicts(st.ds) IN
         IF r.err # "none" THEN [st EXCEPT !.ds = r.ds, !.err = r.err]
         ELSE [st EXCEPT !.ds = r.ds, !.hasRes = TRUE, !.res = r.res]
    [] OTHER -> [st EXCEPT !.err = "run"]
PEHalted(prog, st) == st.err # "none" \/ st.pc > Len(prog)
PEApply(prog, st, variant, ctxNode) == [PEExec(prog[st.pc], st, variant, ctxNode) EXCEPT !.pc = st.pc + 1]
RECURSIVE PERun(_, _, _, _)
PERun(prog, st, variant, ctxNode) == IF PEHalted(prog, st) THEN st ELSE PERun(prog, PEApply(prog, st, variant, ctxNode), variant, ctxNode)
\* the states after each executed instruction (a behaviour, for replay against the hook events)
RECURSIVE PEBehaviour(_, _, _, _)
PEBehaviour(prog, st, variant, ctxNode) ==
  IF PEHalted(prog, st) THEN << >>
  ELSE LET s2 == PEApply(prog, st, variant, ctxNode) IN <<s2>> \o PEBehaviour(prog, s2, variant, ctxNode)
\* what a caller observes
Observable(st) == [err |-> st.err, hasRes |-> st.hasRes, res |-> st.hasRes /\ st.res, ntested |-> Len(st.tested)]

\* the outcome the meaning prescribes, stated without the machine
RECURSIVE FirstZero(_, _)
FirstZero(P, i) == IF i > Len(P) THEN 0 ELSE IF ZeroLen(P[i]) THEN i ELSE FirstZero(P, i + 1)
MeaningOutcome(e, ctxNode) ==
  LET P == PathsOf(e)  z == FirstZero(P, 1) IN
  IF z > 0 THEN [err |-> "zerolen", hasRes |-> FALSE, res |-> FALSE, ntested |-> z - 1]
  ELSE [err |-> "none", hasRes |-> TRUE, res |-> \A i \in 1..Len(P) : ValidPath(P[i], ctxNode), ntested |-> Len(P)]
\* ... and the fork's (F3), stated without the machine
ForkOutcome(e, kind) ==
  LET prog == PathEvalCompileFork(e) IN
  IF Len(prog) = 1 THEN [err |-> "none", hasRes |-> TRUE, res |-> TRUE, ntested |-> 0]
  ELSE IF prog[1].i = "locPathExists" \/ kind = "cur" THEN [err |-> "zerolen", hasRes |-> FALSE, res |-> FALSE, ntested |-> 0]
  ELSE [err |-> "nilptr", hasRes |-> FALSE, res |-> FALSE, ntested |-> 0]

\* ------------------------------------------------- what compile.go does with it
(* Compiler with generateWarnings (BuildWhens / BuildMusts / createPathEvalMachine / nodePathEvaluate).
   stmt: "when" | "must"; exprOK / peOK: the expr / path_eval grammar builds a machine;
   npc: the statement's node is "no" (not a non-presence container, or one with a default or
   mandatory node below), "np" (bare non-presence container) or "npchild" (... with a
   non-presence child container);  invalid: number of tested paths that do not exist (from the
   run of the machine: MeaningOutcome's, or 0 in the fork where no run gets that far).
   Result: compilation error or not, and the warnings as a bag of kinds.                  *)
UseOutcome(stmt, exprOK, peOK, npc, ninvalid) ==
  LET error == ~exprOK \/ (stmt = "when" /\ ~peOK) IN
  [error |-> error,
   compilerError |-> IF ~error /\ stmt = "must" /\ ~peOK THEN 1 ELSE 0,      \* a saved warning of type CompilerError
   configdError |-> 0,                 \* type ConfigdMustCompilerError: only for the machine of a configd:must extension (none here)
   badFields |-> 0,                    \* saved warnings whose (node, statement, location, test path) are not
                                       \* (name of the holder node, the expression, file:line of the statement, "(n/a)")
   invalidPath |-> IF ~error /\ peOK THEN ninvalid ELSE 0,                  \* DoesntExist / MissingOrWrongPrefix, one per path
   onNPCont |-> IF ~error /\ peOK /\ npc = "np" THEN 1 ELSE 0,
   onNPContNPChild |-> IF ~error /\ peOK /\ npc = "npchild" THEN 1 ELSE 0]
=============================================================================
