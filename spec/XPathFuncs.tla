----------------------------- MODULE XPathFuncs -----------------------------
(* The XPath function table as a piece of package state, and what compilations and
   runs see of it (xpath/symbol.go xpathFunctionTable + LookupXpathFunction,
   xpath/plugin_symbols.go RegisterCustomFunctions / validateName / wrapFnWithRecover,
   xpath/program.go CodeBltin + convertArgType, xpath/common_lexer.go function-name lexing).

   State   tbl     name -> symbol          (starts as the core library)
           loaded  the lazy one-time plugin load has happened
           gen     number of registrations so far (stamps the symbols they create)
           machs   the machines compiled so far: expression bound to the SYMBOLS of the
                   moment of compilation - a machine keeps its symbols for life
   Steps   Register(batch)  every well-named entry replaces/creates its table entry
           Lookup(name, allow, chk)
           Compile(e, allow, chk)   unknown function / wrong arity / a machine
           Run(m)                   value or error of machine m (pure in the machine)

   Deviations of the code that are modelled as they are (named, not idealised):
     ShadowCore   registering a custom function under a core name replaces the core
                  entry; the name then needs allow=TRUE like any custom function
     GateBeforeChk  a name that is in the table but gated (custom, allow=FALSE) is
                  "not found" even when the user checker would vouch for it
     DummyArity0  a symbol vouched for by the user checker takes no arguments and fails
                  when run ("Cannot run null bltin/custom fn ptr")
     NilDefault   a panicking custom function without a default value makes the run fail
   Properties checked on the model: the table only grows and core names never leave it,
   `loaded` is stable, machines are immutable (their run result is a function of the
   machine alone), a machine compiled with allow=FALSE holds no registered custom symbol.
   The harness replays complete behaviours (xp funcs) and compares every observation.    *)
EXTENDS XPathAst, Json, SequencesExt
CONSTANTS MaxSteps,      \* length of a behaviour (simulation)
          MaxGen, MaxMachs,   \* bounds of the exhaustive exploration: registrations, machines
          Emit           \* TRUE: keep the history and print each complete behaviour (used with -simulate)
VARIABLES tbl, loaded, gen, machs, hist

fvars == <<tbl, loaded, gen, machs, hist>>

\* ----------------------------------------------------------------- symbols
CoreArgs(f) == CASE f \in F0 -> << >> [] f \in F1 -> <<ParamSort(f, 1)>> [] f \in F2 -> <<ParamSort(f, 1), ParamSort(f, 2)>>
                 [] f \in F3 -> <<ParamSort(f, 1), ParamSort(f, 2), ParamSort(f, 3)>>
CoreNames == F0 \cup F1 \cup F2 \cup F3
CoreSym(f) == [name |-> f, custom |-> FALSE, dummy |-> FALSE, args |-> CoreArgs(f), ret |-> "core", beh |-> "core", gen |-> 0, def |-> "typed"]
DummySym(f) == [name |-> f, custom |-> TRUE, dummy |-> TRUE, args |-> << >>, ret |-> "none", beh |-> "dummy", gen |-> 0, def |-> "none"]
CustomSym(i, g) == [name |-> i.name, custom |-> TRUE, dummy |-> FALSE, args |-> i.args, ret |-> i.ret, beh |-> i.beh, gen |-> g, def |-> i.def]
InitTbl == [f \in CoreNames |-> CoreSym(f)]

FLower == {"a","b","c","d","e","f","g","h","i","j","k","l","m","n","o","p","q","r","s","t","u","v","w","x","y","z"}
FDigit == {"0","1","2","3","4","5","6","7","8","9"}
\* plugin_symbols.go validateName: lower-case letters, digits (not first) and hyphens
ValidName(n) == /\ Len(n) > 0 /\ SubSeq(n, 1, 1) \notin FDigit
                /\ \A i \in 1..Len(n) : SubSeq(n, i, i) \in FLower \cup FDigit \cup {"-"}

\* registration entries:  [name, args (sorts n/s/b/object), ret, beh (const/arg/panic/partial/ext), def (typed/none)]
Info(n, a, r, b, d) == [name |-> n, args |-> a, ret |-> r, beh |-> b, def |-> d]
RECURSIVE RegAll(_, _, _)
RegAll(t, batch, g) == IF batch = << >> THEN t
   ELSE LET i == batch[1]
            t1 == IF ValidName(i.name) THEN (i.name :> CustomSym(i, g)) @@ t ELSE t
        IN RegAll(t1, Tail(batch), g)

\* symbol.go LookupXpathFunction
Lookup(t, name, allow, chk) ==
  IF name \in DOMAIN t
  THEN (IF ~t[name].custom \/ allow THEN [found |-> TRUE, sym |-> t[name]] ELSE [found |-> FALSE, sym |-> DummySym(name)])
  ELSE (IF name \in chk THEN [found |-> TRUE, sym |-> DummySym(name)] ELSE [found |-> FALSE, sym |-> DummySym(name)])

\* ----------------------------------------------------------------- expressions
(* source forms:  XPathAst's num / lit / bin / path, and [k |-> "call", f, args] for every function call;
   bound forms:   the same with [k |-> "bcall", sym, args]                                        *)
FCall(f, args) == [k |-> "call", f |-> f, args |-> args]
RECURSIVE Bind(_, _, _, _), BindArgs(_, _, _, _)
\* status: the lexer stops at the first unknown function; arity errors are semantic and do not stop the parse
Worst(a, b) == IF "unknown" \in {a, b} THEN "unknown" ELSE IF "arity" \in {a, b} THEN "arity" ELSE "ok"
BindArgs(as, t, allow, chk) ==
  IF as = << >> THEN [st |-> "ok", args |-> << >>]
  ELSE LET h == Bind(as[1], t, allow, chk)  r == BindArgs(Tail(as), t, allow, chk)
       IN [st |-> Worst(h.st, r.st), args |-> <<h.ast>> \o r.args]
Bind(e, t, allow, chk) ==
  CASE e.k = "call" ->
         LET l == Lookup(t, e.f, allow, chk)
             a == BindArgs(e.args, t, allow, chk)
         IN [st |-> Worst(IF ~l.found THEN "unknown" ELSE IF Len(e.args) # Len(l.sym.args) THEN "arity" ELSE "ok", a.st),
             ast |-> [k |-> "bcall", sym |-> l.sym, args |-> a.args]]
    [] e.k = "bin" -> LET a == Bind(e.a, t, allow, chk)  b == Bind(e.b, t, allow, chk)
                      IN [st |-> Worst(a.st, b.st), ast |-> [e EXCEPT !.a = a.ast, !.b = b.ast]]
    [] OTHER -> [st |-> "ok", ast |-> e]

RECURSIVE HasCustom(_)
HasCustom(e) == CASE e.k = "bcall" -> (e.sym.custom /\ ~e.sym.dummy) \/ \E i \in 1..Len(e.args) : HasCustom(e.args[i])
                  [] e.k = "bin" -> HasCustom(e.a) \/ HasCustom(e.b)
                  [] OTHER -> FALSE

\* conversion of an argument to the declared parameter sort (program.go convertArgType)
Conv(sort, v) == CASE sort = "n" -> WithJ(VN(ToNum(v)), v.j) [] sort = "s" -> WithJ(VS(ToStr(v)), v.j)
                   [] sort = "b" -> WithJ(VB(ToBool(v)), v.j) [] OTHER -> v
BadArg(v) == CASE v.t = "s" -> v.s = "" [] v.t = "n" -> IsNaN(v.n) [] v.t = "b" -> ~v.b [] OTHER -> TRUE   \* the operand class a "partial" function fails on
TypedConst(r, n, s, b) == CASE r = "n" -> VN(Num(n)) [] r = "s" -> VS(s) [] OTHER -> VB(b)
Failed == [err |-> TRUE, v |-> VB(FALSE), calls |-> << >>]
RECURSIVE EvalB(_), EvalArgs(_)
EvalArgs(as) == IF as = << >> THEN [err |-> FALSE, vs |-> << >>, calls |-> << >>]
                ELSE LET h == EvalB(as[1]) IN
                     IF h.err THEN [err |-> TRUE, vs |-> << >>, calls |-> h.calls]
                     ELSE LET r == EvalArgs(Tail(as)) IN [err |-> r.err, vs |-> <<h.v>> \o r.vs, calls |-> h.calls \o r.calls]
EvalB(e) ==
  CASE e.k = "bcall" ->
         LET a == EvalArgs(e.args)  s == e.sym IN
         IF a.err THEN [Failed EXCEPT !.calls = a.calls]
         ELSE LET cv == [i \in 1..Len(a.vs) |-> Conv(s.args[i], a.vs[i])] IN
           CASE s.beh = "core" -> [err |-> FALSE, calls |-> a.calls,
                                   v |-> CASE Len(cv) = 0 -> Fn0(s.name) [] Len(cv) = 1 -> Fn1(s.name, cv[1])
                                           [] Len(cv) = 2 -> Fn2(s.name, cv[1], cv[2]) [] OTHER -> Fn3(s.name, cv[1], cv[2], cv[3])]
             [] s.beh = "const" -> [err |-> FALSE, calls |-> a.calls, v |-> TypedConst(s.ret, s.gen, "g" \o ToString(s.gen), s.gen % 2 = 1)]
             [] s.beh = "arg" -> [err |-> FALSE, calls |-> a.calls, v |-> cv[1]]
             [] s.beh = "ext" ->            \* consults state outside the data tree: the number of registrations so far, at the time of THIS run
                    [err |-> FALSE, calls |-> a.calls, v |-> TypedConst(s.ret, gen, "g" \o ToString(gen), gen % 2 = 1)]
             [] s.beh = "partial" ->        \* fails for one class of its (converted) first argument only; a failure is confined to its call
                    IF Len(cv) > 0 /\ ~BadArg(cv[1]) THEN [err |-> FALSE, calls |-> a.calls, v |-> cv[1]]
                    ELSE IF s.def = "typed" THEN [err |-> FALSE, calls |-> a.calls, v |-> TypedConst(s.ret, 99, "def", TRUE)]
                    ELSE [Failed EXCEPT !.calls = a.calls]
             [] s.beh = "panic" -> IF s.def = "typed" THEN [err |-> FALSE, calls |-> a.calls, v |-> TypedConst(s.ret, 99, "def", TRUE)]
                                   ELSE [Failed EXCEPT !.calls = a.calls]                       \* NilDefault
             [] OTHER -> [Failed EXCEPT !.calls = a.calls]                                      \* DummyArity0: not runnable
    [] e.k = "bin" -> LET a == EvalB(e.a) IN
                      IF a.err THEN a
                      ELSE LET b == EvalB(e.b) IN
                           IF b.err THEN [b EXCEPT !.calls = a.calls \o b.calls]
                           ELSE [err |-> FALSE, v |-> Bin(e.op, a.v, b.v), calls |-> a.calls \o b.calls]
    [] OTHER -> LET r == Eval(e, EmptyPath) IN [err |-> FALSE, v |-> r.v, calls |-> r.calls]

\* text of a source expression
RECURSIVE Txt(_), ArgsTxt(_)
ArgsTxt(as) == IF as = << >> THEN "" ELSE Txt(as[1]) \o (IF Len(as) > 1 THEN ", " ELSE "") \o ArgsTxt(Tail(as))
Txt(e) == CASE e.k = "call" -> e.f \o "(" \o ArgsTxt(e.args) \o ")"
            [] e.k = "bin" -> "(" \o Txt(e.a) \o ") " \o e.op \o " (" \o Txt(e.b) \o ")"
            [] OTHER -> Render(e, "min", 0)

\* ----------------------------------------------------------------- pools
NumE(i) == [k |-> "num", txt |-> ToString(i), v |-> Num(i)]
LitE(s) == [k |-> "lit", s |-> s]
RelE(n) == [k |-> "path", root |-> "rel", arg |-> 0, steps |-> <<[n |-> n, pfx |-> "", preds |-> << >>]>>]
BinE(op, a, b) == [k |-> "bin", op |-> op, a |-> a, b |-> b]
FnPool == {"my-fn", "k2", "x2", "-x", "contains", "string", "true", "nosuch"}
NamePool == FnPool \cup {"Bad_Name", "9x", "", "concat"}
InfoPool == {Info("my-fn", <<"n">>, "n", "arg", "typed"), Info("my-fn", <<"s">>, "s", "const", "typed"), Info("my-fn", << >>, "b", "const", "typed"),
             Info("k2", <<"s", "b">>, "s", "const", "typed"), Info("k2", <<"object", "n">>, "n", "arg", "typed"),
             Info("x2", << >>, "n", "panic", "none"), Info("x2", <<"b">>, "s", "panic", "typed"), Info("x2", <<"b">>, "b", "arg", "typed"),
             Info("-x", << >>, "n", "const", "typed"), Info("Bad_Name", << >>, "n", "const", "typed"), Info("9x", << >>, "s", "const", "typed"),
             Info("", << >>, "b", "const", "typed"), Info("contains", <<"s", "s">>, "b", "const", "typed"), Info("true", << >>, "s", "const", "typed"),
             Info("string", <<"n">>, "n", "arg", "typed"),
             \* functions that fail for one operand class only (empty string / NaN / false) and echo every other operand
             Info("my-fn", <<"s">>, "s", "partial", "typed"), Info("my-fn", <<"n">>, "n", "partial", "none"), Info("x2", <<"b">>, "b", "partial", "typed"),
             Info("k2", <<"s", "b">>, "s", "partial", "typed"),
             \* functions whose answer depends on state outside the tree (it changes between runs of one machine)
             Info("my-fn", <<"s">>, "n", "ext", "typed"), Info("x2", <<"b">>, "s", "ext", "typed"), Info("k2", <<"s", "b">>, "b", "ext", "typed")}
ArgLists == {<< >>, <<NumE(1)>>, <<LitE("12")>>, <<NumE(0), LitE("x")>>, <<LitE("ab"), LitE("b")>>, <<FCall("true", << >>)>>,
             <<RelE("vabs")>>, <<RelE("vnum")>>, <<RelE("a"), NumE(2)>>}
Calls1(u_) == {FCall(f, as) : f \in FnPool \ {"-x"}, as \in ArgLists}
Nested(u_) == {FCall(f, <<FCall(g, << >>)>>) : f \in {"my-fn", "x2", "string"}, g \in {"my-fn", "x2", "k2", "true", "nosuch"}}
              \cup {FCall("k2", <<FCall(f, as), FCall(g, << >>)>>) : f \in {"my-fn", "string"}, g \in {"x2", "true", "my-fn"}, as \in {<<NumE(1)>>, <<LitE("12")>>}}
Wrapped(u_) == UNION {{BinE("+", c, NumE(1)), BinE("=", c, LitE("g1")), BinE("and", c, FCall("true", << >>)), FCall("string", <<c>>),
                       FCall("concat", <<c, LitE("x")>>), BinE("or", FCall("x2", << >>), c)} : c \in Calls1(0)}
ExprPool(u_) == Calls1(0) \cup Nested(0) \cup Wrapped(0)
ChkPool == {{}, {"my-fn"}, {"nosuch", "k2", "contains"}}

\* ----------------------------------------------------------------- behaviour
Obs(o) == [obs |-> o, rb |-> FALSE, rn |-> NaN, rs |-> ""]
Log(rec) == hist' = IF Emit THEN Append(hist, rec) ELSE hist     \* the exhaustive exploration keeps no history
Init == tbl = InitTbl /\ loaded = FALSE /\ gen = 0 /\ machs = << >> /\ hist = << >>

Register(batch) ==
  /\ gen' = gen + 1 /\ loaded' = TRUE
  /\ tbl' = RegAll(tbl, batch, gen + 1)
  /\ Log([a |-> "reg", infos |-> [i \in 1..Len(batch) |-> [name |-> batch[i].name, args |-> batch[i].args, ret |-> batch[i].ret,
                                                                            beh |-> batch[i].beh, def |-> batch[i].def, gen |-> gen + 1]]])
  /\ UNCHANGED machs
DoLookup(name, allow, chk) ==
  /\ loaded' = TRUE
  /\ Log([a |-> "lookup", name |-> name, allow |-> allow, chk |-> SetToSeq(chk),
                           want |-> Obs(IF Lookup(tbl, name, allow, chk).found THEN "found" ELSE "notfound")])
  /\ UNCHANGED <<tbl, gen, machs>>
DoCompile(e, allow, chk) ==
  LET b == Bind(e, tbl, allow, chk) IN
  /\ loaded' = TRUE
  /\ machs' = Append(machs, [st |-> b.st, ast |-> b.ast, allow |-> allow])
  /\ Log([a |-> "compile", m |-> Len(machs) + 1, expr |-> Txt(e), allow |-> allow, chk |-> SetToSeq(chk), want |-> Obs(b.st)])
  /\ UNCHANGED <<tbl, gen>>
RunObsOf(mach) == LET r == EvalB(mach.ast) IN
             IF r.err THEN Obs("err")
             ELSE IF ~r.v.j THEN Obs("unjudged")
             ELSE [obs |-> "value", rb |-> ToBool(r.v), rn |-> ToNum(r.v), rs |-> ToStr(r.v)]
RunObs(m) == RunObsOf(machs[m])
DoRun(m) ==
  /\ machs[m].st = "ok"
  /\ Log([a |-> "run", m |-> m, want |-> RunObs(m)])
  /\ UNCHANGED <<tbl, loaded, gen, machs>>

\* exhaustive exploration (small pools come from the configuration's definition overrides)
Batches(u_) == {<<i>> : i \in InfoPool} \cup {<<i, j>> : i \in InfoPool, j \in {x \in InfoPool : x.name \in {"my-fn", "Bad_Name", "contains"}}}
Next == \/ gen < MaxGen /\ \E b \in Batches(0) : Register(b)
        \/ \E n \in NamePool, al \in BOOLEAN, c \in ChkPool : DoLookup(n, al, c)
        \/ Len(machs) < MaxMachs /\ \E e \in ExprPool(0), al \in BOOLEAN, c \in ChkPool : DoCompile(e, al, c)
        \/ \E m \in 1..Len(machs) : DoRun(m)
Spec == Init /\ [][Next]_fvars

\* random behaviours (-simulate): one successor per state, drawn with RandomElement
RNext == /\ Len(hist) < MaxSteps
         /\ LET k == RandomElement(1..10)
                c == RandomElement(ChkPool)
            IN CASE k <= 2 -> Register(RandomElement(Batches(0)))
                 [] k = 3 -> DoLookup(RandomElement(NamePool), RandomElement(BOOLEAN), c)
                 [] k = 4 -> DoCompile(RandomElement(ExprPool(0)), RandomElement(1..4) > 1, c)
                 [] k \in 5..6 -> LET al == RandomElement(1..4) > 1            \* mostly expressions that compile in the current table
                                      good == {e \in ExprPool(0) : Bind(e, tbl, al, c).st = "ok"}
                                  IN DoCompile(RandomElement(IF good = {} THEN ExprPool(0) ELSE good), al, c)
                 [] OTHER -> IF \E m \in 1..Len(machs) : machs[m].st = "ok"
                             THEN DoRun(RandomElement({m \in 1..Len(machs) : machs[m].st = "ok"}))
                             ELSE DoCompile(RandomElement(Calls1(0)), TRUE, c)
RSpec == Init /\ [][RNext]_fvars

\* ----------------------------------------------------------------- properties
TableGrows == [][DOMAIN tbl \subseteq DOMAIN tbl']_fvars
CoreKept == CoreNames \subseteq DOMAIN tbl
LoadedStable == [][loaded => loaded']_fvars
MachinesImmutable == [][\A m \in 1..Len(machs) : machs'[m] = machs[m]]_fvars
Gate == \A m \in 1..Len(machs) : (machs[m].st = "ok" /\ ~machs[m].allow) => ~HasCustom(machs[m].ast)
OnlyValidNames == \A n \in DOMAIN tbl : n \in CoreNames \/ ValidName(n)
StampInv == \A n \in DOMAIN tbl : tbl[n].gen <= gen /\ (tbl[n].custom <=> tbl[n].gen > 0)
\* a run repeats: whatever happens to the table, the observation of an existing machine stays what it was
RunsRepeat == [][\A m \in 1..Len(machs) : machs[m].st = "ok" => RunObsOf(machs'[m]) = RunObsOf(machs[m])]_fvars
EmitBehaviour == (Emit /\ Len(hist) = MaxSteps) => PrintT("FUNCJSON " \o ToJson([steps |-> hist]))
=============================================================================
