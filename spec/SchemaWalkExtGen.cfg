INIT GInit
NEXT GNext
CONSTANT Shapes = {1, 2, 3, 4, 5, 6, 7, 8, 9, 100, 101, 102, 103, 104}
CONSTANT NFam = 10
CHECK_DEADLOCK FALSE
