INIT GInit
NEXT GNext
CONSTANT Shapes = {1, 2, 100}
CONSTANT MaxEntries = 2
CONSTANT Wide = {5, 7, 12, 15}
CONSTANT MaxLL = 3
CONSTANT NRand = 20
CONSTANT RandDepth = 3
CHECK_DEADLOCK FALSE
