----------------------------- MODULE LockProto -----------------------------
(* The lock protocol of LookupXpathFunction on its own, for any number of compiling
   goroutines and any number of lookups each (XPathConc.tla is the bounded,
   implementation-shaped model that the harness replays; XPathConc refines this module,
   checked by TLC: PROPERTY LP!Spec in XPathConc_MC.cfg).  The safety properties are
   proved here for unbounded Comps with TLAPS (inductive invariant IndInv).

     mu      0 = free, otherwise the compiler holding the global mutex
     loaded  the plugin table has been loaded (pluginsLoaded)
     nloads  how many times the load ran
     pc      idle -> atEnter -> (waiting ->) locked -> atExit -> idle | atEnter | done           *)
EXTENDS Integers, TLAPS
CONSTANT Comps
ASSUME CompsAssump == 0 \notin Comps
VARIABLES mu, loaded, nloads, pc
vars == <<mu, loaded, nloads, pc>>
States == {"idle", "atEnter", "waiting", "locked", "atExit", "done"}

Init == mu = 0 /\ loaded = FALSE /\ nloads = 0 /\ pc = [p \in Comps |-> "idle"]
Arrive(p) == /\ pc[p] = "idle" /\ \E s \in {"atEnter", "done"} : pc' = [pc EXCEPT ![p] = s]
             /\ UNCHANGED <<mu, loaded, nloads>>
Acquire(p) == /\ pc[p] = "atEnter" /\ mu = 0 /\ mu' = p /\ pc' = [pc EXCEPT ![p] = "locked"]
              /\ UNCHANGED <<loaded, nloads>>
Block(p) == /\ pc[p] = "atEnter" /\ mu # 0 /\ pc' = [pc EXCEPT ![p] = "waiting"]
            /\ UNCHANGED <<mu, loaded, nloads>>
Body(p) == /\ pc[p] = "locked" /\ mu = p
           /\ loaded' = TRUE /\ nloads' = IF loaded THEN nloads ELSE nloads + 1
           /\ pc' = [pc EXCEPT ![p] = "atExit"] /\ UNCHANGED mu
ReleaseFree(p) == /\ pc[p] = "atExit" /\ mu = p /\ \A q \in Comps : pc[q] # "waiting"
                  /\ mu' = 0 /\ \E s \in {"idle", "atEnter", "done"} : pc' = [pc EXCEPT ![p] = s]
                  /\ UNCHANGED <<loaded, nloads>>
HandOver(p, q) == /\ pc[p] = "atExit" /\ mu = p /\ pc[q] = "waiting"
                  /\ mu' = q /\ \E s \in {"idle", "atEnter", "done"} : pc' = [pc EXCEPT ![p] = s, ![q] = "locked"]
                  /\ UNCHANGED <<loaded, nloads>>
Next == \E p \in Comps : Arrive(p) \/ Acquire(p) \/ Block(p) \/ Body(p) \/ ReleaseFree(p) \/ (\E q \in Comps : HandOver(p, q))
Spec == Init /\ [][Next]_vars

InCritical(p) == pc[p] \in {"locked", "atExit"}
TypeOK == /\ mu \in Comps \cup {0} /\ loaded \in BOOLEAN /\ nloads \in Nat /\ pc \in [Comps -> States]
MutualExclusion == \A p, q \in Comps : InCritical(p) /\ InCritical(q) => p = q
LockConsistent == \A p \in Comps : InCritical(p) <=> mu = p
LoadOnce == nloads <= 1 /\ (loaded <=> nloads = 1)
ReadAfterLoad == \A p \in Comps : pc[p] = "atExit" => loaded
WaitersBehindHolder == (\E q \in Comps : pc[q] = "waiting") => mu # 0
IndInv == TypeOK /\ LockConsistent /\ LoadOnce /\ ReadAfterLoad /\ WaitersBehindHolder

THEOREM InitInv == Init => IndInv
  BY CompsAssump DEF Init, IndInv, TypeOK, LockConsistent, LoadOnce, ReadAfterLoad, WaitersBehindHolder, InCritical, States

THEOREM StepInv == IndInv /\ [Next]_vars => IndInv'
<1> SUFFICES ASSUME IndInv, [Next]_vars PROVE IndInv'
  OBVIOUS
<1> USE CompsAssump DEF IndInv, TypeOK, LockConsistent, LoadOnce, ReadAfterLoad, WaitersBehindHolder, InCritical, States
<1>1 ASSUME NEW p \in Comps, Arrive(p) PROVE IndInv'
  BY <1>1 DEF Arrive
<1>2 ASSUME NEW p \in Comps, Acquire(p) PROVE IndInv'
  BY <1>2 DEF Acquire
<1>3 ASSUME NEW p \in Comps, Block(p) PROVE IndInv'
  BY <1>3 DEF Block
<1>4 ASSUME NEW p \in Comps, Body(p) PROVE IndInv'
  BY <1>4 DEF Body
<1>5 ASSUME NEW p \in Comps, ReleaseFree(p) PROVE IndInv'
  BY <1>5 DEF ReleaseFree
<1>6 ASSUME NEW p \in Comps, NEW q \in Comps, HandOver(p, q) PROVE IndInv'
  BY <1>6 DEF HandOver
<1>7 CASE UNCHANGED vars
  BY <1>7 DEF vars
<1> QED BY <1>1, <1>2, <1>3, <1>4, <1>5, <1>6, <1>7 DEF Next

THEOREM Safety == Spec => [](MutualExclusion /\ LoadOnce /\ ReadAfterLoad)
<1>1 IndInv => MutualExclusion /\ LoadOnce /\ ReadAfterLoad
  BY DEF IndInv, LockConsistent, MutualExclusion, InCritical
<1> QED BY InitInv, StepInv, <1>1, PTL DEF Spec
=============================================================================
