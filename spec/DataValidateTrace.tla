-------------------------- MODULE DataValidateTrace --------------------------
(* Trace validation for C18 (code -> model).  The harness runs schema / data pairs
   (sampled by TLC with RandomElement, plus seeded mutations of the data made by the
   harness: a node deleted, a list entry duplicated under a new key, a leaf-list
   value appended) through schema.ValidateSchema and schema.AddDefaults and logs
   one event per tree:
     [sid, d, errs, deco1, deco2, after, errs2]
        errs = the errors decoded to [t, path, k, n] (type class and Path; k, n optional); deco1 / deco2 = walk of AddDefaults applied
        once / twice; then, on the SAME tree object, after = walk of the explicit tree again,
        errs2 = ValidateSchema again.
   The event must be what the specification prescribes:
     verdict     errors are reported iff Violations # {}
     spurious    every reported error stands for a violation of the tree (per type and path, counted)
     unreported  every violation in MustReport is reported (per type and path, counted)
     decorate    deco1 = Decorate(d) (modulo empty non-presence containers)
     twice       deco2 = the same tree
     explicit-altered   after = d: Decorate is a view, the explicit tree is what it was
     verdict-changed    errs2 is judged like errs (same tree, same violations)
   A deviating event is reported (FAILJSON) with a classification in spec terms.  *)
EXTENDS DataValidate, Json, TLC
CONSTANTS TraceFile, SchemaFile, MaxFail
Trace   == ndJsonDeserialize(TraceFile)
Schemas == ndJsonDeserialize(SchemaFile)
SchemaOf(sid) == Schemas[CHOOSE i \in 1..Len(Schemas) : Schemas[i].id = sid].kids

RECURSIVE ToSet(_)
ToSet(kids) == {D(kids[i].name, kids[i].vals, ToSet(kids[i].kids)) : i \in 1..Len(kids)}
\* ---- reported errors against the violation sets, independent of message wording ----
\* A decoded error is [t, path, k, n]: t / path from the error's type and Path field (VKey says
\* which violations such an error can stand for); k, n only when the message matched a known
\* wording (optional refinement, "" otherwise).  Per key the errors are counted: more errors
\* than violations = spurious, fewer than MustReport = unreported; a refined error must find a
\* violation of its class (missing: same node), unrefined errors stand for any violation of the key.
ErrKey(x) == [t |-> x.t, path |-> x.path]
Cls(k, n) == [k |-> k, n |-> IF k = "missing" THEN n ELSE ""]
JudgeErrs(viol, must, errs) ==
  LET I          == 1..Len(errs)
      keys       == {VKey(v) : v \in viol} \cup {ErrKey(errs[i]) : i \in I}
      obs(K)     == {i \in I : ErrKey(errs[i]) = K}
      ref(K)     == {i \in obs(K) : errs[i].k # ""}
      classes(K) == {Cls(v.k, v.n) : v \in {w \in viol : VKey(w) = K}} \cup {Cls(errs[i].k, errs[i].n) : i \in ref(K)}
      nRef(K, c) == Cardinality({i \in ref(K) : Cls(errs[i].k, errs[i].n) = c})
      nIn(S, K, c) == Cardinality({v \in S : VKey(v) = K /\ Cls(v.k, v.n) = c})
      spur(K)    == \/ Cardinality(obs(K)) > Cardinality({v \in viol : VKey(v) = K})
                    \/ \E c \in classes(K) : nRef(K, c) > nIn(viol, K, c)
      \* MustReport violations no refined error of their class stands for need an unrefined one
      left(K)    == UNION {{<<c, j>> : j \in (nRef(K, c) + 1)..nIn(must, K, c)} : c \in classes(K)}
      unrep(K)   == Cardinality(left(K)) > Cardinality(obs(K) \ ref(K))
      bad        == IF (Len(errs) = 0) # (viol = {}) THEN "verdict"
                    ELSE IF \E K \in keys : spur(K) THEN "spurious"
                    ELSE IF \E K \in keys : unrep(K) THEN "unreported" ELSE ""
      K1         == IF bad = "spurious" THEN CHOOSE K \in keys : spur(K)
                    ELSE IF bad = "unreported" THEN CHOOSE K \in keys : unrep(K)
                    ELSE IF keys # {} THEN CHOOSE K \in keys : TRUE ELSE [t |-> "none", path |-> << >>]
      kinds      == {v.k : v \in {w \in viol : VKey(w) = K1}}
  IN [bad |-> bad, t |-> K1.t, path |-> K1.path,
      k |-> IF Cardinality(kinds) = 1 THEN CHOOSE k \in kinds : TRUE ELSE IF kinds = {} THEN "none" ELSE "several"]

\* the nodes of a tree as [path, vals]
RECURSIVE Flat(_, _)
Flat(dk, path) == UNION {{[path |-> path \o <<d.name>>, vals |-> d.vals]} \cup Flat(d.kids, path \o <<d.name>>) : d \in dk}
\* a representative of a set of nodes: one that carries a value if there is any
Pick(S) == IF \E e \in S : e.vals # << >> THEN CHOOSE e \in S : e.vals # << >> ELSE CHOOSE e \in S : TRUE
\* is the schema node reached by a data path below a choice?
RECURSIVE UnderChoice(_, _)
UnderChoiceIn(kids, nm) == \E i \in 1..Len(kids) : kids[i].kind \in {"choice", "case"} /\ HasVisible(kids[i].kids, nm)
UnderChoice(sk, path) ==
  IF path = << >> \/ ~HasVisible(sk, path[1]) THEN FALSE
  ELSE LET s == VisibleNamed(sk, path[1]) IN
       \/ UnderChoiceIn(sk, path[1])
       \/ IF s.kind = "list" THEN Len(path) > 2 /\ UnderChoice(s.kids, SubSeq(path, 3, Len(path)))
          ELSE Len(path) > 1 /\ UnderChoice(s.kids, Tail(path))
DecoDiff(sch, d, want, got) ==
  LET extra == Flat(got, << >>) \ Flat(want, << >>)
      lost  == Flat(want, << >>) \ Flat(got, << >>)
      expl  == Flat(Prune(sch, d), << >>)
      x     == IF extra # {} THEN Pick(extra) ELSE Pick(lost)
  IN [what |-> IF (lost \cap expl) # {} THEN "explicit-data-altered"
               ELSE IF extra # {} THEN "extra-node" ELSE "default-missing",
      inchoice |-> UnderChoice(sch, x.path), leaf |-> x.path]

VARIABLES l, nfail
TInit == l = 1 /\ nfail = 0
Judge(e) ==
  LET sch  == SchemaOf(e.sid)
      d    == ToSet(e.d)
      viol == Violations(sch, d)
      must == MustReport(sch, d)
      j1   == JudgeErrs(viol, must, e.errs)
      j2   == JudgeErrs(viol, must, e.errs2)
      aft  == ToSet(e.after)
      deco == Prune(sch, Decorate(sch, d))
      g1   == Prune(sch, ToSet(e.deco1))
      g2   == Prune(sch, ToSet(e.deco2))
      vbad == IF j1.bad # "" THEN j1.bad ELSE IF j2.bad # "" THEN "verdict-changed" ELSE ""
      jj   == IF j1.bad # "" THEN j1 ELSE j2
      dbad == IF g1 # deco THEN "decorate" ELSE IF g2 # deco THEN "twice"
              ELSE IF aft # d THEN "explicit-altered" ELSE ""
  IN [vbad |-> vbad, dbad |-> dbad, sid |-> e.sid, d |-> e.d,
      vk |-> IF vbad = "" THEN "" ELSE jj.k, vt |-> IF vbad = "" THEN "" ELSE jj.t, vpath |-> IF vbad = "" THEN << >> ELSE jj.path,
      wantviol |-> {[k |-> v.k, n |-> v.n, path |-> v.path] : v \in viol},
      goterrs |-> IF j1.bad # "" \/ vbad = "" THEN e.errs ELSE e.errs2,
      diff |-> IF dbad = "" THEN [what |-> "", inchoice |-> FALSE, leaf |-> << >>]
               ELSE IF dbad = "explicit-altered" THEN DecoDiff(sch, d, d, aft)
               ELSE DecoDiff(sch, d, deco, IF dbad = "decorate" THEN g1 ELSE g2),
      wantdeco |-> IF dbad = "" THEN {} ELSE IF dbad = "explicit-altered" THEN d ELSE deco,
      gotdeco |-> IF dbad = "" THEN {} ELSE (IF dbad = "decorate" THEN g1 ELSE IF dbad = "twice" THEN g2 ELSE aft)]
TStep == /\ l <= Len(Trace) /\ l' = l + 1
         /\ LET j == Judge(Trace[l]) IN
            IF j.vbad = "" /\ j.dbad = "" THEN UNCHANGED nfail
            ELSE /\ nfail' = nfail + 1
                 /\ (nfail >= MaxFail \/ PrintT("FAILJSON " \o ToJson(j)))
Consumed == l = Len(Trace) + 1
Report == Consumed => PrintT(<<"TRACE-RESULT", Len(Trace), nfail>>)
=============================================================================
