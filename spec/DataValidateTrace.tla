-------------------------- MODULE DataValidateTrace --------------------------
(* Trace validation for C18 (code -> model).  The harness runs schema / data pairs
   (sampled by TLC with RandomElement, plus seeded mutations of the data made by the
   harness: a node deleted, a list entry duplicated under a new key, a leaf-list
   value appended) through schema.ValidateSchema and schema.AddDefaults and logs
   one event per tree:
     [sid, d, errs, deco1, deco2, after, errs2]
        errs = the errors decoded to [k, n, path]; deco1 / deco2 = walk of AddDefaults applied
        once / twice; then, on the SAME tree object, after = walk of the explicit tree again,
        errs2 = ValidateSchema again.
   The event must be what the specification prescribes:
     verdict     errors are reported iff Violations # {}
     spurious    every reported error is a violation of the tree
     unreported  every violation in MustReport is reported
     decorate    deco1 = Decorate(d) (modulo empty non-presence containers)
     twice       deco2 = the same tree
     explicit-altered   after = d: Decorate is a view, the explicit tree is what it was
     verdict-changed    errs2 is judged like errs (same tree, same violations)
   A deviating event is reported (FAILJSON) with a classification in spec terms.  *)
EXTENDS DataValidate, Json, TLC
CONSTANTS TraceFile, SchemaFile, MaxFail
Trace   == ndJsonDeserialize(TraceFile)
Schemas == ndJsonDeserialize(SchemaFile)
SchemaOf(sid) == Schemas[CHOOSE i \in 1..Len(Schemas) : Schemas[i].id = sid].kids

RECURSIVE ToSet(_)
ToSet(kids) == {D(kids[i].name, kids[i].vals, ToSet(kids[i].kids)) : i \in 1..Len(kids)}
\* how an error identifies its node: the error for a mandatory choice does not name the
\* choice; a cardinality error carries the schema path (no list entry names)
NoChoiceName(v) == [k |-> v.k, n |-> IF v.k = "choice" THEN "" ELSE v.n, path |-> IF v.k = "count" THEN v.sp ELSE v.path]

\* the nodes of a tree as [path, vals]
RECURSIVE Flat(_, _)
Flat(dk, path) == UNION {{[path |-> path \o <<d.name>>, vals |-> d.vals]} \cup Flat(d.kids, path \o <<d.name>>) : d \in dk}
\* a representative of a set of nodes: one that carries a value if there is any
Pick(S) == IF \E e \in S : e.vals # << >> THEN CHOOSE e \in S : e.vals # << >> ELSE CHOOSE e \in S : TRUE
\* is the schema node reached by a data path below a choice?
RECURSIVE UnderChoice(_, _)
UnderChoiceIn(kids, nm) == \E i \in 1..Len(kids) : kids[i].kind \in {"choice", "case"} /\ HasVisible(kids[i].kids, nm)
UnderChoice(sk, path) ==
  IF path = << >> \/ ~HasVisible(sk, path[1]) THEN FALSE
  ELSE LET s == VisibleNamed(sk, path[1]) IN
       \/ UnderChoiceIn(sk, path[1])
       \/ IF s.kind = "list" THEN Len(path) > 2 /\ UnderChoice(s.kids, SubSeq(path, 3, Len(path)))
          ELSE Len(path) > 1 /\ UnderChoice(s.kids, Tail(path))
DecoDiff(sch, d, want, got) ==
  LET extra == Flat(got, << >>) \ Flat(want, << >>)
      lost  == Flat(want, << >>) \ Flat(got, << >>)
      expl  == Flat(Prune(sch, d), << >>)
      x     == IF extra # {} THEN Pick(extra) ELSE Pick(lost)
  IN [what |-> IF (lost \cap expl) # {} THEN "explicit-data-altered"
               ELSE IF extra # {} THEN "extra-node" ELSE "default-missing",
      inchoice |-> UnderChoice(sch, x.path), leaf |-> x.path]

VARIABLES l, nfail
TInit == l = 1 /\ nfail = 0
Judge(e) ==
  LET sch  == SchemaOf(e.sid)
      d    == ToSet(e.d)
      viol == {NoChoiceName(v) : v \in Violations(sch, d)}
      must == {NoChoiceName(v) : v \in MustReport(sch, d)}
      errs == {[k |-> e.errs[i].k, n |-> e.errs[i].n, path |-> e.errs[i].path] : i \in 1..Len(e.errs)}
      ers2 == {[k |-> e.errs2[i].k, n |-> e.errs2[i].n, path |-> e.errs2[i].path] : i \in 1..Len(e.errs2)}
      aft  == ToSet(e.after)
      deco == Prune(sch, Decorate(sch, d))
      g1   == Prune(sch, ToSet(e.deco1))
      g2   == Prune(sch, ToSet(e.deco2))
      vbad == IF (errs = {}) # (viol = {}) THEN "verdict"
              ELSE IF ~(errs \subseteq viol) THEN "spurious"
              ELSE IF ~(must \subseteq errs) THEN "unreported"
              ELSE IF (ers2 = {}) # (viol = {}) \/ ~(ers2 \subseteq viol) \/ ~(must \subseteq ers2) THEN "verdict-changed" ELSE ""
      dbad == IF g1 # deco THEN "decorate" ELSE IF g2 # deco THEN "twice"
              ELSE IF aft # d THEN "explicit-altered" ELSE ""
      v1   == IF vbad = "verdict-changed" THEN [k |-> "after-decorate", n |-> "", path |-> << >>]
              ELSE IF vbad = "spurious" THEN CHOOSE v \in errs \ viol : TRUE
              ELSE IF vbad = "unreported" THEN CHOOSE v \in must \ errs : TRUE
              ELSE IF viol # {} THEN CHOOSE v \in viol : TRUE ELSE [k |-> "none", n |-> "", path |-> << >>]
  IN [vbad |-> vbad, dbad |-> dbad, sid |-> e.sid, d |-> e.d,
      vk |-> IF vbad = "" THEN "" ELSE v1.k, vn |-> IF vbad = "" THEN "" ELSE v1.n,
      wantviol |-> viol, goterrs |-> errs,
      diff |-> IF dbad = "" THEN [what |-> "", inchoice |-> FALSE, leaf |-> << >>]
               ELSE IF dbad = "explicit-altered" THEN DecoDiff(sch, d, d, aft)
               ELSE DecoDiff(sch, d, deco, IF dbad = "decorate" THEN g1 ELSE g2),
      wantdeco |-> IF dbad = "" THEN {} ELSE IF dbad = "explicit-altered" THEN d ELSE deco,
      gotdeco |-> IF dbad = "" THEN {} ELSE (IF dbad = "decorate" THEN g1 ELSE IF dbad = "twice" THEN g2 ELSE aft)]
TStep == /\ l <= Len(Trace) /\ l' = l + 1
         /\ LET j == Judge(Trace[l]) IN
            IF j.vbad = "" /\ j.dbad = "" THEN UNCHANGED nfail
            ELSE /\ nfail' = nfail + 1
                 /\ (nfail >= MaxFail \/ PrintT("FAILJSON " \o ToJson(j)))
Consumed == l = Len(Trace) + 1
Report == Consumed => PrintT(<<"TRACE-RESULT", Len(Trace), nfail>>)
=============================================================================
