------------------------------ MODULE XPathLex ------------------------------
(* Character-level tokeniser of XPath 1.0 (section 3.7: longest possible token,
   ExprWhitespace between tokens) producing the text tokens XPathGrammar judges.
   Characters are one-character TLC strings; placeholders stand for bytes the harness
   substitutes: "~" a non-ASCII name character (e-acute), "`" an invalid UTF-8 byte,
   "^" vertical tab, "{" NUL, "}" no-break space; form feed is itself.  None of them is
   XPath whitespace or part of any token, so they are lexical errors.  Tokenise(cs) = [ok |-> BOOLEAN, ts |-> tokens].       *)
EXTENDS XPathGrammar

NameStart == Letters \cup {"~"}
NameChar == NameStart \cup Digits \cup {"-", "."}
WsChars == {" ", "\t", "\n", "\r"}
C(cs, i) == IF i <= Len(cs) THEN SubSeq(cs, i, i) ELSE ""
RECURSIVE SpanWhile(_, _, _)
\* index of the first position >= i whose character is not in S
SpanWhile(cs, i, S) == IF i <= Len(cs) /\ C(cs, i) \in S THEN SpanWhile(cs, i + 1, S) ELSE i
RECURSIVE FindCh(_, _, _)
FindCh(cs, i, c) == IF i > Len(cs) THEN 0 ELSE IF C(cs, i) = c THEN i ELSE FindCh(cs, i + 1, c)

RECURSIVE TokFrom(_, _)
Fail == [ok |-> FALSE, ts |-> << >>]
Cons(t, r) == IF r.ok THEN [ok |-> TRUE, ts |-> <<t>> \o r.ts] ELSE r
TokFrom(cs, i) ==
  IF i > Len(cs) THEN [ok |-> TRUE, ts |-> << >>]
  ELSE LET c == C(cs, i)  d == C(cs, i + 1) IN
    IF c \in WsChars THEN TokFrom(cs, i + 1)
    ELSE IF c \in {"'", "\""} THEN
         LET j == FindCh(cs, i + 1, c) IN IF j = 0 THEN Fail ELSE Cons(SubSeq(cs, i, j), TokFrom(cs, j + 1))
    ELSE IF c \in Digits THEN           \* Digits ('.' Digits?)?
         LET j == SpanWhile(cs, i, Digits)
             k == IF C(cs, j) = "." THEN SpanWhile(cs, j + 1, Digits) ELSE j
         IN Cons(SubSeq(cs, i, k - 1), TokFrom(cs, k))
    ELSE IF c = "." /\ d \in Digits THEN  \* '.' Digits
         LET k == SpanWhile(cs, i + 1, Digits) IN Cons(SubSeq(cs, i, k - 1), TokFrom(cs, k))
    ELSE IF c = "." THEN (IF d = "." THEN Cons("..", TokFrom(cs, i + 2)) ELSE Cons(".", TokFrom(cs, i + 1)))
    ELSE IF c = "/" THEN (IF d = "/" THEN Cons("//", TokFrom(cs, i + 2)) ELSE Cons("/", TokFrom(cs, i + 1)))
    ELSE IF c = ":" THEN (IF d = ":" THEN Cons("::", TokFrom(cs, i + 2)) ELSE Fail)
    ELSE IF c = "<" THEN (IF d = "=" THEN Cons("<=", TokFrom(cs, i + 2)) ELSE Cons("<", TokFrom(cs, i + 1)))
    ELSE IF c = ">" THEN (IF d = "=" THEN Cons(">=", TokFrom(cs, i + 2)) ELSE Cons(">", TokFrom(cs, i + 1)))
    ELSE IF c = "!" THEN (IF d = "=" THEN Cons("!=", TokFrom(cs, i + 2)) ELSE Fail)
    ELSE IF c \in {"(", ")", "[", "]", ",", "|", "-", "+", "=", "@", "*"} THEN Cons(c, TokFrom(cs, i + 1))
    ELSE IF c \in NameStart THEN
         LET j == SpanWhile(cs, i, NameChar)       \* NCName = cs[i..j-1]
         IN IF C(cs, j) = ":" /\ C(cs, j + 1) \in NameStart        \* QName prefix:local
            THEN LET k == SpanWhile(cs, j + 1, NameChar) IN Cons(SubSeq(cs, i, k - 1), TokFrom(cs, k))
            ELSE IF C(cs, j) = ":" /\ C(cs, j + 1) = "*" THEN Cons(SubSeq(cs, i, j + 1), TokFrom(cs, j + 2))   \* prefix:*
            ELSE Cons(SubSeq(cs, i, j - 1), TokFrom(cs, j))
    ELSE Fail                              \* '$', '#', control characters, invalid bytes ...
Tokenise(cs) == TokFrom(cs, 1)

\* names containing the non-ASCII placeholder are outside IsNameTok's alphabet: treat "~" as a letter there
CharVerdict(cs) ==
  LET t == Tokenise(cs) IN
  IF ~t.ok THEN [v |-> "reject", why |-> "err:lexical"]
  ELSE IF t.ts = << >> THEN [v |-> "reject", why |-> "empty"]
  ELSE IF \E i \in 1..Len(t.ts) : \E k \in 1..Len(t.ts[i]) : SubSeq(t.ts[i], k, k) = "~" /\ SubSeq(t.ts[i], 1, 1) \notin {"'", "\""}
       THEN [v |-> "unspecified", why |-> "non-ascii-name"]
  ELSE IF \E i \in 1..Len(t.ts) : IsNameTok(t.ts[i]) /\ SubSeq(t.ts[i], Len(t.ts[i]), Len(t.ts[i])) \in {".", "-"}
       THEN [v |-> Verdict(t.ts), why |-> Why(t.ts)]
  ELSE [v |-> Verdict(t.ts), why |-> Why(t.ts)]
\* leafref paths at character level: same tokeniser, but identifiers are ASCII only (RFC 6020 identifier)
LeafrefCharVerdict(cs) ==
  LET t == Tokenise(cs) IN
  IF ~t.ok \/ t.ts = << >> THEN "reject"
  ELSE IF \E i \in 1..Len(t.ts) : \E k \in 1..Len(t.ts[i]) : SubSeq(t.ts[i], k, k) = "~" THEN "reject"
  ELSE LeafrefVerdict(t.ts)
=============================================================================
