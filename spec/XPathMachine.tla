---------------------------- MODULE XPathMachine ----------------------------
(* The machine as a transition system over the pure step function of XPathExec:
   variables, the step action and the design properties TLC checks.            *)
EXTENDS XPathExec

\* ----------------------------------------------------------------- the machine
VARIABLES ast, prog, st, failAt
mvars == <<ast, prog, st, failAt>>
MStep == /\ ~Halted(prog, st)
         /\ st' = Apply(prog, st, failAt)
         /\ UNCHANGED <<ast, prog, failAt>>
Done == Halted(prog, st)

\* --- properties of the design, checked by TLC on every reachable state ---
\* the machine computes the XPath value and asks for exactly the designated nodes
Correct == (Done /\ failAt = 0) =>
              /\ st.err = "none" /\ st.hasRes /\ st.ds = << >>
              /\ st.res = Denote(ast)
              /\ st.calls = Designated(ast)
              /\ st.ps = <<EmptyPath>> /\ st.ks = << >> /\ st.predCount = 0
\* value xor error; an injected failure is reported as itself and nothing after it runs
ValueXorError == Done => ((st.err # "none") # st.hasRes)
FaultFaithful == (Done /\ failAt > 0) =>
                   IF failAt <= Len(Designated(ast))
                   THEN st.err = "env:" \o ToString(failAt) /\ ~st.hasRes /\ Len(st.calls) = failAt
                        /\ st.calls = SubSeq(Designated(ast), 1, failAt)
                   ELSE st.err = "none" /\ st.res = Denote(ast)
\* the stack never underflows on a compiled program
NoRunError == st.err # "run"
=============================================================================
