INIT MInit
NEXT MNext
CONSTANT MaxSteps = 3
INVARIANT NoHazard
CHECK_DEADLOCK FALSE
