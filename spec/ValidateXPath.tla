----------------------------- MODULE ValidateXPath -----------------------------
(* Extension module X-validate-xpath: the when / must / leafref part of data validation
   (schema/validate.go) and the adapter that presents a data tree to XPath
   (schema/xpath_adapter.go).  Structural validation (mandatory, cardinality, unique) and
   defaults are the business of DataValidate (C18) and are not modelled here: the schemas of
   this module have no mandatory / min-elements / unique statements.

   Four parts:
     1. strings       byte order and the natural order of danos/utils/natsort (the mechanism,
                      NatLessCode) next to its intended reading (NatBefore: chunk-wise, digit
                      runs by value)
     2. schema        source records (with the pseudo nodes "augment" and "uses" that hand a when
                      on to the nodes they introduce) and their elaboration, the compiler's view
     3. adapter       the XPath view of a data tree (xdatanode / xvaluenode / xemptyleafnode):
                      children and their sort orders, XChildren with filters, XParent, XRoot,
                      XPath, the configd path(), isKey, list keys
     4. validator     a transition system (StepWith) over an agenda of work items, the error log
                      and the per-session leafref cache; and, separately, the intended meaning
                      (Meaning): which errors a data tree has, as a bag, written over the source
                      schema and the data tree without the adapter, without an agenda

   What can run.  In this fork a location path is a navigation request to an xpath.Entry and
   xpath.NewCtxFromMach supplies none: every expression that contains a location path
   (a name, ".", "..", "/", current(), deref()) FAILS TO RUN (the machine panics, Run() turns the
   panic into a run error); path-free expressions run normally.  An expression is a record
   [txt, v] with v = "true" / "false" (the boolean value XPathAst!Denote gives a path-free
   expression) or "fail" (it contains a path).  A leafref path is a location path, so every
   leafref check fails to run.

   Deliberate oddities of the mechanism (named here, switched by the constant-like parameter
   `odd` of StepWith / Meaning where an RFC 7950 reading exists):
     O1 np-when-ignored   the musts of an unconfigured non-presence container are evaluated
                          without looking at the container's own `when` (validate.go
                          checkNPContMustsInternal); for a configured node a failed when
                          suppresses the musts.  odd = FALSE: an unconfigured non-presence
                          container with a false when does not exist (no musts, no descent).
     O2 case-when-ignored a `when` on a choice or case (written there or handed on by an augment
                          of a choice) is compiled but never evaluated: validation visits data
                          nodes only.  No RFC-right variant of the mechanism is modelled; the
                          texts of the false ones that guard present data are CaseWhens.
     O3 uses-when-on-node a when handed on by a `uses` is run on the node itself (an augment's on
                          the parent): observable only as the path of the error.
     O4 np-skip-by-parent whether the musts of an unconfigured non-presence container are skipped
                          by the validation type is decided by the config flag of the configured
                          node above it, not by its own.
     O5 descent-continues a failed when stops the musts of that node only: its children are still
                          visited and report their own errors.
     O6 leafref-raw       a leafref machine that fails to run is reported as the raw Go error
                          (no path, no tag), not as an exec error; nothing is cached then.     *)
EXTENDS Integers, Sequences, FiniteSets, TLC
XS == INSTANCE XPathAst

\* ============================================================== 1. strings
Ch(s, i) == SubSeq(s, i, i)
Rest(s) == SubSeq(s, 2, Len(s))
\* the characters used in names and values, in ASCII order
Alphabet == "-.0123456789ABCDEFGHIJKLMNOPQRSTUVWXYZ_abcdefghijklmnopqrstuvwxyz"
CharRankF == [c \in {Ch(Alphabet, i) : i \in 1..Len(Alphabet)} |-> CHOOSE i \in 1..Len(Alphabet) : Ch(Alphabet, i) = c]
CharRank(c) == CharRankF[c]
Digits == {"0", "1", "2", "3", "4", "5", "6", "7", "8", "9"}
IsDigit(c) == c \in Digits
RECURSIVE ByteLess(_, _)
ByteLess(a, b) ==
  IF a = "" THEN b # "" ELSE IF b = "" THEN FALSE
  ELSE IF Ch(a, 1) = Ch(b, 1) THEN ByteLess(Rest(a), Rest(b)) ELSE CharRank(Ch(a, 1)) < CharRank(Ch(b, 1))
RECURSIVE RunEnd(_, _)
RunEnd(s, i) == IF i < Len(s) /\ IsDigit(Ch(s, i + 1)) = IsDigit(Ch(s, 1)) THEN RunEnd(s, i + 1) ELSE i
\* natsort.split: maximal runs of digits / non-digits
RECURSIVE Chunks(_)
Chunks(s) == IF s = "" THEN <<"">>
             ELSE LET j == RunEnd(s, 1) IN <<SubSeq(s, 1, j)>> \o (IF j = Len(s) THEN << >> ELSE Chunks(SubSeq(s, j + 1, Len(s))))
AllDigits(s) == s # "" /\ \A i \in 1..Len(s) : IsDigit(Ch(s, i))
DigitOf(c) == CharRank(c) - 3
RECURSIVE NumVal(_)
NumVal(s) == IF s = "" THEN 0 ELSE NumVal(SubSeq(s, 1, Len(s) - 1)) * 10 + DigitOf(Ch(s, Len(s)))
\* natsort.Less as written (mechanism): chunk by chunk; equal chunks and digit chunks of equal value
\* are passed over; two digit chunks decide by value; anything else decides by comparing the WHOLE
\* strings bytewise; when the chunks of a run out: a <= b bytewise
RECURSIVE NLoop(_, _, _, _, _)
NLoop(a, b, ac, bc, i) ==
  IF i > Len(ac) THEN a = b \/ ByteLess(a, b)
  ELSE IF i > Len(bc) THEN FALSE
  ELSE IF ac[i] = bc[i] THEN NLoop(a, b, ac, bc, i + 1)
  ELSE IF AllDigits(ac[i]) /\ AllDigits(bc[i])
       THEN (IF NumVal(ac[i]) = NumVal(bc[i]) THEN NLoop(a, b, ac, bc, i + 1) ELSE NumVal(ac[i]) < NumVal(bc[i]))
  ELSE ByteLess(a, b)
NatLessCode(a, b) == a = b \/ NLoop(a, b, Chunks(a), Chunks(b), 1)
\* the intended reading: "natural order" - compare chunk lists lexicographically, digit runs by
\* value, other chunks bytewise, a proper prefix first
ChunkBefore(x, y) == IF AllDigits(x) /\ AllDigits(y) THEN NumVal(x) < NumVal(y) ELSE ByteLess(x, y)
ChunkSame(x, y) == x = y \/ (AllDigits(x) /\ AllDigits(y) /\ NumVal(x) = NumVal(y))
RECURSIVE SeqBefore(_, _)
SeqBefore(ac, bc) ==
  IF ac = << >> THEN bc # << >> ELSE IF bc = << >> THEN FALSE
  ELSE IF ChunkSame(ac[1], bc[1]) THEN SeqBefore(Tail(ac), Tail(bc)) ELSE ChunkBefore(ac[1], bc[1])
NatBefore(a, b) == SeqBefore(Chunks(a), Chunks(b))

\* insertion sort of records by their field sk with the code's comparison (sort.Sort over
\* bySystem / bySystemValue; keys are distinct here, so the result does not depend on the algorithm)
RECURSIVE InsertNat(_, _)
InsertNat(x, s) == IF s = << >> THEN <<x>>
                   ELSE IF NatLessCode(x.sk, s[1].sk) THEN <<x>> \o s ELSE <<s[1]>> \o InsertNat(x, Tail(s))
RECURSIVE SortNat(_)
SortNat(s) == IF s = << >> THEN << >> ELSE InsertNat(s[1], SortNat(Tail(s)))
RECURSIVE Concat(_)
Concat(ss) == IF ss = << >> THEN << >> ELSE ss[1] \o Concat(Tail(ss))
SeqSet(s) == {s[i] : i \in 1..Len(s)}
Count(e, s) == Cardinality({i \in 1..Len(s) : s[i] = e})
BagEq(s, t) == Len(s) = Len(t) /\ \A e \in SeqSet(s) : Count(e, s) = Count(e, t)
SubBag(s, t) == \A e \in SeqSet(s) : Count(e, s) <= Count(e, t)
RECURSIVE JoinPath(_)
JoinPath(p) == IF p = << >> THEN "" ELSE "/" \o p[1] \o JoinPath(Tail(p))

\* ========================================================== 2. expressions, schema
RECURSIVE HasPath(_)
HasPath(e) ==
  CASE e.k = "path" -> TRUE
    [] e.k = "f1" -> HasPath(e.a)
    [] e.k \in {"f2", "bin"} -> HasPath(e.a) \/ HasPath(e.b)
    [] e.k = "f3" -> HasPath(e.a) \/ HasPath(e.b) \/ HasPath(e.c)
    [] e.k = "neg" -> HasPath(e.a)
    [] OTHER -> FALSE
\* the expression a when / must carries: its text (XPathAst!Render, minimal white space) and what
\* running it under NewCtxFromMach gives
Ex(ast) == [txt |-> XS!Render(ast, "min", 0),
            v |-> IF HasPath(ast) THEN "fail" ELSE IF XS!ToBool(XS!Denote(ast)) THEN "true" ELSE "false"]
\* AST constructors (as in XPathSets)
XN_(txt, v) == [k |-> "num", txt |-> txt, v |-> v]
XL(s) == [k |-> "lit", s |-> s]
XF0(f) == [k |-> "fn0", f |-> f]
XF1(f, a) == [k |-> "f1", f |-> f, a |-> a]
XF2(f, a, b) == [k |-> "f2", f |-> f, a |-> a, b |-> b]
XBin(op, a, b) == [k |-> "bin", op |-> op, a |-> a, b |-> b]
XSt(n) == [n |-> n, pfx |-> "", preds |-> << >>]
XPath(root, steps) == [k |-> "path", root |-> root, arg |-> [k |-> "none"], steps |-> steps]
One == XN_("1", XS!Num(1))
Two == XN_("2", XS!Num(2))
XNaN == XF1("number", XL("x"))
\* path-free and true / false; with a path (x*): they fail to run
ET1 == Ex(XF0("true"))
ET2 == Ex(XBin(">", XF1("string-length", XL("ab")), One))
ET3 == Ex(XF1("not", XF0("false")))
ET4 == Ex(XBin("or", XBin("=", One, Two), XL("a")))
ET5 == Ex(XBin("=", XF0("position"), XF0("last")))
EF1 == Ex(XF0("false"))
EF2 == Ex(XBin("=", One, Two))
EF3 == Ex(XL(""))
EF4 == Ex(XBin("and", XBin(">", Two, One), XBin(">", One, Two)))
EF5 == Ex(XBin("=", XNaN, XNaN))
EF6 == Ex(XF2("contains", XL("abc"), XL("x")))
EX1 == Ex(XBin("=", XPath("rel", <<XSt(".."), XSt("a")>>), XL("x")))
EX2 == Ex(XBin("or", XF0("true"), XPath("cur", << >>)))
EX3 == Ex(XPath("abs", <<XSt("c")>>))
EX4 == Ex(XBin("=", XPath("rel", <<XSt(".")>>), XL("1")))
AllExprs == <<ET1, ET2, ET3, ET4, ET5, EF1, EF2, EF3, EF4, EF5, EF6, EX1, EX2, EX3, EX4>>

NoLref == [txt |-> "", up |-> 0, names |-> << >>, predAt |-> 0]
\* a leafref path: up = -1 absolute, else the number of ".." steps; names = the steps down;
\* predAt = the step that carries the predicate [key = current()/../key] (0: none)
Lref(txt, up, names, predAt) == [txt |-> txt, up |-> up, names |-> names, predAt |-> predAt]
Must(e, msg, tag) == [e |-> e, msg |-> msg, tag |-> tag]
M0(e) == Must(e, "", "")
\* kind  container list leaf leaflist choice case | augment uses (pseudo nodes, see Elab)
\* state = the node says "config false";  user = ordered-by user;  when = << >> or <<expr>>
SN(kind, name, kids) ==
  [kind |-> kind, name |-> name, presence |-> FALSE, state |-> FALSE, typ |-> "-", key |-> "", user |-> FALSE,
   when |-> << >>, musts |-> << >>, lref |-> NoLref, kids |-> kids]
Cont(n, kids) == SN("container", n, kids)
PCont(n, kids) == [SN("container", n, kids) EXCEPT !.presence = TRUE]
ListN(n, key, kids) == [SN("list", n, kids) EXCEPT !.key = key]
Leaf(n) == [SN("leaf", n, << >>) EXCEPT !.typ = "string"]
LeafE(n) == [SN("leaf", n, << >>) EXCEPT !.typ = "empty"]
LeafR(n, l) == [SN("leaf", n, << >>) EXCEPT !.typ = "leafref", !.lref = l]
LL(n) == [SN("leaflist", n, << >>) EXCEPT !.typ = "string"]
LLR(n, l) == [SN("leaflist", n, << >>) EXCEPT !.typ = "leafref", !.lref = l]
Choice(n, cases) == SN("choice", n, cases)
Case(n, kids) == SN("case", n, kids)
Aug(w, kids) == [SN("augment", "", kids) EXCEPT !.when = <<w>>]
Uses(w, kids) == [SN("uses", "", kids) EXCEPT !.when = <<w>>]
W(s, e) == [s EXCEPT !.when = <<e>>]
Ms(s, ms) == [s EXCEPT !.musts = ms]
State(s) == [s EXCEPT !.state = TRUE]
User(s) == [s EXCEPT !.user = TRUE]

IsData(k) == k.kind \in {"container", "list", "leaf", "leaflist"}
\* a when with the node it is run on: rap = RunAsParent
HW(ws, rap) == [i \in 1..Len(ws) |-> [e |-> ws[i], rap |-> rap]]
\* The compiler's view.  A data node gets its own when followed by the whens handed on to it: a
\* `uses` hands its when (and what was handed to the uses) to every node of the grouping, run on
\* the node itself; an `augment` hands its when to every node it adds, run on the parent (the flag
\* stays with that when through a uses inside the augment).  Choices and cases keep theirs in cw:
\* nothing reads them.  cfg = the effective config flag.
RECURSIVE Elab(_, _, _)
ElabOne(k, cfg, handed) ==
  CASE k.kind = "augment" -> Elab(k.kids, cfg, HW(k.when, TRUE) \o handed)
    [] k.kind = "uses" -> Elab(k.kids, cfg, HW(k.when, FALSE) \o handed)
    [] k.kind \in {"choice", "case"} ->
         << [kind |-> k.kind, name |-> k.name, presence |-> FALSE, cfg |-> cfg, typ |-> "-", key |-> "", user |-> FALSE,
             whens |-> << >>, cw |-> HW(k.when, FALSE) \o handed, musts |-> << >>, lref |-> NoLref, kids |-> Elab(k.kids, cfg, << >>)] >>
    [] OTHER ->
         LET c == cfg /\ ~k.state IN
         << [kind |-> k.kind, name |-> k.name, presence |-> k.presence, cfg |-> c, typ |-> k.typ, key |-> k.key, user |-> k.user,
             whens |-> HW(k.when, FALSE) \o handed, cw |-> << >>, musts |-> k.musts, lref |-> k.lref, kids |-> Elab(k.kids, c, << >>)] >>
Elab(kids, cfg, handed) == Concat([i \in 1..Len(kids) |-> ElabOne(kids[i], cfg, handed)])
TreeNode(schema) ==
  [kind |-> "tree", name |-> "", presence |-> TRUE, cfg |-> TRUE, typ |-> "-", key |-> "", user |-> FALSE,
   whens |-> << >>, cw |-> << >>, musts |-> << >>, lref |-> NoLref, kids |-> Elab(schema, TRUE, << >>)]
\* the data nodes among the children, looking through choices and cases (Node.Children())
RECURSIVE DataKids(_)
DataKids(kids) == Concat([i \in 1..Len(kids) |-> IF kids[i].kind \in {"choice", "case"} THEN DataKids(kids[i].kids) ELSE <<kids[i]>>])
KidNamed(kids, nm) == LET dk == DataKids(kids) IN dk[CHOOSE i \in 1..Len(dk) : dk[i].name = nm]
HasKid(kids, nm) == \E c \in SeqSet(DataKids(kids)) : c.name = nm

\* ================================================================ 3. adapter
\* data node: [name, vals, kids]; vals = values of a leaf / leaf-list in data order, kids = children
\* in data order; a list node has one child per entry, named by the key value, holding the entry's
\* nodes (the key leaf among them)
D(name, vals, kids) == [name |-> name, vals |-> vals, kids |-> kids]
Nil == [t |-> "nil"]
\* an adapter node: t = tree cont list entry leaf leaflist (xdatanode over a Tree / Container /
\* List / ListEntry / Leaf / LeafList schema node)  value (xvaluenode)  empty (xemptyleafnode);
\* name = YangDataName (the value for a value node, the key value for an entry)
XN(t, sch, name, vals, dkids, par, eph) ==
  [t |-> t, sch |-> sch, name |-> name, vals |-> vals, dkids |-> dkids, par |-> par, eph |-> eph]
RootX(schema, data) == XN("tree", TreeNode(schema), "root", << >>, data, Nil, FALSE)
TOf(c) == CASE c.kind = "container" -> "cont" [] c.kind = "list" -> "list" [] c.kind = "leaf" -> "leaf" [] OTHER -> "leaflist"
XName(x) == x.sch.name
XValue(x) == IF x.t \in {"entry", "value", "empty"} THEN x.name ELSE ""
Keyed(s, f(_)) == [i \in 1..Len(s) |-> [sk |-> f(s[i]), x |-> s[i]]]
UnKey(s) == [i \in 1..Len(s) |-> s[i].x]
\* xdatanode.children(sortSpec): one adapter node per data child / list entry / value; sorted
\* (unless asked not to): container children by name, entries and leaf-list values by value
\* unless ordered-by user, a leaf's value as it is
Children(x, sorted) ==
  CASE x.t \in {"leaf", "leaflist"} ->
         IF x.sch.typ = "empty" THEN << XN("empty", x.sch, "", << >>, << >>, x, FALSE) >>
         ELSE LET vs == [i \in 1..Len(x.vals) |-> XN("value", x.sch, x.vals[i], << >>, << >>, x, FALSE)] IN
              IF sorted /\ x.t = "leaflist" /\ ~x.sch.user THEN UnKey(SortNat(Keyed(vs, XValue))) ELSE vs
    [] x.t = "list" ->
         LET es == [i \in 1..Len(x.dkids) |-> XN("entry", x.sch, x.dkids[i].name, x.dkids[i].vals, x.dkids[i].kids, x, FALSE)] IN
         IF sorted /\ ~x.sch.user THEN UnKey(SortNat(Keyed(es, XValue))) ELSE es
    [] x.t \in {"tree", "cont", "entry"} ->
         LET cs == [i \in 1..Len(x.dkids) |->
                      LET d == x.dkids[i]  c == KidNamed(x.sch.kids, d.name) IN XN(TOf(c), c, d.name, d.vals, d.kids, x, FALSE)] IN
         IF sorted THEN UnKey(SortNat(Keyed(cs, XName))) ELSE cs
    [] OTHER -> << >>
RECURSIVE XParentOf(_)
XParentOf(x) == IF x.par = Nil THEN Nil ELSE IF x.t \in {"entry", "value", "empty"} THEN XParentOf(x.par) ELSE x.par
RECURSIVE XRootOf(_)
XRootOf(x) == IF x.par = Nil THEN x ELSE XRootOf(x.par)
RECURSIVE XPathOf(_)
XPathOf(x) == IF x.t = "tree" THEN <<"/">>
              ELSE IF x.t \in {"entry", "value", "empty"} THEN XPathOf(x.par)
              ELSE IF x.par = Nil THEN <<XName(x)>> ELSE Append(XPathOf(x.par), XName(x))
IsKey(x) == x.par # Nil /\ x.par.t = "entry" /\ x.sch.name = x.par.sch.key
\* the configd path (path()): data names from the root, the key leaf and its value stand for the entry
RECURSIVE PathOf(_)
PathOf(x) ==
  CASE x.t = "value" -> IF IsKey(x.par) THEN PathOf(x.par.par) ELSE Append(PathOf(x.par), x.name)
    [] x.t = "empty" -> PathOf(x.par)
    [] OTHER -> IF x.par = Nil THEN << >> ELSE IF IsKey(x) THEN PathOf(x.par) ELSE Append(PathOf(x.par), x.name)
\* the full address (unique per adapter node): every level's data name
RECURSIVE Addr(_)
Addr(x) == IF x.par = Nil THEN << >> ELSE Append(Addr(x.par), x.name)
\* filter: name "*" with ns "" = all children; ns "" = by local name; name "*" = all of a namespace;
\* else both.  The schemas here have one namespace "own".
Flt(name, ns, cfgonly) == [name |-> name, ns |-> ns, cfgonly |-> cfgonly]
AllKids == Flt("*", "", FALSE)
Match(f, c) ==
  /\ ~(f.cfgonly /\ ~c.cfg)
  /\ \/ f.name = "*" /\ f.ns = ""
     \/ f.ns = "" /\ f.name = c.name
     \/ f.ns # "" /\ f.name = "*" /\ f.ns = "own"
     \/ f.ns # "" /\ f.name # "*" /\ f.ns = "own" /\ f.name = c.name
\* XChildren: containers as they are; lists, leaf-lists and leaves are replaced by their entries / values
XChildren(x, f, sorted) ==
  IF x.t \notin {"tree", "cont", "entry"} THEN << >>
  ELSE LET cs == Children(x, sorted) IN
       Concat([i \in 1..Len(cs) |->
                 IF ~Match(f, cs[i].sch) THEN << >>
                 ELSE IF cs[i].t = "cont" THEN <<cs[i]>>
                 ELSE SelectSeq(Children(cs[i], sorted), LAMBDA y : ~f.cfgonly \/ y.sch.cfg)])
XListKeys(x) == IF x.t = "entry" THEN << [k |-> x.sch.key, v |-> XValue(x)] >> ELSE << >>
XListKeyMatches(x, ns, key, val) == x.t = "entry" /\ ns = "own" /\ key = x.sch.key /\ XValue(x) = val
XIsLeaf(x) == x.t \in {"leaf", "value", "empty"}
XIsLeafList(x) == x.t = "leaflist"
XIsNPCont(x) == x.t = "cont" /\ ~x.sch.presence

\* ================================================================ 4. validator
\* errors: k = must (a when / must that is false) | exec (a machine that failed to run; a leafref
\* value that is not allowed) | raw (O6).  at / np locate the error for the replay: at = address of
\* the visited node, np = the chain of unconfigured non-presence containers below it (their order
\* among siblings is map iteration order in the code).
\* src = when | must | npmust | lref: the step that reported it;  sp = it comes from an unconfigured
\* non-presence container that has a false when, or from below one (O1: spurious under RFC 7950)
Err(k, path, msg, tag, at, np, src, sp) == [k |-> k, path |-> path, msg |-> msg, tag |-> tag, at |-> at, np |-> np, src |-> src, sp |-> sp]
Plain(e) == [k |-> e.k, path |-> e.path, msg |-> e.msg, tag |-> e.tag]
WhenMsg(e) == "'when' condition is false: '" \o e.txt \o "'"
MustMsg(m) == IF m.msg = "" THEN "'must' condition is false: '" \o m.e.txt \o "'" ELSE m.msg
MustTag(m) == IF m.tag = "" THEN "must-violation" ELSE m.tag
RECURSIVE NPChain(_)
NPChain(x) == IF x.eph THEN Append(NPChain(x.par), x.name) ELSE << >>
RECURSIVE RealAbove(_)
RealAbove(x) == IF x.eph THEN RealAbove(x.par) ELSE x
WhenFalse(c) == \E i \in 1..Len(c.whens) : c.whens[i].e.v = "false"
RECURSIVE Spurious(_)
Spurious(x) == x.eph /\ (WhenFalse(x.sch) \/ Spurious(x.par))
\* checkMachine: the outcome of one when / must on adapter node x as a sequence of 0 or 1 errors
Check(x, e, rap, msg, tag, src) ==
  LET p == PathOf(IF rap THEN XParentOf(x) ELSE x)
      at == Addr(RealAbove(x))  np == NPChain(x) IN
  CASE e.v = "fail" -> << Err("exec", p, "", "exec-failed", at, np, src, Spurious(x)) >>
    [] e.v = "false" -> << Err("must", p, msg, tag, at, np, src, Spurious(x)) >>
    [] OTHER -> << >>
Skip(x, vt) == CASE vt = "none" -> TRUE [] vt = "state" -> x.sch.cfg [] vt = "config" -> ~x.sch.cfg [] OTHER -> FALSE
\* getUnconfiguredNPContainerChildren (names; the code holds them in a map)
NPKids(x) == {c.name : c \in {c \in SeqSet(DataKids(x.sch.kids)) : c.kind = "container" /\ ~c.presence}} \ {x.dkids[i].name : i \in 1..Len(x.dkids)}
Ephemeral(x, nm) == XN("cont", KidNamed(x.sch.kids, nm), nm, << >>, << >>, x, TRUE)

\* ---- leafref: what the machine would return if it ran (the cache model; see ValidateXPathMC)
RECURSIVE UpN(_, _)
UpN(x, n) == IF n = 0 THEN x ELSE UpN(XParentOf(x), n - 1)
RECURSIVE EnclosingEntry(_)
EnclosingEntry(x) == IF x.t = "entry" \/ x.par = Nil THEN x ELSE EnclosingEntry(x.par)
RECURSIVE Descend(_, _, _, _, _)
Descend(nodes, names, i, predAt, kv) ==
  IF i > Len(names) THEN nodes
  ELSE LET nxt == Concat([j \in 1..Len(nodes) |-> XChildren(nodes[j], Flt(names[i], "", TRUE), TRUE)])
           flt == IF i = predAt THEN SelectSeq(nxt, LAMBDA y : XValue(y) = kv) ELSE nxt
       IN Descend(flt, names, i + 1, predAt, kv)
AllowedFor(v) ==
  LET l == v.sch.lref
      start == IF l.up < 0 THEN XRootOf(v) ELSE UpN(v, l.up)
      ns == Descend(<<start>>, l.names, 1, l.predAt, XValue(EnclosingEntry(v)))
  IN {XValue(ns[i]) : i \in 1..Len(ns)}
\* leafrefIsCacheable: no "[" and no ".." in the text of the path
Cacheable(l) == l.predAt = 0 /\ l.up < 0

\* ---- the machine.  root = the adapter's root node over (schema, data), fixed for a run;
\* st = [agenda, errs, cache, stale]; agenda = sequence of work items, the head
\* is done next (validateSchemaWithLog is a depth-first recursion; each step here is one call or
\* one machine run).  n = the non-presence container taken next when the head is an "np" item
\* (any member of its todo set: the code ranges over a map).
\*   opt.odd    O1 (TRUE = what the code does)
\*   opt.lrun   leafref machines run (FALSE in this fork)
\*   opt.call   the cacheability test is bypassed (hazard model only)
\* Work items name their adapter node by its address (Addr); Locate finds it again below the root
\* (a name that is not among the data children is an unconfigured non-presence container).
RECURSIVE Locate(_, _)
Locate(y, a) ==
  IF a = << >> THEN y
  ELSE LET cs == Children(y, FALSE)  hit == {i \in 1..Len(cs) : cs[i].name = a[1]} IN
       IF hit # {} THEN Locate(cs[CHOOSE i \in hit : TRUE], Tail(a)) ELSE Locate(Ephemeral(y, a[1]), Tail(a))
It(op, x) == [op |-> op, a |-> Addr(x), i |-> 0, bad |-> FALSE, todo |-> {}]
Init == [agenda |-> << [op |-> "validate", a |-> << >>, i |-> 0, bad |-> FALSE, todo |-> {}] >>, errs |-> << >>, cache |-> << >>, stale |-> FALSE]
Done(st) == st.agenda = << >>
Choices(st) == IF ~Done(st) /\ st.agenda[1].op = "np" /\ st.agenda[1].todo # {} THEN st.agenda[1].todo ELSE {""}
CacheHas(c, k) == \E i \in 1..Len(c) : c[i].k = k
CacheGet(c, k) == c[CHOOSE i \in 1..Len(c) : c[i].k = k].vals
StepWith(root, st, n, vt, opt) ==
  LET it == st.agenda[1]  rest == Tail(st.agenda)  x == Locate(root, it.a)
      go(items, es) == [st EXCEPT !.agenda = items \o rest, !.errs = st.errs \o es] IN
  CASE it.op = "validate" ->
         LET cs == Children(x, TRUE) IN
         IF x.t \in {"leaf", "leaflist"}
         THEN go(Concat([i \in 1..Len(cs) |-> <<It("check", cs[i])>> \o (IF x.sch.typ = "leafref" THEN <<It("lref", cs[i])>> ELSE << >>)]), << >>)
         ELSE IF x.t = "list" THEN go([i \in 1..Len(cs) |-> It("validate", cs[i])], << >>)
         ELSE go(<<It("check", x)>> \o [i \in 1..Len(cs) |-> It("validate", cs[i])], << >>)
    [] it.op = "check" -> IF Skip(x, vt) THEN go(<< >>, << >>) ELSE go(<<[it EXCEPT !.op = "when", !.i = 1]>>, << >>)
    [] it.op = "when" ->
         IF it.i > Len(x.sch.whens) THEN (IF it.bad THEN go(<< >>, << >>) ELSE go(<<[it EXCEPT !.op = "must", !.i = 1, !.bad = FALSE]>>, << >>))
         ELSE LET w == x.sch.whens[it.i]  es == Check(x, w.e, w.rap, WhenMsg(w.e), "must-violation", "when") IN
              go(<<[it EXCEPT !.i = it.i + 1, !.bad = it.bad \/ es # << >>]>>, es)
    [] it.op \in {"must", "npmust"} ->
         IF it.i > Len(x.sch.musts) THEN go(<<[it EXCEPT !.op = "np", !.i = 0, !.todo = NPKids(x)]>>, << >>)
         ELSE LET m == x.sch.musts[it.i] IN go(<<[it EXCEPT !.i = it.i + 1]>>, Check(x, m.e, FALSE, MustMsg(m), MustTag(m), it.op))
    [] it.op = "np" ->
         IF it.todo = {} THEN go(<< >>, << >>)
         ELSE LET e == Ephemeral(x, n)  more == [it EXCEPT !.todo = it.todo \ {n}] IN
              IF ~opt.odd /\ WhenFalse(e.sch) THEN go(<<more>>, << >>)
              ELSE go(<<[It("npmust", e) EXCEPT !.i = 1], more>>, << >>)
    [] it.op = "lref" ->
         IF Skip(x, vt) THEN go(<< >>, << >>)
         ELSE LET key == JoinPath(XPathOf(x))
                  hit == CacheHas(st.cache, key)
                  bad == Err("exec", PathOf(x), "", "exec-failed", Addr(x), << >>, "lref", FALSE) IN
              IF ~hit /\ ~opt.lrun THEN go(<< >>, << Err("raw", << >>, "", "", Addr(x), << >>, "lref", FALSE) >>)
              ELSE LET allowed == IF hit THEN CacheGet(st.cache, key) ELSE AllowedFor(x)
                       st2 == go(<< >>, IF XValue(x) \in allowed THEN << >> ELSE <<bad>>) IN
                   [st2 EXCEPT !.cache = IF ~hit /\ (opt.call \/ Cacheable(x.sch.lref)) THEN Append(st.cache, [k |-> key, vals |-> allowed]) ELSE st.cache,
                               !.stale = st.stale \/ (hit /\ allowed # AllowedFor(x))]
\* the canonical run (non-presence siblings in schema order), for the behaviour generator
FirstNP(root, st) == LET x == Locate(root, st.agenda[1].a)  dk == DataKids(x.sch.kids) IN
               dk[CHOOSE i \in 1..Len(dk) : dk[i].name \in st.agenda[1].todo /\ \A j \in 1..(i - 1) : dk[j].name \notin st.agenda[1].todo].name
RECURSIVE RunFrom(_, _, _, _)
RunFrom(root, st, vt, opt) == IF Done(st) THEN st ELSE RunFrom(root, StepWith(root, st, IF Choices(st) = {""} THEN "" ELSE FirstNP(root, st), vt, opt), vt, opt)
Run(schema, data, vt, opt) == RunFrom(RootX(schema, data), Init, vt, opt).errs
Opt(odd) == [odd |-> odd, lrun |-> FALSE, call |-> FALSE]

\* ---- the intended meaning: the bag of errors of a data tree, over the source schema.
\* An INSTANCE is the root, a present container, a list entry, or one value of a leaf / leaf-list.
\* Its path: the names from the root, an entry adds list name and key value, a value adds leaf name
\* and value - except the key leaf, which stands for its entry, and a leaf of type empty, which has
\* no value element.  An instance that the validation type does not skip contributes
\*   - one error per applicable when (its own, those handed on by uses / augment) that is false
\*     or fails to run; an augment's when is reported at the path of the parent instance;
\*   - if none: one error per must that is false or fails to run, and the same for the musts of
\*     every non-presence container child that is not in the data, recursively (odd = FALSE:
\*     unless one of that container's whens is false);
\*   - one raw error if it is a value of a leafref leaf (the machine cannot run).
\* Children are instances in their own right whatever the whens of their ancestors said (O5).
MErr(k, path, msg, tag) == [k |-> k, path |-> path, msg |-> msg, tag |-> tag]
MCheck(e, path, msg, tag) ==
  CASE e.v = "fail" -> <<MErr("exec", path, "", "exec-failed")>> [] e.v = "false" -> <<MErr("must", path, msg, tag)>> [] OTHER -> << >>
MMusts(ms, path) == Concat([i \in 1..Len(ms) |-> MCheck(ms[i].e, path, MustMsg(ms[i]), MustTag(ms[i]))])
HasD(dk, nm) == \E i \in 1..Len(dk) : dk[i].name = nm
ChildD(dk, nm) == dk[CHOOSE i \in 1..Len(dk) : dk[i].name = nm]
MSkip(cfg, vt) == CASE vt = "none" -> TRUE [] vt = "state" -> cfg [] vt = "config" -> ~cfg [] OTHER -> FALSE
\* handed whens: [e, ctx] with ctx = "node" | "parent"
RECURSIVE MNP(_, _, _, _, _)
MNPOne(s, dk, path, handed, odd) ==
  CASE s.kind = "augment" -> MNP(s.kids, dk, path, s.when \o handed, odd)
    [] s.kind = "uses" -> MNP(s.kids, dk, path, s.when \o handed, odd)
    [] s.kind \in {"choice", "case"} -> MNP(s.kids, dk, path, << >>, odd)
    [] s.kind = "container" /\ ~s.presence /\ ~HasD(dk, s.name) ->
         IF ~odd /\ \E w \in SeqSet(s.when \o handed) : w.v = "false" THEN << >>
         ELSE MMusts(s.musts, Append(path, s.name)) \o MNP(s.kids, << >>, Append(path, s.name), << >>, odd)
    [] OTHER -> << >>
MNP(sk, dk, path, handed, odd) == Concat([i \in 1..Len(sk) |-> MNPOne(sk[i], dk, path, handed, odd)])
MInst(s, ws, path, ppath, cfg, dkids, vt, odd) ==
  IF MSkip(cfg, vt) THEN << >>
  ELSE LET fw == Concat([i \in 1..Len(ws) |-> MCheck(ws[i].e, IF ws[i].ctx = "parent" THEN ppath ELSE path, WhenMsg(ws[i].e), "must-violation")]) IN
       IF fw # << >> THEN fw ELSE MMusts(s.musts, path) \o MNP(s.kids, dkids, path, << >>, odd)
MHW(ws, ctx) == [i \in 1..Len(ws) |-> [e |-> ws[i], ctx |-> ctx]]
RECURSIVE MKids(_, _, _, _, _, _, _, _)
MNode(s, dk, p, cfg, handed, key, vt, odd) ==
  CASE s.kind = "augment" -> MKids(s.kids, dk, p, cfg, MHW(s.when, "parent") \o handed, key, vt, odd)
    [] s.kind = "uses" -> MKids(s.kids, dk, p, cfg, MHW(s.when, "node") \o handed, key, vt, odd)
    [] s.kind \in {"choice", "case"} -> MKids(s.kids, dk, p, cfg, << >>, key, vt, odd)
    [] IsData(s) /\ ~HasD(dk, s.name) -> << >>
    [] OTHER ->
       LET d == ChildD(dk, s.name)  c == cfg /\ ~s.state  ws == MHW(s.when, "node") \o handed IN
       CASE s.kind = "container" ->
              MInst(s, ws, Append(p, d.name), p, c, d.kids, vt, odd) \o MKids(s.kids, d.kids, Append(p, d.name), c, << >>, "", vt, odd)
         [] s.kind = "list" ->
              Concat([i \in 1..Len(d.kids) |->
                        LET ep == p \o <<d.name, d.kids[i].name>> IN
                        MInst(s, ws, ep, p, c, d.kids[i].kids, vt, odd) \o MKids(s.kids, d.kids[i].kids, ep, c, << >>, s.key, vt, odd)])
         [] OTHER ->
              LET vals == IF s.typ = "empty" THEN <<"">> ELSE d.vals
                  vp(v) == IF s.name = key THEN p ELSE IF s.typ = "empty" THEN Append(p, d.name) ELSE p \o <<d.name, v>> IN
              Concat([i \in 1..Len(vals) |->
                        MInst(s, ws, vp(vals[i]), p, c, << >>, vt, odd)
                        \o (IF s.typ = "leafref" /\ ~MSkip(c, vt) THEN <<MErr("raw", << >>, "", "")>> ELSE << >>)])
MKids(sk, dk, p, cfg, handed, key, vt, odd) == Concat([i \in 1..Len(sk) |-> MNode(sk[i], dk, p, cfg, handed, key, vt, odd)])
Meaning(schema, data, vt, odd) ==
  (IF MSkip(TRUE, vt) THEN << >> ELSE MNP(schema, data, << >>, << >>, odd)) \o MKids(schema, data, << >>, TRUE, << >>, "", vt, odd)

\* O2: the false whens on choices / cases (own or handed on) that guard data present in the tree -
\* RFC 7950 (7.21.5, 8.1) makes such a tree invalid, the mechanism never looks at them
RECURSIVE AnyPresent(_, _)
AnyPresent(sk, dk) == \E i \in 1..Len(sk) : IF IsData(sk[i]) THEN HasD(dk, sk[i].name) ELSE AnyPresent(sk[i].kids, dk)
RECURSIVE CaseWhens(_, _, _)
CaseWhensOne(s, dk, handed) ==
  CASE s.kind \in {"augment", "uses"} -> CaseWhens(s.kids, dk, IF s.kind = "augment" THEN s.when \o handed ELSE handed)
    [] s.kind \in {"choice", "case"} ->
         (IF AnyPresent(s.kids, dk) THEN {w.txt : w \in {w \in SeqSet(s.when \o handed) : w.v = "false"}} ELSE {}) \cup CaseWhens(s.kids, dk, << >>)
    [] IsData(s) /\ ~HasD(dk, s.name) -> {}
    [] s.kind = "container" -> CaseWhens(s.kids, ChildD(dk, s.name).kids, << >>)
    [] s.kind = "list" -> UNION {CaseWhens(s.kids, e.kids, << >>) : e \in SeqSet(ChildD(dk, s.name).kids)}
    [] OTHER -> {}
CaseWhens(sk, dk, handed) == UNION {CaseWhensOne(sk[i], dk, handed) : i \in 1..Len(sk)}

\* document order of the instances (addresses), for the order law: parents first, container
\* children by name and system-ordered entries / values in natural order (NatBefore)
RECURSIVE InsertBefore(_, _)
InsertBefore(x, s) == IF s = << >> THEN <<x>> ELSE IF NatBefore(x.sk, s[1].sk) THEN <<x>> \o s ELSE <<s[1]>> \o InsertBefore(x, Tail(s))
RECURSIVE SortBefore(_)
SortBefore(s) == IF s = << >> THEN << >> ELSE InsertBefore(s[1], SortBefore(Tail(s)))
RECURSIVE SrcKid(_, _)
SrcKid(sk, nm) == \* the source node of a data name, through pseudo nodes, choices and cases
  LET hits == {i \in 1..Len(sk) : IF IsData(sk[i]) THEN sk[i].name = nm ELSE SrcKid(sk[i].kids, nm) # Nil} IN
  IF hits = {} THEN Nil ELSE LET i == CHOOSE i \in hits : TRUE IN IF IsData(sk[i]) THEN sk[i] ELSE SrcKid(sk[i].kids, nm)
RECURSIVE DocOrder(_, _, _)
DocOrder(sk, dk, a) ==
  LET ds == UnKey(SortBefore([i \in 1..Len(dk) |-> [sk |-> dk[i].name, x |-> dk[i]]])) IN
  Concat([i \in 1..Len(ds) |->
    LET d == ds[i]  s == SrcKid(sk, d.name)  ad == Append(a, d.name) IN
    CASE s.kind = "container" -> <<ad>> \o DocOrder(s.kids, d.kids, ad)
      [] s.kind = "list" ->
           LET es == IF s.user THEN d.kids ELSE UnKey(SortBefore([j \in 1..Len(d.kids) |-> [sk |-> d.kids[j].name, x |-> d.kids[j]]])) IN
           Concat([j \in 1..Len(es) |-> <<Append(ad, es[j].name)>> \o DocOrder(s.kids, es[j].kids, Append(ad, es[j].name))])
      [] OTHER ->
           LET vs == IF s.typ = "empty" THEN <<"">>
                     ELSE IF s.kind = "leaf" \/ s.user THEN d.vals
                     ELSE UnKey(SortBefore([j \in 1..Len(d.vals) |-> [sk |-> d.vals[j], x |-> d.vals[j]]])) IN
           [j \in 1..Len(vs) |-> Append(ad, vs[j])]])
\* s is a subsequence of t
RECURSIVE SubSeqOf(_, _)
SubSeqOf(s, t) == IF s = << >> THEN TRUE ELSE IF t = << >> THEN FALSE
                  ELSE IF s[1] = t[1] THEN SubSeqOf(Tail(s), Tail(t)) ELSE SubSeqOf(s, Tail(t))
RECURSIVE Dedupe(_)
Dedupe(s) == IF Len(s) < 2 THEN s ELSE IF s[1] = s[2] THEN Dedupe(Tail(s)) ELSE <<s[1]>> \o Dedupe(Tail(s))
=============================================================================
