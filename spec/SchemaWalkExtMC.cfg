INIT MCInit
NEXT MCNext
CONSTANT Shapes = {1, 2, 3, 4, 5, 6, 7, 8, 9}
INVARIANT ShapeOk
INVARIANT Function
INVARIANT Done
INVARIANT ErrorStops
CHECK_DEADLOCK FALSE
