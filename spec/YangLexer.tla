------------------------------ MODULE YangLexer ------------------------------
(* The YANG lexer of parse/lex.go as a state machine over a text: one state per
   state function (lexStmt, lexString, lexSep, lexQuote, lexComment,
   lexCommentLine), one LStep per character examined, an item placed in `pend`
   wherever the code sends on its unbuffered channel (emit / errorf).  The lexer
   cannot step while `pend` holds an item: the send blocks until the parser has
   received.  Operator module (no variables): used by the process model
   (YangLexerMC), the trace validator (YangLexerTrace) and, run to the end as a
   function, by YangTree.

   Flags name behaviours on which the pinned code and the intended behaviour
   differ:
     eof  end of text terminates an unquoted word        (pin: FALSE = lexString spins)
     wec  an unquoted word ends where a comment starts    (RFC 6020 6.1.3; pin: FALSE)
     lce  a // comment may end with the text              (pin: FALSE = "unclosed comment") *)
EXTENDS YangChars

Item(t, a, b) == [typ |-> t, pos |-> a, end |-> b]     \* pos/end: 0-based character offsets
NoItem == Item("none", 0, 0)
Intended == [eof |-> TRUE, wec |-> TRUE, lce |-> TRUE]

L0 == [fn |-> "stmt", pos |-> 1, start |-> 1, depth |-> 0, qt |-> 0, pend |-> NoItem]

\* emit(t) after moving to position np, continue in state function g
EmitAt(L, t, np, g) == [L EXCEPT !.pos = np, !.pend = Item(t, L.start - 1, np - 1), !.start = np, !.fn = g]
\* errorf: error item at l.start, then run ends
Err(L) == [L EXCEPT !.pend = Item("Error", L.start - 1, L.start - 1), !.fn = "exit"]
Adv(L, k) == [L EXCEPT !.pos = @ + k]

IsTerm(c, F) == IsSep(c) \/ c = SEMI \/ c = LBR \/ c = RBR \/ c = DQ \/ (F.eof /\ c = EOFC)

\* how many characters after pos a step may look at
Lookahead == 1

LStep(L, t, F) ==
  LET c == At(t, L.pos)  d == At(t, L.pos + 1) IN
  CASE L.fn = "stmt" ->
         IF c = SLASH /\ d = STAR THEN [L EXCEPT !.fn = "comment"]
         ELSE IF c = SLASH /\ d = SLASH THEN [L EXCEPT !.fn = "linecomment"]
         ELSE IF c = EOFC THEN (IF L.depth > 0 THEN Err(L) ELSE EmitAt(L, "EOF", L.pos, "exit"))
         ELSE IF IsSep(c) THEN [Adv(L, 1) EXCEPT !.fn = "sep"]
         ELSE IF c = DQ \/ c = SQ THEN [EmitAt(L, "Quote", L.pos + 1, "inquote") EXCEPT !.qt = c]
         ELSE IF c = LBR THEN [EmitAt(L, "LBrace", L.pos + 1, "stmt") EXCEPT !.depth = @ + 1]
         ELSE IF c = RBR THEN [EmitAt(L, "RBrace", L.pos + 1, IF L.depth = 0 THEN "rberr" ELSE "stmt") EXCEPT !.depth = @ - 1]
         ELSE IF c = SEMI THEN EmitAt(L, "SemiColon", L.pos + 1, "stmt")
         ELSE IF c = PLUS THEN EmitAt(L, "Plus", L.pos + 1, "stmt")
         ELSE [L EXCEPT !.fn = "string"]
    [] L.fn = "rberr" -> Err(L)                               \* unexpected right bracket
    [] L.fn = "string" ->
         IF IsTerm(c, F) \/ (F.wec /\ c = SLASH /\ (d = STAR \/ d = SLASH)) THEN EmitAt(L, "String", L.pos, "stmt")
         ELSE IF c = EOFC THEN L                               \* next() at the end does not advance: no progress
         ELSE Adv(L, 1)
    [] L.fn = "sep" -> IF IsSep(c) THEN Adv(L, 1) ELSE EmitAt(L, "Separator", L.pos, "stmt")
    [] L.fn = "inquote" ->
         IF c = EOFC THEN Err(L)                               \* unterminated quoted string
         ELSE IF c = BSL /\ L.qt = DQ THEN (IF d = EOFC THEN Err(L) ELSE Adv(L, 2))
         ELSE IF c = L.qt THEN EmitAt(L, "String", L.pos, "endquote")
         ELSE Adv(L, 1)
    [] L.fn = "endquote" -> EmitAt(L, "Quote", L.pos + 1, "stmt")
    [] L.fn = "comment" -> [Adv(L, 2) EXCEPT !.fn = "incomment"]
    [] L.fn = "incomment" ->
         IF c = STAR /\ d = SLASH THEN [L EXCEPT !.pos = @ + 2, !.start = L.pos + 2, !.fn = "stmt"]
         ELSE IF c = EOFC THEN Err(L)                          \* unclosed comment
         ELSE Adv(L, 1)
    [] L.fn = "linecomment" -> [Adv(L, 2) EXCEPT !.fn = "inlinecomment"]
    [] L.fn = "inlinecomment" ->
         IF c = LF THEN [L EXCEPT !.pos = @ + 1, !.start = L.pos + 1, !.fn = "stmt"]
         ELSE IF c = EOFC THEN (IF F.lce THEN [L EXCEPT !.start = L.pos, !.fn = "stmt"] ELSE Err(L))
         ELSE Adv(L, 1)
    [] L.fn = "exit" -> [L EXCEPT !.fn = "done"]              \* run returns: channel closed, goroutine ends
    [] OTHER -> L

Blocked(L) == L.pend.typ # "none"
Took(L) == [L EXCEPT !.pend = NoItem]

\* run the lexer alone until it offers an item, ends, or makes no progress
RECURSIVE RunToEmit(_, _, _)
RunToEmit(L, t, F) ==
  IF Blocked(L) \/ L.fn = "done" THEN L
  ELSE LET M == LStep(L, t, F) IN IF M = L THEN L ELSE RunToEmit(M, t, F)

\* the whole item sequence with a receiver that takes everything
RECURSIVE LexFrom(_, _, _)
LexFrom(L, t, F) ==
  LET M == RunToEmit(L, t, F) IN
  IF Blocked(M) THEN <<M.pend>> \o LexFrom(Took(M), t, F) ELSE << >>
LexAll(t, F) == LexFrom(L0, t, F)
=============================================================================
