----------------------------- MODULE PathEvalMC -----------------------------
(* The path_eval machine as a transition system: one step per instruction, over the pure step
   function of PathEval.  The first step picks an AST of the family, the variant ("intent":
   the designed machine running PathEvalCompile; "fork": this fork's machine running
   PathEvalCompileFork), the kind of context ("cur" = NewCtxFromCurrent, "mach" = NewCtxFromMach)
   and the context node.  TLC checks on every reachable state:

     ListingIsPaths   reading PathEvalCompile(ast) back gives exactly PathsOf(ast): every location path
                      outside predicates is tested exactly once, in source order; literals, numbers,
                      operators, function calls and predicates leave no trace; the listing ends with
                      storePathEval and uses the five instructions only
     LeakIsOnlyNames  PathEvalCompileFork differs from PathEvalCompile by inserted name instructions only,
                      and not at all when the AST has no predicate (F1 characterised)
     IntentCorrect    the intended machine ends with MeaningOutcome(ast): no run error, verdicts = conjunction
                      of the validity of the tested paths, tested = PathsOf(ast) (up to a zero-length path)
     StackBalanced    intended machine: below the counted path elements the stack holds verdicts only, one per
                      tested path; after a true result it is empty
     ForkAsDescribed  the fork's machine ends with ForkOutcome(ast, kind) and never validates a path (F3)
     ForkVsMeaning    the fork's observable outcome equals the meaning's exactly for expressions without a
                      testable path before the first failure point (no path at all, or a leading bare `.`)
     ValueXorError, NoRunError                                                              *)
EXTENDS PathEval, XPathSets
CONSTANTS Fams, NChunks
VARIABLES fam, chunk, ast, prog, st, variant, kind, ctxNode
vars == <<fam, chunk, ast, prog, st, variant, kind, ctxNode>>
CtxNodes == {<<"a", "b">>, <<"a", "b", "c">>, << >>}
MCInit == /\ fam \in Fams /\ chunk \in 0..(NChunks - 1) /\ ast = NoArg /\ prog = << >> /\ st = PEInit("cur")
          /\ variant = "intent" /\ kind = "cur" /\ ctxNode = << >>
Pick == /\ prog = << >>
        /\ \E e \in FamilyC(fam, chunk, NChunks) : \E v \in {"intent", "fork"} : \E k \in {"cur", "mach"} : \E c \in CtxNodes :
             /\ (v = "intent" => k = "cur") /\ (v = "fork" => c = << >>)
             /\ ast' = e /\ variant' = v /\ kind' = k /\ ctxNode' = c
             /\ prog' = IF v = "intent" THEN PathEvalCompile(e) ELSE PathEvalCompileFork(e)
             /\ st' = PEInit(k)
        /\ UNCHANGED <<fam, chunk>>
Step == /\ prog # << >> /\ ~PEHalted(prog, st)
        /\ st' = PEApply(prog, st, variant, ctxNode)
        /\ UNCHANGED <<fam, chunk, ast, prog, variant, kind, ctxNode>>
MCNext == Pick \/ Step
Picked == prog # << >>
Done == Picked /\ PEHalted(prog, st)

RECURSIVE IsSubseq(_, _)
IsSubseq(a, b) == IF a = << >> THEN TRUE ELSE IF b = << >> THEN FALSE
                  ELSE IF a[1] = b[1] THEN IsSubseq(Tail(a), Tail(b)) ELSE IsSubseq(a, Tail(b))
NotName(I) == I.i # "name"
ListingIsPaths == Picked => LET p == PathEvalCompile(ast) IN
                    /\ Decode(p) = PathsOf(ast)
                    /\ \A i \in 1..Len(p) : p[i].i \in PEVocabulary
                    /\ p[Len(p)].i = "storePathEval"
LeakIsOnlyNames == Picked => LET p == PathEvalCompile(ast)  q == PathEvalCompileFork(ast) IN
                    /\ IsSubseq(p, q)
                    /\ SelectSeq(p, NotName) = SelectSeq(q, NotName)
                    /\ (~HasPreds(ast) => p = q)
IntentCorrect == (Done /\ variant = "intent") =>
                    /\ Observable(st) = MeaningOutcome(ast, ctxNode)
                    /\ st.tested = SubSeq(PathsOf(ast), 1, Len(st.tested))
                    /\ st.err \in {"none", "zerolen"}
StackBalanced == (Picked /\ variant = "intent") =>
                    /\ st.pushes <= Len(st.ds)
                    /\ \A i \in 1..Len(st.ds) : (st.ds[i].t = "pe") = (i > Len(st.ds) - st.pushes)
                    /\ (~st.hasRes /\ st.err = "none") => Len(st.ds) - st.pushes = Len(st.tested)
                    /\ (st.hasRes /\ st.res) => st.ds = << >>
ForkAsDescribed == (Done /\ variant = "fork") =>
                    /\ Observable(st) = ForkOutcome(ast, kind)
                    /\ st.tested = << >> /\ st.pushes = 0
ForkVsMeaning == (Done /\ variant = "fork") =>
                    LET P == PathsOf(ast) IN
                    (Observable(st) = MeaningOutcome(ast, ctxNode)) <=> (P = << >> \/ ZeroLen(P[1]))
ValueXorError == Done => ((st.err # "none") # st.hasRes)
NoRunError == st.err # "run"
=============================================================================
