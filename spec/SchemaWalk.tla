------------------------------ MODULE SchemaWalk ------------------------------
(* Extension module X-walk, part 1: ModelSet.FindOrWalk (schema/walk.go).

   What the code is: findOrWalkWorker is a recursive pre-order walk over
   Node.Children() of the compiled schema.  It does NOT interpret the NodeSpec: the
   spec is handed unchanged to the action function, which decides (done, success,
   ret).  The walk visits the model set itself first (name "", parent nil, empty
   path), then every node reachable through Children(): containers, lists, leaves and
   leaf-lists; choices and cases are not nodes of the walk (Children() lifts their
   data nodes), a list's children are the children of its entry (no entry level).
   The action is called on a node BEFORE its name is appended to the path, so `path`
   holds the names of the proper ancestors, without the model set's empty name;
   `parentNode` is the XNode chain of the ancestors up to the model set.
   Siblings are visited in the order of Children(), which ranges over a Go map: the
   order is arbitrary and changes from call to call - so a behaviour of the walk is
   ANY pre-order of the tree, and nothing more can be specified (deliberate oddity 1).
   done = TRUE stops the whole walk at once: the node just visited is returned
   together with the action's `success`; `success` of a call that is not done is
   ignored and a walk that runs to the end returns (nil, TRUE) (oddity 2).  The
   returned slice is the concatenation of the slices the calls returned, in call order,
   the done call included.  A nil action walks the tree and calls nothing.
   The model set has the path <<"">> for an action that compares path + name with
   NodeSpec.Path (schematests.NodeFinder, nodeMatcher): the path [""] "finds" the model
   set, the empty path finds nothing (oddity 3).

   Mechanism: a work-list machine (stack of frames [fp, todo]), one Visit step per
   node, any remaining child next.  Meaning: the set PreOrders of the visible tree,
   each cut at its first done call.  SchemaWalkMC checks mechanism = meaning.

   Schemas are SchemaNodes records; a node is identified by its full path fp (names
   from the top; << >> is the model set).                                      *)
EXTENDS SchemaNodes, TLC

\* ------------------------------------------------------------ the walked tree
LastOf(s) == s[Len(s)]
FrontOf(s) == SubSeq(s, 1, Len(s) - 1)
RECURSIVE WNodeAt(_, _)
WNodeAt(kids, fp) == IF Len(fp) = 1 THEN VisibleNamed(kids, fp[1]) ELSE WNodeAt(VisibleNamed(kids, fp[1]).kids, Tail(fp))
KidNames(sch, fp) == IF fp = << >> THEN {c.name : c \in Visible(sch)} ELSE {c.name : c \in Visible(WNodeAt(sch, fp).kids)}
RECURSIVE AllFps(_, _)
AllFps(kids, pre) == UNION {{pre \o <<c.name>>} \cup AllFps(c.kids, pre \o <<c.name>>) : c \in Visible(kids)}
WalkNodes(sch) == {<< >>} \cup AllFps(sch, << >>)

RECURSIVE RevSeq(_)
RevSeq(s) == IF s = << >> THEN << >> ELSE RevSeq(Tail(s)) \o <<s[1]>>

\* what the action function is called with for the node at fp
\*   name, kind   of the node;  path = names of its proper ancestors (argument `path`)
\*   par          names along the parentNode chain, nearest first, ending with the model set's ""
\*                (<< >> = nil parentNode)
CallOf(sch, fp) ==
  IF fp = << >> THEN [name |-> "", kind |-> "modelset", path |-> << >>, par |-> << >>]
  ELSE [name |-> LastOf(fp), kind |-> WNodeAt(sch, fp).kind, path |-> FrontOf(fp), par |-> RevSeq(<<"">> \o FrontOf(fp))]
\* what NodeFinder / nodeMatcher compare with NodeSpec.Path
MatchPath(c) == c.path \o <<c.name>>
FpOfCall(c) == IF c.kind = "modelset" THEN << >> ELSE c.path \o <<c.name>>

\* ------------------------------------------------------------ the action menu
\* A query q = [mode, path, stype]: the NodeSpec is [Path |-> q.path, Statement.Type |-> q.stype] and
\* the mode names the action function the harness passes (all of them are functions of the call alone):
\*   "nil"        no action function
\*   "walk"       never done, success TRUE, returns RetOf (0, 1 or 2 items, by node kind)
\*   "walkfalse"  never done, success FALSE, returns RetOf
\*   "find"       schematests.NodeFinder: done iff path + name = NodeSpec.Path; success TRUE; nothing returned
\*   "match"      done iff path + name = NodeSpec.Path; then success iff kind = Statement.Type and one item
\*                returned (the shape of schematests.nodeMatcher); RetOf on the way
\*   "name"       done iff name = last element of NodeSpec.Path (several nodes may qualify: which one
\*                ends the walk depends on the sibling order); success FALSE iff it is a leaf; RetOf on the way
Item(t, n) == [t |-> t, n |-> n]
RetOf(c) == CASE c.kind = "container" -> <<Item("c", c.name)>>
              [] c.kind = "list"      -> <<Item("l", c.name), Item("e", c.name)>>
              [] c.kind = "leaflist"  -> <<Item("ll", c.name)>>
              [] c.kind = "modelset"  -> <<Item("ms", "")>>
              [] OTHER                -> << >>
Act(q, c) ==
  CASE q.mode = "walk"      -> [done |-> FALSE, ok |-> TRUE, ret |-> RetOf(c)]
    [] q.mode = "walkfalse" -> [done |-> FALSE, ok |-> FALSE, ret |-> RetOf(c)]
    [] q.mode = "find"      -> [done |-> MatchPath(c) = q.path, ok |-> TRUE, ret |-> << >>]
    [] q.mode = "match"     -> IF MatchPath(c) = q.path
                               THEN [done |-> TRUE, ok |-> c.kind = q.stype, ret |-> <<Item("m", c.name)>>]
                               ELSE [done |-> FALSE, ok |-> TRUE, ret |-> RetOf(c)]
    [] q.mode = "name"      -> IF q.path # << >> /\ c.name = LastOf(q.path)
                               THEN [done |-> TRUE, ok |-> c.kind # "leaf", ret |-> <<Item("n", c.name)>>]
                               ELSE [done |-> FALSE, ok |-> TRUE, ret |-> RetOf(c)]
    [] OTHER                -> [done |-> FALSE, ok |-> TRUE, ret |-> << >>]     \* "nil": never evaluated for a call

\* ------------------------------------------------------------ mechanism: the work-list machine
\* state w: stack of frames [fp, todo]; calls so far; ret so far; st = "new" | "run" | "found" | "end";
\* node = fp of the node returned (st = "found"); ok = the success flag returned
W0 == [stack |-> << >>, calls |-> << >>, ret |-> << >>, st |-> "new", node |-> << >>, ok |-> TRUE]
\* frames whose children are all done return to their caller
RECURSIVE PopDone(_)
PopDone(stack) == IF stack # << >> /\ stack[Len(stack)].todo = {} THEN PopDone(FrontOf(stack)) ELSE stack
\* the nodes the next Visit may be about
NextFps(sch, w) ==
  IF w.st = "new" THEN {<< >>}
  ELSE IF w.st # "run" THEN {}
  ELSE LET s == PopDone(w.stack) IN
       IF s = << >> THEN {} ELSE {s[Len(s)].fp \o <<n>> : n \in s[Len(s)].todo}
Visit(sch, q, w, fp) ==
  LET s0 == IF w.st = "new" THEN << >> ELSE PopDone(w.stack)
      s1 == IF fp = << >> THEN s0 ELSE [s0 EXCEPT ![Len(s0)].todo = @ \ {LastOf(fp)}]
      c  == CallOf(sch, fp)
      a  == Act(q, c)
      push == Append(s1, [fp |-> fp, todo |-> KidNames(sch, fp)])
  IN IF q.mode = "nil" THEN [w EXCEPT !.stack = push, !.st = "run"]
     ELSE IF a.done THEN [w EXCEPT !.stack = s1, !.calls = Append(@, c), !.ret = @ \o a.ret, !.st = "found", !.node = fp, !.ok = a.ok]
     ELSE [w EXCEPT !.stack = push, !.calls = Append(@, c), !.ret = @ \o a.ret, !.st = "run"]
\* every frame has returned: the walk ran to completion
CanEnd(w) == w.st = "run" /\ PopDone(w.stack) = << >>
End(w) == [w EXCEPT !.stack = << >>, !.st = "end", !.ok = TRUE]
Terminal(w) == w.st \in {"found", "end"}
\* what the caller of FindOrWalk observes
Outcome(w) == [calls |-> w.calls, found |-> w.st = "found", node |-> w.node, ok |-> w.ok, ret |-> w.ret]

\* the machine driven by an observed call sequence (trace validation and the converse inclusion):
\* "" when the observation is a behaviour of the machine, else what is wrong with it
RECURSIVE Drive(_, _, _, _, _)
Drive(sch, q, w, calls, i) ==
  IF i > Len(calls) THEN (IF Terminal(w) THEN "" ELSE IF CanEnd(w) THEN "" ELSE "walk-incomplete")
  ELSE IF Terminal(w) THEN "call-after-done"
  ELSE LET c == calls[i]  fp == FpOfCall(c) IN
       IF fp \notin NextFps(sch, w) THEN
            (IF fp \notin WalkNodes(sch) THEN "call-on-unknown-node"
             ELSE IF \E j \in 1..(i - 1) : calls[j] = c THEN "node-visited-twice" ELSE "not-a-pre-order")
       ELSE IF c # CallOf(sch, fp) THEN "wrong-call-arguments"
       ELSE Drive(sch, q, Visit(sch, q, w, fp), calls, i + 1)
RECURSIVE Final(_, _, _, _, _)
Final(sch, q, w, calls, i) ==
  IF i > Len(calls) THEN (IF CanEnd(w) THEN End(w) ELSE w)
  ELSE Final(sch, q, Visit(sch, q, w, FpOfCall(calls[i])), calls, i + 1)
\* judge a complete observation o = [calls, found, node, ok, ret] (for q.mode = "nil": no calls at all)
JudgeWalk(sch, q, o) ==
  IF q.mode = "nil" THEN (IF o.calls # << >> THEN "call-without-action"
                          ELSE IF o.found \/ ~o.ok \/ o.ret # << >> THEN "wrong-result" ELSE "")
  ELSE LET d == Drive(sch, q, W0, o.calls, 1) IN
       IF d # "" THEN d
       ELSE LET f == Outcome(Final(sch, q, W0, o.calls, 1)) IN
            IF f.found # o.found \/ (f.found /\ f.node # o.node) THEN "wrong-node-returned"
            ELSE IF f.ok # o.ok THEN "wrong-success"
            ELSE IF f.ret # o.ret THEN "wrong-returned-slice" ELSE ""

\* ------------------------------------------------------------ meaning
\* the pre-orders of the visible tree: a node, then the pre-orders of its children in any order
RECURSIVE PreOrdersAt(_, _), KidOrders(_, _, _)
KidOrders(sch, fp, S) ==
  IF S = {} THEN {<< >>}
  ELSE UNION {{a \o b : a \in PreOrdersAt(sch, fp \o <<n>>), b \in KidOrders(sch, fp, S \ {n})} : n \in S}
PreOrdersAt(sch, fp) == {<<fp>> \o s : s \in KidOrders(sch, fp, KidNames(sch, fp))}
PreOrders(sch) == PreOrdersAt(sch, << >>)
\* one pre-order, cut at the first call that is done
FirstDone(sch, q, po) == LET D == {i \in 1..Len(po) : Act(q, CallOf(sch, po[i])).done} IN
                         IF D = {} THEN 0 ELSE CHOOSE i \in D : \A j \in D : i <= j
RECURSIVE CatRet(_, _, _)
CatRet(sch, q, fps) == IF fps = << >> THEN << >> ELSE Act(q, CallOf(sch, fps[1])).ret \o CatRet(sch, q, Tail(fps))
BehaviourOf(sch, q, po) ==
  IF q.mode = "nil" THEN [calls |-> << >>, found |-> FALSE, node |-> << >>, ok |-> TRUE, ret |-> << >>]
  ELSE LET k   == FirstDone(sch, q, po)
           cut == IF k = 0 THEN po ELSE SubSeq(po, 1, k)
       IN [calls |-> [i \in 1..Len(cut) |-> CallOf(sch, cut[i])],
           found |-> k # 0, node |-> IF k = 0 THEN << >> ELSE po[k],
           ok |-> IF k = 0 THEN TRUE ELSE Act(q, CallOf(sch, po[k])).ok,
           ret |-> CatRet(sch, q, cut)]
Behaviours(sch, q) == {BehaviourOf(sch, q, po) : po \in PreOrders(sch)}

\* laws of the meaning that do not mention an order (what a caller can rely on)
SeqToSet(s) == {s[i] : i \in 1..Len(s)}
WalkLaws(sch, q, b) ==
  /\ \A i, j \in 1..Len(b.calls) : i # j => b.calls[i] # b.calls[j]                          \* no node twice
  /\ \A i \in 1..Len(b.calls) : b.calls[i] = CallOf(sch, FpOfCall(b.calls[i]))               \* path = the ancestors
  /\ \A i \in 2..Len(b.calls) : \E j \in 1..(i - 1) : FpOfCall(b.calls[j]) = b.calls[i].path   \* parent first
  /\ (q.mode # "nil" /\ ~b.found) => SeqToSet(b.calls) = {CallOf(sch, fp) : fp \in WalkNodes(sch)}  \* every node once
  /\ b.found => /\ FpOfCall(b.calls[Len(b.calls)]) = b.node                                   \* the done call is the last
                /\ Act(q, b.calls[Len(b.calls)]).done
                /\ \A i \in 1..(Len(b.calls) - 1) : ~Act(q, b.calls[i]).done
  /\ ~b.found => b.ok                                                                         \* completion is success
  \* a path finder (find / match) returns the node the path designates, exactly when it exists
  /\ q.mode \in {"find", "match"} =>
        b.found = (\E fp \in WalkNodes(sch) : MatchPath(CallOf(sch, fp)) = q.path)
  /\ (q.mode \in {"find", "match"} /\ b.found) => MatchPath(CallOf(sch, b.node)) = q.path

\* ------------------------------------------------------------ shapes and queries
WalkShape(id) ==
  CASE id = 1 -> << Leaf("a", "string"), Leaf("b", "int8") >>
    [] id = 2 ->   \* one leaf name at three levels
         << Leaf("a", "string"), Cont("c", << Leaf("a", "string"), Cont("d", << Leaf("a", "string") >>) >>) >>
    [] id = 3 ->   \* list (its children are the entry's), leaf-list, container inside the list
         << List("l", "k", << Leaf("k", "string"), Leaf("v", "string"), Cont("c", << Leaf("x", "string") >>) >>), LL("m", "string") >>
    [] id = 4 ->   \* choices and cases are not walked; their data nodes are children of the enclosing node
         << Choice("ch", << Case("c1", << Leaf("x", "string"), Leaf("y", "string") >>), Leaf("z", "string") >>),
            Cont("p", << Choice("ch2", << Case("c3", << Cont("q", << Leaf("x", "string") >>) >>) >>) >>) >>
    [] id = 5 ->   \* 3! * 2 * 2 * 2 = 48 orders
         << Cont("a", << Leaf("x", "string"), Leaf("y", "string") >>), Cont("b", << Leaf("x", "string"), LL("y", "string") >>),
            PCont("c", << Leaf("x", "string"), Leaf("z", "string") >>) >>
    [] id = 6 ->   \* a chain
         << Cont("c1", << Cont("c2", << Cont("c3", << Cont("c4", << Leaf("e", "string") >>) >>) >>) >>) >>
    [] id = 7 ->   \* a node named like its parent; an empty container; a leaf named like a container elsewhere
         << Cont("a", << Cont("a", << Leaf("a", "string") >>), Cont("e", << >>) >>), Leaf("e", "string") >>
    [] id = 8 ->   \* nested lists, choice inside a list, short-hand case
         << List("o", "k", << Leaf("k", "string"), List("i", "k", << Leaf("k", "int8"), Leaf("v", "string") >>),
                              Choice("ch", << Leaf("s", "string"), Case("t", << LL("t", "string") >>) >>) >>) >>
    [] OTHER -> << >>   \* the empty model set: only the model set itself is visited
NWalkShapes == 9

\* queries for a schema: every mode; targets = every node (also as it would be written with a wrong last
\* element or one element too many), the model set's <<"">>, the empty path, an unknown name
Targets(sch) == LET NN == WalkNodes(sch) \ {<< >>} IN
  NN \cup {<<"">>, << >>, <<"zz">>} \cup {fp \o <<"zz">> : fp \in NN} \cup {<<"">> \o fp : fp \in {f \in NN : Len(f) = 1}}
Kinds == {"container", "list", "leaf", "leaflist", "modelset"}
Q(mode, path, stype) == [mode |-> mode, path |-> path, stype |-> stype]
Queries(sch) ==
  {Q(m, << >>, "") : m \in {"nil", "walk", "walkfalse"}}
  \cup {Q("find", t, "") : t \in Targets(sch)}
  \cup {Q("match", t, k) : t \in {x \in Targets(sch) : Len(x) <= 2}, k \in {"container", "leaf"}}
  \cup {Q("match", fp, CallOf(sch, fp).kind) : fp \in WalkNodes(sch)} \cup {Q("match", <<"">>, "modelset")}
  \cup {Q("name", <<n>>, "") : n \in {LastOf(fp) : fp \in WalkNodes(sch) \ {<< >>}} \cup {"", "zz"}}
=============================================================================
