---------------------------- MODULE YangSchemaSets ----------------------------
(* Bounded input spaces for YangSchema: families of module sets.  A case is
   [m |-> module set, e |-> set of enabled feature ids <<module, feature>>,
    alt |-> "inline" | "edit" | "none", fl |-> sequence of filters].
   Families are operators with a dummy parameter so that TLC does not evaluate
   them at start-up.                                                          *)
EXTENDS YangSchema

P(kw, a) == St(kw, <<a>>, <<>>)
Ty(t) == St("type", <<t>>, <<>>)
Leaf(n, extra) == St("leaf", <<n>>, <<Ty("string")>> \o extra)
LeafList(n, extra) == St("leaf-list", <<n>>, <<Ty("string")>> \o extra)
Cont(n, subs) == St("container", <<n>>, subs)
List(n, k, subs) == St("list", <<n>>, <<St("key", <<k>>, <<>>), Leaf(k, <<>>)>> \o subs)
Choice(n, subs) == St("choice", <<n>>, subs)
Case(n, subs) == St("case", <<n>>, subs)
Grouping(n, subs) == St("grouping", <<n>>, subs)
Uses(p, g, subs) == St("uses", <<p, g>>, subs)
Refine(path, subs) == St("refine", path, subs)
Augment(path, subs) == St("augment", path, subs)
IfF(p, f) == St("if-feature", <<p, f>>, <<>>)
Feature(n, subs) == St("feature", <<n>>, subs)
Imports(ms) == [i \in 1..Len(ms) |-> St("import", <<ms[i]>>, <<P("prefix", ms[i])>>)]
Module(n, imports, subs) == St("module", <<n>>, <<P("namespace", "urn:" \o n), P("prefix", n)>> \o Imports(imports) \o subs)
Submodule(n, of, imports, subs) == St("submodule", <<n>>, <<St("belongs-to", <<of>>, <<P("prefix", of)>>)>> \o Imports(imports) \o subs)
Include(n) == P("include", n)
Deviation(path, subs) == St("deviation", path, subs)
Deviate(how, subs) == St("deviate", <<how>>, subs)

\* classes of input that known findings refer to
RECURSIVE AugWhenUses(_)
AugWhenUses(st) == (st.kw = "augment" /\ Has(st, "when") /\ Has(st, "uses")) \/ \E i \in 1..Len(st.subs) : AugWhenUses(st.subs[i])
RECURSIVE DeepHas(_, _)
DeepHas(st, kw) == st.kw = kw \/ \E i \in 1..Len(st.subs) : DeepHas(st.subs[i], kw)
RECURSIVE ForeignUsesLocalAug(_)
ForeignUsesLocalAug(st) == (st.kw = "uses" /\ st.arg[1] # "" /\ \E a \in Range(Sub(st, "augment")) : \E u \in Range(Sub(a, "uses")) : u.arg[1] = "")
                           \/ \E i \in 1..Len(st.subs) : ForeignUsesLocalAug(st.subs[i])
RECURSIVE ReplaceTwice(_)
ReplaceTwice(st) == (st.kw = "deviate" /\ st.arg[1] = "replace" /\ \E i, j \in 1..Len(st.subs) : i < j /\ st.subs[i].kw = st.subs[j].kw /\ ~Multi(st.subs[i].kw))
                    \/ \E i \in 1..Len(st.subs) : ReplaceTwice(st.subs[i])
InputClasses(M) == {"deviate-replace-property-twice" : i \in {j \in 1..Len(M) : ReplaceTwice(M[j])}} \cup {"feature-in-submodule" : i \in {j \in 1..Len(M) : M[j].kw = "submodule" /\ Has(M[j], "feature")}}
              \cup {"uses-in-augment-with-when" : i \in {j \in 1..Len(M) : AugWhenUses(M[j])}}
              \cup {"local-uses-in-augment-of-foreign-uses" : i \in {j \in 1..Len(M) : ForeignUsesLocalAug(M[j])}}
              \cup {"scoped-grouping-in-submodule" : i \in {j \in 1..Len(M) : M[j].kw = "submodule" /\ \E k \in 1..Len(M[j].subs) : M[j].subs[k].kw # "grouping" /\ DeepHas(M[j].subs[k], "grouping")}}

CaseOf(m, e, alt) == [m |-> m, e |-> e, alt |-> alt, fl |-> <<>>]

\* all schema node paths (unprefixed, flat <<"", n1, "", n2, ...>>) into a statement list, to depth k
RECURSIVE NodePaths(_, _)
NodePaths(stmts, k) ==
  IF k = 0 THEN {} ELSE
  UNION {{<<"", stmts[i].arg[1]>>} \cup {<<"", stmts[i].arg[1]>> \o p : p \in NodePaths(stmts[i].subs, k - 1)}
         : i \in {j \in 1..Len(stmts) : stmts[j].kw \in NodeKw}}

\* ---------------------------------------------------------------- C12
\* grouping bodies
Bodies(u_) == {
  << Leaf("x", <<>>) >>,
  << Leaf("x", <<P("default", "dx")>>), Leaf("y", <<P("mandatory", "true")>>) >>,
  << Cont("c", <<Leaf("x", <<>>)>>) >>,
  << Cont("c", <<P("presence", "p"), Leaf("x", <<P("default", "dx"), P("must", "1 = 1")>>)>>) >>,
  << List("l", "k", <<Leaf("v", <<>>), P("min-elements", "1")>>) >>,
  << LeafList("ll", <<P("max-elements", "4")>>) >>,
  << Choice("ch", <<Case("ca", <<Leaf("x", <<>>)>>), Leaf("y", <<>>)>>) >>,
  << Choice("ch", <<P("default", "y"), Case("ca", <<Leaf("x", <<>>)>>), Leaf("y", <<>>)>>), Leaf("z", <<P("config", "false")>>) >> }
\* refinement statements, one of each kind (and one that no node accepts)
RefKinds(u_) == { P("description", "refined"), P("config", "false"), P("mandatory", "true"), P("mandatory", "false"), P("presence", "rp"),
                  P("must", "2 = 2"), P("default", "rd"), P("default", "ca"), P("min-elements", "2"), P("max-elements", "3"), P("units", "u") }
\* where the uses is written: the statements of module a around the uses u
Sites(u, extra) == {
  <<u>> \o extra,
  << Cont("top", <<u>> \o extra) >>,
  << Cont("top", <<List("li", "key", <<u>> \o extra)>>) >>,
  << Cont("top", <<Choice("cx", <<Case("c1", <<u>> \o extra), Case("c2", <<Leaf("o", <<>>)>>)>>)>>) >> }

\* F1: local grouping, every body x use site x (no refine | one refine of each kind on each path, and on a missing path)
F1(BS) == UNION { UNION {
   {CaseOf(<<Module("a", <<>>, <<Grouping("g1", b)>> \o site)>>, {}, "inline") : site \in Sites(Uses("", "g1", rs), <<>>)}
     : rs \in {<<>>} \cup {<<Refine(p, <<r>>)>> : p \in NodePaths(b, 3) \cup {<<"", "nope">>}, r \in RefKinds(0)} }
   : b \in BS }
BodiesA(u_) == {b \in Bodies(0) : b[1].kw \in {"leaf", "container"}}

\* F2: nested groupings to depth 3, scoped / cross-module / submodule definitions, refine through the nesting
G3Bodies(u_) == { << Leaf("z", <<>>) >>, << Cont("d", <<Leaf("z", <<P("default", "dz")>>)>>) >> }
DeepPaths(u_) == { <<>>, <<"", "z">>, <<"", "d", "", "z">>, <<"", "c2", "", "z">>, <<"", "c1", "", "z">>, <<"", "c1", "", "c2", "", "z">>,
                   <<"", "c1", "", "d", "", "z">>, <<"", "c2", "", "d", "", "z">>, <<"", "c1", "", "c2", "", "d", "", "z">>, <<"", "y">> }
TopUse(path) == Cont("top", <<Uses("", "g1", IF path = <<>> THEN <<>> ELSE <<Refine(path, <<P("default", "r1")>>)>>)>>)
F2Layouts(b1, b2, b3, b2x, b3x, b1y, b2y, path) == {
   \* all three at the top of module a
   << Module("a", <<>>, <<Grouping("g1", b1), Grouping("g2", b2), Grouping("g3", b3), TopUse(path)>>) >>,
   \* g2 and g3 scoped inside g1; g3 scoped inside g2
   << Module("a", <<>>, <<Grouping("g1", <<Grouping("g2", b2), Grouping("g3", b3)>> \o b1), TopUse(path)>>) >>,
   << Module("a", <<>>, <<Grouping("g1", b1), Grouping("g2", <<Grouping("g3", b3)>> \o b2), TopUse(path)>>) >>,
   \* g1 scoped in the container that uses it
   << Module("a", <<>>, <<Grouping("g2", b2), Grouping("g3", b3),
                          Cont("top", <<Grouping("g1", b1), Uses("", "g1", IF path = <<>> THEN <<>> ELSE <<Refine(path, <<P("default", "r1")>>)>>)>>)>>) >>,
   \* g3 in module b
   << Module("b", <<>>, <<Grouping("g3", b3)>>), Module("a", <<"b">>, <<Grouping("g1", b1), Grouping("g2", b2x), TopUse(path)>>) >>,
   \* g2 and g3 in module b (g2 refers to g3 without a prefix, in b's scope)
   << Module("b", <<>>, <<Grouping("g2", b2), Grouping("g3", b3)>>), Module("a", <<"b">>, <<Grouping("g1", b1y), TopUse(path)>>) >>,
   \* a chain over three modules
   << Module("c", <<>>, <<Grouping("g3", b3)>>), Module("b", <<"c">>, <<Grouping("g2", b2y)>>), Module("a", <<"b">>, <<Grouping("g1", b1y), TopUse(path)>>) >>,
   \* g2 and g3 in a submodule of a
   << Submodule("as", "a", <<>>, <<Grouping("g2", b2), Grouping("g3", b3)>>), Module("a", <<>>, <<Include("as"), Grouping("g1", b1), TopUse(path)>>) >> }
G2 == << << <<Uses("", "g3", <<>>)>>, <<Uses("b", "g3", <<>>)>>, <<Uses("c", "g3", <<>>)>> >>,
         << <<Leaf("y", <<>>), Uses("", "g3", <<>>)>>, <<Leaf("y", <<>>), Uses("b", "g3", <<>>)>>, <<Leaf("y", <<>>), Uses("c", "g3", <<>>)>> >>,
         << <<Cont("c2", <<Uses("", "g3", <<>>)>>)>>, <<Cont("c2", <<Uses("b", "g3", <<>>)>>)>>, <<Cont("c2", <<Uses("c", "g3", <<>>)>>)>> >>,
         << <<Uses("", "g3", <<Refine(<<"", "z">>, <<P("default", "r2")>>)>>)>>, <<Uses("b", "g3", <<Refine(<<"", "z">>, <<P("default", "r2")>>)>>)>>,
            <<Uses("c", "g3", <<Refine(<<"", "z">>, <<P("default", "r2")>>)>>)>> >> >>
G1 == << << <<Uses("", "g2", <<>>)>>, <<Uses("b", "g2", <<>>)>> >>,
         << <<Cont("c1", <<Uses("", "g2", <<>>)>>)>>, <<Cont("c1", <<Uses("b", "g2", <<>>)>>)>> >>,
         << <<Leaf("x", <<>>), Uses("", "g2", <<>>)>>, <<Leaf("x", <<>>), Uses("b", "g2", <<>>)>> >> >>
F2(u_) == UNION { UNION { UNION { UNION {
    {CaseOf(m, {}, "inline") : m \in F2Layouts(G1[i1][1], G2[i2][1], b3, G2[i2][2], b3, G1[i1][2], G2[i2][3], path)}
      : path \in DeepPaths(0) } : b3 \in G3Bodies(0) } : i2 \in 1..4 } : i1 \in 1..3 }

\* F3: who owns the copied nodes.  The uses is written in a module or in a submodule; the grouping is local, in an
\* imported module, or in an (included) submodule; the body carries must/when (namespace of unprefixed names) and an
\* if-feature on a feature of the defining module.
F3BodyNF == << Leaf("x", <<P("must", "../q = 1"), P("when", "../q")>>), Cont("c", <<Leaf("y", <<P("default", "d")>>)>>),
               Choice("ch", <<Leaf("s1", <<>>), Case("s2", <<LeafList("s2l", <<>>)>>)>>) >>
F3Body(fp) == << Leaf("x", <<P("must", "../q = 1"), P("when", "../q")>>), Cont("c", <<IfF(fp, "ff"), Leaf("y", <<P("default", "d")>>)>>),
                 Choice("ch", <<Leaf("s1", <<>>), Case("s2", <<LeafList("s2l", <<>>)>>)>>) >>
F3Sets(u_) == {
   \* grouping and feature in b, used at the top and inside a container of a
   << Module("b", <<>>, <<Feature("ff", <<>>), Grouping("g", F3Body(""))>>),
      Module("a", <<"b">>, <<Uses("b", "g", <<>>), Cont("top", <<Leaf("q", <<>>), Uses("b", "g", <<>>)>>)>>) >>,
   \* the same, b's own prefix written explicitly on the feature
   << Module("b", <<>>, <<Feature("ff", <<>>), Grouping("g", F3Body("b"))>>),
      Module("a", <<"b">>, <<Cont("top", <<Uses("b", "g", <<>>)>>)>>) >>,
   \* grouping in a submodule, used by the module
   << Submodule("as", "a", <<>>, <<Grouping("g", F3BodyNF)>>),
      Module("a", <<>>, <<Include("as"), Cont("top", <<Uses("", "g", <<>>)>>)>>) >>,
   \* grouping in the module's submodule as2, used by submodule as1 which includes as2
   << Submodule("as2", "a", <<>>, <<Grouping("g", F3BodyNF)>>),
      Submodule("as1", "a", <<>>, <<Include("as2"), Cont("s1", <<Uses("", "g", <<>>)>>)>>),
      Module("a", <<>>, <<Include("as1"), Include("as2"), Cont("top", <<Leaf("t", <<>>)>>)>>) >>,
   \* local grouping of a submodule, used there; and a grouping of b used in the submodule
   << Module("b", <<>>, <<Feature("ff", <<>>), Grouping("g", F3Body(""))>>),
      Submodule("as", "a", <<"b">>, <<Grouping("h", <<Leaf("hh", <<P("must", "../x")>>)>>), Cont("s", <<Uses("", "h", <<>>), Uses("b", "g", <<>>)>>)>>),
      Module("a", <<>>, <<Include("as"), Cont("top", <<Leaf("t", <<>>)>>)>>) >>,
   \* grouping of b whose body uses a grouping of c: everything lands in a
   << Module("c", <<>>, <<Feature("ff", <<>>), Grouping("g", F3Body(""))>>),
      Module("b", <<"c">>, <<Grouping("h", <<Cont("hc", <<Uses("c", "g", <<>>)>>)>>)>>),
      Module("a", <<"b">>, <<Cont("top", <<Uses("b", "h", <<>>)>>)>>) >>,
   \* unknown prefix, unknown grouping, grouping of a module that is not imported
   << Module("b", <<>>, <<Grouping("g", F3Body(""))>>), Module("a", <<>>, <<Cont("top", <<Uses("b", "g", <<>>)>>)>>) >>,
   << Module("b", <<>>, <<Grouping("g", <<Leaf("x", <<>>)>>)>>), Module("a", <<"b">>, <<Cont("top", <<Uses("b", "nope", <<>>)>>)>>) >>,
   << Module("a", <<>>, <<Cont("top", <<Uses("", "nope", <<>>)>>)>>) >>,
   \* a submodule cannot see the groupings of its module (YANG 1)
   << Submodule("as", "a", <<>>, <<Cont("s", <<Uses("", "g", <<>>)>>)>>), Module("a", <<>>, <<Include("as"), Grouping("g", <<Leaf("x", <<>>)>>)>>) >> }
FeatSets(ids) == SUBSET ids
F3(u_) == UNION { {CaseOf(m, e, "inline") : e \in FeatSets({<<"a", "ff">>, <<"b", "ff">>, <<"c", "ff">>})} : m \in F3Sets(0) }

\* F4: when / if-feature / status written on the uses apply to every node it introduces
F4Bodies(u_) == { << Leaf("x", <<>>), Cont("c", <<Leaf("y", <<>>)>>) >>,
                  << Leaf("x", <<P("when", "1 = 1")>>), LeafList("ll", <<>>) >>,
                  << Leaf("x", <<P("status", "deprecated")>>), List("l", "k", <<>>) >>,
                  << Choice("ch", <<Leaf("p", <<>>), Case("q", <<Leaf("q1", <<>>)>>)>>), Leaf("x", <<IfF("", "f2")>>) >> }
F4Extras(u_) == { x \in SUBSET {P("when", "../w = 'v'"), IfF("", "f1"), P("status", "deprecated"), P("status", "obsolete")} :
                  ~({P("status", "deprecated"), P("status", "obsolete")} \subseteq x) }
RECURSIVE SetAsSeq(_)
SetAsSeq(S) == IF S = {} THEN <<>> ELSE LET x == CHOOSE y \in S : TRUE IN <<x>> \o SetAsSeq(S \ {x})
F4(u_) == UNION { UNION { UNION {
   {CaseOf(<<Module("a", <<>>, <<Feature("f1", <<>>), Feature("f2", <<>>), Grouping("g", b)>> \o site)>>, e, "inline")
      : site \in { << Cont("top", <<Leaf("w", <<>>), Uses("", "g", SetAsSeq(x))>>) >>,
                   << Cont("top", <<P("status", "deprecated"), Leaf("w", <<>>), Uses("", "g", SetAsSeq(x))>>) >>,
                   << Uses("", "g", SetAsSeq(x)) >> } }
     : e \in FeatSets({<<"a", "f1">>, <<"a", "f2">>}) } : x \in F4Extras(0) } : b \in F4Bodies(0) }

\* F5: augment inside uses
F5Body == << Cont("c", <<Leaf("x", <<>>)>>), Choice("ch", <<Case("ca", <<Leaf("q", <<>>)>>)>>), List("l", "k", <<>>), Leaf("lf", <<>>) >>
F5Paths(u_) == { <<"", "c">>, <<"", "ch">>, <<"", "ch", "", "ca">>, <<"", "l">>, <<"", "lf">>, <<"", "nope">>, <<"", "c", "", "x">>, <<"a", "c">> }
F5Kids(u_) == { << Leaf("n", <<>>) >>, << Cont("n", <<Leaf("m", <<P("mandatory", "true")>>)>>) >>, << Case("cn", <<Leaf("n", <<>>)>>) >>,
                << Leaf("x", <<>>) >>, << Leaf("n", <<>>), LeafList("n2", <<>>) >>, << Uses("", "h", <<>>) >>, << Leaf("q", <<>>) >> }
F5Extras(u_) == { <<>>, <<P("when", "1 = 1")>>, <<IfF("", "f1")>>, <<P("when", "1 = 1"), IfF("", "f1")>> }
F5(u_) == UNION { UNION { UNION {
   { CaseOf(<<Module("a", <<>>, <<Feature("f1", <<>>), Grouping("h", <<Leaf("hh", <<>>)>>), Grouping("g", F5Body), Cont("top", <<Uses("", "g", <<Augment(p, x \o k)>>)>>)>>)>>, e, "inline")
      : e \in {{}, {<<"a", "f1">>}} } : x \in F5Extras(0) } : k \in F5Kids(0) } : p \in F5Paths(0) }

\* F6: module-level augment: from the module itself, from its submodule, from another module
F6Base(aug, incl) == Module("a", <<>>, incl \o <<Feature("f1", <<>>), Grouping("g", <<Cont("gc", <<Leaf("gl", <<>>)>>)>>),
      Cont("top", <<Cont("in", <<Leaf("x", <<>>)>>), Choice("ch", <<Case("ca", <<Leaf("q", <<>>)>>)>>), List("li", "k", <<>>), Leaf("lf", <<>>), Uses("", "g", <<>>)>>)>> \o aug)
F6Paths(p) == { <<p, "top">>, <<p, "top", p, "in">>, <<p, "top", p, "ch">>, <<p, "top", p, "ch", p, "ca">>, <<p, "top", p, "li">>, <<p, "top", p, "lf">>,
                <<p, "top", p, "nope">>, <<p, "top", p, "gc">>, <<p, "zzz">> }
F6Kids(u_) == { << Leaf("n", <<>>) >>, << Leaf("n", <<P("mandatory", "true")>>) >>, << Cont("n", <<Leaf("m", <<P("mandatory", "true")>>)>>) >>,
                << Cont("n", <<P("presence", "p"), Leaf("m", <<P("mandatory", "true")>>)>>) >>, << List("n", "nk", <<P("min-elements", "1")>>) >>,
                << LeafList("n", <<P("min-elements", "1")>>) >>, << Case("cn", <<Leaf("n", <<>>)>>) >>, << Uses("", "h", <<>>) >>, << Leaf("x", <<>>) >>,
                << Choice("n", <<P("mandatory", "true"), Leaf("n1", <<>>)>>) >> }
F6Extras(u_) == { <<>>, <<P("when", "1 = 1")>>, <<IfF("", "f1")>>, <<P("status", "deprecated")>> }
F6(XS) == UNION { UNION {
     { CaseOf(<<F6Base(<<Grouping("h", <<Leaf("hh", <<>>)>>), Augment(p, x \o k)>>, <<>>)>>, {<<"a", "f1">>}, "inline") : p \in F6Paths("") \cup F6Paths("a") }
\cup (IF x = <<IfF("", "f1")>> THEN {} ELSE
      { CaseOf(<<Submodule("as", "a", <<>>, <<Grouping("h", <<Leaf("hh", <<>>)>>), Augment(p, x \o k)>>), F6Base(<<>>, <<Include("as")>>)>>, {<<"a", "f1">>}, "inline") : p \in F6Paths("a") \cup F6Paths("") })
\cup { CaseOf(<<F6Base(<<>>, <<>>), Module("c", <<"a">>, <<Feature("f1", <<>>), Grouping("h", <<Leaf("hh", <<>>)>>), Augment(p, x \o k)>>)>>, e, "inline")
        : p \in F6Paths("a"), e \in {{}, {<<"c", "f1">>}} }
   : x \in XS } : k \in F6Kids(0) }

\* F7: sibling name clashes
F7(u_) == { CaseOf(m, {}, "inline") : m \in {
   << Module("a", <<>>, <<Grouping("g", <<Leaf("x", <<>>)>>), Cont("top", <<Uses("", "g", <<>>), Uses("", "g", <<>>)>>)>>) >>,
   << Module("a", <<>>, <<Grouping("g", <<Leaf("x", <<>>)>>), Cont("top", <<Leaf("x", <<>>), Uses("", "g", <<>>)>>)>>) >>,
   << Module("a", <<>>, <<Grouping("g", <<Leaf("x", <<>>)>>), Cont("top", <<Uses("", "g", <<>>), Cont("x", <<>>)>>)>>) >>,
   << Module("a", <<>>, <<Grouping("g", <<Leaf("x", <<>>)>>), Cont("top", <<Leaf("y", <<>>), Uses("", "g", <<>>)>>)>>) >>,
   << Module("a", <<>>, <<Grouping("g", <<Leaf("x", <<>>)>>), Uses("", "g", <<>>), Leaf("x", <<>>)>>) >>,
   << Module("a", <<>>, <<Grouping("g", <<Leaf("x", <<>>)>>), Grouping("h", <<Cont("x", <<>>)>>), Cont("top", <<Uses("", "g", <<>>), Uses("", "h", <<>>)>>)>>) >>,
   << Module("a", <<>>, <<Grouping("g", <<Leaf("x", <<>>)>>), Cont("top", <<Choice("ch", <<Case("c1", <<Uses("", "g", <<>>)>>), Case("c2", <<Uses("", "g", <<>>)>>)>>)>>)>>) >>,
   << Module("a", <<>>, <<Grouping("g", <<Leaf("x", <<>>)>>), Cont("top", <<Leaf("x", <<>>), Choice("ch", <<Case("c1", <<Uses("", "g", <<>>)>>)>>)>>)>>) >>,
   << Module("a", <<>>, <<Grouping("g", <<Leaf("x", <<>>)>>), Cont("top", <<Choice("ch", <<Case("c1", <<Uses("", "g", <<>>)>>), Case("c1", <<Leaf("y", <<>>)>>)>>)>>)>>) >>,
   << Module("a", <<>>, <<Grouping("g", <<Cont("c", <<Leaf("x", <<>>)>>)>>), Cont("top", <<Uses("", "g", <<Augment(<<"", "c">>, <<Leaf("x", <<>>)>>)>>)>>)>>) >>,
   << Module("a", <<>>, <<Grouping("g", <<Cont("c", <<Leaf("x", <<>>)>>)>>), Cont("top", <<Uses("", "g", <<>>)>>), Augment(<<"", "top", "", "c">>, <<Leaf("x", <<>>)>>)>>) >>,
   << Module("a", <<>>, <<Cont("top", <<Leaf("x", <<>>)>>), Augment(<<"", "top">>, <<Leaf("n", <<>>)>>), Augment(<<"", "top">>, <<Leaf("n", <<>>)>>)>>) >>,
   << Submodule("as", "a", <<>>, <<Augment(<<"a", "top">>, <<Leaf("x", <<>>)>>)>>), Module("a", <<>>, <<Include("as"), Cont("top", <<Leaf("x", <<>>)>>)>>) >>,
   << Submodule("as", "a", <<>>, <<Cont("top", <<>>)>>), Module("a", <<>>, <<Include("as"), Cont("top", <<Leaf("x", <<>>)>>)>>) >>,
   << Module("a", <<>>, <<Grouping("g", <<Leaf("x", <<>>)>>), Cont("top", <<List("l", "x", <<Uses("", "g", <<>>)>>)>>)>>) >>,
   << Module("a", <<>>, <<Grouping("g", <<Uses("", "h", <<>>), Leaf("x", <<>>)>>), Grouping("h", <<Leaf("x", <<>>)>>), Cont("top", <<Uses("", "g", <<>>)>>)>>) >> } }

\* ---------------------------------------------------------------- C14
Cfgs == { <<>>, <<P("config", "true")>>, <<P("config", "false")>> }
Stats == { <<>>, <<P("status", "current")>>, <<P("status", "deprecated")>>, <<P("status", "obsolete")>> }
Attrs(u_) == { c \o t : c \in Cfgs, t \in Stats }
\* G1: config and status at three levels, the middle level a container, a list or a choice/case
G1Mid(kind, a2, a3) == CASE kind = "container" -> Cont("c2", a2 \o <<Leaf("l", a3)>>)
                         [] kind = "list" -> List("c2", "k", a2 \o <<Leaf("l", a3)>>)
                         [] kind = "choice" -> Choice("c2", a2 \o <<Case("cs", <<Leaf("l", a3)>>), Leaf("sh", <<>>)>>)
G1K(kind) == { CaseOf(<<Module("a", <<>>, <<Cont("c1", a1 \o <<G1Mid(kind, a2, a3), Leaf("m", <<>>)>>)>>)>>, {}, "none")
               : a1 \in Attrs(0), a2 \in Attrs(0), a3 \in Attrs(0) }

\* G2: presence as a function of the enabled features, with dependency chains
Deps(u_) == <<  << <<>>, <<>>, <<>> >>,
                << <<IfF("", "f2")>>, <<>>, <<>> >>,
                << <<IfF("", "f2")>>, <<IfF("", "f3")>>, <<>> >>,
                << <<IfF("", "f2"), IfF("a", "f3")>>, <<>>, <<>> >>,
                << <<>>, <<IfF("", "f3")>>, <<IfF("", "f1")>> >> >>
IfSets == { <<>>, <<IfF("", "f1")>>, <<IfF("", "f2")>>, <<IfF("a", "f1"), IfF("", "f3")>> }
G2Tree(x1, x2, x3, x4) == << Cont("c1", x1 \o <<Leaf("l", x2), Choice("ch", <<Case("ca", x3 \o <<Leaf("q", <<>>)>>), Leaf("r", <<>>)>>)>>), Leaf("m", x4) >>
G2D(d) == UNION { { CaseOf(<<Module("a", <<>>, <<Feature("f1", Deps(0)[d][1]), Feature("f2", Deps(0)[d][2]), Feature("f3", Deps(0)[d][3])>> \o G2Tree(x1, x2, x3, x4))>>, e, "none")
                    : x1 \in IfSets, x2 \in IfSets, x3 \in IfSets, x4 \in {<<>>, <<IfF("", "f3")>>} }
                  : e \in FeatSets({<<"a", "f1">>, <<"a", "f2">>, <<"a", "f3">>}) }
\* dependencies that cross modules, cycles, unknown features, duplicates
G2X(u_) == UNION { {
     CaseOf(<<Module("b", <<>>, <<Feature("g", <<IfF("", "h")>>), Feature("h", <<>>)>>),
              Module("a", <<"b">>, <<Feature("f1", <<IfF("b", "g")>>), Cont("c1", x \o <<Leaf("l", <<IfF("b", "h")>>)>>), Leaf("m", <<IfF("b", "g")>>)>>)>>, e, "none"),
     CaseOf(<<Module("a", <<>>, <<Feature("f1", <<IfF("", "f2")>>), Feature("f2", <<IfF("", "f1")>>), Cont("c1", x \o <<Leaf("l", <<>>)>>)>>)>>, e, "none"),
     CaseOf(<<Module("a", <<>>, <<Feature("f1", <<IfF("", "f1")>>), Cont("c1", <<Leaf("l", <<>>)>>)>>)>>, e, "none"),
     CaseOf(<<Module("a", <<>>, <<Feature("f1", <<IfF("", "nope")>>), Cont("c1", <<Leaf("l", <<>>)>>)>>)>>, e, "none"),
     CaseOf(<<Module("a", <<>>, <<Feature("f1", <<>>), Cont("c1", x \o <<Leaf("l", <<IfF("", "nope")>>)>>)>>)>>, e, "none"),
     CaseOf(<<Module("a", <<>>, <<Feature("f1", <<>>), Cont("c1", x \o <<Leaf("l", <<IfF("zz", "f1")>>)>>)>>)>>, e, "none"),
     CaseOf(<<Module("a", <<>>, <<Feature("f1", <<>>), Feature("f1", <<>>), Cont("c1", x \o <<Leaf("l", <<>>)>>)>>)>>, e, "none"),
     \* if-feature on a list key's sibling, on a list, on a leaf-list, on uses and augment together
     CaseOf(<<Module("a", <<>>, <<Feature("f1", <<>>), Grouping("g", <<Leaf("gx", <<>>)>>),
              Cont("c1", <<List("li", "k", x \o <<Leaf("v", x)>>), LeafList("ll", x), Uses("", "g", x)>>), Augment(<<"", "c1">>, x \o <<Leaf("n", <<>>)>>)>>)>>, e, "none") }
   : x \in {<<>>, <<IfF("", "f1")>>}, e \in FeatSets({<<"a", "f1">>, <<"a", "f2">>, <<"b", "g">>, <<"b", "h">>}) }
\* features declared in a submodule
G2S(u_) == { CaseOf(<<Submodule("as", "a", <<>>, <<Feature("fs", <<>>), Cont("s", <<Leaf("sl", <<IfF("", "fs")>>)>>)>>),
                      Module("a", <<>>, <<Include("as"), Cont("c1", <<Leaf("l", x)>>)>>)>>, e, "none")
             : x \in {<<>>, <<IfF("", "fs")>>}, e \in FeatSets({<<"a", "fs">>}) }

\* G3: a definition may not reference a more obsolete one in its own module
St3 == { <<>>, <<P("status", "deprecated")>>, <<P("status", "obsolete")>> }
G3(u_) ==
     { CaseOf(<<Module("a", <<>>, <<Grouping("g", sg \o <<Leaf("x", <<>>)>>), Cont("top", sc \o <<Uses("", "g", su)>>)>>)>>, {}, "none") : sg \in Stats, su \in Stats, sc \in St3 }
\cup { CaseOf(<<Module("b", <<>>, <<Grouping("g", sg \o <<Leaf("x", <<>>)>>)>>), Module("a", <<"b">>, <<Cont("top", sc \o <<Uses("b", "g", su)>>)>>)>>, {}, "none") : sg \in Stats, su \in Stats, sc \in St3 }
\cup { CaseOf(<<Module("a", <<>>, <<Feature("f", sf), Cont("top", sc \o <<Leaf("x", sl \o <<IfF("", "f")>>)>>)>>)>>, {<<"a", "f">>}, "none") : sf \in Stats, sl \in Stats, sc \in St3 }
\cup { CaseOf(<<Module("b", <<>>, <<Feature("f", sf)>>), Module("a", <<"b">>, <<Cont("top", sc \o <<Leaf("x", sl \o <<IfF("b", "f")>>)>>)>>)>>, {<<"b", "f">>}, "none") : sf \in Stats, sl \in Stats, sc \in St3 }
\cup { CaseOf(<<Module("a", <<>>, <<Feature("f1", s1 \o <<IfF("", "f2")>>), Feature("f2", s2), Leaf("x", <<IfF("", "f1")>> \o s1)>>)>>, {<<"a", "f1">>, <<"a", "f2">>}, "none") : s1 \in Stats, s2 \in Stats }
\cup { CaseOf(<<Module("b", <<>>, <<Feature("f2", s2)>>), Module("a", <<"b">>, <<Feature("f1", s1 \o <<IfF("b", "f2")>>), Leaf("x", <<IfF("", "f1")>> \o s1)>>)>>, {<<"a", "f1">>, <<"b", "f2">>}, "none") : s1 \in Stats, s2 \in Stats }
\cup { CaseOf(<<Module("a", <<>>, <<Cont("top", sc \o <<Cont("in", st \o <<Leaf("x", <<>>)>>)>>), Augment(<<"", "top", "", "in">>, sa \o <<Leaf("n", <<>>)>>)>>)>>, {}, "none") : sa \in Stats, st \in Stats, sc \in St3 }
\cup { CaseOf(<<Module("a", <<>>, <<Cont("top", sc \o <<Cont("in", st \o <<Leaf("x", <<>>)>>)>>)>>), Module("c", <<"a">>, <<Augment(<<"a", "top", "a", "in">>, sa \o <<Leaf("n", <<>>)>>)>>)>>, {}, "none") : sa \in Stats, st \in Stats, sc \in St3 }

\* G4: deviations as edits of the target's source
G4Targets == << Leaf("lf", <<>>),
                Leaf("ld", <<P("default", "d"), P("units", "u"), P("must", "1 = 1")>>),
                Leaf("lm", <<P("mandatory", "true"), P("config", "false")>>),
                LeafList("ll", <<P("min-elements", "1"), P("max-elements", "3")>>),
                LeafList("lx", <<>>),
                List("li", "k", <<Leaf("v", <<>>), Leaf("w", <<>>), St("unique", <<"v">>, <<>>), P("min-elements", "1")>>),
                List("l2", "k", <<Leaf("v", <<>>)>>),
                Cont("ct", <<P("must", "2 = 2"), Leaf("z", <<>>)>>),
                Choice("ch", <<P("default", "ca"), Case("ca", <<Leaf("q", <<>>)>>), Case("cb", <<Leaf("r", <<>>)>>)>>),
                Choice("cm", <<P("mandatory", "true"), Case("ca", <<Leaf("q2", <<>>)>>), Case("cb", <<Leaf("r2", <<>>)>>)>>) >>
G4Props(u_) == { P("config", "false"), P("config", "true"), P("default", "v"), P("default", "d"), P("default", "cb"), P("default", "ca"),
                 P("mandatory", "true"), P("mandatory", "false"), P("min-elements", "1"), P("min-elements", "2"), P("max-elements", "3"), P("max-elements", "5"),
                 P("must", "1 = 1"), P("must", "3 = 3"), St("unique", <<"v">>, <<>>), St("unique", <<"w">>, <<>>), P("units", "u"), P("units", "w"),
                 Ty("int8"), Ty("string"), P("presence", "x"), P("description", "dd") }
G4Base == Module("a", <<>>, <<Cont("top", G4Targets)>>)
DevMod(devs) == Module("d", <<"a">>, devs)
G4(u_) ==
   { CaseOf(<<G4Base, DevMod(<<Deviation(<<"a", "top", "a", G4Targets[t].arg[1]>>, <<Deviate(how, <<pr>>)>>)>>)>>, {}, "edit")
       : t \in 1..Len(G4Targets), how \in {"add", "replace", "delete"}, pr \in G4Props(0) }
\* not-supported, several deviates, several deviations, missing targets, targets that a uses introduces
G4X(u_) == { CaseOf(<<Module("a", <<>>, <<Grouping("g", <<Cont("gc", <<Leaf("gl", <<P("default", "gd")>>)>>)>>), Cont("top", G4Targets \o <<Uses("", "g", <<>>)>>)>>), DevMod(devs)>>, {}, "edit")
   : devs \in {
      << Deviation(<<"a", "top", "a", "lf">>, <<Deviate("not-supported", <<>>)>>) >>,
      << Deviation(<<"a", "top", "a", "ct">>, <<Deviate("not-supported", <<>>)>>) >>,
      << Deviation(<<"a", "top", "a", "ct", "a", "z">>, <<Deviate("not-supported", <<>>)>>) >>,
      << Deviation(<<"a", "top", "a", "ch", "a", "cb">>, <<Deviate("not-supported", <<>>)>>) >>,
      << Deviation(<<"a", "top", "a", "ch", "a", "cb", "a", "r">>, <<Deviate("not-supported", <<>>)>>) >>,
      << Deviation(<<"a", "top", "a", "li", "a", "v">>, <<Deviate("not-supported", <<>>)>>) >>,
      << Deviation(<<"a", "top">>, <<Deviate("not-supported", <<>>)>>) >>,
      << Deviation(<<"a", "top", "a", "lf">>, <<Deviate("not-supported", <<>>), Deviate("add", <<P("default", "v")>>)>>) >>,
      << Deviation(<<"a", "top", "a", "lf">>, <<Deviate("add", <<P("default", "v")>>), Deviate("not-supported", <<>>)>>) >>,
      << Deviation(<<"a", "top", "a", "lf">>, <<Deviate("not-supported", <<P("default", "v")>>)>>) >>,
      << Deviation(<<"a", "top", "a", "nope">>, <<Deviate("not-supported", <<>>)>>) >>,
      << Deviation(<<"a", "top", "a", "nope">>, <<Deviate("add", <<P("default", "v")>>)>>) >>,
      << Deviation(<<"a", "nope">>, <<Deviate("add", <<P("default", "v")>>)>>) >>,
      << Deviation(<<"a", "top", "a", "lf">>, <<Deviate("add", <<P("default", "v"), P("units", "w")>>), Deviate("add", <<P("must", "3 = 3")>>)>>) >>,
      << Deviation(<<"a", "top", "a", "ld">>, <<Deviate("delete", <<P("default", "d")>>), Deviate("add", <<P("mandatory", "true")>>)>>) >>,
      << Deviation(<<"a", "top", "a", "ld">>, <<Deviate("add", <<P("mandatory", "true")>>)>>) >>,
      << Deviation(<<"a", "top", "a", "ld">>, <<Deviate("delete", <<P("default", "other")>>)>>) >>,
      << Deviation(<<"a", "top", "a", "ld">>, <<Deviate("replace", <<P("default", "5"), Ty("int8")>>)>>) >>,
      << Deviation(<<"a", "top", "a", "lf">>, <<Deviate("add", <<P("default", "v")>>)>>), Deviation(<<"a", "top", "a", "lx">>, <<Deviate("add", <<P("max-elements", "2")>>)>>) >>,
      << Deviation(<<"a", "top", "a", "lf">>, <<Deviate("add", <<P("default", "v")>>)>>), Deviation(<<"a", "top", "a", "lf">>, <<Deviate("replace", <<P("default", "w")>>)>>) >>,
      << Deviation(<<"a", "top", "a", "gc">>, <<Deviate("add", <<P("must", "3 = 3")>>)>>) >>,
      << Deviation(<<"a", "top", "a", "gc", "a", "gl">>, <<Deviate("replace", <<P("default", "n")>>)>>) >>,
      << Deviation(<<"a", "top", "a", "gc", "a", "gl">>, <<Deviate("not-supported", <<>>)>>) >>,
      << Deviation(<<"a", "top", "a", "lm">>, <<Deviate("replace", <<P("config", "true")>>)>>) >>,
      << Deviation(<<"a", "top", "a", "ct">>, <<Deviate("add", <<P("config", "false")>>)>>), Deviation(<<"a", "top", "a", "ct", "a", "z">>, <<Deviate("add", <<P("config", "true")>>)>>) >>,
      << Deviation(<<"a", "top", "a", "ll">>, <<Deviate("replace", <<P("min-elements", "5")>>)>>) >>,
      << Deviation(<<"a", "top", "a", "lf">>, <<Deviate("delete", <<>>)>>) >> } }

\* ---------------------------------------------------------------- C20
Filters(u_) == << FNone, FIs("config"), FIs("state"), FIs("opd"), FIs("configorstate"),
                  FInc(<<FIs("config")>>), FInc(<<FIs("state")>>), FInc(<<FIs("config"), FIs("state")>>), FInc(<<FIs("config"), FIs("opd")>>), FInc(<<FIs("state"), FIs("opd")>>), FInc(<<FIs("opd")>>),
                  FExc(<<FIs("state"), FIs("opd")>>), FExc(<<FIs("config"), FIs("opd")>>),
                  FInc(<<FIs("config"), FIncState(FALSE)>>), FInc(<<FIs("config"), FIncState(TRUE)>>),
                  FExc(<<FIs("config")>>), FExc(<<FIs("state")>>), FExc(<<FIs("opd")>>), FExc(<<FIs("config"), FIs("state")>>),
                  FIncState(TRUE), FIncState(FALSE), FInc(<<>>), FExc(<<>>), FInc(<<FExc(<<FIs("state")>>)>>), FExc(<<FInc(<<FIs("config")>>)>>) >>
CF(b) == IF b THEN <<P("config", "false")>> ELSE <<>>
H1Tree(c) == << Cont("top", CF(c[1]) \o << Leaf("a1", CF(c[2])),
                                            Cont("in", CF(c[3]) \o <<Leaf("b1", CF(c[4]) \o <<P("default", "x")>>), LeafList("b2", CF(c[5]))>>),
                                            List("li", "k", CF(c[6]) \o <<Leaf("v", CF(c[7]))>>),
                                            Choice("ch", CF(c[8]) \o <<P("default", "r"), Case("ca", <<Leaf("q", CF(c[9]))>>), Leaf("r", CF(c[10]))>>) >>),
               Leaf("s", CF(c[11])) >>
H1(n) == { [m |-> <<Module("a", <<>>, H1Tree([i \in 1..11 |-> i \in on]))>>, e |-> {}, alt |-> "none", fl |-> Filters(0)] : on \in SUBSET (1..n) }
\* explicit config true, presence, when/must, nodes from groupings, augments and features under filters
H2(u_) == { [m |-> m, e |-> {<<"a", "f1">>}, alt |-> "none", fl |-> Filters(0)] : m \in {
   << Module("a", <<>>, <<Feature("f1", <<>>), Grouping("g", <<Leaf("gs", <<P("config", "false")>>), Cont("gc", <<Leaf("gl", <<>>)>>)>>),
                          Cont("top", <<P("config", "true"), P("presence", "p"), Uses("", "g", <<>>), Leaf("w", <<P("config", "true"), P("when", "../gs"), P("must", "1 = 1")>>)>>),
                          Cont("st", <<P("config", "false"), Uses("", "g", <<Refine(<<"", "gs">>, <<P("description", "r")>>)>>), Leaf("x", <<IfF("", "f1")>>)>>)>>),
      Module("c", <<"a">>, <<Augment(<<"a", "top">>, <<Leaf("cs", <<P("config", "false")>>), Leaf("cc", <<>>)>>), Augment(<<"a", "st">>, <<Leaf("cn", <<>>)>>)>>) >>,
   << Module("a", <<>>, <<Choice("tc", <<P("config", "false"), P("default", "x"), Leaf("x", <<>>), Case("y", <<Cont("yc", <<Leaf("yl", <<>>)>>)>>)>>),
                          Choice("td", <<P("default", "x2"), Leaf("x2", <<P("config", "false")>>), Case("y2", <<Leaf("y2l", <<P("config", "false")>>), Leaf("y2m", <<>>)>>)>>),
                          List("sl", "k", <<P("config", "false"), List("in", "k2", <<Leaf("v", <<>>)>>)>>)>>) >> } }

\* F8: description, reference and status of the grouping itself are not properties of the node that uses it
F8(u_) == { CaseOf(<<Module("a", <<>>, <<Grouping("g", SetAsSeq(gx) \o <<Leaf("x", <<>>), Cont("c", <<Leaf("y", <<>>)>>)>>)>> \o site)>>, {}, "inline")
            : gx \in { x \in SUBSET {P("description", "about g"), P("reference", "ref g"), P("status", "deprecated")} : TRUE } \ {{}} ,
              site \in { <<Cont("top", <<Uses("", "g", <<>>)>>)>>, <<Cont("top", <<P("description", "about top"), Uses("", "g", <<>>)>>)>>,
                         <<List("li", "k", <<Uses("", "g", <<>>)>>)>>, <<Uses("", "g", <<>>)>>,
                         <<Cont("top", <<Choice("ch", <<Case("ca", <<Uses("", "g", <<>>)>>)>>)>>)>> } }

\* H3: every node kind whose own config differs from its parent's, written directly, arriving through refine,
\* or through deviate add - under every filter.  Whatever the unfiltered compile accepts must prune exactly.
H3Kids == << Cont("c", <<Leaf("cl", <<>>)>>), Cont("p", <<P("presence", "here"), Leaf("pl", <<>>)>>),
             List("l", "k", <<Leaf("v", <<>>)>>), LeafList("ll", <<>>),
             Choice("ch", <<Case("ca", <<Leaf("q", <<>>)>>), Leaf("sh", <<>>)>>), Leaf("lf", <<>>) >>
\* <<path in the source as written, schema node path (through the implicit case)>>
H3Targets == { << <<"", "c">>, <<"", "c">> >>, << <<"", "c", "", "cl">>, <<"", "c", "", "cl">> >>, << <<"", "p">>, <<"", "p">> >>,
               << <<"", "l">>, <<"", "l">> >>, << <<"", "l", "", "k">>, <<"", "l", "", "k">> >>, << <<"", "l", "", "v">>, <<"", "l", "", "v">> >>,
               << <<"", "ll">>, <<"", "ll">> >>, << <<"", "ch">>, <<"", "ch">> >>, << <<"", "ch", "", "ca", "", "q">>, <<"", "ch", "", "ca", "", "q">> >>,
               << <<"", "ch", "", "sh">>, <<"", "ch", "", "sh", "", "sh">> >>, << <<"", "lf">>, <<"", "lf">> >> }
AddAt(nodes, path, st) == LET ip == Locate(nodes, path, <<>>) IN SetAt(nodes, ip, <<[GetAt(nodes, ip) EXCEPT !.subs = @ \o <<st>>]>>)
Abs(path, m) == [i \in 1..Len(path) |-> IF i % 2 = 1 THEN m ELSE path[i]]
H3Sets(t, top) == {
   << Module("a", <<>>, <<Cont("top", top \o AddAt(H3Kids, t[1], P("config", "false")))>>) >>,
   << Module("a", <<>>, <<Grouping("g", H3Kids), Cont("top", top \o <<Uses("", "g", <<Refine(t[2], <<P("config", "false")>>)>>)>>)>>) >>,
   << Module("a", <<>>, <<Cont("top", top \o H3Kids)>>),
      Module("d", <<"a">>, <<Deviation(<<"a", "top">> \o Abs(t[2], "a"), <<Deviate("add", <<P("config", "false")>>)>>)>>) >> }
H3(u_) == UNION { { [m |-> m, e |-> {}, alt |-> "none", fl |-> Filters(0)] : m \in H3Sets(t, <<>>) \cup H3Sets(t, <<P("config", "true")>>) } : t \in H3Targets }

\* F9: an introduced node carries its own when / if-feature whose text equals (or differs only in prefix from) the one
\* written on the uses / augment.  Equal text is not equal meaning: an unprefixed feature name belongs to the module it
\* is written in, a when of an augment is evaluated on the target, the node's own when on the node.  Both apply.
F9GBody(fp) == << Leaf("x", <<IfF(fp, "f")>>), Cont("c", <<IfF(fp, "f"), Leaf("y", <<>>)>>), Leaf("z", <<>>) >>
WV == P("when", "w = 'v'")
WP == P("when", "../w = 'v'")
F9Sets(u_) == {
   << Module("b", <<>>, <<Feature("f", <<>>), Grouping("g", F9GBody(""))>>),
      Module("a", <<"b">>, <<Feature("f", <<>>), Cont("top", <<Uses("b", "g", <<IfF("", "f")>>)>>)>>) >>,
   << Module("b", <<>>, <<Feature("f", <<>>), Grouping("g", F9GBody("b"))>>),
      Module("a", <<"b">>, <<Feature("f", <<>>), Cont("top", <<Uses("b", "g", <<IfF("a", "f")>>)>>)>>) >>,
   << Module("b", <<>>, <<Feature("f", <<>>), Grouping("g", F9GBody(""))>>),
      Module("a", <<"b">>, <<Feature("f", <<>>), Cont("top", <<Uses("b", "g", <<IfF("b", "f")>>)>>)>>) >>,
   << Module("a", <<>>, <<Feature("f", <<>>), Grouping("g", F9GBody("")), Cont("top", <<Uses("", "g", <<IfF("", "f")>>)>>)>>) >>,
   << Submodule("as", "a", <<>>, <<Grouping("g", <<Leaf("x", <<>>), Leaf("z", <<>>)>>)>>),
      Module("b", <<>>, <<Feature("f", <<>>), Grouping("g", F9GBody(""))>>),
      Module("a", <<>>, <<Include("as"), Feature("f", <<>>), Cont("top", <<Leaf("w", <<>>)>>)>>),
      Module("c", <<"a", "b">>, <<Feature("f", <<>>), Augment(<<"a", "top">>, <<IfF("", "f"), Uses("b", "g", <<>>)>>)>>) >>,
   << Module("a", <<>>, <<Feature("f", <<>>), Cont("top", <<Leaf("w", <<>>)>>)>>),
      Module("c", <<"a">>, <<Feature("f", <<>>), Augment(<<"a", "top">>, <<IfF("", "f"), Leaf("n", <<IfF("", "f")>>), Leaf("m", <<IfF("a", "f")>>)>>)>>) >>,
   \* when: augment (module level, inside uses), uses; same text on the node itself
   << Module("a", <<>>, <<Cont("top", <<Leaf("w", <<>>)>>)>>),
      Module("c", <<"a">>, <<Augment(<<"a", "top">>, <<WV, Leaf("n", <<WV>>), Leaf("m", <<>>), Leaf("o", <<WP>>)>>)>>) >>,
   << Module("a", <<>>, <<Cont("top", <<Leaf("w", <<>>)>>), Augment(<<"", "top">>, <<WV, Leaf("n", <<WV>>), Leaf("m", <<>>)>>)>>) >>,
   << Module("a", <<>>, <<Grouping("g", <<Cont("c", <<Leaf("w", <<>>)>>)>>),
                          Cont("top", <<Uses("", "g", <<Augment(<<"", "c">>, <<WV, Leaf("n", <<WV>>), Leaf("m", <<>>)>>)>>)>>)>>) >>,
   << Module("a", <<>>, <<Grouping("g", <<Leaf("x", <<WP>>), Leaf("y", <<>>), Leaf("z", <<WV>>)>>), Cont("top", <<Leaf("w", <<>>), Uses("", "g", <<WP>>)>>)>>) >>,
   << Module("b", <<>>, <<Grouping("g", <<Leaf("x", <<WP>>), Leaf("y", <<>>)>>)>>),
      Module("a", <<"b">>, <<Cont("top", <<Leaf("w", <<>>), Uses("b", "g", <<WP>>)>>)>>) >> }
F9(u_) == UNION { {CaseOf(m, e, "inline") : e \in FeatSets({<<"a", "f">>, <<"b", "f">>, <<"c", "f">>})} : m \in F9Sets(0) }

\* H4: attributes of a surviving node that refer to nodes the filter removes (unique, key, must/when texts, default
\* case, min/max-elements, ordered-by, defaults): pruning leaves them as they are.  cf[i] says which of the
\* referred-to nodes are config false.
H4Tree(cf) == << Leaf("s", CF(cf[1])),
   St("list", <<"l">>, <<St("key", <<"k">>, <<>>), St("unique", <<"v", "w">>, <<>>), St("unique", <<"c/cl">>, <<>>), St("unique", <<"ch/ca/q", "w">>, <<>>),
                          St("unique", <<"ch/sh/sh">>, <<>>), P("must", "v = 'x' or c/cl"), P("when", "../s"), P("min-elements", "1"), P("max-elements", "5"),
                          P("ordered-by", "user"),
                          Leaf("k", <<>>), Leaf("v", CF(cf[2])), Leaf("w", <<P("default", "dw"), P("must", "../v")>>),
                          Cont("c", <<Leaf("cl", CF(cf[3]))>>),
                          Choice("ch", <<P("default", "ca"), Case("ca", <<Leaf("q", CF(cf[4]))>>), Leaf("sh", CF(cf[5]))>>),
                          LeafList("ll", CF(cf[6]) \o <<P("min-elements", "1"), P("ordered-by", "user")>>)>>),
   Cont("pc", <<P("presence", "p"), P("must", "../s"), Leaf("pm", CF(cf[1]) \o <<P("mandatory", "true")>>)>>) >>
H4(u_) == { [m |-> <<Module("a", <<>>, H4Tree([i \in 1..6 |-> i \in on]))>>, e |-> {}, alt |-> "none", fl |-> Filters(0)] : on \in SUBSET (1..6) }

\* ---------------------------------------------------------------- twins: the same local name in several modules
\* F10: groupings called g in a and b with different bodies, each used locally without prefix, and across
F10(u_) == { CaseOf(m, {}, "inline") : m \in {
   << Module("b", <<>>, <<Grouping("g", <<Leaf("bx", <<P("default", "b")>>)>>), Cont("tb", <<Uses("", "g", <<>>)>>)>>),
      Module("a", <<"b">>, <<Grouping("g", <<Cont("ac", <<Leaf("ax", <<>>)>>)>>), Cont("ta", <<Uses("", "g", <<>>)>>), Cont("tx", <<Uses("b", "g", <<>>)>>), Cont("ty", <<Uses("a", "g", <<>>)>>)>>) >>,
   << Module("a", <<>>, <<Grouping("g", <<Cont("ac", <<Leaf("ax", <<>>)>>)>>), Cont("ta", <<Uses("", "g", <<Refine(<<"", "ac">>, <<P("presence", "p")>>)>>)>>)>>),
      Module("b", <<>>, <<Grouping("g", <<Leaf("bx", <<>>)>>), Cont("tb", <<Uses("", "g", <<Refine(<<"", "bx">>, <<P("default", "rb")>>)>>)>>)>>),
      Module("c", <<"a", "b">>, <<Grouping("g", <<LeafList("cl", <<>>)>>), Cont("tc", <<Uses("", "g", <<>>), Cont("ca", <<Uses("a", "g", <<>>)>>), Cont("cb", <<Uses("b", "g", <<>>)>>)>>)>>) >>,
   << Submodule("as", "a", <<>>, <<Grouping("h", <<Leaf("sh", <<>>)>>), Cont("ts", <<Uses("", "h", <<>>)>>)>>),
      Module("b", <<>>, <<Grouping("h", <<Leaf("bh", <<>>)>>), Cont("tb", <<Uses("", "h", <<>>)>>)>>),
      Module("a", <<"b">>, <<Include("as"), Cont("ta", <<Uses("", "h", <<>>), Cont("tx", <<Uses("b", "h", <<>>)>>)>>)>>) >> } }

\* G2T: features with the same local name in several modules, every reference spelling, enabled per module
G2TSets(sa, sb) == {
   << Module("a", <<>>, <<Feature("extras", sa), Leaf("ax", <<IfF("", "extras")>>), Leaf("ay", <<IfF("a", "extras")>>)>>),
      Module("b", <<>>, <<Feature("extras", sb), Leaf("bx", <<IfF("", "extras")>>), Leaf("by", <<IfF("b", "extras")>>)>>) >>,
   << Module("b", <<>>, <<Feature("extras", sb), Cont("tb", <<Leaf("bx", <<IfF("", "extras")>>), Leaf("by", <<IfF("b", "extras")>>)>>)>>),
      Module("a", <<"b">>, <<Feature("extras", sa), Cont("ta", <<Leaf("ax", <<IfF("", "extras")>>), Leaf("ay", <<IfF("b", "extras")>>), Leaf("az", <<IfF("a", "extras")>>)>>)>>) >>,
   << Module("a", <<>>, <<Feature("extras", sa), Grouping("g", <<Leaf("gx", <<IfF("", "extras")>>)>>), Cont("ta", <<Uses("", "g", <<>>)>>)>>),
      Module("b", <<"a">>, <<Feature("extras", sb), Cont("tb", <<IfF("", "extras"), Uses("a", "g", <<IfF("", "extras")>>), Leaf("bx", <<>>)>>)>>),
      Module("c", <<"a", "b">>, <<Feature("extras", <<IfF("b", "extras")>>), Cont("tc", <<Leaf("cx", <<IfF("", "extras")>>)>>),
                                 Augment(<<"a", "ta">>, <<IfF("", "extras"), Leaf("cn", <<>>)>>)>>) >> }
G2T(u_) == UNION { { CaseOf(m, e, "none") : m \in G2TSets(sa, sb) } : sa \in {<<>>, <<P("status", "deprecated")>>}, sb \in {<<>>, <<P("status", "deprecated")>>},
                     e \in FeatSets({<<"a", "extras">>, <<"b", "extras">>, <<"c", "extras">>}) }

\* H5: the trees of rpcs (input, output) and notifications are filtered like the data tree
H5Tree(c) == << Leaf("d", CF(c[1])),
   St("rpc", <<"r">>, <<St("input", <<>>, <<Leaf("a", <<>>), Leaf("s", CF(c[1])), Cont("ic", CF(c[2]) \o <<Leaf("x", <<>>)>>), Uses("", "g", <<>>)>>),
                        St("output", <<>>, <<Cont("oc", CF(c[3]) \o <<Leaf("y", <<>>), List("ol", "k", CF(c[1]))>>), Choice("och", <<Leaf("o1", CF(c[2])), Case("o2", <<Leaf("o2l", <<>>)>>)>>)>>)>>),
   St("rpc", <<"bare">>, <<>>),
   St("notification", <<"n">>, <<Leaf("na", <<>>), Cont("nst", CF(c[4]) \o <<Leaf("q", <<>>)>>), LeafList("nl", CF(c[3])), Uses("", "g", <<>>)>>),
   Grouping("g", <<Leaf("gs", <<P("config", "false")>>), Leaf("gc", <<>>)>>) >>
H5(u_) == { [m |-> <<Module("a", <<>>, H5Tree([i \in 1..4 |-> i \in on]))>>, e |-> {}, alt |-> "none", fl |-> Filters(0)] : on \in SUBSET (1..4) }

\* H6: operational command nodes next to state nodes (both config false), in every document order
OpdExt == St("module", <<"vyatta-opd-extensions-v1">>, <<P("namespace", "urn:vyatta.com:mgmt:vyatta-opd-extensions:1"), P("prefix", "opd")>>
              \o [i \in 1..5 |-> St("extension", << <<"command", "option", "argument", "on-enter", "help">>[i] >>, <<P("argument", "text")>>)])
OpdImp == St("import", <<"vyatta-opd-extensions-v1">>, <<P("prefix", "opd")>>)
OpdCmd(n) == St("opd:command", <<n>>, <<P("opd:help", "about " \o n), P("opd:on-enter", n),
                                         St("opd:option", <<n \o "o">>, <<Ty("string"), P("opd:help", "o"), St("opd:command", <<n \o "d">>, <<P("opd:on-enter", "x")>>)>>),
                                         St("opd:argument", <<n \o "a">>, <<Ty("string"), P("opd:help", "a")>>)>>)
H6Cfg == Cont("cfg", <<Leaf("a", <<>>), Leaf("s", <<P("config", "false")>>), Choice("ch", <<P("default", "x"), Case("x", <<Leaf("x1", <<>>)>>), Leaf("y", <<P("config", "false")>>)>>)>>)
H6St == Cont("st", <<P("config", "false"), Leaf("z", <<>>), List("zl", "k", <<>>)>>)
Perms3(a, b, c) == { <<a, b, c>>, <<a, c, b>>, <<b, a, c>>, <<b, c, a>>, <<c, a, b>>, <<c, b, a>> }
OpdMod(n, imports, body) == St("module", <<n>>, <<P("namespace", "urn:" \o n), P("prefix", n), OpdImp>> \o Imports(imports) \o body)
H6(u_) == { [m |-> m, e |-> {}, alt |-> "none", fl |-> Filters(0)] : m \in
     { <<OpdExt, OpdMod("m1", <<>>, body)>> : body \in Perms3(H6Cfg, H6St, OpdCmd("show")) }
\cup { <<OpdExt, OpdMod("m1", <<>>, <<OpdCmd("show")>>), OpdMod("m2", <<"m1">>, <<H6St, H6Cfg>>)>>,
       <<OpdExt, OpdMod("m1", <<>>, <<H6St, H6Cfg>>), OpdMod("m2", <<"m1">>, <<OpdCmd("show")>>)>>,
       <<OpdExt, OpdMod("m1", <<>>, <<OpdCmd("show"), OpdCmd("clear")>>)>>,
       <<OpdExt, OpdMod("m1", <<>>, <<H6St>>)>>,
       <<OpdExt, OpdMod("m1", <<>>, <<Leaf("s1", <<P("config", "false")>>), OpdCmd("show"), Leaf("c1", <<>>)>>)>>,
       <<OpdExt, OpdMod("m1", <<>>, <<OpdCmd("show"), Leaf("s1", <<P("config", "false")>>), Leaf("c1", <<>>)>>)>> } }

\* ---------------------------------------------------------------- round 4
\* F11: grouping bodies of every size (no data node at all, one, several) used at every position among siblings that
\* themselves contain uses / refine / augment
Perms4(a, b, c, d) == UNION { { <<x>> \o p : p \in Perms3(y[1], y[2], y[3]) }
                             : x \in {a, b, c, d}, y \in { <<b, c, d>>, <<a, c, d>>, <<a, b, d>>, <<a, b, c>> } }
F11Bodies == { <<>>, <<P("description", "placeholder"), P("reference", "none")>>, <<Leaf("e1", <<>>)>>, <<Leaf("e1", <<>>), Cont("e2", <<Leaf("e3", <<>>)>>)>> }
F11A == Cont("a", <<Uses("", "g", <<Refine(<<"", "x">>, <<P("default", "rx")>>)>>), Cont("deep", <<Uses("", "h", <<>>)>>)>>)
F11B == Leaf("z", <<>>)
F11C == Cont("b", <<Uses("", "h", <<Augment(<<"", "hc">>, <<Leaf("n", <<>>)>>)>>), Uses("", "e", <<>>)>>)
F11Mod(eb, kids) == Module("a", <<>>, <<Grouping("e", eb), Grouping("g", <<Leaf("x", <<>>)>>), Grouping("h", <<Leaf("y", <<>>), Cont("hc", <<>>)>>)>> \o kids)
F11(u_) == UNION { { CaseOf(<<F11Mod(eb, <<Cont("top", p)>>)>>, {}, "inline") : p \in {q \in Perms4(Uses("", "e", <<>>), F11A, F11B, F11C) : Len(q) = 4 /\ Cardinality(Range(q)) = 4} }
              \cup { CaseOf(<<F11Mod(eb, <<Uses("", "e", <<>>), F11A, F11B, F11C>>)>>, {}, "inline"),
                     CaseOf(<<F11Mod(eb, <<List("li", "k", <<Uses("", "e", <<>>), Uses("", "e", <<>>), F11A, F11B, F11C>>)>>)>>, {}, "inline"),
                     CaseOf(<<F11Mod(eb, <<Cont("top", <<Choice("ch", <<Case("c1", <<Uses("", "e", <<>>), F11A, F11B>>), Case("c2", <<F11C>>)>>)>>)>>)>>, {}, "inline") }
                   : eb \in F11Bodies }

\* F12: twins inside ONE module: the same grouping name defined in sibling scopes (depth >= 2), each used in its own
\* scope; lookups follow the lexical scope
Scope(n, gname, body, use) == Cont(n, <<Cont("client", <<Grouping(gname, body)>> \o use)>>)
F12(u_) == { CaseOf(m, {}, "inline") : m \in {
   << Module("a", <<>>, <<Cont("services", <<Scope("dns", "params", <<Leaf("server", <<>>)>>, <<Uses("", "params", <<>>)>>),
                                             Scope("ntp", "params", <<Leaf("peer", <<P("default", "p")>>), Leaf("stratum", <<>>)>>, <<Uses("", "params", <<>>)>>)>>)>>) >>,
   << Module("a", <<>>, <<Cont("services", <<Scope("ntp", "params", <<Leaf("peer", <<>>)>>, <<Cont("inner", <<Uses("", "params", <<Refine(<<"", "peer">>, <<P("default", "r")>>)>>)>>)>>),
                                             Scope("dns", "params", <<Cont("server", <<Leaf("addr", <<>>)>>)>>, <<Uses("a", "params", <<>>)>>),
                                             Scope("log", "params", <<LeafList("sink", <<>>)>>, <<List("l", "k", <<Uses("", "params", <<>>)>>)>>)>>)>>) >>,
   << Module("a", <<>>, <<Grouping("outer1", <<Cont("w1", <<Grouping("params", <<Leaf("p1", <<>>)>>), Cont("o1", <<Uses("", "params", <<>>)>>)>>)>>),
                          Grouping("outer2", <<Cont("w2", <<Grouping("params", <<Leaf("p2", <<>>)>>), Cont("o2", <<Uses("", "params", <<>>)>>)>>)>>),
                          Cont("top", <<Uses("", "outer1", <<>>), Uses("", "outer2", <<>>)>>)>>) >>,
   << Module("a", <<>>, <<Cont("x", <<Cont("x1", <<Grouping("params", <<Leaf("a1", <<>>)>>), Grouping("more", <<Uses("", "params", <<>>), Leaf("m1", <<>>)>>), Uses("", "more", <<>>)>>)>>),
                          Cont("y", <<Cont("y1", <<Grouping("params", <<Leaf("b1", <<>>)>>), Grouping("more", <<Cont("mc", <<Uses("", "params", <<>>)>>)>>), Uses("", "more", <<>>)>>)>>)>>) >>,
   << Submodule("as", "a", <<>>, <<Cont("sx", <<Cont("s1", <<Grouping("params", <<Leaf("s1l", <<>>)>>), Uses("", "params", <<>>)>>)>>)>>),
      Module("a", <<>>, <<Include("as"), Cont("ax", <<Cont("a1", <<Grouping("params", <<Leaf("a1l", <<>>)>>), Uses("", "params", <<>>)>>)>>)>>) >> } }

\* G5: if-feature / status / when / config through every nesting uses -> augment -> uses (-> augment -> uses)
G5H(x) == Grouping("h", <<Leaf("hh", x), Cont("hc", <<Leaf("hl", <<>>)>>)>>)
G5X(u_) == { x \in SUBSET {IfF("", "f"), P("status", "deprecated"), P("status", "obsolete"), P("when", "1 = 1")} :
             ~({P("status", "deprecated"), P("status", "obsolete")} \subseteq x) }
G5Sets(x, hx) == {
   << Module("a", <<>>, <<Feature("f", <<>>), Feature("f2", <<>>), G5H(hx), Grouping("g", <<Cont("c", <<Leaf("x", <<>>)>>)>>),
                          Cont("top", <<Uses("", "g", <<Augment(<<"", "c">>, x \o <<Uses("", "h", <<>>), Leaf("n", <<>>)>>)>>)>>)>>) >>,
   << Module("a", <<>>, <<Feature("f", <<>>), Feature("f2", <<>>), G5H(hx), Grouping("g", <<Cont("c", <<Leaf("x", <<>>)>>)>>),
                          Cont("top", <<Cont("in", <<>>)>>),
                          Augment(<<"", "top", "", "in">>, <<Uses("", "g", <<Augment(<<"", "c">>, x \o <<Uses("", "h", <<IfF("", "f2")>>)>>)>>)>>)>>) >>,
   << Module("b", <<>>, <<Feature("f", <<>>), Feature("f2", <<>>), G5H(hx), Grouping("g", <<Cont("c", <<Leaf("x", <<>>)>>)>>)>>),
      Module("a", <<"b">>, <<Feature("f", <<>>), Feature("f2", <<>>),
                            Cont("top", <<Uses("b", "g", <<Augment(<<"", "c">>, x \o <<Uses("b", "h", <<Augment(<<"", "hc">>, <<Leaf("deep", <<P("config", "false")>>)>>)>>)>>)>>)>>)>>) >> }
G5(u_) == UNION { { CaseOf(m, e, "inline") : m \in G5Sets(SetAsSeq(x), hx) }
                  : x \in G5X(0), hx \in {<<>>, <<IfF("", "f2")>>}, e \in FeatSets({<<"a", "f">>, <<"a", "f2">>}) \cup {{<<"a", "f">>, <<"b", "f2">>}} }

\* G6: the same-module status rule for a node that reaches the schema only through a uses (or augment) of another module
G6(u_) == UNION { {
     CaseOf(<<Module("lib", <<>>, <<Feature("old", sf), Grouping("g", <<Leaf("m", sm \o <<IfF("", "old")>>), Leaf("plain", <<>>)>>)>>),
              Module("a", <<"lib">>, <<Cont("top", sc \o <<Uses("lib", "g", <<>>)>>)>>)>>, {<<"lib", "old">>}, "inline"),
     CaseOf(<<Module("lib", <<>>, <<Feature("old", sf), Grouping("g", <<Cont("gc", sm \o <<Leaf("m", <<IfF("lib", "old")>>)>>)>>), Cont("libtop", <<Leaf("l", <<>>)>>)>>),
              Module("a", <<"lib">>, <<Augment(<<"lib", "libtop">>, sc \o <<Uses("lib", "g", <<>>)>>)>>)>>, {<<"lib", "old">>}, "inline"),
     CaseOf(<<Module("lib", <<>>, <<Feature("old", sf), Grouping("g", <<Leaf("m", sm \o <<IfF("", "old")>>)>>), Cont("own", <<Uses("", "g", <<>>)>>)>>),
              Module("a", <<"lib">>, <<Cont("top", sc \o <<Uses("lib", "g", <<>>)>>)>>)>>, {<<"lib", "old">>}, "inline"),
     CaseOf(<<Module("lib", <<>>, <<Grouping("g2", sf \o <<Leaf("y", <<>>)>>), Grouping("g", <<Cont("gc", sm \o <<Uses("", "g2", <<>>)>>)>>)>>),
              Module("a", <<"lib">>, <<Cont("top", sc \o <<Uses("lib", "g", <<>>)>>)>>)>>, {}, "inline") }
   : sf \in Stats, sm \in St3, sc \in St3 }

\* ---------------------------------------------------------------- round 5
\* F13: uses -> augment -> uses over three modules: outer grouping, inner grouping and using module pairwise different
\* (and the inner grouping local to the using module, scoped in it, or in its submodule)
F13(u_) == { CaseOf(m, {}, "inline") : m \in {
   << Module("a", <<>>, <<Grouping("G", <<Cont("c", <<Leaf("x", <<>>)>>), Leaf("gl", <<>>)>>)>>),
      Module("c", <<>>, <<Grouping("H", <<Leaf("hx", <<P("must", "../x")>>), Cont("hc", <<Leaf("hy", <<>>)>>)>>)>>),
      Module("b", <<"a", "c">>, <<Cont("top", <<Uses("a", "G", <<Augment(<<"", "c">>, <<Uses("c", "H", <<>>), Leaf("own", <<>>)>>)>>)>>)>>) >>,
   << Module("a", <<>>, <<Grouping("G", <<Cont("c", <<Leaf("x", <<>>)>>)>>)>>),
      Module("c", <<>>, <<Grouping("H2", <<Leaf("deep", <<>>)>>), Grouping("H", <<Cont("hc", <<Uses("", "H2", <<>>)>>)>>)>>),
      Module("b", <<"a", "c">>, <<Uses("a", "G", <<Augment(<<"", "c">>, <<Uses("c", "H", <<Augment(<<"", "hc">>, <<Leaf("own", <<>>)>>)>>)>>)>>)>>) >>,
   << Module("a", <<>>, <<Grouping("G", <<Cont("c", <<Leaf("x", <<>>)>>)>>)>>),
      Module("b", <<"a">>, <<Grouping("H", <<Leaf("hx", <<>>)>>), Cont("top", <<Uses("a", "G", <<Augment(<<"", "c">>, <<Uses("", "H", <<>>), Leaf("own", <<>>)>>)>>)>>)>>) >>,
   << Module("a", <<>>, <<Grouping("G", <<Cont("c", <<Leaf("x", <<>>)>>)>>)>>),
      Module("b", <<"a">>, <<Cont("top", <<Grouping("H", <<Leaf("hx", <<>>)>>), Uses("a", "G", <<Augment(<<"", "c">>, <<Uses("", "H", <<>>)>>)>>)>>)>>) >>,
   << Module("a", <<>>, <<Grouping("G", <<Cont("c", <<Leaf("x", <<>>)>>)>>)>>),
      Submodule("bs", "b", <<>>, <<Grouping("H", <<Leaf("hx", <<>>)>>)>>),
      Module("b", <<"a">>, <<Include("bs"), Cont("top", <<Uses("a", "G", <<Augment(<<"", "c">>, <<Uses("", "H", <<>>)>>)>>)>>)>>) >>,
   << Module("a", <<>>, <<Grouping("G", <<Cont("c", <<Leaf("x", <<>>)>>)>>), Cont("atop", <<Leaf("al", <<>>)>>)>>),
      Module("c", <<>>, <<Grouping("H", <<Leaf("hx", <<>>)>>)>>),
      Module("b", <<"a", "c">>, <<Augment(<<"a", "atop">>, <<Uses("a", "G", <<Augment(<<"", "c">>, <<Uses("c", "H", <<>>)>>)>>)>>)>>) >> } }

\* F14: chains of augments (an augment into a node that an earlier augment introduced), 2 and 3 links, same module and
\* across modules, with if-feature / when / status on the augment statement of each link, under every feature set
F14X(f) == { <<>>, <<IfF("", f)>> }
F14Sets(x1, x2, x3) == {
   << Module("a", <<>>, <<Feature("f1", <<>>), Feature("f2", <<>>), Feature("f3", <<>>), Cont("top", <<Leaf("t", <<>>)>>),
                          Augment(<<"", "top">>, x1 \o <<Cont("n1", <<Leaf("l1", <<>>)>>)>>),
                          Augment(<<"", "top", "", "n1">>, x2 \o <<Cont("n2", <<Leaf("l2", <<>>)>>)>>),
                          Augment(<<"a", "top", "a", "n1", "a", "n2">>, x3 \o <<Leaf("l3", <<>>)>>)>>) >>,
   << Module("a", <<>>, <<Cont("top", <<Leaf("t", <<>>)>>)>>),
      Module("c", <<"a">>, <<Feature("f1", <<>>), Feature("f2", <<>>), Feature("f3", <<>>),
                            Augment(<<"a", "top">>, x1 \o <<Cont("n1", <<Leaf("l1", <<>>)>>)>>),
                            Augment(<<"a", "top", "c", "n1">>, x2 \o <<Cont("n2", <<Leaf("l2", <<>>)>>)>>),
                            Augment(<<"a", "top", "c", "n1", "c", "n2">>, x3 \o <<Leaf("l3", <<>>)>>)>>) >>,
   << Module("a", <<>>, <<Feature("f1", <<>>), Cont("top", <<Leaf("t", <<>>)>>), Augment(<<"", "top">>, x1 \o <<Cont("n1", <<Leaf("l1", <<>>)>>)>>)>>),
      Module("c", <<"a">>, <<Feature("f2", <<>>), Feature("f3", <<>>), Augment(<<"a", "top", "a", "n1">>, x2 \o <<Choice("n2", <<Case("k", <<Leaf("l2", <<>>)>>)>>)>>),
                            Augment(<<"a", "top", "a", "n1", "c", "n2">>, x3 \o <<Leaf("l3", <<>>)>>)>>) >> }
F14(u_) == UNION { { CaseOf(m, e, "inline") : m \in F14Sets(x1, x2, x3) }
                   : x1 \in F14X("f1"), x2 \in F14X("f2"), x3 \in F14X("f3"),
                     e \in FeatSets({<<"a", "f1">>, <<"a", "f2">>, <<"a", "f3">>}) \cup {{<<"c", "f1">>, <<"c", "f2">>, <<"c", "f3">>}, {<<"c", "f1">>}, {<<"c", "f2">>, <<"c", "f3">>}, {<<"c", "f1">>, <<"c", "f3">>},
                                                                                    {<<"a", "f1">>, <<"c", "f2">>}, {<<"a", "f1">>, <<"c", "f3">>}, {<<"c", "f2">>}} }
       \cup UNION { { CaseOf(m, {}, "inline") : m \in F14Sets(x1, x2, <<>>) }
                   : x1 \in {<<P("when", "t = 'v'")>>, <<P("status", "deprecated")>>}, x2 \in {<<>>, <<P("when", "l1")>>, <<P("status", "deprecated")>>, <<P("status", "obsolete")>>} }
       \cup { CaseOf(<<Module("a", <<>>, <<Cont("top", <<Leaf("t", <<>>)>>), Augment(<<"", "top", "", "n1">>, <<Leaf("late", <<>>)>>), Augment(<<"", "top">>, <<Cont("n1", <<>>)>>)>>)>>, {}, "none"),
              CaseOf(<<Module("a", <<>>, <<Cont("top", <<Leaf("t", <<>>)>>), Augment(<<"", "top", "", "nope">>, <<Leaf("late", <<>>)>>), Augment(<<"", "top">>, <<Cont("n1", <<>>)>>)>>)>>, {}, "none") }

\* G7: status in force along multi-step paths: a uses may not reach (refine, augment) through a node of its own module
\* that is more obsolete than itself, also when the final target states nothing
G7G(s1, s2) == Grouping("g", <<Cont("old", s1 \o <<Cont("inner", s2 \o <<Leaf("x", <<>>)>>), Leaf("o", <<>>)>>)>>)
G7Uses(p, k, su) == CASE k = 1 -> Uses(p, "g", su \o <<Refine(<<"", "old", "", "inner", "", "x">>, <<P("default", "d")>>)>>)
                      [] k = 2 -> Uses(p, "g", su \o <<Refine(<<"", "old", "", "inner">>, <<P("description", "r")>>)>>)
                      [] k = 3 -> Uses(p, "g", su \o <<Augment(<<"", "old", "", "inner">>, <<Leaf("n", <<>>)>>)>>)
                      [] k = 4 -> Uses(p, "g", su \o <<Refine(<<"", "old", "", "o">>, <<P("default", "d")>>)>>)
G7(u_) == UNION { {
     CaseOf(<<Module("a", <<>>, <<G7G(s1, s2), Cont("top", sc \o <<G7Uses("", k, su)>>)>>)>>, {}, "inline"),
     CaseOf(<<Module("b", <<>>, <<G7G(s1, s2)>>), Module("a", <<"b">>, <<Cont("top", sc \o <<G7Uses("b", k, su)>>)>>)>>, {}, "inline") }
   : s1 \in St3, s2 \in St3, su \in Stats, sc \in {<<>>, <<P("status", "deprecated")>>}, k \in 1..4 }
   \cup { CaseOf(<<Module("a", <<>>, <<Cont("top", <<Cont("old", s1 \o <<Cont("inner", s2 \o <<Leaf("x", <<>>)>>)>>)>>), Augment(<<"", "top", "", "old", "", "inner">>, sa \o <<Leaf("n", <<>>)>>)>>)>>, {}, "none")
           : s1 \in St3, s2 \in St3, sa \in Stats }

\* ---------------------------------------------------------------- round 6
\* the same statement list with every shorthand case written out (schema node paths go through the implicit case)
RECURSIVE Explicit(_)
Explicit(stmts) == [i \in 1..Len(stmts) |-> [stmts[i] EXCEPT !.subs = IF stmts[i].kw = "choice" THEN WrapShort(Explicit(@)) ELSE Explicit(@)]]

\* G8: presence of EVERY kind of child: a disabled (and an enabled) if-feature written on it, and deviate not-supported
\* naming it - containers, presence containers, lists, every leaf a list names in its key (first, middle, last; single
\* key; key of an inner list), leaves named in unique (directly and through a container), leaf-lists, choices, cases,
\* the default case, shorthand case members, leaves at depth 1..4 - where the nodes are written in place (in a
\* container, at the top of the module), come from a grouping, or come from an augment of another module.
G8Kids == << Cont("c", <<Leaf("cl", <<>>), Cont("cc", <<Leaf("ccl", <<>>)>>)>>),
             Cont("p", <<P("presence", "here"), Leaf("pl", <<>>)>>),
             St("list", <<"l">>, <<St("key", <<"k1", "k2", "k3">>, <<>>), St("unique", <<"v", "lc/u">>, <<>>), Leaf("k1", <<>>), Leaf("k2", <<>>), Leaf("k3", <<>>),
                                   Leaf("v", <<>>), Leaf("w", <<>>), Cont("lc", <<Leaf("u", <<>>)>>), List("in", "ik", <<Leaf("iv", <<>>)>>)>>),
             List("s", "sk", <<Leaf("sv", <<>>)>>),
             LeafList("ll", <<>>),
             Choice("ch", <<P("default", "ca"), Case("ca", <<Leaf("q", <<>>)>>), Leaf("sh", <<>>), Case("cb", <<Leaf("r", <<>>), Cont("rc", <<Leaf("rl", <<>>)>>)>>)>>),
             Leaf("lf", <<>>) >>
\* where the nodes live: [m: module set as a function of the node list, pre: schema path prefix of the nodes, fm: module of the feature f]
G8Site(k, kids) ==
  CASE k = 1 -> << Module("a", <<>>, <<Feature("f", <<>>), Cont("top", kids)>>) >>
    [] k = 2 -> << Module("a", <<>>, <<Feature("f", <<>>)>> \o kids) >>
    [] k = 3 -> << Module("a", <<>>, <<Feature("f", <<>>), Grouping("g", kids), Cont("top", <<Uses("", "g", <<>>)>>)>>) >>
    [] k = 4 -> << Module("a", <<>>, <<Cont("top", <<Leaf("t", <<>>)>>)>>), Module("c", <<"a">>, <<Feature("f", <<>>), Augment(<<"a", "top">>, kids)>>) >>
G8Pre(k) == IF k = 2 THEN <<>> ELSE <<"a", "top">>
G8NodeMod(k) == IF k = 4 THEN "c" ELSE "a"
G8Dev(k, devs) == Module("d", IF k = 4 THEN <<"a", "c">> ELSE <<"a">>, devs)
G8(u_) ==
     \* if-feature on the node at every path of the source, feature off / on
     UNION { { CaseOf(G8Site(k, AddAt(G8Kids, p, IfF("", "f"))), e, "inline") : e \in {{}, {<<G8NodeMod(k), "f">>}} } : p \in NodePaths(G8Kids, 4), k \in 1..4 }
     \* if-feature on every non-empty subset of the keys
\cup UNION { { CaseOf(G8Site(1, [i \in 1..Len(G8Kids) |-> IF G8Kids[i].arg[1] # "l" THEN G8Kids[i] ELSE
                                  [G8Kids[i] EXCEPT !.subs = [j \in 1..Len(@) |-> IF @[j].kw = "leaf" /\ @[j].arg[1] \in ks THEN [@[j] EXCEPT !.subs = @ \o <<IfF("", "f")>>] ELSE @[j]]]]), e, "none")
               : e \in {{}, {<<"a", "f">>}} } : ks \in (SUBSET {"k1", "k2", "k3"}) \ {{}} }
     \* deviate not-supported naming the node at every schema node path
\cup { CaseOf(G8Site(k, G8Kids) \o <<G8Dev(k, <<Deviation(G8Pre(k) \o Abs(p, G8NodeMod(k)), <<Deviate("not-supported", <<>>)>>)>>)>>, {}, "edit") : p \in NodePaths(Explicit(G8Kids), 5), k \in 1..4 }
     \* two keys (and a key and a unique leaf) at once
\cup { CaseOf(G8Site(1, G8Kids) \o <<DevMod(<<Deviation(<<"a", "top", "a", "l", "a", n1>>, <<Deviate("not-supported", <<>>)>>),
                                               Deviation(<<"a", "top", "a", "l", "a", n2>>, <<Deviate("not-supported", <<>>)>>)>>)>>, {}, "edit")
       : n1 \in {"k1", "k3"}, n2 \in {"k2", "v", "w"} }

\* G9: deviate delete / add / replace naming the first, a middle or the last of SEVERAL must / unique statements of the
\* target (leaf, leaf-list, container, list; a target whose musts come from a grouping plus a refine; a target that an
\* augment introduces): the result is the edited source - the named statement goes, the others stay.
G9Musts == << P("must", "a = 1"), P("must", "b = 2"), P("must", "c = 3") >>
G9Uniq == << St("unique", <<"v">>, <<>>), St("unique", <<"w", "x">>, <<>>), St("unique", <<"x">>, <<>>) >>
G9Targets == << Leaf("lf", G9Musts),
                LeafList("ll", <<G9Musts[1], P("max-elements", "4"), G9Musts[2], G9Musts[3]>>),
                Cont("ct", <<G9Musts[1], Leaf("z", <<>>), G9Musts[2], G9Musts[3]>>),
                List("li", "k", <<G9Uniq[1], G9Musts[1], Leaf("v", <<>>), G9Uniq[2], Leaf("w", <<>>), G9Musts[2], Leaf("x", <<>>), G9Musts[3], G9Uniq[3]>>) >>
G9Base == Module("a", <<>>, <<Grouping("g", <<Leaf("gl", <<G9Musts[1], G9Musts[2]>>)>>),
                              Cont("top", G9Targets \o <<Uses("", "g", <<Refine(<<"", "gl">>, <<G9Musts[3]>>)>>)>>),
                              Augment(<<"", "top">>, <<Leaf("al", G9Musts)>>)>>)
G9Pool(t) == IF t = "li" THEN G9Musts \o G9Uniq ELSE G9Musts
G9Edits(pool) ==
     { <<Deviate("delete", <<pool[i]>>)>> : i \in 1..Len(pool) }
\cup ({ <<Deviate("delete", <<pool[i], pool[j]>>)>> : i \in 1..Len(pool), j \in {1, 3} } \ { <<Deviate("delete", <<pool[i], pool[i]>>)>> : i \in 1..Len(pool) })
\cup { <<Deviate("delete", <<pool[1], pool[2], pool[3]>>)>>, <<Deviate("delete", <<pool[3], pool[2], pool[1]>>)>>,
       <<Deviate("delete", <<P("must", "b = 3")>>)>>, <<Deviate("delete", <<pool[2], P("must", "nope")>>)>>,
       <<Deviate("add", <<P("must", "d = 4")>>)>>, <<Deviate("add", <<P("must", "d = 4"), P("must", "e = 5")>>)>>,
       <<Deviate("replace", <<pool[2]>>)>>, <<Deviate("replace", <<pool[Len(pool)]>>)>>,
       <<Deviate("delete", <<pool[2]>>), Deviate("add", <<P("must", "d = 4")>>)>>,
       <<Deviate("add", <<P("must", "d = 4")>>), Deviate("delete", <<pool[Len(pool)]>>)>>,
       <<Deviate("delete", <<pool[1]>>), Deviate("delete", <<pool[3]>>)>> }
G9(u_) ==
     UNION { { CaseOf(<<G9Base, DevMod(<<Deviation(<<"a", "top", "a", t>>, ed)>>)>>, {}, "edit") : ed \in G9Edits(G9Pool(t)) } : t \in {"lf", "ll", "ct", "li", "gl", "al"} }
\cup { CaseOf(<<G9Base, DevMod(<<Deviation(<<"a", "top", "a", t>>, <<Deviate("delete", <<G9Musts[i]>>)>>), Deviation(<<"a", "top", "a", t>>, <<Deviate("delete", <<G9Musts[j]>>)>>)>>)>>, {}, "edit")
       : t \in {"lf", "li"}, i \in 1..3, j \in {1, 3} }
\cup { CaseOf(<<G9Base, DevMod(<<Deviation(<<"a", "top", "a", "li">>, <<Deviate("add", <<St("unique", <<"k", "w">>, <<>>)>>)>>)>>)>>, {}, "edit"),
       CaseOf(<<G9Base, DevMod(<<Deviation(<<"a", "top", "a", "li">>, <<Deviate("delete", <<G9Uniq[2]>>), Deviate("add", <<St("unique", <<"w">>, <<>>)>>)>>)>>)>>, {}, "edit") }

\* F15: a uses at every depth below an augment: written directly in the augment, inside a container / list /
\* choice-case that the augment adds, two levels down, next to siblings, with refine and a further augment on the deep
\* uses, through a nested grouping - for an augment inside a uses (in a container, at the top, inside a module-level
\* augment, inside a grouping, of a grouping of another module) and for a module-level augment (same module, submodule,
\* another module), into a container, a container two steps down, a list, a case and a choice.
F15HS == << Grouping("h", <<Leaf("hh", <<P("default", "d")>>), Cont("hc", <<Leaf("hl", <<>>)>>)>>),
            Grouping("h2", <<Leaf("deep", <<>>), Uses("", "h3", <<>>)>>),
            Grouping("h3", <<LeafList("more", <<>>)>>) >>
F15G == Grouping("g", <<Cont("c", <<Leaf("x", <<>>), Cont("cc", <<Leaf("y", <<>>)>>)>>), List("l", "k", <<>>), Choice("ch", <<Case("ca", <<Leaf("q", <<>>)>>)>>)>>)
F15Paths == { <<"", "c">>, <<"", "c", "", "cc">>, <<"", "l">>, <<"", "ch", "", "ca">>, <<"", "ch">> }
F15Kids(hp) == {
   << Uses(hp, "h", <<>>) >>,
   << Cont("n", <<Uses(hp, "h", <<>>)>>) >>,
   << List("n", "nk", <<Uses(hp, "h", <<>>)>>) >>,
   << Choice("n", <<Case("nc", <<Uses(hp, "h", <<>>)>>), Leaf("ns", <<>>)>>) >>,
   << Cont("n", <<Cont("n2", <<Uses(hp, "h", <<>>)>>)>>) >>,
   << Leaf("a", <<>>), Cont("n", <<Leaf("a", <<>>), Uses(hp, "h2", <<>>), Leaf("z", <<>>)>>), Leaf("z", <<>>) >>,
   << Cont("n", <<Uses(hp, "h", <<Refine(<<"", "hh">>, <<P("default", "r")>>), Augment(<<"", "hc">>, <<Leaf("extra", <<>>), Cont("n3", <<Uses(hp, "h3", <<>>)>>)>>)>>)>>) >>,
   << Case("nc", <<Cont("n", <<Uses(hp, "h", <<>>)>>)>>) >>,
   << Uses(hp, "h", <<>>), Cont("n", <<Uses(hp, "h2", <<>>)>>) >>,
   << List("n", "nk", <<Cont("n2", <<List("n3", "nk3", <<Uses(hp, "h2", <<>>)>>)>>)>>) >> }
F15Sets(p, K, KB) == {
   << Module("a", <<>>, F15HS \o <<F15G, Cont("top", <<Uses("", "g", <<Augment(p, K)>>)>>)>>) >>,
   << Module("a", <<>>, F15HS \o <<F15G, Uses("", "g", <<Augment(p, K)>>)>>) >>,
   << Module("a", <<>>, F15HS \o <<F15G, Cont("top", <<Cont("in", <<>>)>>), Augment(<<"", "top", "", "in">>, <<Uses("", "g", <<Augment(p, K)>>)>>)>>) >>,
   << Module("a", <<>>, F15HS \o <<F15G, Grouping("g0", <<Cont("w", <<Uses("", "g", <<Augment(p, K)>>)>>)>>), Cont("top", <<Uses("", "g0", <<>>)>>)>>) >>,
   << Module("b", <<>>, <<F15G>>), Module("a", <<"b">>, F15HS \o <<Cont("top", <<Uses("b", "g", <<Augment(p, K)>>)>>)>>) >>,
   << Module("b", <<>>, F15HS \o <<F15G>>), Module("a", <<"b">>, <<Cont("top", <<Uses("b", "g", <<Augment(p, KB)>>)>>)>>) >>,
   << Module("a", <<>>, F15HS \o <<F15G, Cont("top", <<Uses("", "g", <<>>)>>), Augment(<<"", "top">> \o p, K)>>) >>,
   << Submodule("as", "a", <<>>, F15HS \o <<Augment(Abs(<<"", "top">> \o p, "a"), K)>>), Module("a", <<>>, <<Include("as"), F15G, Cont("top", <<Uses("", "g", <<>>)>>)>>) >>,
   << Module("a", <<>>, <<F15G, Cont("top", <<Uses("", "g", <<>>)>>)>>), Module("c", <<"a">>, F15HS \o <<Augment(Abs(<<"", "top">> \o p, "a"), K)>>) >> }
RECURSIVE Reprefix(_, _)      \* the same statements with every uses written with prefix hp
Reprefix(stmts, hp) == [i \in 1..Len(stmts) |-> [stmts[i] EXCEPT !.arg = IF stmts[i].kw = "uses" THEN <<hp, @[2]>> ELSE @, !.subs = Reprefix(@, hp)]]
F15(PS) == UNION { { CaseOf(m, {}, "inline") : m \in F15Sets(p, K, Reprefix(K, "b")) } : p \in PS, K \in F15Kids("") }

\* ---------------------------------------------------------------- round 7
\* F16: a statement on the uses / augment ITSELF (status, when, if-feature, description, reference) together with a
\* different statement of the same kind on the nodes it introduces (directly and one level down): the result is the
\* inlined definition - an introduced node keeps what it states itself, gets the status of the uses / augment only when
\* it states none, both conditions and both if-features apply, description / reference of the uses stay with the uses.
StP(x) == IF x = "" THEN <<>> ELSE <<P("status", x)>>
St4 == {"", "current", "deprecated", "obsolete"}
F16Feats == <<Feature("f1", <<>>), Feature("f2", <<>>)>>
F16BodyS(sn, sc) == << Leaf("x", StP(sn)), Cont("c", StP(sn) \o <<Leaf("y", StP(sc))>>), Choice("ch", <<Case("ca", StP(sc) \o <<Leaf("q", <<>>)>>)>>), Leaf("z", <<>>) >>
F16BodyM == << Leaf("x", <<P("when", "w = 'n'"), IfF("", "f2"), P("description", "own x"), P("reference", "own ref of x"), P("status", "obsolete")>>),
               Cont("c", <<P("description", "own c"), P("reference", "own ref of c"), Leaf("y", <<P("description", "own y"), IfF("", "f2"), P("when", "../w")>>)>>),
               Leaf("z", <<>>) >>
F16Sites(X, body, stop) == {
   \* uses in a container, at the top of the module, of a grouping of another module
   << Module("a", <<>>, F16Feats \o <<Grouping("g", body), Cont("top", stop \o <<Leaf("w", <<>>), Uses("", "g", X)>>)>>) >>,
   << Module("a", <<>>, F16Feats \o <<Grouping("g", body), Uses("", "g", X)>>) >>,
   << Module("b", <<>>, F16Feats \o <<Grouping("g", body)>>), Module("a", <<"b">>, F16Feats \o <<Cont("top", stop \o <<Leaf("w", <<>>), Uses("b", "g", X)>>)>>) >>,
   \* module-level augment: same module, another module
   << Module("a", <<>>, F16Feats \o <<Cont("top", stop \o <<Leaf("w", <<>>)>>), Augment(<<"", "top">>, X \o body)>>) >>,
   << Module("a", <<>>, <<Cont("top", stop \o <<Leaf("w", <<>>)>>)>>), Module("c", <<"a">>, F16Feats \o <<Augment(<<"a", "top">>, X \o body)>>) >>,
   \* augment inside a uses; uses inside an augment
   << Module("a", <<>>, F16Feats \o <<Grouping("g0", <<Cont("in", <<Leaf("w", <<>>)>>)>>), Cont("top", stop \o <<Uses("", "g0", <<Augment(<<"", "in">>, X \o body)>>)>>)>>) >>,
   << Module("a", <<>>, F16Feats \o <<Grouping("g", body), Cont("top", stop \o <<Leaf("w", <<>>)>>), Augment(<<"", "top">>, <<Uses("", "g", X)>>)>>) >> }
F16XM == { <<P("when", "w = 'u'")>>, <<IfF("", "f1")>>, <<P("description", "about the uses")>>, <<P("reference", "ref of the uses")>>, <<P("status", "deprecated")>>,
           <<P("description", "about the uses"), P("when", "w = 'u'"), IfF("", "f1"), P("reference", "ref of the uses"), P("status", "deprecated")>> }
F16E(k) == {<<m, f>> : m \in {"a", "b", "c"}, f \in k}
F16(u_) ==
     UNION { { CaseOf(m, {}, "inline") : m \in F16Sites(StP(su), F16BodyS(sn, sc), <<>>) } : su \in St4, sn \in St4, sc \in {"", "deprecated", "obsolete"} }
\cup UNION { { CaseOf(m, {}, "inline") : m \in {x \in F16Sites(StP(su), F16BodyS(sn, ""), <<P("status", "deprecated")>>) : Len(x) = 1} } : su \in St4, sn \in St4 }
\cup UNION { { CaseOf(m, F16E(k), "inline") : m \in F16Sites(X, F16BodyM, <<>>) } : X \in F16XM, k \in SUBSET {"f1", "f2"} }

\* G10: one deviate statement naming the same single-instance property twice (equal and different values, both
\* orders), and the two spread over two deviate statements of every pair of kinds - on targets that have and that have
\* not the property.  The grammar takes each of these properties at most once per deviate statement; across deviate
\* statements the edit is judged where it does not depend on their order.
G10Kws == <<"config", "default", "mandatory", "min-elements", "max-elements", "units", "type">>
G10Vals(kw, t) == CASE kw = "config" -> <<"false", "true">> [] kw = "default" -> (IF t.kw = "choice" THEN <<"cb", "ca">> ELSE <<"v", "d">>)
                    [] kw = "mandatory" -> <<"true", "false">> [] kw = "min-elements" -> <<"1", "2">> [] kw = "max-elements" -> <<"3", "5">>
                    [] kw = "units" -> <<"u", "w">> [] kw = "type" -> <<"int8", "string">>
G10P(kw, v) == IF kw = "type" THEN Ty(v) ELSE P(kw, v)
G10Hows == {"add", "replace", "delete"}
\* the properties the grammar of each kind of deviate statement knows (the others are refused whatever their number: G4)
G10Takes(how, kw) == CASE how = "add" -> kw # "type" [] how = "delete" -> kw \in {"units", "default"} [] OTHER -> TRUE
G10Dev(t, dvs) == CaseOf(<<G4Base, DevMod(<<Deviation(<<"a", "top", "a", t.arg[1]>>, dvs)>>)>>, {}, "edit")
G10(two) == UNION { UNION {
     LET t == G4Targets[ti]  kw == G10Kws[ki]  v == G10Vals(kw, t) IN
     IF ~AllowedOn(kw, t.kw) THEN {} ELSE
          { G10Dev(t, <<Deviate(how, <<G10P(kw, v[i]), G10P(kw, v[j])>>)>>) : how \in {h \in G10Hows : G10Takes(h, kw)}, i \in 1..2, j \in 1..2 }
     \cup { G10Dev(t, <<Deviate(h[1], <<G10P(kw, v[i])>>), Deviate(h[2], <<G10P(kw, v[j])>>)>>) : h \in {x \in two : G10Takes(x[1], kw) /\ G10Takes(x[2], kw)}, i \in 1..2, j \in 1..2 }
     \* spread over two deviation statements of the same target (only what no order of application can change:
     \* the second add finds the property, the second delete does not, two equal replacements are one)
     \cup { CaseOf(<<G4Base, DevMod(<<Deviation(<<"a", "top", "a", t.arg[1]>>, <<Deviate(hv[1], <<G10P(kw, v[hv[2]])>>)>>),
                                      Deviation(<<"a", "top", "a", t.arg[1]>>, <<Deviate(hv[1], <<G10P(kw, v[hv[3]])>>)>>)>>)>>, {}, "edit")
             : hv \in {x \in {<<"add", 1, 2>>, <<"add", 2, 2>>, <<"replace", 1, 1>>, <<"replace", 2, 2>>, <<"delete", 1, 1>>, <<"delete", 2, 2>>} : G10Takes(x[1], kw)} }
     \* (the two not next to each other: a property that may repeat in between)
     \cup (IF AllowedOn("must", t.kw) THEN { G10Dev(t, <<Deviate("add", <<G10P(kw, v[i]), P("must", "9 = 9"), G10P(kw, v[3 - i])>>)>>) : i \in {j \in 1..2 : G10Takes("add", kw)} } ELSE {})
   : ki \in 1..Len(G10Kws) } : ti \in 1..Len(G4Targets) }
G10Same == { <<h, h>> : h \in G10Hows }

\* G11: the set of enabled features is an input with more than one way in.  One tree (features with a dependency, a
\* feature of another module, a node with two if-features); the enabled set reaches the compiler through every kind of
\* checker alone, through MultiFeatureCheckers with members that agree, disagree (both orders) and are silent, with nil
\* members, nested, and through compile.Config (capability directory + Config.Features).
G11Mods == << Module("b", <<>>, <<Feature("g", <<>>), Leaf("bl", <<IfF("", "g")>>)>>),
              Module("a", <<"b">>, <<Feature("base", <<>>), Feature("extra", <<IfF("", "base")>>), Feature("solo", <<>>),
                                    Cont("top", <<Leaf("always", <<>>), Leaf("onbase", <<IfF("", "base")>>), Leaf("onextra", <<IfF("", "extra")>>),
                                                  Leaf("onsolo", <<IfF("", "solo")>>), Leaf("ong", <<IfF("b", "g")>>),
                                                  Cont("both", <<IfF("", "base"), IfF("", "solo"), Leaf("in", <<>>)>>)>>)>>) >>
IdB == <<"a", "base">>
IdX == <<"a", "extra">>
IdO == <<"a", "solo">>
IdG == <<"b", "g">>
G11Subs == { <<>>, <<IdB>>, <<IdX>>, <<IdB, IdX>>, <<IdO, IdG>>, <<IdB, IdX, IdO, IdG>>, <<<<"a", "nosuch">>, IdO>> }
G11Pool(u_) == { SrcNames(b, x) : b \in BOOLEAN, x \in G11Subs }
          \cup { SrcTable(<<IdB>>, <<IdX>>), SrcTable(<<IdX, IdO>>, <<IdB>>), SrcTable(<<>>, <<IdB, IdG>>), SrcTable(<<IdB, IdX, IdO, IdG>>, <<>>) }
          \cup { SrcDirs(<<IdB>>, <<>>), SrcDirs(<<IdB, IdX>>, <<IdG>>), SrcDirs(<<>>, <<>>), SrcDirs(<<IdB, IdX, IdO, IdG>>, <<>>) }
          \cup { SrcNil }
CaseSrc(m, src) == [m |-> m, e |-> SrcEnabled(src, DeclIds(m)), alt |-> "none", fl |-> <<>>, src |-> src]
G11Srcs(u_) ==
     G11Pool(0)
\cup { SrcMulti(<<x>>) : x \in G11Pool(0) }
\cup { SrcMulti(<<x, y>>) : x \in G11Pool(0), y \in G11Pool(0) }
\cup { SrcMulti(<<x, SrcNil, y, SrcNil>>) : x \in {SrcNames(TRUE, <<IdB, IdX>>), SrcNames(FALSE, <<IdB>>)}, y \in G11Pool(0) }
\cup { SrcMulti(<<x, y, x>>) : x \in {SrcNames(TRUE, <<IdB, IdX, IdO, IdG>>), SrcNames(FALSE, <<IdB, IdO>>)}, y \in G11Pool(0) }
\cup { SrcMulti(<<SrcMulti(<<x, y>>), z>>) : x \in {SrcNames(TRUE, <<IdB, IdX>>)}, y \in {SrcNames(FALSE, <<IdB>>), SrcNames(TRUE, <<IdO>>), SrcNil}, z \in G11Pool(0) }
\cup { SrcMulti(<<z, SrcMulti(<<x, y>>)>>) : x \in {SrcNames(TRUE, <<IdB, IdX>>)}, y \in {SrcNames(FALSE, <<IdB>>), SrcNames(TRUE, <<IdO>>), SrcNil}, z \in G11Pool(0) }
\cup { SrcConfig(caps, f) : caps \in {<<>>, <<IdB>>, <<IdB, IdX, IdO, IdG>>, <<IdX, IdG>>}, f \in G11Pool(0) }
\cup { SrcConfig(caps, SrcMulti(<<x, y>>)) : caps \in {<<IdB, IdX>>, <<IdO>>}, x \in {SrcNames(TRUE, <<IdB, IdX, IdO>>), SrcNames(FALSE, <<IdB>>)}, y \in {SrcNames(FALSE, <<IdX, IdO>>), SrcNames(TRUE, <<IdB, IdG>>), SrcNil} }
G11(u_) == { CaseSrc(G11Mods, s) : s \in G11Srcs(0) }

Family(name) == CASE name = "F1" -> F1(Bodies(0)) [] name = "F1q" -> F1(BodiesA(0)) [] name = "F2" -> F2(0) [] name = "F3" -> F3(0) [] name = "F4" -> F4(0) [] name = "F5" -> F5(0) [] name = "F6" -> F6(F6Extras(0)) [] name = "F6q" -> F6({<<>>, <<P("when", "1 = 1")>>}) [] name = "F7" -> F7(0) [] name = "F8" -> F8(0)
                  [] name = "G1c" -> G1K("container") [] name = "G1l" -> G1K("list") [] name = "G1h" -> G1K("choice")
                  [] name = "G2a" -> G2D(1) [] name = "G2b" -> G2D(2) [] name = "G2c" -> G2D(3) [] name = "G2d" -> G2D(4) [] name = "G2e" -> G2D(5)
                  [] name = "G2X" -> G2X(0) [] name = "G2S" -> G2S(0) [] name = "G3" -> G3(0) [] name = "G4" -> G4(0) [] name = "G4X" -> G4X(0)
                  [] name = "H1q" -> H1(7) [] name = "H1" -> H1(11) [] name = "H2" -> H2(0) [] name = "H3" -> H3(0) [] name = "H4" -> H4(0) [] name = "F9" -> F9(0) [] name = "F10" -> F10(0) [] name = "F11" -> F11(0) [] name = "F12" -> F12(0) [] name = "G5" -> G5(0) [] name = "G6" -> G6(0) [] name = "F13" -> F13(0) [] name = "F14" -> F14(0) [] name = "G7" -> G7(0) [] name = "G2T" -> G2T(0) [] name = "H5" -> H5(0) [] name = "H6" -> H6(0)
                  [] name = "G8" -> G8(0) [] name = "G9" -> G9(0) [] name = "F15" -> F15(F15Paths) [] name = "F15q" -> F15({<<"", "c">>, <<"", "c", "", "cc">>, <<"", "ch", "", "ca">>})
                  [] name = "F16" -> F16(0) [] name = "G10" -> G10({<<h1, h2>> : h1 \in G10Hows, h2 \in G10Hows}) [] name = "G10q" -> G10(G10Same) [] name = "G11" -> G11(0)
=============================================================================
