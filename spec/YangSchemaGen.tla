---------------------------- MODULE YangSchemaGen ----------------------------
(* Behaviour generator (model -> code).  For every case of a family the vector
   holds the module set M, what the spec says about it (verdict, canonical
   schema), the equivalent uses-free / edited module set and, per filter, the
   pruned schema.  A family is split over Chunks initial states so that all
   workers are used; family "R" holds NRand TLC-sampled larger module sets
   (RandomElement, seeded with -seed), written without expectation: the
   harness logs what the code does with them and YangSchemaTrace judges it.  *)
EXTENDS YangSchemaRand, Json, SequencesExt
CONSTANTS Fams, Chunks, NRand, RandMode
VARIABLES fam, chunk, done
FeatNames(E) == SetToSeq({id[1] \o ":" \o id[2] : id \in E})
\* where the enabled features come from: the source of the case, else the plain one (exactly c.e, by name)
SrcOf(c) == IF "src" \in DOMAIN c THEN c.src ELSE SrcNames(TRUE, SetToSeq(c.e))
Vec(c, f) ==
  LET a == AnalyseSrc(c.m, SrcOf(c))
      alt == IF c.alt = "inline" /\ a.inlineOk THEN a.inline ELSE IF c.alt = "edit" /\ a.editOk THEN a.edit ELSE <<>>
  IN [fam |-> f, mods |-> c.m, feats |-> FeatNames(c.e), verdict |-> a.verdict, errs |-> a.errs, why |-> a.why,
      schema |-> IF a.verdict \in {"ok", "open"} THEN a.schema ELSE Blank("tree", ""),
      \* verdict "open": the compile verdict and the attributes listed here are not judged, the rest of the schema is
      open |-> SetToSeq({[path |-> o.path, attr |-> o.attr] : o \in a.opens}),
      altkind |-> IF alt = <<>> THEN "none" ELSE c.alt, alt |-> alt, cls |-> InputClasses(c.m), fsrc |-> SrcOf(c),
      flt |-> [i \in 1..Len(c.fl) |-> [f |-> c.fl[i], schema |-> IF a.verdict \in {"ok", "open"} THEN Prune(a.schema, c.fl[i]) ELSE Blank("tree", "")]]]
\* a sampled module set: no expectation, only the input
RVec(c) == [fam |-> "R", mods |-> c.m, feats |-> FeatNames(SrcEnabled(SrcOf(c), DeclIds(c.m))), verdict |-> "record", errs |-> {}, why |-> {},
            schema |-> Blank("tree", ""), open |-> <<>>, altkind |-> "none", alt |-> <<>>, cls |-> InputClasses(c.m), fsrc |-> SrcOf(c),
            flt |-> [i \in 1..Len(c.fl) |-> [f |-> c.fl[i], schema |-> Blank("tree", "")]]]
GInit == fam \in Fams /\ chunk \in 1..Chunks /\ done = FALSE
Share(S) == LET q == SetToSeq(S) IN {q[i] : i \in {j \in 1..Len(q) : j % Chunks = chunk - 1}}
GNext == /\ ~done /\ done' = TRUE /\ UNCHANGED <<fam, chunk>>
         /\ IF fam = "R"
            THEN ndJsonSerialize("vec_R_" \o ToString(chunk) \o ".ndjson", SetToSeq({RVec(RandCase(i, RandMode)) : i \in 1..(NRand \div Chunks)}))
            ELSE /\ ndJsonSerialize("vec_" \o fam \o "_" \o ToString(chunk) \o ".ndjson", SetToSeq({Vec(c, fam) : c \in Share(Family(fam))}))
                 /\ (chunk # 1 \/ PrintT(<<"FAMILY-SIZE", fam, Cardinality(Family(fam))>>))
=============================================================================
