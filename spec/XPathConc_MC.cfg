SPECIFICATION Spec
CONSTANT Comps = {1, 2}
CONSTANT Runs = {3}
INVARIANT MutualExclusion
INVARIANT LockConsistent
INVARIANT LoadOnce
INVARIANT ReadAfterLoad
INVARIANT IsolatedResults
INVARIANT NoDeadlock
VIEW ViewNoSched
CHECK_DEADLOCK FALSE
PROPERTY RefinesLockProto
