---------------------------- MODULE YangSchemaRand ----------------------------
(* TLC-sampled larger module sets (code -> model): RandomElement draws, seeded
   with TLC's -seed.  Names are made unique by construction (every node name
   starts with the name of its parent), so that most sets compile; clashes come
   from using one grouping twice in a node.                                     *)
EXTENDS YangSchemaSets
Coin(n) == RandomElement(1..n) = 1
Pick1(S) == RandomElement(S)
\* fm: the features an if-feature may name here, as <<prefix, name>> pairs
\* fm = [fs |-> features, nodes |-> whether plain nodes may carry if-feature / status (not in the C12 sampling)]
RandIf(fm) == IF fm.nodes /\ Coin(5) THEN LET f == Pick1(fm.fs) IN <<IfF(f[1], f[2])>> ELSE <<>>
UseIf(fm) == IF Coin(4) THEN LET f == Pick1(fm.fs) IN <<IfF(f[1], f[2])>> ELSE <<>>
RandCfg(u_) == IF Coin(4) THEN <<P("config", "false")>> ELSE <<>>
RandSt(fm) == IF fm.nodes /\ Coin(25) THEN <<P("status", Pick1({"deprecated", "obsolete"}))>> ELSE <<>>
RandCond(u_) == (IF Coin(8) THEN <<P("when", Pick1({"1 = 1", "../w = 'v'"}))>> ELSE <<>>)
RandLeafExtra(u_) == (IF Coin(4) THEN <<P("default", Pick1({"d1", "d2"}))>> ELSE IF Coin(8) THEN <<P("mandatory", "true")>> ELSE <<>>)
                     \o (IF Coin(8) THEN <<P("must", Pick1({"1 = 1", "../w"}))>> ELSE <<>>)
\* the leaf that the sampled deviation names carries several must statements
RandW == <<P("must", "5 = 5"), P("must", "6 = 6"), P("must", "7 = 7")>>
RECURSIVE RandNode(_, _, _, _), RandKids(_, _, _, _)
\* gs: names of the groupings a uses may refer to, as <<prefix, name>> pairs
RandNode(nm, d, gs, fm) ==
  LET k == RandomElement(1..(IF d = 0 THEN 4 ELSE 11)) IN
  CASE k <= 3 -> << Leaf(nm, RandLeafExtra(0) \o RandCfg(0) \o RandIf(fm) \o RandSt(fm) \o RandCond(0)) >>
    [] k = 4 -> << LeafList(nm, RandCfg(0) \o (IF Coin(3) THEN <<P("min-elements", "1"), P("max-elements", "3")>> ELSE <<>>)) >>
    [] k \in {5, 6} -> << Cont(nm, (IF Coin(4) THEN <<P("presence", "p")>> ELSE <<>>) \o RandCfg(0) \o RandIf(fm) \o RandSt(fm) \o RandKids(nm, d - 1, gs, fm)) >>
    [] k = 7 -> << St("list", <<nm>>, <<St("key", <<nm \o "k">>, <<>>), Leaf(nm \o "k", (IF Coin(6) THEN <<P("config", "false")>> ELSE <<>>) \o RandIf(fm))>> \o RandCfg(0) \o RandIf(fm)
                                      \o (IF Coin(3) THEN <<St("unique", <<nm \o "u">>, <<>>), Leaf(nm \o "u", <<>>)>> ELSE <<>>) \o RandKids(nm, d - 1, gs, fm)) >>
    [] k = 8 -> << Choice(nm, RandCfg(0) \o (IF Coin(2) THEN <<P("default", nm \o "s")>> ELSE <<>>)
                                \o <<Case(nm \o "c", RandKids(nm \o "c", d - 1, gs, fm)), Leaf(nm \o "s", RandCfg(0))>>) >>
    [] k \in {9, 10} /\ gs # {} ->
         LET g == Pick1(gs) IN << Uses(g[1], g[2], UseIf(fm) \o RandCond(0)
                                        \o (IF Coin(2) THEN <<Refine(<<"", g[2] \o "a">>, <<Pick1({P("description", "r"), P("config", "false"), P("default", "rd"), P("must", "2 = 2"), P("must", "3 = 3")})>>)>> ELSE <<>>)
                                        \* (the augment may itself bring a uses, one level down; of the lowest grouping, which uses nothing, so that the nesting stays bounded)
                                        \o (IF Coin(4) THEN <<Augment(<<"", g[2] \o "b">>, <<Leaf(nm \o "ua", RandCfg(0))>>
                                                                 \o (IF Coin(2) THEN LET low == IF <<"", "gb1">> \in gs THEN <<"", "gb1">> ELSE <<"b", "gb1">>
                                                                                     IN <<Cont(nm \o "uk", <<Uses(low[1], low[2], <<>>)>>)>> ELSE <<>>))>> ELSE <<>>)) >>
    [] OTHER -> << Leaf(nm, RandLeafExtra(0)) >>
RandKids(nm, d, gs, fm) == RandNode(nm \o "a", d, gs, fm) \o RandNode(nm \o "b", d, gs, fm) \o (IF Coin(2) THEN RandNode(nm \o "c", d, gs, fm) ELSE <<>>)
\* a grouping named g: first member ga is a leaf or leaf-like, second gb a container (so that refine/augment paths often exist)
RandGrouping(g, gs, fm) == Grouping(g, <<Leaf(g \o "a", IF Coin(3) THEN <<P("default", "d1")>> ELSE <<>>)>>
                                       \o <<Cont(g \o "b", RandKids(g \o "b", 1, gs, fm))>>
                                       \o (IF Coin(3) THEN RandNode(g \o "c", 1, gs, fm) ELSE <<>>))
RandFilter(u_) == Pick1(Range(Filters(0)))
\* the way the enabled features reach the compiler: by name, through MultiFeatureCheckers with members that enable,
\* disable and are silent (in both orders, with nil members), a checker of the caller, a capability directory, compile.Config
RandSub(feats) == SetAsSeq({f \in feats : Coin(2)})
RandSrc(feats) ==
  LET k == RandomElement(1..7) IN
  CASE k = 1 -> SrcNames(TRUE, RandSub(feats))
    [] k = 2 -> SrcMulti(<<SrcNames(TRUE, RandSub(feats)), SrcNames(FALSE, RandSub(feats))>>)
    [] k = 3 -> SrcMulti(<<SrcNames(FALSE, RandSub(feats)), SrcNil, SrcNames(TRUE, RandSub(feats))>>)
    [] k = 4 -> SrcMulti(<<SrcNames(TRUE, RandSub(feats)), SrcTable(RandSub(feats), RandSub(feats))>>)
    [] k = 5 -> SrcConfig(RandSub(feats), IF Coin(2) THEN SrcNil ELSE SrcNames(Coin(2), RandSub(feats)))
    [] k = 6 -> SrcMulti(<<SrcDirs(RandSub(feats), <<>>), SrcNames(TRUE, RandSub(feats)), SrcNames(FALSE, RandSub(feats))>>)
    [] OTHER -> SrcMulti(<<SrcTable(RandSub(feats), RandSub(feats)), SrcMulti(<<SrcNames(TRUE, RandSub(feats)), SrcNames(FALSE, RandSub(feats))>>)>>)
\* container paths of module a that an augment or deviation can aim at
RandCase(i, mode) ==
  LET FB == [fs |-> {<<"", "g">>, <<"", "h">>}, nodes |-> mode # "C12"]
      FS == [fs |-> {<<"b", "g">>, <<"b", "h">>}, nodes |-> mode # "C12"]
      FA == [fs |-> {<<"", "f1">>, <<"", "f2">>, <<"b", "g">>}, nodes |-> mode # "C12"]
      gb1 == RandGrouping("gb1", {}, FB)
      gb2 == RandGrouping("gb2", {<<"", "gb1">>}, FB)
      gs1 == RandGrouping("gs1", {<<"b", "gb1">>}, FS)
      ga1 == RandGrouping("ga1", {<<"b", "gb2">>, <<"", "gs1">>}, FA)
      ga2 == RandGrouping("ga2", {<<"", "ga1">>, <<"b", "gb1">>}, FA)
      pool == {<<"", "ga1">>, <<"", "ga2">>, <<"b", "gb2">>, <<"", "gs1">>}
      modb == Module("b", <<>>, <<Feature("g", IF Coin(2) THEN <<IfF("", "h")>> ELSE <<>>), Feature("h", <<>>), gb1, gb2>>)
      subm == Submodule("as", "a", <<"b">>, <<gs1, Cont("s", RandKids("s", 1, {<<"", "gs1">>, <<"b", "gb1">>}, FS))>>
                          \o (IF Coin(2) THEN <<Augment(<<"a", "t1">>, <<Leaf("sx", RandCfg(0))>>)>> ELSE <<>>))
      moda == Module("a", <<"b">>, <<Include("as"), Feature("f1", IF Coin(2) THEN <<IfF("", "f2")>> ELSE <<>>), Feature("f2", IF Coin(4) THEN <<IfF("b", "g")>> ELSE <<>>), ga1, ga2,
                                    Cont("t1", <<Leaf("w", RandW)>> \o RandCfg(0) \o RandKids("t1", 2, pool, FA)),
                                    Cont("t2", RandKids("t2", 2, pool, FA))>>
                                    \o (IF Coin(2) THEN RandNode("t3", 2, pool, FA) ELSE <<>>)
                                    \o (IF Coin(3) THEN <<Augment(<<"", "t2">>, UseIf(FA) \o <<Leaf("la", RandCfg(0))>>)>> ELSE <<>>))
      modc == Module("c", <<"a">>, <<Feature("fc", <<>>)>>
                     \o (IF Coin(2) THEN <<Augment(<<"a", "t1">>, (IF Coin(3) THEN <<IfF("", "fc")>> ELSE <<>>) \o (IF Coin(6) THEN <<P("status", "deprecated")>> ELSE <<>>) \o RandCond(0) \o <<Leaf("ca", RandCfg(0)), Cont("cb", <<Leaf("cc", <<>>)>>)>>)>> ELSE <<>>)
                     \o (IF Coin(2) THEN <<Augment(<<"a", "t2">>, <<Leaf("cd", IF Coin(8) THEN <<P("mandatory", "true")>> ELSE <<>>)>>)>> ELSE <<>>))
      modd == Module("d", <<"a">>, IF mode = "C12" THEN <<>> ELSE IF Coin(6) THEN <<Deviation(<<"a", "t1", "a", "w">>, <<Deviate("delete", <<Pick1(Range(RandW))>>)>>)>>
                                   ELSE IF Coin(2) THEN <<Deviation(<<"a", "t1", "a", "w">>, <<Deviate(Pick1({"add", "add", "add", "replace", "delete"}), <<Pick1({P("default", "dv"), P("config", "false"), P("mandatory", "true"), P("must", "3 = 3"), P("units", "u")})>>
                                                                                                                                         \* (now and then a second property, of the same kind or not)
                                                                                                                                         \o (IF Coin(3) THEN <<Pick1({P("default", "dv"), P("default", "dw"), P("config", "false"), P("mandatory", "true"), P("units", "u"), P("units", "w")})>> ELSE <<>>))>>)>>
                                   ELSE IF Coin(2) THEN <<Deviation(<<"a", "t2">>, <<Deviate("not-supported", <<>>)>>)>> ELSE <<>>)
      feats == {<<"a", "f1">>, <<"a", "f2">>, <<"b", "g">>, <<"b", "h">>, <<"c", "fc">>}
  \* (C20 keeps the plain source: its subject is the filter)
  IN [m |-> <<modb, subm, moda, modc, modd>>, e |-> {}, alt |-> "none", src |-> IF mode = "C20" THEN SrcNames(TRUE, RandSub(feats)) ELSE RandSrc(feats),
      fl |-> IF mode = "C20" THEN <<RandFilter(0), RandFilter(0), RandFilter(0), RandFilter(0)>> ELSE <<>>]
=============================================================================
