------------------------------ MODULE YangStmt ------------------------------
(* Statement grammar of YANG 1.0 (RFC 6020) as data and predicates, written from
   the RFC (section 7 substatement tables, section 12 ABNF), not from the Go code.

     Sub(p)            substatement table of parent p:  child |-> <<min, max>>
     SectionRank(kw)   module / submodule section of a statement
     ArgVerdict(k, a)  "valid" | "invalid" | "unjudged" for argument a of kind k
     Viol(tree)        every violation of the tree (with the statements an error
                       may be located at and the keyword it must name)

   Trees are records [kw, arg, subs]; arguments are strings; characters that do not
   survive TLC's JSON (non-ASCII, tab, line break) travel as two-character
   placeholders "~e" "~u" "~t" "~n".                                             *)
EXTENDS Integers, Sequences, FiniteSets, TLC

N == 1000000000           \* "n" of the RFC tables: no upper bound (above any count a text can hold)
NoArg == "<none>"            \* statement written without an argument (input, output)
St(kw, arg, subs) == [kw |-> kw, arg |-> arg, subs |-> subs]
Lf(kw, arg) == St(kw, arg, << >>)

Keywords ==
  {"anyxml","argument","augment","base","belongs-to","bit","case","choice","config","contact",
   "container","default","description","deviate","deviation","enum","error-app-tag","error-message",
   "extension","feature","fraction-digits","grouping","identity","if-feature","import","include",
   "input","key","leaf","leaf-list","length","list","mandatory","max-elements","min-elements",
   "module","must","namespace","notification","ordered-by","organization","output","path","pattern",
   "position","prefix","presence","range","reference","refine","require-instance","revision",
   "revision-date","rpc","status","submodule","type","typedef","unique","units","uses","value",
   "when","yang-version","yin-element"}

DeviateKinds == {"add", "delete", "replace", "not-supported"}
DevId(k) == "deviate " \o k
ParentIds == (Keywords \ {"deviate"}) \cup {DevId(k) : k \in DeviateKinds}

(* ------------------------------------------------------------------------- *)
(* RFC 6020 section 7 substatement tables                                      *)
DD   == {"anyxml","choice","container","leaf","leaf-list","list","uses"}     \* data-def-stmt
DR   == {"description","reference"}
DRS  == DR \cup {"status"}
Rst  == {"description","error-app-tag","error-message","reference"}
Body == DD \cup {"augment","deviation","extension","feature","grouping","identity","notification","rpc","typedef"}

Row(o1, on, r1, rn) ==
  [k \in (o1 \cup on \cup r1 \cup rn) |->
     IF k \in r1 THEN <<1, 1>> ELSE IF k \in rn THEN <<1, N>> ELSE IF k \in o1 THEN <<0, 1>> ELSE <<0, N>>]
RowParts(p) ==     \* <<0..1, 0..n, 1, 1..n>>
  CASE p = "module"      -> <<{"contact","description","organization","reference","yang-version"},
                              Body \cup {"import","include","revision"}, {"namespace","prefix"}, {}>>
    [] p = "submodule"   -> <<{"contact","description","organization","reference","yang-version"},
                              Body \cup {"import","include","revision"}, {"belongs-to"}, {}>>
    [] p = "import"      -> <<{"revision-date"}, {}, {"prefix"}, {}>>
    [] p = "include"     -> <<{"revision-date"}, {}, {}, {}>>
    [] p = "revision"    -> <<DR, {}, {}, {}>>
    [] p = "belongs-to"  -> <<{}, {}, {"prefix"}, {}>>
    [] p = "typedef"     -> <<{"default","units"} \cup DRS, {}, {"type"}, {}>>
    [] p = "type"        -> <<{"base","fraction-digits","length","path","range","require-instance"},
                              {"bit","enum","pattern","type"}, {}, {}>>
    [] p \in {"range","length","pattern","must"} -> <<Rst, {}, {}, {}>>
    [] p = "enum"        -> <<DRS \cup {"value"}, {}, {}, {}>>
    [] p = "bit"         -> <<DRS \cup {"position"}, {}, {}, {}>>
    [] p = "container"   -> <<{"config","presence","when"} \cup DRS, DD \cup {"grouping","if-feature","must","typedef"}, {}, {}>>
    [] p = "leaf"        -> <<{"config","default","mandatory","units","when"} \cup DRS, {"if-feature","must"}, {"type"}, {}>>
    [] p = "leaf-list"   -> <<{"config","max-elements","min-elements","ordered-by","units","when"} \cup DRS,
                              {"if-feature","must"}, {"type"}, {}>>
    [] p = "list"        -> <<{"config","key","max-elements","min-elements","ordered-by","when"} \cup DRS,
                              DD \cup {"grouping","if-feature","must","typedef","unique"}, {}, {}>>
    [] p = "choice"      -> <<{"config","default","mandatory","when"} \cup DRS,
                              {"anyxml","case","container","leaf","leaf-list","list","if-feature"}, {}, {}>>
    [] p = "case"        -> <<{"when"} \cup DRS, DD \cup {"if-feature"}, {}, {}>>
    [] p = "anyxml"      -> <<{"config","mandatory","when"} \cup DRS, {"if-feature","must"}, {}, {}>>
    [] p = "grouping"    -> <<DRS, DD \cup {"grouping","typedef"}, {}, {}>>
    [] p = "uses"        -> <<{"when","augment","refine"} \cup DRS, {"if-feature"}, {}, {}>>
    [] p = "refine"      -> <<{"config","default","mandatory","max-elements","min-elements","presence"} \cup DR, {"must"}, {}, {}>>
    [] p = "rpc"         -> <<{"input","output"} \cup DRS, {"grouping","if-feature","typedef"}, {}, {}>>
    [] p \in {"input","output"} -> <<{}, DD \cup {"grouping","typedef"}, {}, {}>>
    [] p = "notification"-> <<DRS, DD \cup {"grouping","if-feature","typedef"}, {}, {}>>
    [] p = "augment"     -> <<{"when"} \cup DRS, DD \cup {"case","if-feature"}, {}, {}>>
    [] p = "identity"    -> <<{"base"} \cup DRS, {}, {}, {}>>
    [] p = "extension"   -> <<{"argument"} \cup DRS, {}, {}, {}>>
    [] p = "argument"    -> <<{"yin-element"}, {}, {}, {}>>
    [] p = "feature"     -> <<DRS, {"if-feature"}, {}, {}>>
    [] p = "deviation"   -> <<DR, {}, {}, {"deviate"}>>
    [] p = "deviate add" -> <<{"config","default","mandatory","max-elements","min-elements","units"}, {"must","unique"}, {}, {}>>
    [] p = "deviate delete"  -> <<{"default","units"}, {"must","unique"}, {}, {}>>
    [] p = "deviate replace" -> <<{"config","default","mandatory","max-elements","min-elements","type","units"}, {}, {}, {}>>
    [] p = "when"        -> <<DR, {}, {}, {}>>
    [] OTHER             -> <<{}, {}, {}, {}>>
Sub(p) == LET r == RowParts(p) IN Row(r[1], r[2], r[3], r[4])

\* the single "deviate" table of 7.18.3.2 (the ABNF splits it by kind)
DeviateUnion == {"config","default","mandatory","max-elements","min-elements","must","type","unique","units"}
\* statements whose ABNF (not their table) demands at least one data definition / case
NeedsBody == {"list", "augment", "input", "output"}

\* cells where the RFC's table and its ABNF disagree: not judged (DESIGN Appendix A)
CellUnjudged(p, c, n) ==
  \/ p = "uses" /\ c \in {"augment", "refine"} /\ n >= 2
  \/ p \in {DevId(k) : k \in DeviateKinds} /\ c \in DeviateUnion /\ c \notin DOMAIN Sub(p) /\ n >= 1

TableWellFormed ==
  \A p \in ParentIds :
    LET r == RowParts(p) IN
      /\ (r[1] \cup r[2] \cup r[3] \cup r[4]) \subseteq Keywords
      /\ r[1] \cap r[2] = {} /\ r[1] \cap r[3] = {} /\ r[1] \cap r[4] = {}
      /\ r[2] \cap r[3] = {} /\ r[2] \cap r[4] = {} /\ r[3] \cap r[4] = {}
      /\ \A c \in DOMAIN Sub(p) : Sub(p)[c][1] <= Sub(p)[c][2] /\ Sub(p)[c][1] \in {0, 1} /\ Sub(p)[c][2] \in {1, N}
      /\ "module" \notin DOMAIN Sub(p) /\ "submodule" \notin DOMAIN Sub(p)
\* every keyword except the two roots is allowed under at least one parent
EveryKeywordPlaced == \A k \in Keywords \ {"module", "submodule"} : \E p \in ParentIds : k \in DOMAIN Sub(p)

(* ------------------------------------------------------------------------- *)
(* module / submodule section order (ABNF module-stmt / submodule-stmt)        *)
SectionRank(kw) ==
  CASE kw \in {"yang-version", "namespace", "prefix", "belongs-to"} -> 1
    [] kw \in {"import", "include"} -> 2
    [] kw \in {"organization", "contact", "description", "reference"} -> 3
    [] kw = "revision" -> 4
    [] OTHER -> 5
SectionName(r) == <<"header", "linkage", "meta", "revision", "body">>[r]

(* ------------------------------------------------------------------------- *)
(* characters                                                                  *)
Digit   == {"0","1","2","3","4","5","6","7","8","9"}
NzDigit == Digit \ {"0"}
Lower == {"a","b","c","d","e","f","g","h","i","j","k","l","m","n","o","p","q","r","s","t","u","v","w","x","y","z"}
Upper == {"A","B","C","D","E","F","G","H","I","J","K","L","M","N","O","P","Q","R","S","T","U","V","W","X","Y","Z"}
Alpha == Lower \cup Upper
WS    == {" ", "~t", "~n"}          \* WSP and line-break
DigitVal(d) == CASE d = "0" -> 0 [] d = "1" -> 1 [] d = "2" -> 2 [] d = "3" -> 3 [] d = "4" -> 4
                 [] d = "5" -> 5 [] d = "6" -> 6 [] d = "7" -> 7 [] d = "8" -> 8 [] OTHER -> 9

RECURSIVE ToksFrom(_, _)
ToksFrom(s, i) ==
  IF i > Len(s) THEN << >>
  ELSE IF SubSeq(s, i, i) = "~" /\ i + 3 <= Len(s) /\ SubSeq(s, i + 1, i + 1) = "x" THEN <<SubSeq(s, i, i + 3)>> \o ToksFrom(s, i + 4)   \* ~xHH: the byte HH
  ELSE IF SubSeq(s, i, i) = "~" /\ i < Len(s) THEN <<SubSeq(s, i, i + 1)>> \o ToksFrom(s, i + 2)
  ELSE <<SubSeq(s, i, i)>> \o ToksFrom(s, i + 1)
Toks(s) == ToksFrom(s, 1)            \* a string as a sequence of characters

RECURSIVE SplitAt(_, _, _)           \* split ts at every character of seps (empty pieces kept)
SplitAt(ts, seps, cur) ==
  IF ts = << >> THEN <<cur>>
  ELSE IF Head(ts) \in seps THEN <<cur>> \o SplitAt(Tail(ts), seps, << >>)
  ELSE SplitAt(Tail(ts), seps, Append(cur, Head(ts)))
Split(ts, seps) == SplitAt(ts, seps, << >>)
NonEmpty(pieces) == SelectSeq(pieces, LAMBDA p : p # << >>)
RECURSIVE FoldSum(_)
FoldSum(sq) == IF sq = << >> THEN 0 ELSE Head(sq) + FoldSum(Tail(sq))
RECURSIVE ValOf(_, _)
ValOf(ds, acc) == IF ds = << >> THEN acc ELSE ValOf(Tail(ds), acc * 10 + DigitVal(Head(ds)))

(* ------------------------------------------------------------------------- *)
(* section 12 ABNF, one predicate per rule                                     *)
StartsXml(ts) == Len(ts) >= 3 /\ ts[1] \in {"x","X"} /\ ts[2] \in {"m","M"} /\ ts[3] \in {"l","L"}
IsIdent(ts) == /\ Len(ts) >= 1
               /\ ts[1] \in Alpha \cup {"_"}
               /\ \A i \in 2..Len(ts) : ts[i] \in Alpha \cup Digit \cup {"_", "-", "."}
               /\ ~StartsXml(ts)
IsNodeId(ts) == LET ps == Split(ts, {":"}) IN Len(ps) \in {1, 2} /\ \A i \in 1..Len(ps) : IsIdent(ps[i])
IsPlainId(ts) == IsIdent(ts)
AllDigits(ts) == \A i \in 1..Len(ts) : ts[i] \in Digit
IsPosInt(ts) == Len(ts) >= 1 /\ ts[1] \in NzDigit /\ AllDigits(ts)
IsNonNeg(ts) == ts = <<"0">> \/ IsPosInt(ts)
IsInt(ts)    == IsNonNeg(ts) \/ (Len(ts) >= 2 /\ ts[1] = "-" /\ IsNonNeg(Tail(ts)))
IsDecimal(ts) == LET ps == Split(ts, {"."}) IN Len(ps) = 2 /\ IsInt(ps[1]) /\ Len(ps[2]) >= 1 /\ AllDigits(ps[2])
IsDateLex(ts) == /\ Len(ts) = 10 /\ ts[5] = "-" /\ ts[8] = "-"
                 /\ \A i \in {1,2,3,4,6,7,9,10} : ts[i] \in Digit
DateMonth(ts) == ValOf(SubSeq(ts, 6, 7), 0)
DateDay(ts)   == ValOf(SubSeq(ts, 9, 10), 0)
Str(ts, s) == ts = Toks(s)

\* descendant-schema-nodeid / absolute-schema-nodeid (with the erratum: a single node-identifier descends)
IsDescId(ts) == LET ps == Split(ts, {"/"}) IN Len(ps) >= 1 /\ \A i \in 1..Len(ps) : IsNodeId(ps[i])
IsAbsId(ts)  == LET ps == Split(ts, {"/"}) IN Len(ps) >= 2 /\ ps[1] = << >> /\ \A i \in 2..Len(ps) : IsNodeId(ps[i])

\* ---- range-arg / length-arg ----
\* lexemes: [t |-> "w" (boundary word) | "dd" (..) | "bar" (|) | "ws", w |-> characters]
Tk(t, w) == [t |-> t, w |-> w]
RECURSIVE RLex(_, _)
RLex(ts, cur) ==
  LET flush == IF cur = << >> THEN << >> ELSE <<Tk("w", cur)>> IN
  IF ts = << >> THEN flush
  ELSE IF Head(ts) \in WS THEN flush \o <<Tk("ws", << >>)>> \o RLex(Tail(ts), << >>)
  ELSE IF Head(ts) = "|" THEN flush \o <<Tk("bar", << >>)>> \o RLex(Tail(ts), << >>)
  ELSE IF Head(ts) = "." /\ Len(ts) >= 2 /\ ts[2] = "." THEN flush \o <<Tk("dd", << >>)>> \o RLex(Tail(Tail(ts)), << >>)
  ELSE RLex(Tail(ts), Append(cur, Head(ts)))
RECURSIVE DropWsRuns(_)
DropWsRuns(ls) ==        \* collapse runs of ws lexemes
  IF Len(ls) < 2 THEN ls
  ELSE IF ls[1].t = "ws" /\ ls[2].t = "ws" THEN DropWsRuns(Tail(ls))
  ELSE <<ls[1]>> \o DropWsRuns(Tail(ls))
\* optsep is allowed exactly around ".." and "|"
OptSepOnly(ls) == \A i \in 1..Len(ls) : ls[i].t = "ws" =>
                     \/ (i > 1 /\ ls[i-1].t \in {"dd", "bar"})
                     \/ (i < Len(ls) /\ ls[i+1].t \in {"dd", "bar"})
EdgeWs(ls) == Len(ls) >= 1 /\ (ls[1].t = "ws" \/ ls[Len(ls)].t = "ws")
NoWs(ls) == SelectSeq(ls, LAMBDA l : l.t # "ws")
\* part (bar part)*, part = w | w dd w
RECURSIVE PartsOK(_)
PartsOK(ls) ==
  /\ Len(ls) >= 1 /\ ls[1].t = "w"
  /\ \/ Len(ls) = 1
     \/ Len(ls) >= 3 /\ ls[2].t = "bar" /\ PartsOK(SubSeq(ls, 3, Len(ls)))
     \/ Len(ls) >= 3 /\ ls[2].t = "dd" /\ ls[3].t = "w"
          /\ (Len(ls) = 3 \/ (Len(ls) >= 5 /\ ls[4].t = "bar" /\ PartsOK(SubSeq(ls, 5, Len(ls)))))
Words(ls) == SelectSeq(ls, LAMBDA l : l.t = "w")
IsRangeBdry(w)  == Str(w, "min") \/ Str(w, "max") \/ IsInt(w) \/ IsDecimal(w)
IsLengthBdry(w) == Str(w, "min") \/ Str(w, "max") \/ IsNonNeg(w)
\* numeric key of a boundary for the (semantic) ascending test; Big stands for min/max
Big == 10000000
IntPart(w) == LET ip == Split(w, {"."})[1] IN IF ip[1] = "-" THEN 0 - ValOf(Tail(ip), 0) ELSE ValOf(ip, 0)
BKey(w) == IF Str(w, "min") THEN 0 - Big ELSE IF Str(w, "max") THEN Big ELSE IntPart(w)
Small(w) == Str(w, "min") \/ Str(w, "max") \/ Len(Split(w, {"."})[1]) <= 6
FracLen(w) == LET ps == Split(w, {"."}) IN IF Len(ps) = 2 THEN Len(ps[2]) ELSE 0
\* surely-ascending, surely-disjoint: lo <= hi inside a part (strict when fractions are involved), hi < lo across parts
RECURSIVE Ascending(_, _)
Ascending(ls, prev) ==     \* ls without ws; prev = key of the previous upper boundary
  IF ls = << >> THEN TRUE
  ELSE LET lo == ls[1].w IN
       IF Len(ls) >= 3 /\ ls[2].t = "dd"
       THEN LET hi == ls[3].w IN
            /\ BKey(lo) > prev
            /\ (BKey(lo) < BKey(hi) \/ (BKey(lo) = BKey(hi) /\ FracLen(lo) = 0 /\ FracLen(hi) = 0))
            /\ Ascending(SubSeq(ls, 5, Len(ls)), BKey(hi))
       ELSE BKey(lo) > prev /\ Ascending(SubSeq(ls, 3, Len(ls)), BKey(lo))
MinMaxPlaced(ws) == \A i \in 1..Len(ws) : /\ (Str(ws[i], "min") => i = 1)
                                          /\ (Str(ws[i], "max") => i = Len(ws))
StripEdgeWs(ls) == LET a == IF Len(ls) >= 1 /\ ls[1].t = "ws" THEN Tail(ls) ELSE ls IN
                   IF Len(a) >= 1 /\ a[Len(a)].t = "ws" THEN SubSeq(a, 1, Len(a) - 1) ELSE a
RangeLike(ts, bdry(_)) ==
  LET all == DropWsRuns(RLex(ts, << >>))
      ls == StripEdgeWs(all)                 \* a leading / trailing blank is not in the ABNF, but widely tolerated: unjudged
      core == NoWs(ls)
      ws == [i \in 1..Len(Words(core)) |-> Words(core)[i].w]
      lexOK == OptSepOnly(ls) /\ PartsOK(core) /\ \A i \in 1..Len(ws) : bdry(ws[i]) IN
  IF ~lexOK THEN "invalid"
  ELSE IF EdgeWs(all) THEN "unjudged"
  ELSE IF (\A i \in 1..Len(ws) : Small(ws[i]) /\ FracLen(ws[i]) <= 4) /\ MinMaxPlaced(ws) /\ Ascending(core, 0 - Big - 1)
       THEN "valid" ELSE "unjudged"      \* lexically fine, order / magnitude is a semantic matter
HasDecimal(ts) == \E i \in 1..Len(ts) : ts[i] = "." /\ (i = Len(ts) \/ ts[i+1] # ".") /\ (i = 1 \/ ts[i-1] # ".")

\* ---- key-arg / unique-arg: items separated by sep = 1*(WSP / line-break) ----
Items(ts) == NonEmpty(Split(ts, WS))
EdgeBlank(ts) == Len(ts) >= 1 /\ (ts[1] \in WS \/ ts[Len(ts)] \in WS)
Distinct(sq) == \A i, j \in 1..Len(sq) : i # j => sq[i] # sq[j]
ListLike(ts, item(_)) ==
  LET it == Items(ts) IN
  IF Len(it) = 0 \/ \E i \in 1..Len(it) : ~item(it[i]) THEN "invalid"
  ELSE IF EdgeBlank(ts) \/ ~Distinct(it) THEN "unjudged"
  ELSE "valid"

\* ---- pattern: a tiny subset common to XSD regular expressions and RE2 ----
\* units: "a" atom, "*" "+" "?" quantifiers, "|" , "(" , ")" , "bad" unclosed class, "unk" outside the subset
ClassOK(c) == \/ (Len(c) >= 1 /\ \A i \in 1..Len(c) : c[i] \in Alpha \cup Digit)
              \/ c \in {<<"a","-","z">>, <<"A","-","Z">>, <<"0","-","9">>}
RECURSIVE PUnits(_)
PUnits(ts) ==
  IF ts = << >> THEN << >>
  ELSE LET h == Head(ts) IN
    IF h \in Alpha \cup Digit \cup {".", "-"} THEN <<"a">> \o PUnits(Tail(ts))
    ELSE IF h \in {"*", "+", "?", "|", "(", ")"} THEN <<h>> \o PUnits(Tail(ts))
    ELSE IF h = "[" THEN
      LET rest == Tail(ts)
          close == IF \E i \in 1..Len(rest) : rest[i] = "]" THEN CHOOSE i \in 1..Len(rest) : rest[i] = "]" /\ \A j \in 1..(i-1) : rest[j] # "]" ELSE 0 IN
      IF close = 0 THEN (IF \A i \in 1..Len(rest) : rest[i] \in Alpha \cup Digit \cup {"-"} THEN <<"bad">> ELSE <<"unk">>)
      ELSE IF ClassOK(SubSeq(rest, 1, close - 1)) THEN <<"a">> \o PUnits(SubSeq(rest, close + 1, Len(rest)))
      ELSE <<"unk">> \o PUnits(SubSeq(rest, close + 1, Len(rest)))
    ELSE <<"unk">> \o PUnits(Tail(ts))
RECURSIVE PDepthBad(_, _)
PDepthBad(us, d) == IF us = << >> THEN d # 0
                    ELSE IF Head(us) = "(" THEN PDepthBad(Tail(us), d + 1)
                    ELSE IF Head(us) = ")" THEN (d = 0 \/ PDepthBad(Tail(us), d - 1))
                    ELSE PDepthBad(Tail(us), d)
Quant == {"*", "+", "?"}
PatVerdict(ts) ==
  LET us == PUnits(ts)
      prev(i) == IF i = 1 THEN "^" ELSE us[i-1]
      nxt(i) == IF i = Len(us) THEN "$" ELSE us[i+1] IN
  IF \E i \in 1..Len(us) : us[i] = "unk" THEN "unjudged"
  ELSE IF \E i \in 1..Len(us) : us[i] = "bad" THEN "invalid"
  ELSE IF PDepthBad(us, 0) THEN "invalid"
  ELSE IF \E i \in 1..Len(us) : us[i] \in Quant /\ prev(i) \in {"^", "|", "("} THEN "invalid"
  ELSE IF \E i \in 1..Len(us) : us[i] \in {"*", "+"} /\ prev(i) \in Quant THEN "invalid"
  ELSE IF \E i \in 1..Len(us) : us[i] = "?" /\ prev(i) \in Quant THEN "unjudged"
  ELSE IF us = << >> \/ \E i \in 1..Len(us) : (us[i] = "|" /\ (prev(i) \in {"^", "|", "("} \/ nxt(i) \in {"$", ")"}))
                                               \/ (us[i] = "(" /\ nxt(i) = ")") THEN "unjudged"
  ELSE "valid"

(* ------------------------------------------------------------------------- *)
(* argument kind of a statement (parent matters for augment)                   *)
ArgKind(kw, parentKw) ==
  CASE kw \in {"module","submodule","import","include","belongs-to","typedef","container","leaf","leaf-list",
               "list","choice","case","anyxml","grouping","rpc","notification","identity","extension",
               "argument","feature","bit","prefix"} -> "identifier"
    [] kw \in {"type","uses","base","if-feature"} -> "idref"
    [] kw \in {"revision","revision-date"} -> "date"
    [] kw \in {"config","mandatory","require-instance","yin-element"} -> "boolean"
    [] kw = "value" -> "integer"
    [] kw \in {"position","min-elements"} -> "nonneg"
    [] kw = "max-elements" -> "maxel"
    [] kw = "status" -> "status"
    [] kw = "ordered-by" -> "orderedby"
    [] kw = "deviate" -> "deviate"
    [] kw = "range" -> "range"
    [] kw = "length" -> "length"
    [] kw = "key" -> "key"
    [] kw = "unique" -> "unique"
    [] kw = "deviation" -> "absnode"
    [] kw = "refine" -> "descnode"
    [] kw = "augment" -> (IF parentKw = "uses" THEN "descnode" ELSE IF parentKw \in {"module", "submodule"} THEN "absnode" ELSE "anynode")
    [] kw = "fraction-digits" -> "fracdigits"
    [] kw = "pattern" -> "pattern"
    [] kw = "yang-version" -> "yangversion"
    [] kw \in {"input", "output"} -> "none"
    [] OTHER -> "string"
JudgedKinds == {"identifier","idref","date","boolean","integer","nonneg","maxel","status","orderedby","deviate",
                "range","length","key","unique","absnode","descnode","fracdigits","pattern"}

\* argument kinds whose ABNF rule is a closed list of keywords (boolean-arg, status-arg, ordered-by-arg, the deviate
\* kinds): the argument is ONE of them, character for character - not a list, not a prefix, not another case
EnumValues(kind) ==
  CASE kind = "boolean" -> {"true", "false"}
    [] kind = "status" -> {"current", "obsolete", "deprecated"}
    [] kind = "orderedby" -> {"user", "system"}
    [] kind = "deviate" -> DeviateKinds
    [] OTHER -> {}
EnumKinds == {"boolean", "status", "orderedby", "deviate"}

ArgVerdict(kind, a) ==
  LET ts == Toks(a)
      B(x) == IF x THEN "valid" ELSE "invalid" IN
  IF a = NoArg THEN (IF kind = "none" THEN "valid" ELSE "unjudged")
  ELSE CASE kind = "none" -> "unjudged"
    [] kind = "identifier" -> B(IsIdent(ts))
    [] kind = "idref" -> B(IsNodeId(ts))
    [] kind = "date" -> IF ~IsDateLex(ts) THEN "invalid"
                        ELSE IF DateMonth(ts) \in 1..12 /\ DateDay(ts) \in 1..28 THEN "valid" ELSE "unjudged"
    [] kind = "boolean" -> B(a \in EnumValues(kind))
    [] kind = "integer" -> IF ~IsInt(ts) THEN "invalid" ELSE IF Len(ts) <= 9 THEN "valid" ELSE "unjudged"
    [] kind = "nonneg" -> IF ~IsNonNeg(ts) THEN "invalid" ELSE IF Len(ts) <= 9 THEN "valid" ELSE "unjudged"
    [] kind = "maxel" -> IF a = "unbounded" THEN "valid" ELSE IF ~IsPosInt(ts) THEN "invalid" ELSE IF Len(ts) <= 9 THEN "valid" ELSE "unjudged"
    [] kind = "status" -> B(a \in EnumValues(kind))
    [] kind = "orderedby" -> B(a \in EnumValues(kind))
    [] kind = "deviate" -> B(a \in EnumValues(kind))
    [] kind = "range" -> RangeLike(ts, IsRangeBdry)
    [] kind = "length" -> RangeLike(ts, IsLengthBdry)
    [] kind = "key" -> ListLike(ts, IsNodeId)
    [] kind = "unique" -> ListLike(ts, IsDescId)
    [] kind = "absnode" -> B(IsAbsId(ts))
    [] kind = "descnode" -> B(IsDescId(ts))
    [] kind = "anynode" -> IF IsAbsId(ts) \/ IsDescId(ts) THEN "unjudged" ELSE "invalid"
    [] kind = "fracdigits" -> B(\/ (Len(ts) = 1 /\ ts[1] \in NzDigit)
                                \/ (Len(ts) = 2 /\ ts[1] = "1" /\ ts[2] \in Digit \ {"9"}))
    [] kind = "pattern" -> PatVerdict(ts)
    [] kind = "yangversion" -> IF a = "1" THEN "valid" ELSE "unjudged"
    [] OTHER -> "valid"

(* ------------------------------------------------------------------------- *)
(* Valid(tree): every violation, with where an error may point and what it names *)
IsExtKw(kw) == kw \notin Keywords /\ LET ps == Split(Toks(kw), {":"}) IN Len(ps) = 2 /\ IsIdent(ps[1]) /\ IsIdent(ps[2])
PId(t) == IF t.kw = "deviate" THEN (IF t.arg \in DeviateKinds THEN DevId(t.arg) ELSE "deviate ?") ELSE t.kw
Count(t, c) == Cardinality({i \in 1..Len(t.subs) : t.subs[i].kw = c})
ChildPaths(t, path, c) == {Append(path, i) : i \in {j \in 1..Len(t.subs) : t.subs[j].kw = c}}
F(kind, kw, path, at, judged) == [kind |-> kind, kw |-> kw, path |-> path, at |-> at, judged |-> judged]

(* Extension cardinalities.  parse.Parse takes, as its third argument, a function that gives the cardinality
   of the caller's (registered, configd: / opd:) extension statements under each parent; the cells of one call
   are E = [parent |-> [extension keyword |-> <<min, max>>]] and hold for THAT parse only.  A registered extension
   the function does not mention under a parent is not judged (the property says "accepted anywhere", the code's
   own table says "invalid substatement"; DESIGN Appendix A leaves the vyatta extensions to the code).        *)
NoExt == [p \in {} |-> << >>]
ExtOf(E, p) == IF p \in DOMAIN E THEN E[p] ELSE [c \in {} |-> <<0, 0>>]
Registered(c) == (Len(c) > 8 /\ SubSeq(c, 1, 8) = "configd:") \/ (Len(c) > 4 /\ SubSeq(c, 1, 4) = "opd:")
ExtFns ==
  [nil   |-> NoExt,
   empty |-> NoExt,
   opt   |-> [p \in {"leaf", "container", "description"} |-> [c \in {"configd:help"} |-> <<0, 1>>]],
   mand  |-> [p \in {"container", "list"} |-> IF p = "container" THEN [c \in {"configd:help"} |-> <<1, 1>>]
                                                                  ELSE [c \in {"configd:validate"} |-> <<1, N>>]],
   rep   |-> [p \in {"leaf", "typedef", "units"} |-> IF p = "typedef" THEN [c \in {"configd:help"} |-> <<0, N>>]
                                                                         ELSE [c \in {"configd:validate"} |-> <<0, N>>]],
   mix   |-> [p \in {"leaf", "module", "key"} |-> IF p = "leaf" THEN [c \in {"configd:help", "configd:validate"} |->
                                                                       IF c = "configd:help" THEN <<1, 1>> ELSE <<0, 1>>]
                                                                  ELSE [c \in {"configd:help"} |-> <<0, 1>>]]]
ExtNames == DOMAIN ExtFns

CardViolX(t, path, E) ==
  LET p == PId(t)   tab == Sub(p)   ex == ExtOf(E, p)
      kws == {t.subs[i].kw : i \in 1..Len(t.subs)} \cup DOMAIN tab \cup DOMAIN ex IN
  IF p = "deviate ?" THEN {}    \* the argument is the violation; substatements of an unknown kind are not judged
  ELSE UNION {
    LET n == Count(t, c)  here == {path} \cup ChildPaths(t, path, c) IN
    IF c \in DOMAIN ex THEN (IF n < ex[c][1] THEN {F("missing", c, path, {path}, TRUE)}
                             ELSE IF n > ex[c][2] THEN {F("too-many", c, path, here, TRUE)} ELSE {})
    ELSE IF Registered(c) THEN (IF n > 0 THEN {F("registered-extension", c, path, here, FALSE)} ELSE {})
    ELSE IF IsExtKw(c) THEN {}
    ELSE IF c \notin Keywords THEN {F("unknown-keyword", c, path, here, TRUE)}
    ELSE IF CellUnjudged(p, c, n) THEN {F("cell", c, path, here, FALSE)}
    ELSE IF c \notin DOMAIN tab THEN {F("not-allowed", c, path, here, TRUE)}
    ELSE IF n < tab[c][1] THEN {F("missing", c, path, {path}, TRUE)}
    ELSE IF n > tab[c][2] THEN {F("too-many", c, path, here, TRUE)}
    ELSE {} : c \in kws}
BodyViol(t, path) ==
  IF t.kw \in NeedsBody /\ ~\E i \in 1..Len(t.subs) : t.subs[i].kw \in DD \cup {"case"}
  THEN {F("no-body", t.kw, path, {path}, FALSE)} ELSE {}

\* section order: a statement of an earlier section after one of a later section
Ranks(t) == [i \in 1..Len(t.subs) |-> IF IsExtKw(t.subs[i].kw) \/ t.subs[i].kw \notin Keywords THEN 0 ELSE SectionRank(t.subs[i].kw)]
OrderViol(t, path) ==
  IF t.kw \notin {"module", "submodule"} THEN {}
  ELSE LET r == Ranks(t) IN
    {F("order", t.subs[i].kw, Append(path, i), {path, Append(path, i)}, TRUE) :
       i \in {j \in 1..Len(t.subs) : r[j] # 0 /\ \E k \in 1..(j-1) : r[k] > r[j]}}
\* revision dates strictly descending (dates compared as year, month, day numbers)
DateKey(ts) == <<ValOf(SubSeq(ts, 1, 4), 0), DateMonth(ts), DateDay(ts)>>
DateLess(a, b) == LET x == DateKey(Toks(a)) y == DateKey(Toks(b)) IN
  x[1] < y[1] \/ (x[1] = y[1] /\ (x[2] < y[2] \/ (x[2] = y[2] /\ x[3] < y[3])))
RevViol(t, path) ==
  IF t.kw \notin {"module", "submodule"} THEN {}
  ELSE LET rv == {i \in 1..Len(t.subs) : t.subs[i].kw = "revision" /\ ArgVerdict("date", t.subs[i].arg) = "valid"} IN
    {F("revision-order", "revision", Append(path, i), {path, Append(path, i)}, TRUE) :
       i \in {j \in rv : \E k \in rv : k < j /\ ~DateLess(t.subs[j].arg, t.subs[k].arg)}}
ArgViol(t, path, parentKw) ==
  LET v == ArgVerdict(ArgKind(t.kw, parentKw), t.arg)
      at == IF path = << >> THEN {path} ELSE {path, SubSeq(path, 1, Len(path) - 1)} IN
  IF v = "invalid" THEN {F("argument", t.kw, path, at, TRUE)}
  ELSE IF v = "unjudged" THEN {F("argument", t.kw, path, at, FALSE)} ELSE {}

RECURSIVE ViolAtX(_, _, _, _)
ViolAtX(t, path, parentKw, E) ==
  IF IsExtKw(t.kw) THEN      \* extension statements are accepted anywhere; what is inside them is not judged
    (IF \E i \in 1..Len(t.subs) : ~IsExtKw(t.subs[i].kw) THEN {F("inside-extension", t.kw, path, {path}, FALSE)} ELSE {})
  ELSE IF t.kw \notin Keywords THEN {}      \* reported by the parent as unknown-keyword
  ELSE ArgViol(t, path, parentKw) \cup CardViolX(t, path, E) \cup BodyViol(t, path)
       \cup OrderViol(t, path) \cup RevViol(t, path)
       \cup UNION {ViolAtX(t.subs[i], Append(path, i), t.kw, E) : i \in 1..Len(t.subs)}
ViolX(tree, E) == ViolAtX(tree, << >>, "", E)
Viol(tree) == ViolX(tree, NoExt)
\* Scoping of typedef / grouping names (no redefinition, no shadowing, no built-in type name) is a
\* semantic rule that the parser happens to enforce: trees that might break it are not judged.
Builtin == {"binary","bits","boolean","decimal64","empty","enumeration","identityref","instance-identifier",
            "int8","int16","int32","int64","leafref","string","uint8","uint16","uint32","uint64","union"}
RECURSIVE CountKw(_, _)
CountKw(t, kw) == (IF t.kw = kw THEN 1 ELSE 0) + FoldSum([i \in 1..Len(t.subs) |-> CountKw(t.subs[i], kw)])
RECURSIVE ArgsKw(_, _)
ArgsKw(t, kw) == (IF t.kw = kw THEN {t.arg} ELSE {}) \cup UNION {ArgsKw(t.subs[i], kw) : i \in 1..Len(t.subs)}
ScopeViol(tree) ==
  IF \/ \E kw \in {"typedef", "grouping"} : CountKw(tree, kw) > Cardinality(ArgsKw(tree, kw))
     \/ ArgsKw(tree, "typedef") \cap Builtin # {}
  THEN {F("name-scope", "typedef", << >>, {<< >>}, FALSE)} ELSE {}
RootViol(tree) == IF tree.kw \in {"module", "submodule"} THEN {} ELSE {F("root", tree.kw, << >>, {<< >>}, FALSE)}

\* the verdict the property prescribes
AllViolX(tree, E) == ViolX(tree, E) \cup RootViol(tree) \cup ScopeViol(tree)
AllViol(tree) == AllViolX(tree, NoExt)
ExpectOf(v) ==
  LET jv == {f \in v : f.judged} IN
  [verdict |-> IF v = {} THEN "accept" ELSE IF jv # {} THEN "reject" ELSE "unjudged",
   locate |-> jv # {} /\ jv = v,         \* with unjudged parts around, only the rejection itself is demanded
   bad |-> jv]
Expect(tree) == ExpectOf(AllViol(tree))
ExpectX(tree, E) == ExpectOf(AllViolX(tree, E))      \* the verdict of a parse that was given the extension cardinalities E
=============================================================================
